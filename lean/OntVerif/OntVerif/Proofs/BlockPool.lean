import OntVerif.Model.BlockPool
/-!
Helper lemmas for C31 (and the pool-level refinement obligations of C34): association lists, the two counting loops of
`commitDone`, the intake invariant "every stored signature is genuine". Core Lean only.
-/
namespace OntVerif.Proofs.BlockPool
open OntVerif.Model.BlockPool OntVerif.Gen.Quorum

/-! ### association lists -/
theorem lookup_setKey {β} (k i : Nat) (v : β) (m : List (Nat × β)) :
    lookup i (setKey k v m) = if i = k then some v else lookup i m := by
  induction m with
  | nil =>
    by_cases h : i = k
    · simp [setKey, lookup, h]
    · have : ¬ k = i := fun e => h e.symm
      simp [setKey, lookup, h, this]
  | cons hd tl ih =>
    obtain ⟨k', v'⟩ := hd
    by_cases hk : k' = k
    · by_cases h : i = k
      · simp [setKey, lookup, hk, h]
      · have : ¬ k = i := fun e => h e.symm
        simp [setKey, lookup, hk, h, this]
    · by_cases h : i = k
      · subst h
        simp [setKey, lookup, hk, ih]
      · by_cases h2 : k' = i
        · simp [setKey, lookup, h, h2]
        · simp [setKey, lookup, hk, h, h2, ih]

theorem mem_visit {β} (m : List (Nat × β)) (order : List Nat) (x : Nat × β) (h : x ∈ visit m order) :
    lookup x.1 m = some x.2 := by
  unfold visit at h
  rw [List.mem_filterMap] at h
  obtain ⟨k, _, hk⟩ := h
  cases hl : lookup k m with
  | none => simp [hl] at hk
  | some v => simp [hl] at hk; subst hk; simpa using hl

theorem visit_keys_sublist {β} (m : List (Nat × β)) (order : List Nat) :
    List.Sublist ((visit m order).map (·.1)) order := by
  unfold visit
  induction order with
  | nil => simp
  | cons k r ih =>
    rw [List.filterMap_cons]
    cases hl : lookup k m with
    | none => simp only [Option.map_none]; exact List.Sublist.cons _ ih
    | some v => simp only [Option.map_some, List.map_cons]; exact List.Sublist.cons_cons _ ih

theorem visit_keys_nodup {β} (m : List (Nat × β)) (order : List Nat) (h : order.Nodup) :
    ((visit m order).map (·.1)).Nodup := (visit_keys_sublist m order).nodup h

/-- non-empty endorse signatures for proposer `p` in one endorser's list -/
def occSigs (p : Nat) (sigs : List ESig) : Nat := (sigs.filter (fun s => !s.forEmpty && s.proposer == p)).length
def occ (p : Nat) (V : List (Nat × List ESig)) : Nat := (V.map (fun x => occSigs p x.2)).sum

theorem occSigs_cons (p : Nat) (s : ESig) (r : List ESig) :
    occSigs p (s :: r) = (if (!s.forEmpty && s.proposer == p) then 1 else 0) + occSigs p r := by
  unfold occSigs
  rw [List.filter_cons]
  split <;> simp <;> omega

theorem bump_self (cnt : Nat → Nat) (p : Nat) : bump cnt p p = cnt p + 1 := by simp [bump]
theorem bump_ne (cnt : Nat → Nat) (p q : Nat) (h : q ≠ p) : bump cnt p q = cnt q := by simp [bump, h]

theorem cdInner_bound (thr : Nat) (sigs : List ESig) (ec : Nat) (cnt : Nat → Nat) :
    (∀ p, (cdInner thr sigs ec cnt).2.1 p ≤ cnt p + occSigs p sigs) ∧
    (∀ p, (cdInner thr sigs ec cnt).2.2 = some p → thr < (cdInner thr sigs ec cnt).2.1 p) := by
  induction sigs generalizing ec cnt with
  | nil => simp [cdInner, occSigs]
  | cons s r ih =>
    cases hfe : s.forEmpty with
    | true =>
      have e : cdInner thr (s :: r) ec cnt = cdInner thr r (ec + 1) cnt := by simp [cdInner, hfe]
      rw [e]
      obtain ⟨h1, h2⟩ := ih (ec + 1) cnt
      refine ⟨fun p => ?_, h2⟩
      have := h1 p
      rw [occSigs_cons]; simp [hfe]; omega
    | false =>
      by_cases hthr : thr < bump cnt s.proposer s.proposer
      · have e : cdInner thr (s :: r) ec cnt = (ec, bump cnt s.proposer, some s.proposer) := by
          simp [cdInner, hfe, hthr]
        rw [e]
        refine ⟨fun p => ?_, fun p hp => ?_⟩
        · rw [occSigs_cons]
          by_cases hp : p = s.proposer
          · subst hp; show bump cnt s.proposer s.proposer ≤ _; rw [bump_self]; simp [hfe]
          · have : ¬ s.proposer = p := fun e => hp e.symm
            show bump cnt s.proposer p ≤ _
            rw [bump_ne _ _ _ hp]; simp [this]
        · simp at hp; subst hp; exact hthr
      · have e : cdInner thr (s :: r) ec cnt = cdInner thr r ec (bump cnt s.proposer) := by
          simp [cdInner, hfe, hthr]
        rw [e]
        obtain ⟨h1, h2⟩ := ih ec (bump cnt s.proposer)
        refine ⟨fun p => ?_, h2⟩
        have := h1 p
        rw [occSigs_cons]
        by_cases hp : p = s.proposer
        · subst hp; rw [bump_self] at this; simp [hfe]; omega
        · have hne : ¬ s.proposer = p := fun e => hp e.symm
          rw [bump_ne _ _ _ hp] at this; simp [hne]; omega

theorem cdOuter_bound (isEnd : Nat → Bool) (thr : Nat) (V : List (Nat × List ESig)) (ec : Nat) (cnt : Nat → Nat)
    (fe : Bool) (p : Nat) (fe' : Bool)
    (h : cdOuter isEnd thr V ec cnt fe = (p, fe')) (hp : p ≠ maxU32) : thr < cnt p + occ p V := by
  induction V generalizing ec cnt fe with
  | nil => simp [cdOuter] at h; exact absurd h.1.symm hp
  | cons x r ih =>
    obtain ⟨e, sigs⟩ := x
    unfold cdOuter at h
    simp only at h
    generalize hec1 : (if (!isEnd e) = true then ec + (List.filter (fun x => x.forEmpty) sigs).length else ec) = ec1 at h
    obtain ⟨b1, b2⟩ := cdInner_bound thr sigs ec1 cnt
    rcases hres : cdInner thr sigs ec1 cnt with ⟨ec2, cnt2, res⟩
    rw [hres] at h b1 b2
    simp only at b1 b2
    have hocc : occ p ((e, sigs) :: r) = occSigs p sigs + occ p r := by simp [occ]
    cases res with
    | none =>
      simp only at h
      have := ih _ _ _ h
      have := b1 p
      omega
    | some p0 =>
      simp only at h
      by_cases hp0 : p0 = maxU32
      · simp [hp0] at h
        have := ih _ _ _ h
        have := b1 p
        omega
      · have hb : (p0 != maxU32) = true := by simp [hp0]
        simp only [hb, if_true] at h
        have : p0 = p := by injection h
        subst this
        have := b2 p0 rfl
        have := b1 p0
        omega


theorem occ_le_filter (p : Nat) (V : List (Nat × List ESig)) (h : ∀ x ∈ V, occSigs p x.2 ≤ 1) :
    occ p V ≤ (V.filter (fun x => decide (0 < occSigs p x.2))).length := by
  induction V with
  | nil => simp [occ]
  | cons x r ih =>
    have hx := h x (by simp)
    have hr := ih (fun y hy => h y (by simp [hy]))
    have e : occ p (x :: r) = occSigs p x.2 + occ p r := by simp [occ]
    rw [e, List.filter_cons]
    by_cases h0 : 0 < occSigs p x.2
    · simp [h0]; omega
    · simp [h0]; omega

theorem occSigs_pos (p : Nat) (sigs : List ESig) (h : 0 < occSigs p sigs) :
    ∃ e ∈ sigs, e.forEmpty = false ∧ e.proposer = p := by
  unfold occSigs at h
  obtain ⟨e, he⟩ := List.exists_mem_of_length_pos h
  rw [List.mem_filter] at he
  refine ⟨e, he.1, ?_⟩
  have := he.2
  simp at this
  exact this

/-- the signature-count path: a verdict for `p` is backed by more than `thr` distinct endorser keys, each holding a
non-empty endorse signature for `p` -/
theorem fallback_signers (isEnd : Nat → Bool) (thr : Nat) (es : List (Nat × List ESig)) (order : List Nat)
    (hn : order.Nodup) (wf : ∀ i sigs p, lookup i es = some sigs → occSigs p sigs ≤ 1)
    (fe : Bool) (p : Nat) (fe' : Bool)
    (h : cdOuter isEnd thr (visit es order) 0 (fun _ => 0) fe = (p, fe')) (hp : p ≠ maxU32) :
    ∃ L : List Nat, L.Nodup ∧ thr < L.length ∧
      ∀ i ∈ L, ∃ sigs, lookup i es = some sigs ∧ ∃ e ∈ sigs, e.forEmpty = false ∧ e.proposer = p := by
  have hb := cdOuter_bound isEnd thr _ _ _ _ _ _ h hp
  simp only [Nat.zero_add] at hb
  have hle := occ_le_filter p (visit es order) (fun x hx => wf x.1 x.2 p (mem_visit es order x hx))
  refine ⟨((visit es order).filter (fun x => decide (0 < occSigs p x.2))).map (·.1), ?_, ?_, ?_⟩
  · exact (List.Sublist.map _ (List.filter_sublist)).nodup (visit_keys_nodup es order hn)
  · rw [List.length_map]; omega
  · intro i hi
    rw [List.mem_map] at hi
    obtain ⟨x, hx, rfl⟩ := hi
    rw [List.mem_filter] at hx
    refine ⟨x.2, mem_visit es order x hx.1, occSigs_pos p x.2 (by simpa using hx.2)⟩

/-! ### `getCommitConsensus` -/
theorem insertNew_of_mem (l : List Nat) (x : Nat) (h : x ∈ l) : insertNew l x = l := by
  simp [insertNew, h]
theorem insertNew_of_not_mem (l : List Nat) (x : Nat) (h : x ∉ l) : insertNew l x = l ++ [x] := by
  simp [insertNew, h]

theorem mem_insertNew (l : List Nat) (x i : Nat) : i ∈ insertNew l x ↔ i ∈ l ∨ i = x := by
  by_cases h : x ∈ l
  · rw [insertNew_of_mem l x h]
    constructor
    · exact Or.inl
    · rintro (h1 | h1)
      · exact h1
      · subst h1; exact h
  · rw [insertNew_of_not_mem l x h]; simp

theorem nodup_insertNew (l : List Nat) (x : Nat) (h : l.Nodup) : (insertNew l x).Nodup := by
  by_cases hc : x ∈ l
  · rw [insertNew_of_mem l x hc]; exact h
  · rw [insertNew_of_not_mem l x hc, List.nodup_append]
    refine ⟨h, by simp, ?_⟩
    intro a ha b hb
    simp at hb; subst hb
    intro e; subst e
    exact hc ha

theorem foldl_insertNew (xs l : List Nat) (h : l.Nodup) :
    (xs.foldl insertNew l).Nodup ∧ ∀ i, i ∈ xs.foldl insertNew l ↔ i ∈ l ∨ i ∈ xs := by
  induction xs generalizing l with
  | nil => simp [h]
  | cons x r ih =>
    simp only [List.foldl_cons]
    obtain ⟨h1, h2⟩ := ih (insertNew l x) (nodup_insertNew l x h)
    refine ⟨h1, fun i => ?_⟩
    rw [h2, mem_insertNew]
    simp [or_assoc]

theorem gccLoop_spec (v : Variant) (N : Nat) (all : List Commit) (r : List Commit) (ecc : Nat) (ec : Bool) (C : Nat)
    (sc : Nat → List Nat) (p : Nat) (ec' : Bool)
    (hr : ∀ m ∈ r, m ∈ all)
    (hsc : ∀ q, (sc q).Nodup ∧ ∀ i ∈ sc q, ∃ m ∈ all, m.proposer = q ∧ i ∈ m.signers)
    (h : gccLoop v N r ecc ec C sc = (p, ec')) (hp : p ≠ maxU32) :
    ∃ L : List Nat, L.Nodup ∧ (∀ i ∈ L, ∃ m ∈ all, m.proposer = p ∧ i ∈ m.signers) ∧ (∃ m ∈ all, m.proposer = p) ∧
      commitConsensus_q N ≤ gccCount v p L := by
  induction r generalizing ecc ec C sc with
  | nil => simp [gccLoop] at h; exact absurd h.1.symm hp
  | cons c r ih =>
    have hc : c ∈ all := hr c (by simp)
    have hsc1 : ∀ q, (bumpSet sc c.proposer c.signers q).Nodup ∧
        ∀ i ∈ bumpSet sc c.proposer c.signers q, ∃ m ∈ all, m.proposer = q ∧ i ∈ m.signers := by
      intro q
      unfold bumpSet
      by_cases hq : q = c.proposer
      · subst hq
        simp only [if_true]
        obtain ⟨n1, n2⟩ := foldl_insertNew c.signers (sc c.proposer) (hsc c.proposer).1
        refine ⟨n1, fun i hi => ?_⟩
        rcases (n2 i).mp hi with h1 | h1
        · exact (hsc c.proposer).2 i h1
        · exact ⟨c, hc, rfl, h1⟩
      · simp only [hq, if_false]; exact hsc q
    unfold gccLoop at h
    simp only at h
    by_cases hcnt : commitConsensus_q N ≤ gccCount v c.proposer (bumpSet sc c.proposer c.signers c.proposer)
    · have hge : gccCount v c.proposer (bumpSet sc c.proposer c.signers c.proposer) ≥ commitConsensus_q N := hcnt
      simp only [hge, if_true] at h
      have : c.proposer = p := by injection h
      subst this
      exact ⟨_, (hsc1 c.proposer).1, (hsc1 c.proposer).2, ⟨c, hc, rfl⟩, hcnt⟩
    · have hge : ¬ (gccCount v c.proposer (bumpSet sc c.proposer c.signers c.proposer) ≥ commitConsensus_q N) := hcnt
      simp only [hge, if_false] at h
      exact ih _ _ _ _ (fun m hm => hr m (by simp [hm])) hsc1 h


/-! ### the invariant "every signature in the pool is genuine" -/

def GoodCommit (N : Nat) (props : List Proposal) (m : Commit) : Prop :=
  m.committer < N ∧ genuineSig m.committer m.proposer m.forEmpty m.sig = true ∧
  (∀ e ∈ m.endorsers, e.1 < N ∧ genuineSig e.1 m.proposer m.forEmpty e.2 = true) ∧
  m.proposer < N ∧
  (genuineSig m.proposer m.proposer m.forEmpty m.psig = true ∨ ∃ pr ∈ props, pr.proposer = m.proposer)

structure Inv (N : Nat) (c : Cand) : Prop where
  wf : ∀ i sigs p, lookup i c.endorseSigs = some sigs → occSigs p sigs ≤ 1
  ge : ∀ i sigs, lookup i c.endorseSigs = some sigs → ∀ e ∈ sigs, i < N ∧ genuineSig i e.proposer e.forEmpty e.sig = true
  cm : ∀ m ∈ c.commitMsgs, GoodCommit N c.proposals m
  pr : ∀ pr ∈ c.proposals, pr.proposer < N ∧ genuineSig pr.proposer pr.proposer false pr.sig = true

theorem genuineFor_of_esig (N : Nat) (c : Cand) (p i : Nat) (sigs : List ESig) (e : ESig)
    (hl : lookup i c.endorseSigs = some sigs) (he : e ∈ sigs) (hp : e.proposer = p) (hi : i < N)
    (hg : genuineSig i p e.forEmpty e.sig = true) : genuineFor N c p i = true := by
  unfold genuineFor
  have : (sigs.any fun e => e.proposer == p && genuineSig i p e.forEmpty e.sig) = true :=
    List.any_eq_true.mpr ⟨e, he, by simp [hp, hg]⟩
  simp [hi, hl, this]

theorem genuineFor_of_signer (N : Nat) (c : Cand) (p i : Nat) (m : Commit) (hm : m ∈ c.commitMsgs)
    (hp : m.proposer = p) (hs : i ∈ m.signers) (hg : GoodCommit N c.proposals m) : genuineFor N c p i = true := by
  obtain ⟨g1, g2, g3, _, _⟩ := hg
  unfold Commit.signers at hs
  rw [List.mem_cons] at hs
  have hiN : i < N := by
    rcases hs with rfl | hs
    · exact g1
    · rw [List.mem_map] at hs; obtain ⟨e, he, rfl⟩ := hs; exact (g3 e he).1
  have : (c.commitMsgs.any fun m => m.proposer == p &&
        ( (m.committer == i && genuineSig i p m.forEmpty m.sig)
        || m.endorsers.any (fun e => e.1 == i && genuineSig i p m.forEmpty e.2)
        || (i == p && genuineSig p p m.forEmpty m.psig))) = true := by
    refine List.any_eq_true.mpr ⟨m, hm, ?_⟩
    rcases hs with rfl | hs
    · subst hp; simp [g2]
    · rw [List.mem_map] at hs
      obtain ⟨e, he, rfl⟩ := hs
      have : (m.endorsers.any fun e' => e'.1 == e.1 && genuineSig e.1 p m.forEmpty e'.2) = true :=
        List.any_eq_true.mpr ⟨e, he, by subst hp; simp [(g3 e he).2]⟩
      subst hp; simp [this]
  unfold genuineFor
  simp [hiN, this]

theorem genuineFor_proposer (N : Nat) (c : Cand) (p : Nat) (m : Commit) (hm : m ∈ c.commitMsgs)
    (hp : m.proposer = p) (hg : GoodCommit N c.proposals m)
    (hpr : ∀ pr ∈ c.proposals, pr.proposer < N ∧ genuineSig pr.proposer pr.proposer false pr.sig = true) :
    genuineFor N c p p = true := by
  obtain ⟨_, _, _, g4, g5⟩ := hg
  subst hp
  rcases g5 with g5 | ⟨pr, hpr1, hpr2⟩
  · unfold genuineFor
    simp [g4]
    exact Or.inl (Or.inr ⟨m, hm, rfl, Or.inr g5⟩)
  · have h2 := (hpr pr hpr1).2
    rw [hpr2] at h2
    unfold genuineFor
    simp [g4]
    exact Or.inr ⟨pr, hpr1, hpr2, h2⟩

theorem count_le_genuine (N : Nat) (c : Cand) (p : Nat) (L : List Nat) (hn : L.Nodup)
    (hg : ∀ i ∈ L, genuineFor N c p i = true) : L.length ≤ genuineCount N c p := by
  unfold genuineCount
  apply hn.length_le_of_subset
  intro i hi
  have h := hg i hi
  rw [List.mem_filter, List.mem_range]
  refine ⟨?_, h⟩
  unfold genuineFor at h
  simp only [Bool.and_eq_true, decide_eq_true_eq] at h
  exact h.1


/-- **Counting theorem.** If every signature in the pool is genuine, a `commitDone` verdict for `p` is backed by at least
`N-(N-1)/3` distinct consensus peers with a genuine signature for `p` — for `.asShipped` provided no proposer is recorded
as committer/endorser of its own proposal (the unconditional `+1` of `getCommitConsensus`). -/
theorem commitDone_count (v : Variant) (N Csrv : Nat) (endorsers : List Nat) (c : Cand) (order : List Nat)
    (C p : Nat) (fe : Bool) (inv : Inv N c) (hn : order.Nodup)
    (hself : v = .asShipped → ∀ m ∈ c.commitMsgs, m.proposer ∉ m.signers)
    (h : commitDone v N Csrv endorsers c order C = (p, fe, true)) :
    commitConsensus_q N ≤ genuineCount N c p := by
  unfold commitDone at h
  rcases hg : getCommitConsensus v c.commitMsgs C N with ⟨p1, fe1⟩
  rw [hg] at h
  simp only at h
  by_cases hp1 : p1 = maxU32
  · -- signature-count path
    have hb : (p1 == maxU32) = true := by simp [hp1]
    simp only [hb, if_true] at h
    rcases ho : cdOuter (isEndorser N Csrv endorsers) (commitDone_C N) (visit c.endorseSigs order) 0 (fun _ => 0) fe1
      with ⟨p2, fe2⟩
    rw [ho] at h
    simp only at h
    by_cases hp2 : p2 = maxU32
    · simp [hp2] at h
    · have hb2 : (p2 != maxU32) = true := by simp [hp2]
      simp only [hb2, if_true] at h
      have e : p2 = p := by injection h
      subst e
      obtain ⟨L, ln, ll, lm⟩ := fallback_signers _ _ _ _ hn inv.wf _ _ _ ho hp2
      have hc := count_le_genuine N c p2 L ln (fun i hi => by
        obtain ⟨sigs, hl, e, he, _, hep⟩ := lm i hi
        have := inv.ge i sigs hl e he
        exact genuineFor_of_esig N c p2 i sigs e hl he hep this.1 (by rw [← hep]; exact this.2))
      unfold commitDone_C at ll
      unfold commitConsensus_q
      omega
  · -- commit-message path
    have hb : (p1 == maxU32) = false := by simp [hp1]
    simp [hb, hp1] at h
    obtain ⟨e, _⟩ := h
    subst e
    unfold getCommitConsensus at hg
    obtain ⟨L, ln, lm, ⟨m0, hm0, hm0p⟩, lc⟩ :=
      gccLoop_spec v N c.commitMsgs c.commitMsgs 0 false C (fun _ => []) p1 fe1 (fun m hm => hm)
        (fun q => ⟨by simp, by simp⟩) hg hp1
    have hLg : ∀ i ∈ L, genuineFor N c p1 i = true := fun i hi => by
      obtain ⟨m, hm, hmp, hs⟩ := lm i hi
      exact genuineFor_of_signer N c p1 i m hm hmp hs (inv.cm m hm)
    have hpg : genuineFor N c p1 p1 = true := genuineFor_proposer N c p1 m0 hm0 hm0p (inv.cm m0 hm0) inv.pr
    cases v with
    | asShipped =>
      have hnot : p1 ∉ L := fun hin => by
        obtain ⟨m, hm, hmp, hs⟩ := lm p1 hin
        exact hself rfl m hm (hmp ▸ hs)
      have := count_le_genuine N c p1 (p1 :: L) (List.nodup_cons.mpr ⟨hnot, ln⟩) (fun i hi => by
        rcases List.mem_cons.mp hi with rfl | hi
        · exact hpg
        · exact hLg i hi)
      simp only [gccCount, commitConsensus_lhs] at lc
      simp only [List.length_cons] at this
      omega
    | sound =>
      have := count_le_genuine N c p1 (insertNew L p1) (nodup_insertNew L p1 ln) (fun i hi => by
        rcases (mem_insertNew L p1 i).mp hi with hi | rfl
        · exact hLg i hi
        · exact hpg)
      simp only [gccCount] at lc
      omega


/-! ### intake preserves the invariant -/

theorem lookup_addEndorse (es : List (Nat × List ESig)) (k : Nat) (e : ESig) (cm : Bool) (i : Nat) (sigs' : List ESig)
    (h : lookup i (addEndorse es k e cm) = some sigs') :
    lookup i es = some sigs' ∨ (i = k ∧ (sigs' = [e] ∨ ∃ sigs, lookup k es = some sigs ∧ sigs' = sigs ++ [e] ∧
        (e.forEmpty = true ∨ sigs.any (·.proposer == e.proposer) = false))) := by
  unfold addEndorse at h
  have key : ∀ v, lookup i (setKey k v es) = some sigs' → lookup i es = some sigs' ∨ (i = k ∧ sigs' = v) := by
    intro v hv
    rw [lookup_setKey] at hv
    by_cases hik : i = k
    · simp [hik] at hv; exact Or.inr ⟨hik, hv.symm⟩
    · simp [hik] at hv; exact Or.inl hv
  cases hl : lookup k es with
  | none =>
    simp only [hl] at h
    rcases key _ h with h1 | ⟨h1, h2⟩
    · exact Or.inl h1
    · exact Or.inr ⟨h1, Or.inl h2⟩
  | some sigs =>
    cases cm with
    | true =>
      simp only [hl] at h
      rcases key _ h with h1 | ⟨h1, h2⟩
      · exact Or.inl h1
      · exact Or.inr ⟨h1, Or.inl h2⟩
    | false =>
      simp only [hl] at h
      by_cases h1 : sigs.any (·.forEmpty) = true
      · simp only [h1, if_true] at h; exact Or.inl h
      · simp only [h1] at h
        by_cases h2 : e.forEmpty = true
        · simp only [h2, if_true] at h
          rcases key _ h with h3 | ⟨h3, h4⟩
          · exact Or.inl h3
          · exact Or.inr ⟨h3, Or.inr ⟨sigs, rfl, h4, Or.inl h2⟩⟩
        · simp only [h2] at h
          by_cases h5 : sigs.any (·.proposer == e.proposer) = true
          · simp only [h5, if_true] at h; exact Or.inl h
          · simp only [h5] at h
            rcases key _ h with h3 | ⟨h3, h4⟩
            · exact Or.inl h3
            · exact Or.inr ⟨h3, Or.inr ⟨sigs, rfl, h4, Or.inr (by simpa using h5)⟩⟩

theorem occSigs_append (p : Nat) (a b : List ESig) : occSigs p (a ++ b) = occSigs p a + occSigs p b := by
  simp [occSigs, List.filter_append]

theorem occSigs_single_le (p : Nat) (e : ESig) : occSigs p [e] ≤ 1 := by
  unfold occSigs
  exact Nat.le_trans (List.length_filter_le _ _) (by simp)

def WF (es : List (Nat × List ESig)) : Prop := ∀ i sigs p, lookup i es = some sigs → occSigs p sigs ≤ 1
def GE (N : Nat) (es : List (Nat × List ESig)) : Prop :=
  ∀ i sigs, lookup i es = some sigs → ∀ e ∈ sigs, i < N ∧ genuineSig i e.proposer e.forEmpty e.sig = true

theorem addEndorse_wf (es : List (Nat × List ESig)) (k : Nat) (e : ESig) (cm : Bool) (h : WF es) :
    WF (addEndorse es k e cm) := by
  intro i sigs' p hl
  rcases lookup_addEndorse es k e cm i sigs' hl with h1 | ⟨_, h2 | ⟨sigs, h3, h4, h5⟩⟩
  · exact h i sigs' p h1
  · subst h2; exact occSigs_single_le p e
  · subst h4
    rw [occSigs_append]
    have hs := h k sigs p h3
    rcases h5 with h5 | h5
    · have : occSigs p [e] = 0 := by simp [occSigs, h5]
      omega
    · by_cases hp : e.proposer = p
      · have : occSigs p sigs = 0 := by
          unfold occSigs
          rw [List.length_eq_zero_iff, List.filter_eq_nil_iff]
          intro s hs
          have := List.any_eq_false.mp h5 s hs
          simp at this
          simp
          intro _
          rw [← hp]; exact this
        have := occSigs_single_le p e
        omega
      · have : occSigs p [e] = 0 := by simp [occSigs, hp]
        omega

theorem addEndorse_ge (N : Nat) (es : List (Nat × List ESig)) (k : Nat) (e : ESig) (cm : Bool) (h : GE N es)
    (hk : k < N) (hg : genuineSig k e.proposer e.forEmpty e.sig = true) : GE N (addEndorse es k e cm) := by
  intro i sigs' hl x hx
  rcases lookup_addEndorse es k e cm i sigs' hl with h1 | ⟨hik, h2 | ⟨sigs, h3, h4, _⟩⟩
  · exact h i sigs' h1 x hx
  · subst h2; subst hik; simp at hx; subst hx; exact ⟨hk, hg⟩
  · subst h4; subst hik
    rw [List.mem_append] at hx
    rcases hx with hx | hx
    · exact h i sigs h3 x hx
    · simp at hx; subst hx; exact ⟨hk, hg⟩

theorem foldl_addEndorse_wf (l : List (Nat × Sig)) (p : Nat) (fe : Bool) (es : List (Nat × List ESig)) (h : WF es) :
    WF (l.foldl (fun es (e : Nat × Sig) => addEndorse es e.1 ⟨p, fe, e.2⟩ false) es) := by
  induction l generalizing es with
  | nil => exact h
  | cons x r ih => exact ih _ (addEndorse_wf es x.1 _ false h)

theorem foldl_addEndorse_ge (N : Nat) (l : List (Nat × Sig)) (p : Nat) (fe : Bool) (es : List (Nat × List ESig))
    (h : GE N es) (hl : ∀ e ∈ l, e.1 < N ∧ genuineSig e.1 p fe e.2 = true) :
    GE N (l.foldl (fun es (e : Nat × Sig) => addEndorse es e.1 ⟨p, fe, e.2⟩ false) es) := by
  induction l generalizing es with
  | nil => exact h
  | cons x r ih =>
    have hx := hl x (by simp)
    exact ih _ (addEndorse_ge N es x.1 _ false h hx.1 hx.2) (fun e he => hl e (by simp [he]))

theorem GoodCommit_mono (N : Nat) (ps qs : List Proposal) (m : Commit) (h : GoodCommit N ps m) :
    GoodCommit N (ps ++ qs) m := by
  obtain ⟨a, b, c, d, e⟩ := h
  refine ⟨a, b, c, d, ?_⟩
  rcases e with e | ⟨pr, h1, h2⟩
  · exact Or.inl e
  · exact Or.inr ⟨pr, by simp [h1], h2⟩

theorem genuineSig_valid (i p : Nat) (fe : Bool) (h : Hash) (hh : isBlockHashOf p fe h = true) :
    genuineSig i p fe (.valid i h) = true := by simp [genuineSig, hh]

theorem isBlockHashOf_blockHash (p ver : Nat) (fe : Bool) : isBlockHashOf p fe (blockHash p ver fe) = true := by
  simp [isBlockHashOf, blockHash]

theorem inv_empty (N : Nat) : Inv N {} :=
  ⟨fun _ _ _ h => by simp [lookup] at h, fun _ _ h => by simp [lookup] at h, fun _ h => by simp at h, fun _ h => by simp at h⟩

theorem inv_newBlockProposal (N : Nat) (c : Cand) (m : Proposal) (inv : Inv N c) (hv : verifyProposal N m = true) :
    Inv N (newBlockProposal c m).2 := by
  unfold newBlockProposal
  cases hf : c.proposals.find? (·.proposer == m.proposer) with
  | some p0 => simp only; split <;> exact inv
  | none =>
    simp only
    unfold verifyProposal at hv
    simp only [Bool.and_eq_true, decide_eq_true_eq, beq_iff_eq] at hv
    obtain ⟨⟨hN, hs⟩, _⟩ := hv
    have hg : genuineSig m.proposer m.proposer false m.sig = true := by
      rw [hs]; exact genuineSig_valid _ _ _ _ (isBlockHashOf_blockHash _ _ _)
    refine ⟨addEndorse_wf _ _ _ _ inv.wf, addEndorse_ge N _ _ _ _ inv.ge hN hg, ?_, ?_⟩
    · intro x hx; exact GoodCommit_mono N _ _ x (inv.cm x hx)
    · intro pr hpr
      simp only [List.mem_append, List.mem_singleton] at hpr
      rcases hpr with hpr | rfl
      · exact inv.pr pr hpr
      · exact ⟨hN, hg⟩

theorem inv_newBlockEndorsement (N : Nat) (c : Cand) (m : Endorse) (inv : Inv N c) (hk : m.endorser < N)
    (hg : genuineSig m.endorser m.proposer m.forEmpty m.sig = true) : Inv N (newBlockEndorsement c m) := by
  unfold newBlockEndorsement
  exact ⟨addEndorse_wf _ _ _ _ inv.wf, addEndorse_ge N _ _ _ _ inv.ge hk hg, inv.cm, inv.pr⟩

theorem inv_newBlockCommitment (N : Nat) (c : Cand) (m : Commit) (inv : Inv N c) (hg : GoodCommit N c.proposals m) :
    Inv N (newBlockCommitment c m).2 := by
  unfold newBlockCommitment
  cases hf : c.commitMsgs.find? (·.committer == m.committer) with
  | some c0 => simp only; split <;> exact inv
  | none =>
    simp only
    obtain ⟨g1, g2, g3, g4, g5⟩ := hg
    refine ⟨addEndorse_wf _ _ _ _ (foldl_addEndorse_wf _ _ _ _ inv.wf),
      addEndorse_ge N _ _ _ _ (foldl_addEndorse_ge N _ _ _ _ inv.ge g3) g1 g2, ?_, inv.pr⟩
    intro x hx
    simp only [List.mem_append, List.mem_singleton] at hx
    rcases hx with hx | rfl
    · exact inv.cm x hx
    · exact ⟨g1, g2, g3, g4, g5⟩


/-- a delivery whose every signature is what the message claims: the claimed endorser/committer is the sender, the signed
hash is the hash of a block of the named proposer, every `EndorsersSig` entry and the `ProposerSig` copy verify, and the
proposer does not vouch for its own proposal -/
def CleanDelivery (N : Nat) : Delivery → Prop
  | .proposal _ => True
  | .endorse s m => m.endorser = s ∧ isBlockHashOf m.proposer m.forEmpty m.hash = true
  | .commit s m => m.committer = s ∧ isBlockHashOf m.proposer m.forEmpty m.hash = true ∧ m.proposer < N ∧
      genuineSig m.proposer m.proposer m.forEmpty m.psig = true ∧
      (∀ e ∈ m.endorsers, e.1 < N ∧ e.2 = .valid e.1 m.hash) ∧ m.proposer ∉ m.signers

def NoSelfVouch (c : Cand) : Prop := ∀ m ∈ c.commitMsgs, m.proposer ∉ m.signers

theorem knownHash_spec (c : Cand) (p : Nat) (fe : Bool) (h : Hash) (hk : knownHash c p fe h = true) :
    isBlockHashOf p fe h = true ∧ ∃ pr ∈ c.proposals, pr.proposer = p := by
  unfold knownHash at hk
  cases hf : c.proposals.find? (·.proposer == p) with
  | none => simp [hf] at hk
  | some pr =>
    simp only [hf, beq_iff_eq] at hk
    subst hk
    refine ⟨isBlockHashOf_blockHash _ _ _, pr, List.mem_of_find?_eq_some hf, ?_⟩
    have := List.find?_some hf
    simpa using this

theorem newBlockCommitment_msgs (c : Cand) (m : Commit) :
    ∀ x ∈ (newBlockCommitment c m).2.commitMsgs, x ∈ c.commitMsgs ∨ x = m := by
  unfold newBlockCommitment
  cases hf : c.commitMsgs.find? (·.committer == m.committer) with
  | some c0 => simp only; split <;> exact fun x hx => Or.inl hx
  | none => simp only; intro x hx; simpa using hx

theorem inv_deliver_asShipped (N : Nat) (c : Cand) (d : Delivery) (inv : Inv N c) (hc : CleanDelivery N d) :
    Inv N (deliver .asShipped N c d).2 := by
  cases d with
  | proposal m =>
    unfold deliver
    by_cases hv : verifyProposal N m = true
    · simp only [hv, if_true]; exact inv_newBlockProposal N c m inv hv
    · simp only [hv]; exact inv
  | endorse s m =>
    unfold deliver
    by_cases hv : verifyEndorse N s m = true
    · simp only [hv, if_true]
      unfold verifyEndorse at hv
      simp only [Bool.and_eq_true, decide_eq_true_eq, beq_iff_eq] at hv
      obtain ⟨h1, h2⟩ := hc
      refine inv_newBlockEndorsement N c m inv (h1 ▸ hv.1) ?_
      rw [hv.2, h1]; exact genuineSig_valid _ _ _ _ h2
    · simp only [hv]; exact inv
  | commit s m =>
    unfold deliver
    by_cases hv : verifyCommit N s m = true
    · simp only [hv, if_true]
      unfold verifyCommit at hv
      simp only [Bool.and_eq_true, decide_eq_true_eq, beq_iff_eq] at hv
      obtain ⟨h1, h2, h3, h4, h5, _⟩ := hc
      refine inv_newBlockCommitment N c m inv ⟨h1 ▸ hv.1, ?_, ?_, h3, Or.inl h4⟩
      · rw [hv.2, h1]; exact genuineSig_valid _ _ _ _ h2
      · intro e he
        obtain ⟨e1, e2⟩ := h5 e he
        exact ⟨e1, by rw [e2]; exact genuineSig_valid _ _ _ _ h2⟩
    · simp only [hv]; exact inv

theorem newBlockProposal_msgs (c : Cand) (m : Proposal) : (newBlockProposal c m).2.commitMsgs = c.commitMsgs := by
  unfold newBlockProposal
  cases hf : c.proposals.find? (·.proposer == m.proposer) with
  | some p0 => simp only; split <;> rfl
  | none => rfl

theorem noSelf_deliver_asShipped (N : Nat) (c : Cand) (d : Delivery) (hn : NoSelfVouch c) (hc : CleanDelivery N d) :
    NoSelfVouch (deliver .asShipped N c d).2 := by
  cases d with
  | proposal m =>
    unfold deliver
    by_cases hv : verifyProposal N m = true
    · simp only [hv, if_true]
      intro x hx; rw [newBlockProposal_msgs] at hx; exact hn x hx
    · simp only [hv]; exact hn
  | endorse s m =>
    unfold deliver
    by_cases hv : verifyEndorse N s m = true
    · simp only [hv, if_true]; exact hn
    · simp only [hv]; exact hn
  | commit s m =>
    unfold deliver
    by_cases hv : verifyCommit N s m = true
    · simp only [hv, if_true]
      intro x hx
      rcases newBlockCommitment_msgs c m x hx with h | rfl
      · exact hn x h
      · exact hc.2.2.2.2.2
    · simp only [hv]; exact hn

theorem inv_deliver_sound (N : Nat) (c : Cand) (d : Delivery) (inv : Inv N c) : Inv N (deliver .sound N c d).2 := by
  cases d with
  | proposal m =>
    unfold deliver
    by_cases hv : verifyProposal N m = true
    · simp only [hv, if_true]; exact inv_newBlockProposal N c m inv hv
    · simp only [hv]; exact inv
  | endorse s m =>
    unfold deliver
    by_cases hv : verifyEndorse N s m = true
    · simp only [hv, if_true]
      by_cases hs : soundEndorse c s m = true
      · simp only [hs, if_true]
        unfold verifyEndorse at hv
        unfold soundEndorse at hs
        simp only [Bool.and_eq_true, decide_eq_true_eq, beq_iff_eq] at hv hs
        obtain ⟨⟨h1, h2⟩, _⟩ := hs
        refine inv_newBlockEndorsement N c m inv (h1 ▸ hv.1) ?_
        rw [hv.2, h1]; exact genuineSig_valid _ _ _ _ (knownHash_spec _ _ _ _ h2).1
      · simp only [hs]; exact inv
    · simp only [hv]; exact inv
  | commit s m =>
    unfold deliver
    by_cases hv : verifyCommit N s m = true
    · simp only [hv, if_true]
      cases hs : soundCommit N c s m with
      | none => simp only; exact inv
      | some m' =>
        simp only
        unfold verifyCommit at hv
        unfold soundCommit at hs
        simp only [Bool.and_eq_true, decide_eq_true_eq, beq_iff_eq] at hv
        split at hs
        · rename_i hcond
          simp only [Bool.and_eq_true, beq_iff_eq] at hcond
          obtain ⟨⟨h1, h2⟩, _⟩ := hcond
          simp only [Option.some.injEq] at hs
          subst hs
          obtain ⟨kh, pr, hpr, hprp⟩ := knownHash_spec _ _ _ _ h2
          refine inv_newBlockCommitment N c _ inv ⟨h1 ▸ hv.1, ?_, ?_, ?_, Or.inr ⟨pr, hpr, hprp⟩⟩
          · show genuineSig m.committer m.proposer m.forEmpty m.sig = true
            rw [hv.2, h1]; exact genuineSig_valid _ _ _ _ kh
          · intro e he
            simp only [List.mem_filter, Bool.and_eq_true, decide_eq_true_eq, beq_iff_eq] at he
            exact ⟨he.2.1, by rw [he.2.2]; exact genuineSig_valid _ _ _ _ kh⟩
          · show m.proposer < N
            rw [← hprp]; exact (inv.pr pr hpr).1
        · simp at hs
    · simp only [hv]; exact inv

theorem inv_run_sound (N : Nat) (c : Cand) (hist : List Delivery) (inv : Inv N c) : Inv N (run .sound N c hist) := by
  induction hist generalizing c with
  | nil => exact inv
  | cons d r ih => exact ih _ (inv_deliver_sound N c d inv)

theorem inv_run_asShipped (N : Nat) (c : Cand) (hist : List Delivery) (inv : Inv N c) (hn : NoSelfVouch c)
    (hc : ∀ d ∈ hist, CleanDelivery N d) :
    Inv N (run .asShipped N c hist) ∧ NoSelfVouch (run .asShipped N c hist) := by
  induction hist generalizing c with
  | nil => exact ⟨inv, hn⟩
  | cons d r ih =>
    exact ih _ (inv_deliver_asShipped N c d inv (hc d (by simp))) (noSelf_deliver_asShipped N c d hn (hc d (by simp)))
      (fun x hx => hc x (by simp [hx]))


/-! ### map iteration order: the `done` component of the signature-count path -/

theorem cdInner_none (thr : Nat) (sigs : List ESig) (ec : Nat) (cnt : Nat → Nat)
    (h : (cdInner thr sigs ec cnt).2.2 = none) (hc : ∀ p, cnt p ≤ thr) :
    (∀ p, (cdInner thr sigs ec cnt).2.1 p = cnt p + occSigs p sigs) ∧ (∀ p, (cdInner thr sigs ec cnt).2.1 p ≤ thr) := by
  induction sigs generalizing ec cnt with
  | nil => simp [cdInner, occSigs, hc]
  | cons s r ih =>
    cases hfe : s.forEmpty with
    | true =>
      have e : cdInner thr (s :: r) ec cnt = cdInner thr r (ec + 1) cnt := by simp [cdInner, hfe]
      rw [e] at h ⊢
      obtain ⟨h1, h2⟩ := ih (ec + 1) cnt h hc
      refine ⟨fun p => ?_, h2⟩
      rw [h1 p, occSigs_cons]; simp [hfe]
    | false =>
      by_cases hthr : thr < bump cnt s.proposer s.proposer
      · have e : cdInner thr (s :: r) ec cnt = (ec, bump cnt s.proposer, some s.proposer) := by
          simp [cdInner, hfe, hthr]
        rw [e] at h; simp at h
      · have e : cdInner thr (s :: r) ec cnt = cdInner thr r ec (bump cnt s.proposer) := by
          simp [cdInner, hfe, hthr]
        rw [e] at h ⊢
        have hc' : ∀ p, bump cnt s.proposer p ≤ thr := by
          intro p
          by_cases hp : p = s.proposer
          · subst hp; omega
          · rw [bump_ne _ _ _ hp]; exact hc p
        obtain ⟨h1, h2⟩ := ih ec (bump cnt s.proposer) h hc'
        refine ⟨fun p => ?_, h2⟩
        rw [h1 p, occSigs_cons]
        by_cases hp : p = s.proposer
        · subst hp; rw [bump_self]; simp [hfe]; omega
        · have hne : ¬ s.proposer = p := fun e => hp e.symm
          rw [bump_ne _ _ _ hp]; simp [hne]

theorem cdInner_some_mem (thr : Nat) (sigs : List ESig) (ec : Nat) (cnt : Nat → Nat) (p : Nat)
    (h : (cdInner thr sigs ec cnt).2.2 = some p) : ∃ s ∈ sigs, s.proposer = p := by
  induction sigs generalizing ec cnt with
  | nil => simp [cdInner] at h
  | cons s r ih =>
    cases hfe : s.forEmpty with
    | true =>
      have e : cdInner thr (s :: r) ec cnt = cdInner thr r (ec + 1) cnt := by simp [cdInner, hfe]
      rw [e] at h
      obtain ⟨x, hx, hp⟩ := ih _ _ h
      exact ⟨x, by simp [hx], hp⟩
    | false =>
      by_cases hthr : thr < bump cnt s.proposer s.proposer
      · have e : cdInner thr (s :: r) ec cnt = (ec, bump cnt s.proposer, some s.proposer) := by
          simp [cdInner, hfe, hthr]
        rw [e] at h; simp at h
        exact ⟨s, by simp, h⟩
      · have e : cdInner thr (s :: r) ec cnt = cdInner thr r ec (bump cnt s.proposer) := by
          simp [cdInner, hfe, hthr]
        rw [e] at h
        obtain ⟨x, hx, hp⟩ := ih _ _ h
        exact ⟨x, by simp [hx], hp⟩

/-- no verdict ⇒ no proposer has more than `thr` non-empty endorse signatures (when no entry names the sentinel) -/
theorem cdOuter_none (isEnd : Nat → Bool) (thr : Nat) (V : List (Nat × List ESig)) (ec : Nat) (cnt : Nat → Nat)
    (fe : Bool) (fe' : Bool) (hs : ∀ x ∈ V, ∀ s ∈ x.2, s.proposer ≠ maxU32) (hc : ∀ p, cnt p ≤ thr)
    (h : cdOuter isEnd thr V ec cnt fe = (maxU32, fe')) : ∀ p, cnt p + occ p V ≤ thr := by
  induction V generalizing ec cnt fe with
  | nil => intro p; simp [occ]; exact hc p
  | cons x r ih =>
    obtain ⟨e, sigs⟩ := x
    unfold cdOuter at h
    simp only at h
    generalize hec1 : (if (!isEnd e) = true then ec + (List.filter (fun x => x.forEmpty) sigs).length else ec) = ec1 at h
    have hn := cdInner_none thr sigs ec1 cnt
    have hm := cdInner_some_mem thr sigs ec1 cnt
    rcases hres : cdInner thr sigs ec1 cnt with ⟨ec2, cnt2, res⟩
    rw [hres] at h hn hm
    simp only at hn hm
    have hocc : ∀ p, occ p ((e, sigs) :: r) = occSigs p sigs + occ p r := by intro p; simp [occ]
    cases res with
    | none =>
      simp only at h
      obtain ⟨h1, h2⟩ := hn rfl hc
      intro p
      have := ih _ _ _ (fun y hy => hs y (by simp [hy])) h2 h p
      rw [h1 p] at this; rw [hocc]; omega
    | some p0 =>
      simp only at h
      obtain ⟨s, hsm, hsp⟩ := hm p0 rfl
      have hp0 : p0 ≠ maxU32 := hsp ▸ hs (e, sigs) (by simp) s hsm
      have hb : (p0 != maxU32) = true := by simp [hp0]
      simp only [hb, if_true] at h
      have : p0 = maxU32 := by injection h
      exact absurd this hp0

theorem occ_perm (p : Nat) (V W : List (Nat × List ESig)) (h : V.Perm W) : occ p V = occ p W := by
  unfold occ
  exact (h.map _).sum_nat

/-- **Order independence of `done` on the signature-count path**: when no stored entry names the sentinel proposer
`MaxUint32`, whether the loop reaches a verdict does not depend on the map iteration order. -/
theorem cdOuter_done_order_independent (isEnd : Nat → Bool) (thr : Nat) (es : List (Nat × List ESig))
    (o1 o2 : List Nat) (hp : o1.Perm o2) (hs : ∀ i sigs, lookup i es = some sigs → ∀ s ∈ sigs, s.proposer ≠ maxU32)
    (fe : Bool) :
    ((cdOuter isEnd thr (visit es o1) 0 (fun _ => 0) fe).1 = maxU32) ↔
    ((cdOuter isEnd thr (visit es o2) 0 (fun _ => 0) fe).1 = maxU32) := by
  have key : ∀ (a b : List Nat), a.Perm b →
      (cdOuter isEnd thr (visit es a) 0 (fun _ => 0) fe).1 = maxU32 →
      (cdOuter isEnd thr (visit es b) 0 (fun _ => 0) fe).1 = maxU32 := by
    intro a b hab ha
    have hsa : ∀ o : List Nat, ∀ x ∈ visit es o, ∀ s ∈ x.2, s.proposer ≠ maxU32 :=
      fun o x hx => hs x.1 x.2 (mem_visit es o x hx)
    rcases hra : cdOuter isEnd thr (visit es a) 0 (fun _ => 0) fe with ⟨pa, fa⟩
    rw [hra] at ha; simp only at ha; subst ha
    have hle := cdOuter_none isEnd thr _ 0 (fun _ => 0) fe fa (hsa a) (fun _ => Nat.zero_le _) hra
    rcases hrb : cdOuter isEnd thr (visit es b) 0 (fun _ => 0) fe with ⟨pb, fb⟩
    simp only
    refine Classical.byContradiction fun hne => ?_
    have hb := cdOuter_bound isEnd thr _ _ _ _ _ _ hrb hne
    have hperm : (visit es a).Perm (visit es b) := hab.filterMap _
    have := hle pb
    rw [occ_perm pb _ _ hperm] at this
    omega
  exact ⟨key o1 o2 hp, key o2 o1 hp.symm⟩


/-! ### what a genuine-signer verdict says about the signatures that exist (C34, partial safety) -/

theorem genuineSig_elim (i p : Nat) (fe : Bool) (s : Sig) (h : genuineSig i p fe s = true) :
    ∃ v, s = .valid i (.block p v fe) := by
  cases s with
  | junk k => simp [genuineSig] at h
  | valid k hh =>
    cases hh with
    | other n => simp [genuineSig, isBlockHashOf] at h
    | block p' v fe' =>
      simp [genuineSig, isBlockHashOf] at h
      obtain ⟨rfl, rfl, rfl⟩ := h
      exact ⟨v, rfl⟩

theorem lookup_mem {β} (k : Nat) (m : List (Nat × β)) (v : β) (h : lookup k m = some v) : (k, v) ∈ m := by
  induction m with
  | nil => simp [lookup] at h
  | cons hd tl ih =>
    obtain ⟨k', v'⟩ := hd
    unfold lookup at h
    by_cases hk : k' = k
    · simp [hk] at h; subst h; subst hk; simp
    · simp [hk] at h; exact List.mem_cons_of_mem _ (ih h)

/-- a peer with a genuine signature for `p` in the pool: some signature of that peer over some version of a block of `p`
occurs in the pool -/
theorem genuineFor_occurs (N : Nat) (c : Cand) (p i : Nat) (h : genuineFor N c p i = true) :
    ∃ v fe, sigOccurs c (.valid i (.block p v fe)) = true := by
  unfold genuineFor at h
  simp only [Bool.and_eq_true, Bool.or_eq_true, decide_eq_true_eq] at h
  obtain ⟨_, h⟩ := h
  rcases h with (h | h) | h
  · cases hl : lookup i c.endorseSigs with
    | none => simp [hl] at h
    | some sigs =>
      simp only [hl] at h
      obtain ⟨e, he, hg⟩ := List.any_eq_true.mp h
      simp only [Bool.and_eq_true, beq_iff_eq] at hg
      obtain ⟨v, hv⟩ := genuineSig_elim _ _ _ _ hg.2
      refine ⟨v, e.forEmpty, ?_⟩
      rw [← hv]
      unfold sigOccurs
      have : (c.endorseSigs.any fun x => x.2.any fun e' => e'.sig == e.sig) = true := by
        refine List.any_eq_true.mpr ⟨(i, sigs), lookup_mem _ _ _ hl, List.any_eq_true.mpr ⟨e, he, by simp⟩⟩
      simp only [this, Bool.true_or]
  · obtain ⟨m, hm, hg⟩ := List.any_eq_true.mp h
    simp only [Bool.and_eq_true, Bool.or_eq_true, beq_iff_eq] at hg
    obtain ⟨_, hg⟩ := hg
    have mk : ∀ s, (m.sig == s || m.psig == s || m.endorsers.any (fun e => e.2 == s)) = true → sigOccurs c s = true := by
      intro s hs
      unfold sigOccurs
      have : (c.commitMsgs.any fun m => m.sig == s || m.psig == s || m.endorsers.any (fun e => e.2 == s)) = true :=
        List.any_eq_true.mpr ⟨m, hm, hs⟩
      simp only [this, Bool.true_or, Bool.or_true]
    rcases hg with (hg | hg) | hg
    · obtain ⟨v, hv⟩ := genuineSig_elim _ _ _ _ hg.2
      exact ⟨v, m.forEmpty, mk _ (by simp [hv])⟩
    · obtain ⟨e, he, hge⟩ := List.any_eq_true.mp hg
      simp only [Bool.and_eq_true, beq_iff_eq] at hge
      obtain ⟨v, hv⟩ := genuineSig_elim _ _ _ _ hge.2
      refine ⟨v, m.forEmpty, mk _ ?_⟩
      have : (m.endorsers.any fun e => e.2 == Sig.valid i (.block p v m.forEmpty)) = true :=
        List.any_eq_true.mpr ⟨e, he, by simp [hv]⟩
      simp [this]
    · obtain ⟨hip, hg2⟩ := hg
      subst hip
      obtain ⟨v, hv⟩ := genuineSig_elim _ _ _ _ hg2
      exact ⟨v, m.forEmpty, mk _ (by simp [hv])⟩
  · obtain ⟨hip, h⟩ := h
    simp only [beq_iff_eq] at hip
    subst hip
    obtain ⟨pr, hpr, hg⟩ := List.any_eq_true.mp h
    simp only [Bool.and_eq_true, beq_iff_eq] at hg
    obtain ⟨v, hv⟩ := genuineSig_elim _ _ _ _ hg.2
    refine ⟨v, false, ?_⟩
    unfold sigOccurs
    have : (c.proposals.any fun pr => pr.sig == Sig.valid i (.block i v false)) = true :=
      List.any_eq_true.mpr ⟨pr, hpr, by simp [hv]⟩
    simp only [this, Bool.or_true]

/-- every block signature in the pool is over the version of that proposer's proposal which the pool stores -/
def VersionBound (c : Cand) : Prop :=
  ∀ k p v fe, sigOccurs c (.valid k (.block p v fe)) = true → storedVer c p = some v


/-! ### the `.sound` intake establishes `VersionBound` -/

/-- `s`, if it is a block signature, is over the stored version of that proposer's proposal -/
def SV (ps : List Proposal) (s : Sig) : Prop :=
  ∀ k p v fe, s = .valid k (.block p v fe) → (ps.find? (·.proposer == p)).map (·.ver) = some v

structure VBI (c : Cand) : Prop where
  es : ∀ x ∈ c.endorseSigs, ∀ e ∈ x.2, SV c.proposals e.sig
  cm : ∀ m ∈ c.commitMsgs, SV c.proposals m.sig ∧ SV c.proposals m.psig ∧ ∀ e ∈ m.endorsers, SV c.proposals e.2
  pr : ∀ pr ∈ c.proposals, SV c.proposals pr.sig

theorem VBI.versionBound {c : Cand} (h : VBI c) : VersionBound c := by
  intro k p v fe ho
  unfold sigOccurs at ho
  simp only [Bool.or_eq_true] at ho
  unfold storedVer
  rcases ho with (ho | ho) | ho
  · obtain ⟨x, hx, hx2⟩ := List.any_eq_true.mp ho
    obtain ⟨e, he, hes⟩ := List.any_eq_true.mp hx2
    exact h.es x hx e he k p v fe (by simpa using hes)
  · obtain ⟨m, hm, hm2⟩ := List.any_eq_true.mp ho
    simp only [Bool.or_eq_true, beq_iff_eq] at hm2
    obtain ⟨a, b, c3⟩ := h.cm m hm
    rcases hm2 with (hm2 | hm2) | hm2
    · exact a k p v fe hm2
    · exact b k p v fe hm2
    · obtain ⟨e, he, hes⟩ := List.any_eq_true.mp hm2
      exact c3 e he k p v fe (by simpa using hes)
  · obtain ⟨pr, hpr, hs⟩ := List.any_eq_true.mp ho
    exact h.pr pr hpr k p v fe (by simpa using hs)

theorem SV_append (ps : List Proposal) (m : Proposal) (s : Sig) (h : SV ps s) : SV (ps ++ [m]) s := by
  intro k p v fe hs
  have := h k p v fe hs
  rw [List.find?_append]
  cases hf : ps.find? (·.proposer == p) with
  | none => simp [hf] at this
  | some pr => simpa [hf] using this

theorem SV_junk (ps : List Proposal) (k : Nat) : SV ps (.junk k) := by
  intro _ _ _ _ h; cases h

theorem mem_setKey {β} (k : Nat) (v : β) (m : List (Nat × β)) (x : Nat × β) (h : x ∈ setKey k v m) :
    x ∈ m ∨ x = (k, v) := by
  induction m with
  | nil => simp [setKey] at h; exact Or.inr h
  | cons hd tl ih =>
    obtain ⟨k', v'⟩ := hd
    unfold setKey at h
    by_cases hk : k' = k
    · simp only [hk, if_true, List.mem_cons] at h
      rcases h with h | h
      · exact Or.inr h
      · exact Or.inl (List.mem_cons_of_mem _ h)
    · simp only [hk, if_false, List.mem_cons] at h
      rcases h with h | h
      · exact Or.inl (by simp [h])
      · rcases ih h with h | h
        · exact Or.inl (List.mem_cons_of_mem _ h)
        · exact Or.inr h

/-- every signature entry after `addBlockEndorsementLocked` is the new one or was there before -/
theorem sigs_addEndorse (es : List (Nat × List ESig)) (k : Nat) (e : ESig) (cm : Bool) :
    ∀ x ∈ addEndorse es k e cm, ∀ e' ∈ x.2, e' = e ∨ ∃ y ∈ es, e' ∈ y.2 := by
  intro x hx e' he'
  have key : ∀ sigs : List ESig, (∀ e'' ∈ sigs, e'' = e ∨ ∃ y ∈ es, e'' ∈ y.2) → x ∈ setKey k sigs es →
      e' = e ∨ ∃ y ∈ es, e' ∈ y.2 := by
    intro sigs hs hm
    rcases mem_setKey k sigs es x hm with h | h
    · exact Or.inr ⟨x, h, he'⟩
    · subst h; exact hs e' he'
  have single : ∀ e'' ∈ [e], e'' = e ∨ ∃ y ∈ es, e'' ∈ y.2 := fun e'' h => Or.inl (by simpa using h)
  unfold addEndorse at hx
  cases hl : lookup k es with
  | none => simp only [hl] at hx; exact key _ single hx
  | some sigs =>
    have app : ∀ e'' ∈ sigs ++ [e], e'' = e ∨ ∃ y ∈ es, e'' ∈ y.2 := by
      intro e'' h
      rcases List.mem_append.mp h with h | h
      · exact Or.inr ⟨(k, sigs), lookup_mem _ _ _ hl, h⟩
      · exact Or.inl (by simpa using h)
    cases cm with
    | true => simp only [hl] at hx; exact key _ single hx
    | false =>
      simp only [hl] at hx
      split at hx
      · exact Or.inr ⟨x, hx, he'⟩
      · split at hx
        · exact key _ app hx
        · split at hx
          · exact Or.inr ⟨x, hx, he'⟩
          · exact key _ app hx

theorem sigs_foldl_addEndorse (l : List (Nat × Sig)) (p : Nat) (fe : Bool) (es : List (Nat × List ESig)) :
    ∀ x ∈ l.foldl (fun es (e : Nat × Sig) => addEndorse es e.1 ⟨p, fe, e.2⟩ false) es, ∀ e' ∈ x.2,
      (∃ en ∈ l, e' = ⟨p, fe, en.2⟩) ∨ ∃ y ∈ es, e' ∈ y.2 := by
  induction l generalizing es with
  | nil => intro x hx e' he'; exact Or.inr ⟨x, hx, he'⟩
  | cons a r ih =>
    intro x hx e' he'
    rcases ih _ x hx e' he' with ⟨en, hen, h⟩ | ⟨y, hy, h⟩
    · exact Or.inl ⟨en, by simp [hen], h⟩
    · rcases sigs_addEndorse es a.1 _ false y hy e' h with h2 | h2
      · exact Or.inl ⟨a, by simp, h2⟩
      · exact Or.inr h2

theorem knownHash_SV (c : Cand) (p : Nat) (fe : Bool) (h : Hash) (k : Nat) (hk : knownHash c p fe h = true) :
    SV c.proposals (.valid k h) := by
  unfold knownHash at hk
  cases hf : c.proposals.find? (·.proposer == p) with
  | none => simp [hf] at hk
  | some pr =>
    simp only [hf, beq_iff_eq] at hk
    subst hk
    intro k' p' v' fe' hs
    simp only [blockHash, Sig.valid.injEq, Hash.block.injEq] at hs
    obtain ⟨_, rfl, rfl, _⟩ := hs
    simp [hf]

theorem vbi_empty : VBI {} := ⟨fun _ h => by simp at h, fun _ h => by simp at h, fun _ h => by simp at h⟩

theorem vbi_deliver_sound (N : Nat) (c : Cand) (d : Delivery) (vb : VBI c) : VBI (deliver .sound N c d).2 := by
  cases d with
  | proposal m =>
    unfold deliver
    by_cases hv : verifyProposal N m = true
    · simp only [hv, if_true]
      unfold newBlockProposal
      cases hf : c.proposals.find? (·.proposer == m.proposer) with
      | some p0 => simp only; split <;> exact vb
      | none =>
        simp only
        unfold verifyProposal at hv
        simp only [Bool.and_eq_true, decide_eq_true_eq, beq_iff_eq] at hv
        have hnew : SV (c.proposals ++ [m]) m.sig := by
          rw [hv.1.2]
          intro k p v fe hs
          simp only [blockHash, Sig.valid.injEq, Hash.block.injEq] at hs
          obtain ⟨_, rfl, rfl, _⟩ := hs
          rw [List.find?_append, hf]
          simp
        refine ⟨?_, ?_, ?_⟩
        · intro x hx e he
          rcases sigs_addEndorse _ _ _ _ x hx e he with h | ⟨y, hy, h⟩
          · subst h; exact hnew
          · exact SV_append _ _ _ (vb.es y hy e h)
        · intro x hx
          obtain ⟨a, b, c3⟩ := vb.cm x hx
          exact ⟨SV_append _ _ _ a, SV_append _ _ _ b, fun e he => SV_append _ _ _ (c3 e he)⟩
        · intro pr hpr
          simp only [List.mem_append, List.mem_singleton] at hpr
          rcases hpr with hpr | rfl
          · exact SV_append _ _ _ (vb.pr pr hpr)
          · exact hnew
    · simp only [hv]; exact vb
  | endorse s m =>
    unfold deliver
    by_cases hv : verifyEndorse N s m = true
    · simp only [hv, if_true]
      by_cases hs : soundEndorse c s m = true
      · simp only [hs, if_true]
        unfold verifyEndorse at hv
        unfold soundEndorse at hs
        simp only [Bool.and_eq_true, decide_eq_true_eq, beq_iff_eq] at hv hs
        unfold newBlockEndorsement
        refine ⟨?_, vb.cm, vb.pr⟩
        intro x hx e he
        rcases sigs_addEndorse _ _ _ _ x hx e he with h | ⟨y, hy, h⟩
        · subst h
          show SV c.proposals m.sig
          rw [hv.2]; exact knownHash_SV c _ _ _ _ hs.1.2
        · exact vb.es y hy e h
      · simp only [hs]; exact vb
    · simp only [hv]; exact vb
  | commit s m =>
    unfold deliver
    by_cases hv : verifyCommit N s m = true
    · simp only [hv, if_true]
      cases hs : soundCommit N c s m with
      | none => simp only; exact vb
      | some m' =>
        simp only
        unfold verifyCommit at hv
        unfold soundCommit at hs
        simp only [Bool.and_eq_true, decide_eq_true_eq, beq_iff_eq] at hv
        split at hs
        · rename_i hcond
          simp only [Bool.and_eq_true, beq_iff_eq] at hcond
          obtain ⟨⟨_, h2⟩, _⟩ := hcond
          simp only [Option.some.injEq] at hs
          subst hs
          have hsig : SV c.proposals m.sig := by rw [hv.2]; exact knownHash_SV c _ _ _ _ h2
          have hend : ∀ e ∈ m.endorsers.filter (fun e => decide (e.1 < N) && e.2 == .valid e.1 m.hash), SV c.proposals e.2 := by
            intro e he
            simp only [List.mem_filter, Bool.and_eq_true, decide_eq_true_eq, beq_iff_eq] at he
            rw [he.2.2]; exact knownHash_SV c _ _ _ _ h2
          have hpsig : SV c.proposals (if m.psig == .valid m.proposer m.hash then m.psig else .junk 0) := by
            split
            · rename_i hp; simp only [beq_iff_eq] at hp; rw [hp]; exact knownHash_SV c _ _ _ _ h2
            · exact SV_junk _ _
          unfold newBlockCommitment
          simp only
          split
          · split <;> exact vb
          · simp only
            refine ⟨?_, ?_, vb.pr⟩
            · intro x hx e he
              rcases sigs_addEndorse _ _ _ _ x hx e he with h | ⟨y, hy, h⟩
              · subst h; exact hsig
              · rcases sigs_foldl_addEndorse _ _ _ _ y hy e h with ⟨en, hen, h3⟩ | ⟨z, hz, h3⟩
                · subst h3; exact hend en hen
                · exact vb.es z hz e h3
            · intro x hx
              simp only [List.mem_append, List.mem_singleton] at hx
              rcases hx with hx | rfl
              · exact vb.cm x hx
              · exact ⟨hsig, hpsig, hend⟩
        · simp at hs
    · simp only [hv]; exact vb

theorem vbi_run_sound (N : Nat) (c : Cand) (hist : List Delivery) (vb : VBI c) : VBI (run .sound N c hist) := by
  induction hist generalizing c with
  | nil => exact vb
  | cons d r ih => exact ih _ (vbi_deliver_sound N c d vb)

end OntVerif.Proofs.BlockPool
