import OntVerif.Proofs.Recover
/-!
# Lemmas for C01, second part: crashes during recovery

`Stage` is the set of data directories reachable from a consistent ledger `L` by a crash during the commit of block `b`
followed by any number of crashes during the recovery; it is closed under `reopenCrash`, and every `Stage` directory
reopens to a `Recovered` ledger.
-/
namespace OntVerif.Proofs.Recover
open OntVerif.Model.Recover

variable {β σ ε H : Type}

/-- a hash file that holds the committed hashes of `L` followed by at most one (possibly torn) append of block `b` -/
def FileMid (L : Ledger β σ ε H) (F : Filled β σ ε H) (f : Bytes) : Prop :=
  32 * storedHashNum L.disk.st.btree.size ≤ f.length ∧
  f.length ≤ 32 * storedHashNum L.disk.st.btree.size + F.data.length ∧
  f.take (32 * storedHashNum L.disk.st.btree.size) = L.disk.file.take (32 * storedHashNum L.disk.st.btree.size)

theorem fileMid_self (S : Sem β σ ε H) (L : Ledger β σ ε H) (b : β) (F : Filled β σ ε H)
    (hinv : Consistent L) (hF : fill S L b = some F) : FileMid L F L.disk.file := by
  obtain ⟨hbt, -, -, -, -⟩ := inv_facts L hinv
  obtain ⟨h1, h2, h3, h4, h5, h6, h7⟩ := hinv.2
  obtain ⟨f1, -⟩ := fill_facts S L b F hF
  rw [hbt] at f1
  have hsn := storedHashNum_succ L.disk.st.btree.size
  exact ⟨h6, by rw [f1]; omega, rfl⟩

theorem fileMid_write (L : Ledger β σ ε H) (F : Filled β σ ε H) (f : Bytes) (t : Nat) (hf : FileMid L F f) :
    FileMid L F (writeAt f (32 * storedHashNum L.disk.st.btree.size) (F.data.take t)) := by
  obtain ⟨a, b, c⟩ := hf
  have h := torn_then_rewrite f _ F.data t a b
  exact ⟨h.2.1, h.2.2.1, by rw [h.2.2.2, c]⟩

theorem fileMid_full (L : Ledger β σ ε H) (F : Filled β σ ε H) (f : Bytes) (hf : FileMid L F f)
    (hfp : L.fpos = some (32 * storedHashNum L.disk.st.btree.size)) (hself : FileMid L F L.disk.file) :
    writeAt f (32 * storedHashNum L.disk.st.btree.size) F.data = fileAfter L F.data := by
  obtain ⟨a, b, c⟩ := hf
  obtain ⟨a', b', -⟩ := hself
  simp only [fileAfter, hfp]
  rw [writeAt_cover _ _ _ a b, writeAt_cover _ _ _ a' b', c]

/-- old-height shape: nothing but (part of) the hash-file append is durable -/
theorem old_ok (L : Ledger β σ ε H) (F : Filled β σ ε H) (hinv : Consistent L)
    (hlen : F.data.length = 32 * (1 + leadTrue (bits L.btree.size)))
    (d : Disk β σ ε H) (hblk : d.blk = L.disk.blk) (hevt : d.evt = L.disk.evt) (hst : d.st = L.disk.st)
    (hf : FileMid L F d.file) : DiskOK d ∧ TailEq (ledgerOf d) L := by
  obtain ⟨hbt, hstr, hht, hfp, hL⟩ := inv_facts L hinv
  obtain ⟨h1, h2, h3, h4, h5, h6, h7⟩ := hinv.2
  obtain ⟨a, b, c⟩ := hf
  rw [hbt] at hlen
  have hsn := storedHashNum_succ L.disk.st.btree.size
  have hok : DiskOK d := by
    refine ⟨?_, ?_, ?_, ?_, ?_, ?_, ?_⟩ <;> rw [hst]
    · rw [hblk]; exact h1
    · exact h2
    · exact h3
    · exact h4
    · exact h5
    · exact a
    · omega
  refine ⟨hok, ?_⟩
  have hfp' := ledgerOf_fpos _ hok.2.2.2.2.2.1
  rw [hst] at hfp'
  refine ⟨?_, ?_, ?_, ?_, hblk, hevt, hst, 32 * storedHashNum L.disk.st.btree.size, hfp, h6, a, c, ?_, ?_⟩
  · show d.blk.cur = _; rw [hblk, hht]
  · show d.st.btree = _; rw [hst, hbt]
  · show d.st.stree = _; rw [hst, hstr]
  · rw [hfp', hfp]
  · rw [hbt]; omega
  · show d.file.length ≤ _
    rw [hbt]; omega

/-- middle shape: the block store holds the block, the state store does not yet -/
theorem reopen_mid (S : Sem β σ ε H) (lo hi arg : Nat) (hlo : lo + arg = 1) (hhi : hi + arg = 1)
    (L : Ledger β σ ε H) (b : β) (F : Filled β σ ε H)
    (hinv : Consistent L) (hF : fill S L b = some F) (hh : S.height b = L.height + 1)
    (d' : Disk β σ ε H) (hst : d'.st = L.disk.st) (hblk : d'.blk = F.blk)
    (hevt : d'.evt = L.disk.evt ∨ d'.evt = F.evt) (hfile : FileMid L F d'.file) :
    reopen S lo hi arg [1, 2] d' =
      .ok { disk := ⟨F.blk, F.evt, F.st, fileAfter L F.data⟩, height := S.height b,
            btree := F.btree, stree := F.stree, fpos := fposAfter L F.data } := by
  obtain ⟨hbt, hstr, hht, hfp, hL⟩ := inv_facts L hinv
  obtain ⟨h1, h2, h3, h4, h5, h6, h7⟩ := hinv.2
  obtain ⟨f1, f2, f3, f4, f5, f6, f7, f8, f9, f10⟩ := fill_facts S L b F hF
  have hF0 : fill S (ledgerOf L.disk) b = some F := by rw [← hL]; exact hF
  have hF' : fill S (ledgerOf d') b = some F := fill_after_crash S L.disk d' b F hF0 hst (Or.inr hblk) hevt
  have hself := fileMid_self S L b F hinv hF
  have hfp' : (ledgerOf d').fpos = some (32 * storedHashNum L.disk.st.btree.size) := by
    have := ledgerOf_fpos d' (by rw [hst]; exact hfile.1)
    rw [hst] at this; exact this
  have hfa : fileAfter (ledgerOf d') F.data = fileAfter L F.data := by
    have := fileMid_full L F d'.file hfile hfp hself
    simp only [fileAfter, hfp']
    exact this
  have hfpa : fposAfter (ledgerOf d') F.data = fposAfter L F.data := by
    simp only [fposAfter, hfp', hfp]
  unfold WF at h4 h5
  have hcnt : d'.blk.cur + hi - (d'.st.cur + lo) = 1 := by rw [hblk, hst, f7, hh, hht, h1]; omega
  have hidx : d'.st.cur + lo + arg = S.height b := by rw [hst, hh, hht, h1]; omega
  have hget : getAt (ledgerOf d').disk.blk.blocks (S.height b) = some b := by
    show getAt d'.blk.blocks _ = _
    rw [hblk]; exact f10
  unfold reopen
  rw [hst]
  simp only [h2, h3, h4, h5]
  rw [← hst, hcnt]
  simp only [List.range', replayAll, hidx, replay, hget, hF', hfa, hfpa]
  simp [commitStep, ledgerOf, hblk, f7]

/-- The data directories reachable by a crash in the commit of `b` on `L` and any number of crashes during recovery. -/
def Stage (L : Ledger β σ ε H) (F : Filled β σ ε H) (d : Disk β σ ε H) : Prop :=
  (d.blk = L.disk.blk ∧ d.evt = L.disk.evt ∧ d.st = L.disk.st ∧ FileMid L F d.file) ∨
  (d.blk = F.blk ∧ (d.evt = L.disk.evt ∨ d.evt = F.evt) ∧ d.st = L.disk.st ∧ FileMid L F d.file) ∨
  d = ⟨F.blk, F.evt, F.st, fileAfter L F.data⟩

/-- every crash state of the commit itself is a `Stage` -/
theorem stage_first (S : Sem β σ ε H) (L : Ledger β σ ε H) (b : β) (F : Filled β σ ε H)
    (hinv : Consistent L) (hF : fill S L b = some F) (k t : Nat) (hk : k ≤ 3) (hsync : k = 3 → F.data.length ≤ t) :
    Stage L F (([0, 1, 2].take k).foldl (commitStep F) { L.disk with file := fileAfter L (F.data.take t) }) := by
  obtain ⟨-, -, -, hfp, -⟩ := inv_facts L hinv
  have hself := fileMid_self S L b F hinv hF
  have hfile : FileMid L F (fileAfter L (F.data.take t)) := by
    simp only [fileAfter, hfp]; exact fileMid_write L F _ t hself
  rcases (by omega : k = 0 ∨ k = 1 ∨ k = 2 ∨ k = 3) with rfl | rfl | rfl | rfl
  · exact Or.inl ⟨rfl, rfl, rfl, hfile⟩
  · exact Or.inr (Or.inl ⟨rfl, Or.inl rfl, rfl, hfile⟩)
  · exact Or.inr (Or.inl ⟨rfl, Or.inr rfl, rfl, hfile⟩)
  · right; right
    have hfull : F.data.take t = F.data := List.take_of_length_le (hsync rfl)
    simp [commitStep, hfull]

/-- a crash during the reopen of a `Stage` directory leaves a `Stage` directory -/
theorem stage_step (S : Sem β σ ε H) (lo hi arg : Nat) (hlo : lo + arg = 1) (hhi : hi + arg = 1)
    (L : Ledger β σ ε H) (b : β) (F : Filled β σ ε H)
    (hinv : Consistent L) (hF : fill S L b = some F) (hh : S.height b = L.height + 1)
    (d : Disk β σ ε H) (hd : Stage L F d) (k t : Nat) (hsync : 2 ∈ [1, 2].take k → F.data.length ≤ t) :
    Stage L F (reopenCrash S lo hi arg [1, 2] d k t) := by
  obtain ⟨hbt, hstr, hht, hfp, hL⟩ := inv_facts L hinv
  obtain ⟨h1, h2, h3, h4, h5, h6, h7⟩ := hinv.2
  obtain ⟨f1, f2, f3, f4, f5, f6, f7, f8, f9, f10⟩ := fill_facts S L b F hF
  have hinv1 := (commit_inv S L b F hinv hF hh).1
  unfold WF at h4 h5
  rcases hd with ⟨hblk, hevt, hst, hfile⟩ | ⟨hblk, hevt, hst, hfile⟩ | rfl
  · -- old shape: nothing is replayed
    have hz : d.blk.cur + hi - (d.st.cur + lo) = 0 := by rw [hblk, hst, h1]; omega
    have : reopenCrash S lo hi arg [1, 2] d k t = d := by
      unfold reopenCrash
      rw [hz, hst]
      simp [h2, h3, h4, h5]
    rw [this]; exact Or.inl ⟨hblk, hevt, hst, hfile⟩
  · -- middle shape: the iteration for `b`
    have hF0 : fill S (ledgerOf L.disk) b = some F := by rw [← hL]; exact hF
    have hF' : fill S (ledgerOf d) b = some F := fill_after_crash S L.disk d b F hF0 hst (Or.inr hblk) hevt
    have hfp' : (ledgerOf d).fpos = some (32 * storedHashNum L.disk.st.btree.size) := by
      have := ledgerOf_fpos d (by rw [hst]; exact hfile.1)
      rw [hst] at this; exact this
    have hcnt : d.blk.cur + hi - (d.st.cur + lo) = 1 := by rw [hblk, hst, f7, hh, hht, h1]; omega
    have hidx : d.st.cur + lo + arg = S.height b := by rw [hst, hh, hht, h1]; omega
    have hget : getAt d.blk.blocks (S.height b) = some b := by rw [hblk]; exact f10
    have hw := fileMid_write L F d.file t hfile
    have e : reopenCrash S lo hi arg [1, 2] d k t =
        (([1, 2] : List Nat).take k).foldl (commitStep F)
          { d with file := writeAt d.file (32 * storedHashNum L.disk.st.btree.size) (F.data.take t) } := by
      unfold reopenCrash
      rw [hcnt]
      simp only [List.range', hidx, hget, hF', fileAfter, hfp']
      rw [hst]
      simp [h2, h3, h4, h5]
      rfl
    rw [e]
    rcases (by omega : k = 0 ∨ k = 1 ∨ 2 ≤ k) with rfl | rfl | hk2
    · exact Or.inr (Or.inl ⟨hblk, hevt, hst, hw⟩)
    · exact Or.inr (Or.inl ⟨hblk, Or.inr rfl, hst, hw⟩)
    · right; right
      have htk : ([1, 2] : List Nat).take k = [1, 2] := List.take_of_length_le (by simpa using hk2)
      have hfull : F.data.take t = F.data := List.take_of_length_le (hsync (by rw [htk]; simp))
      have hself := fileMid_self S L b F hinv hF
      rw [htk, hfull, fileMid_full L F d.file hfile hfp hself]
      simp [commitStep, hblk]
  · -- complete: nothing is replayed
    have hd1 := hinv1.2
    obtain ⟨g1, g2, g3, g4, g5, -, -⟩ := hd1
    unfold WF at g4 g5
    simp only at g1 g2 g3 g4 g5
    have hz : F.blk.cur + hi - (F.st.cur + lo) = 0 := by omega
    have : reopenCrash S lo hi arg [1, 2] ⟨F.blk, F.evt, F.st, fileAfter L F.data⟩ k t =
        ⟨F.blk, F.evt, F.st, fileAfter L F.data⟩ := by
      unfold reopenCrash
      simp only
      rw [hz]
      simp [g2, g3, g4, g5]
    rw [this]; exact Or.inr (Or.inr rfl)

/-- every `Stage` directory reopens to a recovered ledger -/
theorem stage_reopen [DecidableEq H] (S : Sem β σ ε H) (lo hi arg : Nat) (hlo : lo + arg = 1) (hhi : hi + arg = 1)
    (L : Ledger β σ ε H) (b : β) (F : Filled β σ ε H)
    (hinv : Consistent L) (hF : fill S L b = some F) (hh : S.height b = L.height + 1)
    (d : Disk β σ ε H) (hd : Stage L F d) :
    ∃ L', reopen S lo hi arg [1, 2] d = .ok L' ∧
      Recovered S lo hi arg [1, 2] [0, 1, 2] L
        { disk := ⟨F.blk, F.evt, F.st, fileAfter L F.data⟩, height := S.height b,
          btree := F.btree, stree := F.stree, fpos := fposAfter L F.data } L' := by
  have hinv1 := (commit_inv S L b F hinv hF hh).1
  obtain ⟨f1, -⟩ := fill_facts S L b F hF
  rcases hd with ⟨hblk, hevt, hst, hfile⟩ | ⟨hblk, hevt, hst, hfile⟩ | rfl
  · obtain ⟨hok, ht⟩ := old_ok L F hinv f1 d hblk hevt hst hfile
    exact ⟨_, reopen_ok S lo hi arg [1, 2] d hlo hhi hok, recovered_old S lo hi arg hlo hhi L _ d hok ht hh⟩
  · exact ⟨_, reopen_mid S lo hi arg hlo hhi L b F hinv hF hh d hst hblk hevt hfile,
      recovered_new S lo hi arg hlo hhi L _ hinv1 hh⟩
  · refine ⟨_, ?_, recovered_new S lo hi arg hlo hhi L _ hinv1 hh⟩
    have := reopen_ok S lo hi arg [1, 2] _ hlo hhi hinv1.2
    rw [← hinv1.1] at this
    exact this

/-- any finite sequence of crashes during recovery stays inside `Stage` -/
theorem stage_cycles (S : Sem β σ ε H) (lo hi arg : Nat) (hlo : lo + arg = 1) (hhi : hi + arg = 1)
    (L : Ledger β σ ε H) (b : β) (F : Filled β σ ε H)
    (hinv : Consistent L) (hF : fill S L b = some F) (hh : S.height b = L.height + 1)
    (cycles : List (Nat × Nat)) :
    ∀ d, Stage L F d → (∀ c ∈ cycles, 2 ∈ [1, 2].take c.1 → F.data.length ≤ c.2) →
      Stage L F (cycles.foldl (fun d c => reopenCrash S lo hi arg [1, 2] d c.1 c.2) d) := by
  induction cycles with
  | nil => intro d hd _; exact hd
  | cons c cs ih =>
    intro d hd hs
    simp only [List.foldl]
    exact ih _ (stage_step S lo hi arg hlo hhi L b F hinv hF hh d hd c.1 c.2 (hs c (by simp)))
      (fun c' hc' => hs c' (by simp [hc']))

end OntVerif.Proofs.Recover
