import OntVerif.Model.SigCheck
/-!
# Lemmas about `Model/SigCheck.lean` (C16, C17)

* the greedy matching of `VerifyMultiSignature` yields pairwise distinct key indexes (`vmsLoop_ok`);
* what an accepted signature set / transaction guarantees (`checkSigSet_ok`, `checkAll_ok`, `checkSigsWith_ok`);
* the loops never run out of fuel (`paramLoop_fuel`, `bufLoop_fuel`).
-/
namespace OntVerif.Proofs.SigCheck
open OntVerif.Util OntVerif.Model.Tx OntVerif.Model.SigCheck

variable {Key Sig : Type}

theorem findIdx_found (vf : Key → VRes) (keys : List Key) (mask : List Bool) (j0 j : Nat)
    (h : findIdx vf keys mask j0 = .found j) :
    ∃ k, j0 ≤ j ∧ keys[j - j0]? = some k ∧ mask[j - j0]? = some false ∧ vf k = .ok := by
  induction keys generalizing mask j0 with
  | nil => simp [findIdx] at h
  | cons k ks ih =>
    cases mask with
    | nil => simp [findIdx] at h
    | cons b bs =>
      simp only [findIdx] at h
      by_cases hb : b = true
      · simp only [hb, if_true] at h
        obtain ⟨k', h1, h2, h3, h4⟩ := ih bs (j0 + 1) h
        refine ⟨k', by omega, ?_, ?_, h4⟩
        · have : j - j0 = (j - (j0 + 1)) + 1 := by omega
          rw [this]; simpa using h2
        · have : j - j0 = (j - (j0 + 1)) + 1 := by omega
          rw [this]; simpa using h3
      · have hb' : b = false := by cases b <;> simp_all
        subst hb'
        simp only [Bool.false_eq_true, if_false] at h
        cases hv : vf k with
        | ok =>
          rw [hv] at h
          simp only [Find.found.injEq] at h
          subst h
          exact ⟨k, Nat.le_refl _, by simp, by simp, hv⟩
        | bad =>
          rw [hv] at h
          obtain ⟨k', h1, h2, h3, h4⟩ := ih bs (j0 + 1) h
          refine ⟨k', by omega, ?_, ?_, h4⟩
          · have : j - j0 = (j - (j0 + 1)) + 1 := by omega
            rw [this]; simpa using h2
          · have : j - j0 = (j - (j0 + 1)) + 1 := by omega
            rw [this]; simpa using h3
        | panic => rw [hv] at h; simp at h

/-- pointwise relation between two lists of the same length -/
inductive All2 {α β : Type} (R : α → β → Prop) : List α → List β → Prop
  | nil : All2 R [] []
  | cons {a b as bs} : R a b → All2 R as bs → All2 R (a :: as) (b :: bs)

theorem All2.length_eq {α β : Type} {R : α → β → Prop} {as : List α} {bs : List β} (h : All2 R as bs) :
    as.length = bs.length := by
  induction h with
  | nil => rfl
  | cons _ _ ih => simp [ih]

/-- signature `raw` verifies under the key at index `j` of the script -/
def SigAt (C : Lib Key Sig) (vf : Key → Sig → VRes) (keys : List Key) (raw : Bytes) (j : Nat) : Prop :=
  ∃ s k, C.parseSig raw = some s ∧ keys[j]? = some k ∧ vf k s = .ok

theorem vmsLoop_ok (C : Lib Key Sig) (vf : Key → Sig → VRes) (keys : List Key) (m : Nat) (sigs : List Bytes)
    (mask : List Bool) (h : vmsLoop C vf keys m sigs mask = .ok ()) :
    ∃ idx : List Nat, idx.length = m ∧ idx.Nodup ∧ (∀ j ∈ idx, mask[j]? = some false) ∧
      All2 (SigAt C vf keys) (sigs.take m) idx := by
  induction m generalizing sigs mask with
  | zero => exact ⟨[], rfl, List.nodup_nil, by simp, by simpa using All2.nil⟩
  | succ m ih =>
    cases sigs with
    | nil => simp [vmsLoop] at h
    | cons raw rest =>
      simp only [vmsLoop] at h
      cases hp : C.parseSig raw with
      | none => rw [hp] at h; simp at h
      | some s =>
        rw [hp] at h
        simp only at h
        cases hf : findIdx (fun k => vf k s) keys mask 0 with
        | none => rw [hf] at h; simp at h
        | panic => rw [hf] at h; simp at h
        | found j =>
          rw [hf] at h
          simp only at h
          obtain ⟨k, _, hk, hm, hv⟩ := findIdx_found _ _ _ _ _ hf
          simp only [Nat.sub_zero] at hk hm
          obtain ⟨idx, hl, hn, hmask, hall⟩ := ih rest (mask.set j true) h
          have hjlt : j < mask.length := by
            rcases Nat.lt_or_ge j mask.length with h' | h'
            · exact h'
            · rw [List.getElem?_eq_none h'] at hm; simp at hm
          have hnot : j ∉ idx := by
            intro hj
            have := hmask j hj
            rw [List.getElem?_set_self hjlt] at this
            simp at this
          refine ⟨j :: idx, by simp [hl], List.nodup_cons.mpr ⟨hnot, hn⟩, ?_, ?_⟩
          · intro j' hj'
            rcases List.mem_cons.mp hj' with rfl | hj'
            · exact hm
            · have h1 := hmask j' hj'
              have hne : j ≠ j' := fun e => hnot (e ▸ hj')
              rwa [List.getElem?_set_ne hne] at h1
          · simp only [List.take_succ_cons]
            exact All2.cons ⟨s, k, hp, hk, hv⟩ hall


/-- `m` signatures, each verifying under a key of the script, at pairwise distinct key **indexes** -/
def SetOK (C : Lib Key Sig) (vf : Key → Sig → VRes) (keys : List Key) (m : Nat) (sigs : List Bytes) : Prop :=
  ∃ idx : List Nat, idx.length = m ∧ idx.Nodup ∧ All2 (SigAt C vf keys) (sigs.take m) idx

theorem verifyMulti_ok (C : Lib Key Sig) (vf : Key → Sig → VRes) (keys : List Key) (m : Nat) (sigs : List Bytes)
    (h : verifyMulti C vf keys m sigs = .ok ()) : SetOK C vf keys m sigs := by
  unfold verifyMulti at h
  split at h
  · simp at h
  · obtain ⟨idx, h1, h2, _, h4⟩ := vmsLoop_ok C vf keys m sigs _ h
    exact ⟨idx, h1, h2, h4⟩

theorem verifyOne_ok (C : Lib Key Sig) (vf : Key → Sig → VRes) (k : Key) (raw : Bytes) (u : Unit)
    (h : verifyOne C vf k raw = .ok u) : ∃ s, C.parseSig raw = some s ∧ vf k s = .ok := by
  unfold verifyOne at h
  cases hp : C.parseSig raw with
  | none => rw [hp] at h; simp at h
  | some s =>
    rw [hp] at h
    simp only at h
    cases hv : vf k s with
    | ok => exact ⟨s, rfl, hv⟩
    | bad => rw [hv] at h; simp at h
    | panic => rw [hv] at h; simp at h

/-- what acceptance of one signature set guarantees -/
structure SetFacts [DecidableEq Key] (cfg : Cfg) (C : Lib Key Sig) (vf : Key → Sig → VRes) (rs : Bytes × Bytes) (a : Addr)
    (sigs : List Bytes) (m : Nat) (keys : List Key) : Prop where
  parsed : getSig C rs = some (sigs, m, keys)
  m_pos : 1 ≤ m
  m_le : m ≤ keys.length
  n_le : keys.length ≤ MULTI_SIG_MAX_PUBKEY_SIZE
  enough : m ≤ sigs.length
  nodup : cfg.dupKeys = .sound → keys.Nodup
  matched : SetOK C vf keys m sigs
  addr : setAddr C keys m = .ok a

theorem checkSigSet_ok [DecidableEq Key] (cfg : Cfg) (C : Lib Key Sig) (vf : Key → Sig → VRes) (rs : Bytes × Bytes)
    (a : Addr) (h : checkSigSet cfg C vf rs = .ok a) : ∃ sigs m keys, SetFacts cfg C vf rs a sigs m keys := by
  unfold checkSigSet at h
  cases hg : getSig C rs with
  | none => rw [hg] at h; simp at h
  | some t =>
    obtain ⟨sigs, m, keys⟩ := t
    rw [hg] at h
    simp only at h
    split at h
    · simp at h
    · rename_i hc
      have hc1 : keys.length ≤ MULTI_SIG_MAX_PUBKEY_SIZE := by omega
      have hc2 : m ≤ sigs.length := by omega
      have hc3 : m ≤ keys.length := by omega
      have hc4 : 1 ≤ m := by omega
      split at h
      · simp at h
      · rename_i hd
        have hnd : cfg.dupKeys = .sound → keys.Nodup := by
          intro hs
          by_cases hk : keys.Nodup
          · exact hk
          · exact absurd ⟨hs, hk⟩ hd
        refine ⟨sigs, m, keys, hg, hc4, hc3, hc1, hc2, hnd, ?_, ?_⟩
        · -- matched
          split at h
          · rename_i k
            cases sigs with
            | nil => simp at h
            | cons raw rest =>
              simp only at h
              cases hv : verifyOne C vf k raw with
              | ok u =>
                obtain ⟨s, hs1, hs2⟩ := verifyOne_ok C vf k raw u hv
                have hm1 : m = 1 := by simp at hc3; omega
                subst hm1
                refine ⟨[0], rfl, by simp, ?_⟩
                simp only [List.take_succ_cons, List.take_zero]
                exact All2.cons ⟨s, k, hs1, by simp, hs2⟩ All2.nil
              | reject => rw [hv] at h; simp at h
              | panic => rw [hv] at h; simp at h
          · cases hv : verifyMulti C vf keys m sigs with
            | ok u => exact verifyMulti_ok C vf keys m sigs hv
            | reject => rw [hv] at h; simp at h
            | panic => rw [hv] at h; simp at h
        · -- address
          split at h
          · rename_i k
            cases sigs with
            | nil => simp at h
            | cons raw rest =>
              simp only at h
              cases hv : verifyOne C vf k raw with
              | ok u => rw [hv] at h; simpa [setAddr] using h
              | reject => rw [hv] at h; simp at h
              | panic => rw [hv] at h; simp at h
          · rename_i hne
            cases hv : verifyMulti C vf keys m sigs with
            | ok u =>
              rw [hv] at h
              simp only at h
              unfold setAddr
              split
              · rename_i k
                exact absurd rfl (hne k)
              · exact h
            | reject => rw [hv] at h; simp at h
            | panic => rw [hv] at h; simp at h

theorem checkAll_ok [DecidableEq Key] (cfg : Cfg) (C : Lib Key Sig) (vf : Key → Sig → VRes)
    (sets : List (Bytes × Bytes)) (addrs : List Addr) (h : checkAll cfg C vf sets = .ok addrs) :
    All2 (fun rs a => checkSigSet cfg C vf rs = .ok a) sets addrs := by
  induction sets generalizing addrs with
  | nil => simp [checkAll] at h; subst h; exact All2.nil
  | cons rs rest ih =>
    simp only [checkAll] at h
    cases h1 : checkSigSet cfg C vf rs with
    | ok a =>
      rw [h1] at h
      simp only at h
      cases h2 : checkAll cfg C vf rest with
      | ok as =>
        rw [h2] at h
        simp only [Verdict.ok.injEq] at h
        subst h
        exact All2.cons h1 (ih as h2)
      | reject => rw [h2] at h; simp at h
      | panic => rw [h2] at h; simp at h
    | reject => rw [h1] at h; simp at h
    | panic => rw [h1] at h; simp at h

theorem checkSigsWith_ok [DecidableEq Key] (cfg : Cfg) (C : Lib Key Sig) (vf : Key → Sig → VRes) (tx : Tx)
    (addrs : List Addr) (h : checkSigsWith cfg C vf tx = .ok addrs) :
    tx.sigs.length ≤ TX_MAX_SIG_SIZE ∧ checkAll cfg C vf tx.sigs = .ok addrs ∧ tx.payer ∈ addrs := by
  unfold checkSigsWith at h
  split at h
  · simp at h
  · rename_i hl
    cases hc : checkAll cfg C vf tx.sigs with
    | ok as =>
      rw [hc] at h
      simp only at h
      split at h
      · rename_i hp
        simp only [Verdict.ok.injEq] at h
        subst h
        exact ⟨by omega, rfl, hp⟩
      · simp at h
    | reject => rw [hc] at h; simp at h
    | panic => rw [hc] at h; simp at h

theorem All2.imp {α β : Type} {R S : α → β → Prop} (hRS : ∀ a b, R a b → S a b) {as : List α} {bs : List β}
    (h : All2 R as bs) : All2 S as bs := by
  induction h with
  | nil => exact All2.nil
  | cons h1 _ ih => exact All2.cons (hRS _ _ h1) ih

theorem guard_ok (r : VRes) : guarded r = .ok ↔ r = .ok := by
  cases r <;> simp [guarded]


theorem SigAt.imp {C : Lib Key Sig} {vf vf' : Key → Sig → VRes} (hv : ∀ k s, vf k s = .ok → vf' k s = .ok)
    {keys : List Key} {raw : Bytes} {j : Nat} (h : SigAt C vf keys raw j) : SigAt C vf' keys raw j := by
  obtain ⟨s, k, h1, h2, h3⟩ := h
  exact ⟨s, k, h1, h2, hv k s h3⟩

theorem SetOK.imp {C : Lib Key Sig} {vf vf' : Key → Sig → VRes} (hv : ∀ k s, vf k s = .ok → vf' k s = .ok)
    {keys : List Key} {m : Nat} {sigs : List Bytes} (h : SetOK C vf keys m sigs) : SetOK C vf' keys m sigs := by
  obtain ⟨idx, h1, h2, h3⟩ := h
  exact ⟨idx, h1, h2, h3.imp (fun _ _ h => h.imp hv)⟩

/-- `m` signatures, each verifying under a key of the script, under pairwise distinct **keys** -/
def SetOKKeys (C : Lib Key Sig) (vf : Key → Sig → VRes) (keys : List Key) (m : Nat) (sigs : List Bytes) : Prop :=
  ∃ ks : List Key, ks.length = m ∧ ks.Nodup ∧
    All2 (fun raw k => k ∈ keys ∧ ∃ s, C.parseSig raw = some s ∧ vf k s = .ok) (sigs.take m) ks

theorem keysOfIdx (C : Lib Key Sig) (vf : Key → Sig → VRes) (keys : List Key) (raws : List Bytes) (idx : List Nat)
    (h : All2 (SigAt C vf keys) raws idx) :
    ∃ ks : List Key, All2 (fun j k => keys[j]? = some k) idx ks ∧
      All2 (fun raw k => k ∈ keys ∧ ∃ s, C.parseSig raw = some s ∧ vf k s = .ok) raws ks := by
  induction h with
  | nil => exact ⟨[], All2.nil, All2.nil⟩
  | cons h1 _ ih =>
    obtain ⟨ks, i1, i2⟩ := ih
    obtain ⟨s, k, hs, hk, hv⟩ := h1
    exact ⟨k :: ks, All2.cons hk i1, All2.cons ⟨List.mem_of_getElem? hk, s, hs, hv⟩ i2⟩

theorem nodup_of_idx {keys : List Key} {idx : List Nat} {ks : List Key}
    (h : All2 (fun j k => keys[j]? = some k) idx ks) (hi : idx.Nodup) (hk : keys.Nodup) : ks.Nodup := by
  induction h with
  | nil => exact List.nodup_nil
  | @cons j k idx' ks' h1 h2 ih =>
    have hi' := List.nodup_cons.mp hi
    refine List.nodup_cons.mpr ⟨?_, ih hi'.2⟩
    intro hmem
    -- k occurs in ks', at some index j' of idx'
    have : ∃ j' ∈ idx', keys[j']? = some k := by
      clear ih hi hi' h1
      induction h2 with
      | nil => simp at hmem
      | @cons j2 k2 i2 s2 g1 _ ih2 =>
        rcases List.mem_cons.mp hmem with rfl | hm
        · exact ⟨j2, by simp, g1⟩
        · obtain ⟨j', hj', hk'⟩ := ih2 hm
          exact ⟨j', by simp [hj'], hk'⟩
    obtain ⟨j', hj', hk'⟩ := this
    have hjlt : j < keys.length := by
      rcases Nat.lt_or_ge j keys.length with h' | h'
      · exact h'
      · rw [List.getElem?_eq_none h'] at h1; simp at h1
    have : j = j' := (List.getElem?_inj hjlt hk).mp (h1.trans hk'.symm)
    exact hi'.1 (this ▸ hj')

theorem SetOK.toKeys {C : Lib Key Sig} {vf : Key → Sig → VRes} {keys : List Key} {m : Nat} {sigs : List Bytes}
    (h : SetOK C vf keys m sigs) (hk : keys.Nodup) : SetOKKeys C vf keys m sigs := by
  obtain ⟨idx, h1, h2, h3⟩ := h
  obtain ⟨ks, g1, g2⟩ := keysOfIdx C vf keys _ idx h3
  exact ⟨ks, by rw [← g1.length_eq, h1], nodup_of_idx g1 h2 hk, g2⟩


/-! ## Signer sets (C17) -/

theorem getSig_program {C : Lib Key Sig} {rs : Bytes × Bytes} {sigs : List Bytes} {m : Nat} {keys : List Key}
    (h : getSig C rs = some (sigs, m, keys)) : getProgramInfo C rs.2 = some (m, keys) := by
  unfold getSig at h
  cases h1 : getParamInfo rs.1 with
  | none => rw [h1] at h; simp at h
  | some ss =>
    rw [h1] at h
    simp only at h
    cases h2 : getProgramInfo C rs.2 with
    | none => rw [h2] at h; simp at h
    | some t =>
      obtain ⟨m', keys'⟩ := t
      rw [h2] at h
      simp only [Option.some.injEq, Prod.mk.injEq] at h
      obtain ⟨_, rfl, rfl⟩ := h
      rfl

/-- the repaired fallback derivation returns the validator's account for every set the validator accepted -/
theorem fallbackAddr_sound [DecidableEq Key] (cfg : Cfg) (hf : cfg.fallback = .sound) (C : Lib Key Sig)
    (vf : Key → Sig → VRes) (rs : Bytes × Bytes) (a : Addr) (h : checkSigSet cfg C vf rs = .ok a) :
    fallbackAddr cfg C rs = a := by
  obtain ⟨sigs, m, keys, f⟩ := checkSigSet_ok cfg C vf rs a h
  unfold fallbackAddr
  rw [hf]
  simp only [getSig_program f.parsed, f.addr]

theorem All2.map_eq {α β : Type} {f : α → β} {as : List α} {bs : List β} (h : All2 (fun a b => f a = b) as bs) :
    as.map f = bs := by
  induction h with
  | nil => rfl
  | cons h1 _ ih => simp [h1, ih]

theorem addrOfMulti_ok {C : Lib Key Sig} {keys : List Key} {m : Nat} {a : Addr} (h : addrOfMulti C keys m = .ok a) :
    ∃ p, multiProg m ((sortKeys C.keyLt keys).map C.serKey) = some p ∧ a = C.h160 p := by
  unfold addrOfMulti at h
  cases hm : multiProg m ((sortKeys C.keyLt keys).map C.serKey) with
  | none =>
    simp only [hm] at h
    split at h <;> simp at h
  | some p =>
    simp only [hm] at h
    split at h
    · simp at h
    · simp only [Verdict.ok.injEq] at h
      exact ⟨p, rfl, h.symm⟩

theorem addrOfKey_ok {C : Lib Key Sig} {k : Key} {a : Addr} (h : addrOfKey C k = .ok a) (hne : C.ethAddr k = none) :
    ∃ p, progFromKeyBytes (C.serKey k) = some p ∧ a = C.h160 p := by
  unfold addrOfKey at h
  rw [hne] at h
  cases hp : progFromKeyBytes (C.serKey k) with
  | none => simp [hp] at h
  | some p =>
    simp only [hp, Verdict.ok.injEq] at h
    exact ⟨p, rfl, h.symm⟩

/-- a verification script is *canonical* for the library when re-building it from the keys it parses to gives back
the same bytes (canonical key bytes, keys in `SortPublicKeys` order, minimal pushes) and, if it is a single-key
script, the key is not Ethereum-type -/
def Canonical (C : Lib Key Sig) (script : Bytes) : Prop :=
  rebuilt C script = some script ∧ ∀ m k, getProgramInfo C script = some (m, [k]) → C.ethAddr k = none

/-- for a canonical script the validator's account is the hash of the raw script -/
theorem setAddr_canonical (C : Lib Key Sig) (script : Bytes) (m : Nat) (keys : List Key) (a : Addr)
    (hp : getProgramInfo C script = some (m, keys)) (hc : Canonical C script) (ha : setAddr C keys m = .ok a) :
    a = C.h160 script := by
  obtain ⟨hr, he⟩ := hc
  unfold rebuilt at hr
  rw [hp] at hr
  simp only at hr
  unfold setAddr at ha
  split at ha
  · rename_i k
    simp only at hr
    obtain ⟨p, h1, h2⟩ := addrOfKey_ok ha (he m k hp)
    rw [hr] at h1
    simp only [Option.some.injEq] at h1
    rw [h2, h1]
  · rename_i hne
    have hr' : multiProg m ((sortKeys C.keyLt keys).map C.serKey) = some script := by
      split at hr
      · rename_i k
        exact absurd rfl (hne k)
      · exact hr
    obtain ⟨p, h1, h2⟩ := addrOfMulti_ok ha
    rw [hr'] at h1
    simp only [Option.some.injEq] at h1
    rw [h2, h1]

theorem canonical_all [DecidableEq Key] (cfg : Cfg) (C : Lib Key Sig) (vf : Key → Sig → VRes)
    (sets : List (Bytes × Bytes)) (addrs : List Addr)
    (hall : All2 (fun rs a => checkSigSet cfg C vf rs = .ok a) sets addrs)
    (hc : ∀ rs ∈ sets, Canonical C rs.2) : addrs = sets.map (fun rs => C.h160 rs.2) := by
  induction hall with
  | nil => rfl
  | @cons rs a rest as h1 _ ih =>
    obtain ⟨sigs, m, keys, f⟩ := checkSigSet_ok cfg C vf rs a h1
    have ha := setAddr_canonical C rs.2 m keys a (getSig_program f.parsed) (hc rs (by simp)) f.addr
    have := ih (fun r hr => hc r (by simp [hr]))
    simp only [List.map_cons, ha, this]

/-- … and conversely equality of the two derivations forces the re-built script to be the raw script, or exhibits a
collision of the address hash -/
theorem setAddr_eq_raw_or_collision (C : Lib Key Sig) (script p : Bytes) (m : Nat) (keys : List Key) (a : Addr)
    (hp : getProgramInfo C script = some (m, keys)) (hr : rebuilt C script = some p)
    (hne : ∀ k, keys = [k] → C.ethAddr k = none) (ha : setAddr C keys m = .ok a) (heq : a = C.h160 script) :
    p = script ∨ (p ≠ script ∧ C.h160 p = C.h160 script) := by
  have hap : a = C.h160 p := by
    unfold rebuilt at hr
    rw [hp] at hr
    simp only at hr
    unfold setAddr at ha
    split at ha
    · rename_i k
      simp only at hr
      obtain ⟨q, h1, h2⟩ := addrOfKey_ok ha (hne k rfl)
      rw [hr] at h1
      simp only [Option.some.injEq] at h1
      rw [h2, h1]
    · rename_i hne'
      have hr' : multiProg m ((sortKeys C.keyLt keys).map C.serKey) = some p := by
        split at hr
        · rename_i k
          exact absurd rfl (hne' k)
        · exact hr
      obtain ⟨q, h1, h2⟩ := addrOfMulti_ok ha
      rw [hr'] at h1
      simp only [Option.some.injEq] at h1
      rw [h2, h1]
  by_cases h : p = script
  · exact Or.inl h
  · exact Or.inr ⟨h, by rw [← hap, heq]⟩

/-! ## A toy library for kernel-evaluated witnesses

A key is 4 bytes `[id,0,0,0]` (alternative, non-canonical encoding `[0x12,id,0,0,0]`), keys with `id ≥ 100` are
"Ethereum-type" (account `[0xEE,id]`), the signature of key `id` over any message is `[id]`, `[0x0b]` makes the
library panic, `h160` and `H` are the identity. -/

def toy : Crypto Nat Nat where
  parseKey := fun b => match b with
    | [k, 0, 0, 0] => some k.toNat
    | [0x12, k, 0, 0, 0] => some k.toNat
    | _ => none
  serKey := fun k => [UInt8.ofNat k, 0, 0, 0]
  keyLt := fun a b => decide (a < b)
  ethAddr := fun k => if 100 ≤ k then some [0xEE, UInt8.ofNat k] else none
  parseSig := fun b => match b with
    | [s] => some s.toNat
    | _ => none
  verify := fun k _ s => if s = 0x0b then .panic else if s = k then .ok else .bad
  h160 := id
  H := id


/-! ## The loops never run out of fuel -/

theorem takeN_length {n : Nat} {r d r' : Bytes} (h : takeBytes n r = some (d, r')) : r'.length ≤ r.length := by
  unfold takeBytes at h
  split at h
  · simp at h
  · simp only [Option.some.injEq, Prod.mk.injEq] at h
    rw [← h.2]; simp

/-- `ReadBytes` consumes at least the opcode byte -/
theorem readBytes_length {bs d r : Bytes} (h : readBytes bs = some (d, r)) : r.length < bs.length := by
  cases bs with
  | nil => simp [readBytes] at h
  | cons c t =>
    simp only [readBytes] at h
    split at h
    · split at h
      · have := takeN_length h; simp only [List.length_cons]; omega
      · simp at h
    · split at h
      · split at h
        · have := takeN_length h; simp only [List.length_cons]; omega
        · simp at h
      · split at h
        · split at h
          · have := takeN_length h; simp only [List.length_cons]; omega
          · simp at h
        · split at h
          · have := takeN_length h; simp only [List.length_cons]; omega
          · simp at h

/-- the fuel of `GetParamInfo`'s loop is never exhausted: any two sufficient amounts give the same result -/
theorem paramLoop_fuel (f f' : Nat) (bs : Bytes) (h : bs.length < f) (h' : bs.length < f') :
    paramLoop f bs = paramLoop f' bs := by
  induction f generalizing f' bs with
  | zero => omega
  | succ f ih =>
    cases f' with
    | zero => omega
    | succ f' =>
      cases bs with
      | nil => simp [paramLoop]
      | cons c t =>
        simp only [paramLoop]
        cases hr : readBytes (c :: t) with
        | none => rfl
        | some p =>
          obtain ⟨d, r⟩ := p
          have := readBytes_length hr
          simp only [List.length_cons] at this h h'
          simp only
          rw [ih f' r (by omega) (by omega)]

theorem bufLoop_fuel (f f' : Nat) (bs : Bytes) (acc : List Bytes) (h : bs.length < f) (h' : bs.length < f') :
    bufLoop f bs acc = bufLoop f' bs acc := by
  induction f generalizing f' bs acc with
  | zero => omega
  | succ f ih =>
    cases f' with
    | zero => omega
    | succ f' =>
      cases bs with
      | nil => simp [bufLoop]
      | cons c t =>
        simp only [bufLoop]
        simp only [List.length_cons] at h h'
        split
        · rfl
        · split
          · exact ih f' t _ (by omega) (by omega)
          · split
            · exact ih f' t _ (by omega) (by omega)
            · cases hr : readBytes (c :: t) with
              | none => rfl
              | some p =>
                obtain ⟨d, r⟩ := p
                have := readBytes_length hr
                simp only [List.length_cons] at this
                simp only
                exact ih f' r _ (by omega) (by omega)


/-! ## No panic once the library call is guarded -/

theorem findIdx_no_panic (vf : Key → VRes) (hvf : ∀ k, vf k ≠ .panic) (keys : List Key) (mask : List Bool) (j : Nat) :
    findIdx vf keys mask j ≠ .panic := by
  induction keys generalizing mask j with
  | nil => simp [findIdx]
  | cons k ks ih =>
    cases mask with
    | nil => simp [findIdx]
    | cons b bs =>
      simp only [findIdx]
      split
      · exact ih bs (j + 1)
      · cases hv : vf k with
        | ok => simp
        | bad => exact ih bs (j + 1)
        | panic => exact absurd hv (hvf k)

theorem vmsLoop_no_panic (C : Lib Key Sig) (vf : Key → Sig → VRes) (hvf : ∀ k s, vf k s ≠ .panic) (keys : List Key)
    (m : Nat) (sigs : List Bytes) (mask : List Bool) (hl : m ≤ sigs.length) :
    vmsLoop C vf keys m sigs mask ≠ .panic := by
  induction m generalizing sigs mask with
  | zero => simp [vmsLoop]
  | succ m ih =>
    cases sigs with
    | nil => simp at hl
    | cons raw rest =>
      simp only [vmsLoop]
      cases hp : C.parseSig raw with
      | none => simp
      | some s =>
        simp only
        cases hf : findIdx (fun k => vf k s) keys mask 0 with
        | found j => exact ih rest _ (by simpa using hl)
        | none => simp
        | panic => exact absurd hf (findIdx_no_panic _ (fun k => hvf k s) keys mask 0)

theorem pushBytes_some {d : Bytes} (h : d.length ≠ 0) : ∃ p, pushBytes d = some p := by
  unfold pushBytes
  simp only [h, if_false]
  split
  · exact ⟨_, rfl⟩
  · split
    · exact ⟨_, rfl⟩
    · split <;> exact ⟨_, rfl⟩

theorem neoBytesU16_ne (n : Nat) : (neoBytesU16 n).length ≠ 0 := by
  unfold neoBytesU16
  simp only
  split <;> split <;> simp [leBytes]

theorem pushNum_some (n : Nat) : ∃ p, pushNum n = some p := by
  unfold pushNum
  split
  · exact ⟨_, rfl⟩
  · split
    · exact ⟨_, rfl⟩
    · exact pushBytes_some (neoBytesU16_ne n)

theorem pushAll_some (l : List Bytes) (h : ∀ d ∈ l, d.length ≠ 0) : ∃ p, pushAll l = some p := by
  induction l with
  | nil => exact ⟨[], rfl⟩
  | cons d r ih =>
    obtain ⟨a, ha⟩ := pushBytes_some (h d (by simp))
    obtain ⟨b, hb⟩ := ih (fun x hx => h x (by simp [hx]))
    exact ⟨a ++ b, by simp [pushAll, ha, hb]⟩

theorem addrOfKey_no_panic (C : Lib Key Sig) (hser : ∀ k, (C.serKey k).length ≠ 0) (k : Key) : addrOfKey C k ≠ .panic := by
  unfold addrOfKey
  cases C.ethAddr k with
  | some a => simp
  | none =>
    obtain ⟨p, hp⟩ := pushBytes_some (hser k)
    simp [progFromKeyBytes, hp]

theorem addrOfMulti_no_panic (C : Lib Key Sig) (hser : ∀ k, (C.serKey k).length ≠ 0) (keys : List Key) (m : Nat) :
    addrOfMulti C keys m ≠ .panic := by
  unfold addrOfMulti
  simp only
  split
  · simp
  · obtain ⟨a, ha⟩ := pushNum_some m
    obtain ⟨b, hb⟩ := pushAll_some ((sortKeys C.keyLt keys).map C.serKey) (by
      intro d hd
      obtain ⟨k, _, rfl⟩ := List.mem_map.mp hd
      exact hser k)
    obtain ⟨c, hc⟩ := pushNum_some (sortKeys C.keyLt keys).length
    simp [multiProg, ha, hb, hc]

theorem checkSigSet_no_panic [DecidableEq Key] (cfg : Cfg) (C : Lib Key Sig) (vf : Key → Sig → VRes)
    (hvf : ∀ k s, vf k s ≠ .panic) (hser : ∀ k, (C.serKey k).length ≠ 0) (rs : Bytes × Bytes) :
    checkSigSet cfg C vf rs ≠ .panic := by
  unfold checkSigSet
  cases hg : getSig C rs with
  | none => simp
  | some t =>
    obtain ⟨sigs, m, keys⟩ := t
    simp only
    split
    · simp
    · rename_i hc
      split
      · simp
      · rename_i hd
        split
        · rename_i k
          cases sigs with
          | nil => simp at hc; omega
          | cons raw rest =>
            simp only
            cases hv : verifyOne C vf k raw with
            | ok u => exact addrOfKey_no_panic C hser k
            | reject => simp
            | panic =>
              exfalso
              unfold verifyOne at hv
              cases hp : C.parseSig raw with
              | none => simp [hp] at hv
              | some s =>
                simp only [hp] at hv
                cases hvv : vf k s with
                | ok => simp [hvv] at hv
                | bad => simp [hvv] at hv
                | panic => exact hvf k s hvv
        · cases hv : verifyMulti C vf keys m sigs with
          | ok u => exact addrOfMulti_no_panic C hser keys m
          | reject => simp
          | panic =>
            exfalso
            unfold verifyMulti at hv
            split at hv
            · simp at hv
            · exact vmsLoop_no_panic C vf hvf keys m sigs _ (by omega) hv

theorem checkAll_no_panic [DecidableEq Key] (cfg : Cfg) (C : Lib Key Sig) (vf : Key → Sig → VRes)
    (hvf : ∀ k s, vf k s ≠ .panic) (hser : ∀ k, (C.serKey k).length ≠ 0) (sets : List (Bytes × Bytes)) :
    checkAll cfg C vf sets ≠ .panic := by
  induction sets with
  | nil => simp [checkAll]
  | cons rs rest ih =>
    simp only [checkAll]
    cases h1 : checkSigSet cfg C vf rs with
    | ok a =>
      simp only
      cases h2 : checkAll cfg C vf rest with
      | ok as => simp
      | reject => simp
      | panic => exact absurd h2 ih
    | reject => simp
    | panic => exact absurd h1 (checkSigSet_no_panic cfg C vf hvf hser rs)

theorem checkSigs_no_panic [DecidableEq Key] (cfg : Cfg) (C : Crypto Key Sig)
    (hser : ∀ k, (C.serKey k).length ≠ 0) (tx : Tx) : checkSigs cfg C tx ≠ .panic := by
  have hvf : ∀ k s, verifier C tx k s ≠ .panic := by
    intro k s
    unfold verifier guarded
    cases C.verify k (txMsg C tx) s <;> simp
  unfold checkSigs checkSigsWith
  split
  · simp
  · cases h : checkAll cfg C.toLib (verifier C tx) tx.sigs with
    | ok as => simp only; split <;> simp
    | reject => simp
    | panic => exact absurd h (checkAll_no_panic cfg C.toLib _ hvf hser tx.sigs)


/-! ## The transaction object -/

theorem checkSigsObj_ok [DecidableEq Key] (cfg : Cfg) (C : Crypto Key Sig) (tx : Tx) (pre addrs : List Addr)
    (h : (checkSigsObj cfg C ⟨tx, pre⟩).1 = .ok addrs) :
    checkSigs cfg C tx = .ok addrs ∧ (checkSigsObj cfg C ⟨tx, pre⟩).2 = ⟨tx, addrs⟩ := by
  unfold checkSigsObj at h ⊢
  cases hc : checkSigs cfg C tx with
  | ok as =>
    simp only [hc, Verdict.ok.injEq] at h ⊢
    subst h
    exact ⟨rfl, rfl⟩
  | reject => simp [hc] at h
  | panic => simp [hc] at h

end OntVerif.Proofs.SigCheck
