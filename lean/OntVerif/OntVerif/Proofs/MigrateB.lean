import OntVerif.Proofs.Migrate
import OntVerif.Props.C04
/-! C44, second part: the migration / destruction theorems in terms of `CacheDB.Get`, and the invariants behind
"a destroyed address is never deployed or written again". -/
namespace OntVerif.Proofs.Migrate
open OntVerif.Util OntVerif.Model.KV OntVerif.Model.Migrate OntVerif.Proofs.KV

theorem isDestroyed_iff (c : Cache) (a : Bytes) : isDestroyed c a = true ↔ c.read (stDestroyed :: a) ≠ [] := by
  unfold isDestroyed
  show (!(c.read (stDestroyed :: a)).isEmpty) = true ↔ _
  cases c.read (stDestroyed :: a) <;> simp

theorem isPresent_false_of (c : Cache) (a : Bytes) (h : isDestroyed c a = true ∨ c.read (stContract :: a) = []) :
    isPresent c a = false := by
  unfold isPresent getContract
  by_cases hd : isDestroyed c a = true
  · simp [hd]
  · rcases h with h | h
    · exact absurd h hd
    · have : c.get stContract a = [] := h
      simp [hd, this]

theorem not_prefix_of_head_ne {a b : UInt8} (x y : Bytes) (h : a ≠ b) : ¬ (a :: x) <+: (b :: y) := by
  intro hp; rw [List.cons_prefix_cons] at hp; exact h hp.1

theorem iterate_nil_of_reads (c : Cache) (inv : Inv c) (p : Bytes)
    (h : ∀ k, p <+: k → c.get stStorage k = []) (n : Nat) : c.iterate p n = [] := by
  rw [cache_iterate_spec c inv p n]
  obtain ⟨_, hm⟩ := cacheList_stripped_spec c inv p
  cases hl : (cacheList c p).map (fun e => (e.1.drop 1, e.2)) with
  | nil => simp
  | cons x xs =>
    have hx : (x.1, x.2) ∈ (cacheList c p).map (fun e => (e.1.drop 1, e.2)) := by rw [hl]; simp
    obtain ⟨h1, h2, h3⟩ := (hm x.1 x.2).mp hx
    exact absurd (by rw [← h2]; exact h x.1 h1) h3

theorem migrate_full (track : Nat) (c : Cache) (inv : Inv c) (old new : Bytes) (h : Nat)
    (ho : old.length = 20) (hn : new.length = 20) (hne : old ≠ new) :
    (∀ sfx v, c.get stStorage (old ++ sfx) = v → v ≠ [] → (migrate track c old new h).get stStorage (new ++ sfx) = v) ∧
    (∀ k, old <+: k → (migrate track c old new h).get stStorage k = []) ∧
    (∀ n, (migrate track c old new h).iterate old n = []) ∧
    (∀ sfx, c.get stStorage (old ++ sfx) = [] →
      (migrate track c old new h).get stStorage (new ++ sfx) = c.get stStorage (new ++ sfx)) ∧
    (∀ k, ¬ old <+: k → ¬ new <+: k → (migrate track c old new h).get stStorage k = c.get stStorage k) ∧
    isPresent (migrate track c old new h) old = false ∧
    (track ≤ h → isDestroyed (migrate track c old new h) old = true) ∧
    (isDestroyed c old = true → isDestroyed (migrate track c old new h) old = true) ∧
    (migrate track c old new h).backend = c.backend ∧ Inv (migrate track c old new h) := by
  obtain ⟨i, b, m1, m2, m3, m4⟩ := migrate_spec track c inv old new h ho hn hne
  have h4 : (migrate track c old new h).read (stContract :: old) = [] := by
    rw [m4 _ (not_prefix_of_head_ne _ _ (by decide)) (not_prefix_of_head_ne _ _ (by decide)),
      read_deleteContract track c inv.tx]
    rw [if_neg (fun hh => cons_ne_of_head_ne old old (by decide) hh.1), if_pos rfl]
  have h6 : (migrate track c old new h).read (stDestroyed :: old) =
      if track ≤ h then leBytes 4 h else c.read (stDestroyed :: old) := by
    rw [m4 _ (not_prefix_of_head_ne _ _ (by decide)) (not_prefix_of_head_ne _ _ (by decide)),
      read_deleteContract track c inv.tx]
    by_cases ht : track ≤ h
    · simp [ht]
    · simp only [ht, and_false, if_false]
      rw [if_neg (cons_ne_of_head_ne old old (by decide))]
  refine ⟨?_, m2, iterate_nil_of_reads _ i old m2, m3, ?_, isPresent_false_of _ _ (Or.inr h4), ?_, ?_, b, i⟩
  · intro sfx v hv hnz
    subst hv
    exact m1 sfx hnz
  · intro k h1 h2
    show (migrate track c old new h).read (stStorage :: k) = c.read (stStorage :: k)
    rw [m4 _ (fun hp => h1 (by rw [List.cons_prefix_cons] at hp; exact hp.2))
      (fun hp => h2 (by rw [List.cons_prefix_cons] at hp; exact hp.2)), read_deleteContract track c inv.tx]
    rw [if_neg (fun hh => cons_ne_of_head_ne k old (by decide) hh.1), if_neg (cons_ne_of_head_ne k old (by decide))]
  · intro ht
    rw [isDestroyed_iff, h6, if_pos ht]; exact leBytes4_ne_nil h
  · intro hd
    rw [isDestroyed_iff] at hd ⊢
    rw [h6]; split
    · exact leBytes4_ne_nil h
    · exact hd

theorem clean_full (track : Nat) (c : Cache) (inv : Inv c) (addr : Bytes) (h : Nat) :
    (∀ k, addr <+: k → (clean track c addr h).get stStorage k = []) ∧
    (∀ n, (clean track c addr h).iterate addr n = []) ∧
    (∀ k, ¬ addr <+: k → (clean track c addr h).get stStorage k = c.get stStorage k) ∧
    isPresent (clean track c addr h) addr = false ∧
    (track ≤ h → isDestroyed (clean track c addr h) addr = true) ∧
    (isDestroyed c addr = true → isDestroyed (clean track c addr h) addr = true) ∧
    (clean track c addr h).backend = c.backend ∧ Inv (clean track c addr h) := by
  have inv0 := inv_deleteContract inv track addr h
  obtain ⟨i, b, r1, r2⟩ := cleanData_spec (deleteContract track c addr h) inv0 addr
  have h4 : (clean track c addr h).read (stContract :: addr) = [] := by
    unfold clean
    rw [r2 _ (not_prefix_of_head_ne _ _ (by decide)), read_deleteContract track c inv.tx]
    rw [if_neg (fun hh => cons_ne_of_head_ne addr addr (by decide) hh.1), if_pos rfl]
  have h6 : (clean track c addr h).read (stDestroyed :: addr) =
      if track ≤ h then leBytes 4 h else c.read (stDestroyed :: addr) := by
    unfold clean
    rw [r2 _ (not_prefix_of_head_ne _ _ (by decide)), read_deleteContract track c inv.tx]
    by_cases ht : track ≤ h
    · simp [ht]
    · simp only [ht, and_false, if_false]
      rw [if_neg (cons_ne_of_head_ne addr addr (by decide))]
  refine ⟨r1, iterate_nil_of_reads _ i addr r1, ?_, isPresent_false_of _ _ (Or.inr h4), ?_, ?_,
    by unfold clean; rw [b, deleteContract_backend], i⟩
  · intro k hk
    show (clean track c addr h).read (stStorage :: k) = c.read (stStorage :: k)
    unfold clean
    rw [r2 _ (fun hp => hk (by rw [List.cons_prefix_cons] at hp; exact hp.2)), read_deleteContract track c inv.tx]
    rw [if_neg (fun hh => cons_ne_of_head_ne k addr (by decide) hh.1), if_neg (cons_ne_of_head_ne k addr (by decide))]
  · intro ht
    rw [isDestroyed_iff, h6, if_pos ht]; exact leBytes4_ne_nil h
  · intro hd
    rw [isDestroyed_iff] at hd ⊢
    rw [h6]; split
    · exact leBytes4_ne_nil h
    · exact hd

/-! ### never again -/

/-- `a` stays marked destroyed and no storage value appears or changes under it -/
def Keeps (a : Bytes) (c c' : Cache) : Prop :=
  Inv c' ∧ isDestroyed c' a = true ∧
    ∀ k, a <+: k → c'.get stStorage k = c.get stStorage k ∨ c'.get stStorage k = []

theorem keeps_refl {a : Bytes} {c : Cache} (inv : Inv c) (hd : isDestroyed c a = true) : Keeps a c c :=
  ⟨inv, hd, fun _ _ => Or.inl rfl⟩

theorem keeps_trans {a : Bytes} {c c' c'' : Cache} (h1 : Keeps a c c') (h2 : Keeps a c' c'') : Keeps a c c'' := by
  refine ⟨h2.1, h2.2.1, fun k hk => ?_⟩
  rcases h2.2.2 k hk with h | h
  · rw [h]; exact h1.2.2 k hk
  · exact Or.inr h

/-- a cache that reads like `c` except that some keys outside the marker of `a` changed, none of them gaining a value under `a` -/
theorem keeps_of_reads {a : Bytes} {c c' : Cache} (inv' : Inv c') (hd : isDestroyed c a = true)
    (h6 : c'.read (stDestroyed :: a) = c.read (stDestroyed :: a) ∨ c'.read (stDestroyed :: a) ≠ [])
    (h5 : ∀ k, a <+: k → c'.read (stStorage :: k) = c.read (stStorage :: k) ∨ c'.read (stStorage :: k) = []) :
    Keeps a c c' := by
  refine ⟨inv', ?_, h5⟩
  rw [isDestroyed_iff] at hd ⊢
  rcases h6 with h | h
  · rw [h]; exact hd
  · exact h

theorem not_under_of_ne {a b : Bytes} (ha : a.length = 20) (hb : b.length = 20) (hne : b ≠ a) (x k : Bytes)
    (hk : a <+: k) : k ≠ b ++ x := by
  intro he; rw [he] at hk
  exact hne (prefix_append_eq hk (by omega)).symm

theorem keeps_put5 {a : Bytes} {c : Cache} (inv : Inv c) (hd : isDestroyed c a = true) (key : Bytes) (v : Val)
    (hn : ¬ a <+: key) : Keeps a c (c.put stStorage key v) := by
  apply keeps_of_reads (inv_cput inv _ _ _) hd
  · left; rw [read_cput c inv.tx, if_neg (cons_ne_of_head_ne _ _ (by decide))]
  · intro k hk; left
    rw [read_cput c inv.tx, if_neg]
    intro he; exact hn (by rw [← (List.cons.inj he).2]; exact hk)

theorem keeps_del5 {a : Bytes} {c : Cache} (inv : Inv c) (hd : isDestroyed c a = true) (key : Bytes) :
    Keeps a c (c.delete stStorage key) := by
  apply keeps_of_reads (inv_cdel inv _ _) hd
  · left; rw [read_cdel c inv.tx, if_neg (cons_ne_of_head_ne _ _ (by decide))]
  · intro k _
    rw [read_cdel c inv.tx]
    split
    · exact Or.inr rfl
    · exact Or.inl rfl

theorem keeps_putContract {a : Bytes} {c : Cache} (inv : Inv c) (hd : isDestroyed c a = true) (addr val : Bytes) :
    Keeps a c (putContract c addr val) := by
  unfold putContract
  apply keeps_of_reads (inv_cput inv _ _ _) hd
  · left; rw [read_cput c inv.tx, if_neg (cons_ne_of_head_ne _ _ (by decide))]
  · intro k _; left; rw [read_cput c inv.tx, if_neg (cons_ne_of_head_ne _ _ (by decide))]

theorem keeps_setDestroyed {a : Bytes} {c : Cache} (inv : Inv c) (hd : isDestroyed c a = true) (track : Nat) (addr : Bytes) (h : Nat) :
    Keeps a c (setDestroyed track c addr h) := by
  apply keeps_of_reads (inv_setDestroyed inv _ _ _) hd
  · rw [read_setDestroyed track c inv.tx]
    split
    · exact Or.inr (leBytes4_ne_nil h)
    · exact Or.inl rfl
  · intro k _; left
    rw [read_setDestroyed track c inv.tx, if_neg (fun hh => cons_ne_of_head_ne k addr (by decide) hh.1)]

theorem keeps_unsetDestroyed {a : Bytes} {c : Cache} (inv : Inv c) (hd : isDestroyed c a = true) (track : Nat) (addr : Bytes) (h : Nat)
    (hne : addr ≠ a) : Keeps a c (unsetDestroyed track c addr h) := by
  unfold unsetDestroyed
  split
  · apply keeps_of_reads (inv_cdel inv _ _) hd
    · left; rw [read_cdel c inv.tx, if_neg]
      intro he; exact hne (List.cons.inj he).2.symm
    · intro k _; left; rw [read_cdel c inv.tx, if_neg (cons_ne_of_head_ne _ _ (by decide))]
  · exact keeps_refl inv hd

theorem keeps_migrate {a : Bytes} {c : Cache} (inv : Inv c) (hd : isDestroyed c a = true) (ha : a.length = 20)
    (track : Nat) (self addr : Bytes) (h : Nat) (hs : self.length = 20) (hn : addr.length = 20) (hne : addr ≠ a) :
    Keeps a c (migrate track c self addr h) := by
  rw [isDestroyed_iff] at hd
  have h6c0 : (deleteContract track c self h).read (stDestroyed :: a) ≠ [] := by
    rw [read_deleteContract track c inv.tx]
    split
    · exact leBytes4_ne_nil h
    · rw [if_neg (cons_ne_of_head_ne _ _ (by decide))]; exact hd
  have h5c0 : ∀ t, (deleteContract track c self h).read (stStorage :: t) = c.read (stStorage :: t) := by
    intro t
    rw [read_deleteContract track c inv.tx, if_neg (fun hh => cons_ne_of_head_ne t self (by decide) hh.1),
      if_neg (cons_ne_of_head_ne t self (by decide))]
  obtain ⟨i, _, fr⟩ := migrate_frame track c inv self addr h hs hn
  have hmark : (migrate track c self addr h).read (stDestroyed :: a) ≠ [] := by
    rw [fr _ (not_prefix_of_head_ne _ _ (by decide)) (not_prefix_of_head_ne _ _ (by decide))]; exact h6c0
  refine ⟨i, (isDestroyed_iff _ _).mpr hmark, ?_⟩
  intro k hk
  by_cases hsa : self = a
  · subst hsa
    right
    exact (migrate_spec track c inv self addr h hs hn (fun he => hne he.symm)).2.2.2.1 k hk
  · left
    show (migrate track c self addr h).read (stStorage :: k) = c.read (stStorage :: k)
    rw [fr, h5c0]
    · intro hp; rw [List.cons_prefix_cons] at hp
      obtain ⟨t, ht⟩ := hp.2
      exact not_under_of_ne ha hs hsa t k hk ht.symm
    · intro hp; rw [List.cons_prefix_cons] at hp
      obtain ⟨t, ht⟩ := hp.2
      exact not_under_of_ne ha hn hne t k hk ht.symm

theorem keeps_clean {a : Bytes} {c : Cache} (inv : Inv c) (hd : isDestroyed c a = true) (ha : a.length = 20)
    (track : Nat) (self : Bytes) (h : Nat) (hs : self.length = 20) :
    Keeps a c (clean track c self h) := by
  obtain ⟨c1, _, c3, _, _, _, _, c8⟩ := clean_full track c inv self h
  have inv0 := inv_deleteContract inv track self h
  obtain ⟨_, _, _, r2⟩ := cleanData_spec (deleteContract track c self h) inv0 self
  rw [isDestroyed_iff] at hd
  have hmark : (clean track c self h).read (stDestroyed :: a) ≠ [] := by
    unfold clean
    rw [r2 _ (not_prefix_of_head_ne _ _ (by decide)), read_deleteContract track c inv.tx]
    split
    · exact leBytes4_ne_nil h
    · rw [if_neg (cons_ne_of_head_ne _ _ (by decide))]; exact hd
  refine ⟨c8, (isDestroyed_iff _ _).mpr hmark, ?_⟩
  intro k hk
  by_cases hsa : self = a
  · subst hsa; right; exact c1 k hk
  · left
    apply c3
    intro hp
    obtain ⟨t, ht⟩ := hp
    exact not_under_of_ne ha hs hsa t k hk ht.symm

theorem isPresent_ne_destroyed {c : Cache} {a x : Bytes} (hd : isDestroyed c a = true) (hp : isPresent c x = true) : x ≠ a := by
  intro he; subst he
  unfold isPresent getContract at hp
  simp [hd] at hp

theorem absent_ne_destroyed {c : Cache} {a x : Bytes} (hd : isDestroyed c a = true) (hp : getContract c x = .absent) : x ≠ a := by
  intro he; subst he
  unfold getContract at hp
  simp [hd] at hp

/-- one service call: unless it is a storage write in the name of `a` on the unchecked (as shipped) path, or the operator's
`removeDestroyedContract(a)`, the address stays destroyed and nothing is written under it -/
theorem sys_keeps (v : Variant) (track h : Nat) (c : Cache) (inv : Inv c) (a : Bytes) (ha : a.length = 20)
    (hd : isDestroyed c a = true) (s : Sys) (wf : s.WF) (hnr : s ≠ .removeDestroyed a)
    (hv : v = .sound ∨ ¬ s.writesAs a) (c' : Cache) (hrun : (s.run v track h c).cache? = some c') :
    Keeps a c c' := by
  have ctxne : ∀ ctx : Bytes, (v = .sound ∨ ctx ≠ a) → ¬ ((v = .sound && !isPresent c ctx) = true) → ctx ≠ a := by
    intro ctx hor hchk
    rcases hor with hvs | hne
    · subst hvs
      have : isPresent c ctx = true := by simpa using hchk
      exact isPresent_ne_destroyed hd this
    · exact hne
  cases s with
  | neoPut ctx k val =>
    by_cases h1 : (v = .sound && !isPresent c ctx) = true
    · simp [Sys.run, h1, Outcome.cache?] at hrun
    · by_cases h2 : k.length > 1024
      · simp [Sys.run, h1, h2, Outcome.cache?] at hrun
      · simp [Sys.run, h1, h2, Outcome.cache?] at hrun
        subst hrun
        apply keeps_put5 inv hd
        intro hp
        have hne := ctxne ctx (hv.imp id id) h1
        exact hne (prefix_append_eq hp (by have : ctx.length = 20 := wf; omega)).symm
  | neoDelete ctx k =>
    by_cases h1 : (v = .sound && !isPresent c ctx) = true
    · simp [Sys.run, h1, Outcome.cache?] at hrun
    · simp [Sys.run, h1, Outcome.cache?] at hrun
      subst hrun
      exact keeps_del5 inv hd _
  | neoCreate addr val =>
    cases hg : getContract c addr with
    | absent =>
      simp [Sys.run, hg, Outcome.cache?] at hrun
      subst hrun; exact keeps_putContract inv hd _ _
    | destroyed =>
      simp [Sys.run, hg, Outcome.cache?] at hrun
      subst hrun; exact keeps_refl inv hd
    | present w =>
      simp [Sys.run, hg, Outcome.cache?] at hrun
      subst hrun; exact keeps_refl inv hd
  | neoMigrate self addr val =>
    cases hg : getContract c addr with
    | absent =>
      simp [Sys.run, hg, Outcome.cache?] at hrun
      subst hrun
      have hne : addr ≠ a := absent_ne_destroyed hd hg
      have k1 := keeps_putContract inv hd addr val
      exact keeps_trans k1 (keeps_migrate k1.1 k1.2.1 ha track self addr h wf.1 wf.2 hne)
    | destroyed => simp [Sys.run, hg, Outcome.cache?] at hrun
    | present w => simp [Sys.run, hg, Outcome.cache?] at hrun
  | neoDestroy self =>
    by_cases h1 : isPresent c self = true
    · simp [Sys.run, h1, Outcome.cache?] at hrun
      subst hrun
      exact keeps_clean inv hd ha track self h wf
    · simp [Sys.run, h1, Outcome.cache?] at hrun
  | appCall addr =>
    by_cases h1 : isPresent c addr = true
    · simp [Sys.run, h1, Outcome.cache?] at hrun
      subst hrun; exact keeps_refl inv hd
    · simp [Sys.run, h1, Outcome.cache?] at hrun
  | wasmWrite self k val =>
    by_cases h1 : (v = .sound && !isPresent c self) = true
    · simp [Sys.run, h1, Outcome.cache?] at hrun
    · simp [Sys.run, h1, Outcome.cache?] at hrun
      subst hrun
      apply keeps_put5 inv hd
      intro hp
      have hne := ctxne self (hv.imp id id) h1
      exact hne (prefix_append_eq hp (by have : self.length = 20 := wf; omega)).symm
  | wasmDelete self k =>
    by_cases h1 : (v = .sound && !isPresent c self) = true
    · simp [Sys.run, h1, Outcome.cache?] at hrun
    · simp [Sys.run, h1, Outcome.cache?] at hrun
      subst hrun
      exact keeps_del5 inv hd _
  | wasmCreate addr val =>
    cases hg : getContract c addr with
    | absent =>
      simp [Sys.run, hg, Outcome.cache?] at hrun
      subst hrun; exact keeps_putContract inv hd _ _
    | destroyed => simp [Sys.run, hg, Outcome.cache?] at hrun
    | present w => simp [Sys.run, hg, Outcome.cache?] at hrun
  | wasmMigrate self addr val =>
    cases hg : getContract c addr with
    | absent =>
      simp [Sys.run, hg, Outcome.cache?] at hrun
      subst hrun
      have hne : addr ≠ a := absent_ne_destroyed hd hg
      have k1 := keeps_putContract inv hd addr val
      exact keeps_trans k1 (keeps_migrate k1.1 k1.2.1 ha track self addr h wf.1 wf.2 hne)
    | destroyed => simp [Sys.run, hg, Outcome.cache?] at hrun
    | present w => simp [Sys.run, hg, Outcome.cache?] at hrun
  | wasmDestroy self =>
    simp [Sys.run, Outcome.cache?] at hrun
    subst hrun
    exact keeps_clean inv hd ha track self h wf
  | addDestroyed addr =>
    simp [Sys.run, Outcome.cache?] at hrun
    subst hrun
    exact keeps_setDestroyed inv hd track addr h
  | removeDestroyed addr =>
    simp [Sys.run, Outcome.cache?] at hrun
    subst hrun
    exact keeps_unsetDestroyed inv hd track addr h (fun he => hnr (by rw [he]))

theorem runCalls_cons (v : Variant) (track h : Nat) (c : Cache) (s : Sys) (r : List Sys) :
    runCalls v track h c (s :: r) =
      match (s.run v track h c).cache? with
      | some c' => runCalls v track h c' r
      | none => none := by
  simp only [runCalls]
  cases s.run v track h c <;> rfl

theorem runCalls_keeps (v : Variant) (track h : Nat) (a : Bytes) (ha : a.length = 20) :
    ∀ (calls : List Sys) (c : Cache), Inv c → isDestroyed c a = true →
      (∀ s ∈ calls, s.WF ∧ s ≠ .removeDestroyed a ∧ (v = .sound ∨ ¬ s.writesAs a)) →
      ∀ c', runCalls v track h c calls = some c' → Keeps a c c' := by
  intro calls
  induction calls with
  | nil =>
    intro c inv hd _ c' hr
    simp only [runCalls, Option.some.injEq] at hr
    subst hr; exact keeps_refl inv hd
  | cons s r ih =>
    intro c inv hd hall c' hr
    rw [runCalls_cons] at hr
    cases hc : (s.run v track h c).cache? with
    | none => rw [hc] at hr; simp at hr
    | some c1 =>
      rw [hc] at hr
      obtain ⟨w1, w2, w3⟩ := hall s (by simp)
      have k1 := sys_keeps v track h c inv a ha hd s w1 w2 w3 c1 hc
      exact keeps_trans k1 (ih c1 k1.1 k1.2.1 (fun x hx => hall x (by simp [hx])) c' hr)

/-- block-overlay level: the marker of `a` is committed and no storage value appears or changes under `a` -/
def KeepsB (a : Bytes) (c c' : Cache) : Prop :=
  Inv c' ∧ c'.backend.get (stDestroyed :: a) ≠ [] ∧
    ∀ k, a <+: k → c'.backend.get (stStorage :: k) = c.backend.get (stStorage :: k) ∨ c'.backend.get (stStorage :: k) = []

theorem keepsB_trans {a : Bytes} {c c' c'' : Cache} (h1 : KeepsB a c c') (h2 : KeepsB a c' c'') : KeepsB a c c'' := by
  refine ⟨h2.1, h2.2.1, fun k hk => ?_⟩
  rcases h2.2.2 k hk with h | h
  · rw [h]; exact h1.2.2 k hk
  · exact Or.inr h

theorem reset_facts (c : Cache) (inv : Inv c) :
    Inv c.reset ∧ c.reset.backend = c.backend ∧ ∀ q, c.reset.read q = c.backend.get q :=
  ⟨step_inv inv .reset, rfl, fun q => (OntVerif.Props.C04.C04_reset c q).1⟩

theorem commit_facts (c : Cache) (inv : Inv c) :
    Inv c.commit ∧ ∀ q, c.commit.backend.get q = c.read q :=
  ⟨step_inv inv .commit, fun q => (OntVerif.Props.C04.C04_commit c inv q).1⟩

theorem keepsB_of_backend {a : Bytes} {c c' : Cache} (inv' : Inv c') (hm : c.backend.get (stDestroyed :: a) ≠ [])
    (h : ∀ q, c'.backend.get q = c.backend.get q) : KeepsB a c c' :=
  ⟨inv', by rw [h]; exact hm, fun k _ => Or.inl (h _)⟩

theorem tx_keeps (v : Variant) (track : Nat) (c : Cache) (inv : Inv c) (a : Bytes) (ha : a.length = 20)
    (hm : c.backend.get (stDestroyed :: a) ≠ []) (t : Tx) (wf : t.WF) (hnr : t.noRemove a)
    (hv : v = .sound ∨ t.noWriteAs a) : KeepsB a c (t.run v track c).1 := by
  obtain ⟨inv0, hb0, hr0⟩ := reset_facts c inv
  have hd0 : isDestroyed c.reset a = true := by rw [isDestroyed_iff, hr0]; exact hm
  cases t with
  | invoke h calls =>
    simp only [Tx.run]
    cases hc : runCalls v track h c.reset calls with
    | none => exact keepsB_of_backend inv0 hm (fun q => by rw [hb0])
    | some c' =>
      have hk := runCalls_keeps v track h a ha calls c.reset inv0 hd0
        (fun s hs => ⟨wf s hs, hnr s hs, hv.imp id (fun hw => hw s hs)⟩) c' hc
      obtain ⟨ic, hcg⟩ := commit_facts c' hk.1
      refine ⟨ic, ?_, ?_⟩
      · rw [hcg]; exact (isDestroyed_iff _ _).mp hk.2.1
      · intro k hk'
        rw [hcg]
        rcases hk.2.2 k hk' with h1 | h1
        · left; rw [← hr0]; exact h1
        · right; exact h1
  | deploy h addr val =>
    simp only [Tx.run]
    cases hg : getContract c.reset addr with
    | destroyed => exact keepsB_of_backend inv0 hm (fun q => by rw [hb0])
    | present w =>
      obtain ⟨ic, hcg⟩ := commit_facts c.reset inv0
      exact keepsB_of_backend ic hm (fun q => by rw [hcg, hr0])
    | absent =>
      have hne : addr ≠ a := absent_ne_destroyed hd0 hg
      have i1 : Inv (putContract c.reset addr val) := inv_cput inv0 _ _ _
      obtain ⟨ic, hcg⟩ := commit_facts _ i1
      refine ⟨ic, ?_, ?_⟩
      · rw [hcg]; unfold putContract
        rw [read_cput _ inv0.tx, if_neg (cons_ne_of_head_ne _ _ (by decide)), hr0]; exact hm
      · intro k _; left
        rw [hcg]; unfold putContract
        rw [read_cput _ inv0.tx, if_neg (cons_ne_of_head_ne _ _ (by decide)), hr0]
  | blockCommit =>
    simp only [Tx.run]
    exact keepsB_of_backend (step_inv inv _) hm (fun q => (OntVerif.Props.C04.C04_block_commit c inv false q).2.1)

theorem runTxs_keeps (v : Variant) (track : Nat) (a : Bytes) (ha : a.length = 20) :
    ∀ (txs : List Tx) (c : Cache), Inv c → c.backend.get (stDestroyed :: a) ≠ [] →
      (∀ t ∈ txs, t.WF ∧ t.noRemove a ∧ (v = .sound ∨ t.noWriteAs a)) →
      KeepsB a c (runTxs v track c txs) := by
  intro txs
  induction txs with
  | nil => intro c inv hm _; exact ⟨inv, hm, fun _ _ => Or.inl rfl⟩
  | cons t r ih =>
    intro c inv hm hall
    obtain ⟨w1, w2, w3⟩ := hall t (by simp)
    have k1 := tx_keeps v track c inv a ha hm t w1 w2 w3
    have k2 := ih (t.run v track c).1 k1.1 k1.2.1 (fun x hx => hall x (by simp [hx]))
    exact keepsB_trans k1 k2

/-- a deploy transaction for an address whose destroyed marker is committed is refused and changes nothing -/
theorem deploy_refused (v : Variant) (track : Nat) (c : Cache) (inv : Inv c) (a : Bytes)
    (hm : c.backend.get (stDestroyed :: a) ≠ []) (h : Nat) (val : Bytes) :
    ((Tx.deploy h a val).run v track c).2 = .err ∧ ((Tx.deploy h a val).run v track c).1 = c.reset := by
  obtain ⟨_, _, hr0⟩ := reset_facts c inv
  have hd0 : isDestroyed c.reset a = true := by rw [isDestroyed_iff, hr0]; exact hm
  have : getContract c.reset a = .destroyed := by unfold getContract; simp [hd0]
  simp [Tx.run, this]

end OntVerif.Proofs.Migrate
