import OntVerif.Proofs.Migrate
/-! C44, second part: the migration / destruction theorems in terms of `CacheDB.Get`, and the invariants behind
"a destroyed address is never deployed or written again". -/
namespace OntVerif.Proofs.Migrate
open OntVerif.Util OntVerif.Model.KV OntVerif.Model.Migrate OntVerif.Proofs.KV

theorem isDestroyed_iff (c : Cache) (a : Bytes) : isDestroyed c a = true ↔ c.read (stDestroyed :: a) ≠ [] := by
  unfold isDestroyed
  show (!(c.read (stDestroyed :: a)).isEmpty) = true ↔ _
  cases c.read (stDestroyed :: a) <;> simp

theorem isPresent_false_of (c : Cache) (a : Bytes) (h : isDestroyed c a = true ∨ c.read (stContract :: a) = []) :
    isPresent c a = false := by
  unfold isPresent getContract
  by_cases hd : isDestroyed c a = true
  · simp [hd]
  · rcases h with h | h
    · exact absurd h hd
    · have : c.get stContract a = [] := h
      simp [hd, this]

theorem not_prefix_of_head_ne {a b : UInt8} (x y : Bytes) (h : a ≠ b) : ¬ (a :: x) <+: (b :: y) := by
  intro hp; rw [List.cons_prefix_cons] at hp; exact h hp.1

theorem iterate_nil_of_reads (c : Cache) (inv : Inv c) (p : Bytes)
    (h : ∀ k, p <+: k → c.get stStorage k = []) (n : Nat) : c.iterate p n = [] := by
  rw [cache_iterate_spec c inv p n]
  obtain ⟨_, hm⟩ := cacheList_stripped_spec c inv p
  cases hl : (cacheList c p).map (fun e => (e.1.drop 1, e.2)) with
  | nil => simp
  | cons x xs =>
    have hx : (x.1, x.2) ∈ (cacheList c p).map (fun e => (e.1.drop 1, e.2)) := by rw [hl]; simp
    obtain ⟨h1, h2, h3⟩ := (hm x.1 x.2).mp hx
    exact absurd (by rw [← h2]; exact h x.1 h1) h3

theorem migrate_full (track : Nat) (c : Cache) (inv : Inv c) (old new : Bytes) (h : Nat)
    (ho : old.length = 20) (hn : new.length = 20) (hne : old ≠ new) :
    (∀ sfx v, c.get stStorage (old ++ sfx) = v → v ≠ [] → (migrate track c old new h).get stStorage (new ++ sfx) = v) ∧
    (∀ k, old <+: k → (migrate track c old new h).get stStorage k = []) ∧
    (∀ n, (migrate track c old new h).iterate old n = []) ∧
    (∀ sfx, c.get stStorage (old ++ sfx) = [] →
      (migrate track c old new h).get stStorage (new ++ sfx) = c.get stStorage (new ++ sfx)) ∧
    (∀ k, ¬ old <+: k → ¬ new <+: k → (migrate track c old new h).get stStorage k = c.get stStorage k) ∧
    isPresent (migrate track c old new h) old = false ∧
    (track ≤ h → isDestroyed (migrate track c old new h) old = true) ∧
    (isDestroyed c old = true → isDestroyed (migrate track c old new h) old = true) ∧
    (migrate track c old new h).backend = c.backend ∧ Inv (migrate track c old new h) := by
  obtain ⟨i, b, m1, m2, m3, m4⟩ := migrate_spec track c inv old new h ho hn hne
  have h4 : (migrate track c old new h).read (stContract :: old) = [] := by
    rw [m4 _ (not_prefix_of_head_ne _ _ (by decide)) (not_prefix_of_head_ne _ _ (by decide)),
      read_deleteContract track c inv.tx]
    rw [if_neg (fun hh => cons_ne_of_head_ne old old (by decide) hh.1), if_pos rfl]
  have h6 : (migrate track c old new h).read (stDestroyed :: old) =
      if track ≤ h then leBytes 4 h else c.read (stDestroyed :: old) := by
    rw [m4 _ (not_prefix_of_head_ne _ _ (by decide)) (not_prefix_of_head_ne _ _ (by decide)),
      read_deleteContract track c inv.tx]
    by_cases ht : track ≤ h
    · simp [ht]
    · simp only [ht, and_false, if_false]
      rw [if_neg (cons_ne_of_head_ne old old (by decide))]
  refine ⟨?_, m2, iterate_nil_of_reads _ i old m2, m3, ?_, isPresent_false_of _ _ (Or.inr h4), ?_, ?_, b, i⟩
  · intro sfx v hv hnz
    subst hv
    exact m1 sfx hnz
  · intro k h1 h2
    show (migrate track c old new h).read (stStorage :: k) = c.read (stStorage :: k)
    rw [m4 _ (fun hp => h1 (by rw [List.cons_prefix_cons] at hp; exact hp.2))
      (fun hp => h2 (by rw [List.cons_prefix_cons] at hp; exact hp.2)), read_deleteContract track c inv.tx]
    rw [if_neg (fun hh => cons_ne_of_head_ne k old (by decide) hh.1), if_neg (cons_ne_of_head_ne k old (by decide))]
  · intro ht
    rw [isDestroyed_iff, h6, if_pos ht]; exact leBytes4_ne_nil h
  · intro hd
    rw [isDestroyed_iff] at hd ⊢
    rw [h6]; split
    · exact leBytes4_ne_nil h
    · exact hd

theorem clean_full (track : Nat) (c : Cache) (inv : Inv c) (addr : Bytes) (h : Nat) :
    (∀ k, addr <+: k → (clean track c addr h).get stStorage k = []) ∧
    (∀ n, (clean track c addr h).iterate addr n = []) ∧
    (∀ k, ¬ addr <+: k → (clean track c addr h).get stStorage k = c.get stStorage k) ∧
    isPresent (clean track c addr h) addr = false ∧
    (track ≤ h → isDestroyed (clean track c addr h) addr = true) ∧
    (isDestroyed c addr = true → isDestroyed (clean track c addr h) addr = true) ∧
    (clean track c addr h).backend = c.backend ∧ Inv (clean track c addr h) := by
  have inv0 := inv_deleteContract inv track addr h
  obtain ⟨i, b, r1, r2⟩ := cleanData_spec (deleteContract track c addr h) inv0 addr
  have h4 : (clean track c addr h).read (stContract :: addr) = [] := by
    unfold clean
    rw [r2 _ (not_prefix_of_head_ne _ _ (by decide)), read_deleteContract track c inv.tx]
    rw [if_neg (fun hh => cons_ne_of_head_ne addr addr (by decide) hh.1), if_pos rfl]
  have h6 : (clean track c addr h).read (stDestroyed :: addr) =
      if track ≤ h then leBytes 4 h else c.read (stDestroyed :: addr) := by
    unfold clean
    rw [r2 _ (not_prefix_of_head_ne _ _ (by decide)), read_deleteContract track c inv.tx]
    by_cases ht : track ≤ h
    · simp [ht]
    · simp only [ht, and_false, if_false]
      rw [if_neg (cons_ne_of_head_ne addr addr (by decide))]
  refine ⟨r1, iterate_nil_of_reads _ i addr r1, ?_, isPresent_false_of _ _ (Or.inr h4), ?_, ?_,
    by unfold clean; rw [b, deleteContract_backend], i⟩
  · intro k hk
    show (clean track c addr h).read (stStorage :: k) = c.read (stStorage :: k)
    unfold clean
    rw [r2 _ (fun hp => hk (by rw [List.cons_prefix_cons] at hp; exact hp.2)), read_deleteContract track c inv.tx]
    rw [if_neg (fun hh => cons_ne_of_head_ne k addr (by decide) hh.1), if_neg (cons_ne_of_head_ne k addr (by decide))]
  · intro ht
    rw [isDestroyed_iff, h6, if_pos ht]; exact leBytes4_ne_nil h
  · intro hd
    rw [isDestroyed_iff] at hd ⊢
    rw [h6]; split
    · exact leBytes4_ne_nil h
    · exact hd

end OntVerif.Proofs.Migrate
