import OntVerif.Model.NeoExec
import OntVerif.Proofs.NeoVal
/-!
# Lemmas for C12: no Go panic / exhausted budget in the executor model (`Model/NeoExec.lean`)

`R.safe r` = `r` is neither `panic` (a Go index / slice / make out of range) nor `fuel` (a model loop out of budget).
Every primitive and every opcode is shown safe for ALL arguments; the proofs of the index expressions use nothing but the
bounds checks mirrored from the Go code (`omega` on the `if` conditions), so a missing check leaves an unprovable goal.
-/
namespace OntVerif.Proofs.NeoExec
open OntVerif.Util OntVerif.Model.NeoVal OntVerif.Model.NeoExec

/-- neither a Go panic nor an exhausted model budget -/
def R.safe {α : Type} : R α → Prop
  | .panic => False
  | .fuel => False
  | _ => True   -- value, fault, outside the model, dangling (excluded by `Proofs/NeoExecInv`), and `overflow`: the Go stack overflow of reflect.DeepEqual

@[simp] theorem safe_ok {α : Type} (a : α) : R.safe (R.ok a) := trivial
@[simp] theorem safe_pure {α : Type} (a : α) : R.safe (pure a : R α) := trivial
@[simp] theorem safe_fault {α : Type} : R.safe (R.fault : R α) := trivial
@[simp] theorem safe_unmod {α : Type} : R.safe (R.unmod : R α) := trivial
@[simp] theorem safe_dangling {α : Type} : R.safe (R.dangling : R α) := trivial
@[simp] theorem safe_overflow {α : Type} : R.safe (R.overflow : R α) := trivial

theorem safe_bind {α β : Type} {x : R α} {f : α → R β} (hx : R.safe x) (hf : ∀ a, x = .ok a → R.safe (f a)) :
    R.safe (x >>= f) := by
  cases x with
  | ok a => exact hf a rfl
  | fault => trivial
  | panic => exact hx
  | unmod => trivial
  | dangling => trivial
  | fuel => exact hx
  | overflow => trivial

theorem safe_rbind {α β : Type} {x : R α} {f : α → R β} (hx : R.safe x) (hf : ∀ a, x = .ok a → R.safe (f a)) :
    R.safe (x.bind f) := safe_bind hx hf

theorem goIdx_safe {α : Type} (xs : List α) (i : Int) (h0 : 0 ≤ i) (h1 : i < xs.length) : R.safe (goIdx xs i) := by
  unfold goIdx
  rw [if_pos ⟨h0, h1⟩]
  have : i.toNat < xs.length := by omega
  rw [List.getElem?_eq_getElem this]
  trivial

theorem goSlice_safe {α : Type} (xs : List α) (lo hi : Int) (h0 : 0 ≤ lo) (h1 : lo ≤ hi) (h2 : hi ≤ xs.length) :
    R.safe (goSlice xs lo hi) := by
  unfold goSlice
  rw [if_pos ⟨h0, h1, h2⟩]
  trivial

theorem goSlice_len {α : Type} (xs : List α) (lo hi : Int) (ys : List α) (h : goSlice xs lo hi = .ok ys) :
    (ys.length : Int) = hi - lo ∧ 0 ≤ lo ∧ lo ≤ hi ∧ hi ≤ xs.length := by
  unfold goSlice at h
  split at h
  · rename_i hc
    injection h with h
    subst h
    simp only [List.length_take, List.length_drop]
    omega
  · cases h

theorem goSet_safe {α : Type} (xs : List α) (i : Int) (v : α) (h0 : 0 ≤ i) (h1 : i < xs.length) : R.safe (goSet xs i v) := by
  unfold goSet
  rw [if_pos ⟨h0, h1⟩]
  trivial

theorem goSet_len {α : Type} (xs : List α) (i : Int) (v : α) (ys : List α) (h : goSet xs i v = .ok ys) : ys.length = xs.length := by
  unfold goSet at h
  split at h
  · injection h with h; subst h; simp
  · cases h

@[simp] theorem vsPush_safe (d : Stack) (t : Val) : R.safe (vsPush d t) := by
  unfold vsPush; split <;> trivial

@[simp] theorem vsPop_safe (d : Stack) : R.safe (vsPop d) := by
  unfold vsPop
  simp only
  split
  · trivial
  · rename_i h
    have : 0 < d.length := by omega
    refine safe_bind (goIdx_safe _ _ (by omega) (by omega)) fun _ _ => ?_
    refine safe_bind (goSlice_safe _ _ _ (by omega) (by omega) (by omega)) fun _ _ => ?_
    trivial



/-- one structural step of a `safe` proof; leaves what needs arithmetic -/
macro "safe_step" : tactic => `(tactic| first
    | exact trivial
    | assumption
    | (simp; done)
    | (refine safe_bind ?_ ?_)
    | (refine safe_rbind ?_ ?_)
    | (intro ⟨_, _⟩ _; dsimp only)
    | (intro _ _; dsimp only)
    | (intro _ _)
    | split
    | (dsimp only))

macro "safe_auto" : tactic => `(tactic| repeat' safe_step)

@[simp] theorem vsPushMany_safe (d : Stack) (vs : List Val) : R.safe (vsPushMany d vs) := by
  unfold vsPushMany; split <;> trivial

@[simp] theorem ofOpt_safe {α : Type} (o : Option α) : R.safe (ofOpt o) := by
  cases o <;> trivial

@[simp] theorem asBool_safe (h : Heap) (v : Val) : R.safe (asBool h v) := by
  unfold asBool; safe_auto

@[simp] theorem asBigInt_safe (v : Val) : R.safe (asBigInt v) := by
  unfold asBigInt; safe_auto

@[simp] theorem asIntValue_safe (v : Val) : R.safe (asIntValue v) := by
  unfold asIntValue; safe_auto

@[simp] theorem intResult_safe (z : Int) : R.safe (intResult z) := by
  unfold intResult; safe_auto

@[simp] theorem valFromBytes_safe (b : Bytes) : R.safe (valFromBytes b) := by
  unfold valFromBytes; safe_auto

@[simp] theorem popAsInt64_safe (d : Stack) : R.safe (popAsInt64 d) := by
  unfold popAsInt64; safe_auto
@[simp] theorem popAsBytes_safe (d : Stack) : R.safe (popAsBytes d) := by
  unfold popAsBytes; safe_auto
@[simp] theorem popAsBool_safe (h : Heap) (d : Stack) : R.safe (popAsBool h d) := by
  unfold popAsBool; safe_auto
@[simp] theorem popAsIntValue_safe (d : Stack) : R.safe (popAsIntValue d) := by
  unfold popAsIntValue; safe_auto
@[simp] theorem pushBytes_safe (d : Stack) (b : Bytes) : R.safe (pushBytes d b) := by
  unfold pushBytes; safe_auto
@[simp] theorem pushE_safe (m : M) (d : Stack) (v : Val) : R.safe (pushE m d v) := by
  unfold pushE; safe_auto

@[simp] theorem vsPeek_safe (d : Stack) (i : Int) : R.safe (vsPeek d i) := by
  unfold vsPeek
  simp only
  split
  · trivial
  · exact goIdx_safe _ _ (by omega) (by omega)

@[simp] theorem vsRemove_safe (d : Stack) (i : Int) : R.safe (vsRemove d i) := by
  unfold vsRemove
  simp only
  split
  · trivial
  · refine safe_bind (goIdx_safe _ _ (by omega) (by omega)) fun _ _ => ?_
    refine safe_bind (goSlice_safe _ _ _ (by omega) (by omega) (by omega)) fun _ _ => ?_
    refine safe_bind (goSlice_safe _ _ _ (by omega) (by omega) (by omega)) fun _ _ => ?_
    trivial



@[simp] theorem vsInsert_safe (d : Stack) (i : Int) (t : Val) : R.safe (vsInsert d i t) := by
  unfold vsInsert
  simp only
  split
  · trivial
  · split
    · trivial
    · rename_i h1 h2
      have hl : ((d ++ [t]).length : Int) = d.length + 1 := by simp
      refine safe_bind (goSlice_safe _ _ _ (by omega) (by omega) (by omega)) fun dst hdst => ?_
      refine safe_bind (goSlice_safe _ _ _ (by omega) (by omega) (by omega)) fun src hsrc => ?_
      have h3 := goSlice_len _ _ _ _ hdst
      have h4 := goSlice_len _ _ _ _ hsrc
      apply goSet_safe
      · omega
      · simp only [List.length_append, List.length_take, List.length_cons, List.length_nil]
        omega

@[simp] theorem vsSwap_safe (d : Stack) (i j : Int) : R.safe (vsSwap d i j) := by
  unfold vsSwap
  simp only
  split
  · trivial
  · split
    · trivial
    · split
      · trivial
      · refine safe_bind (goIdx_safe _ _ (by omega) (by omega)) fun _ _ => ?_
        refine safe_bind (goIdx_safe _ _ (by omega) (by omega)) fun _ _ => ?_
        refine safe_bind (goSet_safe _ _ _ (by omega) (by omega)) fun d1 h1 => ?_
        have := goSet_len _ _ _ _ h1
        exact goSet_safe _ _ _ (by omega) (by omega)

@[simp] theorem readByte_safe (code : Bytes) (pos : Nat) : R.safe (readByte code pos) := by
  unfold readByte
  split
  · trivial
  · refine safe_bind (goIdx_safe _ _ (by omega) (by omega)) fun _ _ => ?_
    trivial

@[simp] theorem readInto_safe (code : Bytes) (pos n : Nat) : R.safe (readInto code pos n) := by
  unfold readInto
  split
  · trivial
  · refine safe_bind (goSlice_safe _ _ _ (by omega) (by omega) (by omega)) fun _ _ => ?_
    trivial

theorem readBytes_safe (a : Bool) (code : Bytes) (pos : Nat) (count : Int) (h : 0 ≤ count) : R.safe (readBytes a code pos count) := by
  have hm : R.safe (goMake count (0 : UInt8)) := by unfold goMake; rw [if_pos h]; trivial
  unfold readBytes
  simp only
  split <;> (split; · trivial
             · exact safe_bind hm fun _ _ => readInto_safe _ _ _)

@[simp] theorem readBytes_safe_nat (a : Bool) (code : Bytes) (pos : Nat) (count : Nat) : R.safe (readBytes a code pos count) :=
  readBytes_safe a code pos count (by omega)

@[simp] theorem readUintN_safe (code : Bytes) (pos k : Nat) : R.safe (readUintN code pos k) := by
  unfold readUintN; safe_auto

@[simp] theorem seek_safe (o : Int) : R.safe (seek o) := by
  unfold seek; safe_auto

@[simp] theorem pushContext_safe (c : List Nat) (p : Nat) : R.safe (pushContext c p) := by
  unfold pushContext; safe_auto

@[simp] theorem popContext_safe (c : List Nat) : R.safe (popContext c) := by
  unfold popContext
  simp only
  split
  · trivial
  · refine safe_bind (goIdx_safe _ _ (by omega) (by omega)) fun _ _ => ?_
    refine safe_bind (goSlice_safe _ _ _ (by omega) (by omega) (by omega)) fun _ _ => ?_
    trivial

@[simp] theorem removeAt_safe (data : List Val) (i : Int) : R.safe (removeAt data i) := by
  unfold removeAt
  split
  · trivial
  · refine safe_bind (goSlice_safe _ _ _ (by omega) (by omega) (by omega)) fun _ _ => ?_
    refine safe_bind (goSlice_safe _ _ _ (by omega) (by omega) (by omega)) fun _ _ => ?_
    trivial

theorem checkedIndex_ok (index : Val) (len : Nat) (i : Int) (h : checkedIndex index len = .ok i) : 0 ≤ i ∧ i < len := by
  unfold checkedIndex at h
  cases hi : OntVerif.Model.NeoProg.asInt64 index with
  | none => rw [hi] at h; cases h
  | some k =>
    rw [hi] at h
    change (if k < 0 ∨ k ≥ len then R.fault else R.ok k) = R.ok i at h
    split at h
    · cases h
    · injection h with h; subst h; omega

@[simp] theorem checkedIndex_safe (index : Val) (len : Nat) : R.safe (checkedIndex index len) := by
  unfold checkedIndex; safe_auto

@[simp] theorem packLoop_safe (n : Nat) (d : Stack) (acc : List Val) : R.safe (packLoop n d acc) := by
  induction n generalizing d acc with
  | zero => trivial
  | succ n ih =>
    unfold packLoop
    refine safe_bind (vsPop_safe d) ?_
    intro ⟨v, d'⟩ _
    dsimp only
    split
    · trivial
    · exact ih _ _

theorem unpackLoop_safe (data : List Val) (i : Nat) (d : Stack) (h : i ≤ data.length) : R.safe (unpackLoop data i d) := by
  induction i generalizing d with
  | zero => trivial
  | succ i ih =>
    unfold unpackLoop
    refine safe_bind (goIdx_safe _ _ (by omega) (by omega)) fun _ _ => ?_
    refine safe_bind (vsPush_safe _ _) fun _ _ => ?_
    exact ih _ (by omega)

theorem revLoop_safe (f : Nat) (i j : Int) (d : List Val) (h0 : 0 ≤ i) (h1 : j < d.length) (hf : j - i < 2 * f + 1) :
    R.safe (revLoop f i j d) := by
  induction f generalizing i j d with
  | zero =>
    unfold revLoop
    split
    · omega
    · trivial
  | succ f ih =>
    unfold revLoop
    split
    · rename_i hij
      refine safe_bind (goIdx_safe _ _ (by omega) (by omega)) fun a _ => ?_
      refine safe_bind (goIdx_safe _ _ (by omega) (by omega)) fun b _ => ?_
      refine safe_bind (goSet_safe _ _ _ (by omega) (by omega)) fun d1 hd1 => ?_
      have l1 := goSet_len _ _ _ _ hd1
      refine safe_bind (goSet_safe _ _ _ (by omega) (by omega)) fun d2 hd2 => ?_
      have l2 := goSet_len _ _ _ _ hd2
      exact ih _ _ _ (by omega) (by omega) (by omega)
    · trivial



theorem rbind_eq_ok {α β : Type} {x : R α} {f : α → R β} {b : β} (h : x.bind f = .ok b) : ∃ a, x = .ok a ∧ f a = .ok b := by
  cases x with
  | ok a => exact ⟨a, rfl, h⟩
  | _ => cases h

/-! ### `cloneStruct`: the counter only grows, and `MAX_CLONE_LENGTH + 3` levels are enough on every heap -/

theorem cloneElems_mono (rec : Ref → Heap → Nat → R (Ref × Heap × Nat)) (h0 : Heap)
    (hrec : ∀ r h l r' h' l', rec r h l = .ok (r', h', l') → l ≤ l')
    (vs : List Val) (h : Heap) (len : Nat) (vs' : List Val) (h' : Heap) (len' : Nat)
    (e : cloneElems rec h0 vs h len = .ok (vs', h', len')) : len + vs.length ≤ len' := by
  induction vs generalizing h len vs' h' len' with
  | nil =>
    unfold cloneElems at e
    injection e with e
    injection e with _ e
    injection e with _ e
    subst e; simp
  | cons v vs ih =>
    unfold cloneElems at e
    simp only at e
    obtain ⟨⟨v1, h1, l1⟩, e1, e2⟩ := rbind_eq_ok e
    obtain ⟨⟨vs2, h2, l2⟩, e3, e4⟩ := rbind_eq_ok e2
    injection e4 with e4
    injection e4 with _ e4
    injection e4 with _ e4
    subst e4
    have := ih _ _ _ _ _ e3
    dsimp only at this
    have hl1 : len + 1 ≤ l1 := by
      split at e1
      · split at e1
        · obtain ⟨⟨r', h'', l''⟩, e5, e6⟩ := rbind_eq_ok e1
          injection e6 with e6
          injection e6 with _ e6
          injection e6 with _ e6
          subst e6
          exact hrec _ _ _ _ _ _ e5
        · injection e1 with e1
          injection e1 with _ e1
          injection e1 with _ e1
          omega
        · cases e1
      · injection e1 with e1
        injection e1 with _ e1
        injection e1 with _ e1
        omega
    simp only [List.length_cons]
    omega

theorem cloneStruct_mono (f : Nat) (h0 : Heap) (r : Ref) (h : Heap) (len : Nat) (r' : Ref) (h' : Heap) (len' : Nat)
    (e : cloneStruct f h0 r h len = .ok (r', h', len')) : len ≤ len' := by
  induction f generalizing r h len r' h' len' with
  | zero => unfold cloneStruct at e; cases e
  | succ f ih =>
    unfold cloneStruct at e
    split at e
    · cases e
    · split at e
      · obtain ⟨⟨vs', h1, l1⟩, e1, e2⟩ := rbind_eq_ok e
        injection e2 with e2
        injection e2 with _ e2
        injection e2 with _ e2
        subst e2
        have := cloneElems_mono _ _ (fun r h l r' h' l' e => ih r h l r' h' l' e) _ _ _ _ _ _ e1
        omega
      · cases e
      · cases e

theorem cloneElems_safe (rec : Ref → Heap → Nat → R (Ref × Heap × Nat)) (h0 : Heap) (L : Nat)
    (hmono : ∀ r h l r' h' l', rec r h l = .ok (r', h', l') → l ≤ l')
    (hsafe : ∀ r h l, L ≤ l → R.safe (rec r h l))
    (vs : List Val) (h : Heap) (len : Nat) (hl : L ≤ len + 1) : R.safe (cloneElems rec h0 vs h len) := by
  induction vs generalizing h len with
  | nil => unfold cloneElems; trivial
  | cons v vs ih =>
    unfold cloneElems
    simp only
    refine safe_rbind ?_ ?_
    · split
      · split
        · exact safe_rbind (hsafe _ _ _ hl) (fun _ _ => trivial)
        · trivial
        · trivial
      · trivial
    · intro ⟨v1, h1, l1⟩ e1
      dsimp only
      have hl1 : len + 1 ≤ l1 := by
        split at e1
        · split at e1
          · obtain ⟨⟨r', h'', l''⟩, e5, e6⟩ := rbind_eq_ok e1
            injection e6 with e6
            injection e6 with _ e6
            injection e6 with _ e6
            subst e6
            exact hmono _ _ _ _ _ _ e5
          · injection e1 with e1
            injection e1 with _ e1
            injection e1 with _ e1
            omega
          · cases e1
        · injection e1 with e1
          injection e1 with _ e1
          injection e1 with _ e1
          omega
      refine safe_rbind (ih _ _ (by omega)) ?_
      intro _ _
      trivial

/-- the recursion budget is never the reason `cloneStruct` stops: whatever the heap (cyclic, shared, dangling) -/
theorem cloneStruct_safe (f : Nat) (h0 : Heap) (r : Ref) (h : Heap) (len : Nat)
    (hf : OntVerif.Model.NeoProg.MAX_CLONE_LENGTH + 3 ≤ f + len) (h1 : 1 ≤ f) : R.safe (cloneStruct f h0 r h len) := by
  induction f generalizing r h len with
  | zero => omega
  | succ f ih =>
    unfold cloneStruct
    unfold OntVerif.Model.NeoProg.MAX_CLONE_LENGTH at *
    split
    · trivial
    · rename_i hlen
      split
      · refine safe_rbind ?_ (fun _ _ => trivial)
        refine cloneElems_safe _ _ (len + 1) (fun r h l r' h' l' e => cloneStruct_mono f h0 r h l r' h' l' e) ?_ _ _ _ (Nat.le_refl _)
        intro r h l hl
        exact ih _ _ _ (by omega) (by omega)
      · trivial
      · trivial

@[simp] theorem cloneIfStruct_safe (h : Heap) (v : Val) : R.safe (cloneIfStruct h v) := by
  unfold cloneIfStruct
  split
  · split
    · refine safe_rbind (cloneStruct_safe _ _ _ _ _ ?_ ?_) (fun _ _ => trivial)
      · unfold CLONE_FUEL; omega
      · unfold CLONE_FUEL OntVerif.Model.NeoProg.MAX_CLONE_LENGTH; omega
    · trivial
    · trivial
  · trivial



@[simp] theorem opPushBytes_safe (m : M) (n : Nat) : R.safe (opPushBytes m n) := by
  unfold opPushBytes; safe_auto

@[simp] theorem opPush0_safe (m : M) : R.safe (opPush0 m) := by
  unfold opPush0; safe_auto

@[simp] theorem readPushLen_safe (m : M) (n : Nat) : R.safe (readPushLen m n) := by
  unfold readPushLen; safe_auto
@[simp] theorem callPush_safe (m : M) (n : Nat) : R.safe (callPush m n) := by
  unfold callPush; safe_auto
@[simp] theorem jmpCond_safe (m : M) (n : Nat) : R.safe (jmpCond m n) := by
  unfold jmpCond; safe_auto
@[simp] theorem seekIf_safe (b : Bool) (o : Int) (p : Nat) : R.safe (seekIf b o p) := by
  unfold seekIf; safe_auto
@[simp] theorem rollN_safe (m : M) (n : Nat) : R.safe (rollN m n) := by
  unfold rollN; safe_auto

@[simp] theorem opPushData_safe (m : M) (n : Nat) : R.safe (opPushData m n) := by
  unfold opPushData; safe_auto

@[simp] theorem opPushN_safe (m : M) (n : Nat) : R.safe (opPushN m n) := by
  unfold opPushN; safe_auto

@[simp] theorem opNop_safe (m : M) : R.safe (opNop m) := by
  unfold opNop; safe_auto

@[simp] theorem opJmp_safe (m : M) (n : Nat) : R.safe (opJmp m n) := by
  unfold opJmp; safe_auto

@[simp] theorem opDcall_safe (m : M) : R.safe (opDcall m) := by
  unfold opDcall; safe_auto

@[simp] theorem opRet_safe (m : M) : R.safe (opRet m) := by
  unfold opRet; safe_auto

@[simp] theorem opDupFromAlt_safe (m : M) : R.safe (opDupFromAlt m) := by
  unfold opDupFromAlt; safe_auto

@[simp] theorem opToAlt_safe (m : M) : R.safe (opToAlt m) := by
  unfold opToAlt; safe_auto

@[simp] theorem opFromAlt_safe (m : M) : R.safe (opFromAlt m) := by
  unfold opFromAlt; safe_auto

@[simp] theorem opXdrop_safe (m : M) : R.safe (opXdrop m) := by
  unfold opXdrop; safe_auto

@[simp] theorem opXswap_safe (m : M) : R.safe (opXswap m) := by
  unfold opXswap; safe_auto

@[simp] theorem opXtuck_safe (m : M) : R.safe (opXtuck m) := by
  unfold opXtuck; safe_auto

@[simp] theorem opDepth_safe (m : M) : R.safe (opDepth m) := by
  unfold opDepth; safe_auto

@[simp] theorem opDrop_safe (m : M) : R.safe (opDrop m) := by
  unfold opDrop; safe_auto

@[simp] theorem opDup_safe (m : M) : R.safe (opDup m) := by
  unfold opDup; safe_auto

@[simp] theorem opNip_safe (m : M) : R.safe (opNip m) := by
  unfold opNip; safe_auto

@[simp] theorem opOver_safe (m : M) : R.safe (opOver m) := by
  unfold opOver; safe_auto

@[simp] theorem opPick_safe (m : M) : R.safe (opPick m) := by
  unfold opPick; safe_auto

@[simp] theorem opRoll_safe (m : M) (n : Nat) : R.safe (opRoll m n) := by
  unfold opRoll; safe_auto

@[simp] theorem opSwap_safe (m : M) : R.safe (opSwap m) := by
  unfold opSwap; safe_auto

@[simp] theorem opTuck_safe (m : M) : R.safe (opTuck m) := by
  unfold opTuck; safe_auto

@[simp] theorem opCat_safe (m : M) : R.safe (opCat m) := by
  unfold opCat; safe_auto

@[simp] theorem opSize_safe (m : M) : R.safe (opSize m) := by
  unfold opSize; safe_auto

@[simp] theorem opEqual_safe (m : M) : R.safe (opEqual m) := by
  unfold opEqual; safe_auto

@[simp] theorem niResult_safe (r : Except OntVerif.Model.NeoInt.Fault OntVerif.Model.NeoInt.Val) : R.safe (niResult r) := by
  unfold niResult; split <;> trivial

@[simp] theorem opUnaryInt_safe (m : M) (n : Nat) : R.safe (opUnaryInt m n) := by
  unfold opUnaryInt; safe_auto

@[simp] theorem opBinaryInt_safe (m : M) (n : Nat) : R.safe (opBinaryInt m n) := by
  unfold opBinaryInt; safe_auto

@[simp] theorem opWithin_safe (m : M) : R.safe (opWithin m) := by
  unfold opWithin; safe_auto

@[simp] theorem opNot_safe (m : M) : R.safe (opNot m) := by
  unfold opNot; safe_auto

@[simp] theorem opBoolBin_safe (m : M) (n : Nat) : R.safe (opBoolBin m n) := by
  unfold opBoolBin; safe_auto

@[simp] theorem opArraySize_safe (m : M) : R.safe (opArraySize m) := by
  unfold opArraySize; safe_auto

@[simp] theorem opPack_safe (m : M) : R.safe (opPack m) := by
  unfold opPack; safe_auto

@[simp] theorem opNewMap_safe (m : M) : R.safe (opNewMap m) := by
  unfold opNewMap; safe_auto

@[simp] theorem opAppend_safe (m : M) : R.safe (opAppend m) := by
  unfold opAppend; safe_auto

@[simp] theorem opRemove_safe (m : M) : R.safe (opRemove m) := by
  unfold opRemove; safe_auto

@[simp] theorem opHasKey_safe (m : M) : R.safe (opHasKey m) := by
  unfold opHasKey; safe_auto

@[simp] theorem opKeysValues_safe (m : M) (n : Nat) : R.safe (opKeysValues m n) := by
  unfold opKeysValues; safe_auto

@[simp] theorem opThrow_safe (m : M) : R.safe (opThrow m) := by
  unfold opThrow; safe_auto

@[simp] theorem opThrowIfNot_safe (m : M) : R.safe (opThrowIfNot m) := by
  unfold opThrowIfNot; safe_auto



@[simp] theorem opSubstr_safe (m : M) : R.safe (opSubstr m) := by
  unfold opSubstr
  refine safe_bind (popAsInt64_safe _) ?_
  intro ⟨count, d⟩ _
  refine safe_bind (popAsInt64_safe _) ?_
  intro ⟨start, d⟩ _
  refine safe_bind (popAsBytes_safe _) ?_
  intro ⟨arr, d⟩ _
  dsimp only
  split
  · trivial
  · split
    · trivial
    · split
      · trivial
      · refine safe_bind (goSlice_safe _ _ _ (by omega) (by omega) (by omega)) ?_
        intro _ _
        safe_auto

@[simp] theorem opLeft_safe (m : M) : R.safe (opLeft m) := by
  unfold opLeft
  refine safe_bind (popAsInt64_safe _) ?_
  intro ⟨count, d⟩ _
  refine safe_bind (popAsBytes_safe _) ?_
  intro ⟨arr, d⟩ _
  dsimp only
  split
  · trivial
  · refine safe_bind (goSlice_safe _ _ _ (by omega) (by omega) (by omega)) ?_
    intro _ _
    safe_auto

@[simp] theorem opRight_safe (m : M) : R.safe (opRight m) := by
  unfold opRight
  refine safe_bind (popAsInt64_safe _) ?_
  intro ⟨count, d⟩ _
  refine safe_bind (popAsBytes_safe _) ?_
  intro ⟨arr, d⟩ _
  dsimp only
  split
  · trivial
  · refine safe_bind (goSlice_safe _ _ _ (by omega) (by omega) (by omega)) ?_
    intro _ _
    safe_auto

@[simp] theorem opUnpack_safe (m : M) : R.safe (opUnpack m) := by
  unfold opUnpack
  refine safe_bind (vsPop_safe _) ?_
  intro ⟨v, d⟩ _
  dsimp only
  split
  · split
    · refine safe_bind (unpackLoop_safe _ _ _ (Nat.le_refl _)) ?_
      intro _ _
      safe_auto
    · trivial
    · trivial
  · trivial

theorem idx_safe {α : Type} (index : Val) (data : List α) (k : α → R M) (hk : ∀ a, R.safe (k a)) :
    R.safe (do let ind ← checkedIndex index data.length; let val ← goIdx data ind; k val) := by
  refine safe_bind (checkedIndex_safe _ _) ?_
  intro ind hind
  have := checkedIndex_ok _ _ _ hind
  refine safe_bind (goIdx_safe _ _ (by omega) (by omega)) ?_
  intro a _
  exact hk a

@[simp] theorem opPickItem_safe (m : M) : R.safe (opPickItem m) := by
  unfold opPickItem
  refine safe_bind (vsPop_safe _) ?_
  intro ⟨index, d⟩ _
  refine safe_bind (vsPop_safe _) ?_
  intro ⟨item, d⟩ _
  dsimp only
  split
  · split
    · exact idx_safe _ _ _ (fun _ => pushE_safe _ _ _)
    · exact idx_safe _ _ _ (fun _ => pushE_safe _ _ _)
    · safe_auto
    · trivial
  · refine safe_bind (ofOpt_safe _) ?_
    intro buf _
    exact idx_safe _ _ _ (fun _ => pushE_safe _ _ _)

theorem set_safe (index : Val) (data : List Val) (v : Val) (k : List Val → R M) (hk : ∀ a, R.safe (k a)) :
    R.safe (do let ind ← checkedIndex index data.length; let data ← goSet data ind v; k data) := by
  refine safe_bind (checkedIndex_safe _ _) ?_
  intro ind hind
  have := checkedIndex_ok _ _ _ hind
  refine safe_bind (goSet_safe _ _ _ (by omega) (by omega)) ?_
  intro a _
  exact hk a

@[simp] theorem opSetItem_safe (m : M) : R.safe (opSetItem m) := by
  unfold opSetItem
  refine safe_bind (vsPop_safe _) ?_
  intro ⟨val, d⟩ _
  refine safe_bind (vsPop_safe _) ?_
  intro ⟨index, d⟩ _
  refine safe_bind (vsPop_safe _) ?_
  intro ⟨item, d⟩ _
  refine safe_bind (cloneIfStruct_safe _ _) ?_
  intro ⟨val, h⟩ _
  dsimp only
  split
  · split
    · exact set_safe _ _ _ _ (fun _ => trivial)
    · exact set_safe _ _ _ _ (fun _ => trivial)
    · safe_auto
    · trivial
  · trivial

@[simp] theorem opNewArray_safe (m : M) (n : Nat) : R.safe (opNewArray m n) := by
  unfold opNewArray
  refine safe_bind (popAsInt64_safe _) ?_
  intro ⟨count, d⟩ _
  dsimp only
  split
  · trivial
  · refine safe_bind ?_ ?_
    · unfold goMake; rw [if_pos (by omega)]; trivial
    · intro _ _; safe_auto

@[simp] theorem opReverse_safe (m : M) : R.safe (opReverse m) := by
  unfold opReverse
  refine safe_bind (vsPop_safe _) ?_
  intro ⟨item, d⟩ _
  dsimp only
  split
  · split
    · refine safe_bind (revLoop_safe _ _ _ _ (by omega) (by omega) (by omega)) ?_
      intro _ _; trivial
    · refine safe_bind (revLoop_safe _ _ _ _ (by omega) (by omega) (by omega)) ?_
      intro _ _; trivial
    · trivial
    · trivial
  · trivial

/-! ### `convertNeoVmValueHexString`: the element counter only grows, `MAX_COUNT + 3` levels are enough on every heap -/

theorem convElems_mono (rec : Val → Nat × Nat → R (Nat × Nat))
    (hrec : ∀ v c l c' l', rec v (c, l) = .ok (c', l') → c ≤ c')
    (vs : List Val) (c l c' l' : Nat) (e : convElems rec vs (c, l) = .ok (c', l')) : c + vs.length ≤ c' := by
  induction vs generalizing c l with
  | nil =>
    unfold convElems at e
    injection e with e
    injection e with e1 e2
    subst e1; simp
  | cons v vs ih =>
    unfold convElems at e
    obtain ⟨⟨c1, l1⟩, e1, e2⟩ := rbind_eq_ok e
    have h1 := hrec _ _ _ _ _ e1
    have h2 := ih _ _ e2
    simp only [List.length_cons]
    omega

theorem convHex_mono (h : Heap) (f : Nat) (v : Val) (c l c' l' : Nat) (e : convHex h f v (c, l) = .ok (c', l')) : c ≤ c' := by
  induction f generalizing v c l c' l' with
  | zero => unfold convHex at e; cases e
  | succ f ih =>
    unfold convHex at e
    split at e
    · cases e
    · split at e
      · cases e
      · split at e
        · injection e with e; injection e with e1 _; omega
        · injection e with e; injection e with e1 _; omega
        · injection e with e; injection e with e1 _; omega
        · split at e
          · have := convElems_mono _ (fun v c l c' l' e => ih v c l c' l' e) _ _ _ _ _ e; omega
          · have := convElems_mono _ (fun v c l c' l' e => ih v c l c' l' e) _ _ _ _ _ e; omega
          · cases e
          · cases e

theorem convElems_safe (rec : Val → Nat × Nat → R (Nat × Nat)) (L : Nat)
    (hmono : ∀ v c l c' l', rec v (c, l) = .ok (c', l') → c ≤ c')
    (hsafe : ∀ v c l, L ≤ c → R.safe (rec v (c, l)))
    (vs : List Val) (c l : Nat) (hl : L ≤ c + 1) : R.safe (convElems rec vs (c, l)) := by
  induction vs generalizing c l with
  | nil => unfold convElems; trivial
  | cons v vs ih =>
    unfold convElems
    refine safe_rbind (hsafe _ _ _ hl) ?_
    intro ⟨c1, l1⟩ e1
    have := hmono _ _ _ _ _ e1
    exact ih _ _ (by omega)

/-- the recursion budget is never the reason `convertNeoVmValueHexString` stops: whatever the heap (cyclic, shared, dangling) -/
theorem convHex_safe (h : Heap) (f : Nat) (v : Val) (c l : Nat) (hf : MAX_COUNT + 3 ≤ f + c) (h1 : 1 ≤ f) :
    R.safe (convHex h f v (c, l)) := by
  induction f generalizing v c l with
  | zero => omega
  | succ f ih =>
    unfold convHex
    unfold MAX_COUNT at *
    split
    · trivial
    · split
      · trivial
      · split
        · trivial
        · trivial
        · trivial
        · split
          · exact convElems_safe _ (c + 1) (fun v c l c' l' e => convHex_mono h f v c l c' l' e)
              (fun v c' l' hc => ih v c' l' (by omega) (by omega)) _ _ _ (Nat.le_refl _)
          · exact convElems_safe _ (c + 1) (fun v c l c' l' e => convHex_mono h f v c l c' l' e)
              (fun v c' l' hc => ih v c' l' (by omega) (by omega)) _ _ _ (Nat.le_refl _)
          · trivial
          · trivial

theorem convertHexOk_safe (h : Heap) (v : Val) : R.safe (convertHexOk h v) := by
  unfold convertHexOk
  refine safe_rbind (convHex_safe _ _ _ _ _ ?_ ?_) (fun _ _ => trivial)
  · unfold CONV_FUEL; omega
  · unfold CONV_FUEL MAX_COUNT; omega

/-! ### `BuildResultFromNeo`: the sink only grows, by at least 5 bytes per array level -/

theorem buildElems_mono (rec : Val → Nat → R Nat) (hrec : ∀ v s s', rec v s = .ok s' → s ≤ s')
    (vs : List Val) (s s' : Nat) (e : buildElems rec vs s = .ok s') : s ≤ s' := by
  induction vs generalizing s with
  | nil => unfold buildElems at e; injection e with e; omega
  | cons v vs ih =>
    unfold buildElems at e
    obtain ⟨s1, e1, e2⟩ := rbind_eq_ok e
    have := hrec _ _ _ e1
    have := ih _ e2
    omega

theorem buildRes_mono (h : Heap) (f : Nat) (v : Val) (s s' : Nat) (e : buildRes h f v s = .ok s') : s ≤ s' := by
  induction f generalizing v s s' with
  | zero => unfold buildRes at e; cases e
  | succ f ih =>
    unfold buildRes at e
    split at e
    · cases e
    · split at e
      · injection e with e; omega
      · split at e
        · injection e with e; omega
        · cases e
      · injection e with e; omega
      · split at e
        · have := buildElems_mono _ (fun v s s' e => ih v s s' e) _ _ _ e; omega
        · cases e
        · cases e

theorem buildElems_safe (rec : Val → Nat → R Nat) (L : Nat) (hmono : ∀ v s s', rec v s = .ok s' → s ≤ s')
    (hsafe : ∀ v s, L ≤ s → R.safe (rec v s)) (vs : List Val) (s : Nat) (hl : L ≤ s) : R.safe (buildElems rec vs s) := by
  induction vs generalizing s with
  | nil => unfold buildElems; trivial
  | cons v vs ih =>
    unfold buildElems
    refine safe_rbind (hsafe _ _ hl) ?_
    intro s1 e1
    have := hmono _ _ _ e1
    exact ih _ (by omega)

/-- the recursion budget is never the reason `BuildResultFromNeo` stops: whatever the heap -/
theorem buildRes_safe (h : Heap) (f : Nat) (v : Val) (s : Nat) (hf : MAX_PARAM_LENGTH + 10 ≤ 5 * f + s) (h1 : 1 ≤ f) :
    R.safe (buildRes h f v s) := by
  induction f generalizing v s with
  | zero => omega
  | succ f ih =>
    unfold buildRes
    unfold MAX_PARAM_LENGTH at *
    split
    · trivial
    · split
      · trivial
      · split <;> trivial
      · trivial
      · split
        · exact buildElems_safe _ (s + 5) (fun v s s' e => buildRes_mono h f v s s' e)
            (fun v s' hs => ih v s' (by omega) (by omega)) _ _ (Nat.le_refl _)
        · trivial
        · trivial


/-! ### `BuildParamToNative` with the sound detector returns on every heap -/

open OntVerif.Proofs.NeoVal in
theorem serList_no_fuel (rec : List Nat → Val → Nat → Except VErr Bytes) (vs : List Val)
    (hrec : ∀ v ∈ vs, ∀ p s, rec p v s ≠ .error .fuel) (path : List Nat) (i size : Nat) :
    serList rec path i vs size ≠ .error .fuel := by
  induction vs generalizing i size with
  | nil => unfold serList; nofun
  | cons v vs ih =>
    unfold serList
    have h1 := hrec v (List.mem_cons_self) (i :: path) size
    cases hr : rec (i :: path) v size with
    | error e =>
      simp only
      intro h; injection h with h; subst h; exact h1 hr
    | ok o =>
      simp only
      have h2 := ih (fun v hv => hrec v (List.mem_cons_of_mem _ hv)) (i + 1) (size + o.length)
      cases hs : serList rec path (i + 1) vs (size + o.length) with
      | error e =>
        simp only
        intro h; injection h with h; subst h; exact h2 hs
      | ok os => simp only; nofun

open OntVerif.Proofs.NeoVal in
theorem natv_sound_no_fuel (perm : Perm) (h : Heap) : ∀ (k : Nat) (v : Val) (f : Nat) (path : List Nat),
    isSafeVal (safeIter h k) v = true → k + 1 ≤ f → natv .sound perm h f path v ≠ .error .fuel := by
  intro k
  induction k with
  | zero =>
    intro v f path hs hf
    cases f with
    | zero => omega
    | succ f =>
      unfold natv
      split
      · nofun
      · cases v with
        | ref r => simp only [isSafeVal] at hs; rw [safeIter_zero_getD] at hs; cases hs
        | bytes d => simp only; nofun
        | bool b => simp only; nofun
        | int z => simp only; nofun
  | succ k ih =>
    intro v f path hs hf
    cases f with
    | zero => omega
    | succ f =>
      unfold natv
      split
      · nofun
      · cases v with
        | ref r =>
          simp only [isSafeVal, safeIter] at hs
          obtain ⟨o, ho, hk⟩ := safeStep_getD hs
          simp only [ho]
          cases o with
          | arr vs =>
            simp only
            have := serList_no_fuel (fun p v _ => natv .sound perm h f p v) vs
              (fun v hv p s => ih v f p (hk v hv) (by omega)) path 0 0
            cases hsl : serList (fun p v _ => natv .sound perm h f p v) path 0 vs 0 with
            | error e => simp only; intro h'; injection h' with h'; subst h'; exact this hsl
            | ok b => simp only; nofun
          | struct vs =>
            simp only
            exact serList_no_fuel (fun p v _ => natv .sound perm h f p v) vs
              (fun v hv p s => ih v f p (hk v hv) (by omega)) path 0 0
          | map es => simp only; nofun
        | bytes d => simp only; nofun
        | bool b => simp only; nofun
        | int z => simp only; nofun

open OntVerif.Proofs.NeoVal in
/-- with the sound detector `BuildParamToNative` returns on every heap: `|heap| + 2` nested calls are enough -/
theorem natv_sound_terminates (perm : Perm) (h : Heap) (v : Val) (path : List Nat) :
    natv .sound perm h (h.length + 2) path v ≠ .error .fuel := by
  by_cases hc : hasCycle h v = true
  · unfold natv
    have : detect .sound perm path h v = true := by simp [detect, detSound, hc]
    rw [this]; simp
  · have hs : isSafeVal (safeIter h h.length) v = true := by
      unfold hasCycle at hc
      simpa using hc
    exact natv_sound_no_fuel perm h h.length v _ path hs (by omega)

/-! ### the C14 witness `a = [1, a]` -/

/-- the witness `a = [1, a]` (C14) -/
def cyc : Heap := [.arr [.int 1, .ref 0]]

theorem det_cyc (path : List Nat) : detect .asShipped Perm.id path cyc (.ref 0) = false := by
  unfold detect; simp [detShipped, cyc, MAX_STRUCT_DEPTH]

theorem det_cyc_int (path : List Nat) (z : Int) : detect .asShipped Perm.id path cyc (.int z) = false := by
  unfold detect; simp [detShipped]

theorem natv_cyc_int (f : Nat) (path : List Nat) : natv .asShipped Perm.id cyc (f+1) path (.int 1) = .ok (natLeaf (.int 1)) := by
  unfold natv
  rw [det_cyc_int]
  rfl


/-! ### SYSCALL -/

@[simp] theorem sysSerialize_safe (serF : Heap → Val → Except VErr Bytes) (m : M) : R.safe (sysSerialize serF m) := by
  unfold sysSerialize; safe_auto

open OntVerif.Proofs.NeoVal in
@[simp] theorem sysDeserialize_safe (m : M) : R.safe (sysDeserialize m) := by
  unfold sysDeserialize
  refine safe_bind (popAsBytes_safe _) ?_
  intro ⟨data, d⟩ _
  dsimp only
  split
  · trivial
  · rename_i hlen
    have hg := deserialize_good data (by unfold OntVerif.Model.Codec.two64; unfold DESER_MODEL_LIMIT at hlen; omega)
    split
    · simp
    · rename_i he; rw [he] at hg; exact absurd rfl hg.1
    · rename_i he; rw [he] at hg; exact absurd rfl hg.2
    · trivial

@[simp] theorem sysNotify_safe (m : M) : R.safe (sysNotify m) := by
  unfold sysNotify
  refine safe_bind (vsPop_safe _) ?_
  intro ⟨item, d⟩ _
  refine safe_bind (convertHexOk_safe _ _) ?_
  intro ok _
  split <;> trivial

@[simp] theorem sysDispatch_safe (serF : Heap → Val → Except VErr Bytes) (m : M) (fb pos : Nat) : R.safe (sysDispatch serF m fb pos) := by
  unfold sysDispatch
  split
  · trivial
  · refine safe_bind (readBytes_safe_nat _ _ _ _) ?_
    intro ⟨name, pos'⟩ _
    dsimp only
    split
    · trivial
    · split
      · exact sysSerialize_safe _ _
      · split
        · exact sysDeserialize_safe _
        · split
          · exact sysNotify_safe _
          · trivial

@[simp] theorem opSyscall_safe (serF : Heap → Val → Except VErr Bytes) (m : M) : R.safe (opSyscall serF m) := by
  unfold opSyscall
  split <;> exact sysDispatch_safe _ _ _ _

theorem safe_ite {α : Type} {c : Prop} [Decidable c] {a b : R α} (ha : R.safe a) (hb : R.safe b) :
    R.safe (if c then a else b) := by
  split <;> assumption

/-- every opcode byte, every machine state: a new state, a fault, or "outside the model" -/
theorem step_safe (serF : Heap → Val → Except VErr Bytes) (m : M) (opn : Nat) : R.safe (step serF m opn) := by
  unfold step
  repeat' (first | (with_reducible apply safe_ite) | exact trivial | (simp; done))


end OntVerif.Proofs.NeoExec
