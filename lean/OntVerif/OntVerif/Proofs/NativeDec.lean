import OntVerif.Model.NativeDec
import OntVerif.Proofs.Codec
/-!
# Lemmas for C12: the native contracts' count-loop decoders are total (`Model/NativeDec.lean`)

`Dec p`: on every well-formed source `p` returns a value or an error (no Go panic inside the reader, no exhausted budget), and a success
consumes at least one byte. Count loops over `Dec` items therefore stop within `remaining bytes` iterations, whatever count the input
announces (`loopN_total`).
-/
namespace OntVerif.Proofs.NativeDec
open OntVerif.Util OntVerif.Model.Codec OntVerif.Model.NeoVal OntVerif.Model.NativeDec OntVerif.Proofs.Codec

/-- value or error return: neither a Go panic inside the reader nor an exhausted model budget -/
def D.good {α : Type} : D α → Prop
  | .ok _ _ => True
  | .err _ => True
  | .panic => False
  | .fuel => False

/-- a continuation (post-processing of a decoded item): total on well-formed sources, never moves the cursor back -/
structure Post {α : Type} (p : Src → D α) : Prop where
  good : ∀ s, s.wf → D.good (p s)
  adv : ∀ s a s', s.wf → p s = .ok a s' → Adv s s'

/-- a decoder: total on well-formed sources, and success consumes at least one byte -/
structure Dec {α : Type} (p : Src → D α) : Prop where
  good : ∀ s, s.wf → D.good (p s)
  adv : ∀ s a s', s.wf → p s = .ok a s' → Adv s s' ∧ s.off < s'.off

theorem Dec.post {α : Type} {p : Src → D α} (h : Dec p) : Post p :=
  ⟨h.good, fun s a s' w e => (h.adv s a s' w e).1⟩

theorem nextByte_strict (s : Src) (b : UInt8) (s' : Src) (h : nextByte s = ((b, false), s')) : s'.off = s.off + 1 := by
  unfold nextByte at h
  split at h
  · injection h with h1 h2; injection h1 with _ h1; cases h1
  · injection h with h1 h2; subst h2; rfl

theorem nextVarUint_strict (s : Src) (w : s.wf) (r : VarRes) (s' : Src) (h : nextVarUint s = some (r, s')) (he : r.eof = false) :
    s.off < s'.off := by
  have h1 := nextByte_adv s w
  unfold nextVarUint at h
  generalize hnb : nextByte s = nb at h h1
  obtain ⟨⟨fb, eof⟩, s1⟩ := nb
  simp only at h h1
  cases eof
  · have hs := nextByte_strict s fb s1 hnb
    simp only [Bool.false_eq_true, if_false] at h
    split at h
    · injection h with h; injection h with _ h; subst h; omega
    · generalize hk : prefixK fb = k at h
      have hk8 : k ≤ 8 := by subst hk; exact prefixK_le fb
      obtain ⟨x, s2, hu, adv⟩ := nextUintN_total k s1 (h1.wf w) (by unfold two64; omega)
      rw [hu] at h
      obtain ⟨v, e⟩ := x
      simp only at h
      have := adv.2.1
      split at h
      · injection h with h; injection h with hr _; subst hr; cases he
      · injection h with h; injection h with _ h; subst h; omega
  · simp only [if_true] at h
    injection h with h; injection h with hr _; subst hr; cases he

theorem nextVarUint_eof_val (s : Src) (r : VarRes) (s' : Src) (h : nextVarUint s = some (r, s')) (he : r.eof = true) : r.val = 0 := by
  unfold nextVarUint at h
  generalize nextByte s = nb at h
  obtain ⟨⟨fb, eof0⟩, sx⟩ := nb
  simp only at h
  cases eof0
  · simp only [Bool.false_eq_true, if_false] at h
    split at h
    · injection h with h; injection h with hr _; subst hr; cases he
    · split at h
      · cases h
      · split at h <;> (injection h with h; injection h with hr _; subst hr; first | rfl | cases he)
  · simp only [if_true] at h
    injection h with h; injection h with hr _; subst hr; rfl

theorem nextVarBytes_strict (s : Src) (w : s.wf) (d : Bytes) (sz : Nat) (irr : Bool) (s' : Src)
    (h : nextVarBytes s = some ((d, sz, irr, false), s')) : s.off < s'.off := by
  obtain ⟨r0, s0, h0, adv0, hv⟩ := nextVarUint_total s w
  unfold nextVarBytes at h
  rw [h0] at h
  simp only at h
  split at h
  · rename_i hpos
    have hr0 : r0.eof = false := by
      cases hre : r0.eof
      · rfl
      · have := nextVarUint_eof_val s r0 s0 h0 hre; omega
    have hlt := nextVarUint_strict s w r0 s0 h0 hr0
    obtain ⟨dd, ee, s2, hb, adv2, _⟩ := nextBytes_total s0 r0.val (adv0.wf w) hv
    rw [hb] at h
    injection h with h; injection h with _ h; subst h
    have := adv2.2.1
    omega
  · injection h with h; injection h with h1 h2
    injection h1 with _ h1; injection h1 with _ h1; injection h1 with _ h1
    subst h2
    exact nextVarUint_strict s w r0 s0 h0 h1

theorem dVarBytes_dec : Dec dVarBytes := by
  constructor
  · intro s w
    obtain ⟨r, s', h, _⟩ := nextVarBytes_total s w
    unfold dVarBytes
    rw [h]
    obtain ⟨d, sz, irr, eof⟩ := r
    simp only
    split
    · trivial
    · split <;> trivial
  · intro s a s' w e
    obtain ⟨r, s1, h, adv⟩ := nextVarBytes_total s w
    unfold dVarBytes at e
    rw [h] at e
    obtain ⟨d, sz, irr, eof⟩ := r
    simp only at e
    split at e
    · cases e
    · rename_i heof
      split at e
      · cases e
      · injection e with e1 e2
        subst e2
        cases eof
        · exact ⟨adv, nextVarBytes_strict s w d sz irr s1 h⟩
        · exact absurd rfl heof



theorem dbind_ok {α β : Type} {x : D α} {f : α → Src → D β} {b : β} {s' : Src} (h : x.bind f = .ok b s') :
    ∃ a s1, x = .ok a s1 ∧ f a s1 = .ok b s' := by
  cases x with
  | ok a s1 => exact ⟨a, s1, rfl, h⟩
  | _ => cases h

/-- decoder, then a continuation that never moves back: a decoder -/
theorem bind_dec {α β : Type} {p : Src → D α} {q : α → Src → D β} (hp : Dec p) (hq : ∀ a, Post (q a)) :
    Dec (fun s => (p s).bind q) := by
  constructor
  · intro s w
    have g := hp.good s w
    cases hps : p s with
    | ok a s1 =>
      have := hp.adv s a s1 w hps
      exact (hq a).good s1 (this.1.wf w)
    | err e => trivial
    | panic => rw [hps] at g; exact g
    | fuel => rw [hps] at g; exact g
  · intro s b s' w e
    obtain ⟨a, s1, e1, e2⟩ := dbind_ok e
    have h1 := hp.adv s a s1 w e1
    have h2 := (hq a).adv s1 b s' (h1.1.wf w) e2
    exact ⟨h1.1.trans h2, by have := h2.2.1; omega⟩

theorem bind_post {α β : Type} {p : Src → D α} {q : α → Src → D β} (hp : Post p) (hq : ∀ a, Post (q a)) :
    Post (fun s => (p s).bind q) := by
  constructor
  · intro s w
    have g := hp.good s w
    cases hps : p s with
    | ok a s1 =>
      have := hp.adv s a s1 w hps
      exact (hq a).good s1 (this.wf w)
    | err e => trivial
    | panic => rw [hps] at g; exact g
    | fuel => rw [hps] at g; exact g
  · intro s b s' w e
    obtain ⟨a, s1, e1, e2⟩ := dbind_ok e
    have h1 := hp.adv s a s1 w e1
    exact h1.trans ((hq a).adv s1 b s' (h1.wf w) e2)

theorem post_ok {α : Type} (a : α) : Post (fun s => D.ok a s) :=
  ⟨fun _ _ => trivial, fun s b s' w e => by injection e with _ e; subst e; exact Adv.refl w⟩

theorem post_err {α : Type} (e : DE) : Post (fun _ => (D.err e : D α)) :=
  ⟨fun _ _ => trivial, fun s b s' w h => by cases h⟩

theorem post_ite {α : Type} {c : Prop} [Decidable c] {p q : Src → D α} (hp : Post p) (hq : Post q) :
    Post (fun s => if c then p s else q s) := by
  by_cases h : c
  · simp only [h, if_true]; exact hp
  · simp only [h, if_false]; exact hq

theorem dec_ite {α : Type} {c : Prop} [Decidable c] {p q : Src → D α} (hp : Dec p) (hq : Dec q) :
    Dec (fun s => if c then p s else q s) := by
  by_cases h : c
  · simp only [h, if_true]; exact hp
  · simp only [h, if_false]; exact hq

theorem dVarUint_dec : Dec dVarUint :=
  bind_dec dVarBytes_dec fun _ => post_ite (post_err _) (post_ok _)

theorem dVarUintWrapping_dec : Dec dVarUintWrapping :=
  bind_dec dVarBytes_dec fun _ => post_ite (post_err _) (post_ok _)

theorem dAddress_dec : Dec dAddress :=
  bind_dec dVarBytes_dec fun _ => post_ite (post_ok _) (post_err _)

theorem dTransferState_dec (wr : Bool) : Dec (dTransferState wr) := by
  unfold dTransferState
  refine bind_dec dAddress_dec fun _ => ?_
  refine (bind_dec dAddress_dec fun _ => ?_).post
  refine (bind_dec (p := fun s => if wr = true then dVarUintWrapping s else dVarUint s) (dec_ite dVarUintWrapping_dec dVarUint_dec) fun _ => post_ok _).post

theorem dTransferStateV2_dec : Dec dTransferStateV2 := by
  unfold dTransferStateV2
  refine bind_dec dAddress_dec fun _ => ?_
  refine (bind_dec dAddress_dec fun _ => ?_).post
  exact (bind_dec dVarBytes_dec fun _ => post_ite (post_err _) (post_ok _)).post

theorem dU32_dec : Dec dU32 := bind_dec dVarUint_dec fun _ => post_ite (post_err _) (post_ok _)

theorem dSigner_dec : Dec dSigner :=
  bind_dec dVarBytes_dec fun _ => (bind_dec dVarUint_dec fun _ => post_ok _).post

/-- **the loop**: with `remaining bytes + 1` as budget the budget is never the reason the loop stops; the cursor only advances and the
number of decoded items is at most the number of bytes consumed — whatever count `n` the input announced -/
theorem loopN_total {α : Type} {item : Src → D α} (hi : Dec item) (f n : Nat) (s : Src) (acc : List α) (w : s.wf)
    (hf : s.bs.length + 1 ≤ f + s.off) :
    D.good (loopN item f n s acc) ∧
    ∀ l s', loopN item f n s acc = .ok l s' → Adv s s' ∧ l.length + s.off ≤ acc.length + s'.off ∧ l.length ≤ acc.length + n := by
  induction f generalizing n s acc with
  | zero =>
    have := w.1
    omega
  | succ f ih =>
    cases n with
    | zero =>
      unfold loopN
      refine ⟨trivial, ?_⟩
      intro l s' e
      injection e with e1 e2
      subst e1; subst e2
      exact ⟨Adv.refl w, by simp, by simp⟩
    | succ n =>
      unfold loopN
      have g := hi.good s w
      cases hit : item s with
      | ok a s1 =>
        have h1 := hi.adv s a s1 w hit
        have hbs : s1.bs.length = s.bs.length := by rw [h1.1.1]
        obtain ⟨g2, a2⟩ := ih n s1 (a :: acc) (h1.1.wf w) (by omega)
        refine ⟨g2, ?_⟩
        intro l s' e
        obtain ⟨adv2, hlen, hn⟩ := a2 l s' e
        refine ⟨h1.1.trans adv2, ?_, ?_⟩
        · simp only [List.length_cons] at hlen; omega
        · simp only [List.length_cons] at hn; omega
      | err e => exact ⟨trivial, fun l s' h => by cases h⟩
      | panic => rw [hit] at g; exact g.elim
      | fuel => rw [hit] at g; exact g.elim

theorem loopN_post {α : Type} {item : Src → D α} (hi : Dec item) (n : Nat) (acc : List α) :
    Post (fun s => loopN item (budget s) n s acc) := by
  constructor
  · intro s w
    exact (loopN_total hi _ n s acc w (by unfold budget; have := w.1; omega)).1
  · intro s l s' w e
    exact ((loopN_total hi _ n s acc w (by unfold budget; have := w.1; omega)).2 l s' e).1

theorem dList_dec {α : Type} {item : Src → D α} (hi : Dec item) : Dec (dList item) :=
  bind_dec dVarUint_dec fun n => loopN_post hi n []



/-- like `bind_dec`, the continuation only has to behave on values the decoder can return -/
theorem bind_dec' {α β : Type} {p : Src → D α} {q : α → Src → D β} (hp : Dec p)
    (hq : ∀ a, (∃ s s1, s.wf ∧ p s = .ok a s1) → Post (q a)) : Dec (fun s => (p s).bind q) := by
  constructor
  · intro s w
    have g := hp.good s w
    cases hps : p s with
    | ok a s1 =>
      have := hp.adv s a s1 w hps
      exact (hq a ⟨s, s1, w, hps⟩).good s1 (this.1.wf w)
    | err e => trivial
    | panic => rw [hps] at g; exact g
    | fuel => rw [hps] at g; exact g
  · intro s b s' w e
    obtain ⟨a, s1, e1, e2⟩ := dbind_ok e
    have h1 := hp.adv s a s1 w e1
    have h2 := (hq a ⟨s, s1, w, e1⟩).adv s1 b s' (h1.1.wf w) e2
    exact ⟨h1.1.trans h2, by have := h2.2.1; omega⟩

/-- a decoded blob is not longer than the buffer it came from -/
theorem nextVarBytes_len (s : Src) (w : s.wf) (d : Bytes) (sz : Nat) (irr : Bool) (s' : Src)
    (h : nextVarBytes s = some ((d, sz, irr, false), s')) : d.length ≤ s.bs.length := by
  obtain ⟨r0, s0, h0, adv0, hv⟩ := nextVarUint_total s w
  unfold nextVarBytes at h
  rw [h0] at h
  simp only at h
  by_cases hpos : r0.val > 0
  · rw [if_pos hpos] at h
    obtain ⟨dd, ee, s2, hb, adv2, hlen⟩ := nextBytes_total s0 r0.val (adv0.wf w) hv
    rw [hb] at h
    injection h with h; injection h with h1 h2
    injection h1 with hd h1; injection h1 with _ h1; injection h1 with _ h1
    subst hd; subst h1
    obtain ⟨l1, l2, _⟩ := hlen rfl
    have := adv2.2.2
    have hb2 : s2.bs.length = s.bs.length := by rw [adv2.1, adv0.1]
    omega
  · rw [if_neg hpos] at h
    injection h with h; injection h with h1 _
    injection h1 with hd _
    subst hd; simp

theorem dVarBytes_len (s : Src) (w : s.wf) (d : Bytes) (s' : Src) (e : dVarBytes s = .ok d s') : d.length ≤ s.bs.length := by
  unfold dVarBytes at e
  cases hn : nextVarBytes s with
  | none => rw [hn] at e; cases e
  | some x =>
    rw [hn] at e
    obtain ⟨⟨d0, sz, irr, eof⟩, s1⟩ := x
    simp only at e
    cases eof
    · simp only [Bool.false_eq_true, if_false] at e
      split at e
      · cases e
      · injection e with e1 e2; subst e1
        exact nextVarBytes_len s w d0 sz irr s1 hn
    · simp only [if_true] at e; cases e

theorem wf0 (b : Bytes) (h : b.length < two64) : (⟨b, 0⟩ : Src).wf := ⟨Nat.zero_le _, h⟩

theorem good_bind_post {α β : Type} {x : D α} {q : α → Src → D β} (hx : D.good x)
    (hq : ∀ a s, x = .ok a s → D.good (q a s)) : D.good (x.bind q) := by
  cases x with
  | ok a s => exact hq a s rfl
  | err e => trivial
  | panic => exact hx
  | fuel => exact hx

/-- ontid group blobs: every nesting level is a count loop over its own sub-blob; depth is cut at `MAX_DEPTH` by the code itself -/
theorem rDeserialize_good (k : Nat) (data : Bytes) (hl : data.length < two64) : D.good (rDeserialize k data) := by
  induction k generalizing data with
  | zero => trivial
  | succ k ih =>
    unfold rDeserialize
    have hmem : Dec (dMember (rDeserialize k)) := by
      unfold dMember
      refine bind_dec' dVarBytes_dec ?_
      intro m ⟨s, s1, w, hm⟩
      have hmlen : m.length < two64 := Nat.lt_of_le_of_lt (dVarBytes_len s w m s1 hm) w.2
      have hrec := ih m hmlen
      have hpost : Post (fun s' => match rDeserialize k m with
          | .ok k _ => D.ok k s' | .err e => .err e | .panic => .panic | .fuel => .fuel) := by
        cases hr : rDeserialize k m with
        | ok a sx => exact post_ok _
        | err e => exact post_err _
        | panic => rw [hr] at hrec; exact hrec.elim
        | fuel => rw [hr] at hrec; exact hrec.elim
      by_cases h8 : m.length > 8
      · simp only [h8, if_true]
        have : goSlice m 0 8 = some ((m.drop 0).take (8 - 0)) := by
          unfold goSlice; rw [if_pos ⟨by omega, by omega⟩]
        rw [this]
        simp only
        exact post_ite (post_ok _) hpost
      · simp only [h8, if_false]
        exact hpost
    have hd := dList_dec hmem
    refine good_bind_post (hd.good _ (wf0 data hl)) ?_
    intro members s e
    have a1 := (hd.adv _ _ _ (wf0 data hl) e).1
    refine good_bind_post (dVarUint_dec.good s (a1.wf (wf0 data hl))) ?_
    intro t s2 _
    split <;> trivial

end OntVerif.Proofs.NativeDec
