import OntVerif.Model.Wallet
/-! Helper lemmas for C38 (wallet model). Core Lean only. -/
namespace OntVerif.Proofs.Wallet
open OntVerif.Model.Wallet

/-! ### association lists -/
section assoc
variable {κ α : Type} [DecidableEq κ]

theorem lk_ins (m : List (κ × α)) (k k' : κ) (v : α) : lk (ins m k v) k' = if k = k' then some v else lk m k' := by
  induction m with
  | nil => simp [ins, lk]
  | cons a r ih =>
    obtain ⟨a1, a2⟩ := a
    simp only [ins]
    by_cases h : a1 = k
    · subst h
      by_cases h2 : a1 = k' <;> simp [lk, h2]
    · simp only [h, if_false, lk, ih]
      by_cases h2 : a1 = k'
      · subst h2
        have : ¬ k = a1 := fun e => h e.symm
        simp [this]
      · simp [h2]

theorem lk_ers (m : List (κ × α)) (k k' : κ) : lk (ers m k) k' = if k = k' then none else lk m k' := by
  induction m with
  | nil => simp [ers, lk]
  | cons a r ih =>
    obtain ⟨a1, a2⟩ := a
    simp only [ers]
    by_cases h : a1 = k
    · subst h
      simp only [if_true, ih, lk]
      by_cases h2 : a1 = k' <;> simp [h2]
    · simp only [h, if_false, lk, ih]
      by_cases h2 : a1 = k'
      · subst h2
        have : ¬ k = a1 := fun e => h e.symm
        simp [this]
      · simp [h2]

theorem lk_append_single (m : List (κ × α)) (k k' : κ) (v : α) :
    lk (m ++ [(k, v)]) k' = match lk m k' with
      | some x => some x
      | none => if k = k' then some v else none := by
  induction m with
  | nil => simp [lk]
  | cons a r ih =>
    obtain ⟨a1, a2⟩ := a
    simp only [List.cons_append, lk]
    by_cases h : a1 = k' <;> simp [h, ih]

theorem lk_some_mem {m : List (κ × α)} {k : κ} {v : α} (h : lk m k = some v) : (k, v) ∈ m := by
  induction m with
  | nil => simp [lk] at h
  | cons a r ih =>
    obtain ⟨a1, a2⟩ := a
    simp only [lk] at h
    split at h
    · rename_i he; cases h; subst he; simp
    · exact List.mem_cons_of_mem _ (ih h)

theorem lk_none_of_not_key {m : List (κ × α)} {k : κ} (h : ∀ x ∈ m, x.1 ≠ k) : lk m k = none := by
  induction m with
  | nil => rfl
  | cons a r ih =>
    obtain ⟨a1, a2⟩ := a
    have h1 : a1 ≠ k := h (a1, a2) (by simp)
    simp only [lk, h1, if_false]
    exact ih (fun x hx => h x (List.mem_cons_of_mem _ hx))

theorem mem_ins {m : List (κ × α)} {k : κ} {v : α} {x : κ × α} (h : x ∈ ins m k v) : x = (k, v) ∨ x ∈ m := by
  induction m with
  | nil => simp [ins] at h; exact Or.inl h
  | cons a r ih =>
    obtain ⟨a1, a2⟩ := a
    simp only [ins] at h
    split at h
    · simp only [List.mem_cons] at h
      rcases h with h | h
      · exact Or.inl h
      · exact Or.inr (List.mem_cons_of_mem _ h)
    · simp only [List.mem_cons] at h
      rcases h with h | h
      · exact Or.inr (by simp [h])
      · rcases ih h with h | h
        · exact Or.inl h
        · exact Or.inr (List.mem_cons_of_mem _ h)

theorem ins_absent {m : List (κ × α)} {k : κ} (v : α) (h : lk m k = none) : ins m k v = m ++ [(k, v)] := by
  induction m with
  | nil => rfl
  | cons a r ih =>
    obtain ⟨a1, a2⟩ := a
    simp only [lk] at h
    split at h
    · cases h
    · rename_i hne; simp [ins, hne, ih h]

theorem lk_none_keys {m : List (κ × α)} {k : κ} (h : lk m k = none) : k ∉ m.map (·.1) := by
  induction m with
  | nil => simp
  | cons a r ih =>
    obtain ⟨a1, a2⟩ := a
    simp only [lk] at h
    split at h
    · cases h
    · rename_i hne
      simp only [List.map_cons, List.mem_cons, not_or]
      exact ⟨fun e => hne e.symm, ih h⟩

theorem ers_sublist (m : List (κ × α)) (k : κ) : (ers m k).Sublist m := by
  induction m with
  | nil => simp [ers]
  | cons a r ih =>
    obtain ⟨a1, a2⟩ := a
    simp only [ers]
    split
    · exact ih.cons _
    · exact ih.cons_cons _

theorem ers_not_key {m : List (κ × α)} {k : κ} (h : k ∉ m.map (·.1)) : ers m k = m := by
  induction m with
  | nil => rfl
  | cons a r ih =>
    obtain ⟨a1, a2⟩ := a
    simp only [List.map_cons, List.mem_cons, not_or] at h
    have : ¬ a1 = k := fun e => h.1 e.symm
    simp [ers, this, ih h.2]

/-- with distinct keys, erasing a present key removes exactly one entry -/
theorem ers_length {m : List (κ × α)} {k : κ} {v : α} (hn : (m.map (·.1)).Nodup) (h : lk m k = some v) :
    (ers m k).length + 1 = m.length := by
  induction m with
  | nil => simp [lk] at h
  | cons a r ih =>
    obtain ⟨a1, a2⟩ := a
    simp only [List.map_cons, List.nodup_cons] at hn
    simp only [lk] at h
    by_cases he : a1 = k
    · subst he
      simp only [ers, if_true, List.length_cons]
      rw [ers_not_key hn.1]
    · simp only [he, if_false] at h
      simp only [ers, he, if_false, List.length_cons]
      have := ih hn.2 h
      omega
end assoc

variable {cr : Crypto}

/-! ### heap facts -/
theorem deref_setObj (w : W cr) (id id' : Nat) (a : Acc cr) :
    (w.setObj id a).deref id' = if id = id' then some a else w.deref id' := by
  simp [W.setObj, W.deref, lk_ins]

theorem mem_records {w : W cr} {a : Acc cr} : a ∈ w.records ↔ ∃ id ∈ w.list, w.deref id = some a := by
  simp [W.records, List.mem_filterMap]

theorem filterMap_getElem? {α β} (f : α → Option β) (l : List α) (h : ∀ x ∈ l, ∃ b, f x = some b) (i : Nat) :
    (l.filterMap f)[i]? = (l[i]?).bind f := by
  induction l generalizing i with
  | nil => simp
  | cons x r ih =>
    obtain ⟨b, hb⟩ := h x (by simp)
    simp only [List.filterMap_cons, hb]
    cases i with
    | zero => simp [hb]
    | succ j => simpa using ih (fun y hy => h y (List.mem_cons_of_mem _ hy)) j

theorem filterMap_congr' {α β} (f g : α → Option β) (l : List α) (h : ∀ x ∈ l, f x = g x) :
    l.filterMap f = l.filterMap g := by
  induction l with
  | nil => rfl
  | cons x r ih =>
    simp only [List.filterMap_cons, h x (by simp)]
    rw [ih (fun y hy => h y (List.mem_cons_of_mem _ hy))]

theorem filterMap_length {α β} (f : α → Option β) (l : List α) (h : ∀ x ∈ l, ∃ b, f x = some b) :
    (l.filterMap f).length = l.length := by
  induction l with
  | nil => rfl
  | cons x r ih =>
    obtain ⟨b, hb⟩ := h x (by simp)
    simp [List.filterMap_cons, hb, ih (fun y hy => h y (List.mem_cons_of_mem _ hy))]

/-! ### index invariant -/

structure Inv0 (w : W cr) : Prop where
  fresh : ∀ x ∈ w.heap, x.1 < w.next
  listNodup : w.list.Nodup
  listIn : ∀ id ∈ w.list, ∃ a, w.deref id = some a
  addr : ∀ ad id, lk w.byAddr ad = some id ↔ (id ∈ w.list ∧ ∃ a, w.deref id = some a ∧ a.addr = ad)
  addrKeys : (w.byAddr.map (·.1)).Nodup
  addrLen : w.byAddr.length = w.list.length
  label : ∀ l id, lk w.byLabel l = some id ↔ (l ≠ "" ∧ id ∈ w.list ∧ ∃ a, w.deref id = some a ∧ a.label = l)
  dflt : ∀ id, w.dflt = some id ↔ (id ∈ w.list ∧ ∃ a, w.deref id = some a ∧ a.isDefault = true)
  sealOK : ∀ id ∈ w.list, ∀ a, w.deref id = some a → a.Sealed

theorem deref_lt {w : W cr} (h : Inv0 w) {id : Nat} {a : Acc cr} (hd : w.deref id = some a) : id < w.next :=
  h.fresh _ (lk_some_mem hd)

theorem deref_next_none {w : W cr} (h : Inv0 w) : w.deref w.next = none := by
  cases hd : w.deref w.next with
  | none => rfl
  | some a => exact absurd (deref_lt h hd) (Nat.lt_irrefl _)

theorem Inv0.fresh_empty (prm : Nat) (file) : Inv0 (⟨prm, [], [], [], [], none, 0, file⟩ : W cr) :=
  ⟨by simp, by simp, by simp, by simp [lk], by simp, rfl, by simp [lk], by simp, by simp⟩

/-- what `push` needs: the address, the (non-empty) label and the default flag are not taken yet -/
structure PushOK (w : W cr) (a : Acc cr) : Prop where
  addr : lk w.byAddr a.addr = none
  label : a.label ≠ "" → lk w.byLabel a.label = none
  dflt : a.isDefault = true → w.dflt = none
  sealOK : a.Sealed

@[simp] theorem push_list (w : W cr) (a : Acc cr) : (w.push a).list = w.list ++ [w.next] := rfl
@[simp] theorem push_next (w : W cr) (a : Acc cr) : (w.push a).next = w.next + 1 := rfl
@[simp] theorem push_heap (w : W cr) (a : Acc cr) : (w.push a).heap = w.heap ++ [(w.next, a)] := rfl
@[simp] theorem push_byAddr (w : W cr) (a : Acc cr) : (w.push a).byAddr = ins w.byAddr a.addr w.next := rfl
@[simp] theorem push_byLabel (w : W cr) (a : Acc cr) :
    (w.push a).byLabel = if a.label ≠ "" then ins w.byLabel a.label w.next else w.byLabel := rfl
@[simp] theorem push_dflt (w : W cr) (a : Acc cr) : (w.push a).dflt = if a.isDefault then some w.next else w.dflt := rfl
@[simp] theorem push_prm (w : W cr) (a : Acc cr) : (w.push a).prm = w.prm := rfl
@[simp] theorem push_file (w : W cr) (a : Acc cr) : (w.push a).file = w.file := rfl

theorem deref_push (w : W cr) (h : Inv0 w) (a : Acc cr) (id : Nat) :
    (w.push a).deref id = if id = w.next then some a else w.deref id := by
  simp only [W.deref, push_heap, lk_append_single]
  by_cases he : id = w.next
  · subst he
    have := deref_next_none h
    simp only [W.deref] at this
    simp [this]
  · have : ¬ w.next = id := fun e => he e.symm
    simp only [he, this, if_false]
    cases lk w.heap id <;> rfl

theorem push_inv {w : W cr} (h : Inv0 w) {a : Acc cr} (hp : PushOK w a) : Inv0 (w.push a) := by
  have hd := deref_push w h a
  have hnl : w.next ∉ w.list := fun hm => by
    obtain ⟨b, hb⟩ := h.listIn _ hm
    exact absurd (deref_lt h hb) (Nat.lt_irrefl _)
  have hlist : (w.push a).list = w.list ++ [w.next] := rfl
  -- an old list member keeps its object
  have hold : ∀ id ∈ w.list, (w.push a).deref id = w.deref id := by
    intro id hid
    rw [hd]
    have : id ≠ w.next := fun e => hnl (e ▸ hid)
    simp [this]
  refine ⟨?_, ?_, ?_, ?_, ?_, ?_, ?_, ?_, ?_⟩
  · intro x hx
    simp only [push_heap, push_next, List.mem_append, List.mem_singleton] at hx ⊢
    rcases hx with hx | hx
    · have := h.fresh x hx; omega
    · subst hx; simp
  · rw [hlist, List.nodup_append]
    refine ⟨h.listNodup, by simp, ?_⟩
    intro x hx y hy
    simp only [List.mem_singleton] at hy
    subst hy
    exact fun e => hnl (e ▸ hx)
  · intro id hid
    rw [hlist, List.mem_append, List.mem_singleton] at hid
    rcases hid with hid | hid
    · rw [hold id hid]; exact h.listIn id hid
    · subst hid; exact ⟨a, by rw [hd]; simp⟩
  · intro ad id
    simp only [push_byAddr, push_list, lk_ins]
    by_cases hk : a.addr = ad
    · subst hk
      simp only [if_true, Option.some.injEq]
      constructor
      · intro e; subst e
        exact ⟨by simp, a, by rw [hd]; simp, rfl⟩
      · rintro ⟨hm, b, hb, hba⟩
        simp only [List.mem_append, List.mem_singleton] at hm
        rcases hm with hm | hm
        · -- an old account with the same address contradicts PushOK.addr
          have hb' : w.deref id = some b := by rw [← hold id hm]; exact hb
          have := (h.addr a.addr id).mpr ⟨hm, b, hb', hba⟩
          rw [hp.addr] at this; cases this
        · exact hm.symm
    · simp only [hk, if_false]
      rw [h.addr ad id]
      constructor
      · rintro ⟨hm, b, hb, hba⟩
        exact ⟨by simp [hm], b, by rw [hold id hm]; exact hb, hba⟩
      · rintro ⟨hm, b, hb, hba⟩
        simp only [List.mem_append, List.mem_singleton] at hm
        rcases hm with hm | hm
        · exact ⟨hm, b, by rw [← hold id hm]; exact hb, hba⟩
        · subst hm
          rw [hd] at hb; simp at hb; subst hb
          exact absurd hba hk
  · simp only [push_byAddr]
    rw [ins_absent _ hp.addr]
    simp only [List.map_append, List.map_cons, List.map_nil]
    rw [List.nodup_append]
    refine ⟨h.addrKeys, by simp, ?_⟩
    intro x hx y hy
    simp only [List.mem_singleton] at hy
    subst hy
    exact fun e => lk_none_keys hp.addr (e ▸ hx)
  · simp only [push_byAddr, push_list]
    rw [ins_absent _ hp.addr]
    simp [h.addrLen]
  · intro l id
    simp only [push_byLabel, push_list]
    by_cases hl : a.label ≠ ""
    · rw [if_pos hl]
      simp only [lk_ins]
      by_cases hk : a.label = l
      · subst hk
        simp only [if_true, Option.some.injEq]
        constructor
        · intro e; subst e
          exact ⟨hl, by simp, a, by rw [hd]; simp, rfl⟩
        · rintro ⟨_, hm, b, hb, hbl⟩
          simp only [List.mem_append, List.mem_singleton] at hm
          rcases hm with hm | hm
          · have hb' : w.deref id = some b := by rw [← hold id hm]; exact hb
            have := (h.label a.label id).mpr ⟨hl, hm, b, hb', hbl⟩
            rw [hp.label hl] at this; cases this
          · exact hm.symm
      · simp only [hk, if_false]
        rw [h.label l id]
        constructor
        · rintro ⟨h0, hm, b, hb, hbl⟩
          exact ⟨h0, by simp [hm], b, by rw [hold id hm]; exact hb, hbl⟩
        · rintro ⟨h0, hm, b, hb, hbl⟩
          simp only [List.mem_append, List.mem_singleton] at hm
          rcases hm with hm | hm
          · exact ⟨h0, hm, b, by rw [← hold id hm]; exact hb, hbl⟩
          · subst hm
            rw [hd] at hb; simp at hb; subst hb
            exact absurd hbl hk
    · have hl' : a.label = "" := by simpa using hl
      rw [if_neg hl, h.label l id]
      constructor
      · rintro ⟨h0, hm, b, hb, hbl⟩
        exact ⟨h0, by simp [hm], b, by rw [hold id hm]; exact hb, hbl⟩
      · rintro ⟨h0, hm, b, hb, hbl⟩
        simp only [List.mem_append, List.mem_singleton] at hm
        rcases hm with hm | hm
        · exact ⟨h0, hm, b, by rw [← hold id hm]; exact hb, hbl⟩
        · subst hm
          rw [hd] at hb; simp at hb; subst hb
          exact absurd (hbl ▸ hl') h0
  · intro id
    simp only [push_dflt, push_list]
    by_cases hdf : a.isDefault = true
    · rw [if_pos hdf]
      simp only [Option.some.injEq]
      constructor
      · intro e; subst e
        exact ⟨by simp, a, by rw [hd]; simp, hdf⟩
      · rintro ⟨hm, b, hb, hbd⟩
        simp only [List.mem_append, List.mem_singleton] at hm
        rcases hm with hm | hm
        · have hb' : w.deref id = some b := by rw [← hold id hm]; exact hb
          have := (h.dflt id).mpr ⟨hm, b, hb', hbd⟩
          rw [hp.dflt hdf] at this; cases this
        · exact hm.symm
    · rw [if_neg hdf, h.dflt id]
      constructor
      · rintro ⟨hm, b, hb, hbd⟩
        exact ⟨by simp [hm], b, by rw [hold id hm]; exact hb, hbd⟩
      · rintro ⟨hm, b, hb, hbd⟩
        simp only [List.mem_append, List.mem_singleton] at hm
        rcases hm with hm | hm
        · exact ⟨hm, b, by rw [← hold id hm]; exact hb, hbd⟩
        · subst hm
          rw [hd] at hb; simp at hb; subst hb
          exact absurd hbd hdf
  · intro id hid b hb
    rw [hlist, List.mem_append, List.mem_singleton] at hid
    rcases hid with hid | hid
    · rw [hold id hid] at hb; exact h.sealOK id hid b hb
    · subst hid
      rw [hd] at hb; simp at hb; subst hb
      exact hp.sealOK

theorem records_push {w : W cr} (h : Inv0 w) (a : Acc cr) : (w.push a).records = w.records ++ [a] := by
  have hd := deref_push w h a
  have hnl : w.next ∉ w.list := fun hm => by
    obtain ⟨b, hb⟩ := h.listIn _ hm
    exact absurd (deref_lt h hb) (Nat.lt_irrefl _)
  simp only [W.records]
  have hlist : (w.push a).list = w.list ++ [w.next] := rfl
  rw [hlist, List.filterMap_append]
  congr 1
  · apply filterMap_congr'
    intro id hid
    rw [hd]
    have : id ≠ w.next := fun e => hnl (e ▸ hid)
    simp [this]
  · simp [hd]

/-! ### the getters are functions of `(prm, records)` -/

theorem records_getElem? {w : W cr} (h : Inv0 w) (i : Nat) : w.records[i]? = (w.list[i]?).bind w.deref :=
  filterMap_getElem? _ _ h.listIn i

theorem records_length {w : W cr} (h : Inv0 w) : w.records.length = w.list.length :=
  filterMap_length _ _ h.listIn

theorem metaIndex_eq {w : W cr} (h : Inv0 w) (i : Nat) : w.metaIndex i = (w.records[i]?).map Acc.meta := by
  rw [records_getElem? h]
  unfold W.metaIndex
  cases w.list[i]? with
  | none => rfl
  | some id => simp only [Option.bind_some]

theorem openIndex_eq {w : W cr} (h : Inv0 w) (i pw : Nat) : w.openIndex i pw = (w.records[i]?).map fun a => w.decrypt a pw := by
  rw [records_getElem? h]
  unfold W.openIndex
  cases w.list[i]? with
  | none => rfl
  | some id => simp only [Option.bind_some]

/-- observable state of a wallet client -/
structure Obs (cr : Crypto) where
  num : Nat
  index : Nat → Option (Meta cr)
  byAddr : Nat → Option (Meta cr)
  byLabel : String → Option (Meta cr)
  dflt : Option (Meta cr)
  opens : Nat → Nat → Option (Option Nat)

def obs (w : W cr) : Obs cr := ⟨w.num, w.metaIndex, w.metaAddr, w.metaLabel, w.metaDefault, w.openIndex⟩

theorem metaAddr_of_records {w w' : W cr} (h : Inv0 w) (h' : Inv0 w') (hr : w.records = w'.records) (ad : Nat) :
    w.metaAddr ad = w'.metaAddr ad := by
  have key : ∀ {u u' : W cr}, Inv0 u → Inv0 u' → u.records = u'.records → ∀ id, lk u.byAddr ad = some id →
      ∃ id' a, lk u'.byAddr ad = some id' ∧ u.deref id = some a ∧ u'.deref id' = some a := by
    intro u u' hu hu' hrr id hl
    obtain ⟨hm, a, ha, haa⟩ := (hu.addr ad id).mp hl
    have : a ∈ u'.records := by rw [← hrr]; exact mem_records.mpr ⟨id, hm, ha⟩
    obtain ⟨id', hm', ha'⟩ := mem_records.mp this
    exact ⟨id', a, (hu'.addr ad id').mpr ⟨hm', a, ha', haa⟩, ha, ha'⟩
  unfold W.metaAddr
  cases hl : lk w.byAddr ad with
  | some id =>
    obtain ⟨id', a, h1, h2, h3⟩ := key h h' hr id hl
    simp [h1, h2, h3]
  | none =>
    cases hl' : lk w'.byAddr ad with
    | none => rfl
    | some id' =>
      obtain ⟨id, a, h1, _, _⟩ := key h' h hr.symm id' hl'
      rw [hl] at h1; cases h1

theorem metaLabel_of_records {w w' : W cr} (h : Inv0 w) (h' : Inv0 w') (hr : w.records = w'.records) (l : String) :
    w.metaLabel l = w'.metaLabel l := by
  have key : ∀ {u u' : W cr}, Inv0 u → Inv0 u' → u.records = u'.records → ∀ id, lk u.byLabel l = some id →
      ∃ id' a, lk u'.byLabel l = some id' ∧ u.deref id = some a ∧ u'.deref id' = some a := by
    intro u u' hu hu' hrr id hl
    obtain ⟨h0, hm, a, ha, haa⟩ := (hu.label l id).mp hl
    have : a ∈ u'.records := by rw [← hrr]; exact mem_records.mpr ⟨id, hm, ha⟩
    obtain ⟨id', hm', ha'⟩ := mem_records.mp this
    exact ⟨id', a, (hu'.label l id').mpr ⟨h0, hm', a, ha', haa⟩, ha, ha'⟩
  unfold W.metaLabel
  split
  · rfl
  · cases hl : lk w.byLabel l with
    | some id =>
      obtain ⟨id', a, h1, h2, h3⟩ := key h h' hr id hl
      simp [h1, h2, h3]
    | none =>
      cases hl' : lk w'.byLabel l with
      | none => rfl
      | some id' =>
        obtain ⟨id, a, h1, _, _⟩ := key h' h hr.symm id' hl'
        rw [hl] at h1; cases h1

theorem metaDefault_of_records {w w' : W cr} (h : Inv0 w) (h' : Inv0 w') (hr : w.records = w'.records) :
    w.metaDefault = w'.metaDefault := by
  have key : ∀ {u u' : W cr}, Inv0 u → Inv0 u' → u.records = u'.records → ∀ id, u.dflt = some id →
      ∃ id' a, u'.dflt = some id' ∧ u.deref id = some a ∧ u'.deref id' = some a := by
    intro u u' hu hu' hrr id hl
    obtain ⟨hm, a, ha, haa⟩ := (hu.dflt id).mp hl
    have : a ∈ u'.records := by rw [← hrr]; exact mem_records.mpr ⟨id, hm, ha⟩
    obtain ⟨id', hm', ha'⟩ := mem_records.mp this
    exact ⟨id', a, (hu'.dflt id').mpr ⟨hm', a, ha', haa⟩, ha, ha'⟩
  unfold W.metaDefault
  cases hl : w.dflt with
  | some id =>
    obtain ⟨id', a, h1, h2, h3⟩ := key h h' hr id hl
    simp [h1, h2, h3]
  | none =>
    cases hl' : w'.dflt with
    | none => rfl
    | some id' =>
      obtain ⟨id, a, h1, _, _⟩ := key h' h hr.symm id' hl'
      rw [hl] at h1; cases h1

/-- two well-indexed clients over the same scrypt parameters and the same record list answer every getter alike -/
theorem obs_of_records {w w' : W cr} (h : Inv0 w) (h' : Inv0 w') (hp : w.prm = w'.prm) (hr : w.records = w'.records) :
    obs w = obs w' := by
  unfold obs
  congr 1
  · show w.byAddr.length = w'.byAddr.length
    rw [h.addrLen, h'.addrLen, ← records_length h, ← records_length h', hr]
  · funext i; rw [metaIndex_eq h, metaIndex_eq h', hr]
  · funext ad; exact metaAddr_of_records h h' hr ad
  · funext l; exact metaLabel_of_records h h' hr l
  · exact metaDefault_of_records h h' hr
  · funext i pw
    rw [openIndex_eq h, openIndex_eq h', hr]
    cases w'.records[i]? with
    | none => rfl
    | some a => simp [W.decrypt, hp]

/-! ### loading -/

def recRel (a b : Acc cr) : Prop :=
  a.addr ≠ b.addr ∧ (a.label ≠ "" → a.label ≠ b.label) ∧ ¬ (a.isDefault = true ∧ b.isDefault = true)

theorem records_pairwise {w : W cr} (h : Inv0 w) : w.records.Pairwise recRel := by
  unfold W.records
  have h1 : w.list.Pairwise (fun i j => i ∈ w.list ∧ j ∈ w.list ∧ i ≠ j) :=
    List.Pairwise.imp_of_mem (fun hi hj hne => ⟨hi, hj, hne⟩) h.listNodup
  refine List.Pairwise.filterMap _ ?_ h1
  rintro i j ⟨hi, hj, hne⟩ a ha b hb
  refine ⟨?_, ?_, ?_⟩
  · intro e
    have e1 := (h.addr a.addr i).mpr ⟨hi, a, ha, rfl⟩
    have e2 := (h.addr a.addr j).mpr ⟨hj, b, hb, e.symm⟩
    rw [e1] at e2; exact hne (Option.some.inj e2)
  · intro h0 e
    have e1 := (h.label a.label i).mpr ⟨h0, hi, a, ha, rfl⟩
    have e2 := (h.label a.label j).mpr ⟨h0, hj, b, hb, e.symm⟩
    rw [e1] at e2; exact hne (Option.some.inj e2)
  · rintro ⟨da, db⟩
    have e1 := (h.dflt i).mpr ⟨hi, a, ha, da⟩
    have e2 := (h.dflt j).mpr ⟨hj, b, hb, db⟩
    rw [e1] at e2; exact hne (Option.some.inj e2)

theorem loadRecs_inv {w : W cr} (h : Inv0 w) (recs : List (Acc cr)) (hpw : recs.Pairwise recRel)
    (hfree : ∀ a ∈ recs, PushOK w a) :
    Inv0 (loadRecs w recs) ∧ (loadRecs w recs).records = w.records ++ recs ∧ (loadRecs w recs).prm = w.prm ∧
      (loadRecs w recs).file = w.file := by
  induction recs generalizing w with
  | nil => simp [loadRecs, h]
  | cons a r ih =>
    simp only [loadRecs]
    have hpa := hfree a (by simp)
    have hi := push_inv h hpa
    rw [List.pairwise_cons] at hpw
    have hfree' : ∀ b ∈ r, PushOK (w.push a) b := by
      intro b hb
      have hpb := hfree b (List.mem_cons_of_mem _ hb)
      obtain ⟨r1, r2, r3⟩ := hpw.1 b hb
      refine ⟨?_, ?_, ?_, hpb.sealOK⟩
      · simp only [push_byAddr, lk_ins, r1, if_false]; exact hpb.addr
      · intro hb0
        simp only [push_byLabel]
        by_cases hl : a.label ≠ ""
        · rw [if_pos hl]
          simp only [lk_ins, r2 hl, if_false]; exact hpb.label hb0
        · rw [if_neg hl]; exact hpb.label hb0
      · intro hbd
        simp only [push_dflt]
        have : ¬ a.isDefault = true := fun e => r3 ⟨e, hbd⟩
        rw [if_neg this]; exact hpb.dflt hbd
    obtain ⟨i1, i2, i3, i4⟩ := ih hi hpw.2 hfree'
    refine ⟨i1, ?_, by rw [i3]; rfl, by rw [i4]; rfl⟩
    rw [i2, records_push h a]; simp

/-- reopening a well-indexed wallet whose file mirrors the list gives a well-indexed wallet with the same records -/
theorem load_spec (prm : Nat) (recs : List (Acc cr)) (hpw : recs.Pairwise recRel) (hs : ∀ a ∈ recs, a.Sealed) :
    Inv0 (W.load (some (prm, recs))) ∧ (W.load (some (prm, recs))).records = recs ∧ (W.load (some (prm, recs))).prm = prm ∧
      (W.load (some (prm, recs))).file = some (prm, recs) := by
  unfold W.load
  simp only
  have h0 : Inv0 ({ (W.fresh cr) with prm := prm, file := some (prm, recs) } : W cr) := Inv0.fresh_empty prm _
  obtain ⟨i1, i2, i3, i4⟩ := loadRecs_inv h0 recs hpw
    (fun a ha => ⟨by simp [W.fresh, lk], by simp [W.fresh, lk], by simp [W.fresh], hs a ha⟩)
  exact ⟨i1, by rw [i2]; simp [W.records, W.fresh], i3, i4⟩

end OntVerif.Proofs.Wallet
