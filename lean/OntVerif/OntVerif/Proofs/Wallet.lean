import OntVerif.Model.Wallet
/-! Helper lemmas for C38 (wallet model). Core Lean only. -/
namespace OntVerif.Proofs.Wallet
open OntVerif.Model.Wallet

/-! ### association lists -/
section assoc
variable {κ α : Type} [DecidableEq κ]

theorem lk_ins (m : List (κ × α)) (k k' : κ) (v : α) : lk (ins m k v) k' = if k = k' then some v else lk m k' := by
  induction m with
  | nil => simp [ins, lk]
  | cons a r ih =>
    obtain ⟨a1, a2⟩ := a
    simp only [ins]
    by_cases h : a1 = k
    · subst h
      by_cases h2 : a1 = k' <;> simp [lk, h2]
    · simp only [h, if_false, lk, ih]
      by_cases h2 : a1 = k'
      · subst h2
        have : ¬ k = a1 := fun e => h e.symm
        simp [this]
      · simp [h2]

theorem lk_ers (m : List (κ × α)) (k k' : κ) : lk (ers m k) k' = if k = k' then none else lk m k' := by
  induction m with
  | nil => simp [ers, lk]
  | cons a r ih =>
    obtain ⟨a1, a2⟩ := a
    simp only [ers]
    by_cases h : a1 = k
    · subst h
      simp only [if_true, ih, lk]
      by_cases h2 : a1 = k' <;> simp [h2]
    · simp only [h, if_false, lk, ih]
      by_cases h2 : a1 = k'
      · subst h2
        have : ¬ k = a1 := fun e => h e.symm
        simp [this]
      · simp [h2]

theorem lk_append_single (m : List (κ × α)) (k k' : κ) (v : α) :
    lk (m ++ [(k, v)]) k' = match lk m k' with
      | some x => some x
      | none => if k = k' then some v else none := by
  induction m with
  | nil => simp [lk]
  | cons a r ih =>
    obtain ⟨a1, a2⟩ := a
    simp only [List.cons_append, lk]
    by_cases h : a1 = k' <;> simp [h, ih]

theorem lk_some_mem {m : List (κ × α)} {k : κ} {v : α} (h : lk m k = some v) : (k, v) ∈ m := by
  induction m with
  | nil => simp [lk] at h
  | cons a r ih =>
    obtain ⟨a1, a2⟩ := a
    simp only [lk] at h
    split at h
    · rename_i he; cases h; subst he; simp
    · exact List.mem_cons_of_mem _ (ih h)

theorem lk_none_of_not_key {m : List (κ × α)} {k : κ} (h : ∀ x ∈ m, x.1 ≠ k) : lk m k = none := by
  induction m with
  | nil => rfl
  | cons a r ih =>
    obtain ⟨a1, a2⟩ := a
    have h1 : a1 ≠ k := h (a1, a2) (by simp)
    simp only [lk, h1, if_false]
    exact ih (fun x hx => h x (List.mem_cons_of_mem _ hx))

theorem mem_ins {m : List (κ × α)} {k : κ} {v : α} {x : κ × α} (h : x ∈ ins m k v) : x = (k, v) ∨ x ∈ m := by
  induction m with
  | nil => simp [ins] at h; exact Or.inl h
  | cons a r ih =>
    obtain ⟨a1, a2⟩ := a
    simp only [ins] at h
    split at h
    · simp only [List.mem_cons] at h
      rcases h with h | h
      · exact Or.inl h
      · exact Or.inr (List.mem_cons_of_mem _ h)
    · simp only [List.mem_cons] at h
      rcases h with h | h
      · exact Or.inr (by simp [h])
      · rcases ih h with h | h
        · exact Or.inl h
        · exact Or.inr (List.mem_cons_of_mem _ h)

theorem ins_absent {m : List (κ × α)} {k : κ} (v : α) (h : lk m k = none) : ins m k v = m ++ [(k, v)] := by
  induction m with
  | nil => rfl
  | cons a r ih =>
    obtain ⟨a1, a2⟩ := a
    simp only [lk] at h
    split at h
    · cases h
    · rename_i hne; simp [ins, hne, ih h]

theorem lk_none_keys {m : List (κ × α)} {k : κ} (h : lk m k = none) : k ∉ m.map (·.1) := by
  induction m with
  | nil => simp
  | cons a r ih =>
    obtain ⟨a1, a2⟩ := a
    simp only [lk] at h
    split at h
    · cases h
    · rename_i hne
      simp only [List.map_cons, List.mem_cons, not_or]
      exact ⟨fun e => hne e.symm, ih h⟩

theorem ers_sublist (m : List (κ × α)) (k : κ) : (ers m k).Sublist m := by
  induction m with
  | nil => simp [ers]
  | cons a r ih =>
    obtain ⟨a1, a2⟩ := a
    simp only [ers]
    split
    · exact ih.cons _
    · exact ih.cons_cons _

theorem ers_not_key {m : List (κ × α)} {k : κ} (h : k ∉ m.map (·.1)) : ers m k = m := by
  induction m with
  | nil => rfl
  | cons a r ih =>
    obtain ⟨a1, a2⟩ := a
    simp only [List.map_cons, List.mem_cons, not_or] at h
    have : ¬ a1 = k := fun e => h.1 e.symm
    simp [ers, this, ih h.2]

/-- with distinct keys, erasing a present key removes exactly one entry -/
theorem ers_length {m : List (κ × α)} {k : κ} {v : α} (hn : (m.map (·.1)).Nodup) (h : lk m k = some v) :
    (ers m k).length + 1 = m.length := by
  induction m with
  | nil => simp [lk] at h
  | cons a r ih =>
    obtain ⟨a1, a2⟩ := a
    simp only [List.map_cons, List.nodup_cons] at hn
    simp only [lk] at h
    by_cases he : a1 = k
    · subst he
      simp only [ers, if_true, List.length_cons]
      rw [ers_not_key hn.1]
    · simp only [he, if_false] at h
      simp only [ers, he, if_false, List.length_cons]
      have := ih hn.2 h
      omega
end assoc

variable {cr : Crypto}

/-! ### heap facts -/
theorem deref_setObj (w : W cr) (id id' : Nat) (a : Acc cr) :
    (w.setObj id a).deref id' = if id = id' then some a else w.deref id' := by
  simp [W.setObj, W.deref, lk_ins]

theorem mem_records {w : W cr} {a : Acc cr} : a ∈ w.records ↔ ∃ id ∈ w.list, w.deref id = some a := by
  simp [W.records, List.mem_filterMap]

theorem filterMap_getElem? {α β} (f : α → Option β) (l : List α) (h : ∀ x ∈ l, ∃ b, f x = some b) (i : Nat) :
    (l.filterMap f)[i]? = (l[i]?).bind f := by
  induction l generalizing i with
  | nil => simp
  | cons x r ih =>
    obtain ⟨b, hb⟩ := h x (by simp)
    simp only [List.filterMap_cons, hb]
    cases i with
    | zero => simp [hb]
    | succ j => simpa using ih (fun y hy => h y (List.mem_cons_of_mem _ hy)) j

theorem filterMap_congr' {α β} (f g : α → Option β) (l : List α) (h : ∀ x ∈ l, f x = g x) :
    l.filterMap f = l.filterMap g := by
  induction l with
  | nil => rfl
  | cons x r ih =>
    simp only [List.filterMap_cons, h x (by simp)]
    rw [ih (fun y hy => h y (List.mem_cons_of_mem _ hy))]

theorem filterMap_length {α β} (f : α → Option β) (l : List α) (h : ∀ x ∈ l, ∃ b, f x = some b) :
    (l.filterMap f).length = l.length := by
  induction l with
  | nil => rfl
  | cons x r ih =>
    obtain ⟨b, hb⟩ := h x (by simp)
    simp [hb, ih (fun y hy => h y (List.mem_cons_of_mem _ hy))]

/-! ### index invariant -/

structure Inv0 (w : W cr) : Prop where
  fresh : ∀ x ∈ w.heap, x.1 < w.next
  listNodup : w.list.Nodup
  listIn : ∀ id ∈ w.list, ∃ a, w.deref id = some a
  addr : ∀ ad id, lk w.byAddr ad = some id ↔ (id ∈ w.list ∧ ∃ a, w.deref id = some a ∧ a.addr = ad)
  addrKeys : (w.byAddr.map (·.1)).Nodup
  addrLen : w.byAddr.length = w.list.length
  label : ∀ l id, lk w.byLabel l = some id ↔ (l ≠ "" ∧ id ∈ w.list ∧ ∃ a, w.deref id = some a ∧ a.label = l)
  dflt : ∀ id, w.dflt = some id ↔ (id ∈ w.list ∧ ∃ a, w.deref id = some a ∧ a.isDefault = true)
  sealOK : ∀ id ∈ w.list, ∀ a, w.deref id = some a → a.Sealed

/-- the heap part of the invariant: ids are allocated below `next`, every list entry points to an object -/
structure HeapOK (w : W cr) : Prop where
  fresh : ∀ x ∈ w.heap, x.1 < w.next
  listIn : ∀ id ∈ w.list, ∃ a, w.deref id = some a

theorem Inv0.heapOK {w : W cr} (h : Inv0 w) : HeapOK w := ⟨h.fresh, h.listIn⟩

theorem deref_lt {w : W cr} (h : HeapOK w) {id : Nat} {a : Acc cr} (hd : w.deref id = some a) : id < w.next :=
  h.fresh _ (lk_some_mem hd)

theorem deref_next_none {w : W cr} (h : HeapOK w) : w.deref w.next = none := by
  cases hd : w.deref w.next with
  | none => rfl
  | some a => exact absurd (deref_lt h hd) (Nat.lt_irrefl _)

theorem Inv0.fresh_empty (prm : Nat) (file) : Inv0 (⟨prm, [], [], [], [], none, 0, file⟩ : W cr) :=
  ⟨by simp, by simp, by simp, by simp [lk], by simp, rfl, by simp [lk], by simp, by simp⟩

/-- what `push` needs: the address, the (non-empty) label and the default flag are not taken yet -/
structure PushOK (w : W cr) (a : Acc cr) : Prop where
  addr : lk w.byAddr a.addr = none
  label : a.label ≠ "" → lk w.byLabel a.label = none
  dflt : a.isDefault = true → w.dflt = none
  sealOK : a.Sealed

@[simp] theorem push_list (w : W cr) (a : Acc cr) : (w.push a).list = w.list ++ [w.next] := rfl
@[simp] theorem push_next (w : W cr) (a : Acc cr) : (w.push a).next = w.next + 1 := rfl
@[simp] theorem push_heap (w : W cr) (a : Acc cr) : (w.push a).heap = w.heap ++ [(w.next, a)] := rfl
@[simp] theorem push_byAddr (w : W cr) (a : Acc cr) : (w.push a).byAddr = ins w.byAddr a.addr w.next := rfl
@[simp] theorem push_byLabel (w : W cr) (a : Acc cr) :
    (w.push a).byLabel = if a.label ≠ "" then ins w.byLabel a.label w.next else w.byLabel := rfl
@[simp] theorem push_dflt (w : W cr) (a : Acc cr) : (w.push a).dflt = if a.isDefault then some w.next else w.dflt := rfl
@[simp] theorem push_prm (w : W cr) (a : Acc cr) : (w.push a).prm = w.prm := rfl
@[simp] theorem push_file (w : W cr) (a : Acc cr) : (w.push a).file = w.file := rfl

theorem deref_push (w : W cr) (h : HeapOK w) (a : Acc cr) (id : Nat) :
    (w.push a).deref id = if id = w.next then some a else w.deref id := by
  simp only [W.deref, push_heap, lk_append_single]
  by_cases he : id = w.next
  · subst he
    have := deref_next_none h
    simp only [W.deref] at this
    simp [this]
  · have : ¬ w.next = id := fun e => he e.symm
    simp only [he, this, if_false]
    cases lk w.heap id <;> rfl

theorem push_inv {w : W cr} (h : Inv0 w) {a : Acc cr} (hp : PushOK w a) : Inv0 (w.push a) := by
  have hd := deref_push w h.heapOK a
  have hnl : w.next ∉ w.list := fun hm => by
    obtain ⟨b, hb⟩ := h.listIn _ hm
    exact absurd (deref_lt h.heapOK hb) (Nat.lt_irrefl _)
  have hlist : (w.push a).list = w.list ++ [w.next] := rfl
  -- an old list member keeps its object
  have hold : ∀ id ∈ w.list, (w.push a).deref id = w.deref id := by
    intro id hid
    rw [hd]
    have : id ≠ w.next := fun e => hnl (e ▸ hid)
    simp [this]
  refine ⟨?_, ?_, ?_, ?_, ?_, ?_, ?_, ?_, ?_⟩
  · intro x hx
    simp only [push_heap, push_next, List.mem_append, List.mem_singleton] at hx ⊢
    rcases hx with hx | hx
    · have := h.fresh x hx; omega
    · subst hx; simp
  · rw [hlist, List.nodup_append]
    refine ⟨h.listNodup, by simp, ?_⟩
    intro x hx y hy
    simp only [List.mem_singleton] at hy
    subst hy
    exact fun e => hnl (e ▸ hx)
  · intro id hid
    rw [hlist, List.mem_append, List.mem_singleton] at hid
    rcases hid with hid | hid
    · rw [hold id hid]; exact h.listIn id hid
    · subst hid; exact ⟨a, by rw [hd]; simp⟩
  · intro ad id
    simp only [push_byAddr, push_list, lk_ins]
    by_cases hk : a.addr = ad
    · subst hk
      simp only [if_true, Option.some.injEq]
      constructor
      · intro e; subst e
        exact ⟨by simp, a, by rw [hd]; simp, rfl⟩
      · rintro ⟨hm, b, hb, hba⟩
        simp only [List.mem_append, List.mem_singleton] at hm
        rcases hm with hm | hm
        · -- an old account with the same address contradicts PushOK.addr
          have hb' : w.deref id = some b := by rw [← hold id hm]; exact hb
          have := (h.addr a.addr id).mpr ⟨hm, b, hb', hba⟩
          rw [hp.addr] at this; cases this
        · exact hm.symm
    · simp only [hk, if_false]
      rw [h.addr ad id]
      constructor
      · rintro ⟨hm, b, hb, hba⟩
        exact ⟨by simp [hm], b, by rw [hold id hm]; exact hb, hba⟩
      · rintro ⟨hm, b, hb, hba⟩
        simp only [List.mem_append, List.mem_singleton] at hm
        rcases hm with hm | hm
        · exact ⟨hm, b, by rw [← hold id hm]; exact hb, hba⟩
        · subst hm
          rw [hd] at hb; simp at hb; subst hb
          exact absurd hba hk
  · simp only [push_byAddr]
    rw [ins_absent _ hp.addr]
    simp only [List.map_append, List.map_cons, List.map_nil]
    rw [List.nodup_append]
    refine ⟨h.addrKeys, by simp, ?_⟩
    intro x hx y hy
    simp only [List.mem_singleton] at hy
    subst hy
    exact fun e => lk_none_keys hp.addr (e ▸ hx)
  · simp only [push_byAddr, push_list]
    rw [ins_absent _ hp.addr]
    simp [h.addrLen]
  · intro l id
    simp only [push_byLabel, push_list]
    by_cases hl : a.label ≠ ""
    · rw [if_pos hl]
      simp only [lk_ins]
      by_cases hk : a.label = l
      · subst hk
        simp only [if_true, Option.some.injEq]
        constructor
        · intro e; subst e
          exact ⟨hl, by simp, a, by rw [hd]; simp, rfl⟩
        · rintro ⟨_, hm, b, hb, hbl⟩
          simp only [List.mem_append, List.mem_singleton] at hm
          rcases hm with hm | hm
          · have hb' : w.deref id = some b := by rw [← hold id hm]; exact hb
            have := (h.label a.label id).mpr ⟨hl, hm, b, hb', hbl⟩
            rw [hp.label hl] at this; cases this
          · exact hm.symm
      · simp only [hk, if_false]
        rw [h.label l id]
        constructor
        · rintro ⟨h0, hm, b, hb, hbl⟩
          exact ⟨h0, by simp [hm], b, by rw [hold id hm]; exact hb, hbl⟩
        · rintro ⟨h0, hm, b, hb, hbl⟩
          simp only [List.mem_append, List.mem_singleton] at hm
          rcases hm with hm | hm
          · exact ⟨h0, hm, b, by rw [← hold id hm]; exact hb, hbl⟩
          · subst hm
            rw [hd] at hb; simp at hb; subst hb
            exact absurd hbl hk
    · have hl' : a.label = "" := by simpa using hl
      rw [if_neg hl, h.label l id]
      constructor
      · rintro ⟨h0, hm, b, hb, hbl⟩
        exact ⟨h0, by simp [hm], b, by rw [hold id hm]; exact hb, hbl⟩
      · rintro ⟨h0, hm, b, hb, hbl⟩
        simp only [List.mem_append, List.mem_singleton] at hm
        rcases hm with hm | hm
        · exact ⟨h0, hm, b, by rw [← hold id hm]; exact hb, hbl⟩
        · subst hm
          rw [hd] at hb; simp at hb; subst hb
          exact absurd (hbl ▸ hl') h0
  · intro id
    simp only [push_dflt, push_list]
    by_cases hdf : a.isDefault = true
    · rw [if_pos hdf]
      simp only [Option.some.injEq]
      constructor
      · intro e; subst e
        exact ⟨by simp, a, by rw [hd]; simp, hdf⟩
      · rintro ⟨hm, b, hb, hbd⟩
        simp only [List.mem_append, List.mem_singleton] at hm
        rcases hm with hm | hm
        · have hb' : w.deref id = some b := by rw [← hold id hm]; exact hb
          have := (h.dflt id).mpr ⟨hm, b, hb', hbd⟩
          rw [hp.dflt hdf] at this; cases this
        · exact hm.symm
    · rw [if_neg hdf, h.dflt id]
      constructor
      · rintro ⟨hm, b, hb, hbd⟩
        exact ⟨by simp [hm], b, by rw [hold id hm]; exact hb, hbd⟩
      · rintro ⟨hm, b, hb, hbd⟩
        simp only [List.mem_append, List.mem_singleton] at hm
        rcases hm with hm | hm
        · exact ⟨hm, b, by rw [← hold id hm]; exact hb, hbd⟩
        · subst hm
          rw [hd] at hb; simp at hb; subst hb
          exact absurd hbd hdf
  · intro id hid b hb
    rw [hlist, List.mem_append, List.mem_singleton] at hid
    rcases hid with hid | hid
    · rw [hold id hid] at hb; exact h.sealOK id hid b hb
    · subst hid
      rw [hd] at hb; simp at hb; subst hb
      exact hp.sealOK

theorem records_push {w : W cr} (h : HeapOK w) (a : Acc cr) : (w.push a).records = w.records ++ [a] := by
  have hd := deref_push w h a
  have hnl : w.next ∉ w.list := fun hm => by
    obtain ⟨b, hb⟩ := h.listIn _ hm
    exact absurd (deref_lt h hb) (Nat.lt_irrefl _)
  simp only [W.records]
  have hlist : (w.push a).list = w.list ++ [w.next] := rfl
  rw [hlist, List.filterMap_append]
  congr 1
  · apply filterMap_congr'
    intro id hid
    rw [hd]
    have : id ≠ w.next := fun e => hnl (e ▸ hid)
    simp [this]
  · simp [hd]

/-! ### the getters are functions of `(prm, records)` -/

theorem records_getElem? {w : W cr} (h : Inv0 w) (i : Nat) : w.records[i]? = (w.list[i]?).bind w.deref :=
  filterMap_getElem? _ _ h.listIn i

theorem records_length {w : W cr} (h : Inv0 w) : w.records.length = w.list.length :=
  filterMap_length _ _ h.listIn

theorem metaIndex_eq {w : W cr} (h : Inv0 w) (i : Nat) : w.metaIndex i = (w.records[i]?).map Acc.meta := by
  rw [records_getElem? h]
  unfold W.metaIndex
  cases w.list[i]? with
  | none => rfl
  | some id => simp only [Option.bind_some]

theorem openIndex_eq {w : W cr} (h : Inv0 w) (i pw : Nat) : w.openIndex i pw = (w.records[i]?).map fun a => w.decrypt a pw := by
  rw [records_getElem? h]
  unfold W.openIndex
  cases w.list[i]? with
  | none => rfl
  | some id => simp only [Option.bind_some]

/-- observable state of a wallet client -/
structure Obs (cr : Crypto) where
  num : Nat
  index : Nat → Option (Meta cr)
  byAddr : Nat → Option (Meta cr)
  byLabel : String → Option (Meta cr)
  dflt : Option (Meta cr)
  opens : Nat → Nat → Option (Option Nat)

def obs (w : W cr) : Obs cr := ⟨w.num, w.metaIndex, w.metaAddr, w.metaLabel, w.metaDefault, w.openIndex⟩

theorem metaAddr_of_records {w w' : W cr} (h : Inv0 w) (h' : Inv0 w') (hr : w.records = w'.records) (ad : Nat) :
    w.metaAddr ad = w'.metaAddr ad := by
  have key : ∀ {u u' : W cr}, Inv0 u → Inv0 u' → u.records = u'.records → ∀ id, lk u.byAddr ad = some id →
      ∃ id' a, lk u'.byAddr ad = some id' ∧ u.deref id = some a ∧ u'.deref id' = some a := by
    intro u u' hu hu' hrr id hl
    obtain ⟨hm, a, ha, haa⟩ := (hu.addr ad id).mp hl
    have : a ∈ u'.records := by rw [← hrr]; exact mem_records.mpr ⟨id, hm, ha⟩
    obtain ⟨id', hm', ha'⟩ := mem_records.mp this
    exact ⟨id', a, (hu'.addr ad id').mpr ⟨hm', a, ha', haa⟩, ha, ha'⟩
  unfold W.metaAddr
  cases hl : lk w.byAddr ad with
  | some id =>
    obtain ⟨id', a, h1, h2, h3⟩ := key h h' hr id hl
    simp [h1, h2, h3]
  | none =>
    cases hl' : lk w'.byAddr ad with
    | none => rfl
    | some id' =>
      obtain ⟨id, a, h1, _, _⟩ := key h' h hr.symm id' hl'
      rw [hl] at h1; cases h1

theorem metaLabel_of_records {w w' : W cr} (h : Inv0 w) (h' : Inv0 w') (hr : w.records = w'.records) (l : String) :
    w.metaLabel l = w'.metaLabel l := by
  have key : ∀ {u u' : W cr}, Inv0 u → Inv0 u' → u.records = u'.records → ∀ id, lk u.byLabel l = some id →
      ∃ id' a, lk u'.byLabel l = some id' ∧ u.deref id = some a ∧ u'.deref id' = some a := by
    intro u u' hu hu' hrr id hl
    obtain ⟨h0, hm, a, ha, haa⟩ := (hu.label l id).mp hl
    have : a ∈ u'.records := by rw [← hrr]; exact mem_records.mpr ⟨id, hm, ha⟩
    obtain ⟨id', hm', ha'⟩ := mem_records.mp this
    exact ⟨id', a, (hu'.label l id').mpr ⟨h0, hm', a, ha', haa⟩, ha, ha'⟩
  unfold W.metaLabel
  split
  · rfl
  · cases hl : lk w.byLabel l with
    | some id =>
      obtain ⟨id', a, h1, h2, h3⟩ := key h h' hr id hl
      simp [h1, h2, h3]
    | none =>
      cases hl' : lk w'.byLabel l with
      | none => rfl
      | some id' =>
        obtain ⟨id, a, h1, _, _⟩ := key h' h hr.symm id' hl'
        rw [hl] at h1; cases h1

theorem metaDefault_of_records {w w' : W cr} (h : Inv0 w) (h' : Inv0 w') (hr : w.records = w'.records) :
    w.metaDefault = w'.metaDefault := by
  have key : ∀ {u u' : W cr}, Inv0 u → Inv0 u' → u.records = u'.records → ∀ id, u.dflt = some id →
      ∃ id' a, u'.dflt = some id' ∧ u.deref id = some a ∧ u'.deref id' = some a := by
    intro u u' hu hu' hrr id hl
    obtain ⟨hm, a, ha, haa⟩ := (hu.dflt id).mp hl
    have : a ∈ u'.records := by rw [← hrr]; exact mem_records.mpr ⟨id, hm, ha⟩
    obtain ⟨id', hm', ha'⟩ := mem_records.mp this
    exact ⟨id', a, (hu'.dflt id').mpr ⟨hm', a, ha', haa⟩, ha, ha'⟩
  unfold W.metaDefault
  cases hl : w.dflt with
  | some id =>
    obtain ⟨id', a, h1, h2, h3⟩ := key h h' hr id hl
    simp [h1, h2, h3]
  | none =>
    cases hl' : w'.dflt with
    | none => rfl
    | some id' =>
      obtain ⟨id, a, h1, _, _⟩ := key h' h hr.symm id' hl'
      rw [hl] at h1; cases h1

/-- two well-indexed clients over the same scrypt parameters and the same record list answer every getter alike -/
theorem obs_of_records {w w' : W cr} (h : Inv0 w) (h' : Inv0 w') (hp : w.prm = w'.prm) (hr : w.records = w'.records) :
    obs w = obs w' := by
  unfold obs
  congr 1
  · show w.byAddr.length = w'.byAddr.length
    rw [h.addrLen, h'.addrLen, ← records_length h, ← records_length h', hr]
  · funext i; rw [metaIndex_eq h, metaIndex_eq h', hr]
  · funext ad; exact metaAddr_of_records h h' hr ad
  · funext l; exact metaLabel_of_records h h' hr l
  · exact metaDefault_of_records h h' hr
  · funext i pw
    rw [openIndex_eq h, openIndex_eq h', hr]
    cases w'.records[i]? with
    | none => rfl
    | some a => simp [W.decrypt, hp]

/-! ### loading -/

def recRel (a b : Acc cr) : Prop :=
  a.addr ≠ b.addr ∧ (a.label ≠ "" → a.label ≠ b.label) ∧ ¬ (a.isDefault = true ∧ b.isDefault = true)

theorem records_pairwise {w : W cr} (h : Inv0 w) : w.records.Pairwise recRel := by
  unfold W.records
  have h1 : w.list.Pairwise (fun i j => i ∈ w.list ∧ j ∈ w.list ∧ i ≠ j) :=
    List.Pairwise.imp_of_mem (fun hi hj hne => ⟨hi, hj, hne⟩) h.listNodup
  refine List.Pairwise.filterMap _ ?_ h1
  rintro i j ⟨hi, hj, hne⟩ a ha b hb
  refine ⟨?_, ?_, ?_⟩
  · intro e
    have e1 := (h.addr a.addr i).mpr ⟨hi, a, ha, rfl⟩
    have e2 := (h.addr a.addr j).mpr ⟨hj, b, hb, e.symm⟩
    rw [e1] at e2; exact hne (Option.some.inj e2)
  · intro h0 e
    have e1 := (h.label a.label i).mpr ⟨h0, hi, a, ha, rfl⟩
    have e2 := (h.label a.label j).mpr ⟨h0, hj, b, hb, e.symm⟩
    rw [e1] at e2; exact hne (Option.some.inj e2)
  · rintro ⟨da, db⟩
    have e1 := (h.dflt i).mpr ⟨hi, a, ha, da⟩
    have e2 := (h.dflt j).mpr ⟨hj, b, hb, db⟩
    rw [e1] at e2; exact hne (Option.some.inj e2)

theorem loadRecs_inv {w : W cr} (h : Inv0 w) (recs : List (Acc cr)) (hpw : recs.Pairwise recRel)
    (hfree : ∀ a ∈ recs, PushOK w a) :
    Inv0 (loadRecs w recs) ∧ (loadRecs w recs).records = w.records ++ recs ∧ (loadRecs w recs).prm = w.prm ∧
      (loadRecs w recs).file = w.file := by
  induction recs generalizing w with
  | nil => simp [loadRecs, h]
  | cons a r ih =>
    simp only [loadRecs]
    have hpa := hfree a (by simp)
    have hi := push_inv h hpa
    rw [List.pairwise_cons] at hpw
    have hfree' : ∀ b ∈ r, PushOK (w.push a) b := by
      intro b hb
      have hpb := hfree b (List.mem_cons_of_mem _ hb)
      obtain ⟨r1, r2, r3⟩ := hpw.1 b hb
      refine ⟨?_, ?_, ?_, hpb.sealOK⟩
      · simp only [push_byAddr, lk_ins, r1, if_false]; exact hpb.addr
      · intro hb0
        simp only [push_byLabel]
        by_cases hl : a.label ≠ ""
        · rw [if_pos hl]
          simp only [lk_ins, r2 hl, if_false]; exact hpb.label hb0
        · rw [if_neg hl]; exact hpb.label hb0
      · intro hbd
        simp only [push_dflt]
        have : ¬ a.isDefault = true := fun e => r3 ⟨e, hbd⟩
        rw [if_neg this]; exact hpb.dflt hbd
    obtain ⟨i1, i2, i3, i4⟩ := ih hi hpw.2 hfree'
    refine ⟨i1, ?_, by rw [i3]; rfl, by rw [i4]; rfl⟩
    rw [i2, records_push h.heapOK a]; simp

/-- reopening a well-indexed wallet whose file mirrors the list gives a well-indexed wallet with the same records -/
theorem load_spec (prm : Nat) (recs : List (Acc cr)) (hpw : recs.Pairwise recRel) (hs : ∀ a ∈ recs, a.Sealed) :
    Inv0 (W.load (some (prm, recs))) ∧ (W.load (some (prm, recs))).records = recs ∧ (W.load (some (prm, recs))).prm = prm ∧
      (W.load (some (prm, recs))).file = some (prm, recs) := by
  unfold W.load
  simp only
  have h0 : Inv0 ({ (W.fresh cr) with prm := prm, file := some (prm, recs) } : W cr) := Inv0.fresh_empty prm _
  obtain ⟨i1, i2, i3, i4⟩ := loadRecs_inv h0 recs hpw
    (fun a ha => ⟨by simp [W.fresh, lk], by simp [W.fresh, lk], by simp [W.fresh], hs a ha⟩)
  exact ⟨i1, by rw [i2]; simp [W.records, W.fresh], i3, i4⟩

/-! ### the full invariant and its preservation -/

structure Inv (w : W cr) : Prop where
  idx : Inv0 w
  dfltSome : w.list ≠ [] → w.dflt.isSome = true
  file : (w.file = none ∧ w.list = [] ∧ w.prm = DEFAULT_PRM) ∨ w.file = some (w.prm, w.records)

theorem Inv0.save {w : W cr} (h : Inv0 w) : Inv0 w.save :=
  ⟨h.fresh, h.listNodup, h.listIn, h.addr, h.addrKeys, h.addrLen, h.label, h.dflt, h.sealOK⟩

theorem Inv.of_saved {w : W cr} (h : Inv0 w) (hd : w.list ≠ [] → w.dflt.isSome = true) : Inv w.save :=
  ⟨h.save, hd, Or.inr rfl⟩

theorem Inv.fresh : Inv (W.fresh cr) := ⟨Inv0.fresh_empty _ _, by simp [W.fresh], Or.inl ⟨rfl, rfl, rfl⟩⟩

/-- reopening: well indexed again, same records, same parameters -/
theorem reload_spec {w : W cr} (h : Inv w) :
    Inv w.reload ∧ w.reload.records = w.records ∧ w.reload.prm = w.prm := by
  unfold W.reload
  rcases h.file with ⟨hf, hl, hp⟩ | hf
  · rw [hf]
    refine ⟨Inv.fresh, ?_, ?_⟩
    · simp [W.load, W.fresh, W.records, hl]
    · simp [W.load, W.fresh, hp]
  · rw [hf]
    obtain ⟨i1, i2, i3, i4⟩ := load_spec w.prm w.records (records_pairwise h.idx)
      (fun a ha => by obtain ⟨id, hm, hd⟩ := mem_records.mp ha; exact h.idx.sealOK id hm a hd)
    refine ⟨⟨i1, ?_, Or.inr (by rw [i4, i3, i2])⟩, i2, i3⟩
    intro hne
    -- the default account of `w` is a record, hence a record of the reloaded wallet, hence its default
    have hlen := records_length i1
    have hlen0 := records_length h.idx
    have hwl : w.list ≠ [] := by
      intro e
      rw [i2, hlen0, e] at hlen
      exact hne (List.length_eq_zero_iff.mp hlen.symm)
    have hds := h.dfltSome hwl
    cases hdd : w.dflt with
    | none => rw [hdd] at hds; cases hds
    | some d =>
      obtain ⟨hm, a, ha, had⟩ := (h.idx.dflt d).mp hdd
      have : a ∈ (W.load (some (w.prm, w.records))).records := by rw [i2]; exact mem_records.mpr ⟨d, hm, ha⟩
      obtain ⟨d', hm', ha'⟩ := mem_records.mp this
      rw [(i1.dflt d').mpr ⟨hm', a, ha', had⟩]; rfl

/-- replacing an object by one with the same address, label and default flag keeps the index valid -/
theorem setObj_inv0 {w : W cr} (h : Inv0 w) {id : Nat} {a a' : Acc cr} (hd : w.deref id = some a)
    (e1 : a'.addr = a.addr) (e2 : a'.label = a.label) (e3 : a'.isDefault = a.isDefault) (e4 : a'.Sealed) :
    Inv0 (w.setObj id a') := by
  have hder := deref_setObj w id
  have key : ∀ (P : Acc cr → Prop), (P a' ↔ P a) → ∀ x,
      (∃ b, (w.setObj id a').deref x = some b ∧ P b) ↔ (∃ b, w.deref x = some b ∧ P b) := by
    intro P hP x
    rw [hder]
    by_cases hx : id = x
    · subst hx
      simp only [if_true, hd]
      constructor
      · rintro ⟨b, hb, pb⟩; cases hb; exact ⟨a, rfl, hP.mp pb⟩
      · rintro ⟨b, hb, pb⟩; cases hb; exact ⟨a', rfl, hP.mpr pb⟩
    · simp [hx]
  refine ⟨?_, h.listNodup, ?_, ?_, h.addrKeys, h.addrLen, ?_, ?_, ?_⟩
  · intro x hx
    rcases mem_ins hx with hx | hx
    · cases hx; exact deref_lt h.heapOK hd
    · exact h.fresh x hx
  · intro x hx
    have := (key (fun _ => True) (by simp) x).mpr (by obtain ⟨b, hb⟩ := h.listIn x hx; exact ⟨b, hb, trivial⟩)
    obtain ⟨b, hb, _⟩ := this; exact ⟨b, hb⟩
  · intro ad x
    show lk w.byAddr ad = some x ↔ (x ∈ w.list ∧ ∃ b, (w.setObj id a').deref x = some b ∧ b.addr = ad)
    rw [key (fun b => b.addr = ad) (by simp [e1]) x]; exact h.addr ad x
  · intro l x
    show lk w.byLabel l = some x ↔ (l ≠ "" ∧ x ∈ w.list ∧ ∃ b, (w.setObj id a').deref x = some b ∧ b.label = l)
    rw [key (fun b => b.label = l) (by simp [e2]) x]; exact h.label l x
  · intro x
    show w.dflt = some x ↔ (x ∈ w.list ∧ ∃ b, (w.setObj id a').deref x = some b ∧ b.isDefault = true)
    rw [key (fun b => b.isDefault = true) (by simp [e3]) x]; exact h.dflt x
  · intro x hx b hb
    rw [hder] at hb
    by_cases hxe : id = x
    · simp only [hxe, if_true, Option.some.injEq] at hb; subst hb; exact e4
    · simp only [hxe, if_false] at hb; exact h.sealOK x hx b hb

theorem addAccountData_inv {w : W cr} (h : Inv w) (a : Acc cr) (hnd : a.isDefault = false) (hs : a.Sealed) :
    Inv (w.addAccountData a).2 := by
  unfold W.addAccountData
  split
  · exact h
  · split
    · exact h
    · split
      · exact h
      · rename_i _ hlab hadr
        have hadr' : lk w.byAddr a.addr = none := by
          cases hl : lk w.byAddr a.addr with
          | none => rfl
          | some x => exact absurd (by simp [hl]) hadr
        simp only
        have hlabel : a.label ≠ "" → lk w.byLabel a.label = none := by
          intro h0
          cases hl : lk w.byLabel a.label with
          | none => rfl
          | some x => exact absurd ⟨h0, by simp [hl]⟩ hlab
        by_cases hemp : w.list.length = 0
        · simp only [hemp, if_true]
          have hle : w.list = [] := List.length_eq_zero_iff.mp hemp
          have hdn : w.dflt = none := by
            cases hdd : w.dflt with
            | none => rfl
            | some d => have := ((h.idx.dflt d).mp hdd).1; rw [hle] at this; cases this
          have hp : PushOK w { a with isDefault := true } :=
            ⟨hadr', hlabel, fun _ => hdn, hs⟩
          exact Inv.of_saved (push_inv h.idx hp) (fun _ => by simp)
        · simp only [hemp, if_false]
          have hp : PushOK w a :=
            ⟨hadr', hlabel, fun e => (by rw [hnd] at e; cases e), hs⟩
          refine Inv.of_saved (push_inv h.idx hp) (fun _ => ?_)
          simp only [push_dflt, hnd]
          exact h.dfltSome (fun e => hemp (by rw [e]; rfl))

theorem changeScheme_inv {w : W cr} (h : Inv w) (addr scheme : Nat) : Inv (w.changeScheme addr scheme).2 := by
  unfold W.changeScheme
  split
  · exact h
  · split
    · exact h
    · rename_i id hl _ a ha
      split
      · exact h
      · exact Inv.of_saved (setObj_inv0 h.idx ha rfl rfl rfl (h.idx.sealOK id ((h.idx.addr _ id).mp hl).1 a ha)) h.dfltSome

theorem changePassword_inv {w : W cr} (h : Inv w) (addr old new salt : Nat) :
    Inv (w.changePassword addr old new salt).2 := by
  unfold W.changePassword
  split
  · exact h
  · split
    · exact h
    · split
      · exact h
      · rename_i id _ a ha
        split
        · exact h
        · split
          · exact h
          · exact Inv.of_saved (setObj_inv0 h.idx ha rfl rfl rfl rfl) h.dfltSome

/-- in a well-indexed wallet `DelAccount(address)` removes exactly the indexed object -/
theorem delFirst_eq {w : W cr} (h : Inv0 w) {addr id : Nat} (hl : lk w.byAddr addr = some id) :
    ∀ l : List Nat, (∀ x ∈ l, x ∈ w.list) → delFirst w addr l = l.erase id := by
  intro l
  induction l with
  | nil => intro _; rfl
  | cons x r ih =>
    intro hsub
    have hx : x ∈ w.list := hsub x (by simp)
    obtain ⟨b, hb⟩ := h.listIn x hx
    simp only [delFirst, hb]
    by_cases he : b.addr = addr
    · have := (h.addr addr x).mpr ⟨hx, b, hb, he⟩
      rw [hl] at this
      have hxe : id = x := Option.some.inj this
      subst hxe
      simp [he]
    · have hne : x ≠ id := by
        intro e; subst e
        obtain ⟨_, c, hc, hca⟩ := (h.addr addr x).mp hl
        rw [hb] at hc; cases hc; exact he hca
      simp only [he, if_false]
      rw [List.erase_cons_tail (by simpa using hne)]
      rw [ih (fun y hy => hsub y (List.mem_cons_of_mem _ hy))]

theorem deleteAccount_inv {w : W cr} (h : Inv w) (addr pw : Nat) : Inv (w.deleteAccount addr pw).2 := by
  unfold W.deleteAccount
  split
  · exact h
  · rename_i id hl
    split
    · exact h
    · rename_i a ha
      split
      · exact h
      · rename_i hnd
        split
        · exact h
        · have hI := h.idx
          obtain ⟨hm, a0, ha0, haa⟩ := (hI.addr addr id).mp hl
          rw [ha] at ha0; cases ha0
          have hdel : delFirst w a.addr w.list = w.list.erase id := by
            rw [← haa] at hl; exact delFirst_eq hI hl w.list (fun x hx => hx)
          have hmem : ∀ x, x ∈ w.list.erase id ↔ (x ∈ w.list ∧ x ≠ id) := by
            intro x; rw [hI.listNodup.mem_erase_iff]; exact And.comm
          -- the state after the operation, spelled out
          let w4 : W cr := (if a.label ≠ "" then
              { ({ ({ w with list := delFirst w addr w.list } : W cr).save with
                  byAddr := ers ({ w with list := delFirst w addr w.list } : W cr).save.byAddr addr } : W cr) with
                byLabel := ers w.byLabel a.label }
            else { ({ w with list := delFirst w addr w.list } : W cr).save with byAddr := ers w.byAddr addr })
          show Inv w4
          have hlist : w4.list = w.list.erase id := by
            simp only [w4]; split <;> (simp only [W.save]; rw [← haa, hdel])
          have hheap : ∀ x, w4.deref x = w.deref x := by
            intro x; simp only [w4]; split <;> rfl
          have hbyA : w4.byAddr = ers w.byAddr addr := by simp only [w4]; split <;> rfl
          have hbyL : w4.byLabel = if a.label ≠ "" then ers w.byLabel a.label else w.byLabel := by
            simp only [w4]; split <;> simp_all [W.save]
          have hdf : w4.dflt = w.dflt := by simp only [w4]; split <;> rfl
          have hnx : w4.next = w.next := by simp only [w4]; split <;> rfl
          have hhp : w4.heap = w.heap := by simp only [w4]; split <;> rfl
          have hfile : w4.file = some (w4.prm, w4.records) := by
            simp only [w4]; split <;> rfl
          have hI4 : Inv0 w4 := by
            refine ⟨?_, ?_, ?_, ?_, ?_, ?_, ?_, ?_, ?_⟩
            · rw [hhp, hnx]; exact hI.fresh
            · rw [hlist]; exact hI.listNodup.erase id
            · intro x hx; rw [hlist, hmem] at hx; rw [hheap]; exact hI.listIn x hx.1
            · intro ad x
              rw [hbyA, lk_ers, hlist, hmem]
              simp only [hheap]
              by_cases hk : addr = ad
              · subst hk
                simp only [if_true]
                constructor
                · intro e; cases e
                · rintro ⟨⟨hx, hne⟩, b, hb, hba⟩
                  have := (hI.addr addr x).mpr ⟨hx, b, hb, hba⟩
                  rw [hl] at this; exact absurd (Option.some.inj this).symm hne
              · simp only [hk, if_false]
                rw [hI.addr ad x]
                constructor
                · rintro ⟨hx, b, hb, hba⟩
                  refine ⟨⟨hx, ?_⟩, b, hb, hba⟩
                  intro e; subst e
                  rw [ha] at hb; cases hb; exact hk (haa.symm.trans hba)
                · rintro ⟨⟨hx, _⟩, b, hb, hba⟩; exact ⟨hx, b, hb, hba⟩
            · rw [hbyA]; exact (ers_sublist _ _).map _ |>.nodup hI.addrKeys
            · rw [hbyA, hlist]
              have := ers_length hI.addrKeys hl
              have h2 := List.length_erase_of_mem hm
              rw [hI.addrLen] at this
              omega
            · intro l x
              rw [hbyL, hlist, hmem]
              simp only [hheap]
              by_cases hl0 : a.label ≠ ""
              · rw [if_pos hl0, lk_ers]
                by_cases hk : a.label = l
                · subst hk
                  simp only [if_true]
                  constructor
                  · intro e; cases e
                  · rintro ⟨_, ⟨hx, hne⟩, b, hb, hbl⟩
                    have e1 := (hI.label a.label x).mpr ⟨hl0, hx, b, hb, hbl⟩
                    have e2 := (hI.label a.label id).mpr ⟨hl0, hm, a, ha, rfl⟩
                    rw [e1] at e2; exact absurd (Option.some.inj e2) hne
                · simp only [hk, if_false]
                  rw [hI.label l x]
                  constructor
                  · rintro ⟨h0, hx, b, hb, hbl⟩
                    refine ⟨h0, ⟨hx, ?_⟩, b, hb, hbl⟩
                    intro e; subst e
                    rw [ha] at hb; cases hb; exact hk hbl
                  · rintro ⟨h0, ⟨hx, _⟩, b, hb, hbl⟩; exact ⟨h0, hx, b, hb, hbl⟩
              · rw [if_neg hl0, hI.label l x]
                have hl0' : a.label = "" := by simpa using hl0
                constructor
                · rintro ⟨h0, hx, b, hb, hbl⟩
                  refine ⟨h0, ⟨hx, ?_⟩, b, hb, hbl⟩
                  intro e; subst e
                  rw [ha] at hb; cases hb; exact h0 (hbl ▸ hl0')
                · rintro ⟨h0, ⟨hx, _⟩, b, hb, hbl⟩; exact ⟨h0, hx, b, hb, hbl⟩
            · intro x
              rw [hdf, hlist, hmem, hI.dflt x]
              simp only [hheap]
              constructor
              · rintro ⟨hx, b, hb, hbd⟩
                refine ⟨⟨hx, ?_⟩, b, hb, hbd⟩
                intro e; subst e
                rw [ha] at hb; cases hb; exact hnd hbd
              · rintro ⟨⟨hx, _⟩, b, hb, hbd⟩; exact ⟨hx, b, hb, hbd⟩
            · intro x hx b hb
              rw [hlist, hmem] at hx; rw [hheap] at hb
              exact hI.sealOK x hx.1 b hb
          refine ⟨hI4, ?_, Or.inr hfile⟩
          intro _
          rw [hdf]
          exact h.dfltSome (fun e => by rw [e] at hm; cases hm)

theorem setLabel_inv {w : W cr} (h : Inv w) (addr : Nat) (label : String) : Inv (w.setLabel addr label).2 := by
  unfold W.setLabel
  split
  · exact h
  · rename_i hfree
    have hfree' : lk w.byLabel label = none := by
      cases hl : lk w.byLabel label with
      | none => rfl
      | some x => exact absurd (by simp [hl]) hfree
    split
    · exact h
    · rename_i id hl
      split
      · exact h
      · rename_i a ha
        split
        · exact h
        · rename_i hne
          have hI := h.idx
          obtain ⟨hm, a0, ha0, haa⟩ := (hI.addr addr id).mp hl
          rw [ha] at ha0; cases ha0
          let a' : Acc cr := { a with label := label }
          let w1 := (w.setObj id a').save
          let w3 : W cr := if label = "" then { w1 with byLabel := ers w1.byLabel a.label }
            else { ({ w1 with byLabel := ers w1.byLabel a.label } : W cr) with byLabel := ins (ers w1.byLabel a.label) label id }
          show Inv w3
          have hder : ∀ x, w3.deref x = if id = x then some a' else w.deref x := by
            intro x; simp only [w3]; split <;> exact deref_setObj w id x a'
          have hlist : w3.list = w.list := by simp only [w3]; split <;> rfl
          have hbyA : w3.byAddr = w.byAddr := by simp only [w3]; split <;> rfl
          have hdf : w3.dflt = w.dflt := by simp only [w3]; split <;> rfl
          have hnx : w3.next = w.next := by simp only [w3]; split <;> rfl
          have hhp : w3.heap = ins w.heap id a' := by simp only [w3]; split <;> rfl
          have hfile : w3.file = some (w3.prm, w3.records) := by simp only [w3]; split <;> rfl
          have hbyL : ∀ l, lk w3.byLabel l = if label ≠ "" ∧ label = l then some id else if a.label = l then none else lk w.byLabel l := by
            intro l
            simp only [w3]
            by_cases hle : label = ""
            · rw [if_pos hle]
              simp only [hle, ne_eq, not_true, false_and, if_false]
              exact lk_ers _ _ _
            · rw [if_neg hle]
              simp only [lk_ins, ne_eq, hle, not_false_iff, true_and]
              by_cases hk : label = l
              · simp [hk]
              · simp only [hk, if_false]; exact lk_ers _ _ _
          -- field-preserving part (address, default flag)
          have key : ∀ (P : Acc cr → Prop), (P a' ↔ P a) → ∀ x,
              (∃ b, w3.deref x = some b ∧ P b) ↔ (∃ b, w.deref x = some b ∧ P b) := by
            intro P hP x
            rw [hder]
            by_cases hx : id = x
            · subst hx
              simp only [if_true, ha]
              constructor
              · rintro ⟨b, hb, pb⟩; cases hb; exact ⟨a, rfl, hP.mp pb⟩
              · rintro ⟨b, hb, pb⟩; cases hb; exact ⟨a', rfl, hP.mpr pb⟩
            · simp [hx]
          have hI3 : Inv0 w3 := by
            refine ⟨?_, ?_, ?_, ?_, ?_, ?_, ?_, ?_, ?_⟩
            · intro x hx
              rw [hhp] at hx; rw [hnx]
              rcases mem_ins hx with hx | hx
              · cases hx; exact deref_lt hI.heapOK ha
              · exact hI.fresh x hx
            · rw [hlist]; exact hI.listNodup
            · intro x hx
              rw [hlist] at hx
              have := (key (fun _ => True) (by simp) x).mpr (by obtain ⟨b, hb⟩ := hI.listIn x hx; exact ⟨b, hb, trivial⟩)
              obtain ⟨b, hb, _⟩ := this; exact ⟨b, hb⟩
            · intro ad x
              rw [hbyA, hlist, key (fun b => b.addr = ad) (by simp [a']) x]; exact hI.addr ad x
            · rw [hbyA]; exact hI.addrKeys
            · rw [hbyA, hlist]; exact hI.addrLen
            · intro l x
              rw [hbyL l, hlist]
              by_cases hk : label ≠ "" ∧ label = l
              · obtain ⟨hk0, hk1⟩ := hk
                subst hk1
                simp only [hk0, ne_eq, not_false_iff, and_self, if_true, Option.some.injEq, true_and]
                constructor
                · intro e; subst e
                  exact ⟨hm, a', by rw [hder]; simp, rfl⟩
                · rintro ⟨hx, b, hb, hbl⟩
                  rw [hder] at hb
                  by_cases hxe : id = x
                  · exact hxe
                  · simp only [hxe, if_false] at hb
                    have := (hI.label label x).mpr ⟨hk0, hx, b, hb, hbl⟩
                    rw [hfree'] at this; cases this
              · rw [if_neg hk]
                by_cases hk2 : a.label = l
                · subst hk2
                  simp only [if_true]
                  constructor
                  · intro e; cases e
                  · rintro ⟨h0, hx, b, hb, hbl⟩
                    rw [hder] at hb
                    by_cases hxe : id = x
                    · simp only [hxe, if_true, Option.some.injEq] at hb
                      subst hb
                      exact (hne hbl.symm).elim
                    · simp only [hxe, if_false] at hb
                      have e1 := (hI.label a.label x).mpr ⟨h0, hx, b, hb, hbl⟩
                      have e2 := (hI.label a.label id).mpr ⟨h0, hm, a, ha, rfl⟩
                      rw [e1] at e2; exact (hxe (Option.some.inj e2).symm).elim
                · simp only [hk2, if_false]
                  rw [hI.label l x]
                  constructor
                  · rintro ⟨h0, hx, b, hb, hbl⟩
                    refine ⟨h0, hx, b, ?_, hbl⟩
                    rw [hder]
                    have : ¬ id = x := by
                      intro e; subst e
                      rw [ha] at hb; cases hb; exact hk2 hbl
                    simp [this, hb]
                  · rintro ⟨h0, hx, b, hb, hbl⟩
                    rw [hder] at hb
                    by_cases hxe : id = x
                    · simp only [hxe, if_true, Option.some.injEq] at hb
                      subst hb
                      have e : label = l := hbl
                      exact absurd ⟨by rw [e]; exact h0, e⟩ hk
                    · simp only [hxe, if_false] at hb
                      exact ⟨h0, hx, b, hb, hbl⟩
            · intro x
              rw [hdf, hlist, key (fun b => b.isDefault = true) (by simp [a']) x]; exact hI.dflt x
            · intro x hx b hb
              rw [hlist] at hx; rw [hder] at hb
              by_cases hxe : id = x
              · simp only [hxe, if_true, Option.some.injEq] at hb
                subst hb
                exact hI.sealOK id hm a ha
              · simp only [hxe, if_false] at hb; exact hI.sealOK x hx b hb
          refine ⟨hI3, ?_, Or.inr hfile⟩
          rw [hlist, hdf]; exact h.dfltSome

/-- object update that may change the default flag, together with a new `defaultAcc` that matches the new flags -/
theorem setObj_dflt_inv0 {w : W cr} (h : Inv0 w) {id : Nat} {a a' : Acc cr} (hd : w.deref id = some a)
    (e1 : a'.addr = a.addr) (e2 : a'.label = a.label) (e4 : a'.Sealed) (df : Option Nat)
    (hdf : ∀ x, df = some x ↔ (x ∈ w.list ∧ ∃ b, (w.setObj id a').deref x = some b ∧ b.isDefault = true)) :
    Inv0 ({ (w.setObj id a') with dflt := df } : W cr) := by
  have hder := deref_setObj w id
  have key : ∀ (P : Acc cr → Prop), (P a' ↔ P a) → ∀ x,
      (∃ b, (w.setObj id a').deref x = some b ∧ P b) ↔ (∃ b, w.deref x = some b ∧ P b) := by
    intro P hP x
    rw [hder]
    by_cases hx : id = x
    · subst hx
      simp only [if_true, hd]
      constructor
      · rintro ⟨b, hb, pb⟩; cases hb; exact ⟨a, rfl, hP.mp pb⟩
      · rintro ⟨b, hb, pb⟩; cases hb; exact ⟨a', rfl, hP.mpr pb⟩
    · simp [hx]
  refine ⟨?_, h.listNodup, ?_, ?_, h.addrKeys, h.addrLen, ?_, hdf, ?_⟩
  · intro x hx
    rcases mem_ins hx with hx | hx
    · cases hx; exact deref_lt h.heapOK hd
    · exact h.fresh x hx
  · intro x hx
    have := (key (fun _ => True) (by simp) x).mpr (by obtain ⟨b, hb⟩ := h.listIn x hx; exact ⟨b, hb, trivial⟩)
    obtain ⟨b, hb, _⟩ := this; exact ⟨b, hb⟩
  · intro ad x
    show lk w.byAddr ad = some x ↔ (x ∈ w.list ∧ ∃ b, (w.setObj id a').deref x = some b ∧ b.addr = ad)
    rw [key (fun b => b.addr = ad) (by simp [e1]) x]; exact h.addr ad x
  · intro l x
    show lk w.byLabel l = some x ↔ (l ≠ "" ∧ x ∈ w.list ∧ ∃ b, (w.setObj id a').deref x = some b ∧ b.label = l)
    rw [key (fun b => b.label = l) (by simp [e2]) x]; exact h.label l x
  · intro x hx b hb
    show b.Sealed
    have hb' : (w.setObj id a').deref x = some b := hb
    rw [hder] at hb'
    by_cases hxe : id = x
    · simp only [hxe, if_true, Option.some.injEq] at hb'; subst hb'; exact e4
    · simp only [hxe, if_false] at hb'; exact h.sealOK x hx b hb'

theorem setDefault_inv {w : W cr} (h : Inv w) (addr : Nat) : Inv (w.setDefault addr).2 := by
  unfold W.setDefault
  split
  · exact h
  · rename_i halr
    split
    · exact h
    · rename_i id hl
      split
      · exact h
      · rename_i a ha
        have hI := h.idx
        obtain ⟨hm, a0, ha0, haa⟩ := (hI.addr addr id).mp hl
        rw [ha] at ha0; cases ha0
        have hds := h.dfltSome (fun e => by rw [e] at hm; cases hm)
        cases hdd : w.dflt with
        | none => rw [hdd] at hds; cases hds
        | some d =>
          obtain ⟨hmd, o, ho, hod⟩ := (hI.dflt d).mp hdd
          have hoa : ¬ o.addr = addr := by
            intro e
            apply halr
            simp [W.defaultAddrIs, hdd, ho, e]
          have hdi : d ≠ id := by
            intro e; subst e
            rw [ha] at ho; cases ho; exact hoa haa
          have hclr : w.clearDefault = w.setObj d { o with isDefault := false } := by
            simp [W.clearDefault, hdd, ho]
          rw [hclr]
          -- step 1: the old default loses its flag
          have s1 : Inv0 ({ (w.setObj d { o with isDefault := false }) with dflt := none } : W cr) := by
            apply setObj_dflt_inv0 (a' := { o with isDefault := false }) hI ho rfl rfl (hI.sealOK d hmd o ho)
            intro x
            constructor
            · intro e; cases e
            · rintro ⟨hx, b, hb, hbd⟩
              rw [deref_setObj] at hb
              by_cases hxe : d = x
              · simp only [hxe, if_true, Option.some.injEq] at hb; subst hb; cases hbd
              · simp only [hxe, if_false] at hb
                have := (hI.dflt x).mpr ⟨hx, b, hb, hbd⟩
                rw [hdd] at this; exact (hxe (Option.some.inj this)).elim
          have hd1 : (w.setObj d { o with isDefault := false }).deref id = some a := by
            rw [deref_setObj]; simp [hdi, ha]
          simp only [hd1]
          -- step 2: the chosen account gains it
          have s2 : Inv0 ({ (({ (w.setObj d { o with isDefault := false }) with dflt := none } : W cr).setObj id { a with isDefault := true })
              with dflt := some id } : W cr) := by
            apply setObj_dflt_inv0 (a' := { a with isDefault := true }) s1 (a := a) hd1 rfl rfl (hI.sealOK id hm a ha)
            intro x
            simp only [Option.some.injEq]
            constructor
            · intro e; subst e
              exact ⟨hm, { a with isDefault := true }, by rw [deref_setObj]; simp, rfl⟩
            · rintro ⟨hx, b, hb, hbd⟩
              rw [deref_setObj] at hb
              by_cases hxe : id = x
              · exact hxe
              · simp only [hxe, if_false] at hb
                have := (s1.dflt x).mpr ⟨hx, b, hb, hbd⟩
                cases this
          exact Inv.of_saved s2 (fun _ => rfl)


theorem step_inv {w : W cr} (h : Inv w) (op : Op) : Inv (w.step op).2 := by
  cases op with
  | new l s p sk a sa =>
    simp only [W.step, W.newAccount]
    split
    · exact h
    · exact addAccountData_inv h _ rfl rfl
  | imp l al s p sk a sa m d => exact addAccountData_inv h _ rfl rfl
  | del a p => exact deleteAccount_inv h a p
  | setDefault a => exact setDefault_inv h a
  | setLabel a l => exact setLabel_inv h a l
  | changePw a o n sa => exact changePassword_inv h a o n sa
  | changeScheme a s => exact changeScheme_inv h a s
  | reload => exact (reload_spec h).1
  | openOther m => exact h

theorem run_inv {w : W cr} (h : Inv w) (ops : List Op) : Inv (W.run w ops) := by
  induction ops generalizing w with
  | nil => exact h
  | cons op r ih => exact ih (step_inv h op)

/-- a wallet opened from a file with parameters `prm` and no accounts -/
theorem Inv.load_empty (prm : Nat) : Inv (W.load (some (prm, [])) : W cr) := by
  obtain ⟨i1, i2, i3, i4⟩ := load_spec (cr := cr) prm [] List.Pairwise.nil (by simp)
  refine ⟨i1, ?_, Or.inr (by rw [i4, i3, i2])⟩
  intro hne
  have := records_length i1
  rw [i2] at this
  exact absurd (List.length_eq_zero_iff.mp this.symm) hne

theorem push_heapOK {w : W cr} (h : HeapOK w) (a : Acc cr) : HeapOK (w.push a) := by
  have hd := deref_push w h a
  refine ⟨?_, ?_⟩
  · intro x hx
    simp only [push_heap, push_next, List.mem_append, List.mem_singleton] at hx ⊢
    rcases hx with hx | hx
    · have := h.fresh x hx; omega
    · subst hx; simp
  · intro id hid
    simp only [push_list, List.mem_append, List.mem_singleton] at hid
    rw [hd]
    rcases hid with hid | hid
    · obtain ⟨b, hb⟩ := h.listIn id hid
      by_cases he : id = w.next
      · exact ⟨a, by simp [he]⟩
      · exact ⟨b, by simp [he, hb]⟩
    · exact ⟨a, by simp [hid]⟩

/-- `load()` rebuilds exactly the record list it reads, whatever the records are -/
theorem loadRecs_records {w : W cr} (h : HeapOK w) (recs : List (Acc cr)) :
    (loadRecs w recs).records = w.records ++ recs ∧ (loadRecs w recs).file = w.file ∧ (loadRecs w recs).prm = w.prm := by
  induction recs generalizing w with
  | nil => simp [loadRecs]
  | cons a r ih =>
    simp only [loadRecs]
    obtain ⟨i1, i2, i3⟩ := ih (push_heapOK h a)
    refine ⟨?_, by rw [i2]; rfl, by rw [i3]; rfl⟩
    rw [i1, records_push h a]; simp

/-- the persisted file always mirrors the in-memory list (needs no index invariant) -/
def FileOK (w : W cr) : Prop := (w.file = none ∧ w.list = []) ∨ w.file = some (w.prm, w.records)

theorem step_fileOK {w : W cr} (h : FileOK w) (op : Op) : FileOK (w.step op).2 := by
  have hs : ∀ u : W cr, FileOK u.save := fun u => Or.inr rfl
  cases op with
  | new l s p sk a sa =>
    simp only [W.step, W.newAccount, W.addAccountData]
    repeat' split
    all_goals first | exact h | exact hs _
  | imp l al s p sk a sa m d =>
    simp only [W.step, W.importAccount, W.addAccountData]
    repeat' split
    all_goals first | exact h | exact hs _
  | del a p =>
    simp only [W.step, W.deleteAccount]
    repeat' split
    all_goals first | exact h | exact Or.inr rfl
  | setDefault a =>
    simp only [W.step, W.setDefault]
    repeat' split
    all_goals first | exact h | exact hs _
  | setLabel a l =>
    simp only [W.step, W.setLabel]
    repeat' split
    all_goals first | exact h | exact Or.inr rfl
  | changePw a o n sa =>
    simp only [W.step, W.changePassword]
    repeat' split
    all_goals first | exact h | exact hs _
  | changeScheme a s =>
    simp only [W.step, W.changeScheme]
    repeat' split
    all_goals first | exact h | exact hs _
  | openOther m => exact h
  | reload =>
    simp only [W.step, W.reload]
    rcases h with ⟨hf, hl⟩ | hf
    · rw [hf]; exact Or.inl ⟨rfl, rfl⟩
    · rw [hf]
      obtain ⟨i1, i2, i3⟩ := loadRecs_records (w := { (W.fresh cr) with prm := w.prm, file := some (w.prm, w.records) })
        ⟨by simp [W.fresh], by simp [W.fresh]⟩ w.records
      refine Or.inr ?_
      simp only [W.load]
      rw [i2, i3, i1]
      simp [W.records, W.fresh]


/-- at most one record carries the default flag -/
theorem flagged_le_one {l : List (Acc cr)} (h : l.Pairwise recRel) : (l.filter (·.isDefault)).length ≤ 1 := by
  induction l with
  | nil => simp
  | cons a r ih =>
    rw [List.pairwise_cons] at h
    rw [List.filter_cons]
    split
    · rename_i ha
      have : r.filter (·.isDefault) = [] := by
        rw [List.filter_eq_nil_iff]
        intro b hb hbd
        exact (h.1 b hb).2.2 ⟨ha, hbd⟩
      simp [this]
    · exact ih h.2

/-- exactly one record is flagged default in a non-empty wallet, none in an empty one, and it is the one `defaultAcc` points to -/
theorem single_default {w : W cr} (h : Inv w) :
    (w.records.filter (·.isDefault)).length = (if w.records = [] then 0 else 1) ∧
    ∀ a ∈ w.records, a.isDefault = true → w.metaDefault = some a.meta := by
  have hle := flagged_le_one (records_pairwise h.idx)
  have hlen := records_length h.idx
  refine ⟨?_, ?_⟩
  · split
    · rename_i he; simp [he]
    · rename_i hne
      have hl : w.list ≠ [] := by
        intro e; apply hne
        exact List.length_eq_zero_iff.mp (by rw [hlen, e]; rfl)
      have hs := h.dfltSome hl
      cases hd : w.dflt with
      | none => rw [hd] at hs; cases hs
      | some d =>
        obtain ⟨hm, a, ha, had⟩ := (h.idx.dflt d).mp hd
        have : a ∈ w.records.filter (·.isDefault) := List.mem_filter.mpr ⟨mem_records.mpr ⟨d, hm, ha⟩, had⟩
        have : 0 < (w.records.filter (·.isDefault)).length := List.length_pos_of_mem this
        omega
  · intro a ha had
    obtain ⟨id, hm, hd⟩ := mem_records.mp ha
    have := (h.idx.dflt id).mpr ⟨hm, a, hd, had⟩
    simp [W.metaDefault, this, hd]


/-- no operation changes the wallet's scrypt parameters -/
theorem step_prm {w : W cr} (h : Inv w) (op : Op) : (w.step op).2.prm = w.prm := by
  cases op with
  | new l s p sk a sa =>
    simp only [W.step, W.newAccount, W.addAccountData]
    repeat' split
    all_goals rfl
  | imp l al s p sk a sa m d =>
    simp only [W.step, W.importAccount, W.addAccountData]
    repeat' split
    all_goals rfl
  | del a p =>
    simp only [W.step, W.deleteAccount]
    repeat' split
    all_goals rfl
  | setDefault a =>
    simp only [W.step, W.setDefault, W.clearDefault]
    repeat' split
    all_goals rfl
  | setLabel a l =>
    simp only [W.step, W.setLabel]
    repeat' split
    all_goals rfl
  | changePw a o n sa =>
    simp only [W.step, W.changePassword]
    repeat' split
    all_goals rfl
  | changeScheme a s =>
    simp only [W.step, W.changeScheme]
    repeat' split
    all_goals rfl
  | reload => exact (reload_spec h).2.2
  | openOther m => rfl

theorem run_prm {w : W cr} (h : Inv w) (ops : List Op) : (W.run w ops).prm = w.prm := by
  induction ops generalizing w with
  | nil => rfl
  | cons op r ih =>
    simp only [W.run]
    rw [ih (step_inv h op), step_prm h op]

end OntVerif.Proofs.Wallet
