import OntVerif.Proofs.MerkleA
namespace OntVerif.Proofs.Merkle
open OntVerif.Util OntVerif.Model.Merkle

theorem odd_mul (n p : Nat) (h : n % 2 = 1) : n * p = (n / 2) * (2 * p) + p := by
  obtain ⟨q, rfl⟩ : ∃ q, n = 2 * q + 1 := ⟨n / 2, by omega⟩
  have : (2 * q + 1) / 2 = q := by omega
  rw [this, Nat.add_mul, Nat.one_mul, Nat.mul_comm 2 q, Nat.mul_assoc]

theorem even_mul (n p : Nat) (h : n % 2 = 0) : n * p = (n / 2) * (2 * p) := by
  obtain ⟨q, rfl⟩ : ∃ q, n = 2 * q := ⟨n / 2, by omega⟩
  have : (2 * q) / 2 = q := by omega
  rw [this, Nat.mul_comm 2 q, Nat.mul_assoc]

section
variable {Hash : Type} (H1 : Hash → Hash → Hash) (He : Hash)

/-- the compact `hashes` reversed (smallest subtree first) for `n` blocks of `2^j` leaves: `|L| = n * 2^j` -/
def specR (n : Nat) (L : List Hash) (j : Nat) : List Hash :=
  if h : n = 0 then [] else
  if n % 2 = 1 then
    mth H1 He (L.drop (L.length - 2 ^ j)) :: specR (n / 2) (L.take (L.length - 2 ^ j)) (j + 1)
  else specR (n / 2) L (j + 1)
termination_by n
decreasing_by all_goals omega

/-- post-order sequence of all node hashes of a perfect subtree of `2^j` leaves (what the hash store holds for it) -/
def post : Nat → List Hash → List Hash
  | 0, B => B
  | j + 1, B => post j (B.take (2 ^ j)) ++ post j (B.drop (2 ^ j)) ++ [mth H1 He B]

/-- the hash store content for `n` blocks of `2^j` leaves, largest block first -/
def layoutR (n : Nat) (L : List Hash) (j : Nat) : List Hash :=
  if h : n = 0 then [] else
  if n % 2 = 1 then
    layoutR (n / 2) (L.take (L.length - 2 ^ j)) (j + 1) ++ post H1 He j (L.drop (L.length - 2 ^ j))
  else layoutR (n / 2) L (j + 1)
termination_by n
decreasing_by all_goals omega

theorem specR_zero (L : List Hash) (j : Nat) : specR H1 He 0 L j = [] := by
  rw [specR]; simp
theorem layoutR_zero (L : List Hash) (j : Nat) : layoutR H1 He 0 L j = [] := by
  rw [layoutR]; simp

theorem specR_odd (n : Nat) (L : List Hash) (j : Nat) (h : n % 2 = 1) :
    specR H1 He n L j =
      mth H1 He (L.drop (L.length - 2 ^ j)) :: specR H1 He (n / 2) (L.take (L.length - 2 ^ j)) (j + 1) := by
  rw [specR]; simp [h, show n ≠ 0 by omega]
theorem specR_even (n : Nat) (L : List Hash) (j : Nat) (h : n % 2 = 0) :
    specR H1 He n L j = specR H1 He (n / 2) L (j + 1) := by
  by_cases h0 : n = 0
  · subst h0; simp [specR_zero]
  · rw [specR]; simp [h, h0]
theorem layoutR_odd (n : Nat) (L : List Hash) (j : Nat) (h : n % 2 = 1) :
    layoutR H1 He n L j =
      layoutR H1 He (n / 2) (L.take (L.length - 2 ^ j)) (j + 1) ++ post H1 He j (L.drop (L.length - 2 ^ j)) := by
  rw [layoutR]; simp [h, show n ≠ 0 by omega]
theorem layoutR_even (n : Nat) (L : List Hash) (j : Nat) (h : n % 2 = 0) :
    layoutR H1 He n L j = layoutR H1 He (n / 2) L (j + 1) := by
  by_cases h0 : n = 0
  · subst h0; simp [layoutR_zero]
  · rw [layoutR]; simp [h, h0]

theorem post_succ_append (j : Nat) (B X : List Hash) (hB : B.length = 2 ^ j) :
    post H1 He (j + 1) (B ++ X) = post H1 He j B ++ post H1 He j X ++ [mth H1 He (B ++ X)] := by
  simp [post, ← hB]

/-- the merge loop of `AppendHash`: from the spec state for `(n, L)` and a carried full block `X` to the spec state
for `(n+1, L ++ X)`, and the nodes written to the store complete the layout -/
theorem appLoop_spec (n : Nat) : ∀ (j : Nat) (L X : List Hash) (f : Nat), n < f → L.length = n * 2 ^ j → X.length = 2 ^ j →
    ∃ r top w, appLoop H1 f n (specR H1 He n L j) (mth H1 He X) = some (r, top, w) ∧
      top :: r = specR H1 He (n + 1) (L ++ X) j ∧
      layoutR H1 He n L j ++ post H1 He j X ++ w = layoutR H1 He (n + 1) (L ++ X) j := by
  induction n using Nat.strongRecOn with
  | _ n ih =>
    intro j L X f hf hL hX
    have hp := Nat.two_pow_pos j
    obtain ⟨f, rfl⟩ : ∃ f', f = f' + 1 := ⟨f - 1, by omega⟩
    by_cases hodd : n % 2 = 1
    · -- merge with the last block
      have hLl : L.length = (n / 2) * (2 * 2 ^ j) + 2 ^ j := by rw [hL]; exact odd_mul n _ hodd
      rw [specR_odd H1 He n L j hodd]
      simp only [appLoop, hodd, if_true]
      have hB : (L.drop (L.length - 2 ^ j)).length = 2 ^ j := by rw [List.length_drop]; omega
      have hL' : (L.take (L.length - 2 ^ j)).length = (n / 2) * 2 ^ (j + 1) := by
        rw [List.length_take, Nat.pow_succ, Nat.mul_comm (2 ^ j) 2]; omega
      have hBX : (L.drop (L.length - 2 ^ j) ++ X).length = 2 ^ (j + 1) := by
        rw [List.length_append, hB, hX, Nat.pow_succ]; omega
      rw [← mth_append H1 He _ X j hB (by omega) (by omega)]
      obtain ⟨r, top, w, h1, h2, h3⟩ := ih (n / 2) (by omega) (j + 1) (L.take (L.length - 2 ^ j))
        (L.drop (L.length - 2 ^ j) ++ X) f (by omega) hL' hBX
      rw [h1]
      have e2 : L.take (L.length - 2 ^ j) ++ (L.drop (L.length - 2 ^ j) ++ X) = L ++ X := by
        rw [← List.append_assoc, List.take_append_drop]
      rw [e2] at h2 h3
      have e : (n + 1) / 2 = n / 2 + 1 := by omega
      refine ⟨r, top, _, rfl, ?_, ?_⟩
      · rw [h2, specR_even H1 He (n + 1) (L ++ X) j (by omega), e]
      · rw [layoutR_odd H1 He n L j hodd, layoutR_even H1 He (n + 1) (L ++ X) j (by omega)]
        rw [e, ← h3, post_succ_append H1 He j _ X hB]
        simp
    · have heven : n % 2 = 0 := by omega
      simp only [appLoop, hodd, if_false]
      refine ⟨_, _, _, rfl, ?_, ?_⟩
      · rw [specR_odd H1 He (n + 1) (L ++ X) j (by omega)]
        have e1 : (L ++ X).length - 2 ^ j = L.length := by rw [List.length_append]; omega
        have e : (n + 1) / 2 = n / 2 := by omega
        rw [e1, e, List.drop_left, List.take_left, specR_even H1 He n L j heven]
      · rw [layoutR_odd H1 He (n + 1) (L ++ X) j (by omega)]
        have e1 : (L ++ X).length - 2 ^ j = L.length := by rw [List.length_append]; omega
        have e : (n + 1) / 2 = n / 2 := by omega
        rw [e1, e, List.drop_left, List.take_left, layoutR_even H1 He n L j heven]
        simp

theorem foldR_cons (acc h : Hash) (t : List Hash) : foldR H1 acc (h :: t) = foldR H1 (H1 h acc) t := rfl

/-- `_hash_fold` continued from an accumulated right part `X` of at most `2^j` leaves -/
theorem foldR_carry (n : Nat) : ∀ (j : Nat) (L X : List Hash), L.length = n * 2 ^ j → 0 < X.length → X.length ≤ 2 ^ j →
    foldR H1 (mth H1 He X) (specR H1 He n L j) = mth H1 He (L ++ X) := by
  induction n using Nat.strongRecOn with
  | _ n ih =>
    intro j L X hL hX0 hX
    have hp := Nat.two_pow_pos j
    by_cases h0 : n = 0
    · subst h0
      have : L = [] := List.eq_nil_of_length_eq_zero (by omega)
      subst this
      simp [specR_zero, foldR]
    by_cases hodd : n % 2 = 1
    · have hLl : L.length = (n / 2) * (2 * 2 ^ j) + 2 ^ j := by rw [hL]; exact odd_mul n _ hodd
      have hB : (L.drop (L.length - 2 ^ j)).length = 2 ^ j := by rw [List.length_drop]; omega
      have hL' : (L.take (L.length - 2 ^ j)).length = (n / 2) * 2 ^ (j + 1) := by
        rw [List.length_take, Nat.pow_succ, Nat.mul_comm (2 ^ j) 2]; omega
      rw [specR_odd H1 He n L j hodd, foldR_cons, ← mth_append H1 He _ X j hB hX0 hX,
        ih (n / 2) (by omega) (j + 1) _ _ hL' (by rw [List.length_append]; omega)
          (by rw [List.length_append, hB, Nat.pow_succ]; omega),
        ← List.append_assoc, List.take_append_drop]
    · have heven : n % 2 = 0 := by omega
      rw [specR_even H1 He n L j heven]
      exact ih (n / 2) (by omega) (j + 1) L X (by rw [hL, Nat.pow_succ, Nat.mul_comm (2 ^ j) 2]; exact even_mul n _ heven)
        hX0 (by rw [Nat.pow_succ]; omega)

theorem hashFold_spec (n : Nat) : ∀ (j : Nat) (L : List Hash), 0 < n → L.length = n * 2 ^ j →
    hashFold H1 (specR H1 He n L j).reverse = some (mth H1 He L) := by
  induction n using Nat.strongRecOn with
  | _ n ih =>
    intro j L h0 hL
    have hp := Nat.two_pow_pos j
    by_cases hodd : n % 2 = 1
    · have hLl : L.length = (n / 2) * (2 * 2 ^ j) + 2 ^ j := by rw [hL]; exact odd_mul n _ hodd
      have hB : (L.drop (L.length - 2 ^ j)).length = 2 ^ j := by rw [List.length_drop]; omega
      have hL' : (L.take (L.length - 2 ^ j)).length = (n / 2) * 2 ^ (j + 1) := by
        rw [List.length_take, Nat.pow_succ, Nat.mul_comm (2 ^ j) 2]; omega
      rw [specR_odd H1 He n L j hodd]
      simp only [hashFold, List.reverse_reverse]
      rw [foldR_carry H1 He (n / 2) (j + 1) _ _ hL' (by omega) (by rw [hB, Nat.pow_succ]; omega), List.take_append_drop]
    · have heven : n % 2 = 0 := by omega
      rw [specR_even H1 He n L j heven]
      exact ih (n / 2) (by omega) (j + 1) L (by omega)
        (by rw [hL, Nat.pow_succ, Nat.mul_comm (2 ^ j) 2]; exact even_mul n _ heven)

/-- number of blocks = `countBit` -/
theorem specR_length (f : Nat) : ∀ (n j : Nat) (L : List Hash), n ≤ f → (specR H1 He n L j).length = popF f n := by
  induction f with
  | zero => intro n j L h; have : n = 0 := by omega
            subst this; simp [specR_zero, popF]
  | succ f ih =>
    intro n j L h
    by_cases h0 : n = 0
    · subst h0; simp [specR_zero, popF]
    by_cases hodd : n % 2 = 1
    · rw [specR_odd H1 He n L j hodd]; simp [popF, h0, hodd, ih (n / 2) (j + 1) _ (by omega)]; omega
    · have heven : n % 2 = 0 := by omega
      rw [specR_even H1 He n L j heven]; simp [popF, h0, heven, ih (n / 2) (j + 1) _ (by omega)]

/-- the state of a `CompactMerkleTree` that holds exactly the leaves `L` -/
structure Holds (t : Tree Hash) (L : List Hash) : Prop where
  size : t.size = L.length
  hashes : t.hashes = (specR H1 He L.length L 0).reverse
  store : ∀ s, t.store = some s → s = layoutR H1 He L.length L 0

theorem holds_empty (st : Option (List Hash)) (h : st = none ∨ st = some []) :
    Holds H1 He (⟨0, [], st⟩ : Tree Hash) [] := by
  refine ⟨rfl, by simp [specR_zero], ?_⟩
  intro s hs
  rcases h with h | h <;> simp [h] at hs
  subst hs
  simp [layoutR_zero]

theorem holds_append (t : Tree Hash) (L : List Hash) (x : Hash) (h : Holds H1 He t L) :
    ∃ t' audit, t.appendHash H1 x = some (t', audit) ∧ Holds H1 He t' (L ++ [x]) ∧
      (t'.store = none ↔ t.store = none) := by
  obtain ⟨r, top, w, h1, h2, h3⟩ := appLoop_spec H1 He L.length 0 L [x] (L.length + 1) (by omega) (by simp) (by simp)
  unfold Tree.appendHash
  rw [h.size, h.hashes, List.reverse_reverse]
  rw [mth_single] at h1
  rw [h1]
  refine ⟨_, _, rfl, ⟨by simp, ?_, ?_⟩, ?_⟩
  · simp only [List.length_append, List.length_singleton]; rw [← h2]
  · intro s hs
    simp only [Option.map_eq_some_iff] at hs
    obtain ⟨s0, hs0, rfl⟩ := hs
    rw [h.store s0 hs0]
    simp only [List.length_append, List.length_singleton]
    rw [← h3]; simp [post]
  · simp

theorem holds_appendAll (Ls : List Hash) : ∀ (t : Tree Hash) (L : List Hash), Holds H1 He t L →
    ∃ t', t.appendAll H1 Ls = some t' ∧ Holds H1 He t' (L ++ Ls) ∧ (t'.store = none ↔ t.store = none) := by
  induction Ls with
  | nil => intro t L h; exact ⟨t, rfl, by simpa using h, Iff.rfl⟩
  | cons x r ih =>
    intro t L h
    obtain ⟨t1, a, h1, h2, h3⟩ := holds_append H1 He t L x h
    obtain ⟨t2, h4, h5, h6⟩ := ih t1 (L ++ [x]) h2
    refine ⟨t2, ?_, by simpa using h5, h6.trans h3⟩
    simp [Tree.appendAll, h1, h4]

theorem holds_root (t : Tree Hash) (L : List Hash) (h : Holds H1 He t L) : t.root H1 He = mth H1 He L := by
  unfold Tree.root
  rw [h.hashes]
  by_cases h0 : L.length = 0
  · have : L = [] := List.eq_nil_of_length_eq_zero h0
    subst this
    simp [specR_zero, hashFold]
  · rw [hashFold_spec H1 He L.length 0 L (by omega) (by simp)]

theorem holds_hashes_length (t : Tree Hash) (L : List Hash) (h : Holds H1 He t L) :
    t.hashes.length = countBit t.size := by
  rw [h.hashes, h.size, List.length_reverse, countBit]
  exact specR_length H1 He L.length L.length 0 L (Nat.le_refl _)

end
end OntVerif.Proofs.Merkle
