import OntVerif.Model.EvmTx
/-! Helper lemmas for C07 (core Lean only): invariants of effect traces with snapshots, sums over account lists. -/
namespace OntVerif.Proofs.EvmTx
open OntVerif.Model.EvmTx

variable {σ : Type} {v : Variant}

def Eff.isBase : Eff σ → Bool
  | .snapshot | .revert _ | .discard _ => false
  | _ => true

/-- `P` holds of the live state and of every saved snapshot — unless a DB error has been recorded -/
def OK (P : St σ → List Addr → Prop) (m : MSt σ) : Prop :=
  m.dbErr = true ∨ (P m.st m.suicided ∧ ∀ x ∈ m.snaps, P x.1 x.2)

/-- what a base effect must satisfy to preserve `P` -/
def StepOK (v : Variant) (P : St σ → List Addr → Prop) (e : Eff σ) : Prop :=
  ∀ m : MSt σ, P m.st m.suicided → (applyEff v m e).dbErr = true ∨ P (applyEff v m e).st (applyEff v m e).suicided

theorem subBal_dbErr_mono (m : MSt σ) (a : Addr) (v : Nat) (h : m.dbErr = true) : (subBal m a v).dbErr = true := by
  unfold subBal; split <;> simp [h]

theorem applyEff_dbErr_mono (m : MSt σ) (e : Eff σ) (h : m.dbErr = true) : (applyEff v m e).dbErr = true := by
  cases e <;> simp [applyEff, transfer, addBal, h, subBal_dbErr_mono]
  all_goals (split <;> first | rfl | exact h | simp [h])

theorem applyEff_base_snaps (m : MSt σ) (e : Eff σ) (hb : Eff.isBase e = true) : (applyEff v m e).snaps = m.snaps := by
  cases e <;> simp [Eff.isBase] at hb <;> simp [applyEff, transfer, addBal, subBal]
  all_goals (split <;> rfl)

theorem applyEff_ok (P : St σ → List Addr → Prop) (m : MSt σ) (e : Eff σ)
    (hs : Eff.isBase e = true → StepOK v P e) (h : OK P m) : OK P (applyEff v m e) := by
  rcases h with h | ⟨hp, hsn⟩
  · exact Or.inl (applyEff_dbErr_mono m e h)
  · by_cases hb : Eff.isBase e = true
    · rcases hs hb m hp with h1 | h1
      · exact Or.inl h1
      · refine Or.inr ⟨h1, ?_⟩
        rw [applyEff_base_snaps m e hb]; exact hsn
    · cases e <;> simp [Eff.isBase] at hb
      · -- snapshot
        refine Or.inr ⟨hp, ?_⟩
        intro x hx
        simp [applyEff] at hx
        rcases hx with hx | hx
        · exact hsn x hx
        · subst hx; exact hp
      · -- revert
        next k =>
        simp only [applyEff]
        split
        · next s su hk =>
          have hm : (s, su) ∈ m.snaps := List.mem_of_getElem? hk
          refine Or.inr ⟨hsn _ hm, ?_⟩
          intro x hx; exact hsn x (List.mem_of_mem_take hx)
        · exact Or.inr ⟨hp, hsn⟩
      · -- discard
        next k =>
        simp only [applyEff]
        split
        · refine Or.inr ⟨hp, ?_⟩
          intro x hx; exact hsn x (List.mem_of_mem_take hx)
        · exact Or.inr ⟨hp, hsn⟩

theorem runEffs_ok (P : St σ → List Addr → Prop) (effs : List (Eff σ)) (m : MSt σ)
    (hs : ∀ e ∈ effs, Eff.isBase e = true → StepOK v P e) (h : OK P m) : OK P (runEffs v m effs) := by
  induction effs generalizing m with
  | nil => exact h
  | cons e r ih =>
    simp only [runEffs]
    exact ih _ (fun e' he' => hs e' (by simp [he'])) (applyEff_ok P m e (hs e (by simp)) h)

theorem runEffs_dbErr_mono (effs : List (Eff σ)) (m : MSt σ) (h : m.dbErr = true) : (runEffs v m effs).dbErr = true := by
  induction effs generalizing m with
  | nil => exact h
  | cons e r ih => exact ih _ (applyEff_dbErr_mono m e h)


/-! ### frames -/

theorem frame_ok (P : St σ → List Addr → Prop) (base start : MSt σ) (out : EvmOutcome σ)
    (hbase : P base.st base.suicided) (hstart : start.dbErr = true ∨ P start.st start.suicided)
    (hs : ∀ e ∈ out.inner, Eff.isBase e = true → StepOK v P e) :
    (frame v base start out).dbErr = true ∨ P (frame v base start out).st (frame v base start out).suicided := by
  have h0 : OK P { start with snaps := [] } := by
    rcases hstart with h | h
    · exact Or.inl h
    · exact Or.inr ⟨h, by simp⟩
  have h1 := runEffs_ok P out.inner _ hs h0
  unfold frame
  dsimp only
  rcases h1 with h | ⟨h, _⟩
  · left; split <;> exact h
  · split
    · right; exact hbase
    · right; exact h

/-! ### small projections -/

@[simp] theorem subBal_nonce (m : MSt σ) (a : Addr) (v : Nat) : (subBal m a v).st.nonce = m.st.nonce := by
  unfold subBal; split <;> rfl
@[simp] theorem subBal_suicided (m : MSt σ) (a : Addr) (v : Nat) : (subBal m a v).suicided = m.suicided := by
  unfold subBal; split <;> rfl
@[simp] theorem subBal_bad (m : MSt σ) (a : Addr) (v : Nat) : (subBal m a v).bad = m.bad := by
  unfold subBal; split <;> rfl
@[simp] theorem addBal_nonce (m : MSt σ) (a : Addr) (v : Nat) : (addBal m a v).st.nonce = m.st.nonce := rfl
@[simp] theorem addBal_suicided (m : MSt σ) (a : Addr) (v : Nat) : (addBal m a v).suicided = m.suicided := rfl
@[simp] theorem addBal_dbErr (m : MSt σ) (a : Addr) (v : Nat) : (addBal m a v).dbErr = m.dbErr := rfl
@[simp] theorem addBal_bal (m : MSt σ) (a : Addr) (v : Nat) : (addBal m a v).st.bal = upd m.st.bal a (m.st.bal a + v) := rfl
@[simp] theorem transfer_nonce (m : MSt σ) (a b : Addr) (v : Nat) : (transfer m a b v).st.nonce = m.st.nonce := by
  simp [transfer]
@[simp] theorem transfer_suicided (m : MSt σ) (a b : Addr) (v : Nat) : (transfer m a b v).suicided = m.suicided := by
  simp [transfer]
@[simp] theorem bumpNonce_bal (m : MSt σ) (a : Addr) : (bumpNonce m a).st.bal = m.st.bal := rfl
@[simp] theorem bumpNonce_suicided (m : MSt σ) (a : Addr) : (bumpNonce m a).suicided = m.suicided := rfl
@[simp] theorem bumpNonce_dbErr (m : MSt σ) (a : Addr) : (bumpNonce m a).dbErr = m.dbErr := rfl
@[simp] theorem bumpNonce_nonce_self (m : MSt σ) (a : Addr) : (bumpNonce m a).st.nonce a = m.st.nonce a + 1 := by
  simp [bumpNonce, upd]
theorem upd_same (f : Addr → Nat) (a : Addr) (v : Nat) : upd f a v a = v := by simp [upd]
theorem upd_other (f : Addr → Nat) (a x : Addr) (v : Nat) (h : x ≠ a) : upd f a v x = f x := by simp [upd, h]

/-- settle only adds balances -/
theorem settle_nonce (env : Env) (m : MSt σ) (msg : Msg) (g0 gl c : Nat) (adj : Bool) :
    (settle env m msg g0 gl c adj).1.st.nonce = m.st.nonce ∧ (settle env m msg g0 gl c adj).1.suicided = m.suicided ∧
    (settle env m msg g0 gl c adj).1.dbErr = m.dbErr := by
  unfold settle; dsimp only; split <;> simp


/-! ### nonce -/

/-- interpreter guarantee used by the nonce theorem: no code runs as the (externally owned) sender, so the trace
below the top-level frame never sets the sender's nonce and never self-destructs the sender -/
def NoNonceTouch (a : Addr) : Eff σ → Prop
  | .setNonce x _ => x ≠ a
  | .suicide x _ => x ≠ a
  | _ => True

def PN (a : Addr) (n : Nat) : St σ → List Addr → Prop := fun s su => s.nonce a = n ∧ a ∉ su

theorem stepOK_nonce (a : Addr) (n : Nat) (e : Eff σ) (h : NoNonceTouch a e) (_hb : Eff.isBase e = true) : StepOK v (PN a n) e := by
  intro m hp
  right
  cases e with
  | transfer x y amt => simpa [applyEff, PN] using hp
  | setNonce x k =>
    have hx : x ≠ a := h
    have : a ≠ x := fun e => hx e.symm
    simp only [applyEff, PN, upd, this, if_false]; exact hp
  | suicide x y =>
    have hx : x ≠ a := h
    have : a ≠ x := fun e => hx e.symm
    simp only [applyEff, PN]
    split
    · exact ⟨hp.1, by simp [this, hp.2]⟩
    · exact ⟨hp.1, by simp [this, hp.2]⟩
  | other f => simpa [applyEff, PN] using hp
  | snapshot => simp [Eff.isBase] at _hb
  | revert k => simp [Eff.isBase] at _hb
  | discard k => simp [Eff.isBase] at _hb

theorem execPhase_nonce (m0 : MSt σ) (msg : Msg) (out : EvmOutcome σ) (g0 : Nat)
    (hsu : msg.sender ∉ m0.suicided)
    (hin : ∀ e ∈ out.inner, NoNonceTouch msg.sender e) (hd : msg.isCreate = true → msg.dest ≠ msg.sender) :
    (execPhase v m0 msg out g0).1.dbErr = true ∨
      PN msg.sender (m0.st.nonce msg.sender + 1) (execPhase v m0 msg out g0).1.st (execPhase v m0 msg out g0).1.suicided := by
  have hs : ∀ e ∈ out.inner, Eff.isBase e = true → StepOK v (PN msg.sender (m0.st.nonce msg.sender + 1)) e :=
    fun e he hb => stepOK_nonce _ _ e (hin e he) hb
  unfold execPhase
  split
  · right; exact ⟨by simp, by simpa using hsu⟩
  split
  · right; exact ⟨by simp, by simpa using hsu⟩
  split
  · next hc =>
    unfold topFrame; simp only [hc, if_true]
    split
    · right; exact ⟨by simp, by simpa using hsu⟩
    · apply frame_ok _ _ _ _ _ _ hs
      · exact ⟨by simp, by simpa using hsu⟩
      · right
        have hne : msg.sender ≠ msg.dest := fun e => hd hc e.symm
        refine ⟨?_, by simpa [applyEff] using hsu⟩
        simp [applyEff, upd, hne, bumpNonce]
  · next hc =>
    unfold topFrame; simp only [hc]
    apply frame_ok _ _ _ _ _ _ hs
    · exact ⟨by simp, by simpa using hsu⟩
    · right; exact ⟨by simp, by simpa using hsu⟩


/-! ### sums over a finite account list -/

def total (l : List Addr) (f : Addr → Nat) : Nat := (l.map f).sum

theorem total_upd_not_mem (l : List Addr) (f : Addr → Nat) (a : Addr) (v : Nat) (h : a ∉ l) :
    total l (upd f a v) = total l f := by
  induction l with
  | nil => rfl
  | cons x r ih =>
    have hx : x ≠ a := fun e => h (by simp [e])
    have hr : a ∉ r := fun e => h (by simp [e])
    simp only [total, List.map_cons, List.sum_cons] at ih ⊢
    rw [upd_other f a x v hx, ih hr]

theorem total_upd_mem (l : List Addr) (f : Addr → Nat) (a : Addr) (v : Nat) (hnd : l.Nodup) (h : a ∈ l) :
    total l (upd f a v) + f a = total l f + v := by
  induction l with
  | nil => cases h
  | cons x r ih =>
    have hnd' := List.nodup_cons.mp hnd
    simp only [total, List.map_cons, List.sum_cons]
    by_cases hx : x = a
    · subst hx
      have := total_upd_not_mem r f x v hnd'.1
      simp only [total] at this
      rw [this, upd_same]; omega
    · have hr : a ∈ r := by
        rcases List.mem_cons.mp h with e | e
        · exact absurd e.symm hx
        · exact e
      have := ih hnd'.2 hr
      simp only [total] at this
      rw [upd_other f a x v hx]; omega

def PT (l : List Addr) (T : Nat) : St σ → List Addr → Prop := fun s _ => total l s.bal = T

theorem total_addBal (l : List Addr) (m : MSt σ) (a : Addr) (v : Nat) (hnd : l.Nodup) (h : a ∈ l) :
    total l (addBal m a v).st.bal = total l m.st.bal + v := by
  have := total_upd_mem l m.st.bal a (m.st.bal a + v) hnd h
  simp only [addBal_bal]; omega

theorem total_subBal (l : List Addr) (m : MSt σ) (a : Addr) (v : Nat) (hnd : l.Nodup) (h : a ∈ l) :
    (subBal m a v).dbErr = true ∨ (total l (subBal m a v).st.bal + v = total l m.st.bal ∧ (subBal m a v).dbErr = m.dbErr) := by
  unfold subBal
  split
  · left; rfl
  · next hlt =>
    right
    have := total_upd_mem l m.st.bal a (m.st.bal a - v) hnd h
    refine ⟨?_, rfl⟩
    show total l (upd m.st.bal a (m.st.bal a - v)) + v = _
    omega

theorem total_transfer (l : List Addr) (m : MSt σ) (a b : Addr) (v : Nat) (hnd : l.Nodup) (ha : a ∈ l) (hb : b ∈ l) :
    (transfer m a b v).dbErr = true ∨ total l (transfer m a b v).st.bal = total l m.st.bal := by
  unfold transfer
  rcases total_subBal l m a v hnd ha with h | ⟨h, _⟩
  · left; simpa using h
  · right; rw [total_addBal l _ b v hnd hb]; omega

/-- effects whose addresses are all in `l` and that are not SELFDESTRUCT-to-self -/
def InAccts (v : Variant) (l : List Addr) : Eff σ → Prop
  | .transfer a b _ => a ∈ l ∧ b ∈ l
  | .suicide a b => a ∈ l ∧ b ∈ l ∧ (v = .asShipped → a ≠ b)
  | _ => True

theorem stepOK_total (l : List Addr) (T : Nat) (hnd : l.Nodup) (e : Eff σ) (h : InAccts v l e) (_hb : Eff.isBase e = true) :
    StepOK v (PT l T) e := by
  intro m hp
  cases e with
  | transfer x y amt =>
    rcases total_transfer l m x y amt hnd h.1 h.2 with h1 | h1
    · left; exact h1
    · right; simp only [applyEff, PT] at hp ⊢; omega
  | setNonce x k => right; simpa [applyEff, PT] using hp
  | suicide x y =>
    right
    obtain ⟨hx, hy, hne'⟩ := h
    simp only [applyEff, PT] at hp ⊢
    split
    · exact hp
    next hns =>
    have hne : x ≠ y := by
      cases v with
      | asShipped => exact hne' rfl
      | sound => intro e; exact hns ⟨rfl, e⟩
    have h1 := total_addBal l m y (m.st.bal x) hnd hy
    have h2 := total_upd_mem l (addBal m y (m.st.bal x)).st.bal x 0 hnd hx
    have h3 : (addBal m y (m.st.bal x)).st.bal x = m.st.bal x := by
      simp [upd, hne]
    dsimp only
    omega
  | other f => right; simpa [applyEff, PT] using hp
  | snapshot => simp [Eff.isBase] at _hb
  | revert k => simp [Eff.isBase] at _hb
  | discard k => simp [Eff.isBase] at _hb

/-- SELFDESTRUCT with the contract itself as beneficiary destroys the contract's balance -/
theorem suicide_self_total (l : List Addr) (m : MSt σ) (a : Addr) (hnd : l.Nodup) (ha : a ∈ l) :
    total l (applyEff .asShipped m (.suicide a a)).st.bal + m.st.bal a = total l m.st.bal := by
  have hv : (applyEff .asShipped m (.suicide a a)).st.bal = upd (addBal m a (m.st.bal a)).st.bal a 0 := by
    simp [applyEff]
  rw [hv]
  have h1 := total_addBal l m a (m.st.bal a) hnd ha
  have h2 := total_upd_mem l (addBal m a (m.st.bal a)).st.bal a 0 hnd ha
  have h3 : (addBal m a (m.st.bal a)).st.bal a = m.st.bal a + m.st.bal a := by simp [upd]
  omega


/-! ### conservation through the phases -/

theorem execPhase_total (l : List Addr) (T : Nat) (hnd : l.Nodup) (m0 : MSt σ) (msg : Msg) (out : EvmOutcome σ) (g0 : Nat)
    (h0 : total l m0.st.bal = T) (hs : msg.sender ∈ l) (hd : msg.dest ∈ l)
    (hin : ∀ e ∈ out.inner, InAccts v l e) :
    (execPhase v m0 msg out g0).1.dbErr = true ∨ total l (execPhase v m0 msg out g0).1.st.bal = T := by
  have hst : ∀ e ∈ out.inner, Eff.isBase e = true → StepOK v (PT l T) e :=
    fun e he hb => stepOK_total l T hnd e (hin e he) hb
  unfold execPhase
  split
  · right; simpa using h0
  split
  · right; simpa using h0
  split
  · next hc =>
    unfold topFrame; simp only [hc, if_true]
    split
    · right; simpa using h0
    · apply frame_ok (PT l T) _ _ _ _ _ hst
      · simpa [PT] using h0
      · rcases total_transfer l (applyEff v (bumpNonce m0 msg.sender) (.setNonce msg.dest 1)) msg.sender msg.dest msg.value hnd hs hd with h | h
        · left; exact h
        · right; simp only [PT]; rw [h]; simpa [applyEff] using h0
  · next hc =>
    unfold topFrame; simp only [hc]
    apply frame_ok (PT l T) _ _ _ _ _ hst
    · simpa [PT] using h0
    · rcases total_transfer l (bumpNonce m0 msg.sender) msg.sender msg.dest msg.value hnd hs hd with h | h
      · left; exact h
      · right; simp only [PT]; rw [h]; simpa using h0

/-- gas left after the execution phase never exceeds the gas bought, provided the interpreter returns no more than it got -/
theorem execPhase_gas (m0 : MSt σ) (msg : Msg) (out : EvmOutcome σ) (g0 : Nat) (hg : out.gasLeft ≤ g0) :
    (execPhase v m0 msg out g0).2.1 ≤ g0 := by
  unfold execPhase
  split; · simp
  split; · simp
  split
  · next hc =>
    unfold topFrame; simp only [hc, if_true]
    split <;> simp [hg]
  · next hc =>
    unfold topFrame; simp only [hc]; simp [hg]

theorem settle_total (l : List Addr) (env : Env) (m : MSt σ) (msg : Msg) (g0 gl c : Nat) (adj : Bool) (hnd : l.Nodup)
    (hs : msg.sender ∈ l) (hf : env.feeReceiver ∈ l) (hgl : gl ≤ g0) (hadj : (adj && env.height = refundHeight) = false) :
    total l (settle env m msg g0 gl c adj).1.st.bal = total l m.st.bal + g0 * msg.gasPrice
    ∧ (settle env m msg g0 gl c adj).2 ≤ g0 := by
  unfold settle
  dsimp only
  have hr : (if (g0 - gl) / 2 > c then c else (g0 - gl) / 2) ≤ (g0 - gl) / 2 := by split <;> omega
  generalize (if (g0 - gl) / 2 > c then c else (g0 - gl) / 2) = r at hr
  have hge : gl + r ≤ g0 := by omega
  simp only [hadj]
  refine ⟨?_, hge⟩
  rw [total_addBal l _ _ _ hnd hf]
  simp only [Bool.false_eq_true, if_false]
  rw [total_addBal l _ _ _ hnd hs]
  have e1 : (g0 - (gl + r)) * msg.gasPrice + (gl + r) * msg.gasPrice = g0 * msg.gasPrice := by
    rw [← Nat.add_mul]; congr 1; omega
  omega


/-! ### lower bound on the sender's balance -/

/-- interpreter guarantee used by the charge bound: no code runs as the sender, so below the top-level frame nothing
is debited from it -/
def NoDebit (a : Addr) : Eff σ → Prop
  | .transfer x _ _ => x ≠ a
  | .suicide x _ => x ≠ a
  | _ => True

def PB (a : Addr) (L : Nat) : St σ → List Addr → Prop := fun s _ => L ≤ s.bal a

theorem upd_ge (f : Addr → Nat) (a x : Addr) (v L : Nat) (h : L ≤ f a) (hv : x = a → L ≤ v) : L ≤ upd f x v a := by
  unfold upd; split
  · next e => exact hv e.symm
  · exact h

theorem addBal_lb (m : MSt σ) (a x : Addr) (v L : Nat) (h : L ≤ m.st.bal a) : L ≤ (addBal m x v).st.bal a := by
  simp only [addBal_bal]
  apply upd_ge _ _ _ _ _ h
  intro e; subst e; omega

theorem subBal_other_lb (m : MSt σ) (a x : Addr) (v L : Nat) (hx : x ≠ a) (h : L ≤ m.st.bal a) : L ≤ (subBal m x v).st.bal a := by
  unfold subBal; split
  · exact h
  · exact upd_ge _ _ _ _ _ h (fun e => absurd e hx)

theorem stepOK_lb (a : Addr) (L : Nat) (e : Eff σ) (h : NoDebit a e) (_hb : Eff.isBase e = true) : StepOK v (PB a L) e := by
  intro m hp
  right
  cases e with
  | transfer x y amt =>
    simp only [applyEff, PB, transfer] at hp ⊢
    exact addBal_lb _ _ _ _ _ (subBal_other_lb _ _ _ _ _ h hp)
  | setNonce x k => simpa [applyEff, PB] using hp
  | suicide x y =>
    simp only [applyEff, PB] at hp ⊢
    split
    · exact hp
    apply upd_ge
    · exact addBal_lb _ _ _ _ _ hp
    · intro e; exact absurd e h
  | other f => simpa [applyEff, PB] using hp
  | snapshot => simp [Eff.isBase] at _hb
  | revert k => simp [Eff.isBase] at _hb
  | discard k => simp [Eff.isBase] at _hb

theorem transfer_self_lb (m : MSt σ) (a b : Addr) (v : Nat) :
    (transfer m a b v).dbErr = true ∨ m.st.bal a - v ≤ (transfer m a b v).st.bal a := by
  unfold transfer
  by_cases h : m.st.bal a < v
  · left; simp [subBal, h]
  · right
    apply addBal_lb
    simp [subBal, h, upd]

theorem execPhase_lb (m0 : MSt σ) (msg : Msg) (out : EvmOutcome σ) (g0 : Nat)
    (hin : ∀ e ∈ out.inner, NoDebit msg.sender e) :
    (execPhase v m0 msg out g0).1.dbErr = true ∨
      m0.st.bal msg.sender - msg.value ≤ (execPhase v m0 msg out g0).1.st.bal msg.sender := by
  have hst : ∀ e ∈ out.inner, Eff.isBase e = true → StepOK v (PB msg.sender (m0.st.bal msg.sender - msg.value)) e :=
    fun e he hb => stepOK_lb _ _ e (hin e he) hb
  unfold execPhase
  split
  · right; simp
  split
  · right; simp
  split
  · next hc =>
    unfold topFrame; simp only [hc, if_true]
    split
    · right; simp
    · apply frame_ok (PB msg.sender (m0.st.bal msg.sender - msg.value)) _ _ _ _ _ hst
      · simp [PB]
      · have := transfer_self_lb (applyEff v (bumpNonce m0 msg.sender) (.setNonce msg.dest 1)) msg.sender msg.dest msg.value
        simpa [PB, applyEff] using this
  · next hc =>
    unfold topFrame; simp only [hc]
    apply frame_ok (PB msg.sender (m0.st.bal msg.sender - msg.value)) _ _ _ _ _ hst
    · simp [PB]
    · have := transfer_self_lb (bumpNonce m0 msg.sender) msg.sender msg.dest msg.value
      simpa [PB] using this

theorem settle_lb (env : Env) (m : MSt σ) (msg : Msg) (g0 gl c : Nat) (adj : Bool) :
    m.st.bal msg.sender ≤ (settle env m msg g0 gl c adj).1.st.bal msg.sender := by
  unfold settle; dsimp only
  apply addBal_lb
  split
  · apply addBal_lb; apply addBal_lb; exact Nat.le_refl _
  · apply addBal_lb; exact Nat.le_refl _

/-! ### buyGas -/

theorem buyGas_le (env : Env) (h : Nat) (msg : Msg) :
    (buyGas env h msg).2.1 ≤ h ∧ (buyGas env h msg).2.1 ≤ msg.gasLimit * msg.gasPrice ∧ (buyGas env h msg).1 ≤ msg.gasLimit := by
  unfold buyGas; dsimp only
  split
  · next hlt =>
    have hp : 0 < msg.gasPrice := by
      rcases Nat.eq_zero_or_pos msg.gasPrice with e | e
      · rw [e] at hlt; simp at hlt
      · exact e
    have h1 : h / msg.gasPrice * msg.gasPrice ≤ h := Nat.div_mul_le_self h msg.gasPrice
    have h2 : h / msg.gasPrice ≤ msg.gasLimit := by
      have : h / msg.gasPrice < msg.gasLimit + 1 := by
        apply (Nat.div_lt_iff_lt_mul hp).mpr
        rw [Nat.add_mul]; omega
      omega
    refine ⟨?_, ?_, h2⟩
    · dsimp only; split
      · exact h1
      · exact Nat.le_refl _
    · dsimp only; split <;> omega
  · next hge => exact ⟨Nat.le_of_not_lt hge, Nat.le_refl _, Nat.le_refl _⟩

/-- when the chain is not main net before the fork (or the balance covers the gas) the debit is exactly `gas·price`,
and outside block 13920628 nothing is minted -/
theorem buyGas_exact (env : Env) (h : Nat) (msg : Msg)
    (hc : msg.gasLimit * msg.gasPrice ≤ h ∨ ((env.mainnet = false ∨ forkHeight ≤ env.height) ∧ env.height ≠ refundHeight)) :
    (buyGas env h msg).2.1 = (buyGas env h msg).1 * msg.gasPrice ∧
    ((buyGas env h msg).2.2 && decide (env.height = refundHeight)) = false := by
  unfold buyGas; dsimp only
  split
  · next hlt =>
    rcases hc with hc | ⟨hc, hr⟩
    · omega
    · dsimp only
      constructor
      · rcases hc with hc | hc
        · simp [hc]
        · have : env.height ≥ forkHeight := hc
          simp [this]
      · simp [hr]
  · exact ⟨rfl, by simp⟩

end OntVerif.Proofs.EvmTx
