import OntVerif.Proofs.MerkleC
namespace OntVerif.Proofs.Merkle
open OntVerif.Util OntVerif.Model.Merkle

section
variable {Hash : Type} (H1 : Hash → Hash → Hash) (He : Hash)

/-- an explicit collision of the node hash -/
def Collision1 : Prop := ∃ a b c d : Hash, (a, b) ≠ (c, d) ∧ H1 a b = H1 c d

/-- RFC 6962 `PATH(m, D)` (bottom-up order: the sibling at the top of the tree is last) -/
def pathSpec (m : Nat) (D : List Hash) : List Hash :=
  if _h : D.length ≤ 1 then [] else
  if m < splitK D.length then pathSpec m (D.take (splitK D.length)) ++ [mth H1 He (D.drop (splitK D.length))]
  else pathSpec (m - splitK D.length) (D.drop (splitK D.length)) ++ [mth H1 He (D.take (splitK D.length))]
termination_by D.length
decreasing_by
  · rw [List.length_take]; have := splitK_lt (n := D.length) (by omega); omega
  · rw [List.length_drop]; have := splitK_pos D.length; omega

theorem pathSpec_small (m : Nat) (D : List Hash) (h : D.length ≤ 1) : pathSpec H1 He m D = [] := by
  rw [pathSpec]; simp [h]
theorem pathSpec_left (m : Nat) (D : List Hash) (h : 2 ≤ D.length) (hm : m < splitK D.length) :
    pathSpec H1 He m D = pathSpec H1 He m (D.take (splitK D.length)) ++ [mth H1 He (D.drop (splitK D.length))] := by
  rw [pathSpec]; simp [show ¬ D.length ≤ 1 by omega, hm]
theorem pathSpec_right (m : Nat) (D : List Hash) (h : 2 ≤ D.length) (hm : ¬ m < splitK D.length) :
    pathSpec H1 He m D =
      pathSpec H1 He (m - splitK D.length) (D.drop (splitK D.length)) ++ [mth H1 He (D.take (splitK D.length))] := by
  rw [pathSpec]; simp [show ¬ D.length ≤ 1 by omega, hm]

theorem evalRec_small (leaf : Hash) (idx size : Nat) (path : List Hash) (h : size ≤ 1) :
    evalRec H1 leaf idx size path = .ok (leaf, path) := by
  rw [evalRec]; simp [h]
theorem evalRec_left (leaf : Hash) (idx size : Nat) (path : List Hash) (h : 2 ≤ size) (hm : idx < splitK size) :
    evalRec H1 leaf idx size path = topStep H1 false (evalRec H1 leaf idx (splitK size) path) := by
  rw [evalRec]; simp [show ¬ size ≤ 1 by omega, hm]
theorem evalRec_right (leaf : Hash) (idx size : Nat) (path : List Hash) (h : 2 ≤ size) (hm : ¬ idx < splitK size) :
    evalRec H1 leaf idx size path =
      topStep H1 true (evalRec H1 leaf (idx - splitK size) (size - splitK size) path) := by
  rw [evalRec]; simp [show ¬ size ≤ 1 by omega, hm]

theorem topStep_ok (left : Bool) (e : Except VErr (Hash × List Hash)) (r : Hash) (rest : List Hash)
    (h : topStep H1 left e = .ok (r, rest)) :
    ∃ c p, e = .ok (c, p :: rest) ∧ r = if left then H1 p c else H1 c p := by
  match e, h with
  | .ok (c, p :: r'), h =>
    simp only [topStep, Except.ok.injEq, Prod.mk.injEq] at h
    exact ⟨c, p, by rw [h.2], h.1.symm⟩

/-- completeness of the recursive evaluation: the RFC path of leaf `m` evaluates to the tree hash -/
theorem evalRec_complete (n : Nat) : ∀ (D : List Hash) (m : Nat) (leaf : Hash) (extra : List Hash),
    D.length = n → D[m]? = some leaf →
    evalRec H1 leaf m n (pathSpec H1 He m D ++ extra) = .ok (mth H1 He D, extra) := by
  induction n using Nat.strongRecOn with
  | _ n ih =>
    intro D m leaf extra hn hm
    have hmlt : m < D.length := by
      rcases Nat.lt_or_ge m D.length with h | h
      · exact h
      · rw [List.getElem?_eq_none h] at hm; cases hm
    by_cases hs : n ≤ 1
    · have h1 : D.length = 1 := by omega
      match D, h1 with
      | [x], _ =>
        have : m = 0 := by simp at hmlt; omega
        subst this
        simp at hm
        subst hm
        rw [evalRec_small H1 _ _ _ _ hs, pathSpec_small H1 He _ _ (by simp)]
        simp
    · subst hn
      have h2 : 2 ≤ D.length := by omega
      have hk := splitK_lt h2
      have hp := splitK_pos D.length
      rw [mth_split H1 He D h2]
      by_cases hlt : m < splitK D.length
      · rw [evalRec_left H1 _ _ _ _ h2 hlt, pathSpec_left H1 He _ _ h2 hlt, List.append_assoc,
          ih (splitK D.length) hk (D.take (splitK D.length)) m leaf _ (by rw [List.length_take]; omega)
            (by rw [List.getElem?_take_of_lt hlt]; exact hm)]
        simp [topStep]
      · rw [evalRec_right H1 _ _ _ _ h2 hlt, pathSpec_right H1 He _ _ h2 hlt, List.append_assoc,
          ih (D.length - splitK D.length) (by omega) (D.drop (splitK D.length)) (m - splitK D.length) leaf _
            (by rw [List.length_drop])
            (by rw [List.getElem?_drop]; rw [show splitK D.length + (m - splitK D.length) = m by omega]; exact hm)]
        simp [topStep]

/-- soundness of the recursive evaluation, collision-extraction form -/
theorem evalRec_sound (n : Nat) : ∀ (D : List Hash) (m : Nat) (leaf : Hash) (path rest : List Hash) (r : Hash),
    D.length = n → m < n → evalRec H1 leaf m n path = .ok (r, rest) → mth H1 He D = r →
    D[m]? = some leaf ∨ Collision1 H1 := by
  induction n using Nat.strongRecOn with
  | _ n ih =>
    intro D m leaf path rest r hn hm hev hr
    by_cases hs : n ≤ 1
    · have h1 : D.length = 1 := by omega
      match D, h1 with
      | [x], _ =>
        have : m = 0 := by omega
        subst this
        rw [evalRec_small H1 _ _ _ _ hs] at hev
        simp at hev hr
        left; simp [hr, hev.1]
    · subst hn
      have h2 : 2 ≤ D.length := by omega
      have hk := splitK_lt h2
      have hp := splitK_pos D.length
      rw [mth_split H1 He D h2] at hr
      by_cases hlt : m < splitK D.length
      · rw [evalRec_left H1 _ _ _ _ h2 hlt] at hev
        obtain ⟨c, p, hsub, hrc⟩ := topStep_ok H1 _ _ _ _ hev
        simp only [Bool.false_eq_true, if_false] at hrc
        by_cases heq : (mth H1 He (D.take (splitK D.length)), mth H1 He (D.drop (splitK D.length))) = (c, p)
        · simp only [Prod.mk.injEq] at heq
          rcases ih (splitK D.length) hk (D.take (splitK D.length)) m leaf path _ c
              (by rw [List.length_take]; omega) hlt hsub heq.1 with h | h
          · left; rw [List.getElem?_take_of_lt hlt] at h; exact h
          · right; exact h
        · right; exact ⟨_, _, _, _, heq, by rw [hr, hrc]⟩
      · rw [evalRec_right H1 _ _ _ _ h2 hlt] at hev
        obtain ⟨c, p, hsub, hrc⟩ := topStep_ok H1 _ _ _ _ hev
        simp only [if_true] at hrc
        by_cases heq : (mth H1 He (D.take (splitK D.length)), mth H1 He (D.drop (splitK D.length))) = (p, c)
        · simp only [Prod.mk.injEq] at heq
          rcases ih (D.length - splitK D.length) (by omega) (D.drop (splitK D.length)) (m - splitK D.length) leaf path _ c
              (by rw [List.length_drop]) (by omega) hsub heq.2 with h | h
          · left; rw [List.getElem?_drop, show splitK D.length + (m - splitK D.length) = m by omega] at h; exact h
          · right; exact h
        · right; exact ⟨_, _, _, _, heq, by rw [hr, hrc]⟩

/-- two accepted evaluations for the same position and size that reach the same hash have the same leaf and
consumed the same path elements — or exhibit a collision (so every altered leaf / proof element is rejected) -/
theorem evalRec_unique (n : Nat) : ∀ (m : Nat) (leaf leaf' : Hash) (path path' rest rest' : List Hash) (r : Hash),
    evalRec H1 leaf m n path = .ok (r, rest) → evalRec H1 leaf' m n path' = .ok (r, rest') →
    (leaf = leaf' ∧ ∃ used, path = used ++ rest ∧ path' = used ++ rest') ∨ Collision1 H1 := by
  induction n using Nat.strongRecOn with
  | _ n ih =>
    intro m leaf leaf' path path' rest rest' r h1 h2
    by_cases hs : n ≤ 1
    · rw [evalRec_small H1 _ _ _ _ hs] at h1 h2
      simp at h1 h2
      left; exact ⟨by rw [h1.1, h2.1], [], by simp [h1.2], by simp [h2.2]⟩
    · have h2n : 2 ≤ n := by omega
      have hk := splitK_lt h2n
      have hp := splitK_pos n
      by_cases hlt : m < splitK n
      · rw [evalRec_left H1 _ _ _ _ h2n hlt] at h1 h2
        obtain ⟨c, p, hsub, hrc⟩ := topStep_ok H1 _ _ _ _ h1
        obtain ⟨c', p', hsub', hrc'⟩ := topStep_ok H1 _ _ _ _ h2
        simp only [Bool.false_eq_true, if_false] at hrc hrc'
        by_cases heq : (c, p) = (c', p')
        · simp only [Prod.mk.injEq] at heq
          obtain ⟨rfl, rfl⟩ := heq
          rcases ih (splitK n) hk m leaf leaf' path path' _ _ c hsub hsub' with ⟨hl, used, hu, hu'⟩ | h
          · left; exact ⟨hl, used ++ [p], by simp [hu], by simp [hu']⟩
          · right; exact h
        · right; exact ⟨_, _, _, _, heq, by rw [← hrc, ← hrc']⟩
      · rw [evalRec_right H1 _ _ _ _ h2n hlt] at h1 h2
        obtain ⟨c, p, hsub, hrc⟩ := topStep_ok H1 _ _ _ _ h1
        obtain ⟨c', p', hsub', hrc'⟩ := topStep_ok H1 _ _ _ _ h2
        simp only [if_true] at hrc hrc'
        by_cases heq : (p, c) = (p', c')
        · simp only [Prod.mk.injEq] at heq
          obtain ⟨rfl, rfl⟩ := heq
          rcases ih (n - splitK n) (by omega) (m - splitK n) leaf leaf' path path' _ _ c hsub hsub' with ⟨hl, used, hu, hu'⟩ | h
          · left; exact ⟨hl, used ++ [p], by simp [hu], by simp [hu']⟩
          · right; exact h
        · right; exact ⟨_, _, _, _, heq, by rw [← hrc, ← hrc']⟩

/-- `calculate_root_hash_from_audit_path` in terms of the recursive evaluation -/
theorem calcRoot_ok_iff (leaf : Hash) (idx : Nat) (path : List Hash) (size : Nat) (c : Hash) (h1 : 1 ≤ size) (hi : idx < size) :
    calcRoot H1 leaf idx path size = .ok c ↔ evalRec H1 leaf idx size path = .ok (c, []) := by
  unfold calcRoot
  rw [calcLoop_eq_evalRec H1 size leaf idx path size h1 hi (Nat.le_refl _)]
  generalize evalRec H1 leaf idx size path = e
  match e with
  | .error e => simp
  | .ok (c', []) => simp
  | .ok (c', p :: r) => simp

theorem verifyInclusion_ok_iff [DecidableEq Hash] (leaf : Hash) (idx : Nat) (proof : List Hash) (root : Hash) (size : Nat) :
    verifyInclusion H1 leaf idx proof root size = .ok () ↔
      idx < size ∧ evalRec H1 leaf idx size proof = .ok (root, []) := by
  unfold verifyInclusion
  by_cases h : size ≤ idx
  · simp [h]; omega
  · simp only [h, if_false]
    have hi : idx < size := by omega
    constructor
    · intro hv
      refine ⟨hi, ?_⟩
      cases hc : calcRoot H1 leaf idx proof size with
      | error e => simp [hc] at hv
      | ok c =>
        simp only [hc] at hv
        by_cases hcr : c = root
        · subst hcr; exact (calcRoot_ok_iff H1 leaf idx proof size c (by omega) hi).1 hc
        · simp [hcr] at hv
    · intro ⟨_, hev⟩
      rw [(calcRoot_ok_iff H1 leaf idx proof size root (by omega) hi).2 hev]
      simp

end
end OntVerif.Proofs.Merkle
