import OntVerif.Proofs.MerkleK
namespace OntVerif.Proofs.Merkle
open OntVerif.Util OntVerif.Model.Merkle

section
variable {Hash : Type} (H1 : Hash → Hash → Hash) (He : Hash)

/-- the hash store only grows: the store of a prefix is a prefix of the store -/
theorem lay_prefix (S : List Hash) : ∀ L : List Hash, ∃ ext, lay H1 He (L ++ S) = lay H1 He L ++ ext := by
  induction S with
  | nil => intro L; exact ⟨[], by simp⟩
  | cons x r ih =>
    intro L
    obtain ⟨ext, he⟩ := ih (L ++ [x])
    obtain ⟨_, _, w, _, _, h3⟩ := appLoop_spec H1 He L.length 0 L [x] (L.length + 1) (by omega) (by simp) (by simp)
    refine ⟨[x] ++ w ++ ext, ?_⟩
    have : L ++ x :: r = (L ++ [x]) ++ r := by simp
    rw [this, he]
    unfold lay
    rw [List.length_append, List.length_singleton, ← h3]
    simp [post]

theorem lay_take (L : List Hash) (n : Nat) : ∃ ext, lay H1 He L = lay H1 He (L.take n) ++ ext := by
  obtain ⟨ext, h⟩ := lay_prefix H1 He (L.drop n) (L.take n)
  rw [List.take_append_drop] at h
  exact ⟨ext, h⟩

/-- length and last element of the stored full left subtree -/
theorem lay_left (D : List Hash) (h2 : 2 ≤ D.length) :
    ∃ front, lay H1 He (D.take (splitK D.length)) = front ++ [mth H1 He (D.take (splitK D.length))] ∧
      front.length = 2 * splitK D.length - 2 := by
  obtain ⟨x, hk, hx1, hx2⟩ := splitK_spec (n := D.length) h2
  have htl : (D.take (2 ^ x)).length = 2 ^ x := by rw [List.length_take]; omega
  rw [hk, lay_pow H1 He x _ htl]
  exact post_last H1 He x _ htl

/-- **the loop of `InclusionProof` reads the RFC 6962 audit path from the store** (top sibling first) -/
theorem inclLoop_spec (n : Nat) : ∀ (D pre suf : List Hash) (m offset : Nat) (acc : List Hash) (f : Nat),
    D.length = n → m < n → pre.length = offset → n ≤ f →
    inclLoop H1 (pre ++ lay H1 He D ++ suf) f m n offset acc = some (acc ++ (pathSpec H1 He m D).reverse) := by
  induction n using Nat.strongRecOn with
  | _ n ih =>
    intro D pre suf m offset acc f hD hm hpre hf
    obtain ⟨f, rfl⟩ : ∃ f', f = f' + 1 := ⟨f - 1, by omega⟩
    simp only [inclLoop]
    by_cases h1 : n = 1
    · rw [if_pos h1, pathSpec_small H1 He m D (by omega)]; simp
    · rw [if_neg h1]
      subst hD
      have h2 : 2 ≤ D.length := by omega
      have hk := splitK_lt h2
      have hp := splitK_pos D.length
      obtain ⟨ext, hsplit⟩ := lay_split H1 He D h2
      obtain ⟨front, hfront, hfl⟩ := lay_left H1 He D h2
      have hll : (lay H1 He (D.take (splitK D.length))).length = 2 * splitK D.length - 1 := by
        rw [hfront, List.length_append, hfl]; simp; omega
      by_cases hlt : m < splitK D.length
      · rw [if_pos hlt]
        have hstore : pre ++ lay H1 He D ++ suf =
            (pre ++ lay H1 He (D.take (splitK D.length))) ++ lay H1 He (D.drop (splitK D.length)) ++ (ext ++ suf) := by
          rw [hsplit]; simp
        have hread := readFold_spec H1 He (D.length - splitK D.length) (D.drop (splitK D.length))
          (pre ++ lay H1 He (D.take (splitK D.length))) (ext ++ suf) (offset + splitK D.length * 2 - 1)
          (by rw [List.length_drop]) (by omega) (by rw [List.length_append, hll]; omega)
        rw [← hstore] at hread
        rw [hread]
        simp only
        have hstore2 : pre ++ lay H1 He D ++ suf =
            pre ++ lay H1 He (D.take (splitK D.length)) ++ (lay H1 He (D.drop (splitK D.length)) ++ ext ++ suf) := by
          rw [hsplit]; simp
        rw [hstore2, ih (splitK D.length) hk (D.take (splitK D.length)) pre _ m offset _ f
          (by rw [List.length_take]; omega) hlt hpre (by omega),
          pathSpec_left H1 He m D h2 hlt]
        simp
      · rw [if_neg hlt]
        have hget : getHash (pre ++ lay H1 He D ++ suf) (offset + (splitK D.length * 2 - 1) - 1) =
            some (mth H1 He (D.take (splitK D.length))) := by
          unfold getHash
          rw [hsplit, hfront]
          have e : pre ++ (front ++ [mth H1 He (D.take (splitK D.length))] ++ lay H1 He (D.drop (splitK D.length)) ++ ext) ++ suf =
              (pre ++ front) ++ (mth H1 He (D.take (splitK D.length)) :: (lay H1 He (D.drop (splitK D.length)) ++ ext ++ suf)) := by
            simp
          rw [e, List.getElem?_append_right (by rw [List.length_append]; omega)]
          rw [show offset + (splitK D.length * 2 - 1) - 1 - (pre ++ front).length = 0 by rw [List.length_append]; omega]
          rfl
        rw [hget]
        simp only
        have hstore : pre ++ lay H1 He D ++ suf =
            (pre ++ lay H1 He (D.take (splitK D.length))) ++ lay H1 He (D.drop (splitK D.length)) ++ (ext ++ suf) := by
          rw [hsplit]; simp
        rw [hstore, ih (D.length - splitK D.length) (by omega) (D.drop (splitK D.length)) _ _ (m - splitK D.length)
          (offset + (splitK D.length * 2 - 1)) _ f (by rw [List.length_drop]) (by omega)
          (by rw [List.length_append, hll]; omega) (by omega),
          pathSpec_right H1 He m D h2 hlt]
        simp

/-- `InclusionProof(m, n)` on a tree that holds `L` and has a hash store: the RFC 6962 audit path of leaf `m` in the
first `n` leaves, read back from the store without any out-of-range read -/
theorem holds_inclusionProof (t : Tree Hash) (L : List Hash) (h : Holds H1 He t L) (s : List Hash) (hs : t.store = some s)
    (m n : Nat) (hm : m < n) (hn : n ≤ L.length) :
    t.inclusionProof H1 m n = .ok (some (pathSpec H1 He m (L.take n))) := by
  unfold Tree.inclusionProof
  rw [if_neg (by omega), if_neg (by rw [h.size]; omega), hs]
  simp only
  have hs' : s = lay H1 He L := h.store s hs
  obtain ⟨ext, hext⟩ := lay_take H1 He L n
  have := inclLoop_spec H1 He n (L.take n) [] ext m 0 [] n (by rw [List.length_take]; omega) hm rfl (Nat.le_refl _)
  rw [List.nil_append, ← hext, ← hs'] at this
  rw [this]
  simp

end
end OntVerif.Proofs.Merkle
