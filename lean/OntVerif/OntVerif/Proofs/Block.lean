import OntVerif.Model.Block
import OntVerif.Proofs.Tx
/-! Helper lemmas for C20: specifications of the header / block decoders in the program logic of `Proofs/Tx.lean`,
and the duplicate-last merkle tree. Core-only. -/
namespace OntVerif.Proofs.Block
open OntVerif.Util OntVerif.Model.Codec OntVerif.Model.Tx OntVerif.Model.Block OntVerif.Proofs.Codec OntVerif.Proofs.Tx

/-- `repeatP` with a per-element fact -/
theorem repeatP_spec' {α : Type} (p : P α) (wr : α → Bytes) (φ : α → Prop)
    (hp : ∀ s, s.wf → SpecAt p s (fun a s' => seg s s' = wr a ∧ φ a)) (n : Nat) (s : Src) (w : s.wf) :
    SpecAt (repeatP n p) s (fun l s' => seg s s' = (l.map wr).flatten ∧ (l.length = n ∧ ∀ a ∈ l, φ a)) := by
  induction n generalizing s with
  | zero =>
    unfold repeatP
    apply spec_pure w
    simp [seg_self]
  | succ n ih =>
    unfold repeatP
    apply enc_step (Adv.refl w) (seg_self s) (hp s w)
    intro a s1 ha adv1 acc1
    apply spec_bind' (ih s1 (adv1.wf w))
    intro r s2 adv2 ⟨hr, hl, hall⟩
    apply spec_pure ((adv1.trans adv2).wf w)
    refine ⟨?_, by simp [hl], ?_⟩
    · rw [seg_trans adv1 adv2, acc1, hr]
      simp
    · intro x hx
      rcases List.mem_cons.mp hx with rfl | hx
      · exact ha
      · exact hall x hx

/-- what `deserializationUnsigned` guarantees -/
def WfHU (u : HeaderU) : Prop :=
  u.version < 256 ^ 4 ∧ u.prevHash.length = 32 ∧ u.txRoot.length = 32 ∧ u.blockRoot.length = 32 ∧
  u.timestamp < 256 ^ 4 ∧ u.height < 256 ^ 4 ∧ u.consensusData < 256 ^ 8 ∧ u.nextBookkeeper.length = 20

theorem parseHeaderUnsigned_spec (s : Src) (w : s.wf) :
    SpecAt parseHeaderUnsigned s (fun u s' => seg s s' = serHeaderU u ∧ WfHU u) := by
  unfold parseHeaderUnsigned
  apply enc_step (Adv.refl w) (seg_self s) (rUintN_spec 4 (by unfold two64; omega) s w)
  intro ver s1 h1 adv1 acc1
  apply enc_step adv1 acc1 (rBytesN_spec 32 (by unfold two64; omega) s1 (adv1.wf w))
  intro prev s2 h2 adv2 acc2
  apply enc_step adv2 acc2 (rBytesN_spec 32 (by unfold two64; omega) s2 (adv2.wf w))
  intro txr s3 h3 adv3 acc3
  apply enc_step adv3 acc3 (rBytesN_spec 32 (by unfold two64; omega) s3 (adv3.wf w))
  intro blr s4 h4 adv4 acc4
  apply enc_step adv4 acc4 (rUintN_spec 4 (by unfold two64; omega) s4 (adv4.wf w))
  intro ts s5 h5 adv5 acc5
  apply enc_step adv5 acc5 (rUintN_spec 4 (by unfold two64; omega) s5 (adv5.wf w))
  intro ht s6 h6 adv6 acc6
  apply enc_step adv6 acc6 (rUintN_spec 8 (by unfold two64; omega) s6 (adv6.wf w))
  intro cd s7 h7 adv7 acc7
  apply enc_step adv7 acc7 (rVarBytes_spec true s7 (adv7.wf w))
  intro cp s8 _ adv8 acc8
  apply enc_step adv8 acc8 (rBytesN_spec 20 (by unfold two64; omega) s8 (adv8.wf w))
  intro nb s9 h9 adv9 acc9
  apply spec_pure (adv9.wf w)
  refine ⟨?_, h1, h2, h3, h4, h5, h6, h7, h9⟩
  rw [acc9]
  simp [serHeaderU, writeUintN]

theorem parseKey_spec (V : Variant) (K : Keys) (s : Src) (w : s.wf) :
    SpecAt (parseKey V K) s (fun kc s' => seg s s' = writeVarBytes kc.1 ∧
      (K.canon kc.1 = some kc.2 ∧ (V = .sound → kc.2 = kc.1))) := by
  unfold parseKey
  apply enc_step (Adv.refl w) (seg_self s) (rVarBytes_spec true s w)
  intro buf s1 _ adv1 acc1
  split
  · exact spec_fail
  · rename_i c hc
    split
    · apply spec_pure (adv1.wf w)
      exact ⟨by rw [acc1]; simp, hc, by intro h; cases h⟩
    · split
      · rename_i heq
        apply spec_pure (adv1.wf w)
        exact ⟨by rw [acc1]; simp, hc, fun _ => heq⟩
      · exact spec_fail

/-- the bytes of a var-bytes list as they are on the wire (count as read, blobs as read) -/
def wireList (count : Nat) (l : List Bytes) : Bytes := writeVarUint count ++ (l.map writeVarBytes).flatten

/-- postcondition of `Header.Deserialization` -/
def HeaderPost (V : Variant) (K : Keys) (s : Src) (h : Header) (s' : Src) : Prop :=
  seg s s' = serHeaderU h.u ++ wireList h.bkCount h.bkRaw ++ wireList h.sigCount h.sigData ∧
  WfHU h.u ∧
  h.bkRaw.length = loopCount V h.bkCount ∧ h.sigData.length = loopCount V h.sigCount ∧
  h.bookkeepers.length = h.bkRaw.length ∧
  (∀ i (hi : i < h.bkRaw.length) (hj : i < h.bookkeepers.length), K.canon h.bkRaw[i] = some h.bookkeepers[i]) ∧
  (V = .sound → h.bookkeepers = h.bkRaw)

theorem parseHeader_spec (V : Variant) (K : Keys) (s : Src) (w : s.wf) :
    SpecAt (parseHeader V K) s (HeaderPost V K s) := by
  unfold parseHeader
  apply enc_step (Adv.refl w) (seg_self s) (parseHeaderUnsigned_spec s w)
  intro u s1 hu adv1 acc1
  apply enc_step adv1 acc1 (rVarUint_spec true s1 (adv1.wf w))
  intro n s2 _ adv2 acc2
  apply enc_step adv2 acc2 (repeatP_spec' (parseKey V K) (fun kc => writeVarBytes kc.1)
    (fun kc => K.canon kc.1 = some kc.2 ∧ (V = .sound → kc.2 = kc.1)) (parseKey_spec V K) (loopCount V n) s2 (adv2.wf w))
  intro bks s3 ⟨hbl, hball⟩ adv3 acc3
  apply enc_step adv3 acc3 (rVarUint_spec true s3 (adv3.wf w))
  intro m s4 _ adv4 acc4
  apply enc_step adv4 acc4 (repeatP_spec' (rVarBytes true) writeVarBytes (fun _ => True)
    (rVarBytes_spec true) (loopCount V m) s4 (adv4.wf w))
  intro sigs s5 ⟨hsl, _⟩ adv5 acc5
  apply spec_pure (adv5.wf w)
  refine ⟨?_, hu, by simpa using hbl, hsl, by simp, ?_, ?_⟩
  · rw [acc5]
    simp [wireList, List.map_map, Function.comp_def]
  · intro i hi hj
    simp only [List.getElem_map]
    exact (hball _ (List.getElem_mem _)).1
  · intro hV
    simp only
    apply List.map_congr_left
    intro kc hkc
    exact (hball kc hkc).2 hV


theorem deserialize_spec' (R : Rlp) (s : Src) (w : s.wf) :
    SpecAt (deserialize R) s (fun t s' => (R.canonical → seg s s' = t.raw) ∧ True) :=
  spec_mono (deserialize_spec R s w) (fun _ _ _ h => ⟨fun hR => (raw_eq_seg hR h).symm, trivial⟩)

/-- the transaction loop: as many transactions as announced, their hashes pairwise different and different from
the ones seen before, and (for a canonical RLP library) the consumed bytes are the concatenation of the `Raw`s -/
theorem parseTxs_spec (R : Rlp) (hs : Hashes) (n : Nat) (seen : List Bytes) (hseen : seen.Nodup) (s : Src) (w : s.wf) :
    SpecAt (parseTxs R hs n seen) s (fun txs s' =>
      txs.length = n ∧ (seen ++ txs.map hs.txHash).Nodup ∧
      (R.canonical → seg s s' = (txs.map (·.raw)).flatten)) := by
  induction n generalizing s seen with
  | zero =>
    unfold parseTxs
    apply spec_pure w
    simp [seg_self, hseen]
  | succ n ih =>
    unfold parseTxs
    apply spec_bind' (deserialize_spec' R s w)
    intro t s1 adv1 ⟨hraw, _⟩
    try dsimp only
    split
    · exact spec_fail_bind
    rename_i hnot
    have hnot' : hs.txHash t ∉ seen := by simpa using hnot
    have hseen' : (seen ++ [hs.txHash t]).Nodup := by
      rw [List.nodup_append]
      refine ⟨hseen, by simp, ?_⟩
      intro a ha b hb
      simp at hb
      subst hb
      intro hab
      subst hab
      exact hnot' ha
    apply spec_bind' (ih (seen ++ [hs.txHash t]) hseen' s1 (adv1.wf w))
    intro r s2 adv2 ⟨hl, hnd, hsegr⟩
    apply spec_pure ((adv1.trans adv2).wf w)
    refine ⟨by simp [hl], ?_, ?_⟩
    · simpa using hnd
    · intro hR
      rw [seg_trans adv1 adv2, hraw hR, hsegr hR]
      simp


end OntVerif.Proofs.Block
