import OntVerif.Model.Block
import OntVerif.Proofs.Tx
/-! Helper lemmas for C20: specifications of the header / block decoders in the program logic of `Proofs/Tx.lean`,
and the duplicate-last merkle tree. Core-only. -/
namespace OntVerif.Proofs.Block
open OntVerif.Util OntVerif.Model.Codec OntVerif.Model.Tx OntVerif.Model.Block OntVerif.Proofs.Codec OntVerif.Proofs.Tx

/-- `repeatP` with a per-element fact -/
theorem repeatP_spec' {α : Type} (p : P α) (wr : α → Bytes) (φ : α → Prop)
    (hp : ∀ s, s.wf → SpecAt p s (fun a s' => seg s s' = wr a ∧ φ a)) (n : Nat) (s : Src) (w : s.wf) :
    SpecAt (repeatP n p) s (fun l s' => seg s s' = (l.map wr).flatten ∧ (l.length = n ∧ ∀ a ∈ l, φ a)) := by
  induction n generalizing s with
  | zero =>
    unfold repeatP
    apply spec_pure w
    simp [seg_self]
  | succ n ih =>
    unfold repeatP
    apply enc_step (Adv.refl w) (seg_self s) (hp s w)
    intro a s1 ha adv1 acc1
    apply spec_bind' (ih s1 (adv1.wf w))
    intro r s2 adv2 ⟨hr, hl, hall⟩
    apply spec_pure ((adv1.trans adv2).wf w)
    refine ⟨?_, by simp [hl], ?_⟩
    · rw [seg_trans adv1 adv2, acc1, hr]
      simp
    · intro x hx
      rcases List.mem_cons.mp hx with rfl | hx
      · exact ha
      · exact hall x hx

/-- what `deserializationUnsigned` guarantees -/
def WfHU (u : HeaderU) : Prop :=
  u.version < 256 ^ 4 ∧ u.prevHash.length = 32 ∧ u.txRoot.length = 32 ∧ u.blockRoot.length = 32 ∧
  u.timestamp < 256 ^ 4 ∧ u.height < 256 ^ 4 ∧ u.consensusData < 256 ^ 8 ∧ u.nextBookkeeper.length = 20 ∧
  u.consensusPayload.length < two64

theorem parseHeaderUnsigned_spec (s : Src) (w : s.wf) :
    SpecAt parseHeaderUnsigned s (fun u s' => seg s s' = serHeaderU u ∧ WfHU u) := by
  unfold parseHeaderUnsigned
  apply enc_step (Adv.refl w) (seg_self s) (rUintN_spec 4 (by unfold two64; omega) s w)
  intro ver s1 h1 adv1 acc1
  apply enc_step adv1 acc1 (rBytesN_spec 32 (by unfold two64; omega) s1 (adv1.wf w))
  intro prev s2 h2 adv2 acc2
  apply enc_step adv2 acc2 (rBytesN_spec 32 (by unfold two64; omega) s2 (adv2.wf w))
  intro txr s3 h3 adv3 acc3
  apply enc_step adv3 acc3 (rBytesN_spec 32 (by unfold two64; omega) s3 (adv3.wf w))
  intro blr s4 h4 adv4 acc4
  apply enc_step adv4 acc4 (rUintN_spec 4 (by unfold two64; omega) s4 (adv4.wf w))
  intro ts s5 h5 adv5 acc5
  apply enc_step adv5 acc5 (rUintN_spec 4 (by unfold two64; omega) s5 (adv5.wf w))
  intro ht s6 h6 adv6 acc6
  apply enc_step adv6 acc6 (rUintN_spec 8 (by unfold two64; omega) s6 (adv6.wf w))
  intro cd s7 h7 adv7 acc7
  apply enc_step adv7 acc7 (rVarBytes_spec2 true s7 (adv7.wf w))
  intro cp s8 h8 adv8 acc8
  apply enc_step adv8 acc8 (rBytesN_spec 20 (by unfold two64; omega) s8 (adv8.wf w))
  intro nb s9 h9 adv9 acc9
  apply spec_pure (adv9.wf w)
  refine ⟨?_, h1, h2, h3, h4, h5, h6, h7, h9, h8⟩
  rw [acc9]
  simp [serHeaderU, writeUintN]

theorem parseKey_spec (V : Variant) (K : Keys) (s : Src) (w : s.wf) :
    SpecAt (parseKey V K) s (fun kc s' => seg s s' = writeVarBytes kc.1 ∧
      (K.canon kc.1 = some kc.2 ∧ (V = .sound → kc.2 = kc.1))) := by
  unfold parseKey
  apply enc_step (Adv.refl w) (seg_self s) (rVarBytes_spec true s w)
  intro buf s1 _ adv1 acc1
  split
  · exact spec_fail
  · rename_i c hc
    cases V
    · apply spec_pure (adv1.wf w)
      exact ⟨by rw [acc1]; simp, hc, by intro h; cases h⟩
    · simp only
      split
      · rename_i heq
        apply spec_pure (adv1.wf w)
        exact ⟨by rw [acc1]; simp, hc, fun _ => heq⟩
      · exact spec_fail

/-- the bytes of a var-bytes list as they are on the wire (count as read, blobs as read) -/
def wireList (count : Nat) (l : List Bytes) : Bytes := writeVarUint count ++ (l.map writeVarBytes).flatten

/-- postcondition of `Header.Deserialization` -/
def HeaderPost (V : Variant) (K : Keys) (s : Src) (h : Header) (s' : Src) : Prop :=
  seg s s' = serHeaderU h.u ++ wireList h.bkCount h.bkRaw ++ wireList h.sigCount h.sigData ∧
  WfHU h.u ∧
  h.bkRaw.length = h.bkCount ∧ h.sigData.length = h.sigCount ∧
  h.bookkeepers.length = h.bkRaw.length ∧
  (∀ i (hi : i < h.bkRaw.length) (hj : i < h.bookkeepers.length), K.canon h.bkRaw[i] = some h.bookkeepers[i]) ∧
  (V = .sound → h.bookkeepers = h.bkRaw)

theorem parseHeader_spec (V : Variant) (K : Keys) (s : Src) (w : s.wf) :
    SpecAt (parseHeader V K) s (HeaderPost V K s) := by
  unfold parseHeader
  apply enc_step (Adv.refl w) (seg_self s) (parseHeaderUnsigned_spec s w)
  intro u s1 hu adv1 acc1
  apply enc_step adv1 acc1 (rVarUint_spec true s1 (adv1.wf w))
  intro n s2 _ adv2 acc2
  apply enc_step adv2 acc2 (repeatP_spec' (parseKey V K) (fun kc => writeVarBytes kc.1)
    (fun kc => K.canon kc.1 = some kc.2 ∧ (V = .sound → kc.2 = kc.1)) (parseKey_spec V K) n s2 (adv2.wf w))
  intro bks s3 ⟨hbl, hball⟩ adv3 acc3
  apply enc_step adv3 acc3 (rVarUint_spec true s3 (adv3.wf w))
  intro m s4 _ adv4 acc4
  apply enc_step adv4 acc4 (repeatP_spec' (rVarBytes true) writeVarBytes (fun _ => True)
    (rVarBytes_spec true) m s4 (adv4.wf w))
  intro sigs s5 ⟨hsl, _⟩ adv5 acc5
  apply spec_pure (adv5.wf w)
  refine ⟨?_, hu, by simpa using hbl, hsl, by simp, ?_, ?_⟩
  · rw [acc5]
    simp [wireList, List.map_map, Function.comp_def]
  · intro i hi hj
    simp only [List.getElem_map]
    exact (hball _ (List.getElem_mem _)).1
  · intro hV
    simp only
    apply List.map_congr_left
    intro kc hkc
    exact (hball kc hkc).2 hV


theorem deserialize_spec' (R : Rlp) (s : Src) (w : s.wf) :
    SpecAt (deserialize R) s (fun t s' => (R.canonical → seg s s' = t.raw) ∧ True) :=
  spec_mono (deserialize_spec R s w) (fun _ _ _ h => ⟨fun hR => (raw_eq_seg hR h).symm, trivial⟩)

/-- the transaction loop: as many transactions as announced, their hashes pairwise different and different from
the ones seen before, and (for a canonical RLP library) the consumed bytes are the concatenation of the `Raw`s -/
theorem parseTxs_spec (R : Rlp) (hs : Hashes) (n : Nat) (seen : List Bytes) (hseen : seen.Nodup) (s : Src) (w : s.wf) :
    SpecAt (parseTxs R hs n seen) s (fun txs s' =>
      txs.length = n ∧ (seen ++ txs.map hs.txHash).Nodup ∧
      (R.canonical → seg s s' = (txs.map (·.raw)).flatten)) := by
  induction n generalizing s seen with
  | zero =>
    unfold parseTxs
    apply spec_pure w
    simp [seg_self, hseen]
  | succ n ih =>
    unfold parseTxs
    apply spec_bind' (deserialize_spec' R s w)
    intro t s1 adv1 ⟨hraw, _⟩
    try dsimp only
    split
    · exact spec_fail_bind
    rename_i hnot
    have hnot' : hs.txHash t ∉ seen := by simpa using hnot
    have hseen' : (seen ++ [hs.txHash t]).Nodup := by
      rw [List.nodup_append]
      refine ⟨hseen, by simp, ?_⟩
      intro a ha b hb
      simp at hb
      subst hb
      intro hab
      subst hab
      exact hnot' ha
    apply spec_bind' (ih (seen ++ [hs.txHash t]) hseen' s1 (adv1.wf w))
    intro r s2 adv2 ⟨hl, hnd, hsegr⟩
    apply spec_pure ((adv1.trans adv2).wf w)
    refine ⟨by simp [hl], ?_, ?_⟩
    · simpa using hnd
    · intro hR
      rw [seg_trans adv1 adv2, hraw hR, hsegr hR]
      simp


/-- postcondition of `Block.Deserialization` -/
def BlockPost (V : Variant) (K : Keys) (R : Rlp) (hs : Hashes) (s : Src) (b : Block) (s' : Src) : Prop :=
  ∃ s1, Adv s s1 ∧ Adv s1 s' ∧ HeaderPost V K s b.header s1 ∧
    b.txs.length < 256 ^ 4 ∧
    (b.txs.map hs.txHash).Nodup ∧
    b.header.u.txRoot = computeMerkleRoot hs.node (b.txs.map hs.txHash) ∧
    (R.canonical → seg s1 s' = writeUintN 4 b.txs.length ++ (b.txs.map (·.raw)).flatten)

theorem parseBlock_spec (V : Variant) (K : Keys) (R : Rlp) (hs : Hashes) (s : Src) (w : s.wf) :
    SpecAt (parseBlock V K R hs) s (BlockPost V K R hs s) := by
  unfold parseBlock
  apply spec_bind' (parseHeader_spec V K s w)
  intro h s1 adv1 hpost
  apply enc_step (Adv.refl (adv1.wf w)) (seg_self s1) (rUintN_spec 4 (by unfold two64; omega) s1 (adv1.wf w))
  intro n s2 hn adv2 acc2
  apply spec_bind' (parseTxs_spec R hs n [] List.nodup_nil s2 (adv2.wf (adv1.wf w)))
  intro txs s3 adv3 ⟨hl, hnd, hseg⟩
  try dsimp only
  split
  · exact spec_fail_bind
  rename_i hroot
  have hroot' : h.u.txRoot = computeMerkleRoot hs.node (txs.map hs.txHash) := by simpa using hroot
  apply spec_pure ((adv2.trans adv3).wf (adv1.wf w))
  refine ⟨s1, adv1, adv2.trans adv3, hpost, by rw [hl]; exact hn, by simpa using hnd, hroot', ?_⟩
  intro hR
  rw [seg_trans adv2 adv3, acc2, hseg hR, hl]
  simp [writeUintN]


/-- the unsigned header serialisation determines every unsigned field -/
theorem serHeaderU_inj (u v : HeaderU) (hu : WfHU u) (hv : WfHU v)
    (h : serHeaderU u = serHeaderU v) : u = v := by
  obtain ⟨u1, u2, u3, u4, u5, u6, u7, u8, lu⟩ := hu
  obtain ⟨v1, v2, v3, v4, v5, v6, v7, v8, lv⟩ := hv
  unfold serHeaderU writeUintN at h
  simp only [List.append_assoc] at h
  obtain ⟨e1, h⟩ := List.append_inj h (by simp [leN_length])
  obtain ⟨e2, h⟩ := List.append_inj h (by rw [u2, v2])
  obtain ⟨e3, h⟩ := List.append_inj h (by rw [u3, v3])
  obtain ⟨e4, h⟩ := List.append_inj h (by rw [u4, v4])
  obtain ⟨e5, h⟩ := List.append_inj h (by simp [leN_length])
  obtain ⟨e6, h⟩ := List.append_inj h (by simp [leN_length])
  obtain ⟨e7, h⟩ := List.append_inj h (by simp [leN_length])
  obtain ⟨e8, e9⟩ := writeVarBytes_prefix_inj _ _ lu lv _ _ h
  have f1 := leN_inj 4 _ _ u1 v1 e1
  have f5 := leN_inj 4 _ _ u5 v5 e5
  have f6 := leN_inj 4 _ _ u6 v6 e6
  have f7 := leN_inj 8 _ _ u7 v7 e7
  cases u; cases v
  simp only at f1 e2 e3 e4 f5 f6 f7 e8 e9
  subst f1 e2 e3 e4 f5 f6 f7 e8 e9
  rfl

/-! ### The duplicate-last merkle tree -/

/-- no two different pairs have the same node hash -/
def NodeInj (node : Bytes → Bytes → Bytes) : Prop := ∀ a b c d, node a b = node c d → a = c ∧ b = d

theorem level_length (node : Bytes → Bytes → Bytes) : ∀ l : List Bytes, (level node l).length = (l.length + 1) / 2
  | [] => rfl
  | [a] => by simp [level]
  | a :: b :: r => by
    simp only [level, List.length_cons, level_length node r]
    omega

theorem mem_level (node : Bytes → Bytes → Bytes) : ∀ (l : List Bytes) (x : Bytes), x ∈ level node l →
    ∃ p q, p ∈ l ∧ x = node p q
  | [], x, h => by simp [level] at h
  | [a], x, h => by
    simp only [level, List.mem_singleton] at h
    exact ⟨a, a, by simp, h⟩
  | a :: b :: r, x, h => by
    simp only [level, List.mem_cons] at h
    rcases h with h | h
    · exact ⟨a, b, by simp, h⟩
    · obtain ⟨p, q, hp, hx⟩ := mem_level node r x h
      exact ⟨p, q, by simp [hp], hx⟩

theorem level_nodup (node : Bytes → Bytes → Bytes) (inj : NodeInj node) :
    ∀ l : List Bytes, l.Nodup → (level node l).Nodup
  | [], _ => by simp [level]
  | [a], _ => by simp [level]
  | a :: b :: r, h => by
    simp only [level]
    rw [List.nodup_cons] at h ⊢
    obtain ⟨ha, hr⟩ := h
    rw [List.nodup_cons] at hr
    refine ⟨?_, level_nodup node inj r hr.2⟩
    intro hm
    obtain ⟨p, q, hp, hx⟩ := mem_level node r _ hm
    have := (inj _ _ _ _ hx).1
    subst this
    exact ha (by simp [hp])

/-- one level is injective on duplicate-free lists -/
theorem level_inj (node : Bytes → Bytes → Bytes) (inj : NodeInj node) :
    ∀ xs ys : List Bytes, xs.Nodup → ys.Nodup → level node xs = level node ys → xs = ys
  | [], [], _, _, _ => rfl
  | [], [b], _, _, h => by simp [level] at h
  | [], b :: c :: r, _, _, h => by simp [level] at h
  | [a], [], _, _, h => by simp [level] at h
  | a :: b :: r, [], _, _, h => by simp [level] at h
  | [a], [b], _, _, h => by
    simp only [level, List.cons.injEq, and_true] at h
    rw [(inj _ _ _ _ h).1]
  | [a], b :: c :: r, _, hy, h => by
    exfalso
    simp only [level, List.cons.injEq] at h
    obtain ⟨h1, h2⟩ := h
    have := inj _ _ _ _ h1
    have hbc : b = c := by rw [← this.1, ← this.2]
    subst hbc
    simp at hy
  | a :: b :: r, [c], hx, _, h => by
    exfalso
    simp only [level, List.cons.injEq] at h
    obtain ⟨h1, h2⟩ := h
    have := inj _ _ _ _ h1
    have hab : a = b := by rw [this.1, this.2]
    subst hab
    simp at hx
  | a :: b :: r, c :: d :: r', hx, hy, h => by
    simp only [level, List.cons.injEq] at h
    obtain ⟨h1, h2⟩ := h
    obtain ⟨e1, e2⟩ := inj _ _ _ _ h1
    subst e1 e2
    have hx' : r.Nodup := by
      rw [List.nodup_cons, List.nodup_cons] at hx; exact hx.2.2
    have hy' : r'.Nodup := by
      rw [List.nodup_cons, List.nodup_cons] at hy; exact hy.2.2
    rw [level_inj node inj r r' hx' hy' h2]

/-- `k` rounds of pairing -/
def iter (node : Bytes → Bytes → Bytes) : Nat → List Bytes → List Bytes
  | 0, l => l
  | k+1, l => level node (iter node k l)

theorem iter_succ' (node : Bytes → Bytes → Bytes) (k : Nat) (l : List Bytes) :
    iter node (k+1) l = iter node k (level node l) := by
  induction k with
  | zero => rfl
  | succ k ih =>
    show level node (iter node (k+1) l) = level node (iter node k (level node l))
    rw [ih]

theorem iter_nodup (node : Bytes → Bytes → Bytes) (inj : NodeInj node) (k : Nat) (l : List Bytes) (h : l.Nodup) :
    (iter node (k) l).Nodup := by
  induction k generalizing l with
  | zero => exact h
  | succ k ih =>
    exact level_nodup node inj _ (ih l h)

/-- equal iterates of duplicate-free lists: either the same depth and the same list, or one list is an inner level
of the other tree -/
theorem iter_eq (node : Bytes → Bytes → Bytes) (inj : NodeInj node) (xs ys : List Bytes) (hx : xs.Nodup) (hy : ys.Nodup) :
    ∀ i j : Nat, iter node (i) xs = iter node (j) ys →
      xs = ys ∨ (∃ d, d > 0 ∧ xs = iter node (d) ys) ∨ (∃ d, d > 0 ∧ ys = iter node (d) xs)
  | 0, 0, h => Or.inl h
  | 0, j+1, h => Or.inr (Or.inl ⟨j+1, by omega, h⟩)
  | i+1, 0, h => Or.inr (Or.inr ⟨i+1, by omega, h.symm⟩)
  | i+1, j+1, h => by
    exact iter_eq node inj xs ys hx hy i j
      (level_inj node inj _ _ (iter_nodup node inj i xs hx) (iter_nodup node inj j ys hy) h)

theorem rootFuel_iter (node : Bytes → Bytes → Bytes) : ∀ (f : Nat) (l : List Bytes), l ≠ [] → l.length ≤ f + 1 →
    ∃ k, iter node (k) l = [rootFuel node f l]
  | 0, l, hne, hl => by
    match l, hne, hl with
    | [a], _, _ => exact ⟨0, rfl⟩
    | a :: b :: r, _, hl => simp at hl
  | f+1, l, hne, hl => by
    match l, hne, hl with
    | [a], _, _ => exact ⟨0, rfl⟩
    | a :: b :: r, _, hl =>
      have hlen : (level node (a :: b :: r)).length ≤ f + 1 := by
        rw [level_length]; simp only [List.length_cons] at hl ⊢; omega
      have hne' : level node (a :: b :: r) ≠ [] := by simp [level]
      obtain ⟨k, hk⟩ := rootFuel_iter node f (level node (a :: b :: r)) hne' hlen
      exact ⟨k+1, by rw [iter_succ']; exact hk⟩

theorem root_iter (node : Bytes → Bytes → Bytes) (l : List Bytes) (hne : l ≠ []) :
    ∃ k, iter node (k) l = [computeMerkleRoot node l] :=
  rootFuel_iter node l.length l hne (by omega)

theorem root_nil (node : Bytes → Bytes → Bytes) : computeMerkleRoot node [] = zeroHash := rfl

/-- an element of an inner level is a node hash -/
theorem iter_mem_node (node : Bytes → Bytes → Bytes) (d : Nat) (hd : d > 0) (l : List Bytes) (x : Bytes)
    (h : x ∈ iter node (d) l) : ∃ p q, x = node p q := by
  obtain ⟨d', rfl⟩ : ∃ d', d = d' + 1 := ⟨d - 1, by omega⟩
  obtain ⟨p, q, _, hx⟩ := mem_level node _ x h
  exact ⟨p, q, hx⟩


theorem header_post_of_ok {V : Variant} {K : Keys} {s : Src} (w : s.wf) {h : Header} {s' : Src}
    (hp : parseHeader V K s = .ok h s') : Adv s s' ∧ HeaderPost V K s h s' := by
  have := parseHeader_spec V K s w
  unfold SpecAt at this
  rw [hp] at this
  exact this

theorem block_post_of_ok {V : Variant} {K : Keys} {R : Rlp} {hs : Hashes} {s : Src} (w : s.wf) {b : Block} {s' : Src}
    (hp : parseBlock V K R hs s = .ok b s') : Adv s s' ∧ BlockPost V K R hs s b s' := by
  have := parseBlock_spec V K R hs s w
  unfold SpecAt at this
  rw [hp] at this
  exact this

/-- the wire form of a list equals the encoder's output when the announced count is the number of entries -/
theorem wireList_eq_serList (count : Nat) (l : List Bytes) (h : l.length = count) : wireList count l = serList l := by
  unfold wireList serList
  rw [h]

theorem header_reencode {V : Variant} {K : Keys} {s : Src} {h : Header} {s' : Src}
    (post : HeaderPost V K s h s') (hc : h.bookkeepers = h.bkRaw) : serHeader h = seg s s' := by
  obtain ⟨hseg, _, hbl, hsl, _, _, _⟩ := post
  rw [hseg]
  unfold serHeader
  rw [hc, wireList_eq_serList _ _ hbl, wireList_eq_serList _ _ hsl]

/-! ### RawHeader and CrossChainMsg -/

theorem skipIgn_spec (n : Nat) (s : Src) (w : s.wf) : SpecAt (skipIgn n) s (fun _ _ => True) :=
  spec_of_eq (p := skipIgn n) rfl (skip_adv s n w) trivial

theorem skipE_spec (n : Nat) (s : Src) (w : s.wf) : SpecAt (skipE n) s (fun _ _ => True) := by
  have hadv := skip_adv s n w
  cases h : skip s n with
  | mk eof s' =>
    rw [h] at hadv
    cases eof
    · exact spec_of_eq (p := skipE n) (s' := s') (a := ()) (by unfold skipE; rw [h]; rfl) hadv trivial
    · unfold SpecAt skipE
      rw [h]
      trivial

theorem rUintNIgn_spec (k : Nat) (hk : k < two64) (s : Src) (w : s.wf) : SpecAt (rUintNIgn k) s (fun _ _ => True) := by
  obtain ⟨r, s', h, adv⟩ := nextUintN_total k s w hk
  obtain ⟨v, e⟩ := r
  exact spec_of_eq (p := rUintNIgn k) (s' := s') (a := v) (by unfold rUintNIgn; rw [h]) adv trivial

theorem spec_true {α : Type} {p : P α} {s : Src} {R : α → Src → Prop} (h : SpecAt p s R) :
    SpecAt p s (fun _ _ => True) := spec_mono h (fun _ _ _ _ => trivial)

theorem parseRawHeaderUnsigned_spec (s : Src) (w : s.wf) : SpecAt parseRawHeaderUnsigned s (fun _ _ => True) := by
  unfold parseRawHeaderUnsigned
  apply spec_bind' (skipIgn_spec _ s w)
  intro _ s1 a1 _
  apply spec_bind' (rUintNIgn_spec 4 (by unfold two64; omega) s1 (a1.wf w))
  intro ht s2 a2 _
  have w2 := a2.wf (a1.wf w)
  apply spec_bind' (skipIgn_spec _ s2 w2)
  intro _ s3 a3 _
  have w3 := a3.wf w2
  apply spec_bind' (rVarBytes_spec true s3 w3)
  intro _ s4 a4 _
  have w4 := a4.wf w3
  apply spec_bind' (skipE_spec _ s4 w4)
  intro _ s5 a5 _
  exact spec_pure (a5.wf w4) trivial

theorem parseRawHeader_spec (s : Src) (w : s.wf) :
    SpecAt parseRawHeader s (fun r s' => r.payload = seg s s') := by
  unfold parseRawHeader
  apply spec_bind' (pos_spec s w)
  intro pstart sx _ ⟨hp, hsx⟩
  rw [hp, hsx]
  apply spec_bind' (parseRawHeaderUnsigned_spec s w)
  intro ht s1 a1 _
  have w1 := a1.wf w
  apply spec_bind' (rVarUint_spec true s1 w1)
  intro n s2 a2 _
  have w2 := a2.wf w1
  apply spec_bind' (repeatP_spec' (rVarBytes true) writeVarBytes (fun _ => True) (rVarBytes_spec true) n s2 w2)
  intro _ s3 a3 _
  have w3 := a3.wf w2
  apply spec_bind' (rVarUint_spec true s3 w3)
  intro m s4 a4 _
  have w4 := a4.wf w3
  apply spec_bind' (repeatP_spec' (rVarBytes true) writeVarBytes (fun _ => True) (rVarBytes_spec true) m s4 w4)
  intro _ s5 a5 _
  have w5 := a5.wf w4
  have adv5 : Adv s s5 := a1.trans (a2.trans (a3.trans (a4.trans a5)))
  apply spec_bind' (captured_spec w adv5)
  intro payload sy _ ⟨hpl, hsy⟩
  rw [hsy]
  exact spec_pure w5 hpl

theorem allInvalid_spec {α : Type} {p : P α} {s : Src} {R : α → Src → Prop} (h : SpecAt p s R) :
    SpecAt (allInvalid p) s R := by
  unfold SpecAt at h ⊢
  unfold allInvalid
  cases hp : p s with
  | ok a s' => rw [hp] at h; exact h
  | err e => trivial
  | panic => rw [hp] at h; exact h

theorem parseCCMPrefix_spec (s : Src) (w : s.wf) :
    SpecAt parseCCMPrefix s (fun a s' => seg s s' = [a.1] ++ writeUintN 4 a.2.1 ++ a.2.2.1 ++ writeVarUint a.2.2.2) := by
  unfold parseCCMPrefix
  apply enc_step (Adv.refl w) (seg_self s) (allInvalid_spec (rByte_spec s w))
  intro v s1 _ adv1 acc1
  apply enc_step adv1 acc1 (allInvalid_spec (rUintN_spec 4 (by unfold two64; omega) s1 (adv1.wf w)))
  intro h s2 _ adv2 acc2
  apply enc_step adv2 acc2 (allInvalid_spec (rBytesN_spec 32 (by unfold two64; omega) s2 (adv2.wf w)))
  intro r s3 _ adv3 acc3
  apply enc_step adv3 acc3 (allInvalid_spec (rVarUint_spec false s3 (adv3.wf w)))
  intro n s4 _ adv4 acc4
  apply spec_pure (adv4.wf w)
  rw [acc4]
  simp [writeUintN]

theorem ccm_sigs_spec (n : Nat) (s : Src) (w : s.wf) :
    SpecAt (allInvalid (repeatP n (rVarBytes false))) s
      (fun l s' => seg s s' = (l.map writeVarBytes).flatten ∧ l.length = n) :=
  allInvalid_spec (spec_mono (repeatP_spec' (rVarBytes false) writeVarBytes (fun _ => True) (rVarBytes_spec false) n s w)
    (fun _ _ _ h => ⟨h.1, h.2.1⟩))

theorem parseCCMsg_spec (s : Src) (w : s.wf) :
    SpecAt parseCCMsg s (fun m s' => seg s s' = serCCMsg m) := by
  unfold parseCCMsg
  apply enc_step (Adv.refl w) (seg_self s) (spec_mono (parseCCMPrefix_spec s w) (fun _ _ _ h => ⟨h, trivial⟩))
  intro a s1 _ adv1 acc1
  apply spec_bind' (ccm_sigs_spec a.2.2.2 s1 (adv1.wf w))
  intro sigs s2 adv2 ⟨hseg, hl⟩
  apply spec_pure ((adv1.trans adv2).wf w)
  rw [seg_trans adv1 adv2, acc1, hseg]
  unfold serCCMsg serList
  simp only [hl, List.nil_append, List.append_assoc]

end OntVerif.Proofs.Block
