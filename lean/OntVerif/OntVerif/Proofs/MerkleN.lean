import OntVerif.Proofs.MerkleM
namespace OntVerif.Proofs.Merkle
open OntVerif.Util OntVerif.Model.Merkle

theorem foldl_add_cons (a : Nat) (l : List Nat) : ∀ acc, List.foldl (· + ·) acc (a :: l) = a + List.foldl (· + ·) acc l := by
  induction l with
  | nil => intro acc; simp; omega
  | cons b r ih =>
    intro acc
    simp only [List.foldl_cons] at ih ⊢
    rw [show acc + a + b = acc + b + a by omega]
    exact ih (acc + b)

section
variable {Hash : Type} (H1 : Hash → Hash → Hash) (He : Hash)

/-- `getStoredHashNum(n)` is the number of hashes the store holds after `n` appends -/
theorem lay_length (n : Nat) : ∀ D : List Hash, D.length = n → (lay H1 He D).length = storedHashNum n := by
  induction n using Nat.strongRecOn with
  | _ n ih =>
    intro D hD
    by_cases h0 : n = 0
    · subst h0
      have : D = [] := List.eq_nil_of_length_eq_zero hD
      subst this
      simp [lay_nil, storedHashNum, getSubTreeSize, subSizesR]
    · obtain ⟨y, hy1, hy2⟩ := high_bit n (by omega)
      have hp := Nat.two_pow_pos y
      have hlay : lay H1 He D = post H1 He y (D.take (2 ^ y)) ++ lay H1 He (D.drop (2 ^ y)) := by
        unfold lay
        have := layoutR_high H1 He y 0 D.length D (by simp) (by omega) (by omega)
        simp only [Nat.add_zero] at this
        rw [this, List.length_drop, hD]
      rw [hlay, List.length_append, post_length H1 He y _ (by rw [List.length_take]; omega),
        ih (n - 2 ^ y) (by omega) _ (by rw [List.length_drop]; omega)]
      unfold storedHashNum
      rw [getSubTreeSize_high y n hy1 hy2, foldl_add_cons]

end

section
variable {Hash : Type}
/-- the tree obtained from `NewTree(0, nil, emptyStore)` by appending the leaf hashes `L` -/
def Built (H1 : Hash → Hash → Hash) (t : Tree Hash) (L : List Hash) : Prop :=
  (⟨0, [], some []⟩ : Tree Hash).appendAll H1 L = some t

theorem built_holds (H1 : Hash → Hash → Hash) (He : Hash) (t : Tree Hash) (L : List Hash) (h : Built H1 t L) :
    Holds H1 He t L ∧ ∃ s, t.store = some s := by
  obtain ⟨t', h1, h2, h3⟩ := holds_appendAll H1 He L ⟨0, [], some []⟩ [] (holds_empty H1 He _ (Or.inr rfl))
  unfold Built at h
  rw [h] at h1
  cases h1
  refine ⟨by simpa using h2, ?_⟩
  cases hs : t.store with
  | none => have := h3.1 hs; simp at this
  | some s => exact ⟨s, rfl⟩

end

theorem no_collision1_T : ¬ Collision1 T.node := fun h => no_collision_T (Or.inl h)

end OntVerif.Proofs.Merkle
