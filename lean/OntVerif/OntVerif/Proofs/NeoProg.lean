import OntVerif.Proofs.NeoVal
import OntVerif.Model.NeoProg
/-! Helper lemmas for C15: the VM operations keep every map of the heap canonical; `run` is independent of the iteration
orders as soon as `Serialize` is. Core-only. -/
namespace OntVerif.Proofs.NeoProg
open OntVerif.Util OntVerif.Model.Codec OntVerif.Model.NeoVal OntVerif.Model.NeoProg OntVerif.Proofs.NeoVal

/-! ## every VM operation keeps the maps of the heap canonical -/

theorem mem_mapSet {e y : Entry} : ∀ {l : List Entry}, y ∈ mapSet e l → y = e ∨ y ∈ l
  | [], h => by simp [mapSet] at h; exact .inl h
  | x :: xs, h => by
    unfold mapSet at h
    split at h
    · rcases List.mem_cons.mp h with h | h
      · exact .inl h
      · exact .inr (List.mem_cons_of_mem _ h)
    · split at h
      · rcases List.mem_cons.mp h with h | h
        · exact .inl h
        · exact .inr h
      · rcases List.mem_cons.mp h with h | h
        · exact .inr (h ▸ List.mem_cons_self)
        · rcases mem_mapSet h with h | h
          · exact .inl h
          · exact .inr (List.mem_cons_of_mem _ h)

theorem mapSet_sorted (e : Entry) : ∀ l, SortedK l → SortedK (mapSet e l)
  | [], _ => List.pairwise_singleton _ _
  | x :: xs, hs => by
    obtain ⟨hx, hxs⟩ := List.pairwise_cons.mp hs
    unfold mapSet
    split
    · rename_i hk
      refine List.Pairwise.cons ?_ hxs
      intro y hy
      have := hx y hy
      rw [hk] at this
      exact this
    · rename_i hk
      split
      · rename_i hle
        refine List.Pairwise.cons ?_ hs
        intro y hy
        rcases List.mem_cons.mp hy with rfl | hy
        · exact ⟨hle, fun c => hk c.symm⟩
        · have hxy := hx y hy
          refine ⟨ble_trans _ _ _ hle hxy.1, ?_⟩
          intro c
          rw [c] at hle
          exact hxy.2 (ble_antisymm _ _ hxy.1 hle)
      · rename_i hle
        have hxe : ble x.key e.key = true := by
          rcases ble_total e.key x.key with h' | h'
          · exact absurd h' hle
          · exact h'
        refine List.Pairwise.cons ?_ (mapSet_sorted e xs hxs)
        intro y hy
        rcases mem_mapSet hy with rfl | hy
        · exact ⟨hxe, hk⟩
        · exact hx y hy

theorem mapRemove_sorted (k : Bytes) : ∀ l, SortedK l → SortedK (mapRemove k l)
  | [], _ => List.Pairwise.nil
  | x :: xs, hs => by
    obtain ⟨hx, hxs⟩ := List.pairwise_cons.mp hs
    unfold mapRemove
    split
    · exact hxs
    · refine List.Pairwise.cons ?_ (mapRemove_sorted k xs hxs)
      intro y hy
      have hsub : ∀ l : List Entry, ∀ y, y ∈ mapRemove k l → y ∈ l := by
        intro l
        induction l with
        | nil => intro y h; exact h
        | cons a as ih =>
          intro y h
          unfold mapRemove at h
          split at h
          · exact List.mem_cons_of_mem _ h
          · rcases List.mem_cons.mp h with h | h
            · exact h ▸ List.mem_cons_self
            · exact List.mem_cons_of_mem _ (ih y h)
      exact hx y (hsub xs y hy)

def objOK : Obj → Prop
  | .map es => SortedK es
  | _ => True

theorem wfMaps_iff (h : Heap) : WFMaps h ↔ ∀ (r : Ref) o, h[r]? = some o → objOK o := by
  constructor
  · intro w r o ho
    cases o with
    | map es => exact w r es ho
    | _ => trivial
  · intro w r es ho
    exact w r _ ho

theorem wfMaps_append {h : Heap} (w : WFMaps h) {o : Obj} (ho : objOK o) : WFMaps (h ++ [o]) := by
  rw [wfMaps_iff] at w ⊢
  intro r o' hr
  rw [List.getElem?_append] at hr
  split at hr
  · exact w r o' hr
  · rename_i hlt
    cases hi : r - h.length with
    | zero => rw [hi] at hr; simp at hr; subst hr; exact ho
    | succ n => rw [hi] at hr; simp at hr

theorem wfMaps_set {h : Heap} (w : WFMaps h) (r : Ref) {o : Obj} (ho : objOK o) : WFMaps (h.set r o) := by
  rw [wfMaps_iff] at w ⊢
  intro r' o' hr
  rw [List.getElem?_set] at hr
  split at hr
  · split at hr
    · cases hr; exact ho
    · cases hr
  · exact w r' o' hr


theorem cloneList_wf (rec : Ref → Heap → Nat → Option (Ref × Heap × Nat))
    (hrec : ∀ r h len r' h' len', rec r h len = some (r', h', len') → WFMaps h → WFMaps h') (h0 : Heap) :
    ∀ vs h len vs' h' len', cloneList rec h0 vs h len = some (vs', h', len') → WFMaps h → WFMaps h' := by
  intro vs
  induction vs with
  | nil => intro h len vs' h' len' he w; simp only [cloneList] at he; cases he; exact w
  | cons v vs ih =>
    intro h len vs' h' len' he w
    simp only [cloneList] at he
    split at he
    · cases he
    · rename_i v1 h1 len1 hr1
      split at he
      · cases he
      · rename_i vs2 h2 len2 hr2
        cases he
        refine ih _ _ _ _ _ hr2 ?_
        -- h1 is either h or produced by rec
        split at hr1
        · rename_i r
          split at hr1
          · cases hm : rec r h (len + 1) with
            | none => rw [hm] at hr1; cases hr1
            | some p =>
              obtain ⟨r', hh, l'⟩ := p
              rw [hm] at hr1
              simp only [Option.map_some] at hr1
              cases hr1
              exact hrec _ _ _ _ _ _ hm w
          · cases hr1; exact w
        · cases hr1; exact w

theorem cloneStruct_wf : ∀ f r h len r' h' len', cloneStruct f r h len = some (r', h', len') → WFMaps h → WFMaps h' := by
  intro f
  induction f with
  | zero => intro r h len r' h' len' he; simp [cloneStruct] at he
  | succ f ih =>
    intro r h len r' h' len' he w
    unfold cloneStruct at he
    split at he
    · cases he
    · split at he
      · rename_i vs ho
        split at he
        · cases he
        · rename_i vs' h1 len1 hc
          cases he
          exact wfMaps_append (cloneList_wf (cloneStruct f) ih h vs h len _ _ _ hc w) trivial
      · cases he

theorem cloneIfStruct_wf {h : Heap} {v v' : Val} {h' : Heap} (he : cloneIfStruct h v = some (v', h')) (w : WFMaps h) :
    WFMaps h' := by
  unfold cloneIfStruct at he
  split at he
  · split at he
    · cases hc : cloneStruct 1100 _ h 0 with
      | none => rw [hc] at he; cases he
      | some p =>
        obtain ⟨r', hh, l'⟩ := p
        rw [hc] at he
        simp only [Option.map_some] at he
        cases he
        exact cloneStruct_wf _ _ _ _ _ _ _ hc w
    · cases he; exact w
  · cases he; exact w

theorem allocList_wf (rec : Tree → Heap → Val × Heap) (hrec : ∀ t h, WFMaps h → WFMaps (rec t h).2) :
    ∀ ts h, WFMaps h → WFMaps (allocList rec ts h).2 := by
  intro ts
  induction ts with
  | nil => intro h w; exact w
  | cons t ts ih =>
    intro h w
    simp only [allocList]
    exact ih _ (hrec t h w)

theorem foldl_mapSet_sorted {α : Type} (f : α → Entry) : ∀ (l : List α) (acc : List Entry), SortedK acc →
    SortedK (l.foldl (fun acc x => mapSet (f x) acc) acc) := by
  intro l
  induction l with
  | nil => intro acc h; exact h
  | cons x xs ih => intro acc h; exact ih _ (mapSet_sorted _ _ h)

theorem alloc_wf : ∀ f t h, WFMaps h → WFMaps (alloc f t h).2 := by
  intro f
  induction f with
  | zero => intro t h w; cases t <;> exact w
  | succ f ih =>
    intro t h w
    cases t with
    | bytes b => exact w
    | bool b => exact w
    | int z => exact w
    | arr ts => exact wfMaps_append (allocList_wf (alloc f) ih ts h w) trivial
    | struct ts => exact wfMaps_append (allocList_wf (alloc f) ih ts h w) trivial
    | map es =>
      simp only [alloc]
      refine wfMaps_append (allocList_wf (alloc f) ih _ _ (allocList_wf (alloc f) ih _ h w)) ?_
      exact foldl_mapSet_sorted (fun (p : (Bytes × Tree × Tree) × Val × Val) => (⟨p.1.1, p.2.1, p.2.2⟩ : Entry)) _ [] List.Pairwise.nil


theorem alloc_wf' {f : Nat} {t : Tree} {h h1 : Heap} {v : Val} (e : alloc f t h = (v, h1)) (w : WFMaps h) : WFMaps h1 := by
  have := alloc_wf f t h w
  rw [e] at this
  exact this

theorem step_wf (serF : Nat → Heap → Val → Except VErr Bytes) (perm : Perm) (op : Op) (s s' : State)
    (h : step serF perm op s = .ok s') (w : WFMaps s.heap) : WFMaps s'.heap := by
  unfold step at h
  (repeat' split at h) <;> (try simp only at h) <;> (repeat' split at h) <;> (try cases h) <;> (try exact w)
  all_goals first
    | exact wfMaps_append w trivial
    | exact wfMaps_append w List.Pairwise.nil
    | exact wfMaps_set (cloneIfStruct_wf (by assumption) w) _ trivial
    | exact wfMaps_set w _ trivial
    | exact alloc_wf' (by assumption) w
    | exact wfMaps_set w _ (mapRemove_sorted _ _ (w _ _ (by assumption)))
    | exact wfMaps_set (cloneIfStruct_wf (by assumption) w) _ (mapSet_sorted _ _ ((cloneIfStruct_wf (by assumption) w) _ _ (by assumption)))


theorem step_congr (serF1 serF2 : Nat → Heap → Val → Except VErr Bytes) (p1 p2 : Perm) (op : Op) (s : State)
    (hs : ∀ v, serF1 s.nser s.heap v = serF2 s.nser s.heap v)
    (hk : ∀ (r : Ref) es, s.heap[r]? = some (Obj.map es) → sortedEntries p1 [s.nser] r es = sortedEntries p2 [s.nser] r es) :
    step serF1 p1 op s = step serF2 p2 op s := by
  obtain ⟨heap, stack, alt, notes, nser⟩ := s
  simp only at hs hk
  cases op <;> (rcases stack with _ | ⟨x, _ | ⟨y, _ | ⟨z, st⟩⟩⟩) <;> (try rfl)
  all_goals first
    | (simp only [step, hs]; done)
    | (cases x with
       | ref r =>
         simp only [step]
         cases ho : heap[r]? with
         | none => rfl
         | some o =>
           cases o with
           | map es => simp only [hk r es ho]
           | _ => rfl
       | _ => rfl)


theorem run_perm_free (serF1 serF2 : Nat → Heap → Val → Except VErr Bytes) (p1 p2 : Perm)
    (hs : ∀ k h v, WFMaps h → serF1 k h v = serF2 k h v)
    (hk : ∀ path (r : Ref) es, SortedK es → sortedEntries p1 path r es = sortedEntries p2 path r es) :
    ∀ prog s, WFMaps s.heap → run serF1 p1 prog s = run serF2 p2 prog s := by
  intro prog
  induction prog with
  | nil => intro s _; rfl
  | cons op ops ih =>
    intro s w
    have e := step_congr serF1 serF2 p1 p2 op s (fun v => hs _ _ v w) (fun r es ho => hk _ r es (w r es ho))
    simp only [run, e]
    cases hst : step serF2 p2 op s with
    | error e => rfl
    | ok s' => exact ih s' (step_wf serF2 p2 op s s' hst w)

theorem perm_shift_valid {p : Perm} (hv : p.valid) (k : Nat) : Perm.valid (fun path => p (path ++ [k])) :=
  fun path r es => hv (path ++ [k]) r es

end OntVerif.Proofs.NeoProg
