import OntVerif.Proofs.MerkleE
namespace OntVerif.Proofs.Merkle
open OntVerif.Util OntVerif.Model.Merkle

section
variable {Hash : Type} (H1 : Hash → Hash → Hash) (He : Hash)

/-- RFC 6962 audit path of leaf `m` as (flag, sibling) steps: flag 0 (`LEFT`) = the sibling is the left child -/
def stepsSpec (m : Nat) (D : List Hash) : List (UInt8 × Hash) :=
  if _h : D.length ≤ 1 then [] else
  if m < splitK D.length then stepsSpec m (D.take (splitK D.length)) ++ [(1, mth H1 He (D.drop (splitK D.length)))]
  else stepsSpec (m - splitK D.length) (D.drop (splitK D.length)) ++ [(0, mth H1 He (D.take (splitK D.length)))]
termination_by D.length
decreasing_by
  · rw [List.length_take]; have := splitK_lt (n := D.length) (by omega); omega
  · rw [List.length_drop]; have := splitK_pos D.length; omega

theorem stepsSpec_small (m : Nat) (D : List Hash) (h : D.length ≤ 1) : stepsSpec H1 He m D = [] := by
  rw [stepsSpec]; simp [h]
theorem stepsSpec_left (m : Nat) (D : List Hash) (h : 2 ≤ D.length) (hm : m < splitK D.length) :
    stepsSpec H1 He m D =
      stepsSpec H1 He m (D.take (splitK D.length)) ++ [(1, mth H1 He (D.drop (splitK D.length)))] := by
  rw [stepsSpec]; simp [show ¬ D.length ≤ 1 by omega, hm]
theorem stepsSpec_right (m : Nat) (D : List Hash) (h : 2 ≤ D.length) (hm : ¬ m < splitK D.length) :
    stepsSpec H1 He m D =
      stepsSpec H1 He (m - splitK D.length) (D.drop (splitK D.length)) ++ [(0, mth H1 He (D.take (splitK D.length)))] := by
  rw [stepsSpec]; simp [show ¬ D.length ≤ 1 by omega, hm]

theorem proveFold_append (h : Hash) (a b : List (UInt8 × Hash)) :
    proveFold H1 h (a ++ b) = proveFold H1 (proveFold H1 h a) b := by
  induction a generalizing h with
  | nil => rfl
  | cons s r ih =>
    obtain ⟨f, v⟩ := s
    simp only [List.cons_append, proveFold]
    split <;> exact ih _

/-- folding the RFC audit path of a member gives the tree hash -/
theorem proveFold_complete (n : Nat) : ∀ (D : List Hash) (m : Nat) (leaf : Hash), D.length = n → D[m]? = some leaf →
    proveFold H1 leaf (stepsSpec H1 He m D) = mth H1 He D := by
  induction n using Nat.strongRecOn with
  | _ n ih =>
    intro D m leaf hn hm
    have hmlt : m < D.length := by
      rcases Nat.lt_or_ge m D.length with h | h
      · exact h
      · rw [List.getElem?_eq_none h] at hm; cases hm
    by_cases hs : n ≤ 1
    · have h1 : D.length = 1 := by omega
      match D, h1 with
      | [x], _ =>
        have : m = 0 := by simp at hmlt; omega
        subst this
        simp at hm
        subst hm
        rw [stepsSpec_small H1 He _ _ (by simp)]
        simp [proveFold]
    · subst hn
      have h2 : 2 ≤ D.length := by omega
      have hk := splitK_lt h2
      have hp := splitK_pos D.length
      rw [mth_split H1 He D h2]
      by_cases hlt : m < splitK D.length
      · rw [stepsSpec_left H1 He _ _ h2 hlt, proveFold_append,
          ih (splitK D.length) hk (D.take (splitK D.length)) m leaf (by rw [List.length_take]; omega)
            (by rw [List.getElem?_take_of_lt hlt]; exact hm)]
        simp [proveFold]
      · rw [stepsSpec_right H1 He _ _ h2 hlt, proveFold_append,
          ih (D.length - splitK D.length) (by omega) (D.drop (splitK D.length)) (m - splitK D.length) leaf
            (by rw [List.length_drop])
            (by rw [List.getElem?_drop]; rw [show splitK D.length + (m - splitK D.length) = m by omega]; exact hm)]
        simp [proveFold]

/-- the step `MerkleLeafPath` emits at one level (`none` = index panic) -/
def bottomStep (l : List Hash) (i : Nat) : Option (List (UInt8 × Hash)) :=
  if i = l.length - 1 ∧ l.length % 2 ≠ 0 then some []
  else if i % 2 ≠ 0 then (l[i - 1]?).map (fun s => [(0, s)])
  else (l[i + 1]?).map (fun s => [(1, s)])

theorem leafPathLoop_cons (sub nxt : List Hash) (rest : List (List Hash)) (i : Nat) :
    leafPathLoop (sub :: nxt :: rest) i =
      match bottomStep sub i, leafPathLoop (nxt :: rest) (i / 2) with
      | some b, some r => some (b ++ r)
      | _, _ => none := by
  rw [leafPathLoop]
  case x_2 => intro h; cases h
  unfold bottomStep
  by_cases h1 : i = sub.length - 1 ∧ sub.length % 2 ≠ 0
  · rw [if_pos h1, if_pos h1]
    cases leafPathLoop (nxt :: rest) (i / 2) <;> simp
  · rw [if_neg h1, if_neg h1]
    by_cases h2 : i % 2 ≠ 0
    · rw [if_pos h2, if_pos h2]
      cases sub[i - 1]? <;> cases leafPathLoop (nxt :: rest) (i / 2) <;> simp
    · rw [if_neg h2, if_neg h2]
      cases sub[i + 1]? <;> cases leafPathLoop (nxt :: rest) (i / 2) <;> simp

theorem bottomStep_take (l : List Hash) (k i : Nat) (hk : k % 2 = 0) (hkn : k < l.length) (hi : i < k) :
    bottomStep (l.take k) i = bottomStep l i := by
  unfold bottomStep
  have hlen : (l.take k).length = k := by rw [List.length_take]; omega
  rw [hlen]
  have c1 : ¬ (i = k - 1 ∧ k % 2 ≠ 0) := by omega
  have c2 : ¬ (i = l.length - 1 ∧ l.length % 2 ≠ 0) := by omega
  rw [if_neg c1, if_neg c2]
  by_cases h2 : i % 2 ≠ 0
  · rw [if_pos h2, if_pos h2, List.getElem?_take_of_lt (by omega)]
  · rw [if_neg h2, if_neg h2, List.getElem?_take_of_lt (by omega)]

theorem bottomStep_drop (l : List Hash) (k i : Nat) (hk : k % 2 = 0) (hkn : k < l.length) (hi : k ≤ i) (hin : i < l.length) :
    bottomStep (l.drop k) (i - k) = bottomStep l i := by
  unfold bottomStep
  rw [List.length_drop]
  by_cases c : i = l.length - 1 ∧ l.length % 2 ≠ 0
  · have c' : i - k = l.length - k - 1 ∧ (l.length - k) % 2 ≠ 0 := by omega
    rw [if_pos c, if_pos c']
  · have c' : ¬ (i - k = l.length - k - 1 ∧ (l.length - k) % 2 ≠ 0) := by omega
    rw [if_neg c, if_neg c']
    by_cases h2 : i % 2 ≠ 0
    · have h2' : (i - k) % 2 ≠ 0 := by omega
      rw [if_pos h2, if_pos h2', List.getElem?_drop, show k + (i - k - 1) = i - 1 by omega]
    · have h2' : ¬ (i - k) % 2 ≠ 0 := by omega
      rw [if_neg h2, if_neg h2', List.getElem?_drop, show k + (i - k + 1) = i + 1 by omega]

/-- one level of the pairing tree: the RFC audit path is the bottom step followed by the audit path one level up -/
theorem stepsSpec_bottomUp (n : Nat) : ∀ (l : List Hash) (i : Nat), l.length = n → 2 ≤ n → i < n →
    ∃ b, bottomStep l i = some b ∧ stepsSpec H1 He i l = b ++ stepsSpec H1 He (i / 2) (pairLevel H1 l) := by
  induction n using Nat.strongRecOn with
  | _ n ih =>
    intro l i hl h2 hi
    by_cases h3 : 3 ≤ n
    · obtain ⟨hk, hP2⟩ := splitK_half h3
      have hkl := splitK_lt (n := n) (by omega)
      have hkp := splitK_pos ((n + 1) / 2)
      have hPl := pairLevel_length H1 n l hl
      have hmP : ∀ j, 2 * j ≤ n → mth H1 He ((pairLevel H1 l).take j) = mth H1 He (l.take (2 * j)) := by
        intro j hj; rw [← pairLevel_take H1 j l (by omega), mth_pairLevel H1 He _ _ rfl]
      have hmD : ∀ j, 2 * j ≤ n → mth H1 He ((pairLevel H1 l).drop j) = mth H1 He (l.drop (2 * j)) := by
        intro j hj; rw [← pairLevel_drop H1 j l (by omega), mth_pairLevel H1 He _ _ rfl]
      by_cases hlt : i < splitK n
      · -- left subtree (2 * k' leaves, full)
        obtain ⟨b, hb, hs⟩ := ih (2 * splitK ((n + 1) / 2)) (by omega) (l.take (2 * splitK ((n + 1) / 2))) i
          (by rw [List.length_take]; omega) (by omega) (by omega)
        rw [bottomStep_take l _ i (by omega) (by omega) (by omega)] at hb
        refine ⟨b, hb, ?_⟩
        rw [stepsSpec_left H1 He i l (by omega) (by rw [hl]; exact hlt), hl, hk, hs, pairLevel_take H1 _ l (by omega),
          stepsSpec_left H1 He (i / 2) (pairLevel H1 l) (by omega) (by rw [hPl]; omega), hPl,
          hmD _ (by omega), List.append_assoc]
      · -- right subtree
        by_cases hr1 : n - splitK n = 1
        · -- a single carried leaf
          have hin : i = n - 1 := by omega
          have hodd : n % 2 ≠ 0 := by omega
          refine ⟨[], by unfold bottomStep; rw [hl]; simp [hin, hodd], ?_⟩
          rw [stepsSpec_right H1 He i l (by omega) (by rw [hl]; exact hlt), hl,
            stepsSpec_small H1 He _ _ (by rw [List.length_drop]; omega),
            stepsSpec_right H1 He (i / 2) (pairLevel H1 l) (by omega) (by rw [hPl]; omega), hPl,
            stepsSpec_small H1 He _ _ (by rw [List.length_drop, hPl]; omega), hmP _ (by omega), hk]
          simp
        · obtain ⟨b, hb, hs⟩ := ih (n - splitK n) (by omega) (l.drop (splitK n)) (i - splitK n)
            (by rw [List.length_drop]; omega) (by omega) (by omega)
          rw [bottomStep_drop l _ i (by omega) (by omega) (by omega) (by omega)] at hb
          refine ⟨b, hb, ?_⟩
          rw [stepsSpec_right H1 He i l (by omega) (by rw [hl]; exact hlt), hl, hs,
            stepsSpec_right H1 He (i / 2) (pairLevel H1 l) (by omega) (by rw [hPl]; omega), hPl,
            hmP _ (by omega), ← hk, List.append_assoc]
          congr 2
          rw [hk, pairLevel_drop H1 _ l (by omega)]
          congr 1
          omega
    · have hn2 : n = 2 := by omega
      subst hn2
      match l, hl with
      | [a, b], _ =>
        have hs : splitK ([a, b] : List Hash).length = 1 := by
          have := splitK_unique (a := 0) (n := 2) (by simp) (by simp)
          simpa using this
        have hi' : i = 0 ∨ i = 1 := by omega
        rcases hi' with rfl | rfl
        · refine ⟨[(1, b)], by simp [bottomStep], ?_⟩
          rw [stepsSpec_left H1 He 0 [a, b] (by simp) (by rw [hs]; omega), hs,
            stepsSpec_small H1 He _ _ (by simp), stepsSpec_small H1 He _ _ (by simp [pairLevel])]
          simp
        · refine ⟨[(0, a)], by simp [bottomStep], ?_⟩
          rw [stepsSpec_right H1 He 1 [a, b] (by simp) (by rw [hs]; omega), hs,
            stepsSpec_small H1 He _ _ (by simp), stepsSpec_small H1 He _ _ (by simp [pairLevel])]
          simp

theorem merkleLevels_succ (d : Nat) (l : List Hash) :
    merkleLevels H1 (d + 1) l = l :: merkleLevels H1 d (pairLevel H1 l) := rfl

theorem merkleLevels_ne_nil (d : Nat) (l : List Hash) : ∃ a r, merkleLevels H1 d l = a :: r := by
  cases d with
  | zero => exact ⟨l, [], rfl⟩
  | succ d => exact ⟨l, _, rfl⟩

/-- **the loop of `MerkleLeafPath` over the levels of `MerkleHashes` emits the RFC 6962 audit path** -/
theorem leafPathLoop_spec (d : Nat) : ∀ (l : List Hash) (i : Nat), 1 ≤ l.length → l.length ≤ 2 ^ d → i < l.length →
    leafPathLoop (merkleLevels H1 d l) i = some (stepsSpec H1 He i l) := by
  induction d with
  | zero =>
    intro l i h1 h2 hi
    simp at h2
    rw [stepsSpec_small H1 He _ _ (by omega)]
    simp [merkleLevels, leafPathLoop]
  | succ d ih =>
    intro l i h1 h2 hi
    rw [merkleLevels_succ]
    obtain ⟨a, r, har⟩ := merkleLevels_ne_nil H1 d (pairLevel H1 l)
    have hPl := pairLevel_length H1 l.length l rfl
    rw [Nat.pow_succ] at h2
    have ihP := ih (pairLevel H1 l) (i / 2) (by omega) (by omega) (by omega)
    rw [har] at ihP ⊢
    rw [leafPathLoop_cons, ihP]
    by_cases hl1 : l.length = 1
    · have hi0 : i = 0 := by omega
      subst hi0
      have hb : bottomStep l 0 = some [] := by unfold bottomStep; simp [hl1]
      rw [hb, stepsSpec_small H1 He _ _ (by omega)]
      match l, hl1 with
      | [x], _ => simp [stepsSpec_small]
    · obtain ⟨b, hb, hs⟩ := stepsSpec_bottomUp H1 He l.length l i rfl (by omega) hi
      rw [hb, hs]

end

section
variable {Hash : Type}
theorem getIndex_spec [DecidableEq Hash] (leaf : Hash) (l : List Hash) : ∀ k i, getIndex leaf l k = some i →
    k ≤ i ∧ l[i - k]? = some leaf := by
  induction l with
  | nil => intro k i h; simp [getIndex] at h
  | cons a t ih =>
    intro k i h
    simp only [getIndex] at h
    by_cases ha : a = leaf
    · simp [ha] at h; subst h; simp [ha]
    · simp only [ha, if_false] at h
      obtain ⟨h1, h2⟩ := ih (k + 1) i h
      refine ⟨by omega, ?_⟩
      rw [show i - k = (i - (k + 1)) + 1 by omega]
      simpa using h2

theorem getIndex_mem [DecidableEq Hash] (leaf : Hash) (l : List Hash) (h : leaf ∈ l) : ∀ k, ∃ i, getIndex leaf l k = some i := by
  induction l with
  | nil => cases h
  | cons a t ih =>
    intro k
    simp only [getIndex]
    by_cases ha : a = leaf
    · exact ⟨k, by simp [ha]⟩
    · simp only [ha, if_false]
      rcases List.mem_cons.1 h with h | h
      · exact absurd h.symm ha
      · exact ih h (k + 1)

end

/-! free term algebra: `leaf`/`node` are injective with disjoint ranges (no collision) — used for non-vacuity examples -/
inductive T | leaf (b : Bytes) | node (l r : T) | empty
  deriving DecidableEq

theorem no_collision_T : ¬ Collision T.leaf T.node := by
  intro h
  rcases h with ⟨a, b, c, d, hne, he⟩ | ⟨x, a, b, he⟩
  · injection he with h1 h2; exact hne (by rw [h1, h2])
  · cases he


end OntVerif.Proofs.Merkle
