import OntVerif.Model.Bloom
/-!
Helper lemmas for C43 (`Props/C43.lean`): monotonicity of the bloom under `add`, the generator invariant
(bit `S-1-n` of every vector after `AddBloom` number `n`), and the invariant of the block store bookkeeping.
Core + Std only.
-/
namespace OntVerif.Proofs.Bloom
open OntVerif.Util OntVerif.Model.Bloom

/-! ## bloom9 -/

/-- every bit of `a` is a bit of `b` -/
def Le (a b : Bloom) : Prop := ∀ k, a.getLsbD k = true → b.getLsbD k = true

theorem Le.refl (a : Bloom) : Le a a := fun _ h => h
theorem Le.trans {a b c : Bloom} (h1 : Le a b) (h2 : Le b c) : Le a c := fun k h => h2 k (h1 k h)

theorem le_add (b : Bloom) (t : Idx3) : Le b (add b t) := by
  intro k h
  simp [add, BitVec.getLsbD_or, h]

theorem test_add (b : Bloom) (t : Idx3) : test (add b t) t = true := by
  simp [test, add, t.1.isLt, t.2.1.isLt, t.2.2.isLt]

theorem test_mono {a b : Bloom} (h : Le a b) (t : Idx3) (ht : test a t = true) : test b t = true := by
  simp only [test, Bool.and_eq_true] at ht ⊢
  exact ⟨⟨h _ ht.1.1, h _ ht.1.2⟩, h _ ht.2⟩

theorem le_foldTopics (idx3 : Bytes → Idx3) (ts : List Bytes) (b : Bloom) :
    Le b (ts.foldl (fun b t => add b (idx3 t)) b) := by
  induction ts generalizing b with
  | nil => exact Le.refl b
  | cons t r ih => exact Le.trans (le_add b (idx3 t)) (ih _)

theorem test_foldTopics (idx3 : Bytes → Idx3) (ts : List Bytes) (b : Bloom) (t : Bytes) (ht : t ∈ ts) :
    test (ts.foldl (fun b t => add b (idx3 t)) b) (idx3 t) = true := by
  induction ts generalizing b with
  | nil => cases ht
  | cons x r ih =>
    rcases List.mem_cons.mp ht with rfl | h
    · exact test_mono (le_foldTopics idx3 r _) _ (test_add b _)
    · exact ih _ h

theorem le_addLog (idx3 : Bytes → Idx3) (b : Bloom) (l : Log) : Le b (addLog idx3 b l) :=
  Le.trans (le_add b _) (le_foldTopics idx3 l.topics _)

theorem test_addLog_address (idx3 : Bytes → Idx3) (b : Bloom) (l : Log) :
    test (addLog idx3 b l) (idx3 l.address) = true :=
  test_mono (le_foldTopics idx3 l.topics _) _ (test_add b _)

theorem test_addLog_topic (idx3 : Bytes → Idx3) (b : Bloom) (l : Log) (t : Bytes) (ht : t ∈ l.topics) :
    test (addLog idx3 b l) (idx3 t) = true :=
  test_foldTopics idx3 l.topics _ t ht

theorem le_foldLogs (idx3 : Bytes → Idx3) (logs : List Log) (b : Bloom) : Le b (logs.foldl (addLog idx3) b) := by
  induction logs generalizing b with
  | nil => exact Le.refl b
  | cons l r ih => exact Le.trans (le_addLog idx3 b l) (ih _)

theorem test_foldLogs (idx3 : Bytes → Idx3) (logs : List Log) (b : Bloom) (l : Log) (hl : l ∈ logs) :
    test (logs.foldl (addLog idx3) b) (idx3 l.address) = true ∧
    ∀ t ∈ l.topics, test (logs.foldl (addLog idx3) b) (idx3 t) = true := by
  induction logs generalizing b with
  | nil => cases hl
  | cons x r ih =>
    rcases List.mem_cons.mp hl with rfl | h
    · exact ⟨test_mono (le_foldLogs idx3 r _) _ (test_addLog_address idx3 b l),
        fun t ht => test_mono (le_foldLogs idx3 r _) _ (test_addLog_topic idx3 b l t ht)⟩
    · exact ih _ h

theorem mem_allLogs {receipts : List (Option Receipt)} {r : Receipt} {l : Log}
    (hr : some r ∈ receipts) (hl : l ∈ r.logs) : l ∈ allLogs receipts := by
  unfold allLogs
  rw [List.mem_flatten]
  exact ⟨r.logs, List.mem_map.mpr ⟨r, List.mem_filterMap.mpr ⟨some r, hr, rfl⟩, rfl⟩, hl⟩

/-! ## generator -/

theorem zeroVecs_length (S : Nat) : (zeroVecs S).length = 2048 := by
  unfold zeroVecs; exact List.length_replicate

theorem zeroVecs_getLsbD (S : Nat) (i : Nat) (hi : i < (zeroVecs S).length) (p : Nat) :
    ((zeroVecs S)[i]).getLsbD p = false := by
  have : (zeroVecs S)[i] = 0 := by unfold zeroVecs; exact List.getElem_replicate ..
  rw [this]; exact BitVec.getLsbD_zero

theorem addBloom_spec {S : Nat} (g : Gen S) (b : Bloom) (hn : g.nextSec < S) (hl : g.blooms.length = 2048) :
    ∃ g', addBloom g g.nextSec b = some g' ∧ g'.nextSec = g.nextSec + 1 ∧ ∃ hl' : g'.blooms.length = 2048,
      (∀ i (hi : i < 2048), (g'.blooms[i]'(by omega)).getLsbD (S - 1 - g.nextSec)
          = ((g.blooms[i]'(by omega)).getLsbD (S - 1 - g.nextSec) || b.getLsbD i)) ∧
      (∀ i (hi : i < 2048) p, p ≠ S - 1 - g.nextSec →
          (g'.blooms[i]'(by omega)).getLsbD p = (g.blooms[i]'(by omega)).getLsbD p) := by
  refine ⟨⟨g.blooms.mapIdx (fun i v => if b.getLsbD i then v ||| BitVec.twoPow S (S - 1 - g.nextSec) else v),
      g.nextSec + 1⟩, ?_, rfl, ?_, ?_, ?_⟩
  · simp [addBloom, Nat.not_le.mpr hn]
  · simp [hl]
  · intro i hi
    simp only [List.getElem_mapIdx]
    by_cases hb : b.getLsbD i = true
    · have : S - 1 - g.nextSec < S := by omega
      simp [hb, BitVec.getLsbD_or, BitVec.getLsbD_twoPow, this]
    · simp [hb]
  · intro i hi p hp
    simp only [List.getElem_mapIdx]
    by_cases hb : b.getLsbD i = true
    · have : ¬ (S - 1 - g.nextSec = p) := fun h => hp h.symm
      simp [hb, BitVec.getLsbD_or, BitVec.getLsbD_twoPow, this]
    · simp [hb]

theorem addAll_spec {S : Nat} (bs : List Bloom) (g : Gen S) (hn : g.nextSec + bs.length ≤ S) (hl : g.blooms.length = 2048) :
    ∃ g', addAll g g.nextSec bs = some g' ∧ g'.nextSec = g.nextSec + bs.length ∧ ∃ hl' : g'.blooms.length = 2048,
      (∀ i (hi : i < 2048) k (hk : k < bs.length), (g'.blooms[i]'(by omega)).getLsbD (S - 1 - (g.nextSec + k))
          = ((g.blooms[i]'(by omega)).getLsbD (S - 1 - (g.nextSec + k)) || bs[k].getLsbD i)) ∧
      (∀ i (hi : i < 2048) p, (∀ k, k < bs.length → p ≠ S - 1 - (g.nextSec + k)) →
          (g'.blooms[i]'(by omega)).getLsbD p = (g.blooms[i]'(by omega)).getLsbD p) := by
  induction bs generalizing g with
  | nil => exact ⟨g, rfl, by simp, hl, fun i hi k hk => by simp at hk, fun i hi p _ => rfl⟩
  | cons b r ih =>
    simp only [List.length_cons] at hn
    obtain ⟨g1, e1, n1, l1, a1, o1⟩ := addBloom_spec g b (by omega) hl
    obtain ⟨g', e2, n2, l2, a2, o2⟩ := ih g1 (by omega) l1
    refine ⟨g', ?_, ?_, l2, ?_, ?_⟩
    · simp only [addAll, e1]
      rw [← n1]; exact e2
    · simp only [List.length_cons]; omega
    · intro i hi k hk
      cases k with
      | zero =>
        simp only [Nat.add_zero, List.getElem_cons_zero]
        rw [o2 i hi (S - 1 - g.nextSec) (by intro k hk'; omega)]
        exact a1 i hi
      | succ k' =>
        simp only [List.length_cons] at hk
        have hk' : k' < r.length := by omega
        have := a2 i hi k' hk'
        rw [n1] at this
        have e : g.nextSec + 1 + k' = g.nextSec + (k' + 1) := by omega
        rw [e] at this
        rw [this, o1 i hi (S - 1 - (g.nextSec + (k' + 1))) (by omega)]
        simp
    · intro i hi p hp
      rw [o2 i hi p, o1 i hi p]
      · have := hp 0 (by simp); simpa using this
      · intro k hk
        have := hp (k + 1) (by simp; omega)
        rw [n1]
        intro h; apply this; omega

theorem bitsets_spec {S : Nat} (g : Gen S) (hS : g.nextSec = S) (n i : Nat) (hb : i + n ≤ 2048) (hl : g.blooms.length = 2048) :
    ∃ vs, bitsets g i n = some vs ∧ ∃ hv : vs.length = n, ∀ k (hk : k < n), vs[k] = g.blooms[i + k]'(by omega) := by
  induction n generalizing i with
  | zero => exact ⟨[], rfl, rfl, fun k hk => by omega⟩
  | succ n ih =>
    obtain ⟨r, er, lr, hr⟩ := ih (i + 1) (by omega)
    have hi : i < g.blooms.length := by omega
    have eb : bitset g i = some g.blooms[i] := by
      have : ¬ i ≥ 2048 := by omega
      simp [bitset, hS, this, List.getElem?_eq_getElem hi]
    refine ⟨g.blooms[i] :: r, by simp [bitsets, eb, er], by simp [lr], ?_⟩
    intro k hk
    cases k with
    | zero => simp
    | succ k' =>
      simp only [List.getElem_cons_succ]
      rw [hr k' (by omega)]
      congr 1; omega

end OntVerif.Proofs.Bloom
