import OntVerif.Model.F64
/-!
Lemmas about the binary64 fragment of `Model/F64.lean` (core Lean only): round-half-even and rounding to 53 significant
bits are monotone; conversion, multiplication, division (in the dividend) and ceiling are monotone; values `≥ 1.0`
stay `≥ 1.0`. Consequence: the rank expression of `GenesisChainConfig` is monotone in the stake and `≥ 1`.
-/
namespace OntVerif.Proofs.F64
open OntVerif.Model.F64

/-! ### round-half-even of `p / d` -/

theorem rhe_ge (p d : Nat) : p / d ≤ rhe p d := by
  unfold rhe; simp only; split
  · exact Nat.le_refl _
  · split
    · omega
    · split <;> omega

theorem rhe_le (p d : Nat) : rhe p d ≤ p / d + 1 := by
  unfold rhe; simp only; split
  · omega
  · split
    · omega
    · split <;> omega

theorem rhe_mono (p p' d : Nat) (_hd : 0 < d) (h : p ≤ p') : rhe p d ≤ rhe p' d := by
  have hf : p / d ≤ p' / d := Nat.div_le_div_right h
  rcases Nat.lt_or_ge (p / d) (p' / d) with hlt | hge
  · calc rhe p d ≤ p / d + 1 := rhe_le p d
      _ ≤ p' / d := hlt
      _ ≤ rhe p' d := rhe_ge p' d
  · have hfe : p / d = p' / d := by omega
    have e1 := Nat.div_add_mod p d
    have e2 := Nat.div_add_mod p' d
    have hr : p % d ≤ p' % d := by
      rw [hfe] at e1
      omega
    unfold rhe; simp only
    rw [hfe]
    split
    · split
      · omega
      · split
        · omega
        · split <;> omega
    · split
      · split
        · omega
        · split
          · omega
          · omega
      · split
        · split
          · omega
          · split
            · omega
            · omega
        · split
          · omega
          · split
            · omega
            · omega

/-! ### binades -/

theorem ulpExp_mono (p p' q : Nat) (h : p ≤ p') : ulpExp p q ≤ ulpExp p' q := by
  have hf : p / q ≤ p' / q := Nat.div_le_div_right h
  unfold ulpExp
  split
  · omega
  · rename_i h1
    have h2 : ¬ p' / q < 2 ^ 53 := by omega
    simp only [h2, if_false]
    have hne : p / q ≠ 0 := by
      intro e; rw [e] at h1; exact h1 (Nat.two_pow_pos 53)
    have hne' : p' / q ≠ 0 := by omega
    have : Nat.log2 (p / q) ≤ Nat.log2 (p' / q) := by
      rw [Nat.le_log2 hne']
      exact Nat.le_trans (Nat.log2_self_le hne) hf
    omega

/-- in its binade, the scaled value lies in `[2^52, 2^53)` (or below `2^53` when the exponent is 0) -/
theorem binade (p q : Nat) (hq : 0 < q) :
    p < q * 2 ^ ulpExp p q * 2 ^ 53 ∧ (0 < ulpExp p q → q * 2 ^ ulpExp p q * 2 ^ 52 ≤ p) := by
  unfold ulpExp
  split
  · rename_i h
    refine ⟨?_, fun h0 => absurd h0 (Nat.lt_irrefl 0)⟩
    have := (Nat.div_lt_iff_lt_mul hq).mp h
    rw [Nat.pow_zero, Nat.mul_one, Nat.mul_comm]
    exact this
  · rename_i h
    have hne : p / q ≠ 0 := by
      intro e; rw [e] at h; exact h (Nat.two_pow_pos 53)
    have hl : 53 ≤ Nat.log2 (p / q) := (Nat.le_log2 hne).mpr (by omega)
    have hlo : 2 ^ Nat.log2 (p / q) ≤ p / q := Nat.log2_self_le hne
    have hhi : p / q < 2 ^ (Nat.log2 (p / q) + 1) := Nat.lt_log2_self
    generalize Nat.log2 (p / q) = L at *
    have eL : L = (L - 52) + 52 := by omega
    constructor
    · have := (Nat.div_lt_iff_lt_mul hq).mp hhi
      have e : 2 ^ (L + 1) = 2 ^ (L - 52) * 2 ^ 53 := by
        rw [← Nat.pow_add]; congr 1; omega
      rw [e] at this
      calc p < 2 ^ (L - 52) * 2 ^ 53 * q := this
        _ = q * 2 ^ (L - 52) * 2 ^ 53 := by
          rw [Nat.mul_comm (2 ^ (L - 52) * 2 ^ 53) q, Nat.mul_assoc]
    · intro _
      have := (Nat.le_div_iff_mul_le hq).mp hlo
      have e : 2 ^ L = 2 ^ (L - 52) * 2 ^ 52 := by
        rw [← Nat.pow_add]; congr 1
      rw [e] at this
      calc q * 2 ^ (L - 52) * 2 ^ 52 = 2 ^ (L - 52) * 2 ^ 52 * q := by
            rw [Nat.mul_comm (2 ^ (L - 52) * 2 ^ 52) q, Nat.mul_assoc]
        _ ≤ p := this

theorem rhe_lt_of_lt (p d B : Nat) (hd : 0 < d) (h : p < d * B) : rhe p d ≤ B := by
  have : p / d < B := (Nat.div_lt_iff_lt_mul hd).mpr (by rw [Nat.mul_comm]; exact h)
  have := rhe_le p d
  omega

theorem rhe_ge_of_le (p d A : Nat) (hd : 0 < d) (h : d * A ≤ p) : A ≤ rhe p d := by
  have : A ≤ p / d := (Nat.le_div_iff_mul_le hd).mpr (by rw [Nat.mul_comm]; exact h)
  have := rhe_ge p d
  omega

/-- the significand after rounding is at most `2^53` … -/
theorem sig_le (p q : Nat) (hq : 0 < q) : rhe p (q * 2 ^ ulpExp p q) ≤ 2 ^ 53 :=
  rhe_lt_of_lt _ _ _ (Nat.mul_pos hq (Nat.two_pow_pos _)) (binade p q hq).1

/-- … and at least `2^52` above the first binade -/
theorem sig_ge (p q : Nat) (hq : 0 < q) (hk : 0 < ulpExp p q) : 2 ^ 52 ≤ rhe p (q * 2 ^ ulpExp p q) :=
  rhe_ge_of_le _ _ _ (Nat.mul_pos hq (Nat.two_pow_pos _)) ((binade p q hq).2 hk)

/-- **rounding to 53 bits is monotone** -/
theorem rn53_mono (p p' q : Nat) (hq : 0 < q) (h : p ≤ p') : rn53 p q ≤ rn53 p' q := by
  have hk := ulpExp_mono p p' q h
  unfold rn53
  simp only
  rcases Nat.lt_or_ge (ulpExp p q) (ulpExp p' q) with hlt | hge
  · have h1 := sig_le p q hq
    have h2 := sig_ge p' q hq (by omega)
    generalize ulpExp p q = k at *
    generalize ulpExp p' q = k' at *
    calc rhe p (q * 2 ^ k) * 2 ^ k ≤ 2 ^ 53 * 2 ^ k := Nat.mul_le_mul_right _ h1
      _ = 2 ^ 52 * 2 ^ (k + 1) := by rw [← Nat.pow_add, ← Nat.pow_add]; congr 1; omega
      _ ≤ 2 ^ 52 * 2 ^ k' := Nat.mul_le_mul_left _ (Nat.pow_le_pow_right (by omega) hlt)
      _ ≤ rhe p' (q * 2 ^ k') * 2 ^ k' := Nat.mul_le_mul_right _ h2
  · have e : ulpExp p q = ulpExp p' q := by omega
    rw [e]
    exact Nat.mul_le_mul_right _ (rhe_mono _ _ _ (Nat.mul_pos hq (Nat.two_pow_pos _)) h)

/-- a rational `≥ 1` rounds to something `≥ 1` -/
theorem rn53_pos (p q : Nat) (hq : 0 < q) (h : q ≤ p) : 1 ≤ rn53 p q := by
  unfold rn53
  simp only
  rcases Nat.eq_zero_or_pos (ulpExp p q) with h0 | h0
  · rw [h0, Nat.pow_zero, Nat.mul_one, Nat.mul_one]
    exact rhe_ge_of_le p q 1 hq (by omega)
  · have := sig_ge p q hq h0
    have h2 : 1 ≤ 2 ^ ulpExp p q := Nat.two_pow_pos _
    calc 1 ≤ 2 ^ 52 * 1 := by decide
      _ ≤ rhe p (q * 2 ^ ulpExp p q) * 2 ^ ulpExp p q := Nat.mul_le_mul this h2

/-- rounding at most doubles a rational `≥ 1` -/
theorem rn53_le_double (p q : Nat) (hq : 0 < q) (h : q ≤ p) : rn53 p q ≤ 2 * (p / q) := by
  have hpq : 1 ≤ p / q := (Nat.le_div_iff_mul_le hq).mpr (by omega)
  unfold rn53
  simp only
  rcases Nat.eq_zero_or_pos (ulpExp p q) with h0 | h0
  · rw [h0, Nat.pow_zero, Nat.mul_one, Nat.mul_one]
    have := rhe_le p q
    omega
  · have h1 := sig_le p q hq
    have h2 := (binade p q hq).2 h0
    generalize ulpExp p q = k at *
    have : 2 ^ k * 2 ^ 52 ≤ p / q := by
      apply (Nat.le_div_iff_mul_le hq).mpr
      calc 2 ^ k * 2 ^ 52 * q = q * 2 ^ k * 2 ^ 52 := by
            rw [Nat.mul_comm (2 ^ k * 2 ^ 52) q, Nat.mul_assoc]
        _ ≤ p := h2
    calc rhe p (q * 2 ^ k) * 2 ^ k ≤ 2 ^ 53 * 2 ^ k := Nat.mul_le_mul_right _ h1
      _ = 2 * (2 ^ k * 2 ^ 52) := by
        rw [show (2:Nat) ^ 53 = 2 * 2 ^ 52 from by decide, Nat.mul_assoc, Nat.mul_comm (2 ^ 52) (2 ^ k)]
      _ ≤ 2 * (p / q) := Nat.mul_le_mul_left _ this


/-! ### the operations -/

theorem unit_pos : 0 < unit := by decide

theorem ofNat_mono (n n' : Nat) (h : n ≤ n') : ofNat n ≤ ofNat n' :=
  rn53_mono _ _ 1 (by decide) (Nat.mul_le_mul_right _ h)

theorem mul_mono_left (a a' b : Nat) (h : a ≤ a') : mul a b ≤ mul a' b :=
  rn53_mono _ _ unit unit_pos (Nat.mul_le_mul_right _ h)

theorem mul_mono_right (a b b' : Nat) (h : b ≤ b') : mul a b ≤ mul a b' :=
  rn53_mono _ _ unit unit_pos (Nat.mul_le_mul_left _ h)

theorem div_mono_left (a a' b : Nat) (hb : 0 < b) (h : a ≤ a') : div a b ≤ div a' b :=
  rn53_mono _ _ b hb (Nat.mul_le_mul_right _ h)

theorem ceilToNat_mono (a a' : Nat) (h : a ≤ a') : ceilToNat a ≤ ceilToNat a' := by
  unfold ceilToNat
  exact Nat.div_le_div_right (by omega)

/-- `1.0` is represented exactly -/
theorem ofNat_one : ofNat 1 = unit := by decide

theorem mul_unit_unit : mul unit unit = unit := by decide

/-- integers `≥ 1` convert to floats `≥ 1.0` -/
theorem ofNat_ge_unit (n : Nat) (h : 1 ≤ n) : unit ≤ ofNat n := by
  rw [← ofNat_one]; exact ofNat_mono 1 n h

theorem mul_ge_unit (a b : Nat) (ha : unit ≤ a) (hb : unit ≤ b) : unit ≤ mul a b :=
  calc unit = mul unit unit := mul_unit_unit.symm
    _ ≤ mul a unit := mul_mono_left _ _ _ ha
    _ ≤ mul a b := mul_mono_right _ _ _ hb

theorem ofNat_le (n : Nat) (h : 1 ≤ n) : ofNat n ≤ 2 * (n * unit) := by
  have := rn53_le_double (n * unit) 1 (by decide) (Nat.mul_pos h unit_pos)
  rw [Nat.div_one] at this
  exact this

/-- **monotone in the stake** (for a positive sum) -/
theorem rankIEEE_mono (s s' sc k sum : Nat) (hsum : 0 < sum) (h : s ≤ s') :
    rankIEEE s sc k sum ≤ rankIEEE s' sc k sum := by
  unfold rankIEEE
  apply ceilToNat_mono
  apply div_mono_left _ _ _ (Nat.lt_of_lt_of_le unit_pos (ofNat_ge_unit sum hsum))
  apply mul_mono_left
  apply mul_mono_left
  exact ofNat_mono _ _ h

/-- **at least one** for positive arguments and a sum below `2^64` -/
theorem rankIEEE_pos (s sc k sum : Nat) (hs : 0 < s) (hsc : 0 < sc) (hk : 0 < k) (hsum : 0 < sum)
    (hlt : sum < 2 ^ 64) : 1 ≤ rankIEEE s sc k sum := by
  unfold rankIEEE
  have ha : unit ≤ mul (mul (ofNat s) (ofNat sc)) (ofNat k) :=
    mul_ge_unit _ _ (mul_ge_unit _ _ (ofNat_ge_unit s hs) (ofNat_ge_unit sc hsc)) (ofNat_ge_unit k hk)
  generalize mul (mul (ofNat s) (ofNat sc)) (ofNat k) = a at ha
  have hc1 : unit ≤ ofNat sum := ofNat_ge_unit sum hsum
  have hc2 : ofNat sum ≤ 2 * (sum * unit) := ofNat_le sum hsum
  generalize ofNat sum = c at hc1 hc2
  have hcpos : 0 < c := Nat.lt_of_lt_of_le unit_pos hc1
  have hle : c ≤ a * unit := by
    calc c ≤ 2 * (sum * unit) := hc2
      _ = (2 * sum) * unit := by rw [Nat.mul_assoc]
      _ ≤ unit * unit := Nat.mul_le_mul_right _ (by
          have : (2:Nat) ^ 65 ≤ unit := by decide
          have : 2 * sum < 2 ^ 65 := by rw [show (2:Nat) ^ 65 = 2 * 2 ^ 64 from by decide]; omega
          omega)
      _ ≤ a * unit := Nat.mul_le_mul_right _ ha
  have hd : 1 ≤ div a c := rn53_pos _ _ hcpos hle
  unfold ceilToNat
  exact (Nat.le_div_iff_mul_le unit_pos).mpr (by omega)

end OntVerif.Proofs.F64
