import OntVerif.Proofs.NeoInt
/-! Helper lemmas for C13, part 1: every `IntValue` operation, read through `toInt`, is a function of the operand integers
(fast int64 path = `math/big` path = exact integer function, with the size check). Core-only. -/
namespace OntVerif.Proofs.NeoIntOps
open OntVerif.Util OntVerif.Model.Codec OntVerif.Model.NeoInt OntVerif.Proofs.NeoInt

/-! ### size bound -/
theorem pow256_32 : (256 : Nat) ^ 32 = 115792089237316195423570985008687907853269984665640564039457584007913129639936 := by decide

theorem overSize_iff (z : Int) : overSize z = true ↔ 115792089237316195423570985008687907853269984665640564039457584007913129639936 ≤ z.natAbs := by
  unfold overSize
  simp only [decide_eq_true_eq]
  rw [← pow256_32]
  constructor
  · intro h
    have hn : 0 < z.natAbs := by
      apply Classical.byContradiction; intro h0
      have : z.natAbs = 0 := by omega
      rw [this, natToLE_zero] at h; simp at h
    obtain ⟨hlb, _⟩ := natToLE_lb z.natAbs hn
    have : 256 ^ 32 ≤ 256 ^ ((natToLE z.natAbs).length - 1) := Nat.pow_le_pow_right (by decide) (by omega)
    exact Nat.le_trans this hlb
  · intro h
    apply Classical.byContradiction; intro hl
    have := natToLE_length_le z.natAbs 32
    have hub := natToLE_ub z.natAbs
    have : 256 ^ (natToLE z.natAbs).length ≤ 256 ^ 32 := Nat.pow_le_pow_right (by decide) (by omega)
    omega

theorem overSize_false_iff (z : Int) : overSize z = false ↔ z.natAbs < 115792089237316195423570985008687907853269984665640564039457584007913129639936 := by
  rw [← Bool.not_eq_true, overSize_iff]; omega

/-! ### int64 -/
theorem i64_range (i : BitVec 64) : -9223372036854775808 ≤ i.toInt ∧ i.toInt ≤ 9223372036854775807 := by
  have h1 := BitVec.le_toInt i
  have h2 := @BitVec.toInt_lt 64 i
  simp at h1 h2
  omega

theorem overSize_i64 (i : BitVec 64) : overSize i.toInt = false := by
  rw [overSize_false_iff]
  have := i64_range i
  omega

theorem toInt_ofInt_i64 (z : Int) (h : isInt64 z = true) : (BitVec.ofInt 64 z).toInt = z := by
  unfold isInt64 at h
  simp only [decide_eq_true_eq] at h
  apply BitVec.toInt_ofInt_eq_self (by decide) <;> simp <;> omega

theorem normInt_toInt (z : Int) : (normInt z).toInt = z := by
  unfold normInt
  split
  · rename_i h; exact toInt_ofInt_i64 z h
  · rfl

/-- the checked result as an integer -/
def bounded (z : Int) : Except Fault Int := if overSize z then .error .oversize else .ok z

theorem intValFromBigInt_toInt (z : Int) : (intValFromBigInt z).map IntValue.toInt = bounded z := by
  unfold intValFromBigInt bounded
  split
  · rfl
  · simp [Except.map, normInt_toInt]

theorem bounded_i64 (i : BitVec 64) : bounded i.toInt = .ok i.toInt := by
  unfold bounded; rw [overSize_i64]; rfl

/-- the generic shape of every `intOp` user -/
theorem intOp_exact (f : Int → Int → Int) (little : BitVec 64 → BitVec 64 → BitVec 64 × Bool)
    (hl : ∀ x y, (little x y).2 = true → (little x y).1.toInt = f x.toInt y.toInt) (a b : IntValue) :
    (intOp a b little (fun x y => intValFromBigInt (f x y))).map IntValue.toInt = bounded (f a.toInt b.toInt) := by
  unfold intOp
  cases a <;> cases b <;> simp only [IntValue.toInt, intValFromBigInt_toInt]
  rename_i x y
  cases hk : little x y with
  | mk v ok =>
    cases ok with
    | false => simp [intValFromBigInt_toInt]
    | true =>
      have := hl x y (by rw [hk])
      rw [hk] at this
      simp only [if_true, Except.map, IntValue.toInt]
      rw [this, ← this, bounded_i64]


/-! ### the overflow-checked fast paths -/
theorem bmod64 (z : Int) : z.bmod (2 ^ 64) =
    if z % 18446744073709551616 < 9223372036854775808 then z % 18446744073709551616 else z % 18446744073709551616 - 18446744073709551616 := by
  rw [Int.bmod_def]; simp

theorem slt_iff (a b : BitVec 64) : a.slt b = decide (a.toInt < b.toInt) := by simp [BitVec.slt]

theorem toInt_zero64 : (0 : BitVec 64).toInt = 0 := by decide

theorem add64_exact (x y : BitVec 64) (h : (add64 x y).2 = true) : (add64 x y).1.toInt = x.toInt + y.toInt := by
  unfold add64 at *
  simp only [slt_iff, toInt_zero64, BitVec.toInt_add, bmod64] at *
  have := i64_range x
  have := i64_range y
  split at h <;> split <;> simp at h <;> omega

theorem sub64_exact (x y : BitVec 64) (h : (sub64 x y).2 = true) : (sub64 x y).1.toInt = x.toInt - y.toInt := by
  unfold sub64 at *
  simp only [slt_iff, toInt_zero64, BitVec.toInt_sub, bmod64] at *
  have := i64_range x
  have := i64_range y
  split at h <;> split <;> simp at h <;> omega

theorem beq_zero_iff (x : BitVec 64) : (x == 0) = true ↔ x.toInt = 0 := by
  rw [beq_iff_eq, ← BitVec.toInt_inj, toInt_zero64]

theorem mul64_exact (x y : BitVec 64) (h : (mul64 x y).2 = true) : (mul64 x y).1.toInt = x.toInt * y.toInt := by
  unfold mul64 at *
  by_cases hz : (x == 0 || y == 0) = true
  · simp only [hz, if_true]
    rw [Bool.or_eq_true, beq_zero_iff, beq_zero_iff] at hz
    rcases hz with hz | hz <;> rw [hz] <;> simp
  · simp only [hz, Bool.false_eq_true, if_false] at h ⊢
    rw [Bool.or_eq_true, beq_zero_iff, beq_zero_iff] at hz
    have hy0 : y.toInt ≠ 0 := fun e => hz (Or.inr e)
    by_cases hs : ((x * y).slt 0 == (x.slt 0 != y.slt 0)) = true
    · simp only [hs, if_true] at h ⊢
      by_cases hd : ((x * y).sdiv y == x) = true
      · simp only [hd, if_true]
        rw [beq_iff_eq] at hd
        have rx := i64_range x
        have ry := i64_range y
        by_cases hsp : x * y = BitVec.intMin 64 ∧ y = -1#64
        · -- MinInt64 / -1 wraps to MinInt64: excluded by the sign test
          obtain ⟨h1, h2⟩ := hsp
          rw [h1, h2] at hd
          have e : (BitVec.intMin 64).sdiv (-1#64) = BitVec.intMin 64 := by decide
          rw [e] at hd
          rw [h1, h2, ← hd] at hs
          exact absurd hs (by decide)
        · have hsp' : x * y ≠ BitVec.intMin 64 ∨ y ≠ -1#64 := by
            by_cases h1 : x * y = BitVec.intMin 64
            · right; intro h2; exact hsp ⟨h1, h2⟩
            · left; exact h1
          have hq := BitVec.toInt_sdiv_of_ne_or_ne (x * y) y hsp'
          rw [hd] at hq
          have hr := Int.tmod_add_tdiv_mul (x * y).toInt y.toInt
          have hab := Int.natAbs_tmod (x * y).toInt y.toInt
          have hlt : (x * y).toInt.natAbs % y.toInt.natAbs < y.toInt.natAbs := Nat.mod_lt _ (by omega)
          rw [← hq] at hr
          have hc : (x * y).toInt = (x.toInt * y.toInt).bmod (2 ^ 64) := BitVec.toInt_mul x y
          rw [bmod64] at hc
          generalize (x * y).toInt = C at *
          generalize x.toInt * y.toInt = P at *
          generalize C.tmod y.toInt = r at *
          split at hc <;> omega
      · rw [if_neg hd] at h; exact absurd h (by simp)
    · rw [if_neg hs] at h; exact absurd h (by simp)

/-! ### `IntValue` arithmetic -/
open IntValue in
theorem add_exact (a b : IntValue) : (a.add b).map toInt = bounded (a.toInt + b.toInt) :=
  intOp_exact (fun x y => x + y) add64 add64_exact a b

open IntValue in
theorem sub_exact (a b : IntValue) : (a.sub b).map toInt = bounded (a.toInt - b.toInt) :=
  intOp_exact (fun x y => x - y) sub64 sub64_exact a b

open IntValue in
theorem mul_exact (a b : IntValue) : (a.mul b).map toInt = bounded (a.toInt * b.toInt) :=
  intOp_exact (fun x y => x * y) mul64 mul64_exact a b

theorem isZero_iff (b : IntValue) : b.isZero = true ↔ b.toInt = 0 := by
  cases b with
  | small i => simp only [IntValue.isZero, IntValue.toInt]; exact beq_zero_iff i
  | big z => simp [IntValue.isZero, IntValue.toInt]

open IntValue in
theorem div_exact (a b : IntValue) :
    (a.div b).map toInt = if b.toInt = 0 then .error .divzero else bounded (a.toInt.tdiv b.toInt) := by
  unfold IntValue.div
  by_cases hz : b.isZero = true
  · simp only [hz, if_true, (isZero_iff b).mp hz]; rfl
  · have : ¬ b.toInt = 0 := fun e => hz ((isZero_iff b).mpr e)
    simp only [hz, Bool.false_eq_true, if_false, this]
    apply intOp_exact (fun x y => x.tdiv y)
    intro x y h
    by_cases hc : (x == intMin64 && y == -1) = true
    · rw [if_pos hc] at h; exact absurd h (by simp)
    · simp only [hc, Bool.false_eq_true, if_false]
      apply BitVec.toInt_sdiv_of_ne_or_ne
      rw [Bool.and_eq_true, beq_iff_eq, beq_iff_eq] at hc
      by_cases h1 : x = BitVec.intMin 64
      · right; intro h2; exact hc ⟨h1, h2⟩
      · left; exact h1

open IntValue in
theorem mod_exact (a b : IntValue) :
    (a.mod b).map toInt = if b.toInt = 0 then .error .divzero else bounded (a.toInt.tmod b.toInt) := by
  unfold IntValue.mod
  by_cases hz : b.isZero = true
  · simp only [hz, if_true, (isZero_iff b).mp hz]; rfl
  · have : ¬ b.toInt = 0 := fun e => hz ((isZero_iff b).mpr e)
    simp only [hz, Bool.false_eq_true, if_false, this]
    apply intOp_exact (fun x y => x.tmod y)
    intro x y _
    exact BitVec.toInt_srem x y

open IntValue in
theorem max_exact (a b : IntValue) : (a.max b).map toInt = bounded (if a.toInt ≤ b.toInt then b.toInt else a.toInt) := by
  apply intOp_exact (fun x y => if x ≤ y then y else x)
  intro x y _
  simp only [slt_iff]
  by_cases h : x.toInt < y.toInt
  · have : x.toInt ≤ y.toInt := by omega
    simp [h, this]
  · by_cases h2 : x.toInt ≤ y.toInt
    · have : x.toInt = y.toInt := by omega
      simp [this]
    · simp [h, h2]

open IntValue in
theorem min_exact (a b : IntValue) : (a.min b).map toInt = bounded (if a.toInt ≤ b.toInt then a.toInt else b.toInt) := by
  apply intOp_exact (fun x y => if x ≤ y then x else y)
  intro x y _
  simp only [slt_iff]
  by_cases h : x.toInt < y.toInt
  · have : x.toInt ≤ y.toInt := by omega
    simp [h, this]
  · by_cases h2 : x.toInt ≤ y.toInt
    · have : x.toInt = y.toInt := by omega
      simp [this]
    · simp [h, h2]

/-! ### bitwise operations: the int64 fast path agrees with the `math/big` sign-magnitude algorithm -/
theorem toInt_cases (a : BitVec 64) :
    (a.msb = false ∧ a.toInt = Int.ofNat a.toNat) ∨ (a.msb = true ∧ a.toInt = Int.negSucc (~~~ a).toNat) := by
  rw [BitVec.toInt_eq_msb_cond]
  cases h : a.msb with
  | false => left; simp
  | true =>
    right
    refine ⟨rfl, ?_⟩
    simp only [if_true, BitVec.toNat_not, Int.negSucc_eq]
    have := a.isLt
    omega

theorem toInt_of_msb_false (a : BitVec 64) (h : a.msb = false) : a.toInt = Int.ofNat a.toNat := by
  rcases toInt_cases a with ⟨_, e⟩ | ⟨h', _⟩
  · exact e
  · rw [h] at h'; cases h'

theorem toInt_of_msb_true (a : BitVec 64) (h : a.msb = true) : a.toInt = Int.negSucc (~~~ a).toNat := by
  rcases toInt_cases a with ⟨h', _⟩ | ⟨_, e⟩
  · rw [h] at h'; cases h'
  · exact e

theorem bv_andnot (a b : BitVec 64) : a ^^^ (a &&& ~~~ b) = a &&& b := by
  ext i hi
  simp only [BitVec.getElem_xor, BitVec.getElem_and, BitVec.getElem_not]
  cases a[i] <;> cases b[i] <;> rfl

theorem toInt_and64 (a b : BitVec 64) : (a &&& b).toInt = bigAnd a.toInt b.toInt := by
  rcases toInt_cases a with ⟨ma, ea⟩ | ⟨ma, ea⟩ <;> rcases toInt_cases b with ⟨mb, eb⟩ | ⟨mb, eb⟩ <;> rw [ea, eb]
  · rw [toInt_of_msb_false _ (by simp [ma, mb])]; simp [bigAnd]
  · rw [toInt_of_msb_false _ (by simp [ma, mb])]
    simp only [bigAnd, natAndNot, ← BitVec.toNat_and, ← BitVec.toNat_xor, bv_andnot]
  · rw [toInt_of_msb_false _ (by simp [ma, mb])]
    simp only [bigAnd, natAndNot, ← BitVec.toNat_and, ← BitVec.toNat_xor, bv_andnot, BitVec.and_comm]
  · rw [toInt_of_msb_true _ (by simp [ma, mb])]
    simp only [bigAnd, ← BitVec.toNat_or, BitVec.not_and]

theorem bv_or1 (a b : BitVec 64) : ~~~ b ^^^ (~~~ b &&& a) = ~~~ (a ||| b) := by
  ext i hi
  simp only [BitVec.getElem_xor, BitVec.getElem_and, BitVec.getElem_not, BitVec.getElem_or]
  cases a[i] <;> cases b[i] <;> rfl

theorem bv_or2 (a b : BitVec 64) : ~~~ a ^^^ (~~~ a &&& b) = ~~~ (a ||| b) := by
  ext i hi
  simp only [BitVec.getElem_xor, BitVec.getElem_and, BitVec.getElem_not, BitVec.getElem_or]
  cases a[i] <;> cases b[i] <;> rfl

theorem toInt_or64 (a b : BitVec 64) : (a ||| b).toInt = bigOr a.toInt b.toInt := by
  rcases toInt_cases a with ⟨ma, ea⟩ | ⟨ma, ea⟩ <;> rcases toInt_cases b with ⟨mb, eb⟩ | ⟨mb, eb⟩ <;> rw [ea, eb]
  · rw [toInt_of_msb_false _ (by simp [ma, mb])]; simp [bigOr]
  · rw [toInt_of_msb_true _ (by simp [ma, mb])]
    simp only [bigOr, natAndNot, ← BitVec.toNat_and, ← BitVec.toNat_xor, bv_or1]
  · rw [toInt_of_msb_true _ (by simp [ma, mb])]
    simp only [bigOr, natAndNot, ← BitVec.toNat_and, ← BitVec.toNat_xor, bv_or2]
  · rw [toInt_of_msb_true _ (by simp [ma, mb])]
    simp only [bigOr, ← BitVec.toNat_and, BitVec.not_or]

theorem bv_xor1 (a b : BitVec 64) : ~~~ (a ^^^ b) = a ^^^ ~~~ b := by
  ext i hi
  simp only [BitVec.getElem_xor, BitVec.getElem_not]
  cases a[i] <;> cases b[i] <;> rfl

theorem bv_xor2 (a b : BitVec 64) : ~~~ (a ^^^ b) = ~~~ a ^^^ b := by
  ext i hi
  simp only [BitVec.getElem_xor, BitVec.getElem_not]
  cases a[i] <;> cases b[i] <;> rfl

theorem bv_xor3 (a b : BitVec 64) : ~~~ a ^^^ ~~~ b = a ^^^ b := by
  ext i hi
  simp only [BitVec.getElem_xor, BitVec.getElem_not]
  cases a[i] <;> cases b[i] <;> rfl

theorem toInt_xor64 (a b : BitVec 64) : (a ^^^ b).toInt = bigXor a.toInt b.toInt := by
  rcases toInt_cases a with ⟨ma, ea⟩ | ⟨ma, ea⟩ <;> rcases toInt_cases b with ⟨mb, eb⟩ | ⟨mb, eb⟩ <;> rw [ea, eb]
  · rw [toInt_of_msb_false _ (by simp [ma, mb])]; simp [bigXor]
  · rw [toInt_of_msb_true _ (by simp [ma, mb])]
    simp only [bigXor, ← BitVec.toNat_xor, bv_xor1]
  · rw [toInt_of_msb_true _ (by simp [ma, mb])]
    simp only [bigXor, ← BitVec.toNat_xor, bv_xor2]
  · rw [toInt_of_msb_false _ (by simp [ma, mb])]
    simp only [bigXor, ← BitVec.toNat_xor, bv_xor3]

open IntValue in
theorem and_exact (a b : IntValue) : (a.and b).map toInt = bounded (bigAnd a.toInt b.toInt) :=
  intOp_exact bigAnd _ (fun x y _ => toInt_and64 x y) a b
open IntValue in
theorem or_exact (a b : IntValue) : (a.or b).map toInt = bounded (bigOr a.toInt b.toInt) :=
  intOp_exact bigOr _ (fun x y _ => toInt_or64 x y) a b
open IntValue in
theorem xor_exact (a b : IntValue) : (a.xor b).map toInt = bounded (bigXor a.toInt b.toInt) :=
  intOp_exact bigXor _ (fun x y _ => toInt_xor64 x y) a b

/-! ### comparison, sign, complement, absolute value -/
theorem beq_iff_toInt (x y : BitVec 64) : (x == y) = decide (x.toInt = y.toInt) := by
  rw [Bool.eq_iff_iff]; simp [BitVec.toInt_inj]

theorem cmp_exact (a b : IntValue) : a.cmp b = IntValue.cmpInt a.toInt b.toInt := by
  cases a <;> cases b <;> simp only [IntValue.cmp, IntValue.toInt]
  rename_i x y
  simp only [slt_iff, beq_iff_toInt, IntValue.cmpInt]
  by_cases h1 : x.toInt < y.toInt <;> by_cases h2 : x.toInt = y.toInt <;> simp [h1, h2]

theorem sign_exact (a : IntValue) : a.sign = IntValue.cmpInt a.toInt 0 := by
  cases a with
  | big z => rfl
  | small i =>
    simp only [IntValue.sign, IntValue.toInt, slt_iff, beq_iff_toInt, toInt_zero64, IntValue.cmpInt]
    by_cases h1 : i.toInt < 0 <;> by_cases h2 : i.toInt = 0 <;> simp [h1, h2]

theorem bigNot_eq (z : Int) : bigNot z = -z - 1 := by
  cases z with
  | ofNat n => simp only [bigNot, Int.negSucc_eq, Int.ofNat_eq_natCast]; omega
  | negSucc n => simp only [bigNot, Int.negSucc_eq, Int.ofNat_eq_natCast]; omega

theorem toInt_not64 (i : BitVec 64) : (~~~ i).toInt = - i.toInt - 1 := by
  rcases toInt_cases i with ⟨m, e⟩ | ⟨m, e⟩
  · rw [toInt_of_msb_true (~~~ i) (by simp [m]), e]
    simp only [BitVec.not_not, Int.negSucc_eq, Int.ofNat_eq_natCast]; omega
  · rw [toInt_of_msb_false (~~~ i) (by simp [m]), e]
    simp only [Int.negSucc_eq, Int.ofNat_eq_natCast]; omega

theorem not_exact (a : IntValue) : a.not.toInt = - a.toInt - 1 := by
  cases a with
  | big z => simp only [IntValue.not, IntValue.toInt, bigNot_eq]
  | small i => simp only [IntValue.not, IntValue.toInt, toInt_not64]

theorem abs_exact (a : IntValue) : a.abs.toInt = Int.ofNat a.toInt.natAbs := by
  cases a with
  | big z => rfl
  | small i =>
    simp only [IntValue.abs]
    by_cases h : (i == intMin64) = true
    · simp only [h, if_true, IntValue.toInt]
    · simp only [h, Bool.false_eq_true, if_false, slt_iff, toInt_zero64]
      have hne : i ≠ BitVec.intMin 64 := by rwa [beq_iff_eq] at h
      by_cases hn : i.toInt < 0
      · simp only [hn, decide_true, if_true, IntValue.toInt, BitVec.toInt_neg_of_ne_intMin hne, Int.ofNat_eq_natCast]
        omega
      · simp only [hn, decide_false, Bool.false_eq_true, if_false, IntValue.toInt, Int.ofNat_eq_natCast]
        omega
end OntVerif.Proofs.NeoIntOps

namespace OntVerif.Proofs.NeoIntOps
open OntVerif.Util OntVerif.Model.Codec OntVerif.Model.NeoInt OntVerif.Proofs.NeoInt

/-! ### shifts -/
def shiftAmt (n : Int) : Except Fault Nat :=
  if n < 0 ∨ 18446744073709551616 ≤ n then .error .shiftneg else .ok n.toNat

theorem shiftAmount_exact (b : IntValue) : IntValue.shiftAmount b = shiftAmt b.toInt := by
  cases b with
  | big z =>
    simp only [IntValue.shiftAmount, shiftAmt, IntValue.toInt]
    by_cases h : 0 ≤ z ∧ z < 18446744073709551616
    · have : ¬ (z < 0 ∨ 18446744073709551616 ≤ z) := by omega
      simp [h, this]
    · have : (z < 0 ∨ 18446744073709551616 ≤ z) := by omega
      simp [h, this]
  | small i =>
    simp only [IntValue.shiftAmount, shiftAmt, IntValue.toInt, slt_iff, toInt_zero64]
    have r := i64_range i
    by_cases h : i.toInt < 0
    · simp [h]
    · have h3 : ¬ (18446744073709551616 ≤ i.toInt) := by omega
      simp only [h, h3, decide_false, Bool.false_eq_true, if_false, or_self]
      rcases toInt_cases i with ⟨_, e⟩ | ⟨_, e⟩
      · rw [e]; rfl
      · rw [e] at h; exact absurd (Int.negSucc_lt_zero _) h

def rshSem : Variant → Int → Int → Except Fault Int
  | .asShipped, x, n =>
    match shiftAmt n with
    | .error e => .error e
    | .ok k => if k > 256 then .ok (if x < 0 then -1 else 0) else bounded (x >>> k)
  | .sound, x, n =>
    if n < 0 then .error .shiftneg
    else if n > 256 then .ok (if x < 0 then -1 else 0)
    else bounded (x >>> n.toNat)

def lshSem : Variant → Int → Int → Except Fault Int
  | .asShipped, x, n =>
    match shiftAmt n with
    | .error e => .error e
    | .ok k => if k > 256 then .error .oversize else bounded (x <<< k)
  | .sound, x, n =>
    if n < 0 then .error .shiftneg
    else if x = 0 then .ok 0
    else if n > 256 then .error .oversize
    else bounded (x <<< n.toNat)

theorem sign_lt_zero (a : IntValue) : a.sign < 0 ↔ a.toInt < 0 := by
  rw [sign_exact]; unfold IntValue.cmpInt
  by_cases h1 : a.toInt < 0
  · simp [h1]
  · by_cases h2 : a.toInt = 0 <;> simp [h1, h2]

theorem small_zero : (IntValue.small 0).toInt = 0 := by decide

theorem rshV_exact (v : Variant) (a b : IntValue) : (IntValue.rshV v a b).map IntValue.toInt = rshSem v a.toInt b.toInt := by
  cases v with
  | asShipped =>
    simp only [IntValue.rshV, IntValue.rsh, rshSem, shiftAmount_exact]
    cases shiftAmt b.toInt with
    | error e => rfl
    | ok k =>
      simp only
      by_cases hk : k > 256
      · simp only [hk, if_true, sign_lt_zero]
        by_cases hn : a.toInt < 0 <;> simp only [hn, if_true, if_false, Except.map] <;> congr 1
      · simp only [hk, if_false, intValFromBigInt_toInt]
  | sound =>
    simp only [IntValue.rshV, rshSem]
    by_cases h1 : b.toInt < 0
    · simp [h1, Except.map]
    · simp only [h1, if_false]
      by_cases h2 : b.toInt > 256
      · simp only [h2, if_true]
        by_cases hn : a.toInt < 0 <;> simp only [hn, if_true, if_false, Except.map] <;> congr 1
      · simp only [h2, if_false, intValFromBigInt_toInt]

theorem lshV_exact (v : Variant) (a b : IntValue) : (IntValue.lshV v a b).map IntValue.toInt = lshSem v a.toInt b.toInt := by
  cases v with
  | asShipped =>
    simp only [IntValue.lshV, IntValue.lsh, lshSem, shiftAmount_exact]
    cases shiftAmt b.toInt with
    | error e => rfl
    | ok k =>
      simp only
      by_cases hk : k > 256
      · simp [hk, Except.map]
      · simp only [hk, if_false, intValFromBigInt_toInt]
  | sound =>
    simp only [IntValue.lshV, lshSem]
    by_cases h1 : b.toInt < 0
    · simp [h1, Except.map]
    · simp only [h1, if_false]
      by_cases h0 : a.toInt = 0
      · simp only [h0, if_true, Except.map]; congr 1
      · simp only [h0, if_false]
        by_cases h2 : b.toInt > 256
        · simp [h2, Except.map]
        · simp only [h2, if_false, intValFromBigInt_toInt]

def notSem : Variant → Int → Except Fault Int
  | .asShipped, x => .ok (-x - 1)
  | .sound, x => bounded (-x - 1)

theorem notV_exact (v : Variant) (a : IntValue) : (IntValue.notV v a).map IntValue.toInt = notSem v a.toInt := by
  cases v with
  | asShipped => simp [IntValue.notV, notSem, Except.map, not_exact]
  | sound =>
    simp only [IntValue.notV, notSem, bounded, not_exact]
    split <;> simp [Except.map, not_exact]

/-- the integer function behind every arithmetic / bitwise / shift opcode, with its faults -/
def semFn (v : Variant) (op : BOp) (x y : Int) : Except Fault Int :=
  match op with
  | .add => bounded (x + y)
  | .sub => bounded (x - y)
  | .mul => bounded (x * y)
  | .div => if y = 0 then .error .divzero else bounded (x.tdiv y)
  | .mod => if y = 0 then .error .divzero else bounded (x.tmod y)
  | .max => bounded (if x ≤ y then y else x)
  | .min => bounded (if x ≤ y then x else y)
  | .and => bounded (bigAnd x y)
  | .or => bounded (bigOr x y)
  | .xor => bounded (bigXor x y)
  | .shl => lshSem v x y
  | .shr => rshSem v x y
  | _ => .error .oversize

theorem arithFn_exact (v : Variant) (op : BOp) (a b : IntValue) :
    (arithFn v op a b).map IntValue.toInt = semFn v op a.toInt b.toInt := by
  cases op <;> simp only [arithFn, semFn]
  · exact add_exact a b
  · exact sub_exact a b
  · exact mul_exact a b
  · exact div_exact a b
  · exact mod_exact a b
  · exact max_exact a b
  · exact min_exact a b
  · exact and_exact a b
  · exact or_exact a b
  · exact xor_exact a b
  · exact lshV_exact v a b
  · exact rshV_exact v a b
  all_goals rfl

end OntVerif.Proofs.NeoIntOps
