import OntVerif.Model.Merkle
namespace OntVerif.Proofs.Merkle
open OntVerif.Util OntVerif.Model.Merkle

/-! ## `splitK` -/

theorem splitK_unique {a n : Nat} (h1 : 2 ^ a < n) (h2 : n ≤ 2 ^ (a + 1)) : splitK n = 2 ^ a := by
  unfold splitK
  have hp : 0 < 2 ^ a := Nat.two_pow_pos a
  have hne : n - 1 ≠ 0 := by omega
  have e : (n - 1).log2 = a := by
    apply Nat.le_antisymm
    · have : (n - 1).log2 < a + 1 := (Nat.log2_lt hne).2 (by omega)
      omega
    · exact (Nat.le_log2 hne).2 (by omega)
  rw [e]

theorem splitK_lt {n : Nat} (h : 2 ≤ n) : splitK n < n := by
  unfold splitK
  have := Nat.log2_self_le (n := n - 1) (by omega)
  omega

theorem splitK_pos (n : Nat) : 0 < splitK n := Nat.two_pow_pos _

theorem le_two_splitK {n : Nat} (h : 2 ≤ n) : n ≤ 2 * splitK n := by
  unfold splitK
  have := Nat.lt_log2_self (n := n - 1)
  rw [Nat.pow_succ] at this
  omega

theorem splitK_two_pow_succ (j : Nat) : splitK (2 ^ (j + 1)) = 2 ^ j :=
  splitK_unique (by rw [Nat.pow_succ]; have := Nat.two_pow_pos j; omega) (Nat.le_refl _)

section
variable {Hash : Type} (H1 : Hash → Hash → Hash) (He : Hash)

/-! ## `mth` -/

theorem mthF_cons2 (f : Nat) (x y : Hash) (r : List Hash) :
    mthF H1 He (f + 1) (x :: y :: r) =
      H1 (mthF H1 He f ((x :: y :: r).take (splitK (x :: y :: r).length)))
         (mthF H1 He f ((x :: y :: r).drop (splitK (x :: y :: r).length))) := rfl

theorem mthF_fuel (f g : Nat) (l : List Hash) (hf : l.length ≤ f) (hg : l.length ≤ g) :
    mthF H1 He f l = mthF H1 He g l := by
  induction f generalizing g l with
  | zero =>
    have : l = [] := List.eq_nil_of_length_eq_zero (by omega)
    subst this
    cases g <;> simp [mthF]
  | succ f ih =>
    cases g with
    | zero =>
      have : l = [] := List.eq_nil_of_length_eq_zero (by omega)
      subst this
      simp [mthF]
    | succ g =>
      match l, hf, hg with
      | [], _, _ => simp [mthF]
      | [x], _, _ => simp [mthF]
      | x :: y :: r, hf, hg =>
        rw [mthF_cons2, mthF_cons2]
        have h2 : 2 ≤ (x :: y :: r).length := by simp
        have hk := splitK_lt h2
        have hp := splitK_pos (x :: y :: r).length
        rw [ih g ((x :: y :: r).take (splitK (x :: y :: r).length)) (by rw [List.length_take]; omega)
              (by rw [List.length_take]; omega),
            ih g ((x :: y :: r).drop (splitK (x :: y :: r).length)) (by rw [List.length_drop]; omega)
              (by rw [List.length_drop]; omega)]

@[simp] theorem mth_nil : mth H1 He [] = He := by simp [mth, mthF]
@[simp] theorem mth_single (x : Hash) : mth H1 He [x] = x := by simp [mth, mthF]

theorem mth_split (l : List Hash) (h : 2 ≤ l.length) :
    mth H1 He l = H1 (mth H1 He (l.take (splitK l.length))) (mth H1 He (l.drop (splitK l.length))) := by
  match l, h with
  | x :: y :: r, h =>
    have hk := splitK_lt h
    have hp := splitK_pos (x :: y :: r).length
    unfold mth
    have e : (x :: y :: r).length = r.length + 1 + 1 := by simp
    rw [show mthF H1 He (x :: y :: r).length (x :: y :: r) = mthF H1 He (r.length + 1 + 1) (x :: y :: r) from rfl, mthF_cons2]
    rw [mthF_fuel H1 He (r.length + 1) (List.length ((x :: y :: r).take (splitK (x :: y :: r).length))) ((x :: y :: r).take (splitK (x :: y :: r).length))
          (by rw [List.length_take]; omega) (by rw [List.length_take]; omega),
        mthF_fuel H1 He (r.length + 1) (List.length ((x :: y :: r).drop (splitK (x :: y :: r).length))) ((x :: y :: r).drop (splitK (x :: y :: r).length))
          (by rw [List.length_drop]; omega) (by rw [List.length_drop]; omega)]

/-- a full left subtree of `2^j` leaves followed by at most `2^j` leaves -/
theorem mth_append (a b : List Hash) (j : Nat) (ha : a.length = 2 ^ j) (hb0 : 0 < b.length) (hb : b.length ≤ 2 ^ j) :
    mth H1 He (a ++ b) = H1 (mth H1 He a) (mth H1 He b) := by
  have hp := Nat.two_pow_pos j
  have hk : splitK (a ++ b).length = 2 ^ j := by
    apply splitK_unique
    · simp; omega
    · simp [Nat.pow_succ]; omega
  rw [mth_split H1 He (a ++ b) (by simp; omega), hk, ← ha]
  simp

end
end OntVerif.Proofs.Merkle
