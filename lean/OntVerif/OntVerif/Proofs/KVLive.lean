import OntVerif.Model.KVLive
import OntVerif.Proofs.Migrate
/-! Helper lemmas for the open-iterator objects (C04_iter_deferred, re-First) and `StateDB.Commit` (C08). -/
namespace OntVerif.Proofs.KVLive
open OntVerif.Util OntVerif.Model.KV OntVerif.Model.Migrate OntVerif.Model.KVLive OntVerif.Proofs.KV OntVerif.Proofs.Migrate

/-- the state an iterator opened over store `st0` sees when it is positioned in state `c1`: the memdbs of `c1`, the store of then -/
def seenBy (c1 : Cache) (st0 : Store) : Cache := { c1 with backend := { c1.backend with store := st0 } }

theorem overlay_deferred_spec (o1 : Overlay) (st0 : Store) (hm : Sorted o1.mem) (hs : Sorted st0) (p : Bytes) (n : Nat) :
    drainOverlayIter o1 (openOverlayIter ⟨[], st0⟩ p) n = (overlayList { o1 with store := st0 } p).take n := by
  have sim : Sim (ovLiveOps o1.mem) (RJoin (RLive o1.mem p (prefixLimit p)) RLeaf) :=
    join_sim (live_sim o1.mem hm p (prefixLimit p)) leaf_sim
  have hfresh : RJoin (RLive o1.mem p (prefixLimit p)) RLeaf (openOverlayIter ⟨[], st0⟩ p)
      (.fresh (overlayList { o1 with store := st0 } p)) :=
    ⟨slice o1.mem p (prefixLimit p), prefixSlice st0 p, ⟨rfl, rfl, rfl, rfl, rfl⟩, ⟨rfl, rfl⟩,
      tail_keys_ne (prefixSlice_spec hs p).1, rfl, rfl, rfl, rfl, rfl, rfl⟩
  obtain ⟨f1, f2⟩ := sim.first _ _ hfresh
  unfold drainOverlayIter
  have := drain_spec sim false n ((ovLiveOps o1.mem).first (openOverlayIter ⟨[], st0⟩ p)).2 _
    ((ovLiveOps o1.mem).first (openOverlayIter ⟨[], st0⟩ p)).1 f2 f1
  rw [this]; simp

theorem cache_deferred_spec (c1 : Cache) (st0 : Store) (inv : Inv c1) (hs : Sorted st0) (p : Bytes) (n : Nat) :
    drainCacheIter c1 (openCacheIter ⟨[], ⟨[], st0⟩⟩ p) n
      = ((cacheList (seenBy c1 st0) p).map fun e => (e.1.drop 1, e.2)).take n := by
  let s := stStorage :: p
  have simO : Sim (ovLiveOps c1.backend.mem) (RJoin (RLive c1.backend.mem s (prefixLimit s)) RLeaf) :=
    join_sim (live_sim _ inv.blk s (prefixLimit s)) leaf_sim
  have sim : Sim (cacheLiveOps c1.mem c1.backend.mem)
      (RJoin (RLive c1.mem s (prefixLimit s)) (RJoin (RLive c1.backend.mem s (prefixLimit s)) RLeaf)) :=
    join_sim (live_sim _ inv.tx s (prefixLimit s)) simO
  have invS : Inv (seenBy c1 st0) := ⟨inv.tx, inv.blk, hs⟩
  have hback : RJoin (RLive c1.backend.mem s (prefixLimit s)) RLeaf (openOverlayIter ⟨[], st0⟩ s)
      (.fresh (overlayList (seenBy c1 st0).backend s)) :=
    ⟨slice c1.backend.mem s (prefixLimit s), prefixSlice st0 s, ⟨rfl, rfl, rfl, rfl, rfl⟩, ⟨rfl, rfl⟩,
      tail_keys_ne (prefixSlice_spec hs s).1, rfl, rfl, rfl, rfl, rfl, rfl⟩
  have hfresh : RJoin (RLive c1.mem s (prefixLimit s)) (RJoin (RLive c1.backend.mem s (prefixLimit s)) RLeaf)
      (openCacheIter ⟨[], ⟨[], st0⟩⟩ p) (.fresh (cacheList (seenBy c1 st0) p)) :=
    ⟨slice c1.mem s (prefixLimit s), _, ⟨rfl, rfl, rfl, rfl, rfl⟩, hback,
      tail_keys_ne (overlayList_spec (seenBy c1 st0).backend invS.blk invS.per s).1, rfl, rfl, rfl, rfl, rfl, rfl⟩
  obtain ⟨f1, f2⟩ := sim.first _ _ hfresh
  unfold drainCacheIter
  have := drain_spec sim true n ((cacheLiveOps c1.mem c1.backend.mem).first (openCacheIter ⟨[], ⟨[], st0⟩⟩ p)).2 _
    ((cacheLiveOps c1.mem c1.backend.mem).first (openCacheIter ⟨[], ⟨[], st0⟩⟩ p)).1 f2 f1
  rw [this]; simp [List.map_take]

/-- the iterator object depends on the state it was created in only through the persistent store -/
theorem openCacheIter_store (c0 : Cache) (p : Bytes) : openCacheIter c0 p = openCacheIter ⟨[], ⟨[], c0.backend.store⟩⟩ p := rfl
theorem openOverlayIter_store (o0 : Overlay) (p : Bytes) : openOverlayIter o0 p = openOverlayIter ⟨[], o0.store⟩ p := rfl

/-! ### `First()` called again on a used `JoinIter` (overlay level: both children are `Leaf`s) -/

/-- `k` calls of `Next()`, whatever they return -/
def nexts : Nat → OverlayIter → OverlayIter
  | 0, j => j
  | k + 1, j => nexts k (overlayIterOps.next j).2

theorem rawNext_alls (j : OverlayIter) :
    (Join.rawNext leafOps leafOps j).2.mem.all = j.mem.all ∧ (Join.rawNext leafOps leafOps j).2.back.all = j.back.all := by
  have hm : (Leaf.next j.mem).2.all = j.mem.all := by
    unfold Leaf.next Leaf.first; split <;> rfl
  have hb : (Leaf.next j.back).2.all = j.back.all := by
    unfold Leaf.next Leaf.first; split <;> rfl
  rw [rawNext_eq]
  have ha : (adv leafOps leafOps j).mem.all = j.mem.all ∧ (adv leafOps leafOps j).back.all = j.back.all := by
    unfold adv
    constructor
    · simp only []; split <;> first | rfl | exact hm
    · simp only []; split <;> first | rfl | exact hb
  have hs (x : OverlayIter) : (sel leafOps leafOps x).2.mem.all = x.mem.all ∧ (sel leafOps leafOps x).2.back.all = x.back.all := by
    unfold sel
    split
    · split <;> exact ⟨rfl, rfl⟩
    · split
      · exact ⟨rfl, rfl⟩
      · split <;> exact ⟨rfl, rfl⟩
  exact ⟨(hs _).1.trans ha.1, (hs _).2.trans ha.2⟩

theorem skip_alls (n : Nat) (j : OverlayIter) :
    (Join.skip leafOps leafOps n j).2.mem.all = j.mem.all ∧ (Join.skip leafOps leafOps n j).2.back.all = j.back.all := by
  induction n generalizing j with
  | zero => exact ⟨rfl, rfl⟩
  | succ n ih =>
    unfold Join.skip
    split
    · simp only []
      split
      · exact ⟨(ih _).1.trans (rawNext_alls j).1, (ih _).2.trans (rawNext_alls j).2⟩
      · exact rawNext_alls j
    · exact ⟨rfl, rfl⟩

theorem next_alls (j : OverlayIter) :
    (overlayIterOps.next j).2.mem.all = j.mem.all ∧ (overlayIterOps.next j).2.back.all = j.back.all := by
  show (Join.next leafOps leafOps j).2.mem.all = _ ∧ (Join.next leafOps leafOps j).2.back.all = _
  unfold Join.next
  simp only []
  split
  · exact ⟨(skip_alls _ _).1.trans (rawNext_alls j).1, (skip_alls _ _).2.trans (rawNext_alls j).2⟩
  · exact rawNext_alls j

theorem rawFirst_alls (j : OverlayIter) :
    (Join.rawFirst leafOps leafOps j).2.mem.all = j.mem.all ∧ (Join.rawFirst leafOps leafOps j).2.back.all = j.back.all := by
  unfold Join.rawFirst
  simp only []
  split
  · split
    · exact ⟨rfl, rfl⟩
    · split <;> exact ⟨rfl, rfl⟩
  · split <;> exact ⟨rfl, rfl⟩

theorem first_alls (j : OverlayIter) :
    (overlayIterOps.first j).2.mem.all = j.mem.all ∧ (overlayIterOps.first j).2.back.all = j.back.all := by
  show (Join.first leafOps leafOps j).2.mem.all = _ ∧ (Join.first leafOps leafOps j).2.back.all = _
  unfold Join.first
  simp only []
  split
  · exact ⟨(skip_alls _ _).1.trans (rawFirst_alls j).1, (skip_alls _ _).2.trans (rawFirst_alls j).2⟩
  · exact rawFirst_alls j

theorem nexts_alls (k : Nat) (j : OverlayIter) : (nexts k j).mem.all = j.mem.all ∧ (nexts k j).back.all = j.back.all := by
  induction k generalizing j with
  | zero => exact ⟨rfl, rfl⟩
  | succ k ih => exact ⟨(ih _).1.trans (next_alls j).1, (ih _).2.trans (next_alls j).2⟩

/-- `First()` on a join of two leaf iterators whose end flags are clear only depends on the lists the leaves walk -/
theorem first_of_flags_clear (j j' : OverlayIter) (hm : j.mem.all = j'.mem.all) (hb : j.back.all = j'.back.all)
    (f1 : j.memEnd = false) (f2 : j.backEnd = false) (g1 : j'.memEnd = false) (g2 : j'.backEnd = false) (n : Nat) :
    drain overlayIterOps false n (overlayIterOps.first j) = drain overlayIterOps false n (overlayIterOps.first j') := by
  have hmf : (Leaf.first j.mem) = (Leaf.first j'.mem) := by unfold Leaf.first; rw [hm]
  have hbf : (Leaf.first j.back) = (Leaf.first j'.back) := by unfold Leaf.first; rw [hb]
  by_cases he : j.mem.all.isEmpty = true ∧ j.back.all.isEmpty = true
  · -- both sides empty: `first()` fails on both
    have r (x : OverlayIter) (h1 : x.mem.all.isEmpty = true) (h2 : x.back.all.isEmpty = true) :
        (overlayIterOps.first x).1 = false := by
      show (Join.first leafOps leafOps x).1 = false
      simp [Join.first, Join.rawFirst, leafOps, Leaf.first, h1, h2]
    have a1 := r j he.1 he.2
    have a2 := r j' (by rw [← hm]; exact he.1) (by rw [← hb]; exact he.2)
    cases n with
    | zero => rfl
    | succ n =>
      have d (x : Bool × OverlayIter) (h : x.1 = false) : drain overlayIterOps false (n + 1) x = [] := by
        obtain ⟨a, b⟩ := x
        simp only at h; subst h
        simp [drain]
      rw [d _ a1, d _ a2]
  · have : overlayIterOps.first j = overlayIterOps.first j' := by
      show Join.first leafOps leafOps j = Join.first leafOps leafOps j'
      have rf : Join.rawFirst leafOps leafOps j = Join.rawFirst leafOps leafOps j' := by
        obtain ⟨jm, jb, jk, jv, jo, jme, jbe⟩ := j
        obtain ⟨jm', jb', jk', jv', jo', jme', jbe'⟩ := j'
        simp only at hm hb f1 f2 g1 g2 hmf hbf he
        subst f1 f2 g1 g2
        simp only [Join.rawFirst, leafOps, hmf, hbf]
        have hne : ¬ (jm'.all.isEmpty = true ∧ jb'.all.isEmpty = true) := by rw [← hm, ← hb]; exact he
        unfold Leaf.first
        simp only []
        by_cases e1 : jb'.all.isEmpty = true
        · have e2 : jm'.all.isEmpty = false := by
            cases h : jm'.all.isEmpty
            · rfl
            · exact absurd ⟨h, e1⟩ hne
          simp [e1, e2]
        · have e1' : jb'.all.isEmpty = false := by simpa using e1
          by_cases e2 : jm'.all.isEmpty = true
          · simp [e1', e2]
          · have e2' : jm'.all.isEmpty = false := by simpa using e2
            simp only [e1', e2', Bool.not_false, if_true, Bool.not_true, Bool.false_eq_true, if_false]
      unfold Join.first
      rw [rf]
    rw [this]

/-! ### StateDB.Commit -/

theorem commitToCacheDB_snaps (s : StateDB) : (commitToCacheDB s).snaps = [] ∧ (commitToCacheDB s).suicided = [] := ⟨rfl, rfl⟩
theorem commit_snaps (s : StateDB) : (commit s).snaps = [] ∧ (commit s).suicided = [] := ⟨rfl, rfl⟩

/-- one round of the loop of `CommitToCacheDB` -/
def killStep (c : Cache) (a : Bytes) : Cache := cleanData (c.put stEthAccount a []) a

/-- after the loop every self-destructed address has no account record and no storage entry left -/
theorem kill_fold (l : List Bytes) (c : Cache) (inv : Inv c) (done : List Bytes)
    (hd : ∀ a ∈ done, (∀ k, a <+: k → c.read (stStorage :: k) = []) ∧ c.read (stEthAccount :: a) = []) :
    Inv (l.foldl killStep c) ∧ (l.foldl killStep c).backend = c.backend ∧
    ∀ a, a ∈ done ∨ a ∈ l →
      (∀ k, a <+: k → (l.foldl killStep c).read (stStorage :: k) = []) ∧ (l.foldl killStep c).read (stEthAccount :: a) = [] := by
  induction l generalizing c done with
  | nil => exact ⟨inv, rfl, fun a h => hd a (by simpa using h)⟩
  | cons b r ih =>
    have inv1 : Inv (c.put stEthAccount b []) := inv_cput inv _ _ _
    obtain ⟨i2, bk, cl, fr⟩ := cleanData_spec (c.put stEthAccount b []) inv1 b
    have rd (q : Key) : (c.put stEthAccount b []).read q = if q = stEthAccount :: b then [] else c.read q :=
      read_cput c inv.tx stEthAccount b [] q
    have hne : stStorage ≠ stEthAccount := by decide
    have hd' : ∀ a ∈ b :: done, (∀ k, a <+: k → (killStep c b).read (stStorage :: k) = []) ∧
        (killStep c b).read (stEthAccount :: a) = [] := by
      intro a ha
      have hacct (x : Bytes) : (killStep c b).read (stEthAccount :: x) = (c.put stEthAccount b []).read (stEthAccount :: x) := by
        apply fr
        intro hp
        rw [List.cons_prefix_cons] at hp
        exact hne hp.1
      simp only [List.mem_cons] at ha
      rcases ha with rfl | ha
      · refine ⟨fun k hk => cl k hk, ?_⟩
        rw [hacct, rd]; simp
      · obtain ⟨h1, h2⟩ := hd a ha
        constructor
        · intro k hk
          by_cases hb : b <+: k
          · exact cl k hb
          · have : (killStep c b).read (stStorage :: k) = (c.put stEthAccount b []).read (stStorage :: k) := by
              apply fr
              intro hp
              rw [List.cons_prefix_cons] at hp
              exact hb hp.2
            rw [this, rd]
            have : stStorage :: k ≠ stEthAccount :: b := by
              intro hh; injection hh with h1' _; exact hne h1'
            simp only [this, if_false]
            exact h1 k hk
        · rw [hacct, rd]
          by_cases hab : a = b
          · simp [hab]
          · have : stEthAccount :: a ≠ stEthAccount :: b := by
              intro hh; injection hh with _ h2'; exact hab h2'
            simp only [this, if_false]; exact h2
    obtain ⟨j1, j2, j3⟩ := ih (killStep c b) i2 (b :: done) hd'
    refine ⟨j1, ?_, ?_⟩
    · rw [List.foldl_cons, j2]
      show (cleanData (c.put stEthAccount b []) b).backend = c.backend
      rw [bk]; rfl
    · intro a ha
      apply j3
      rcases ha with ha | ha
      · exact Or.inl (List.mem_cons_of_mem _ ha)
      · simp only [List.mem_cons] at ha
        rcases ha with rfl | ha
        · exact Or.inl (by simp)
        · exact Or.inr ha

end OntVerif.Proofs.KVLive
