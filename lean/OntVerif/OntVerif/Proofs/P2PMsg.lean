import OntVerif.Proofs.Codec
import OntVerif.Model.P2PMsg
/-! Helper lemmas for C24: a small specification logic for the decoder monad of `Model/P2PMsg.lean`
(`Spec`: no panic + consumed bytes are the encoder's output) and forward round-trip lemmas (`Reads`). Core-only. -/
namespace OntVerif.Proofs.P2PMsg
open OntVerif.Util OntVerif.Model.Codec OntVerif.Proofs.Codec OntVerif.Model.P2PMsg

/-- bytes between two cursor positions -/
def seg (s s' : Src) : Bytes := (s.bs.drop s.off).take (s'.off - s.off)

theorem seg_self (s : Src) : seg s s = [] := by simp [seg]

theorem seg_append {s s1 s2 : Src} (h1 : Adv s s1) (h2 : Adv s1 s2) : seg s s2 = seg s s1 ++ seg s1 s2 := by
  obtain ⟨b1, o1, _⟩ := h1
  obtain ⟨b2, o2, _⟩ := h2
  unfold seg
  rw [b1]
  have e : s2.off - s.off = (s1.off - s.off) + (s2.off - s1.off) := by omega
  rw [e, List.take_add, List.drop_drop]
  have : s.off + (s1.off - s.off) = s1.off := by omega
  rw [this]

theorem seg_length {s s' : Src} (h : Adv s s') : (seg s s').length = s'.off - s.off := by
  obtain ⟨b, o, l⟩ := h
  unfold seg
  simp
  rw [b] at l
  omega

/-- postcondition of one decoder run started in `s` -/
def Post (g : Bool) (R : α → Bytes → Prop) (s : St) : Res (α × St) → Prop
  | .panic => False
  | .err _ _ => True
  | .ok (a, s') => Adv s.src s'.src ∧ (s.lossy = true → s'.lossy = true) ∧
        ((g = true → s'.lossy = false) → R a (seg s.src s'.src))

/-- Specification of a decoder (for every well-formed start state): no panic; on success the source only
advanced, the ghost bit is monotone (buffers shorter than 2^63 bytes: an `int` length), and the bytes consumed are related to the value by `R`
(when `g`, only for runs that end with the ghost bit clear). -/
def Spec (g : Bool) (d : Dec α) (R : α → Bytes → Prop) : Prop :=
  ∀ s : St, s.src.wf → s.src.bs.length < 2 ^ 63 → Post g R s (d s)

theorem Spec.mono {g} {d : Dec α} {R R' : α → Bytes → Prop} (h : Spec g d R) (hi : ∀ a w, R a w → R' a w) : Spec g d R' := by
  intro s w h63
  have := h s w h63
  cases hd : d s with
  | panic => rw [hd] at this; exact this
  | err e _ => trivial
  | ok r =>
    obtain ⟨a, s'⟩ := r
    rw [hd] at this
    exact ⟨this.1, this.2.1, fun hl => hi _ _ (this.2.2 hl)⟩

theorem Spec.pure {g} (a : α) {R : α → Bytes → Prop} (h : R a []) : Spec g (Pure.pure a : Dec α) R := by
  intro s w _
  show Post g R s (Dec.pure a s)
  exact ⟨Adv.refl w, id, fun _ => by rw [seg_self]; exact h⟩

theorem Spec.fail {g} (e : DErr) {R : α → Bytes → Prop} : Spec g (fail e : Dec α) R := by
  intro s w _
  trivial

theorem Spec.bind {g} {d : Dec α} {f : α → Dec β} {R1 : α → Bytes → Prop} {R : β → Bytes → Prop}
    (hd : Spec g d R1) (hf : ∀ a, Spec g (f a) (fun c w2 => ∀ w1, R1 a w1 → R c (w1 ++ w2))) :
    Spec g (d >>= f) R := by
  intro s w h63
  show Post g R s (Dec.bind d f s)
  unfold Dec.bind
  have h1 := hd s w h63
  cases hds : d s with
  | panic => rw [hds] at h1; exact h1.elim
  | err e _ => trivial
  | ok r =>
    obtain ⟨a, s1⟩ := r
    rw [hds] at h1
    obtain ⟨adv1, mono1, r1⟩ := h1
    have h2 := hf a s1 (adv1.wf w) (by rw [adv1.1]; exact h63)
    simp only
    cases hfs : f a s1 with
    | panic => rw [hfs] at h2; exact h2.elim
    | err e _ => trivial
    | ok r2 =>
      obtain ⟨c, s2⟩ := r2
      rw [hfs] at h2
      obtain ⟨adv2, mono2, r2⟩ := h2
      refine ⟨adv1.trans adv2, fun h => mono2 (mono1 h), fun hl => ?_⟩
      rw [seg_append adv1 adv2]
      apply r2 hl
      apply r1
      intro hg
      cases hb : s1.lossy with
      | false => rfl
      | true => have := mono2 hb; rw [hl hg] at this; cases this

theorem Spec.note {g} (b : Bool) {R : Unit → Bytes → Prop} (h : (g = true → b = false) → R () []) : Spec g (note b) R := by
  intro s w _
  refine ⟨Adv.refl w, fun h => by simp [h], fun hl => ?_⟩
  rw [seg_self]
  apply h
  intro hg
  have := hl hg
  simp at this
  exact this.2


theorem Spec.congr {g} {d d' : Dec α} {R : α → Bytes → Prop} (h : ∀ s : St, s.src.wf → d s = d' s) (hs : Spec g d' R) : Spec g d R := by
  intro s w h63
  rw [h s w]
  exact hs s w h63

theorem Spec.ite {g} {c : Prop} [Decidable c] {a b : Dec α} {R : α → Bytes → Prop}
    (ha : c → Spec g a R) (hb : ¬ c → Spec g b R) : Spec g (if c then a else b) R := by
  split
  · exact ha ‹_›
  · exact hb ‹_›

/-! ### primitives -/

theorem spec_liftO {g} {f : Src → Option (α × Src)} {R : α → Bytes → Prop}
    (h : ∀ s : Src, s.wf → ∃ a s', f s = some (a, s') ∧ Adv s s' ∧ R a (seg s s')) : Spec g (liftO f) R := by
  intro s w _
  obtain ⟨a, s', hf, adv, r⟩ := h s.src w
  show Post g R s (liftO f s)
  unfold liftO
  rw [hf]
  exact ⟨adv, id, fun _ => r⟩

theorem spec_liftT {g} {f : Src → α × Src} {R : α → Bytes → Prop}
    (h : ∀ s : Src, s.wf → Adv s (f s).2 ∧ R (f s).1 (seg s (f s).2)) : Spec g (liftT f) R := by
  intro s w _
  obtain ⟨adv, r⟩ := h s.src w
  exact ⟨adv, id, fun _ => r⟩

theorem seg_of_read {s s' : Src} {n : Nat} (_adv : Adv s s') (ho : s'.off = s.off + n) :
    seg s s' = (s.bs.drop s.off).take n := by
  unfold seg
  rw [ho]
  congr 1
  omega

theorem spec_nBytes {g} (n : Nat) (hn : n < two64) :
    Spec g (nBytes n) (fun r w => r.2 = false → w = r.1 ∧ r.1.length = n) := by
  apply spec_liftO
  intro s w
  obtain ⟨d, e, s', h, adv, hd⟩ := nextBytes_total s n w hn
  refine ⟨(d, e), s', h, adv, ?_⟩
  intro he
  obtain ⟨h1, h2, h3⟩ := hd he
  rw [seg_of_read adv h2]
  exact ⟨h3.symm, h1⟩

theorem spec_nUint {g} (k : Nat) (hk : k < two64) :
    Spec g (nUint k) (fun r w => r.2 = false → w = leN k r.1 ∧ r.1 < 256 ^ k) := by
  apply spec_liftO
  intro s w
  obtain ⟨d, e, s', h, adv, hd⟩ := nextBytes_total s k w hk
  unfold nextUintN
  rw [h]
  cases e with
  | true => exact ⟨_, _, rfl, adv, by intro h; cases h⟩
  | false =>
    refine ⟨_, _, rfl, adv, ?_⟩
    intro _
    obtain ⟨h1, h2, h3⟩ := hd rfl
    rw [seg_of_read adv h2, ← h3]
    simp only
    have := leN_fromLE d
    rw [h1] at this
    refine ⟨this.symm, ?_⟩
    have := fromLE_lt d
    rw [h1] at this
    exact this

theorem spec_uN {g} (k : Nat) (hk : k < two64) : Spec g (uN k) (fun v w => w = leN k v ∧ v < 256 ^ k) := by
  unfold uN
  apply Spec.bind (spec_nUint k hk)
  intro r
  apply Spec.ite
  · intro _; exact Spec.fail _
  · intro he
    apply Spec.pure
    intro w1 h1
    simp only [List.append_nil]
    exact h1 (by simpa using he)

theorem spec_nFixed {g} (k : Nat) (hk : k < two64) :
    Spec g (nFixed k) (fun r w => r.2 = false → w = r.1 ∧ r.1.length = k) := by
  apply spec_liftO
  intro s w
  obtain ⟨d, e, s', h, adv, hd⟩ := nextBytes_total s k w hk
  unfold nextFixed
  rw [h]
  cases e with
  | true => exact ⟨_, _, rfl, adv, by intro h; cases h⟩
  | false =>
    refine ⟨_, _, rfl, adv, ?_⟩
    intro _
    obtain ⟨h1, h2, h3⟩ := hd rfl
    rw [seg_of_read adv h2, ← h3]
    exact ⟨rfl, h1⟩

theorem spec_fixed {g} (k : Nat) (hk : k < two64) : Spec g (fixed k) (fun d w => w = d ∧ d.length = k) := by
  unfold fixed
  apply Spec.bind (spec_nFixed k hk)
  intro r
  apply Spec.ite
  · intro _; exact Spec.fail _
  · intro he
    apply Spec.pure
    intro w1 h1
    simp only [List.append_nil]
    exact h1 (by simpa using he)

theorem seg_nextByte (s : Src) (b : UInt8) (h : s.bs[s.off]? = some b) :
    seg s { s with off := s.off + 1 } = [b] := by
  unfold seg
  simp only [Nat.add_sub_cancel_left]
  have hlt := (List.getElem?_eq_some_iff.mp h).1
  rw [List.drop_eq_getElem_cons hlt]
  have := (List.getElem?_eq_some_iff.mp h).2
  simp [this]

theorem spec_nByte {g} : Spec g nByte (fun r w => r.2 = false → w = [r.1]) := by
  apply spec_liftT
  intro s w
  refine ⟨nextByte_adv s w, ?_⟩
  unfold nextByte
  split
  · intro h; cases h
  · rename_i b hb
    intro _
    exact seg_nextByte s b hb

theorem leN_one (v : Nat) (h : v < 256) (b : UInt8) (hb : b.toNat = v) : leN 1 v = [b] := by
  simp only [leN]
  have : v % 256 = v := Nat.mod_eq_of_lt h
  rw [this, ← hb]
  simp

theorem spec_u8 {g} : Spec g u8 (fun v w => w = leN 1 v ∧ v < 256) := by
  unfold u8
  apply Spec.bind spec_nByte
  intro r
  apply Spec.ite
  · intro _; exact Spec.fail _
  · intro he
    apply Spec.pure
    intro w1 h1
    simp only [List.append_nil]
    rw [h1 (by simpa using he)]
    have := r.1.toNat_lt
    exact ⟨(leN_one _ (by omega) r.1 rfl).symm, by omega⟩

/-- raw `NextBool`: one byte consumed unless eof; it is the canonical encoding unless flagged irregular -/
theorem spec_nBool {g} : Spec g nBool (fun r w => r.2.2 = false → (r.2.1 = false → w = writeBool r.1)) := by
  apply spec_liftT
  intro s w
  refine ⟨nextBool_adv s w, ?_⟩
  unfold nextBool nextByte
  cases hb : s.bs[s.off]? with
  | none => simp
  | some b =>
    simp only
    have hs := seg_nextByte s b hb
    by_cases h0 : b = 0
    · subst h0; simp [hs, writeBool]
    · by_cases h1 : b = 1
      · subst h1; simp [hs, writeBool]
      · simp [h0, h1]


theorem nextVarUint_off (s : Src) (w : s.wf) (r : VarRes) (s' : Src)
    (h : nextVarUint s = some (r, s')) (he : r.eof = false) : s'.off = s.off + r.size := by
  obtain ⟨pre, fb, tail, hs, hcase⟩ := nextVarUint_shape s w r s' h he
  subst hs
  rcases hcase with ⟨hk, hr⟩ | ⟨hk, d, rest, ht, hd, hr⟩
  · rw [nextVarUint_plain _ _ _ hk] at h
    injection h with h; injection h with _ h2
    subst hr; rw [← h2]
  · subst ht
    have e : pre ++ fb :: (d ++ rest) = pre ++ fb :: d ++ rest := by simp
    have hl : (pre ++ fb :: d ++ rest).length < two64 := by rw [← e]; exact w.2
    rw [e, nextVarUint_wide _ _ _ _ hk hd hl] at h
    injection h with h; injection h with _ h2
    subst hr; rw [← h2]; simp only; omega

theorem spec_nVarBytes {g} :
    Spec g nVarBytes (fun r w => r.2.2.2 = false → r.2.2.1 = false → w = writeVarBytes r.1) := by
  apply spec_liftO
  intro s w
  obtain ⟨r, s1, h, adv, hv⟩ := nextVarUint_total s w
  unfold nextVarBytes
  rw [h]
  simp only
  split
  · rename_i hpos
    obtain ⟨d, e, s2, hb, adv2, hd⟩ := nextBytes_total s1 r.val (adv.wf w) hv
    rw [hb]
    refine ⟨_, _, rfl, adv.trans adv2, ?_⟩
    simp only
    intro he hirr
    subst he
    obtain ⟨h1, h2, h3⟩ := hd rfl
    have hre : r.eof = false := by
      -- eof results carry val = 0
      unfold nextVarUint at h
      cases hr : r.eof with
      | false => rfl
      | true =>
        exfalso
        generalize nextByte s = nb at h
        obtain ⟨⟨fb, eof⟩, s0⟩ := nb
        simp only at h
        split at h
        · injection h with h; injection h with h _; subst h; simp at hpos
        · split at h
          · injection h with h; injection h with h _; subst h; simp at hr
          · split at h
            · cases h
            · split at h
              · injection h with h; injection h with h _; subst h; simp at hpos
              · injection h with h; injection h with h _; subst h; simp at hr
    have hoff := nextVarUint_off s w r s1 h hre
    have hcan := (varuint_canonical s w r s1 h hre).mp hirr
    rw [seg_append adv adv2, seg_of_read adv hoff, hcan, seg_of_read adv2 h2, ← h3]
    unfold writeVarBytes
    rw [h1]
  · rename_i hz
    refine ⟨_, _, rfl, adv, ?_⟩
    simp only
    intro he hirr
    have hoff := nextVarUint_off s w r s1 h he
    have hcan := (varuint_canonical s w r s1 h he).mp hirr
    rw [seg_of_read adv hoff, hcan]
    have : r.val = 0 := by omega
    rw [this]
    rfl

theorem spec_readVarBytes {g} : Spec g readVarBytes (fun d w => w = writeVarBytes d) := by
  unfold readVarBytes
  apply Spec.bind spec_nVarBytes
  intro r
  apply Spec.ite
  · intro _; exact Spec.fail _
  · intro hi
    apply Spec.ite
    · intro _; exact Spec.fail _
    · intro he
      apply Spec.pure
      intro w1 h1
      simp only [List.append_nil]
      exact h1 (by simpa using he) (by simpa using hi)

theorem spec_varBytesLax : Spec true varBytesLax (fun d w => w = writeVarBytes d) := by
  unfold varBytesLax
  apply Spec.bind spec_nVarBytes
  intro r
  apply Spec.ite
  · intro _; exact Spec.fail _
  · intro he
    apply Spec.bind (R1 := fun _ w => w = [] ∧ r.2.2.1 = false)
    · apply Spec.note
      intro h
      exact ⟨rfl, h rfl⟩
    · intro _
      apply Spec.pure
      intro w1 h1 w2 h2
      obtain ⟨rfl, hi⟩ := h1
      simp only [List.append_nil]
      exact h2 (by simpa using he) hi

/-- totality only (`g = false`): the relation is trivial -/
theorem spec_varBytesLax_safe : Spec false varBytesLax (fun _ _ => True) := by
  unfold varBytesLax
  apply Spec.bind (spec_nVarBytes)
  intro r
  apply Spec.ite
  · intro _; exact Spec.fail _
  · intro _
    apply Spec.bind (R1 := fun _ _ => True)
    · apply Spec.note; intro _; trivial
    · intro _
      apply Spec.pure
      intros; trivial


theorem lt64 (k : Nat) (h : k ≤ 64 := by omega) : k < two64 := by unfold two64; omega

theorem Spec.allocEv {g} (n : Nat) {R : Unit → Bytes → Prop} (h : R () []) : Spec g (allocEv n) R := by
  intro s w _
  refine ⟨Adv.refl w, id, fun _ => ?_⟩
  rw [seg_self]
  exact h

theorem spec_repeatD {g} {body : Dec α} {e : α → Bytes} {P : α → Prop}
    (hb : Spec g body (fun x w => w = e x ∧ P x)) (n : Nat) :
    Spec g (repeatD n body) (fun l w => w = (l.map e).flatten ∧ l.length = n ∧ ∀ x ∈ l, P x) := by
  induction n with
  | zero => exact Spec.pure _ (by simp)
  | succ n ih =>
    unfold repeatD
    apply Spec.bind hb
    intro x
    apply Spec.bind (R1 := fun _ w => w = [])
    · exact Spec.allocEv 1 rfl
    intro _
    apply Spec.bind ih
    intro xs
    apply Spec.pure
    intro w1 h1 w0 h0 w2 h2
    subst h0
    obtain ⟨rfl, hl, hp⟩ := h1
    obtain ⟨rfl, hx⟩ := h2
    refine ⟨by simp, by simp; omega, ?_⟩
    intro y hy
    rcases List.mem_cons.mp hy with rfl | hy
    · exact hx
    · exact hp y hy

theorem spec_sliceTo {g} (l : List α) (n : Nat) (h : n ≤ l.length) :
    Spec g (sliceTo l n) (fun r w => w = [] ∧ r = l.take n) := by
  intro s w _
  show Post g _ s (sliceTo l n s)
  unfold sliceTo
  rw [if_pos h]
  exact ⟨Adv.refl w, id, fun _ => ⟨seg_self _, rfl⟩⟩

/-! ### fixed-layout messages -/

theorem spec_decPing : Spec true decPing (fun m w => w = encode m) := by
  unfold decPing
  apply Spec.bind (spec_uN 8 (lt64 8))
  intro h
  apply Spec.pure
  intro w1 h1
  simp [encode, h1.1]

theorem spec_decPong : Spec true decPong (fun m w => w = encode m) := by
  unfold decPong
  apply Spec.bind (spec_uN 8 (lt64 8))
  intro h
  apply Spec.pure
  intro w1 h1
  simp [encode, h1.1]

theorem spec_decVerack : Spec true decVerack (fun m w => w = encode m) := by
  unfold decVerack
  apply Spec.bind spec_nBool
  intro r
  apply Spec.ite
  · intro _; exact Spec.fail _
  · intro he
    apply Spec.ite
    · intro _; exact Spec.fail _
    · intro hi
      apply Spec.pure
      intro w1 h1
      simp only [List.append_nil, encode]
      exact h1 (by simpa using he) (by simpa using hi)

theorem spec_decAddrReq : Spec true decAddrReq (fun m w => w = encode m) := by
  unfold decAddrReq
  exact Spec.pure _ rfl

theorem spec_decHeadersReq : Spec true decHeadersReq (fun m w => w = encode m) := by
  unfold decHeadersReq
  apply Spec.bind spec_u8; intro n
  apply Spec.bind (spec_fixed 32 (lt64 32)); intro s
  apply Spec.bind (spec_fixed 32 (lt64 32)); intro e
  apply Spec.pure
  intro w1 h1 w2 h2 w3 h3
  simp [encode, h1.1, h2.1, h3.1]

theorem spec_decBlocksReq : Spec true decBlocksReq (fun m w => w = encode m) := by
  unfold decBlocksReq
  apply Spec.bind spec_u8; intro n
  apply Spec.bind (spec_fixed 32 (lt64 32)); intro s
  apply Spec.bind (spec_fixed 32 (lt64 32)); intro e
  apply Spec.pure
  intro w1 h1 w2 h2 w3 h3
  simp [encode, h1.1, h2.1, h3.1]

theorem spec_decDataReq : Spec true decDataReq (fun m w => w = encode m) := by
  unfold decDataReq
  apply Spec.bind spec_u8; intro n
  apply Spec.bind (spec_fixed 32 (lt64 32)); intro s
  apply Spec.pure
  intro w1 h1 w2 h2
  simp [encode, h1.1, h2.1]

theorem spec_decNotFound : Spec true decNotFound (fun m w => w = encode m) := by
  unfold decNotFound
  apply Spec.bind (spec_fixed 32 (lt64 32)); intro s
  apply Spec.pure
  intro w1 h1
  simp [encode, h1.1]

theorem spec_decFindNode : Spec true decFindNode (fun m w => w = encode m) := by
  unfold decFindNode
  apply Spec.bind (spec_fixed 20 (lt64 20)); intro s
  apply Spec.pure
  intro w1 h1
  simp [encode, h1.1]

theorem spec_varBytesEofFirst {g} : Spec g varBytesEofFirst (fun d w => w = writeVarBytes d) := by
  unfold varBytesEofFirst
  apply Spec.bind spec_nVarBytes
  intro r
  apply Spec.ite
  · intro _; exact Spec.fail _
  · intro he
    apply Spec.ite
    · intro _; exact Spec.fail _
    · intro hi
      apply Spec.pure
      intro w1 h1
      simp only [List.append_nil]
      exact h1 (by simpa using he) (by simpa using hi)

theorem Spec.val {g} {d : Dec α} {Q : α → Prop} {s : St} {a : α} {s' : St}
    (hq : Spec g d (fun a _ => Q a)) (hg : g = false) (w : s.src.wf) (h63 : s.src.bs.length < 2 ^ 63)
    (h : d s = .ok (a, s')) : Q a ∧ s'.src.wf := by
  have := hq s w h63
  rw [h] at this
  exact ⟨this.2.2 (by intro hg'; rw [hg] at hg'; cases hg'), this.1.wf w⟩

open Classical in
/-- `bind` where the continuation may use an unconditional fact `Q` about the value read -/
theorem Spec.bindQ {g} {d : Dec α} {f : α → Dec β} {Q : α → Prop} {R1 : α → Bytes → Prop} {R : β → Bytes → Prop}
    (hq : Spec false d (fun a _ => Q a)) (hd : Spec g d R1)
    (hf : ∀ a, Q a → Spec g (f a) (fun c w2 => ∀ w1, R1 a w1 → R c (w1 ++ w2))) :
    Spec g (d >>= f) R := by
  intro s w h63
  show Post g R s (Dec.bind d f s)
  cases hds : d s with
  | panic => have := hd s w h63; rw [hds] at this; exact this.elim
  | err e => unfold Dec.bind; rw [hds]; trivial
  | ok r =>
    obtain ⟨a, s1⟩ := r
    have hqa := (Spec.val hq rfl w h63 hds).1
    -- replace f by a continuation that is total outside Q
    have key : Dec.bind d f s = Dec.bind d (fun a' => if Q a' then f a' else Model.P2PMsg.fail .ueof) s := by
      unfold Dec.bind; rw [hds]; simp only; rw [if_pos hqa]
    rw [key]
    exact (Spec.bind (R := R) hd (fun a' => by
      by_cases hqa' : Q a'
      · rw [if_pos hqa']; exact hf a' hqa'
      · rw [if_neg hqa']; exact Spec.fail _)) s w h63


theorem flatten_map_id (l : List Bytes) : (l.map (fun x => x)).flatten = l.flatten := by simp

theorem spec_decInv : Spec true decInv (fun m w => w = encode m) := by
  unfold decInv
  apply Spec.bind spec_u8; intro ty
  apply Spec.bind (spec_uN 4 (lt64 4)); intro cnt
  apply Spec.bindQ (Q := fun hs : List Bytes => hs.length = cnt)
  · exact (spec_repeatD (e := fun x => x) (P := fun _ => True)
      ((spec_fixed 32 (lt64 32)).mono (fun a w h => ⟨h.1, trivial⟩)) cnt).mono (fun a w h => h.2.1)
  · exact spec_repeatD (e := fun x => x) (P := fun x => x.length = 32) (spec_fixed 32 (lt64 32)) cnt
  intro hs hlen
  apply Spec.bind (R1 := fun _ w => w = [] ∧ ¬ cnt > MAX_INV_BLK_CNT)
  · apply Spec.note; intro h; exact ⟨rfl, by simpa using h rfl⟩
  intro _
  apply Spec.bind (spec_sliceTo hs _ (by unfold MAX_INV_BLK_CNT; split <;> omega))
  intro hs'
  apply Spec.pure
  intro w1 h1 w2 h2 w3 h3 w4 h4 w5 h5
  obtain ⟨rfl, hc⟩ := h2
  obtain ⟨rfl, rfl⟩ := h1
  rw [if_neg hc, ← hlen, List.take_length]
  simp [encode, h5.1, h4.1, h3.1, hlen]


theorem nextBytes_eof_off (s : Src) (n : Nat) (d : Bytes) (s' : Src)
    (h : nextBytes s n = some ((d, true), s')) : s'.off = s.bs.length ∧ s'.bs = s.bs := by
  unfold nextBytes at h
  simp only at h
  split at h
  · cases h
  · injection h with h
    injection h with h1 h2
    injection h1 with _ h3
    rw [← h2]
    simp only [h3, if_true, and_self]

theorem nextBytes_at_end (s : Src) (n : Nat) (hn : 0 < n) (_hn2 : n < two64) (w : s.wf) (he : s.off = s.bs.length) :
    nextBytes s n = some (([], true), s) := by
  obtain ⟨w1, w2⟩ := w
  unfold nextBytes safeAdd goSlice
  simp only
  have heof : (decide (n > two64 - 1 - s.off) || decide ((s.off + n) % two64 > s.bs.length)) = true := by
    by_cases hov : n > two64 - 1 - s.off
    · simp [hov]
    · have hsum : s.off + n < two64 := by unfold two64 at *; omega
      rw [Nat.mod_eq_of_lt hsum]
      have : s.off + n > s.bs.length := by omega
      simp [this]
  simp only [heof, if_true]
  rw [he]
  simp only [Nat.le_refl, and_self, if_true, Nat.sub_self, List.take_zero]
  cases s
  simp only at he
  subst he
  rfl

theorem uN_at_end (k : Nat) (hk : 0 < k) (hk2 : k < two64) (s : St) (w : s.src.wf) (he : s.src.off = s.src.bs.length) :
    uN k s = .err .ueof s := by
  show Dec.bind (nUint k) _ s = _
  unfold Dec.bind nUint liftO nextUintN
  rw [nextBytes_at_end s.src k hk hk2 w he]
  rfl

/-- `buf, _ := source.NextBytes(n)` followed by a checked read: the ignored eof surfaces in the next read -/
theorem spec_bytes_then {g} (n k : Nat) (hn : n < two64) (hk : 0 < k) (hk2 : k < two64)
    (f : Bytes × Bool → Nat → Dec β) {R : β → Bytes → Prop}
    (h : ∀ d : Bytes, d.length = n → Spec g (uN k >>= fun p => f (d, false) p) (fun c w2 => R c (d ++ w2))) :
    Spec g (nBytes n >>= fun ip => uN k >>= fun p => f ip p) R := by
  intro s w h63
  show Post g R s (Dec.bind (nBytes n) _ s)
  obtain ⟨d, e, s1, hb, adv, hd⟩ := nextBytes_total s.src n w hn
  have hnb : nBytes n s = .ok ((d, e), { s with src := s1 }) := by
    unfold nBytes liftO; simp only [hb]
  unfold Dec.bind
  rw [hnb]
  simp only
  cases e with
  | true =>
    obtain ⟨ho, hbs⟩ := nextBytes_eof_off _ _ _ _ hb
    have : (uN k >>= fun p => f (d, true) p) { s with src := s1 } = .err .ueof { s with src := s1 } := by
      show Dec.bind (uN k) _ _ = _
      unfold Dec.bind
      rw [uN_at_end k hk hk2 _ (adv.wf w) (by simp only; rw [ho, hbs])]
    rw [this]
    trivial
  | false =>
    obtain ⟨h1, h2, h3⟩ := hd rfl
    have hp := h d h1 { s with src := s1 } (adv.wf w) (by show s1.bs.length < _; rw [adv.1]; exact h63)
    cases hr : (uN k >>= fun p => f (d, false) p) { s with src := s1 } with
    | panic => rw [hr] at hp; exact hp.elim
    | err e _ => trivial
    | ok r =>
      obtain ⟨c, s2⟩ := r
      rw [hr] at hp
      obtain ⟨adv2, mono2, r2⟩ := hp
      refine ⟨adv.trans adv2, mono2, fun hl => ?_⟩
      rw [seg_append adv adv2, seg_of_read adv h2, ← h3]
      exact r2 hl

theorem padTo_self (k : Nat) (d : Bytes) (h : d.length = k) : padTo k d = d := by
  unfold padTo
  rw [← h]
  simp

theorem peerIdToUint64_pseudo (v : Nat) (h : v < 256 ^ 8) : peerIdToUint64 (pseudoPeerId v) = v := by
  unfold peerIdToUint64 pseudoPeerId
  have hl : (leN 8 v).length = 8 := leN_length 8 v
  have h1 : (leN 8 v ++ List.replicate 12 (0 : UInt8)).drop 8 = List.replicate 12 0 :=
    List.drop_left' hl
  have h2 : (leN 8 v ++ List.replicate 12 (0 : UInt8)).take 8 = leN 8 v :=
    List.take_left' hl
  rw [h1, h2]
  have : (List.replicate 12 (0 : UInt8)).all (· == 0) = true := by decide
  rw [if_pos this]
  exact fromLE_leN 8 v h

theorem spec_decPeerAddr {g} : Spec g decPeerAddr (fun a w => w = encPeerAddr a ∧ w.length = 44) := by
  unfold decPeerAddr
  apply Spec.bind (spec_uN 8 (lt64 8)); intro time
  apply Spec.bind (spec_uN 8 (lt64 8)); intro services
  apply spec_bytes_then 16 2 (lt64 16) (by omega) (lt64 2)
  intro ip hip
  apply Spec.bind (spec_uN 2 (lt64 2)); intro port
  apply Spec.bind (spec_uN 2 (lt64 2)); intro cport
  apply Spec.bind (spec_uN 8 (lt64 8)); intro id
  apply Spec.pure
  intro w1 h1 w2 h2 w3 h3 w4 h4 w5 h5
  obtain ⟨rfl, hid⟩ := h1
  obtain ⟨rfl, _⟩ := h2
  obtain ⟨rfl, _⟩ := h3
  obtain ⟨rfl, _⟩ := h4
  obtain ⟨rfl, _⟩ := h5
  simp only [encPeerAddr, padTo_self 16 ip hip, peerIdToUint64_pseudo id hid, List.append_nil, List.append_assoc]
  refine ⟨trivial, ?_⟩
  simp [leN_length, hip]


theorem flatten_length_const {α} (l : List α) (e : α → Bytes) (k : Nat) (h : ∀ x ∈ l, (e x).length = k) :
    (l.map e).flatten.length = k * l.length := by
  induction l with
  | nil => simp
  | cons a t ih =>
    simp only [List.map_cons, List.flatten_cons, List.length_append, List.length_cons]
    rw [ih (fun x hx => h x (List.mem_cons_of_mem _ hx)), h a (List.mem_cons_self ..)]
    rw [Nat.mul_add]; omega

/-- `source.Len()`: nothing consumed; the value is below 2^63 (an `int`) -/
theorem spec_remaining {g} : Spec g remaining (fun n w => w = [] ∧ n < 2 ^ 63) := by
  intro s w h63
  refine ⟨Adv.refl w, id, fun _ => ⟨seg_self _, ?_⟩⟩
  split <;> omega

theorem loopBound64_of_le (count rem : Nat) (h : ¬ count > rem) (hr : rem < 2 ^ 63) : loopBound64 count = count := by
  unfold loopBound64
  rw [if_pos (by omega)]

theorem spec_decAddr : Spec true decAddr (fun m w => w = encode m) := by
  unfold decAddr
  apply Spec.bind (spec_uN 8 (lt64 8)); intro count
  apply Spec.bindQ (Q := fun rem : Nat => rem < 2 ^ 63) (R1 := fun _ w => w = [])
  · exact spec_remaining.mono (fun _ _ h => h.2)
  · exact spec_remaining.mono (fun _ _ h => h.1)
  intro rem hrem
  apply Spec.ite
  · intro _; exact Spec.fail _
  intro hle
  rw [loopBound64_of_le count rem hle hrem]
  apply Spec.bindQ (Q := fun l : List PeerAddr => l.length = count)
  · exact (spec_repeatD (e := encPeerAddr) (P := fun _ => True)
      (spec_decPeerAddr.mono (fun a w h => ⟨h.1, trivial⟩)) count).mono (fun a w h => h.2.1)
  · exact spec_repeatD (e := encPeerAddr) (P := fun _ => True)
      (spec_decPeerAddr.mono (fun a w h => ⟨h.1, trivial⟩)) count
  intro l hlen
  apply Spec.bind (R1 := fun _ w => w = [] ∧ ¬ count > MAX_ADDR_NODE_CNT)
  · apply Spec.note; intro h; exact ⟨rfl, by simpa using h rfl⟩
  intro _
  apply Spec.bind (spec_sliceTo l _ (by unfold MAX_ADDR_NODE_CNT; split <;> omega))
  intro l'
  apply Spec.pure
  intro w1 h1 w2 h2 w3 h3 w4 h4 w5 h5
  obtain ⟨rfl, hc⟩ := h2
  obtain ⟨rfl, rfl⟩ := h1
  subst h4
  rw [if_neg hc, ← hlen, List.take_length]
  simp [encode, h5.1, h3.1, hlen]

/-- the loop alone, unconditionally: `n` iterations consume exactly `44·n` bytes -/
theorem spec_addrLoop (n : Nat) :
    Spec false (repeatD n decPeerAddr) (fun l w => l.length = n ∧ w.length = 44 * n) := by
  refine (spec_repeatD (e := encPeerAddr) (P := fun x => (encPeerAddr x).length = 44)
      (spec_decPeerAddr.mono (fun a w h => ⟨h.1, by rw [← h.1]; exact h.2⟩)) n).mono ?_
  intro l w h
  refine ⟨h.2.1, ?_⟩
  rw [h.1, flatten_length_const l encPeerAddr 44 h.2.2, h.2.1]

/-- unconditional: the number of loop iterations (= entries appended before the cut) is paid for by payload bytes -/
theorem spec_decAddr_alloc :
    Spec false decAddr (fun m w => ∃ l n, m = Msg.addr l ∧ l.length ≤ n ∧ 8 + 44 * n = w.length) := by
  unfold decAddr
  apply Spec.bind (spec_uN 8 (lt64 8)); intro count
  apply Spec.bindQ (Q := fun rem : Nat => rem < 2 ^ 63) (R1 := fun _ w => w = [])
  · exact spec_remaining.mono (fun _ _ h => h.2)
  · exact spec_remaining.mono (fun _ _ h => h.1)
  intro rem hrem
  apply Spec.ite
  · intro _; exact Spec.fail _
  intro hle
  rw [loopBound64_of_le count rem hle hrem]
  apply Spec.bindQ (Q := fun l : List PeerAddr => l.length = count)
  · exact (spec_addrLoop count).mono (fun a w h => h.1)
  · exact spec_addrLoop count
  intro l hlen
  apply Spec.bind (R1 := fun _ w => w = [])
  · apply Spec.note; intro _; rfl
  intro _
  apply Spec.bind (spec_sliceTo l _ (by unfold MAX_ADDR_NODE_CNT; split <;> omega))
  intro l'
  apply Spec.pure
  intro w1 h1 w2 h2 w3 h3 w4 h4 w5 h5
  subst h2 h4
  obtain ⟨rfl, rfl⟩ := h1
  refine ⟨_, count, rfl, ?_, ?_⟩
  · simp only [List.length_take]; split <;> omega
  · rw [h5.1]
    simp only [List.length_append, leN_length, List.append_nil, List.length_nil, Nat.zero_add, h3.2]

theorem spec_decCloser : Spec true decCloser (fun p w => w = encPair p ∧ True) := by
  unfold decCloser
  apply Spec.bind (spec_fixed 20 (lt64 20)); intro id
  apply Spec.bind spec_varBytesLax; intro a
  apply Spec.pure
  intro w1 h1 w2 h2
  simp [encPair, h1, h2.1]

theorem spec_decFindNodeResp : Spec true decFindNodeResp (fun m w => w = encode m) := by
  unfold decFindNodeResp
  apply Spec.bind (spec_fixed 20 (lt64 20)); intro id
  apply Spec.bind spec_nBool; intro r
  apply Spec.ite
  · intro _; exact Spec.fail _
  intro he
  apply Spec.bind (R1 := fun _ w => w = [] ∧ r.2.1 = false)
  · apply Spec.note; intro h; exact ⟨rfl, h rfl⟩
  intro _
  apply Spec.bind spec_varBytesLax; intro addr
  apply Spec.bind (spec_uN 4 (lt64 4)); intro n
  apply Spec.bind (spec_repeatD spec_decCloser n); intro closer
  apply Spec.pure
  intro w1 h1 w2 h2 w3 h3 w4 h4 w5 h5 w6 h6
  obtain ⟨rfl, hi⟩ := h4
  have hb := h5 (by simpa using he) hi
  simp [encode, h1.1, h1.2.1, h2.1, h3, hb, h6.1]

theorem spec_decMember {g} : Spec g decMember (fun p w => w = encStrPair p ∧ True) := by
  unfold decMember
  apply Spec.bind spec_readVarBytes; intro pk
  apply Spec.bind spec_readVarBytes; intro a
  apply Spec.pure
  intro w1 h1 w2 h2
  simp [encStrPair, h1, h2]

theorem spec_decMembers : Spec true decMembers (fun m w => w = encode m) := by
  unfold decMembers
  apply Spec.bind (spec_uN 4 (lt64 4)); intro n
  apply Spec.bind (spec_repeatD spec_decMember n); intro l
  apply Spec.pure
  intro w1 h1 w2 h2
  simp [encode, h1.1, h1.2.1, h2.1]

theorem spec_decVersion : Spec true decVersion (fun m w => w = encode m) := by
  unfold decVersion
  apply Spec.bind (spec_uN 4 (lt64 4)); intro version
  apply Spec.bind (spec_uN 8 (lt64 8)); intro services
  apply Spec.bind (spec_uN 8 (lt64 8)); intro timestamp
  apply Spec.bind (spec_uN 2 (lt64 2)); intro syncPort
  apply Spec.bind (spec_uN 2 (lt64 2)); intro httpInfoPort
  apply Spec.bind (spec_uN 2 (lt64 2)); intro consPort
  apply Spec.bind (spec_fixed 32 (lt64 32)); intro cap
  apply Spec.bind (spec_uN 8 (lt64 8)); intro nonce
  apply Spec.bind (spec_uN 8 (lt64 8)); intro startHeight
  apply Spec.bind spec_u8; intro relay
  apply Spec.bind spec_nBool; intro b
  apply Spec.ite
  · intro _; exact Spec.fail _
  intro hb
  apply Spec.bind spec_nVarBytes; intro sv
  apply Spec.bind (R1 := fun _ w => w = [] ∧ (sv.2.2.2 || sv.2.2.1) = false)
  · apply Spec.note; intro h; exact ⟨rfl, h rfl⟩
  intro _
  apply Spec.pure
  intro w1 h1 w2 h2 w3 h3 w4 h4 w5 h5 w6 h6 w7 h7 w8 h8 w9 h9 w10 h10 w11 h11 w12 h12 w13 h13
  obtain ⟨rfl, hbad⟩ := h1
  simp only [Bool.or_eq_false_iff] at hbad
  simp only [Bool.or_eq_true, not_or, Bool.not_eq_true] at hb
  have hsv := h2 hbad.1 hbad.2
  have hbb := h3 hb.1 hb.2
  simp [encode, encVersion, hbad.1, hbad.2, hsv, hbb, h4.1, h5.1, h6.1, h7.1, h8.1, h9.1, h10.1, h11.1, h12.1, h13.1]

theorem nextBytes_rest (s : Src) (w : s.wf) :
    nextBytes s (s.bs.length - s.off) = some ((s.bs.drop s.off, false), ⟨s.bs, s.bs.length⟩) := by
  obtain ⟨bs, off⟩ := s
  obtain ⟨w1, w2⟩ := w
  simp only at w1 w2 ⊢
  have hl : (bs.take off).length = off := by simp; omega
  have hd : (bs.drop off).length = bs.length - off := by simp
  have := nextBytes_append (bs.take off) (bs.drop off) [] (by simpa using w2)
  simp only [List.append_nil, List.take_append_drop, hl, hd] at this
  rw [this]
  congr 3
  omega

theorem decUnknown_eq (cmd : Bytes) (s : St) (w : s.src.wf) :
    decUnknown cmd s = .ok (.unknown cmd (s.src.bs.drop s.src.off), { s with src := ⟨s.src.bs, s.src.bs.length⟩ }) := by
  unfold decUnknown
  show Dec.bind remaining _ s = _
  unfold Dec.bind remaining
  simp only
  have hr : (if s.src.off ≥ s.src.bs.length then 0 else s.src.bs.length - s.src.off) = s.src.bs.length - s.src.off := by
    split <;> omega
  rw [hr]
  show Dec.bind (nBytes _) _ s = _
  unfold Dec.bind nBytes liftO
  simp only [nextBytes_rest s.src w]
  rfl

theorem spec_decUnknown (cmd : Bytes) : Spec true (decUnknown cmd) (fun m w => w = encode m) := by
  intro s w _
  rw [decUnknown_eq cmd s w]
  refine ⟨⟨rfl, w.1, Nat.le_refl _⟩, id, fun _ => ?_⟩
  simp only [encode, seg]
  rw [List.take_of_length_le]
  simp

/-! ### decoders that call out of the package (oracle) -/

theorem spec_peekRest {g} : Spec g peekRest (fun rest w => w = [] ∧ rest.length < 2 ^ 63) := by
  intro s w h63
  refine ⟨Adv.refl w, id, fun _ => ⟨seg_self _, ?_⟩⟩
  simp only [List.length_drop]
  omega

theorem spec_decHeader {g} (O : Oracle) : Spec g (decHeader O) (fun re w => w = re ∨ g = false) := by
  unfold decHeader
  apply Spec.bindQ (Q := fun rest : Bytes => rest.length < 2 ^ 63) (R1 := fun _ w => w = [])
  · exact spec_peekRest.mono (fun _ _ h => h.2)
  · exact spec_peekRest.mono (fun _ _ h => h.1)
  intro rest hrest
  cases hh : O.hdr rest with
  | none => exact Spec.fail _
  | some r =>
    obtain ⟨n, re⟩ := r
    simp only
    apply Spec.ite
    · intro _; exact Spec.fail _
    intro hn
    apply Spec.bind (spec_nBytes n (by unfold two64; omega)); intro r
    apply Spec.ite
    · intro _; exact Spec.fail _
    intro he
    apply Spec.bind (R1 := fun _ w => w = [] ∧ (g = true → re = r.1))
    · apply Spec.note
      intro h
      exact ⟨rfl, fun hg => by simpa using h hg⟩
    intro _
    apply Spec.pure
    intro w1 h1 w2 h2 w3 h3
    subst h3
    obtain ⟨rfl, hre⟩ := h1
    cases g with
    | false => right; rfl
    | true =>
      left
      rw [hre rfl]
      simp [(h2 (by simpa using he)).1]

theorem spec_decHeaders (O : Oracle) : Spec true (decHeaders O) (fun m w => w = encode m) := by
  unfold decHeaders
  apply Spec.bind (spec_uN 4 (lt64 4)); intro count
  have hb : Spec true (decHeader O) (fun x w => w = (fun y => y) x ∧ True) :=
    (spec_decHeader O).mono (fun a w h => ⟨h.elim id (fun h => by cases h), trivial⟩)
  apply Spec.bind (spec_repeatD hb count); intro hs
  apply Spec.pure
  intro w1 h1 w2 h2
  simp [encode, h1.1, h1.2.1, h2.1]

theorem spec_decMembersReq (O : Oracle) : Spec true (decMembersReq O) (fun m w => w = encode m) := by
  unfold decMembersReq
  apply Spec.bind (spec_fixed 20 (lt64 20)); intro f
  apply Spec.bind (spec_fixed 20 (lt64 20)); intro t
  apply Spec.bind (spec_uN 4 (lt64 4)); intro ts
  apply Spec.ite
  · intro hts
    apply Spec.bind spec_readVarBytes; intro pkb
    cases hpk : O.pk pkb with
    | none => exact Spec.fail _
    | some canon =>
      simp only
      apply Spec.bind spec_readVarBytes; intro sg
      apply Spec.ite
      · intro _; exact Spec.fail _
      intro _
      apply Spec.ite
      · intro _; exact Spec.fail _
      intro _
      apply Spec.bind (R1 := fun _ w => w = [] ∧ canon = pkb)
      · apply Spec.note; intro h; exact ⟨rfl, by simpa using h rfl⟩
      intro _
      apply Spec.pure
      intro w1 h1 w2 h2 w3 h3 w4 h4 w5 h5
      obtain ⟨rfl, rfl⟩ := h1
      simp [encode, hts, h2, h3, h4.1, h5.1]
  · intro hts
    apply Spec.pure
    intro w1 h1 w2 h2 w3 h3
    have : ts = 0 := by simpa using hts
    subst this
    simp [encode, h1.1, h2.1, h3.1]

theorem spec_decConsensus (O : Oracle) : Spec true (decConsensus O) (fun m w => w = encode m) := by
  unfold decConsensus
  apply Spec.bind (spec_uN 4 (lt64 4)); intro ver
  apply Spec.bind (spec_fixed 32 (lt64 32)); intro prev
  apply Spec.bind (spec_uN 4 (lt64 4)); intro height
  apply Spec.bind (spec_uN 2 (lt64 2)); intro bk
  apply Spec.bind (spec_uN 4 (lt64 4)); intro ts
  apply Spec.bind spec_varBytesEofFirst; intro data
  apply Spec.bind spec_varBytesEofFirst; intro pkb
  cases hpk : O.pk pkb with
  | none => exact Spec.fail _
  | some canon =>
    simp only
    apply Spec.bind spec_readVarBytes; intro sg
    apply Spec.bind (R1 := fun _ w => w = [] ∧ canon = pkb)
    · apply Spec.note; intro h; exact ⟨rfl, by simpa using h rfl⟩
    intro _
    apply Spec.pure
    intro w1 h1 w2 h2 w3 h3 w4 h4 w5 h5 w6 h6 w7 h7 w8 h8 w9 h9
    obtain ⟨rfl, rfl⟩ := h1
    simp [encode, h2, h3, h4, h5.1, h6.1, h7.1, h8.1, h9.1]

theorem spec_decUpdateKadId (O : Oracle) : Spec true (decUpdateKadId O) (fun m w => w = encode m) := by
  unfold decUpdateKadId
  apply Spec.bind spec_readVarBytes; intro pkb
  cases hpk : O.pk pkb with
  | none => exact Spec.fail _
  | some canon =>
    simp only
    apply Spec.ite
    · intro _; exact Spec.fail _
    intro _
    apply Spec.bind (R1 := fun _ w => w = [] ∧ canon = pkb)
    · apply Spec.note; intro h; exact ⟨rfl, by simpa using h rfl⟩
    intro _
    apply Spec.pure
    intro w1 h1 w2 h2
    obtain ⟨rfl, rfl⟩ := h1
    simp [encode, h2]

theorem spec_decodePayload (O : Oracle) (cmd : Bytes) :
    Spec true (decodePayload O cmd) (fun m w => (∃ c, m = .opaque c) ∨ w = encode m) := by
  unfold decodePayload
  have op : ∀ c : Bytes, Spec true (Pure.pure (Msg.opaque c) : Dec Msg) (fun m w => (∃ c, m = .opaque c) ∨ w = encode m) :=
    fun c => Spec.pure _ (Or.inl ⟨c, rfl⟩)
  have r : ∀ {d : Dec Msg}, Spec true d (fun m w => w = encode m) →
      Spec true d (fun m w => (∃ c, m = .opaque c) ∨ w = encode m) := fun h => h.mono (fun _ _ h => Or.inr h)
  repeat' (apply Spec.ite <;> intro _)
  all_goals first
    | exact op _
    | exact r spec_decPing | exact r spec_decPong | exact r spec_decVersion | exact r spec_decVerack
    | exact r spec_decAddr | exact r spec_decAddrReq | exact r spec_decHeadersReq | exact r (spec_decHeaders O)
    | exact r spec_decInv | exact r spec_decDataReq | exact r spec_decNotFound | exact r spec_decBlocksReq
    | exact r spec_decFindNode | exact r spec_decFindNodeResp | exact r (spec_decMembersReq O) | exact r spec_decMembers
    | exact r (spec_decConsensus O) | exact r (spec_decUpdateKadId O)
    | exact r (spec_decUnknown _)

end OntVerif.Proofs.P2PMsg
