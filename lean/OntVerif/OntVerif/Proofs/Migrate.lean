import OntVerif.Model.Migrate
import OntVerif.Proofs.KV
/-! Helper lemmas for C44: the memdb iterator under concurrent writes (`Cursor`) simulates the snapshot iterator as long as
every write lands at or behind the cursor or outside the iterated range; the migrate / clean loops are folds over the
snapshot list of `C04_iter`; frame and marker lemmas for the service calls. -/
namespace OntVerif.Proofs.Migrate
open OntVerif.Util OntVerif.Model.KV OntVerif.Model.Migrate OntVerif.Proofs.KV

/-! ### order facts -/

theorem kcmp_ne_gt_of_lt {a b : Key} (h : kcmp a b = .lt) : kcmp a b ≠ .gt := by rw [h]; decide

theorem kcmp_trichotomy (a b : Key) : kcmp a b = .lt ∨ a = b ∨ kcmp b a = .lt := by
  cases h : kcmp a b with
  | lt => exact Or.inl rfl
  | eq => exact Or.inr (Or.inl (kcmp_eq_iff.mp h))
  | gt => exact Or.inr (Or.inr (kcmp_gt_iff.mp h))

theorem kcmp_lt_asymm {a b : Key} (h : kcmp a b = .lt) : kcmp b a ≠ .lt := by
  intro h2
  exact kcmp_lt_irrefl a (kcmp_lt_trans h h2)

/-- the part of a successor list that the limit lets through -/
def rng (lim : Option Bytes) (l : List KV) : List KV := l.takeWhile fun e => belowLimit lim e.1

/-! ### `MemDB.put` relative to a node -/

/-- a write at or before the node `e` leaves the node's successors untouched -/
theorem put_split_le (pre : List KV) (k : Key) (v : Val) (post : List KV) (k' : Key) (v' : Val)
    (h : kcmp k' k ≠ .gt) :
    ∃ pre' w, MemDB.put (pre ++ (k, v) :: post) k' v' = pre' ++ (k, w) :: post := by
  induction pre with
  | nil =>
    simp only [List.nil_append, MemDB.put]
    cases hc : kcmp k k' with
    | lt => exact absurd (kcmp_gt_iff.mpr hc) h
    | eq => exact ⟨[], v', rfl⟩
    | gt => exact ⟨[(k', v')], v, rfl⟩
  | cons a r ih =>
    obtain ⟨ka, va⟩ := a
    obtain ⟨pre', w, hp⟩ := ih
    simp only [List.cons_append, MemDB.put]
    cases hc : kcmp ka k' with
    | lt => exact ⟨(ka, va) :: pre', w, by simp [hp]⟩
    | eq => exact ⟨(ka, v') :: r, v, rfl⟩
    | gt => exact ⟨(k', v') :: (ka, va) :: r, v, rfl⟩

/-- a write beyond the node lands among its successors -/
theorem put_split_gt (pre : List KV) (k : Key) (v : Val) (post : List KV) (k' : Key) (v' : Val)
    (hs : Sorted (pre ++ (k, v) :: post)) (h : kcmp k k' = .lt) :
    MemDB.put (pre ++ (k, v) :: post) k' v' = pre ++ (k, v) :: MemDB.put post k' v' := by
  induction pre with
  | nil => simp [MemDB.put, h]
  | cons a r ih =>
    obtain ⟨ka, va⟩ := a
    unfold Sorted at hs ih
    simp only [List.cons_append, List.pairwise_cons] at hs
    have hka : kcmp ka k = .lt := hs.1 (k, v) (by simp)
    have : kcmp ka k' = .lt := kcmp_lt_trans hka h
    simp only [List.cons_append, MemDB.put, this]
    rw [ih hs.2]

/-- a write that is not below the limit does not change what the limit lets through -/
theorem rng_put (lim : Option Bytes) (post : List KV) (k' : Key) (v' : Val) (h : belowLimit lim k' = false) :
    rng lim (MemDB.put post k' v') = rng lim post := by
  induction post with
  | nil => simp [MemDB.put, rng, h]
  | cons a r ih =>
    obtain ⟨ka, va⟩ := a
    simp only [MemDB.put]
    cases hc : kcmp ka k' with
    | lt =>
      simp only [rng, List.takeWhile_cons] at ih ⊢
      split
      · rw [ih]
      · rfl
    | eq =>
      have : ka = k' := kcmp_eq_iff.mp hc
      subst this
      simp [rng, List.takeWhile_cons, h]
    | gt =>
      have hlt : kcmp k' ka = .lt := kcmp_gt_iff.mp hc
      have hka : belowLimit lim ka = false := by
        cases hb : belowLimit lim ka with
        | false => rfl
        | true => rw [belowLimit_mono hlt hb] at h; exact absurd h (by decide)
      simp [rng, List.takeWhile_cons, h, hka]

/-! ### the live cursor simulates the snapshot iterator -/

/-- `c` stands on the head of the remaining list `l` of a walk over `m` from `start` up to `lim` -/
def RLive (m : MemDB) (start : Bytes) (lim : Option Bytes) (c : Cursor) : Abs → Prop
  | .fresh l => c.node = none ∧ c.forward = false ∧ c.start = start ∧ c.limit = lim ∧ l = slice m start lim
  | .at [] => c.node = none ∧ c.forward = true ∧ c.key = [] ∧ c.value = [] ∧ c.start = start ∧ c.limit = lim
  | .at (e :: r) => c.node = some e.1 ∧ c.key = e.1 ∧ c.value = e.2 ∧ c.start = start ∧ c.limit = lim ∧
      kcmp e.1 start ≠ .lt ∧ ∃ pre v post, m = pre ++ (e.1, v) :: post ∧ r = rng lim post

theorem dropWhile_ne_of_sorted (pre : List KV) (k : Key) (v : Val) (post : List KV)
    (hs : Sorted (pre ++ (k, v) :: post)) :
    (pre ++ (k, v) :: post).dropWhile (fun e => e.1 != k) = (k, v) :: post := by
  induction pre with
  | nil => simp
  | cons a r ih =>
    unfold Sorted at hs ih
    simp only [List.cons_append, List.pairwise_cons] at hs
    have hlt : kcmp a.1 k = .lt := hs.1 (k, v) (by simp)
    have hne : a.1 ≠ k := fun h => kcmp_lt_irrefl k (by rw [h] at hlt; exact hlt)
    simp only [List.cons_append, List.dropWhile_cons, bne_iff_ne, ne_eq, hne, not_false_eq_true, if_true]
    exact ih hs.2

theorem nextOf_split (pre : List KV) (k : Key) (v : Val) (post : List KV)
    (hs : Sorted (pre ++ (k, v) :: post)) : nextOf (pre ++ (k, v) :: post) k = post.head? := by
  unfold nextOf
  rw [dropWhile_ne_of_sorted pre k v post hs]
  simp

theorem sorted_append_cons {pre : List KV} {e : KV} {post : List KV} (hs : Sorted (pre ++ e :: post)) :
    (∀ x ∈ post, kcmp e.1 x.1 = .lt) ∧ Sorted post := by
  unfold Sorted at hs ⊢
  rw [List.pairwise_append] at hs
  have := hs.2.1
  rw [List.pairwise_cons] at this
  exact this

/-- `findGE` splits a sorted list at the first key `>= start` -/
theorem dropWhile_lt_split (m : List KV) (start : Bytes) :
    ∃ pre, m = pre ++ m.dropWhile (fun e => kcmp e.1 start == .lt) ∧ ∀ x ∈ pre, kcmp x.1 start = .lt := by
  induction m with
  | nil => exact ⟨[], rfl, by simp⟩
  | cons a r ih =>
    obtain ⟨pre, h1, h2⟩ := ih
    by_cases hc : kcmp a.1 start = .lt
    · refine ⟨a :: pre, ?_, ?_⟩
      · simp only [List.dropWhile_cons, hc, beq_self_eq_true, if_true, List.cons_append]
        rw [← h1]
      · intro x hx
        simp only [List.mem_cons] at hx
        rcases hx with rfl | hx
        · exact hc
        · exact h2 x hx
    · refine ⟨[], ?_, by simp⟩
      simp [List.dropWhile_cons, hc]

theorem dropWhile_head_not (m : List KV) (p : KV → Bool) (e : KV) (rest : List KV)
    (h : m.dropWhile p = e :: rest) : p e = false := by
  induction m with
  | nil => simp at h
  | cons a r ih =>
    simp only [List.dropWhile_cons] at h
    split at h
    · exact ih h
    · rename_i hp
      simp only [List.cons.injEq] at h
      rw [← h.1]; simpa using hp

theorem live_sim (m : MemDB) (hs : Sorted m) (start : Bytes) (lim : Option Bytes) :
    Sim (liveOps m) (RLive m start lim) := by
  refine ⟨?_, ?_, ?_⟩
  · -- first
    intro c l h
    obtain ⟨h1, h2, h3, h4, h5⟩ := h
    subst h5
    obtain ⟨pre, hm, hpre⟩ := dropWhile_lt_split m start
    show (Cursor.first m c).1 = _ ∧ RLive m start lim (Cursor.first m c).2 _
    unfold Cursor.first findGE slice
    rw [h3]
    cases hd : m.dropWhile (fun e => kcmp e.1 start == .lt) with
    | nil => simp [Cursor.fill, RLive, h3, h4]
    | cons e rest =>
      have hge : kcmp e.1 start ≠ .lt := by
        have := dropWhile_head_not m (fun e : KV => kcmp e.1 start == .lt) e rest hd
        intro hh; rw [hh] at this; simp at this
      simp only [List.head?_cons, Cursor.fill, h4]
      by_cases hb : belowLimit lim e.1 = true
      · simp only [hb, if_true, List.takeWhile_cons, List.isEmpty_cons, Bool.not_false, true_and]
        refine ⟨rfl, rfl, rfl, rfl, rfl, hge, pre, e.2, rest, ?_, rfl⟩
        rw [hd] at hm; exact hm
      · have hb' : belowLimit lim e.1 = false := by simpa using hb
        simp [hb', List.takeWhile_cons, RLive, h3, h4]
  · -- next
    intro c l h
    cases l with
    | nil =>
      obtain ⟨h1, h2, h3, h4, h5, h6⟩ := h
      refine ⟨h3, h4, ?_, ?_⟩
      · show (Cursor.next m c).1 = _
        simp [Cursor.next, h1, h2]
      · show RLive m start lim (Cursor.next m c).2 _
        simp only [Cursor.next, h1, h2, if_true, List.tail_nil]
        exact ⟨h1, h2, h3, h4, h5, h6⟩
    | cons e r =>
      obtain ⟨h1, h2, h3, h4, h5, h6, pre, v, post, hm, hr⟩ := h
      refine ⟨h2, h3, ?_⟩
      have hs' : Sorted (pre ++ (e.1, v) :: post) := hm ▸ hs
      have hnx : nextOf m e.1 = post.head? := by rw [hm]; exact nextOf_split pre e.1 v post hs'
      obtain ⟨hgt, _⟩ := sorted_append_cons hs'
      show (Cursor.next m c).1 = _ ∧ RLive m start lim (Cursor.next m c).2 _
      simp only [Cursor.next, h1, hnx, List.tail_cons]
      subst hr
      cases post with
      | nil => simp [Cursor.fill, rng, RLive, h4, h5]
      | cons e' rest =>
        simp only [List.head?_cons, Cursor.fill, h5]
        by_cases hb : belowLimit lim e'.1 = true
        · simp only [hb, if_true, rng, List.takeWhile_cons, List.isEmpty_cons, Bool.not_false, true_and]
          refine ⟨rfl, rfl, rfl, h4, rfl, ?_, pre ++ [(e.1, v)], e'.2, rest, ?_, rfl⟩
          · have := hgt e' (by simp)
            intro hh
            rcases kcmp_trichotomy e.1 start with h' | h' | h'
            · exact h6 h'
            · rw [h'] at this; exact kcmp_lt_asymm this hh
            · exact kcmp_lt_asymm (kcmp_lt_trans h' this) hh
          · rw [hm]; simp
        · have hb' : belowLimit lim e'.1 = false := by simpa using hb
          simp [hb', rng, List.takeWhile_cons, RLive, h4, h5]
  · -- bound
    intro c l h
    show l.length ≤ m.length + 1
    cases l with
    | nil => simp
    | cons e r =>
      obtain ⟨_, _, _, _, _, _, pre, v, post, hm, hr⟩ := h
      subst hr
      have : (rng lim post).length ≤ post.length := (List.takeWhile_sublist _).length_le
      rw [hm]; simp; omega

/-- **stability**: a write at or behind the cursor, or outside the range, is not seen by the iterator -/
theorem rlive_put {m : MemDB} (hs : Sorted m) {start : Bytes} {lim : Option Bytes} {c : Cursor} {l : List KV}
    (h : RLive m start lim c (.at l)) (k' : Key) (v' : Val)
    (hk : ∀ e ∈ l.head?, kcmp k' e.1 ≠ .gt ∨ belowLimit lim k' = false) :
    RLive (m.put k' v') start lim c (.at l) := by
  cases l with
  | nil => exact h
  | cons e r =>
    obtain ⟨h1, h2, h3, h4, h5, h6, pre, v, post, hm, hr⟩ := h
    refine ⟨h1, h2, h3, h4, h5, h6, ?_⟩
    rcases hk e (by simp) with hle | hout
    · obtain ⟨pre', w, hp⟩ := put_split_le pre e.1 v post k' v' hle
      exact ⟨pre', w, post, by rw [hm, hp], hr⟩
    · by_cases hle : kcmp k' e.1 ≠ .gt
      · obtain ⟨pre', w, hp⟩ := put_split_le pre e.1 v post k' v' hle
        exact ⟨pre', w, post, by rw [hm, hp], hr⟩
      · have hgt : kcmp e.1 k' = .lt := kcmp_gt_iff.mp (by simpa using hle)
        refine ⟨pre, v, MemDB.put post k' v', ?_, ?_⟩
        · rw [hm, put_split_gt pre e.1 v post k' v' (hm ▸ hs) hgt]
        · rw [rng_put lim post k' v' hout]; exact hr

/-! ### the join iterator never runs ahead of its memory side -/

section ord
variable {μ β : Type} (M : IterOps μ) (B : IterOps β)

/-- when the current element comes from the backend only, the memory side is exhausted or stands on a greater key -/
def Ord (j : Join μ β) : Prop :=
  j.origin = .back → j.memEnd = true ∨ M.key j.mem = [] ∨ kcmp (M.key j.mem) j.key = .gt

theorem sel_ord (j : Join μ β) : Ord M (sel M B j).2 := by
  unfold sel Ord
  by_cases h1 : j.backEnd = true <;> by_cases h2 : j.memEnd = true
  · simp [h1, h2]
  · simp [h1, h2]
  · simp [h1, h2]
  · simp only [h1, h2]
    cases hc : kcmp (M.key j.mem) (B.key j.back) with
    | lt => simp
    | eq => simp
    | gt => intro _; exact Or.inr (Or.inr hc)

theorem rawNext_ord (j : Join μ β) : Ord M (Join.rawNext M B j).2 := by
  rw [rawNext_eq]; exact sel_ord M B _

theorem skip_ord (n : Nat) (j : Join μ β) (ho : Ord M j) : Ord M (Join.skip M B n j).2 := by
  induction n generalizing j with
  | zero => exact ho
  | succ n ih =>
    unfold Join.skip
    by_cases hv : j.value.isEmpty = true
    · simp only [hv, if_true]
      by_cases hr : (Join.rawNext M B j).1 = true
      · simp only [hr, if_true]
        exact ih _ (rawNext_ord M B j)
      · simp only [hr]
        exact rawNext_ord M B j
    · simp only [hv]
      exact ho

theorem next_ord (j : Join μ β) : Ord M (Join.next M B j).2 := by
  unfold Join.next
  by_cases hr : (Join.rawNext M B j).1 = true
  · simp only [hr, if_true]
    exact skip_ord M B _ _ (rawNext_ord M B j)
  · simp only [hr]
    exact rawNext_ord M B j

theorem rawFirst_ord (hfirst : ∀ s, (M.first s).1 = false → M.key (M.first s).2 = []) (j : Join μ β) :
    Ord M (Join.rawFirst M B j).2 := by
  have hf := hfirst j.mem
  rcases hb : B.first j.back with ⟨b1, b2⟩
  rcases hm : M.first j.mem with ⟨m1, m2⟩
  rw [hm] at hf
  simp only [Join.rawFirst, hb, hm, Ord]
  cases b1 <;> cases m1
  · intro _; exact Or.inr (Or.inl (hf rfl))
  · simp
  · intro _; exact Or.inr (Or.inl (hf rfl))
  · simp only [if_true, Bool.not_true, Bool.false_eq_true, if_false]
    cases hc : kcmp (M.key m2) (B.key b2) with
    | lt => simp
    | eq => simp
    | gt => intro _; exact Or.inr (Or.inr hc)

theorem first_ord (hfirst : ∀ s, (M.first s).1 = false → M.key (M.first s).2 = []) (j : Join μ β) :
    Ord M (Join.first M B j).2 := by
  unfold Join.first
  by_cases hr : (Join.rawFirst M B j).1 = true
  · simp only [hr, if_true]
    exact skip_ord M B _ _ (rawFirst_ord M B hfirst j)
  · simp only [hr]
    exact rawFirst_ord M B hfirst j

end ord

theorem live_first_key (m : MemDB) (c : Cursor) (h : ((liveOps m).first c).1 = false) :
    (liveOps m).key ((liveOps m).first c).2 = [] := by
  show (Cursor.first m c).2.key = []
  have h' : (Cursor.first m c).1 = false := h
  unfold Cursor.first Cursor.fill at h' ⊢
  split at h' <;> (try split at h') <;> simp_all

/-! ### the loop `for iter.First(); …; iter.Next() { write the cache }` is a fold over the snapshot list -/

abbrev ROv : OverlayIter → Abs → Prop := RJoin RLeaf RLeaf

theorem simOv : Sim overlayIterOps ROv := join_sim leaf_sim leaf_sim

theorem kcmp_nil_cons (a : UInt8) (r : Bytes) : kcmp [] (a :: r) = .lt := rfl

/-- join-level stability: a write at the current key or outside the iterated range keeps the abstraction -/
theorem rjoin_stable {m : MemDB} (hs : Sorted m) {s : Bytes} (hsne : s ≠ []) {lim : Option Bytes} {RB : OverlayIter → Abs → Prop}
    {j : LiveIter} {L : List KV} (hL : L ≠ [])
    (hR : RJoin (RLive m s lim) RB j (.at L)) (ho : Ord (liveOps m) j) (k' : Key) (v' : Val)
    (hk : k' = j.key ∨ kcmp k' s = .lt ∨ belowLimit lim k' = false) :
    RJoin (RLive (m.put k' v') s lim) RB j (.at L) := by
  rcases hR with ⟨h, _⟩ | ⟨pm, pb, hi, hLe, h0, h1⟩
  · exact absurd h hL
  · refine Or.inr ⟨pm, pb, ⟨?_, hi.hb, hi.me, hi.be, hi.cur⟩, hLe, h0, h1⟩
    apply rlive_put hs hi.hm
    intro e' he'
    cases pm with
    | nil => simp at he'
    | cons e r =>
      simp only [List.head?_cons, Option.mem_def, Option.some.injEq] at he'
      subst he'
      obtain ⟨_, hkey, _, _, _, hge, _⟩ := hi.hm
      rcases hk with hk | hk | hk
      · left
        subst hk
        have hcur := hi.cur
        cases horg : j.origin with
        | mem =>
          rw [horg] at hcur
          rw [hcur.2.1]; simp [hdKey, kcmp_refl]
        | both =>
          rw [horg] at hcur
          rw [hcur.2.2.1]; simp [hdKey, kcmp_refl]
        | back =>
          rcases ho horg with h | h | h
          · exact absurd (hi.me h) (by simp)
          · have : e.1 = [] := by rw [← hkey]; exact h
            rw [this] at hge
            cases s with
            | nil => exact absurd rfl hsne
            | cons a r => exact absurd (kcmp_nil_cons a r) hge
          · have : kcmp e.1 j.key = .gt := by rw [← hkey]; exact h
            rw [kcmp_gt_iff.mp this]; decide
      · left
        rcases kcmp_trichotomy e.1 s with h | h | h
        · exact absurd h hge
        · rw [h, hk]; decide
        · rw [kcmp_lt_trans hk h]; decide
      · right; exact hk

/-- the loop body only writes the current key and keys outside the iterated prefix, and never the lower layers -/
def BodyOK (p : Bytes) (body : Cache → Bytes → Bytes → Cache) : Prop :=
  ∀ c k v, p <+: k → (body c k v).backend = c.backend ∧
    ∃ ws : List KV, (body c k v).mem = ws.foldl putEntry c.mem ∧
      ∀ w ∈ ws, w.1 = stStorage :: k ∨ ¬ (stStorage :: p) <+: w.1

theorem foldl_putEntry_sorted (ws : List KV) {m : MemDB} (hs : Sorted m) : Sorted (ws.foldl putEntry m) := by
  induction ws generalizing m with
  | nil => exact hs
  | cons w r ih => exact ih (put_sorted hs _ _)

theorem rjoin_stable_fold {s : Bytes} (hsne : s ≠ []) {lim : Option Bytes} {RB : OverlayIter → Abs → Prop}
    {j : LiveIter} {L : List KV} (hL : L ≠ []) (ws : List KV) :
    ∀ {m : MemDB}, Sorted m → RJoin (RLive m s lim) RB j (.at L) → Ord (liveOps m) j →
      (∀ w ∈ ws, w.1 = j.key ∨ kcmp w.1 s = .lt ∨ belowLimit lim w.1 = false) →
      RJoin (RLive (ws.foldl putEntry m) s lim) RB j (.at L) := by
  induction ws with
  | nil => intro m _ h _ _; exact h
  | cons w r ih =>
    intro m hs hR ho hw
    exact ih (put_sorted hs _ _) (rjoin_stable hs hsne hL hR ho w.1 w.2 (hw w (by simp))) ho
      (fun w' hw' => hw w' (by simp [hw']))

theorem iterLoop_spec (p : Bytes) (body : Cache → Bytes → Bytes → Cache) (hb : BodyOK p body) :
    ∀ (n : Nat) (c : Cache) (j : LiveIter) (L : List KV) (ok : Bool),
      Sorted c.mem →
      RJoin (RLive c.mem (stStorage :: p) (prefixLimit (stStorage :: p))) ROv j (.at L) →
      Ord (liveOps c.mem) j → ok = !L.isEmpty → L.length ≤ n →
      (∀ e ∈ L, (stStorage :: p) <+: e.1) →
      iterLoop body n c (ok, j) = L.foldl (fun c e => body c (e.1.drop 1) e.2) c := by
  intro n
  induction n with
  | zero =>
    intro c j L ok _ _ _ _ hn _
    have : L = [] := by cases L <;> simp_all
    subst this; rfl
  | succ n ih =>
    intro c j L ok hs hR ho hok hn hpre
    cases L with
    | nil => subst hok; rfl
    | cons e T =>
      subst hok
      have sim := join_sim (live_sim c.mem hs (stStorage :: p) (prefixLimit (stStorage :: p))) simOv
      obtain ⟨hkey, hval, _, _⟩ := next_spec (M := liveOps c.mem) (B := overlayIterOps)
        (live_sim c.mem hs (stStorage :: p) (prefixLimit (stStorage :: p))) simOv j (e :: T) hR
      simp only [hdKey, hdVal] at hkey hval
      obtain ⟨t, ht⟩ : ∃ t, e.1 = stStorage :: t := by
        obtain ⟨t, ht⟩ := hpre e (by simp)
        exact ⟨p ++ t, by rw [← ht]; rfl⟩
      simp only [iterLoop, List.isEmpty_cons, Bool.not_false, if_true, List.foldl_cons, hkey, hval]
      have hpk : p <+: e.1.drop 1 := by
        have := hpre e (by simp)
        rw [ht, List.cons_prefix_cons] at this
        rw [ht]; exact this.2
      obtain ⟨hbk, ws, hws, hwk⟩ := hb c (e.1.drop 1) e.2 hpk
      have hs' : Sorted (body c (e.1.drop 1) e.2).mem := by rw [hws]; exact foldl_putEntry_sorted ws hs
      have hR' : RJoin (RLive (body c (e.1.drop 1) e.2).mem (stStorage :: p) (prefixLimit (stStorage :: p))) ROv j (.at (e :: T)) := by
        rw [hws]
        apply rjoin_stable_fold (by simp) (by simp) ws hs hR ho
        intro w hw
        rcases hwk w hw with h | h
        · left; rw [h, hkey, ht]; rfl
        · right
          by_cases h1 : kcmp w.1 (stStorage :: p) = .lt
          · exact Or.inl h1
          · right
            cases hbl : belowLimit (prefixLimit (stStorage :: p)) w.1 with
            | false => rfl
            | true => exact absurd ((prefix_range _ _).mp ⟨h1, hbl⟩) h
      obtain ⟨_, _, hnx, hRn⟩ := next_spec (M := liveOps (body c (e.1.drop 1) e.2).mem) (B := overlayIterOps)
        (live_sim _ hs' (stStorage :: p) (prefixLimit (stStorage :: p))) simOv j (e :: T) hR'
      have hord : Ord (liveOps (body c (e.1.drop 1) e.2).mem)
          (Join.next (liveOps (body c (e.1.drop 1) e.2).mem) overlayIterOps j).2 := next_ord _ _ j
      exact ih _ _ T _ hs' hRn hord hnx (by simp at hn; omega) (fun x hx => hpre x (by simp [hx]))

theorem slice_length_le (m : List KV) (start : Bytes) (lim : Option Bytes) : (slice m start lim).length ≤ m.length := by
  unfold slice
  exact Nat.le_trans (List.takeWhile_sublist _).length_le (List.dropWhile_sublist _).length_le

theorem cacheList_length_le (c : Cache) (p : Bytes) : (cacheList c p).length ≤ loopFuel c := by
  unfold cacheList overlayList loopFuel prefixSlice
  have h1 := live_length_le (mergeKV (slice c.mem (stStorage :: p) (prefixLimit (stStorage :: p)))
    (live (mergeKV (slice c.backend.mem (stStorage :: p) (prefixLimit (stStorage :: p)))
      (slice c.backend.store (stStorage :: p) (prefixLimit (stStorage :: p))))))
  have h2 := mergeKV_length (slice c.mem (stStorage :: p) (prefixLimit (stStorage :: p)))
    (live (mergeKV (slice c.backend.mem (stStorage :: p) (prefixLimit (stStorage :: p)))
      (slice c.backend.store (stStorage :: p) (prefixLimit (stStorage :: p)))))
  have h3 := live_length_le (mergeKV (slice c.backend.mem (stStorage :: p) (prefixLimit (stStorage :: p)))
      (slice c.backend.store (stStorage :: p) (prefixLimit (stStorage :: p))))
  have h4 := mergeKV_length (slice c.backend.mem (stStorage :: p) (prefixLimit (stStorage :: p)))
      (slice c.backend.store (stStorage :: p) (prefixLimit (stStorage :: p)))
  have h5 := slice_length_le c.mem (stStorage :: p) (prefixLimit (stStorage :: p))
  have h6 := slice_length_le c.backend.mem (stStorage :: p) (prefixLimit (stStorage :: p))
  have h7 := slice_length_le c.backend.store (stStorage :: p) (prefixLimit (stStorage :: p))
  omega

/-- **the iterate-while-writing loop visits exactly the snapshot list** of `C04_iter` (raw keys), in order -/
theorem forEachLive_spec (p : Bytes) (body : Cache → Bytes → Bytes → Cache) (hb : BodyOK p body) (c : Cache) (inv : Inv c) :
    forEachLive body c p = (cacheList c p).foldl (fun c e => body c (e.1.drop 1) e.2) c := by
  have hback : RJoin RLeaf RLeaf (c.backend.newIter (stStorage :: p)) (.fresh (overlayList c.backend (stStorage :: p))) :=
    ⟨_, _, ⟨rfl, rfl⟩, ⟨rfl, rfl⟩, tail_keys_ne (prefixSlice_spec inv.per _).1, rfl, rfl, rfl, rfl, rfl, rfl⟩
  have hfresh : RJoin (RLive c.mem (stStorage :: p) (prefixLimit (stStorage :: p))) ROv (liveIter c p) (.fresh (cacheList c p)) :=
    ⟨prefixSlice c.mem (stStorage :: p), _, ⟨rfl, rfl, rfl, rfl, rfl⟩, hback,
      tail_keys_ne (overlayList_spec c.backend inv.blk inv.per _).1, rfl, rfl, rfl, rfl, rfl, rfl⟩
  obtain ⟨f1, f2⟩ := first_spec (M := liveOps c.mem) (B := overlayIterOps)
    (live_sim c.mem inv.tx (stStorage :: p) (prefixLimit (stStorage :: p))) simOv _ _ hfresh
  have hord : Ord (liveOps c.mem) (Join.first (liveOps c.mem) overlayIterOps (liveIter c p)).2 :=
    first_ord _ _ (live_first_key c.mem) _
  unfold forEachLive
  exact iterLoop_spec p body hb _ c _ (cacheList c p) _ inv.tx f2 hord f1 (cacheList_length_le c p)
    (fun e he => ((cacheList_spec c inv p).2 e.1 e.2).mp he |>.1)

/-! ### reads after the folds -/

theorem read_cput (c : Cache) (hs : Sorted c.mem) (pfx : UInt8) (k : Key) (v : Val) (q : Key) :
    (c.put pfx k v).read q = if q = pfx :: k then v else c.read q := by
  simp only [Cache.put, Cache.read]
  rw [get_put hs]
  by_cases h : q = pfx :: k <;> simp [h]

theorem read_cdel (c : Cache) (hs : Sorted c.mem) (pfx : UInt8) (k : Key) (q : Key) :
    (c.delete pfx k).read q = if q = pfx :: k then [] else c.read q := by
  simp only [Cache.delete, MemDB.del, Cache.read]
  rw [get_put hs]
  by_cases h : q = pfx :: k <;> simp [h]

theorem cput_sorted (c : Cache) (hs : Sorted c.mem) (pfx : UInt8) (k : Key) (v : Val) : Sorted (c.put pfx k v).mem :=
  put_sorted hs _ _

theorem cdel_sorted (c : Cache) (hs : Sorted c.mem) (pfx : UInt8) (k : Key) : Sorted (c.delete pfx k).mem :=
  put_sorted hs _ _

/-- raw key under which the value of the raw entry `e` (= `ST_STORAGE ++ old ++ suffix`, 20-byte address) is stored again -/
def nk (new : Bytes) (e : KV) : Key := stStorage :: (new ++ e.1.drop 21)

/-- loop body of the migration on a raw entry -/
def mstep (new : Bytes) (c : Cache) (e : KV) : Cache := migrateStep new c (e.1.drop 1) e.2

theorem mstep_read (new : Bytes) (c : Cache) (hs : Sorted c.mem) (e : KV) (t : Bytes) (ht : e.1 = stStorage :: t) (q : Key) :
    (mstep new c e).read q = if q = e.1 then [] else if q = nk new e then e.2 else c.read q := by
  unfold mstep migrateStep nk
  rw [read_cdel _ (cput_sorted c hs _ _ _), read_cput c hs]
  have h1 : stStorage :: List.drop 1 e.1 = e.1 := by rw [ht]; rfl
  have h2 : List.drop 20 (List.drop 1 e.1) = List.drop 21 e.1 := by rw [List.drop_drop]
  rw [h1, h2]

theorem migrate_fold (new : Bytes) : ∀ (L : List KV) (c : Cache), Sorted c.mem →
    (∀ e ∈ L, ∃ t, e.1 = stStorage :: t) →
    L.Pairwise (fun a b => a.1 ≠ b.1) →
    (∀ a ∈ L, ∀ b ∈ L, nk new a ≠ b.1) →
    (∀ a ∈ L, ∀ b ∈ L, nk new a = nk new b → a.1 = b.1) →
    (L.foldl (mstep new) c).backend = c.backend ∧ Sorted (L.foldl (mstep new) c).mem ∧
    (∀ e ∈ L, (L.foldl (mstep new) c).read e.1 = []) ∧
    (∀ e ∈ L, (L.foldl (mstep new) c).read (nk new e) = e.2) ∧
    (∀ q, (∀ e ∈ L, q ≠ e.1 ∧ q ≠ nk new e) → (L.foldl (mstep new) c).read q = c.read q) := by
  intro L
  induction L with
  | nil => intro c hs _ _ _ _; exact ⟨rfl, hs, by simp, by simp, fun _ _ => rfl⟩
  | cons e T ih =>
    intro c hs hsh hpw hno hinj
    obtain ⟨t, ht⟩ := hsh e (by simp)
    rw [List.pairwise_cons] at hpw
    have hs1 : Sorted (mstep new c e).mem := cdel_sorted _ (cput_sorted c hs _ _ _) _ _
    obtain ⟨i1, i2, i3, i4, i5⟩ := ih (mstep new c e) hs1 (fun x hx => hsh x (by simp [hx])) hpw.2
      (fun a ha b hb => hno a (by simp [ha]) b (by simp [hb]))
      (fun a ha b hb => hinj a (by simp [ha]) b (by simp [hb]))
    have hee : nk new e ≠ e.1 := hno e (by simp) e (by simp)
    simp only [List.foldl_cons]
    refine ⟨by rw [i1]; rfl, i2, ?_, ?_, ?_⟩
    · intro x hx
      simp only [List.mem_cons] at hx
      rcases hx with rfl | hx
      · rw [i5 x.1 (fun y hy => ⟨hpw.1 y hy, fun h => hno y (by simp [hy]) x (by simp) h.symm⟩)]
        rw [mstep_read new c hs x t ht]; simp
      · exact i3 x hx
    · intro x hx
      simp only [List.mem_cons] at hx
      rcases hx with rfl | hx
      · rw [i5 (nk new x) (fun y hy => ⟨hno x (by simp) y (by simp [hy]),
          fun h => hpw.1 y hy (hinj x (by simp) y (by simp [hy]) h)⟩)]
        rw [mstep_read new c hs x t ht, if_neg hee, if_pos rfl]
      · exact i4 x hx
    · intro q hq
      rw [i5 q (fun y hy => hq y (by simp [hy])), mstep_read new c hs e t ht,
        if_neg (hq e (by simp)).1, if_neg (hq e (by simp)).2]

/-- loop body of the clean-up on a raw entry -/
def cstep (c : Cache) (e : KV) : Cache := c.delete stStorage (e.1.drop 1)

theorem clean_fold : ∀ (L : List KV) (c : Cache), Sorted c.mem →
    (∀ e ∈ L, ∃ t, e.1 = stStorage :: t) →
    (L.foldl cstep c).backend = c.backend ∧ Sorted (L.foldl cstep c).mem ∧
    (∀ e ∈ L, (L.foldl cstep c).read e.1 = []) ∧
    (∀ q, (∀ e ∈ L, q ≠ e.1) → (L.foldl cstep c).read q = c.read q) := by
  intro L
  induction L with
  | nil => intro c hs _; exact ⟨rfl, hs, by simp, fun _ _ => rfl⟩
  | cons e T ih =>
    intro c hs hsh
    obtain ⟨t, ht⟩ := hsh e (by simp)
    have h1 : stStorage :: List.drop 1 e.1 = e.1 := by rw [ht]; rfl
    have hs1 : Sorted (cstep c e).mem := cdel_sorted c hs _ _
    obtain ⟨i1, i2, i3, i4⟩ := ih (cstep c e) hs1 (fun x hx => hsh x (by simp [hx]))
    simp only [List.foldl_cons]
    refine ⟨by rw [i1]; rfl, i2, ?_, ?_⟩
    · intro x hx
      simp only [List.mem_cons] at hx
      rcases hx with rfl | hx
      · by_cases hm : ∃ y ∈ T, y.1 = x.1
        · obtain ⟨y, hy, hyx⟩ := hm
          rw [← hyx]; exact i3 y hy
        · rw [i4 x.1 (fun y hy h => hm ⟨y, hy, h.symm⟩)]
          unfold cstep; rw [read_cdel c hs, h1]; simp
      · exact i3 x hx
    · intro q hq
      rw [i4 q (fun y hy => hq y (by simp [hy]))]
      unfold cstep; rw [read_cdel c hs, h1, if_neg (hq e (by simp))]

/-! ### `MigrateContractStorage` / `CleanContractStorage` as a whole -/

theorem prefix_append_eq {a b x : Bytes} (h : a <+: b ++ x) (hl : a.length = b.length) : a = b := by
  obtain ⟨t, ht⟩ := h
  exact (List.append_inj ht hl).1

theorem bodyOK_migrate (old new : Bytes) (ho : old.length = 20) (hn : new.length = 20) :
    BodyOK old (migrateStep new) := by
  intro c k v hpk
  refine ⟨rfl, [(stStorage :: (new ++ k.drop 20), v), (stStorage :: k, [])], rfl, ?_⟩
  intro w hw
  simp only [List.mem_cons, List.not_mem_nil, or_false] at hw
  rcases hw with rfl | rfl
  · by_cases hon : old = new
    · left
      subst hon
      obtain ⟨t, ht⟩ := hpk
      show stStorage :: (old ++ k.drop 20) = stStorage :: k
      rw [← ht, List.drop_append_of_le_length (by omega), List.drop_of_length_le (by omega)]
      simp
    · right
      intro hp
      rw [List.cons_prefix_cons] at hp
      exact hon (prefix_append_eq hp.2 (by omega))
  · left; rfl

theorem bodyOK_clean (p : Bytes) : BodyOK p (fun c k _ => c.delete stStorage k) := by
  intro c k v _
  exact ⟨rfl, [(stStorage :: k, [])], rfl, fun w hw => by simp at hw; left; rw [hw]⟩

theorem inv_cput {c : Cache} (inv : Inv c) (pfx : UInt8) (k : Key) (v : Val) : Inv (c.put pfx k v) :=
  ⟨put_sorted inv.tx _ _, inv.blk, inv.per⟩

theorem inv_cdel {c : Cache} (inv : Inv c) (pfx : UInt8) (k : Key) : Inv (c.delete pfx k) :=
  ⟨put_sorted inv.tx _ _, inv.blk, inv.per⟩

theorem inv_setDestroyed {c : Cache} (inv : Inv c) (track : Nat) (a : Bytes) (h : Nat) : Inv (setDestroyed track c a h) := by
  unfold setDestroyed; split
  · exact inv_cput inv _ _ _
  · exact inv

theorem inv_deleteContract {c : Cache} (inv : Inv c) (track : Nat) (a : Bytes) (h : Nat) :
    Inv (deleteContract track c a h) := inv_setDestroyed (inv_cdel inv _ _) _ _ _

theorem leBytes4_ne_nil (h : Nat) : leBytes 4 h ≠ [] := by simp [leBytes]

theorem read_setDestroyed (track : Nat) (c : Cache) (hs : Sorted c.mem) (a : Bytes) (h : Nat) (q : Key) :
    (setDestroyed track c a h).read q = if q = stDestroyed :: a ∧ track ≤ h then leBytes 4 h else c.read q := by
  unfold setDestroyed
  by_cases ht : track ≤ h
  · simp only [ht, if_true, and_true]; exact read_cput c hs _ _ _ _
  · simp [ht]

theorem read_deleteContract (track : Nat) (c : Cache) (hs : Sorted c.mem) (a : Bytes) (h : Nat) (q : Key) :
    (deleteContract track c a h).read q =
      if q = stDestroyed :: a ∧ track ≤ h then leBytes 4 h else if q = stContract :: a then [] else c.read q := by
  unfold deleteContract
  rw [read_setDestroyed track _ (cdel_sorted c hs _ _), read_cdel c hs]

theorem deleteContract_backend (track : Nat) (c : Cache) (a : Bytes) (h : Nat) :
    (deleteContract track c a h).backend = c.backend := by
  unfold deleteContract setDestroyed; split <;> rfl

/-- `MigrateContractStorage` is the fold of the loop body over the snapshot list taken after `DeleteContract` -/
theorem migrate_eq (track : Nat) (c : Cache) (inv : Inv c) (old new : Bytes) (h : Nat)
    (ho : old.length = 20) (hn : new.length = 20) :
    migrate track c old new h =
      (cacheList (deleteContract track c old h) old).foldl (mstep new) (deleteContract track c old h) :=
  forEachLive_spec old (migrateStep new) (bodyOK_migrate old new ho hn) _ (inv_deleteContract inv _ _ _)

theorem cleanData_eq (c : Cache) (inv : Inv c) (a : Bytes) :
    cleanData c a = (cacheList c a).foldl cstep c :=
  forEachLive_spec a _ (bodyOK_clean a) c inv

theorem sorted_keys_ne {L : List KV} (hs : Sorted L) : L.Pairwise (fun a b => a.1 ≠ b.1) := by
  unfold Sorted at hs
  refine List.Pairwise.imp ?_ hs
  intro a b h heq
  rw [heq] at h
  exact kcmp_lt_irrefl b.1 h

theorem cons_ne_of_head_ne {a b : UInt8} (x y : Bytes) (h : a ≠ b) : a :: x ≠ b :: y := by
  intro he; exact h (List.cons.inj he).1

/-- everything `MigrateContractStorage` does, read through the cache (raw keys) -/
theorem migrate_spec (track : Nat) (c : Cache) (inv : Inv c) (old new : Bytes) (h : Nat)
    (ho : old.length = 20) (hn : new.length = 20) (hne : old ≠ new) :
    Inv (migrate track c old new h) ∧ (migrate track c old new h).backend = c.backend ∧
    (∀ sfx, c.read (stStorage :: (old ++ sfx)) ≠ [] →
      (migrate track c old new h).read (stStorage :: (new ++ sfx)) = c.read (stStorage :: (old ++ sfx))) ∧
    (∀ k, old <+: k → (migrate track c old new h).read (stStorage :: k) = []) ∧
    (∀ sfx, c.read (stStorage :: (old ++ sfx)) = [] →
      (migrate track c old new h).read (stStorage :: (new ++ sfx)) = c.read (stStorage :: (new ++ sfx))) ∧
    (∀ q, ¬ (stStorage :: old) <+: q → ¬ (stStorage :: new) <+: q →
      (migrate track c old new h).read q = (deleteContract track c old h).read q) := by
  have inv0 := inv_deleteContract inv track old h
  have hb0 := deleteContract_backend track c old h
  have hr0 : ∀ t, (deleteContract track c old h).read (stStorage :: t) = c.read (stStorage :: t) := by
    intro t
    rw [read_deleteContract track c inv.tx]
    rw [if_neg (fun hh => cons_ne_of_head_ne t old (by decide) hh.1), if_neg (cons_ne_of_head_ne t old (by decide))]
  obtain ⟨sL, hL⟩ := cacheList_spec (deleteContract track c old h) inv0 old
  rw [migrate_eq track c inv old new h ho hn]
  generalize hc0 : deleteContract track c old h = c0 at *
  generalize hLL : cacheList c0 old = L at *
  have hshape : ∀ e ∈ L, ∃ sfx, e.1 = stStorage :: (old ++ sfx) := by
    intro e he
    obtain ⟨t, ht⟩ := ((hL e.1 e.2).mp he).1
    exact ⟨t, by rw [← ht]; rfl⟩
  have hnk : ∀ e ∈ L, ∀ sfx, e.1 = stStorage :: (old ++ sfx) → nk new e = stStorage :: (new ++ sfx) := by
    intro e _ sfx hs
    unfold nk; rw [hs]
    show stStorage :: (new ++ List.drop 20 (old ++ sfx)) = _
    rw [List.drop_append_of_le_length (by omega), List.drop_of_length_le (by omega)]; simp
  have hno : ∀ a ∈ L, ∀ b ∈ L, nk new a ≠ b.1 := by
    intro a ha b hb heq
    obtain ⟨sa, hsa⟩ := hshape a ha
    obtain ⟨sb, hsb⟩ := hshape b hb
    rw [hnk a ha sa hsa, hsb] at heq
    have := (List.cons.inj heq).2
    exact hne (List.append_inj this (by omega)).1.symm
  have hinj : ∀ a ∈ L, ∀ b ∈ L, nk new a = nk new b → a.1 = b.1 := by
    intro a ha b hb heq
    obtain ⟨sa, hsa⟩ := hshape a ha
    obtain ⟨sb, hsb⟩ := hshape b hb
    rw [hnk a ha sa hsa, hnk b hb sb hsb] at heq
    have := List.append_cancel_left (List.cons.inj heq).2
    rw [hsa, hsb, this]
  obtain ⟨f1, f2, f3, f4, f5⟩ := migrate_fold new L c0 inv0.tx
    (fun e he => by obtain ⟨s, hs⟩ := hshape e he; exact ⟨_, hs⟩) (sorted_keys_ne sL) hno hinj
  refine ⟨⟨f2, by rw [f1]; exact inv0.blk, by rw [f1]; exact inv0.per⟩, by rw [f1, hb0], ?_, ?_, ?_, ?_⟩
  · intro sfx hv
    have hmem : (stStorage :: (old ++ sfx), c.read (stStorage :: (old ++ sfx))) ∈ L :=
      (hL _ _).mpr ⟨by rw [List.cons_prefix_cons]; exact ⟨rfl, List.prefix_append _ _⟩, hr0 _, hv⟩
    have := f4 _ hmem
    rw [hnk _ hmem sfx rfl] at this
    exact this
  · intro k hk
    by_cases hm : ∃ v, (stStorage :: k, v) ∈ L
    · obtain ⟨v, hv⟩ := hm
      exact f3 _ hv
    · have hz : c0.read (stStorage :: k) = [] := by
        apply Classical.byContradiction
        intro hnz
        exact hm ⟨_, (hL _ _).mpr ⟨by rw [List.cons_prefix_cons]; exact ⟨rfl, hk⟩, rfl, hnz⟩⟩
      rw [f5 _ (fun e he => ⟨fun heq => hm ⟨e.2, by rw [heq]; exact he⟩, fun heq => by
        obtain ⟨s, hs⟩ := hshape e he
        rw [hnk e he s hs] at heq
        obtain ⟨t, ht⟩ := hk
        rw [← ht] at heq
        exact hne (List.append_inj (List.cons.inj heq).2 (by omega)).1⟩), hz]
  · intro sfx hv
    rw [← hr0 (new ++ sfx)]
    apply f5
    intro e he
    obtain ⟨s, hs⟩ := hshape e he
    refine ⟨fun heq => ?_, fun heq => ?_⟩
    · rw [hs] at heq
      exact hne (List.append_inj (List.cons.inj heq).2 (by omega)).1.symm
    · rw [hnk e he s hs] at heq
      have : sfx = s := List.append_cancel_left (List.cons.inj heq).2
      subst this
      have := ((hL e.1 e.2).mp he)
      rw [hs, hr0] at this
      exact this.2.2 (by rw [← this.2.1]; exact hv)
  · intro q h1 h2
    apply f5
    intro e he
    obtain ⟨s, hs⟩ := hshape e he
    refine ⟨fun heq => h1 ?_, fun heq => h2 ?_⟩
    · rw [heq, hs, List.cons_prefix_cons]; exact ⟨rfl, List.prefix_append _ _⟩
    · rw [heq, hnk e he s hs, List.cons_prefix_cons]; exact ⟨rfl, List.prefix_append _ _⟩

/-- everything `CleanContractStorageData` does -/
theorem cleanData_spec (c : Cache) (inv : Inv c) (a : Bytes) :
    Inv (cleanData c a) ∧ (cleanData c a).backend = c.backend ∧
    (∀ k, a <+: k → (cleanData c a).read (stStorage :: k) = []) ∧
    (∀ q, ¬ (stStorage :: a) <+: q → (cleanData c a).read q = c.read q) := by
  obtain ⟨sL, hL⟩ := cacheList_spec c inv a
  rw [cleanData_eq c inv a]
  generalize hLL : cacheList c a = L at *
  have hshape : ∀ e ∈ L, ∃ t, e.1 = stStorage :: t := by
    intro e he
    obtain ⟨t, ht⟩ := ((hL e.1 e.2).mp he).1
    exact ⟨a ++ t, by rw [← ht]; rfl⟩
  obtain ⟨f1, f2, f3, f4⟩ := clean_fold L c inv.tx hshape
  refine ⟨⟨f2, by rw [f1]; exact inv.blk, by rw [f1]; exact inv.per⟩, f1, ?_, ?_⟩
  · intro k hk
    by_cases hm : ∃ v, (stStorage :: k, v) ∈ L
    · obtain ⟨v, hv⟩ := hm
      exact f3 _ hv
    · have hz : c.read (stStorage :: k) = [] := by
        apply Classical.byContradiction
        intro hnz
        exact hm ⟨_, (hL _ _).mpr ⟨by rw [List.cons_prefix_cons]; exact ⟨rfl, hk⟩, rfl, hnz⟩⟩
      rw [f4 _ (fun e he heq => hm ⟨e.2, by rw [heq]; exact he⟩), hz]
  · intro q hq
    apply f4
    intro e he heq
    exact hq (by rw [heq]; exact ((hL e.1 e.2).mp he).1)

/-- frame of the migration fold, without any assumption on the two addresses -/
theorem migrate_fold_frame (new : Bytes) : ∀ (L : List KV) (c : Cache), Sorted c.mem →
    (∀ e ∈ L, ∃ t, e.1 = stStorage :: t) →
    (L.foldl (mstep new) c).backend = c.backend ∧ Sorted (L.foldl (mstep new) c).mem ∧
    (∀ q, (∀ e ∈ L, q ≠ e.1 ∧ q ≠ nk new e) → (L.foldl (mstep new) c).read q = c.read q) := by
  intro L
  induction L with
  | nil => intro c hs _; exact ⟨rfl, hs, fun _ _ => rfl⟩
  | cons e T ih =>
    intro c hs hsh
    obtain ⟨t, ht⟩ := hsh e (by simp)
    have hs1 : Sorted (mstep new c e).mem := cdel_sorted _ (cput_sorted c hs _ _ _) _ _
    obtain ⟨i1, i2, i5⟩ := ih (mstep new c e) hs1 (fun x hx => hsh x (by simp [hx]))
    simp only [List.foldl_cons]
    refine ⟨by rw [i1]; rfl, i2, ?_⟩
    intro q hq
    rw [i5 q (fun y hy => hq y (by simp [hy])), mstep_read new c hs e t ht,
      if_neg (hq e (by simp)).1, if_neg (hq e (by simp)).2]

theorem migrate_frame (track : Nat) (c : Cache) (inv : Inv c) (old new : Bytes) (h : Nat)
    (ho : old.length = 20) (hn : new.length = 20) :
    Inv (migrate track c old new h) ∧ (migrate track c old new h).backend = c.backend ∧
    (∀ q, ¬ (stStorage :: old) <+: q → ¬ (stStorage :: new) <+: q →
      (migrate track c old new h).read q = (deleteContract track c old h).read q) := by
  have inv0 := inv_deleteContract inv track old h
  have hb0 := deleteContract_backend track c old h
  obtain ⟨_, hL⟩ := cacheList_spec (deleteContract track c old h) inv0 old
  rw [migrate_eq track c inv old new h ho hn]
  generalize hc0 : deleteContract track c old h = c0 at *
  generalize hLL : cacheList c0 old = L at *
  have hshape : ∀ e ∈ L, ∃ sfx, e.1 = stStorage :: (old ++ sfx) := by
    intro e he
    obtain ⟨t, ht⟩ := ((hL e.1 e.2).mp he).1
    exact ⟨t, by rw [← ht]; rfl⟩
  obtain ⟨f1, f2, f5⟩ := migrate_fold_frame new L c0 inv0.tx
    (fun e he => by obtain ⟨s, hs⟩ := hshape e he; exact ⟨_, hs⟩)
  refine ⟨⟨f2, by rw [f1]; exact inv0.blk, by rw [f1]; exact inv0.per⟩, by rw [f1, hb0], ?_⟩
  intro q h1 h2
  apply f5
  intro e he
  obtain ⟨s, hs⟩ := hshape e he
  refine ⟨fun heq => h1 ?_, fun heq => h2 ?_⟩
  · rw [heq, hs, List.cons_prefix_cons]; exact ⟨rfl, List.prefix_append _ _⟩
  · rw [heq]; unfold nk; rw [List.cons_prefix_cons]; exact ⟨rfl, List.prefix_append _ _⟩

end OntVerif.Proofs.Migrate
