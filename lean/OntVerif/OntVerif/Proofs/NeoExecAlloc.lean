import OntVerif.Proofs.NeoExec
/-!
# C12: what the SHARED clone counter guarantees (`types/struct_value.go:cloneStruct(s, length *int)`)

`StructValue.Clone` threads ONE counter through the whole recursion (`*length++` per element, `*length > MAX_CLONE_LENGTH` checked
at the entry of every nested struct). Consequence, proved here for every heap (cyclic, shared): the entries of nested structs happen
at strictly increasing counter values, all `≤ MAX_CLONE_LENGTH`, so one successful `Clone` creates at most `MAX_CLONE_LENGTH + 1`
struct objects — APPEND / SETITEM of a struct grow the heap by at most that many objects, ADDITIVELY per copy. With a counter passed
by value (one counter per root-to-leaf path) the number of copied structs doubles per self-append round; the model below has no such
variant — the executor lines `NEWSTRUCT (DUP DUP APPEND)×N` compare the real code with this one.
-/
namespace OntVerif.Proofs.NeoExecAlloc
open OntVerif.Util OntVerif.Model.NeoVal OntVerif.Model.NeoExec OntVerif.Proofs.NeoExec

/-- shorthand: the clone limit of the code -/
abbrev MAXC : Nat := OntVerif.Model.NeoProg.MAX_CLONE_LENGTH

/-- what a nested `cloneStruct` call entered with counter `l` on heap `h` returns: the counter only grows, the call was allowed
(`l ≤ MAX`), at least one object was created, and the objects created are paid for by counter increments below the limit -/
def StructOut (h : Heap) (l : Nat) (p : Ref × Heap × Nat) : Prop :=
  l ≤ p.2.2 ∧ l ≤ MAXC ∧ h.length < p.2.1.length ∧ p.2.1.length + l ≤ h.length + p.2.2 + 1 ∧ p.2.1.length + l ≤ h.length + MAXC + 1

/-- the elements of one struct, from counter `len` on heap `h`: either no object was created, or their number fits between the
counter at the start and `min (counter at the end) MAX` -/
def ElemsOut (h : Heap) (len : Nat) (h' : Heap) (len' : Nat) : Prop :=
  len ≤ len' ∧ h.length ≤ h'.length ∧
    (h'.length = h.length ∨ (h'.length + len ≤ h.length + len' ∧ h'.length + len ≤ h.length + MAXC))

theorem cloneElems_alloc (rec : Ref → Heap → Nat → R (Ref × Heap × Nat)) (h0 : Heap)
    (hrec : ∀ r h l p, rec r h l = .ok p → StructOut h l p)
    (vs : List Val) (h : Heap) (len : Nat) (vs' : List Val) (h' : Heap) (len' : Nat)
    (e : cloneElems rec h0 vs h len = .ok (vs', h', len')) : ElemsOut h len h' len' := by
  induction vs generalizing h len vs' h' len' with
  | nil =>
    unfold cloneElems at e
    injection e with e
    injection e with _ e
    injection e with e1 e2
    subst e1; subst e2
    exact ⟨Nat.le_refl _, Nat.le_refl _, Or.inl rfl⟩
  | cons v vs ih =>
    unfold cloneElems at e
    simp only at e
    obtain ⟨⟨v1, h1, l1⟩, e1, e2⟩ := rbind_eq_ok e
    obtain ⟨⟨vs2, h2, l2⟩, e3, e4⟩ := rbind_eq_ok e2
    injection e4 with e4
    injection e4 with _ e4
    injection e4 with e4 e5
    subst e4; subst e5
    have hrest := ih _ _ _ _ _ e3
    unfold ElemsOut at hrest ⊢
    dsimp only at hrest ⊢
    -- the first element: a nested struct (one recursive call entered at `len + 1`) or a shared value
    have hfirst : (h1 = h ∧ l1 = len + 1) ∨ ∃ r1, StructOut h (len + 1) (r1, h1, l1) := by
      split at e1
      · split at e1
        · obtain ⟨⟨r', h'', l''⟩, e5, e6⟩ := rbind_eq_ok e1
          injection e6 with e6
          injection e6 with _ e6
          injection e6 with e6 e7
          subst e6; subst e7
          exact Or.inr ⟨r', hrec _ _ _ _ e5⟩
        · injection e1 with e1
          injection e1 with _ e1
          injection e1 with e1 e1'
          exact Or.inl ⟨e1.symm, e1'.symm⟩
        · cases e1
      · injection e1 with e1
        injection e1 with _ e1
        injection e1 with e1 e1'
        exact Or.inl ⟨e1.symm, e1'.symm⟩
    rcases hfirst with ⟨hh, hl⟩ | ⟨r1, hs⟩
    · subst hh; subst hl
      omega
    · unfold StructOut at hs
      dsimp only at hs
      omega

theorem cloneStruct_alloc (f : Nat) (h0 : Heap) (r : Ref) (h : Heap) (len : Nat) (p : Ref × Heap × Nat)
    (e : cloneStruct f h0 r h len = .ok p) : StructOut h len p := by
  induction f generalizing r h len p with
  | zero => unfold cloneStruct at e; cases e
  | succ f ih =>
    unfold cloneStruct at e
    split at e
    · cases e
    · rename_i hlen
      split at e
      · obtain ⟨⟨vs', h1, l1⟩, e1, e2⟩ := rbind_eq_ok e
        injection e2 with e2
        subst e2
        have := cloneElems_alloc _ _ (fun r h l p e => ih r h l p e) _ _ _ _ _ _ e1
        unfold ElemsOut at this
        unfold StructOut
        dsimp only at this ⊢
        simp only [List.length_append, List.length_cons, List.length_nil]
        simp only [MAXC] at this ⊢
        omega
      · cases e
      · cases e

/-- **one `Clone` creates at most `MAX_CLONE_LENGTH + 1` struct objects, whatever the heap** (the counter is shared by the whole
recursion: entries of nested structs happen at distinct counter values `≤ MAX_CLONE_LENGTH`) -/
theorem clone_alloc_bound (f : Nat) (h : Heap) (r : Ref) (r' : Ref) (h' : Heap) (len' : Nat)
    (e : cloneStruct f h r h 0 = .ok (r', h', len')) : h.length < h'.length ∧ h'.length ≤ h.length + MAXC + 1 := by
  have := cloneStruct_alloc f h r h 0 _ e
  unfold StructOut at this
  dsimp only at this
  omega

/-- the copy APPEND / SETITEM make of a struct operand -/
theorem cloneIfStruct_alloc (h : Heap) (v : Val) (v' : Val) (h' : Heap) (e : cloneIfStruct h v = .ok (v', h')) :
    h.length ≤ h'.length ∧ h'.length ≤ h.length + MAXC + 1 := by
  unfold cloneIfStruct at e
  split at e
  · split at e
    · obtain ⟨⟨r', h'', l''⟩, e1, e2⟩ := rbind_eq_ok e
      injection e2 with e2
      injection e2 with _ e2
      subst e2
      have := clone_alloc_bound _ _ _ _ _ _ e1
      omega
    · injection e with e
      injection e with _ e
      subst e
      omega
    · cases e
  · injection e with e
    injection e with _ e
    subst e
    omega

/-- postcondition of a computation: what holds of the value when there is one -/
def R.post {α : Type} (P : α → Prop) (x : R α) : Prop := ∀ a, x = .ok a → P a

theorem post_bind {α β : Type} {P : α → Prop} {Q : β → Prop} {x : R α} {f : α → R β}
    (hx : R.post P x) (hf : ∀ a, P a → R.post Q (f a)) : R.post Q (x >>= f) := by
  intro b e
  cases x with
  | ok a => exact hf a (hx a rfl) b e
  | _ => cases e

theorem post_any {α : Type} (x : R α) : R.post (fun _ => True) x := fun _ _ => trivial

theorem post_ok {α : Type} {P : α → Prop} {a : α} (h : P a) : R.post P (R.ok a) := by
  intro b e
  injection e with e
  subst e
  exact h

theorem post_pure {α : Type} {P : α → Prop} {a : α} (h : P a) : R.post P (pure a : R α) := post_ok h

theorem post_none {α : Type} {P : α → Prop} {x : R α} (h : ∀ a, x ≠ .ok a) : R.post P x := fun a e => absurd e (h a)

theorem post_ite {α : Type} {P : α → Prop} {c : Prop} [Decidable c] {a b : R α} (ha : R.post P a) (hb : R.post P b) :
    R.post P (if c then a else b) := by
  split <;> assumption

/-- heap growth of one opcode, in objects -/
def GrowsBy (m : M) (k : Nat) (m' : M) : Prop := m.heap.length ≤ m'.heap.length ∧ m'.heap.length ≤ m.heap.length + k

theorem cloneIfStruct_post (h : Heap) (v : Val) :
    R.post (fun p => h.length ≤ p.2.length ∧ p.2.length ≤ h.length + MAXC + 1) (cloneIfStruct h v) := by
  intro ⟨v', h'⟩ e
  exact cloneIfStruct_alloc h v v' h' e

/-- **APPEND grows the heap by at most `MAX_CLONE_LENGTH + 1` objects** (the copy of a struct operand; nothing else allocates) -/
theorem opAppend_alloc (m : M) : R.post (GrowsBy m (MAXC + 1)) (opAppend m) := by
  unfold opAppend
  refine post_bind (post_any _) ?_
  intro ⟨item, d⟩ _
  refine post_bind (cloneIfStruct_post _ _) ?_
  intro ⟨item, h⟩ ⟨h1, h2⟩
  dsimp only at h1 h2 ⊢
  split
  · split
    · refine post_ite (post_none (by intro a; nofun)) (post_pure ?_)
      unfold GrowsBy
      simp only [List.length_set]
      omega
    · refine post_ite (post_none (by intro a; nofun)) (post_pure ?_)
      unfold GrowsBy
      simp only [List.length_set]
      omega
    · exact post_none (by intro a; nofun)
    · exact post_none (by intro a; nofun)
  · exact post_none (by intro a; nofun)

/-- **SETITEM grows the heap by at most `MAX_CLONE_LENGTH + 1` objects** -/
theorem opSetItem_alloc (m : M) : R.post (GrowsBy m (MAXC + 1)) (opSetItem m) := by
  unfold opSetItem
  refine post_bind (post_any _) ?_
  intro ⟨val, d⟩ _
  refine post_bind (post_any _) ?_
  intro ⟨index, d⟩ _
  refine post_bind (post_any _) ?_
  intro ⟨item, d⟩ _
  refine post_bind (cloneIfStruct_post _ _) ?_
  intro ⟨val, h⟩ ⟨h1, h2⟩
  dsimp only at h1 h2 ⊢
  split
  · split
    · refine post_bind (post_any _) ?_
      intro ind _
      refine post_bind (post_any _) ?_
      intro data _
      refine post_pure ?_
      unfold GrowsBy
      simp only [List.length_set]
      omega
    · refine post_bind (post_any _) ?_
      intro ind _
      refine post_bind (post_any _) ?_
      intro data _
      refine post_pure ?_
      unfold GrowsBy
      simp only [List.length_set]
      omega
    · refine post_bind (post_any _) ?_
      intro kb _
      refine post_pure ?_
      unfold GrowsBy
      simp only [List.length_set]
      omega
    · exact post_none (by intro a; nofun)
  · exact post_none (by intro a; nofun)

end OntVerif.Proofs.NeoExecAlloc
