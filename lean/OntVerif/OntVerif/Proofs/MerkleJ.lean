import OntVerif.Proofs.MerkleI
namespace OntVerif.Proofs.Merkle
open OntVerif.Util OntVerif.Model.Merkle

section
variable {Hash : Type} (H1 : Hash → Hash → Hash) (He : Hash)

/-! ## the hash-store layout seen from the top of the tree -/

theorem post_length (j : Nat) : ∀ B : List Hash, B.length = 2 ^ j → (post H1 He j B).length = 2 * 2 ^ j - 1 := by
  induction j with
  | zero => intro B h; simp [post, h]
  | succ j ih =>
    intro B h
    have hp := Nat.two_pow_pos j
    rw [pow_succ2] at h
    simp only [post, List.length_append, List.length_singleton]
    rw [ih _ (by rw [List.length_take]; omega), ih _ (by rw [List.length_drop]; omega), pow_succ2]
    omega

theorem post_last (j : Nat) (B : List Hash) (h : B.length = 2 ^ j) :
    ∃ front, post H1 He j B = front ++ [mth H1 He B] ∧ front.length = 2 * 2 ^ j - 2 := by
  cases j with
  | zero =>
    simp at h
    match B, h with
    | [x], _ => exact ⟨[], by simp [post], by simp⟩
  | succ j =>
    have hp := Nat.two_pow_pos j
    rw [pow_succ2] at h
    refine ⟨post H1 He j (B.take (2 ^ j)) ++ post H1 He j (B.drop (2 ^ j)), by simp [post], ?_⟩
    rw [List.length_append, post_length H1 He j _ (by rw [List.length_take]; omega),
      post_length H1 He j _ (by rw [List.length_drop]; omega), pow_succ2]
    omega

theorem mul_pow_succ (a j : Nat) : a * 2 ^ (j + 1) = (a * 2) * 2 ^ j := by
  rw [pow_succ2, ← Nat.mul_assoc]

/-- splitting off the largest block -/
theorem layoutR_high (y : Nat) : ∀ (j n : Nat) (L : List Hash), L.length = n * 2 ^ j → 2 ^ y ≤ n → n < 2 ^ (y + 1) →
    layoutR H1 He n L j =
      post H1 He (y + j) (L.take (2 ^ (y + j))) ++ layoutR H1 He (n - 2 ^ y) (L.drop (2 ^ (y + j))) j := by
  induction y with
  | zero =>
    intro j n L hL h1 h2
    have hn : n = 1 := by simp at h1 h2; omega
    subst hn
    simp only [Nat.one_mul] at hL
    rw [layoutR_odd H1 He 1 L j rfl, layoutR_zero, Nat.zero_add, show L.length - 2 ^ j = 0 by omega, ← hL,
      List.take_length, List.drop_length, layoutR_zero]
    simp
  | succ y ih =>
    intro j n L hL h1 h2
    have hp := Nat.two_pow_pos y
    have hpj := Nat.two_pow_pos j
    rw [pow_succ2] at h1
    rw [pow_succ2, pow_succ2] at h2
    have hq : 2 ^ (y + 1 + j) = 2 ^ y * 2 ^ (j + 1) := by
      rw [show y + 1 + j = y + (j + 1) by omega, Nat.pow_add]
    have hexp : y + (j + 1) = y + 1 + j := by omega
    by_cases hodd : n % 2 = 1
    · have hLl : L.length = (n / 2) * (2 * 2 ^ j) + 2 ^ j := by rw [hL]; exact odd_mul n _ hodd
      have hc : (L.take (L.length - 2 ^ j)).length = (n / 2) * 2 ^ (j + 1) := by
        rw [List.length_take, pow_succ2]; omega
      have hqc : 2 ^ (y + 1 + j) ≤ L.length - 2 ^ j := by
        rw [hq, hLl, ← pow_succ2]
        have := Nat.mul_le_mul_right (2 ^ (j + 1)) (show 2 ^ y ≤ n / 2 by omega)
        omega
      rw [layoutR_odd H1 He n L j hodd,
        ih (j + 1) (n / 2) _ hc (by omega) (by rw [pow_succ2]; omega), hexp, pow_succ2 y,
        layoutR_odd H1 He (n - 2 * 2 ^ y) _ j (by omega)]
      rw [List.take_take, Nat.min_eq_left hqc, List.length_drop, List.drop_take, List.drop_drop,
        show (n - 2 * 2 ^ y) / 2 = n / 2 - 2 ^ y by omega,
        show L.length - 2 ^ (y + 1 + j) - 2 ^ j = L.length - 2 ^ j - 2 ^ (y + 1 + j) by omega,
        show 2 ^ (y + 1 + j) + (L.length - 2 ^ j - 2 ^ (y + 1 + j)) = L.length - 2 ^ j by omega]
      simp
    · have heven : n % 2 = 0 := by omega
      have hL2 : L.length = (n / 2) * 2 ^ (j + 1) := by rw [hL, pow_succ2]; exact even_mul n _ heven
      rw [layoutR_even H1 He n L j heven, ih (j + 1) (n / 2) L hL2 (by omega) (by rw [pow_succ2]; omega), hexp,
        layoutR_even H1 He (n - 2 ^ (y + 1)) _ j (by rw [pow_succ2]; omega), pow_succ2 y,
        show (n - 2 * 2 ^ y) / 2 = n / 2 - 2 ^ y by omega]

/-- the hash store of a tree holding exactly `D` -/
def lay (D : List Hash) : List Hash := layoutR H1 He D.length D 0

theorem lay_nil : lay H1 He ([] : List Hash) = [] := by simp [lay, layoutR_zero]

/-- a full tree of `2^y` leaves is stored in post-order -/
theorem lay_pow (y : Nat) (D : List Hash) (h : D.length = 2 ^ y) : lay H1 He D = post H1 He y D := by
  unfold lay
  rw [layoutR_high H1 He y 0 D.length D (by simp) (by omega) (by rw [h, pow_succ2]; have := Nat.two_pow_pos y; omega)]
  simp only [Nat.add_zero]
  rw [← h, List.take_length, Nat.sub_self, layoutR_zero, List.append_nil]

/-- **store layout, top-down**: the left subtree's hashes, then the right subtree's, then (for a full tree) the root -/
theorem lay_split (D : List Hash) (h2 : 2 ≤ D.length) :
    ∃ ext, lay H1 He D = lay H1 He (D.take (splitK D.length)) ++ lay H1 He (D.drop (splitK D.length)) ++ ext := by
  obtain ⟨x, hk, hx1, hx2⟩ := splitK_spec (n := D.length) h2
  have hp := Nat.two_pow_pos x
  rw [pow_succ2] at hx2
  have htl : (D.take (2 ^ x)).length = 2 ^ x := by rw [List.length_take]; omega
  rw [hk, lay_pow H1 He x _ htl]
  by_cases hfull : D.length = 2 * 2 ^ x
  · -- a full tree: post-order
    refine ⟨[mth H1 He D], ?_⟩
    rw [lay_pow H1 He (x + 1) D (by rw [pow_succ2]; exact hfull),
      lay_pow H1 He x (D.drop (2 ^ x)) (by rw [List.length_drop]; omega)]
    simp [post]
  · refine ⟨[], ?_⟩
    have := layoutR_high H1 He x 0 D.length D (by simp) (by omega) (by rw [pow_succ2]; omega)
    simp only [Nat.add_zero] at this
    unfold lay
    rw [this, List.length_drop, List.append_nil]

end
end OntVerif.Proofs.Merkle
