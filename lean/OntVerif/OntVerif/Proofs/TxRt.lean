import OntVerif.Proofs.Tx
/-! Helper lemmas for the converse direction of C19/C20 (decoding what the encoder wrote): the predicate `Fwd`,
forward lemmas for every field reader and for the transaction parsers. Core-only. -/
namespace OntVerif.Proofs.Tx
open OntVerif.Util OntVerif.Model.Codec OntVerif.Model.Tx OntVerif.Proofs.Codec

/-! ## Forward direction: decoding what the encoder wrote -/

/-- `p`, started on any buffer that holds `x` at the cursor, returns `a` and consumes exactly `x` -/
def Fwd {α : Type} (p : P α) (a : α) (x : Bytes) : Prop :=
  ∀ (bs : Bytes) (off : Nat), bs.length < two64 → off + x.length ≤ bs.length → (bs.drop off).take x.length = x →
    p ⟨bs, off⟩ = .ok a ⟨bs, off + x.length⟩

theorem bind_ok {α β : Type} {p : P α} {f : α → P β} {s s1 : Src} {a : α} (h : p s = .ok a s1) :
    (p >>= f) s = f a s1 := by
  rw [bind_eval, h]

theorem fwd_congr {α : Type} {p : P α} {a : α} {x y : Bytes} (h : x = y) (hf : Fwd p a x) : Fwd p a y := h ▸ hf

theorem fwd_pure {α : Type} (a : α) : Fwd (pure a : P α) a [] := by
  intro bs off _ _ _
  rfl

theorem seg_left {bs x y : Bytes} {off : Nat} (h : (bs.drop off).take (x ++ y).length = x ++ y) :
    (bs.drop off).take x.length = x := by
  have := congrArg (List.take x.length) h
  rw [List.take_take, List.length_append, Nat.min_eq_left (by omega)] at this
  rw [this]; simp

theorem seg_right {bs x y : Bytes} {off : Nat} (h : (bs.drop off).take (x ++ y).length = x ++ y) :
    (bs.drop (off + x.length)).take y.length = y := by
  have := congrArg (List.drop x.length) h
  rw [List.drop_take, List.drop_drop, List.length_append] at this
  simp only [Nat.add_sub_cancel_left, List.drop_left'] at this
  exact this

theorem fwd_bind {α β : Type} {p : P α} {f : α → P β} {a : α} {b : β} {x y : Bytes}
    (hx : Fwd p a x) (hy : Fwd (f a) b y) : Fwd (p >>= f) b (x ++ y) := by
  intro bs off hl hle hseg
  rw [List.length_append] at hle
  rw [bind_ok (hx bs off hl (by omega) (seg_left hseg)), hy bs (off + x.length) hl (by omega) (seg_right hseg),
    List.length_append, Nat.add_assoc]

theorem fwd_rByte (b : UInt8) : Fwd rByte b [b] := by
  intro bs off hl hle hseg
  simp only [List.length_singleton] at hle hseg ⊢
  have hlt : off < bs.length := by omega
  rw [List.drop_eq_getElem_cons hlt] at hseg
  simp only [List.take_succ_cons, List.take_zero, List.cons.injEq, and_true] at hseg
  have hget : bs[off]? = some b := by rw [List.getElem?_eq_getElem hlt, hseg]
  unfold rByte nextByte
  simp [hget]

theorem fwd_rBytesN (d : Bytes) : Fwd (rBytesN d.length) d d := by
  intro bs off hl hle hseg
  unfold rBytesN
  rw [nextBytes_ok ⟨bs, off⟩ d.length ⟨by simp; omega, hl⟩ hle]
  simp [hseg]

theorem fwd_rUintN (k v : Nat) (hv : v < 256 ^ k) : Fwd (rUintN k) v (leN k v) := by
  intro bs off hl hle hseg
  rw [leN_length] at hle hseg ⊢
  unfold rUintN nextUintN
  rw [nextBytes_ok ⟨bs, off⟩ k ⟨by simp; omega, hl⟩ hle]
  simp only [hseg, fromLE_leN k v hv]
  rfl

theorem split_at (bs : Bytes) (off n : Nat) :
    bs = bs.take off ++ (bs.drop off).take n ++ bs.drop (off + n) := by
  rw [List.append_assoc, ← List.drop_drop, List.take_append_drop, List.take_append_drop]

theorem nextVarUint_fwd (v : Nat) (hv : v < two64) (bs : Bytes) (off : Nat) (hl : bs.length < two64)
    (hle : off + (writeVarUint v).length ≤ bs.length) (hseg : (bs.drop off).take (writeVarUint v).length = writeVarUint v) :
    nextVarUint ⟨bs, off⟩ = some (⟨v, getVarUintSize v, false, false⟩, ⟨bs, off + getVarUintSize v⟩) := by
  have hsp := split_at bs off (writeVarUint v).length
  rw [hseg] at hsp
  have hpl : (bs.take off).length = off := by simp; omega
  have h := rt_varuint v hv (bs.take off) (bs.drop (off + (writeVarUint v).length)) (by rw [← hsp]; exact hl)
  rw [← hsp, hpl] at h
  exact h

theorem fwd_rVarUint (ef : Bool) (v : Nat) (hv : v < two64) : Fwd (rVarUint ef) v (writeVarUint v) := by
  intro bs off hl hle hseg
  unfold rVarUint
  rw [nextVarUint_fwd v hv bs off hl hle hseg, writeVarUint_length]
  cases ef <;> simp

theorem fwd_rVarBytes (ef : Bool) (d : Bytes) (hd : d.length < two64) : Fwd (rVarBytes ef) d (writeVarBytes d) := by
  intro bs off hl hle hseg
  unfold writeVarBytes at hle hseg ⊢
  have hle1 : off + (writeVarUint d.length).length ≤ bs.length := by rw [List.length_append] at hle; omega
  have h1 := nextVarUint_fwd d.length hd bs off hl hle1 (seg_left hseg)
  have hseg2 := seg_right hseg
  rw [writeVarUint_length] at hseg2
  rw [List.length_append, writeVarUint_length] at hle ⊢
  unfold rVarBytes nextVarBytes
  rw [h1]
  simp only
  by_cases hpos : d.length > 0
  · simp only [hpos, if_true]
    rw [nextBytes_ok ⟨bs, off + getVarUintSize d.length⟩ d.length ⟨by simp; omega, hl⟩ (by simp; omega)]
    simp only [hseg2]
    cases ef <;> simp [Nat.add_assoc]
  · have hnil : d = [] := by
      cases d with
      | nil => rfl
      | cons a t => simp at hpos
    subst hnil
    cases ef <;> simp

theorem fwd_parseInvoke (c : Bytes) (hc : c.length < two64) : Fwd parseInvoke (.invoke c) (serPayload (.invoke c)) := by
  unfold parseInvoke
  refine fwd_congr (by simp [serPayload]) (fwd_bind (fwd_rVarBytes true c hc) (fwd_pure _))

theorem fwd_parseDeploy (c : Bytes) (vm : UInt8) (n v a e d : Bytes)
    (hc : c.length < two64) (hn : n.length < two64) (hv : v.length < two64) (ha : a.length < two64)
    (he : e.length < two64) (hd : d.length < two64) (hval : validateDeploy c vm n v a e d = true) :
    Fwd parseDeploy (.deploy c vm n v a e d) (serPayload (.deploy c vm n v a e d)) := by
  unfold parseDeploy
  refine fwd_congr (x := writeVarBytes c ++ ([vm] ++ (writeVarBytes n ++ (writeVarBytes v ++ (writeVarBytes a ++
    (writeVarBytes e ++ (writeVarBytes d ++ []))))))) (by simp [serPayload]) ?_
  refine fwd_bind (fwd_rVarBytes true c hc) ?_
  refine fwd_bind (fwd_rByte vm) ?_
  refine fwd_bind (fwd_rVarBytes true n hn) ?_
  refine fwd_bind (fwd_rVarBytes true v hv) ?_
  refine fwd_bind (fwd_rVarBytes true a ha) ?_
  refine fwd_bind (fwd_rVarBytes true e he) ?_
  refine fwd_bind (fwd_rVarBytes false d hd) ?_
  simp only [hval, if_true]
  exact fwd_pure _

theorem fwd_parseRawSig (sg : Bytes × Bytes) (h1 : sg.1.length < two64) (h2 : sg.2.length < two64) :
    Fwd parseRawSig sg (serSig sg) := by
  unfold parseRawSig
  refine fwd_congr (x := writeVarBytes sg.1 ++ (writeVarBytes sg.2 ++ [])) (by simp [serSig]) ?_
  refine fwd_bind (fwd_rVarBytes true sg.1 h1) ?_
  refine fwd_bind (fwd_rVarBytes true sg.2 h2) ?_
  exact fwd_pure _

theorem fwd_repeatP {α : Type} (p : P α) (wr : α → Bytes) :
    ∀ (l : List α), (∀ a ∈ l, Fwd p a (wr a)) → Fwd (repeatP l.length p) l (l.map wr).flatten
  | [], _ => by
    unfold repeatP
    exact fwd_pure _
  | a :: r, h => by
    simp only [List.length_cons]
    unfold repeatP
    refine fwd_congr (x := wr a ++ ((r.map wr).flatten ++ [])) (by simp) ?_
    refine fwd_bind (h a (by simp)) ?_
    refine fwd_bind (fwd_repeatP p wr r (fun x hx => h x (by simp [hx]))) ?_
    exact fwd_pure _


/-- every byte-string field of the payload is shorter than 2^64 -/
theorem fwd_payload (ty : UInt8) (pl : Payload) (hw : wfPayload ty pl = true) (hl : PlWf pl) :
    Fwd (if (ty == 0xd1 || ty == 0xd2) = true then parseInvoke
         else if (ty == 0xd0) = true then parseDeploy else fail .invalid) pl (serPayload pl) := by
  cases pl with
  | invoke c =>
    have : (ty == 0xd1 || ty == 0xd2) = true := by simpa [wfPayload] using hw
    simp only [this, if_true]
    exact fwd_parseInvoke c hl
  | deploy c vm n v a e d =>
    simp only [wfPayload, Bool.and_eq_true] at hw
    obtain ⟨hty, hval⟩ := hw
    have hty' : ty = 0xd0 := by simpa using hty
    subst hty'
    obtain ⟨h1, h2, h3, h4, h5, h6⟩ := hl
    have e1 : ((0xd0 : UInt8) == 0xd1 || (0xd0 : UInt8) == 0xd2) = false := by decide
    simp only [e1, Bool.false_eq_true, if_false, beq_self_eq_true, if_true]
    exact fwd_parseDeploy c vm n v a e d h1 h2 h3 h4 h5 h6 hval
  | eip t => simp [wfPayload] at hw

theorem fwd_parseOntUnsigned (u : TxU) (hver : u.version = 0) (hpl : wfPayload u.txType u.payload = true)
    (hlen : PlWf u.payload) (hn : u.nonce < 256 ^ 4) (hgp : u.gasPrice < 256 ^ 8) (hgl : u.gasLimit < 256 ^ 8)
    (hpayer : u.payer.length = 20) : Fwd parseOntUnsigned u (serUnsigned u) := by
  obtain ⟨ver, ty, nonce, gp, gl, payer, pl⟩ := u
  simp only at hver hpl hlen hn hgp hgl hpayer
  subst hver
  have hty : (ty == 0xd3) = false := by
    cases pl with
    | invoke c =>
      have : (ty == 0xd1 || ty == 0xd2) = true := by simpa [wfPayload] using hpl
      rcases (by simpa using this : ty = 0xd1 ∨ ty = 0xd2) with h | h <;> subst h <;> decide
    | deploy c vm n v a e d =>
      simp only [wfPayload, Bool.and_eq_true] at hpl
      have : ty = 0xd0 := by simpa using hpl.1
      subst this; decide
    | eip t => simp [wfPayload] at hpl
  unfold parseOntUnsigned
  refine fwd_congr (x := [0] ++ ([ty] ++ (leN 4 nonce ++ (leN 8 gp ++ (leN 8 gl ++ (payer ++
    (serPayload pl ++ (writeVarUint 0 ++ []))))))))
    (by simp [serUnsigned, writeUintN]) ?_
  refine fwd_bind (fwd_rByte 0) ?_
  have e0 : ((0 : UInt8) != 0) = false := by decide
  simp only [e0, Bool.false_eq_true, if_false]
  refine fwd_bind (fwd_rByte ty) ?_
  simp only [hty, Bool.false_eq_true, if_false]
  refine fwd_bind (fwd_rUintN 4 nonce hn) ?_
  refine fwd_bind (fwd_rUintN 8 gp hgp) ?_
  refine fwd_bind (fwd_rUintN 8 gl hgl) ?_
  refine fwd_bind (hpayer ▸ fwd_rBytesN payer) ?_
  refine fwd_bind (fwd_payload ty pl hpl hlen) ?_
  refine fwd_bind (fwd_rVarUint false 0 (by unfold two64; omega)) ?_
  have e1 : ((0 : Nat) != 0) = false := by decide
  simp only [e1, Bool.false_eq_true, if_false]
  exact fwd_pure _


theorem writeVarBytes_length_ge (d : Bytes) : d.length ≤ (writeVarBytes d).length := by
  unfold writeVarBytes; simp

theorem plwf_of_len (ty : UInt8) (pl : Payload) (hw : wfPayload ty pl = true) (hl : (serPayload pl).length < two64) :
    PlWf pl := by
  cases pl with
  | invoke c =>
    simp only [serPayload] at hl
    have := writeVarBytes_length_ge c
    show c.length < two64
    omega
  | deploy c vm n v a e d =>
    simp only [serPayload, List.length_append, List.length_cons, List.length_nil] at hl
    have h1 := writeVarBytes_length_ge c
    have h2 := writeVarBytes_length_ge n
    have h3 := writeVarBytes_length_ge v
    have h4 := writeVarBytes_length_ge a
    have h5 := writeVarBytes_length_ge e
    have h6 := writeVarBytes_length_ge d
    exact ⟨by omega, by omega, by omega, by omega, by omega, by omega⟩
  | eip t => simp [wfPayload] at hw

theorem flatten_length_ge {α : Type} (f : α → Bytes) : ∀ (l : List α) (a : α), a ∈ l → (f a).length ≤ (l.map f).flatten.length
  | [], a, h => by simp at h
  | x :: r, a, h => by
    simp only [List.map_cons, List.flatten_cons, List.length_append]
    rcases List.mem_cons.mp h with rfl | h
    · omega
    · have := flatten_length_ge f r a h
      omega

theorem serUnsigned_length_ge (u : TxU) : (serPayload u.payload).length ≤ (serUnsigned u).length := by
  unfold serUnsigned; simp only [List.length_append]; omega

/-- unpacking the decidable well-formedness predicate -/
theorem wfFields_unpack {u : TxU} {sigs : List (Bytes × Bytes)} (h : wfFields u sigs = true) :
    u.version = 0 ∧ wfPayload u.txType u.payload = true ∧ u.nonce < 256 ^ 4 ∧ u.gasPrice < 256 ^ 8 ∧
    u.gasLimit < 256 ^ 8 ∧ u.payer.length = 20 ∧ sigs.length ≤ TX_MAX_SIG_SIZE ∧
    (serUnsigned u ++ serSigs sigs).length ≤ MAX_TX_SIZE := by
  unfold wfFields at h
  simp only [Bool.and_eq_true, beq_iff_eq, decide_eq_true_eq] at h
  obtain ⟨⟨⟨⟨⟨⟨⟨h1, h2⟩, h3⟩, h4⟩, h5⟩, h6⟩, h7⟩, h8⟩ := h
  exact ⟨h1, h2, h3, h4, h5, h6, h7, h8⟩

theorem pos_eval (s : Src) : pos s = .ok s.off s := rfl


theorem parseOnt_fwd (u : TxU) (sigs : List (Bytes × Bytes)) (hw : wfFields u sigs = true)
    (bs : Bytes) (off : Nat) (hl : bs.length < two64)
    (hle : off + (serUnsigned u ++ serSigs sigs).length ≤ bs.length)
    (hseg : (bs.drop off).take (serUnsigned u ++ serSigs sigs).length = serUnsigned u ++ serSigs sigs) :
    parseOnt ⟨bs, off⟩ = .ok (mkTx u sigs) ⟨bs, off + (serUnsigned u ++ serSigs sigs).length⟩ := by
  obtain ⟨hver, hpl, hn, hgp, hgl, hpayer, hsn, hsz⟩ := wfFields_unpack hw
  have hmax : MAX_TX_SIZE < two64 := by decide
  have hUlen : (serUnsigned u).length < two64 := by rw [List.length_append] at hsz; omega
  have hplwf : PlWf u.payload := plwf_of_len _ _ hpl (by have := serUnsigned_length_ge u; omega)
  -- abbreviations
  generalize hU : serUnsigned u = U at *
  generalize hS : serSigs sigs = S at *
  have hleU : off + U.length ≤ bs.length := by rw [List.length_append] at hle; omega
  have hsegU : (bs.drop off).take U.length = U := seg_left hseg
  have hsegS : (bs.drop (off + U.length)).take S.length = S := seg_right hseg
  have e1 : parseOntUnsigned ⟨bs, off⟩ = .ok u ⟨bs, off + U.length⟩ := by
    have := fwd_parseOntUnsigned u hver hpl hplwf hn hgp hgl hpayer
    rw [hU] at this
    exact this bs off hl hleU hsegU
  have w1 : (⟨bs, off + U.length⟩ : Src).wf := ⟨by simpa using hleU, hl⟩
  have e2 : captured off ⟨bs, off + U.length⟩ = .ok U ⟨bs, off + U.length⟩ := by
    rw [captured_eval off _ w1 (by simp)]
    simp only [Nat.add_sub_cancel_left, hsegU]
  -- the signature list
  have hSdef : S = writeVarUint sigs.length ++ (sigs.map serSig).flatten := by rw [← hS]; rfl
  have hSlen : S.length ≤ MAX_TX_SIZE := by rw [List.length_append] at hsz; omega
  have hleS : off + U.length + S.length ≤ bs.length := by rw [List.length_append] at hle; omega
  rw [hSdef] at hsegS hleS
  have e3 : rVarUint false ⟨bs, off + U.length⟩ = .ok sigs.length ⟨bs, off + U.length + (writeVarUint sigs.length).length⟩ :=
    fwd_rVarUint false sigs.length (by unfold TX_MAX_SIG_SIZE at hsn; unfold two64; omega) bs (off + U.length) hl
      (by rw [List.length_append] at hleS; omega) (seg_left hsegS)
  have hsigfwd : ∀ sg ∈ sigs, Fwd parseRawSig sg (serSig sg) := by
    intro sg hsg
    have hge := flatten_length_ge serSig sigs sg hsg
    have : (serSig sg).length < two64 := by
      rw [hSdef, List.length_append] at hSlen; omega
    unfold serSig at this
    rw [List.length_append] at this
    have h1 := writeVarBytes_length_ge sg.1
    have h2 := writeVarBytes_length_ge sg.2
    exact fwd_parseRawSig sg (by omega) (by omega)
  have e4 : repeatP sigs.length parseRawSig ⟨bs, off + U.length + (writeVarUint sigs.length).length⟩
      = .ok sigs ⟨bs, off + U.length + (writeVarUint sigs.length).length + (sigs.map serSig).flatten.length⟩ :=
    fwd_repeatP parseRawSig serSig sigs hsigfwd bs _ hl (by rw [List.length_append] at hleS; omega) (seg_right hsegS)
  have hend : off + U.length + (writeVarUint sigs.length).length + (sigs.map serSig).flatten.length
      = off + (U ++ S).length := by
    rw [hSdef]; simp only [List.length_append]; omega
  rw [hend] at e4
  have w2 : (⟨bs, off + (U ++ S).length⟩ : Src).wf := ⟨by simpa using hle, hl⟩
  have e5 : captured off ⟨bs, off + (U ++ S).length⟩ = .ok (U ++ S) ⟨bs, off + (U ++ S).length⟩ := by
    rw [captured_eval off _ w2 (by simp)]
    simp only [Nat.add_sub_cancel_left, hseg]
  have hsub : sub64 (off + (U ++ S).length) off = (U ++ S).length := by
    rw [sub64_of_le (by omega) (by omega)]; omega
  unfold parseOnt
  rw [bind_ok (pos_eval _)]
  simp only
  rw [bind_ok e1, bind_ok e2, bind_ok e3]
  have c1 : ¬ sigs.length > TX_MAX_SIG_SIZE := by omega
  simp only [c1, if_false]
  rw [bind_ok e4, bind_ok (pos_eval _)]
  simp only [hsub]
  have c2 : ¬ (U ++ S).length > MAX_TX_SIZE := by omega
  simp only [c2, if_false]
  rw [bind_ok e5]
  unfold mkTx
  rw [hU, hS]
  rfl


/-- a buffer holding `v :: t :: _` at the cursor: `isEip155TxBytes` looks at `t` and restores the cursor -/
theorem isEip155_eval (bs : Bytes) (off : Nat) (hl : bs.length < two64) (v t : UInt8) (rest : Bytes)
    (hdrop : bs.drop off = v :: t :: rest) : isEip155 ⟨bs, off⟩ = some (t == 0xd3, ⟨bs, off⟩) := by
  have hlen : off + 2 ≤ bs.length := by
    have := congrArg List.length hdrop
    simp at this; omega
  have hoff : off + 2 < two64 := by omega
  have hb : backUp ⟨bs, off + 2⟩ 2 = ⟨bs, off⟩ := by
    unfold backUp
    simp only
    rw [sub64_of_le (by omega) hoff]
    simp
  unfold isEip155
  rw [nextBytes_ok ⟨bs, off⟩ 2 ⟨by simp; omega, hl⟩ hlen]
  simp only [Bool.false_eq_true, if_false, hdrop]
  simp only [List.take_succ_cons, List.take_zero]
  rw [hb]
  rfl

theorem serUnsigned_head (u : TxU) : ∃ rest, serUnsigned u = u.version :: u.txType :: rest := by
  unfold serUnsigned
  refine ⟨writeUintN 4 u.nonce ++ writeUintN 8 u.gasPrice ++ writeUintN 8 u.gasLimit ++ u.payer ++
    serPayload u.payload ++ writeVarUint 0, ?_⟩
  simp

theorem wfPayload_not_eip {ty : UInt8} {pl : Payload} (h : wfPayload ty pl = true) : (ty == 0xd3) = false := by
  cases pl with
  | invoke c =>
    have : (ty == 0xd1 || ty == 0xd2) = true := by simpa [wfPayload] using h
    rcases (by simpa using this : ty = 0xd1 ∨ ty = 0xd2) with h | h <;> subst h <;> decide
  | deploy c vm n v a e d =>
    simp only [wfPayload, Bool.and_eq_true] at h
    have : ty = 0xd0 := by simpa using h.1
    subst this; decide
  | eip t => simp [wfPayload] at h

theorem deserialize_fwd (R : Rlp) (u : TxU) (sigs : List (Bytes × Bytes)) (hw : wfFields u sigs = true)
    (bs : Bytes) (off : Nat) (hl : bs.length < two64)
    (hle : off + (serUnsigned u ++ serSigs sigs).length ≤ bs.length)
    (hseg : (bs.drop off).take (serUnsigned u ++ serSigs sigs).length = serUnsigned u ++ serSigs sigs) :
    deserialize R ⟨bs, off⟩ = .ok (mkTx u sigs) ⟨bs, off + (serUnsigned u ++ serSigs sigs).length⟩ := by
  obtain ⟨rest, hhead⟩ := serUnsigned_head u
  have hdrop : ∃ r', bs.drop off = u.version :: u.txType :: r' := by
    have h := List.take_append_drop (serUnsigned u ++ serSigs sigs).length (bs.drop off)
    rw [hseg, hhead] at h
    exact ⟨_, h.symm⟩
  obtain ⟨r', hd⟩ := hdrop
  have hty := wfPayload_not_eip (wfFields_unpack hw).2.1
  unfold deserialize
  rw [isEip155_eval bs off hl _ _ _ hd, hty]
  exact parseOnt_fwd u sigs hw bs off hl hle hseg


/-- the pre/rest form of "the buffer holds `x` at the cursor" -/
theorem seg_of_append (pre x rest : Bytes) : ((pre ++ x ++ rest).drop pre.length).take x.length = x := by
  rw [List.append_assoc, List.drop_left' rfl, List.take_left' rfl]

end OntVerif.Proofs.Tx
