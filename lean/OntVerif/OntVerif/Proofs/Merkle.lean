import OntVerif.Proofs.MerkleP
/-! Helper lemmas for C26 / C27 (merkle tree model), split over `MerkleA` … `MerkleN` (core-only):
`A` split point and `mth`; `B` compact tree and hash-store layout invariant (`Holds`); `C` the iterative audit-path loop
equals the recursive RFC 6962 evaluation; `D` completeness / soundness / uniqueness of that evaluation; `E` cross-chain
path soundness, pairing tree = `mth`; `F` `MerkleLeafPath` emits the RFC audit path; `G` fuel-free consistency-verifier
loops; `H` iterative consistency verifier = recursive evaluation; `I` completeness / soundness / uniqueness of that
evaluation; `J` store layout seen from the top bit; `K` `getSubTreePos` and reading subtree roots from the store;
`L` `InclusionProof` = RFC audit path; `M` `ConsistencyProof` = RFC consistency proof; `N` stored hash count;
`O` the hash file with its cursor (`FHolds`); `P` byte-level round trip of cross-chain paths. -/
