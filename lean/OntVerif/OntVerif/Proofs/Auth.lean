import OntVerif.Model.Auth
/-! Helper lemmas for C41 (auth contract): verifyToken as an iff, getAuthToken/hasRole, store updates, the reachable-state invariant and its preservation by every operation. Core Lean only. -/
namespace OntVerif.Proofs.Auth
open OntVerif.Model.Auth OntVerif.Gen.Auth

/-! ### verifyToken, state independent -/

theorem verifyToken_t_iff (v : Variant) (st : St) (c caller fn : Nat) (sig : Sig) (now : Nat) :
    verifyToken v st c caller fn sig now = .t ↔ sig = .ok ∧ verifyHit v st c caller fn now = true := by
  unfold verifyToken
  cases sig <;> simp

theorem verifyHit_sound_iff (st : St) (c caller fn now : Nat) :
    verifyHit .sound st c caller fn now = true ↔ ∃ role, fn ∈ st.funcs c role ∧ Holds st c caller role now := by
  unfold verifyHit Holds HoldsDirect HoldsDelegated
  simp only [tokenSkip, statusSkip, delegationLive, Bool.or_eq_true, List.any_eq_true]
  constructor
  · rintro (⟨t, ht, hc⟩ | ⟨s, hs, hc⟩)
    · simp at hc
      exact ⟨t.role, hc, Or.inl ⟨t, ht, rfl⟩⟩
    · simp at hc
      exact ⟨s.role, hc.2, Or.inr ⟨s, hs, rfl, hc.1⟩⟩
  · rintro ⟨role, hf, ⟨t, ht, rfl⟩ | ⟨s, hs, rfl, hl⟩⟩
    · exact Or.inl ⟨t, ht, by simpa using hf⟩
    · exact Or.inr ⟨s, hs, by simp [hl, hf]⟩

theorem verifyHit_asShipped_iff (st : St) (c caller fn now : Nat) :
    verifyHit .asShipped st c caller fn now = true ↔
      ∃ role, fn ∈ st.funcs c role ∧
        ((∃ t ∈ tokensOf st c caller, t.role = role ∧ now ≤ t.expire) ∨
         (∃ s ∈ st.status c caller, s.role = role ∧ now ≤ s.expire)) := by
  unfold verifyHit
  simp only [tokenSkip, statusSkip, tokenSkipped, statusSkipped, Bool.or_eq_true, List.any_eq_true]
  constructor
  · rintro (⟨t, ht, hc⟩ | ⟨s, hs, hc⟩)
    · simp at hc
      exact ⟨t.role, hc.2, Or.inl ⟨t, ht, rfl, hc.1⟩⟩
    · simp at hc
      exact ⟨s.role, hc.2, Or.inr ⟨s, hs, rfl, hc.1⟩⟩
  · rintro ⟨role, hf, ⟨t, ht, rfl, hl⟩ | ⟨s, hs, rfl, hl⟩⟩
    · exact Or.inl ⟨t, ht, by simp [hf]; omega⟩
    · exact Or.inr ⟨s, hs, by simp [hf]; omega⟩


/-! ### store updates -/

@[simp] theorem tokensOf_setTokens (st : St) (c id : Nat) (ts : List Token) (c' id' : Nat) :
    tokensOf (setTokens st c id ts) c' id' = if c' = c ∧ id' = id then ts else tokensOf st c' id' := by
  unfold tokensOf setTokens
  by_cases h : c' = c ∧ id' = id <;> simp [h]

@[simp] theorem status_setTokens (st : St) (c id : Nat) (ts : List Token) : (setTokens st c id ts).status = st.status := rfl
@[simp] theorem funcs_setTokens (st : St) (c id : Nat) (ts : List Token) : (setTokens st c id ts).funcs = st.funcs := rfl
@[simp] theorem admin_setTokens (st : St) (c id : Nat) (ts : List Token) : (setTokens st c id ts).admin = st.admin := rfl
@[simp] theorem tokensOf_setStatus (st : St) (c id : Nat) (ss : List DStatus) (c' id' : Nat) :
    tokensOf (setStatus st c id ss) c' id' = tokensOf st c' id' := rfl
@[simp] theorem tokensOf_setAdmin (st : St) (c id c' id' : Nat) : tokensOf (setAdmin st c id) c' id' = tokensOf st c' id' := rfl
@[simp] theorem tokensOf_setFuncs (st : St) (c r : Nat) (fs : List Nat) (c' id' : Nat) :
    tokensOf (setFuncs st c r fs) c' id' = tokensOf st c' id' := rfl
@[simp] theorem status_setStatus (st : St) (c id : Nat) (ss : List DStatus) (c' id' : Nat) :
    (setStatus st c id ss).status c' id' = if c' = c ∧ id' = id then ss else st.status c' id' := rfl
@[simp] theorem status_setAdmin (st : St) (c id : Nat) : (setAdmin st c id).status = st.status := rfl
@[simp] theorem status_setFuncs (st : St) (c r : Nat) (fs : List Nat) : (setFuncs st c r fs).status = st.status := rfl

/-! ### getAuthToken -/

/-- what `getAuthToken` returns: a stored permanent token of the role, or a live delegation record of the role -/
theorem getAuthToken_some (st : St) (c id role now : Nat) (t : Token) (h : getAuthToken st c id role now = some t) :
    (t ∈ tokensOf st c id ∧ t.role = role) ∨
    (∃ s ∈ st.status c id, s.role = role ∧ now < s.expire ∧ t = ⟨s.role, s.expire, s.level⟩) := by
  unfold getAuthToken at h
  split at h
  · rename_i t' hf
    simp at h; subst h
    have := List.find?_some hf
    exact Or.inl ⟨List.mem_of_find?_eq_some hf, by simpa using this⟩
  · rename_i hf
    obtain ⟨s, hs, rfl⟩ := Option.map_eq_some_iff.mp h
    have := List.find?_some hs
    simp [delegationLive] at this
    exact Or.inr ⟨s, List.mem_of_find?_eq_some hs, this.1, this.2, rfl⟩

theorem hasRole_false (st : St) (c id role now : Nat) (h : hasRole st c id role now = false) :
    (∀ t ∈ tokensOf st c id, t.role ≠ role) ∧ (∀ s ∈ st.status c id, s.role = role → ¬ now < s.expire) := by
  unfold hasRole getAuthToken at h
  split at h
  · simp at h
  · rename_i hf
    simp at h
    have h1 := List.find?_eq_none.mp hf
    refine ⟨fun t ht => by simpa using h1 t ht, fun s hs hr hl => ?_⟩
    have := h s hs
    simp [delegationLive, hr, hl] at this

theorem hasRole_iff_holds (st : St) (c id role now : Nat) : hasRole st c id role now = true ↔ Holds st c id role now := by
  constructor
  · intro h
    unfold hasRole at h
    obtain ⟨t, ht⟩ := Option.isSome_iff_exists.mp h
    rcases getAuthToken_some st c id role now t ht with ⟨h1, h2⟩ | ⟨s, hs, h1, h2, _⟩
    · exact Or.inl ⟨t, h1, h2⟩
    · exact Or.inr ⟨s, hs, h1, h2⟩
  · intro h
    cases hh : hasRole st c id role now with
    | true => rfl
    | false =>
      obtain ⟨h1, h2⟩ := hasRole_false st c id role now hh
      rcases h with ⟨t, ht, hr⟩ | ⟨s, hs, hr, hl⟩
      · exact absurd hr (h1 t ht)
      · exact absurd hl (h2 s hs hr)

/-- reachable-state invariant -/
structure Inv (st : St) : Prop where
  tokShape : ∀ c id t, t ∈ tokensOf st c id → t.expire = FUTURE ∧ t.level = permanentLevel
  tokUniq : ∀ c id, ((tokensOf st c id).map (·.role)).Nodup
  stShape : ∀ c id s, s ∈ st.status c id → s.level = 1 ∧ s.expire < FUTURE ∧ HoldsDirect st c s.root s.role
  stUniq : ∀ c id, ((st.status c id).map (·.role)).Nodup

theorem inv_empty : Inv {} := ⟨by simp [tokensOf], by simp [tokensOf], by simp, by simp⟩

theorem inv_setAdmin (st : St) (hi : Inv st) (c id : Nat) : Inv (setAdmin st c id) :=
  ⟨hi.tokShape, hi.tokUniq, hi.stShape, hi.stUniq⟩

theorem inv_setFuncs (st : St) (hi : Inv st) (c r : Nat) (fs : List Nat) : Inv (setFuncs st c r fs) :=
  ⟨hi.tokShape, hi.tokUniq, hi.stShape, hi.stUniq⟩

theorem inv_addToken (st : St) (hi : Inv st) (c p role : Nat) (hnew : ∀ t ∈ tokensOf st c p, t.role ≠ role) :
    Inv (setTokens st c p (tokensOf st c p ++ [permanentToken role])) := by
  have mono : ∀ c' id' t, t ∈ tokensOf st c' id' →
      t ∈ tokensOf (setTokens st c p (tokensOf st c p ++ [permanentToken role])) c' id' := by
    intro c' id' t ht
    rw [tokensOf_setTokens]
    split
    · rename_i h; obtain ⟨rfl, rfl⟩ := h; exact List.mem_append_left _ ht
    · exact ht
  constructor
  · intro c' id' t ht
    rw [tokensOf_setTokens] at ht
    split at ht
    · rcases List.mem_append.mp ht with h | h
      · rename_i hc; obtain ⟨rfl, rfl⟩ := hc; exact hi.tokShape _ _ t h
      · simp at h; subst h; exact ⟨rfl, rfl⟩
    · exact hi.tokShape _ _ t ht
  · intro c' id'
    rw [tokensOf_setTokens]
    split
    · rename_i hc; obtain ⟨rfl, rfl⟩ := hc
      rw [List.map_append, List.nodup_append]
      refine ⟨hi.tokUniq _ _, by simp, ?_⟩
      intro a ha b hb
      simp [permanentToken] at hb
      subst hb
      obtain ⟨t, ht, rfl⟩ := List.mem_map.mp ha
      exact hnew t ht
    · exact hi.tokUniq _ _
  · intro c' id' s hs
    obtain ⟨h1, h2, t, ht, hr⟩ := hi.stShape c' id' s hs
    exact ⟨h1, h2, t, mono _ _ t ht, hr⟩
  · exact hi.stUniq

theorem inv_assignLoop (st : St) (hi : Inv st) (c role now : Nat) (ids : List Nat) : Inv (assignLoop st c role now ids) := by
  induction ids generalizing st with
  | nil => exact hi
  | cons p r ih =>
    unfold assignLoop
    split
    · rename_i hn
      have e : tokensOf st c p = [] := by simp [tokensOf, hn]
      have := inv_addToken st hi c p role (by simp [e])
      rw [e] at this
      exact ih _ this
    · rename_i ts hs
      have e : tokensOf st c p = ts := by simp [tokensOf, hs]
      split
      · exact ih _ hi
      · rename_i hh
        have hf : hasRole st c p role now = false := by simpa using hh
        have := inv_addToken st hi c p role (hasRole_false st c p role now hf).1
        rw [e] at this
        exact ih _ this

theorem putDelegation_mem (ss : List DStatus) (d s : DStatus) (h : s ∈ putDelegation ss d) : s = d ∨ s ∈ ss := by
  induction ss with
  | nil => simp [putDelegation] at h; exact Or.inl h
  | cons a r ih =>
    unfold putDelegation at h
    split at h
    · rcases List.mem_cons.mp h with h | h
      · exact Or.inl h
      · exact Or.inr (List.mem_cons_of_mem _ h)
    · rcases List.mem_cons.mp h with h | h
      · exact Or.inr (h ▸ List.mem_cons_self)
      · rcases ih h with h | h
        · exact Or.inl h
        · exact Or.inr (List.mem_cons_of_mem _ h)

theorem nodup_roles_cons (a : DStatus) (r : List DStatus) (h : ((a :: r).map (·.role)).Nodup) :
    (∀ x ∈ r, x.role ≠ a.role) ∧ (r.map (·.role)).Nodup := by
  have h' : a.role ∉ r.map (·.role) ∧ (r.map (·.role)).Nodup := List.nodup_cons.mp h
  exact ⟨fun x hx he => h'.1 (List.mem_map.mpr ⟨x, hx, he⟩), h'.2⟩

theorem putDelegation_nodup (ss : List DStatus) (d : DStatus) (h : (ss.map (·.role)).Nodup) :
    ((putDelegation ss d).map (·.role)).Nodup := by
  induction ss with
  | nil => simp [putDelegation]
  | cons a r ih =>
    have h' := nodup_roles_cons a r h
    unfold putDelegation
    split
    · rename_i he
      show (d.role :: r.map (·.role)).Nodup
      rw [← he]; exact h
    · rename_i hne
      show (a.role :: (putDelegation r d).map (·.role)).Nodup
      refine List.nodup_cons.mpr ⟨?_, ih h'.2⟩
      intro hm
      obtain ⟨s, hs, hr⟩ := List.mem_map.mp hm
      rcases putDelegation_mem r d s hs with rfl | hs
      · exact hne hr.symm
      · exact h'.1 s hs hr

theorem removeDelegation_some_mem (ss ss' : List DStatus) (role root : Nat) (h : removeDelegation ss role root = some ss') :
    ∃ x ∈ ss, x.role = role ∧ x.root = root := by
  induction ss generalizing ss' with
  | nil => simp [removeDelegation] at h
  | cons a r ih =>
    unfold removeDelegation at h
    split at h
    · rename_i hc; exact ⟨a, by simp, hc⟩
    · obtain ⟨r', hr', _⟩ := Option.map_eq_some_iff.mp h
      obtain ⟨x, hx, hxr⟩ := ih r' hr'
      exact ⟨x, List.mem_cons_of_mem _ hx, hxr⟩

theorem removeDelegation_sublist (ss ss' : List DStatus) (role root : Nat) (h : removeDelegation ss role root = some ss') :
    ss'.Sublist ss ∧ ((ss.map (·.role)).Nodup → ∀ s ∈ ss', s.role ≠ role) := by
  induction ss generalizing ss' with
  | nil => simp [removeDelegation] at h
  | cons a r ih =>
    unfold removeDelegation at h
    split at h
    · rename_i hc
      simp at h; subst h
      refine ⟨List.sublist_cons_self _ _, ?_⟩
      intro hn s hs hr
      exact (nodup_roles_cons a _ hn).1 s hs (by rw [hr, hc.1])
    · rename_i hc
      obtain ⟨r', hr', rfl⟩ := Option.map_eq_some_iff.mp h
      obtain ⟨h1, h2⟩ := ih r' hr'
      refine ⟨h1.cons_cons _, ?_⟩
      intro hn s hs
      have hn' := nodup_roles_cons a r hn
      rcases List.mem_cons.mp hs with rfl | hs
      · intro hr
        obtain ⟨x, hx, hxr, _⟩ := removeDelegation_some_mem r r' role root hr'
        exact hn'.1 x hx (by rw [hxr, hr])
      · exact h2 hn'.2 s hs

theorem inv_setStatus (st : St) (hi : Inv st) (c id : Nat) (ss : List DStatus)
    (hs : ∀ s ∈ ss, s.level = 1 ∧ s.expire < FUTURE ∧ HoldsDirect st c s.root s.role)
    (hn : (ss.map (·.role)).Nodup) : Inv (setStatus st c id ss) := by
  constructor
  · exact hi.tokShape
  · exact hi.tokUniq
  · intro c' id' s hs'
    rw [status_setStatus] at hs'
    split at hs'
    · rename_i hc; obtain ⟨rfl, rfl⟩ := hc; exact hs s hs'
    · exact hi.stShape c' id' s hs'
  · intro c' id'
    rw [status_setStatus]
    split
    · exact hn
    · exact hi.stUniq c' id'

/-- a token of level 2 returned by `getAuthToken` in a state satisfying the invariant is a stored permanent token -/
theorem level2_direct (st : St) (hi : Inv st) (c id role now : Nat) (t : Token)
    (h : getAuthToken st c id role now = some t) (hl : t.level = 2) :
    t ∈ tokensOf st c id ∧ t.role = role ∧ t.expire = FUTURE := by
  rcases getAuthToken_some st c id role now t h with ⟨h1, h2⟩ | ⟨s, hs, _, _, rfl⟩
  · exact ⟨h1, h2, (hi.tokShape c id t h1).1⟩
  · have := (hi.stShape c id s hs).1
    simp at hl; omega

theorem inv_delegate (V : Nat → Bool) (st : St) (hi : Inv st) (c frm to role period level : Nat) (sig : Sig) (now : Nat) :
    Inv (delegate V st c frm to role period level sig now).2 := by
  unfold delegate
  split
  · exact hi
  · split
    · exact hi
    · cases sig with
      | err => exact hi
      | bad => exact hi
      | ok =>
        simp only
        split
        · exact hi
        · split
          · exact hi
          · rename_i ft hft
            split
            · exact hi
            · split
              · rename_i hg
                simp only [Bool.and_eq_true, delegateOuter, delegateInner, decide_eq_true_eq] at hg
                obtain ⟨h2, ⟨hlt, hpos⟩, hexp⟩ := hg
                obtain ⟨hm, hr, he⟩ := level2_direct st hi c frm role now ft hft h2
                apply inv_setStatus st hi
                · intro s hs
                  rcases putDelegation_mem _ _ s hs with rfl | hs
                  · exact ⟨by simp; omega, by simp; omega, ft, hm, hr⟩
                  · exact hi.stShape c to s hs
                · exact putDelegation_nodup _ _ (hi.stUniq c to)
              · exact hi

theorem inv_withdraw (st : St) (hi : Inv st) (c ini dlg role : Nat) (sig : Sig) (now : Nat) :
    Inv (withdraw st c ini dlg role sig now).2 := by
  unfold withdraw
  cases sig with
  | err => exact hi
  | bad => exact hi
  | ok =>
    simp only
    split
    · exact hi
    · split
      · exact hi
      · rename_i ss hrm
        obtain ⟨hsub, _⟩ := removeDelegation_sublist _ ss role ini hrm
        apply inv_setStatus st hi
        · intro s hs; exact hi.stShape c dlg s (hsub.subset hs)
        · exact (hi.stUniq c dlg).sublist (hsub.map _)

theorem inv_step (V : Nat → Bool) (v : Variant) (st : St) (hi : Inv st) (now : Nat) (op : Op) :
    Inv (step V v st now op).2 := by
  cases op with
  | init c id =>
    simp only [step, initAdmin]
    split
    · exact hi
    · split
      · exact hi
      · exact inv_setAdmin st hi c id
  | transfer c a sig =>
    simp only [step, transfer]
    split
    · exact hi
    · split
      · exact hi
      · cases sig <;> first | exact hi | exact inv_setAdmin st hi c a
  | assignFuncs c a r fns sig =>
    simp only [step, assignFuncs]
    split
    · exact hi
    · split
      · exact hi
      · split
        · exact hi
        · cases sig <;> first | exact hi | exact inv_setFuncs st hi _ _ _
  | assignIds c a r ids sig =>
    simp only [step, assignIds]
    split
    · exact hi
    · split
      · exact hi
      · split
        · exact hi
        · split
          · exact hi
          · cases sig <;> first | exact hi | exact inv_assignLoop st hi _ _ _ _
  | delegate c f t r p l sig => exact inv_delegate V st hi c f t r p l sig now
  | withdraw c i d r sig => exact inv_withdraw st hi c i d r sig now
  | verify c caller fn sig => exact hi

theorem inv_run (V : Nat → Bool) (v : Variant) (st : St) (hi : Inv st) (ops : List (Nat × Op)) : Inv (run V v st ops) := by
  induction ops generalizing st with
  | nil => exact hi
  | cons a r ih => obtain ⟨now, op⟩ := a; exact ih _ (inv_step V v st hi now op)

end OntVerif.Proofs.Auth
