import OntVerif.Model.ExecBlock
/-!
# Lemmas about `Model/ExecBlock.lean` (C02)

* congruence of the transaction loop / `executeBlock` / `applyBlock` / `applyChain` in the signer function: only the
  membership predicate of every transaction's signer list is ever consulted;
* the gas-table lookup does not depend on the order in which `GAS_TABLE.Range` enumerates the table;
* `refreshGlobalParam` makes the table a function of the state once every key has a value in the state.
-/
namespace OntVerif.Proofs.ExecBlock
open OntVerif.Util OntVerif.Model.KV OntVerif.Model.ExecBlock

theorem witness_congr {l₁ l₂ : List Addr} (h : ∀ a, a ∈ l₁ ↔ a ∈ l₂) : witness l₁ = witness l₂ := by
  funext a
  simp only [witness]
  exact decide_eq_decide.mpr (h a)

theorem witness_iff {l₁ l₂ : List Addr} (h : witness l₁ = witness l₂) : ∀ a, a ∈ l₁ ↔ a ∈ l₂ := by
  intro a
  have := congrFun h a
  simp only [witness] at this
  exact decide_eq_decide.mp this

variable {Tx Tree : Type}

theorem txLoop_congr (env : Env Tx Tree) (gas : GasLookup) (ctx : BlockCtx) (s₁ s₂ : Tx → List Addr) (evmW : Bytes)
    (txs : List Tx) (h : ∀ tx ∈ txs, witness (s₁ tx) = witness (s₂ tx)) (i : Nat) (c : Cache) (acc : Acc) :
    txLoop env gas ctx s₁ evmW txs i c acc = txLoop env gas ctx s₂ evmW txs i c acc := by
  induction txs generalizing i c acc with
  | nil => rfl
  | cons tx rest ih =>
    simp only [txLoop]
    rw [h tx (by simp)]
    cases env.handle gas ctx (witness (s₂ tx)) tx i evmW c.reset with
    | none => rfl
    | some out => exact ih (fun t ht => h t (by simp [ht])) _ _ _

theorem executeBlock_congr (env : Env Tx Tree) (node : Node Tree) (perm : List (String × Nat) → List (String × Nat))
    (s₁ s₂ : Tx → List Addr) (b : Block Tx) (h : ∀ tx ∈ b.txs, witness (s₁ tx) = witness (s₂ tx)) :
    executeBlock env node perm s₁ b = executeBlock env node perm s₂ b := by
  simp only [executeBlock]
  rw [txLoop_congr env _ b.ctx s₁ s₂ _ b.txs h]

theorem applyBlock_congr (env : Env Tx Tree) (node : Node Tree) (perm : List (String × Nat) → List (String × Nat))
    (s₁ s₂ : Tx → List Addr) (b : Block Tx) (h : ∀ tx ∈ b.txs, witness (s₁ tx) = witness (s₂ tx)) :
    applyBlock env node perm s₁ b = applyBlock env node perm s₂ b := by
  simp only [applyBlock, executeBlock_congr env node perm s₁ s₂ b h]

theorem applyChain_congr (env : Env Tx Tree) (perm : List (String × Nat) → List (String × Nat))
    (s₁ s₂ : Tx → List Addr) (blocks : List (Block Tx))
    (h : ∀ b ∈ blocks, ∀ tx ∈ b.txs, witness (s₁ tx) = witness (s₂ tx)) (node : Node Tree) :
    applyChain env perm s₁ node blocks = applyChain env perm s₂ node blocks := by
  induction blocks generalizing node with
  | nil => rfl
  | cons b rest ih =>
    simp only [applyChain]
    rw [applyBlock_congr env node perm s₁ s₂ b (h b (by simp))]
    cases applyBlock env node perm s₂ b with
    | none => rfl
    | some r =>
      obtain ⟨r, node'⟩ := r
      simp only
      rw [ih (fun b' hb' => h b' (by simp [hb'])) node']

/-! ## gas table -/

theorem find_unique (l : List (String × Nat)) (hn : (l.map (·.1)).Nodup) (e : String × Nat) (he : e ∈ l) :
    l.find? (fun x => x.1 == e.1) = some e := by
  induction l with
  | nil => simp at he
  | cons x r ih =>
    simp only [List.map_cons, List.nodup_cons] at hn
    rcases List.mem_cons.mp he with rfl | her
    · simp
    · have hne : x.1 ≠ e.1 := by
        intro heq
        exact hn.1 (heq ▸ List.mem_map.mpr ⟨e, her, rfl⟩)
      simp only [List.find?_cons]
      have : (x.1 == e.1) = false := by simpa using hne
      rw [this]
      exact ih hn.2 her

/-- `gasTable[name]` does not depend on the order in which the table was copied into the Go map -/
theorem gasLookup_perm (l l' : List (String × Nat)) (hp : l.Perm l') (hn : (l.map (·.1)).Nodup) :
    gasLookup l = gasLookup l' := by
  funext k
  simp only [gasLookup]
  have hn' : (l'.map (·.1)).Nodup := (hp.map (·.1)).nodup_iff.mp hn
  cases hf : l.find? (fun e => e.1 == k) with
  | some e =>
    have hmem := List.mem_of_find?_eq_some hf
    have hk : (e.1 == k) = true := List.find?_some (p := fun (e : String × Nat) => e.1 == k) hf
    have hk' : e.1 = k := by simpa using hk
    have := find_unique l' hn' e (hp.mem_iff.mp hmem)
    rw [hk'] at this
    rw [this]
  | none =>
    have hall := List.find?_eq_none.mp hf
    have : l'.find? (fun e => e.1 == k) = none :=
      List.find?_eq_none.mpr (fun x hx => hall x (hp.mem_iff.mpr hx))
    rw [this]

/-- once every key of the table has a (non-empty) value in the state, the refreshed table is determined by the key list and
the state: what the process held before does not matter -/
theorem refresh_state_only (G G' : List (String × Nat)) (ps : String → Option Nat) (hk : G.map (·.1) = G'.map (·.1))
    (hall : ∀ e ∈ G, ps e.1 ≠ none) : refresh G ps = refresh G' ps := by
  induction G generalizing G' with
  | nil =>
    cases G' with
    | nil => rfl
    | cons _ _ => simp at hk
  | cons e r ih =>
    cases G' with
    | nil => simp at hk
    | cons e' r' =>
      simp only [List.map_cons, List.cons.injEq] at hk
      have h1 : ps e.1 ≠ none := hall e (by simp)
      simp only [refresh, List.map_cons, List.cons.injEq]
      refine ⟨?_, ih r' hk.2 (fun x hx => hall x (by simp [hx]))⟩
      cases hp : ps e.1 with
      | none => exact absurd hp h1
      | some v => rw [← hk.1, hp]; simp [hk.1]

end OntVerif.Proofs.ExecBlock
