import OntVerif.Model.Tx
import OntVerif.Proofs.Codec
/-! Helper lemmas for C19: a small program logic for the readers of `Model/Tx.lean` (`SpecAt`), the byte segment
between two cursor positions (`seg`), specifications of every field reader and of the transaction parsers. Core-only. -/
namespace OntVerif.Proofs.Tx
open OntVerif.Util OntVerif.Model.Codec OntVerif.Model.Tx OntVerif.Proofs.Codec

/-- the bytes between two cursor positions -/
def seg (s s' : Src) : Bytes := (s.bs.drop s.off).take (s'.off - s.off)

theorem seg_self (s : Src) : seg s s = [] := by simp [seg]

theorem seg_trans {a b c : Src} (h1 : Adv a b) (h2 : Adv b c) : seg a c = seg a b ++ seg b c := by
  obtain ⟨e1, l1, _⟩ := h1
  obtain ⟨e2, l2, _⟩ := h2
  unfold seg
  rw [e1] at e2
  rw [e1]
  have : c.off - a.off = (b.off - a.off) + (c.off - b.off) := by omega
  rw [this, List.take_add]
  congr 1
  rw [List.drop_drop]
  congr 2
  omega

theorem seg_length {a b : Src} (h : Adv a b) : (seg a b).length = b.off - a.off := by
  obtain ⟨e1, l1, l2⟩ := h
  unfold seg
  rw [e1] at l2
  simp
  omega

/-- postcondition of a reader started at `s`: no panic; on success the cursor advanced within the same buffer and `R` holds -/
@[irreducible] def SpecAt {α : Type} (p : P α) (s : Src) (R : α → Src → Prop) : Prop :=
  match p s with
  | .ok a s' => Adv s s' ∧ R a s'
  | .err _ => True
  | .panic => False

theorem bind_eval {α β : Type} (p : P α) (f : α → P β) (s : Src) :
    (p >>= f) s = match p s with | .ok a s1 => f a s1 | .err e => .err e | .panic => .panic := rfl

theorem pure_eval {α : Type} (a : α) (s : Src) : (pure a : P α) s = .ok a s := rfl

theorem spec_bind {α β : Type} {p : P α} {f : α → P β} {s : Src} {R1 : α → Src → Prop} {R : β → Src → Prop}
    (h1 : SpecAt p s R1) (h2 : ∀ a s1, Adv s s1 → R1 a s1 → SpecAt (f a) s1 (fun b s' => Adv s s' → R b s')) :
    SpecAt (p >>= f) s R := by
  unfold SpecAt at h1 ⊢
  rw [bind_eval]
  cases hp : p s with
  | ok a s1 =>
    rw [hp] at h1
    simp only
    have h3 := h2 a s1 h1.1 h1.2
    unfold SpecAt at h3
    cases hf : f a s1 with
    | ok b s' =>
      rw [hf] at h3
      simp only at h3 ⊢
      have := h1.1.trans h3.1
      exact ⟨this, h3.2 this⟩
    | err e => trivial
    | panic => rw [hf] at h3; exact h3
  | err e => trivial
  | panic => rw [hp] at h1; exact h1

theorem spec_pure {α : Type} {a : α} {s : Src} {R : α → Src → Prop} (w : s.wf) (h : R a s) :
    SpecAt (pure a : P α) s R := by
  unfold SpecAt
  rw [pure_eval]
  exact ⟨Adv.refl w, h⟩

theorem spec_fail {α : Type} {e : Err} {s : Src} {R : α → Src → Prop} : SpecAt (fail e : P α) s R := by
  unfold SpecAt fail
  trivial

theorem spec_fail_bind {α β : Type} {e : Err} {f : α → P β} {s : Src} {R : β → Src → Prop} :
    SpecAt ((fail e : P α) >>= f) s R := by
  unfold SpecAt
  rw [bind_eval]
  unfold fail
  trivial

theorem spec_mono {α : Type} {p : P α} {s : Src} {R R' : α → Src → Prop}
    (h : SpecAt p s R) (hi : ∀ a s', Adv s s' → R a s' → R' a s') : SpecAt p s R' := by
  unfold SpecAt at h ⊢
  cases hp : p s with
  | ok a s' => rw [hp] at h; exact ⟨h.1, hi a s' h.1 h.2⟩
  | err e => trivial
  | panic => rw [hp] at h; exact h


/-! ### primitive readers -/

theorem nextBytes_ok (s : Src) (n : Nat) (w : s.wf) (h : s.off + n ≤ s.bs.length) :
    nextBytes s n = some (((s.bs.drop s.off).take n, false), ⟨s.bs, s.off + n⟩) := by
  obtain ⟨w1, w2⟩ := w
  unfold nextBytes safeAdd goSlice
  simp only
  have hsum : s.off + n < two64 := by omega
  have hov : ¬ (n > two64 - 1 - s.off) := by unfold two64 at *; omega
  rw [Nat.mod_eq_of_lt hsum]
  have hgt : ¬ (s.off + n > s.bs.length) := by omega
  have hb : (decide (n > two64 - 1 - s.off) || decide (s.off + n > s.bs.length)) = false := by simp [hov, hgt]
  rw [hb]
  have h1 : s.off ≤ s.off + n ∧ s.off + n ≤ s.bs.length := ⟨by omega, h⟩
  simp only [Bool.false_eq_true, if_false, h1, and_self, if_true]
  simp

theorem nextBytes_eof (s : Src) (n : Nat) (w : s.wf) (hn : n < two64) (h : s.off + n > s.bs.length) :
    nextBytes s n = some (((s.bs.drop s.off), true), ⟨s.bs, s.bs.length⟩) := by
  obtain ⟨w1, w2⟩ := w
  unfold nextBytes safeAdd goSlice
  simp only
  have hb : (decide (n > two64 - 1 - s.off) || decide ((s.off + n) % two64 > s.bs.length)) = true := by
    by_cases hov : n > two64 - 1 - s.off
    · simp [hov]
    · have hsum : s.off + n < two64 := by unfold two64 at *; omega
      rw [Nat.mod_eq_of_lt hsum]
      simp [h]
  rw [hb]
  simp only [if_true, w1, Nat.le_refl, and_self]
  have : s.bs.length - s.off = (s.bs.drop s.off).length := by simp
  rw [this, List.take_length]

theorem rByte_spec (s : Src) (w : s.wf) : SpecAt rByte s (fun b s' => seg s s' = [b] ∧ True) := by
  unfold SpecAt rByte nextByte
  cases h : s.bs[s.off]? with
  | none => simp
  | some b =>
    simp only [Bool.false_eq_true, if_false]
    have hlt := (List.getElem?_eq_some_iff.mp h).1
    refine ⟨⟨rfl, by simp, by simp; omega⟩, ?_⟩
    unfold seg
    simp only [Nat.add_sub_cancel_left]
    rw [List.drop_eq_getElem_cons hlt]
    have := (List.getElem?_eq_some_iff.mp h).2
    rw [this]
    simp

theorem rUintN_spec (k : Nat) (hk : k < two64) (s : Src) (w : s.wf) :
    SpecAt (rUintN k) s (fun v s' => seg s s' = leN k v ∧ v < 256 ^ k) := by
  unfold SpecAt rUintN nextUintN
  by_cases h : s.off + k ≤ s.bs.length
  · rw [nextBytes_ok s k w h]
    simp only [Bool.false_eq_true, if_false]
    refine ⟨⟨rfl, by simp, by simpa using h⟩, ?_⟩
    unfold seg
    simp only [Nat.add_sub_cancel_left]
    have hl : ((s.bs.drop s.off).take k).length = k := by simp; omega
    have := leN_fromLE ((s.bs.drop s.off).take k)
    rw [hl] at this
    refine ⟨this.symm, ?_⟩
    have h2 := fromLE_lt ((s.bs.drop s.off).take k)
    rw [hl] at h2
    exact h2
  · rw [nextBytes_eof s k w hk (by omega)]
    simp

theorem rBytesN_spec (n : Nat) (hn : n < two64) (s : Src) (w : s.wf) :
    SpecAt (rBytesN n) s (fun d s' => seg s s' = d ∧ d.length = n) := by
  unfold SpecAt rBytesN
  by_cases h : s.off + n ≤ s.bs.length
  · rw [nextBytes_ok s n w h]
    simp only [Bool.false_eq_true, if_false]
    refine ⟨⟨rfl, by simp, by simpa using h⟩, ?_⟩
    unfold seg
    simp only [Nat.add_sub_cancel_left, true_and]
    simp; omega
  · rw [nextBytes_eof s n w hn (by omega)]
    simp


theorem nextVarUint_off (s : Src) (w : s.wf) (r : VarRes) (s' : Src)
    (h : nextVarUint s = some (r, s')) (he : r.eof = false) : s'.off = s.off + r.size := by
  obtain ⟨pre, fb, tail, hs, hcase⟩ := nextVarUint_shape s w r s' h he
  subst hs
  rcases hcase with ⟨hk, hr⟩ | ⟨hk, d, rest, ht, hd, hr⟩
  · rw [nextVarUint_plain _ _ _ hk] at h
    injection h with h; injection h with h1 h2
    subst h2; subst hr; rfl
  · subst ht
    have e : pre ++ fb :: (d ++ rest) = pre ++ fb :: d ++ rest := by simp
    have hl : (pre ++ fb :: d ++ rest).length < two64 := by rw [← e]; exact w.2
    rw [e, nextVarUint_wide _ _ _ _ hk hd hl] at h
    injection h with h; injection h with h1 h2
    subst h2; subst hr
    simp only
    omega

theorem rVarUint_spec (ef : Bool) (s : Src) (w : s.wf) :
    SpecAt (rVarUint ef) s (fun v s' => seg s s' = writeVarUint v ∧ v < two64) := by
  obtain ⟨r, s', h, adv, hv⟩ := nextVarUint_total s w
  unfold SpecAt rVarUint
  rw [h]
  simp only
  have key : r.eof = false → r.irregular = false → Adv s s' ∧ seg s s' = writeVarUint r.val ∧ r.val < two64 := by
    intro he hi
    refine ⟨adv, ?_, hv⟩
    have hc := (varuint_canonical s w r s' h he).mp hi
    have ho := nextVarUint_off s w r s' h he
    unfold seg
    rw [ho, Nat.add_sub_cancel_left]
    exact hc
  cases ef <;> cases he : r.eof <;> cases hi : r.irregular <;> simp <;> exact key he hi


theorem rVarBytes_spec (ef : Bool) (s : Src) (w : s.wf) :
    SpecAt (rVarBytes ef) s (fun d s' => seg s s' = writeVarBytes d ∧ True) := by
  obtain ⟨r, s1, h, adv, hv⟩ := nextVarUint_total s w
  unfold SpecAt rVarBytes nextVarBytes
  rw [h]
  simp only
  have key : r.eof = false → r.irregular = false → seg s s1 = writeVarUint r.val := by
    intro he hi
    have hc := (varuint_canonical s w r s1 h he).mp hi
    have ho := nextVarUint_off s w r s1 h he
    unfold seg
    rw [ho, Nat.add_sub_cancel_left]
    exact hc
  by_cases hpos : r.val > 0
  · simp only [hpos, if_true]
    have w1 := adv.wf w
    by_cases hfit : s1.off + r.val ≤ s1.bs.length
    · rw [nextBytes_ok s1 r.val w1 hfit]
      simp only
      have adv2 : Adv s1 ⟨s1.bs, s1.off + r.val⟩ := ⟨rfl, by simp, by simpa using hfit⟩
      have hseg2 : seg s1 ⟨s1.bs, s1.off + r.val⟩ = (s1.bs.drop s1.off).take r.val := by
        unfold seg; simp
      have hlen : ((s1.bs.drop s1.off).take r.val).length = r.val := by simp; omega
      -- a positive value cannot come with eof
      have he : r.eof = false := by
        cases hre : r.eof with
        | false => rfl
        | true =>
          exfalso
          unfold nextVarUint at h
          revert h
          generalize nextByte s = nb
          obtain ⟨⟨fb, e0⟩, sx⟩ := nb
          simp only
          cases e0
          · simp only [Bool.false_eq_true, if_false]
            split
            · intro h; injection h with h; injection h with h1 _; subst h1; simp at hre
            · split
              · intro h; cases h
              · rename_i v e s2 _
                cases e
                · simp only [Bool.false_eq_true, if_false]
                  intro h; injection h with h; injection h with h1 _; subst h1; simp at hre
                · simp only [if_true]
                  intro h; injection h with h; injection h with h1 _; subst h1; simp at hpos
          · simp only [if_true]
            intro h; injection h with h; injection h with h1 _; subst h1; simp at hpos
      cases hi : r.irregular
      · have hk := key he hi
        have : seg s ⟨s1.bs, s1.off + r.val⟩ = writeVarBytes ((s1.bs.drop s1.off).take r.val) := by
          rw [seg_trans adv adv2, hk, hseg2]
          unfold writeVarBytes
          rw [hlen]
        cases ef <;> simp <;> exact ⟨adv.trans adv2, this⟩
      · cases ef <;> simp
    · have hvv : r.val < two64 := hv
      rw [nextBytes_eof s1 r.val w1 hvv (by omega)]
      cases ef <;> cases r.irregular <;> simp
  · simp only [hpos, if_false]
    have hz : r.val = 0 := by omega
    cases he : r.eof <;> cases hi : r.irregular <;> cases ef <;> simp
    all_goals
      refine ⟨adv, ?_⟩
      rw [key he hi, hz]
      rfl


theorem spec_bind' {α β : Type} {p : P α} {f : α → P β} {s : Src} {R1 : α → Src → Prop} {R : β → Src → Prop}
    (h1 : SpecAt p s R1) (h2 : ∀ a s1, Adv s s1 → R1 a s1 → SpecAt (f a) s1 R) : SpecAt (p >>= f) s R :=
  spec_bind h1 (fun a s1 adv r => spec_mono (h2 a s1 adv r) (fun _ _ _ h _ => h))

/-- one field of a straight-line decoder: `pre` has been consumed since `s0`, the reader `p` consumes `w1 a` more -/
theorem enc_step {α β : Type} {p : P α} {f : α → P β} {s0 s : Src} {pre : Bytes} {w1 : α → Bytes} {φ : α → Prop}
    {R : β → Src → Prop} (adv0 : Adv s0 s) (acc : seg s0 s = pre)
    (h1 : SpecAt p s (fun a s1 => seg s s1 = w1 a ∧ φ a))
    (h2 : ∀ a s1, φ a → Adv s0 s1 → seg s0 s1 = pre ++ w1 a → SpecAt (f a) s1 R) :
    SpecAt (p >>= f) s R := by
  apply spec_bind' h1
  intro a s1 adv ⟨hseg, hphi⟩
  apply h2 a s1 hphi (adv0.trans adv)
  rw [seg_trans adv0 adv, acc, hseg]

theorem rVarBytes_spec2 (ef : Bool) (s : Src) (w : s.wf) :
    SpecAt (rVarBytes ef) s (fun d s' => seg s s' = writeVarBytes d ∧ d.length < two64) :=
  spec_mono (rVarBytes_spec ef s w) (fun d s' adv h => ⟨h.1, by
    have h1 := seg_length adv
    rw [h.1] at h1
    unfold writeVarBytes at h1
    simp at h1
    have h2 := adv.2.2
    rw [adv.1] at h2
    have h3 := w.2
    omega⟩)

/-- every byte-string field of a decoded payload is shorter than 2^64 -/
def PlWf : Payload → Prop
  | .invoke c => c.length < two64
  | .deploy c _ a b d e f => c.length < two64 ∧ a.length < two64 ∧ b.length < two64 ∧ d.length < two64 ∧
      e.length < two64 ∧ f.length < two64
  | .eip _ => False

theorem parseInvoke_spec (s : Src) (w : s.wf) :
    SpecAt parseInvoke s (fun pl s' => seg s s' = serPayload pl ∧ ((∃ c, pl = .invoke c) ∧ PlWf pl)) := by
  unfold parseInvoke
  apply enc_step (Adv.refl w) (seg_self s) (rVarBytes_spec2 true s w)
  intro code s1 hc adv1 acc1
  apply spec_pure (adv1.wf w)
  exact ⟨by rw [acc1]; rfl, ⟨code, rfl⟩, hc⟩

theorem parseDeploy_spec (s : Src) (w : s.wf) :
    SpecAt parseDeploy s (fun pl s' => seg s s' = serPayload pl ∧
      ((∃ c v a b d e f, pl = .deploy c v a b d e f) ∧ PlWf pl ∧ wfPayload 0xd0 pl = true)) := by
  unfold parseDeploy
  apply enc_step (Adv.refl w) (seg_self s) (rVarBytes_spec2 true s w)
  intro code s1 h1 adv1 acc1
  apply enc_step adv1 acc1 (rByte_spec s1 (adv1.wf w))
  intro vm s2 _ adv2 acc2
  apply enc_step adv2 acc2 (rVarBytes_spec2 true s2 (adv2.wf w))
  intro name s3 h3 adv3 acc3
  apply enc_step adv3 acc3 (rVarBytes_spec2 true s3 (adv3.wf w))
  intro ver s4 h4 adv4 acc4
  apply enc_step adv4 acc4 (rVarBytes_spec2 true s4 (adv4.wf w))
  intro author s5 h5 adv5 acc5
  apply enc_step adv5 acc5 (rVarBytes_spec2 true s5 (adv5.wf w))
  intro email s6 h6 adv6 acc6
  apply enc_step adv6 acc6 (rVarBytes_spec2 false s6 (adv6.wf w))
  intro desc s7 h7 adv7 acc7
  split
  · rename_i hval
    apply spec_pure (adv7.wf w)
    refine ⟨?_, ⟨_, _, _, _, _, _, _, rfl⟩, ⟨h1, h3, h4, h5, h6, h7⟩, by simp [wfPayload, hval]⟩
    rw [acc7]
    simp [serPayload]
  · exact spec_fail

/-- which payload goes with which transaction type -/
def PlKind (ty : UInt8) (pl : Payload) : Prop :=
  ((ty = 0xd1 ∨ ty = 0xd2) ∧ ∃ c, pl = .invoke c) ∨ (ty = 0xd0 ∧ ∃ c v a b d e f, pl = .deploy c v a b d e f)

/-- what `deserializeOntUnsigned` guarantees about the fields it returns -/
def WfU (u : TxU) : Prop :=
  u.version = 0 ∧ u.txType ≠ 0xd3 ∧ u.nonce < 256 ^ 4 ∧ u.gasPrice < 256 ^ 8 ∧ u.gasLimit < 256 ^ 8 ∧
  u.payer.length = 20 ∧ PlKind u.txType u.payload ∧ PlWf u.payload ∧ wfPayload u.txType u.payload = true

theorem WfU.not_eip {u : TxU} (h : WfU u) (e : EipTx) : u.payload ≠ .eip e := by
  intro he
  rcases h.2.2.2.2.2.2.1 with ⟨_, c, hc⟩ | ⟨_, c, v, a, b, d, e', f, hc⟩ <;> rw [hc] at he <;> cases he

theorem parseOntUnsigned_spec (s : Src) (w : s.wf) :
    SpecAt parseOntUnsigned s (fun u s' => seg s s' = serUnsigned u ∧ WfU u) := by
  unfold parseOntUnsigned
  apply enc_step (Adv.refl w) (seg_self s) (rByte_spec s w)
  intro ver s1 _ adv1 acc1
  try dsimp only
  split
  · exact spec_fail_bind
  rename_i hver
  apply enc_step adv1 acc1 (rByte_spec s1 (adv1.wf w))
  intro ty s2 _ adv2 acc2
  try dsimp only
  split
  · exact spec_fail_bind
  rename_i hty
  apply enc_step adv2 acc2 (rUintN_spec 4 (by unfold two64; omega) s2 (adv2.wf w))
  intro nonce s3 hnonce adv3 acc3
  apply enc_step adv3 acc3 (rUintN_spec 8 (by unfold two64; omega) s3 (adv3.wf w))
  intro gp s4 hgp adv4 acc4
  apply enc_step adv4 acc4 (rUintN_spec 8 (by unfold two64; omega) s4 (adv4.wf w))
  intro gl s5 hgl adv5 acc5
  apply enc_step adv5 acc5 (rBytesN_spec 20 (by unfold two64; omega) s5 (adv5.wf w))
  intro payer s6 hpayer adv6 acc6
  have hpl : SpecAt (if (ty == 0xd1 || ty == 0xd2) = true then parseInvoke
            else if (ty == 0xd0) = true then parseDeploy else fail .invalid) s6
            (fun pl s' => seg s6 s' = serPayload pl ∧ (PlKind ty pl ∧ PlWf pl ∧ wfPayload ty pl = true)) := by
    split
    · rename_i hk
      have hk' : ty = 0xd1 ∨ ty = 0xd2 := by simpa using hk
      exact spec_mono (parseInvoke_spec s6 (adv6.wf w)) (fun pl _ _ h => ⟨h.1, Or.inl ⟨hk', h.2.1⟩, h.2.2, by
        obtain ⟨c, hc⟩ := h.2.1; subst hc; simpa [wfPayload] using hk⟩)
    · split
      · rename_i _ hk
        have hk' : ty = 0xd0 := by simpa using hk
        exact spec_mono (parseDeploy_spec s6 (adv6.wf w)) (fun pl _ _ h => ⟨h.1, Or.inr ⟨hk', h.2.1⟩, h.2.2.1, by rw [hk']; exact h.2.2.2⟩)
      · exact spec_fail
  apply enc_step adv6 acc6 hpl
  intro pl s7 hkind adv7 acc7
  apply enc_step adv7 acc7 (rVarUint_spec false s7 (adv7.wf w))
  intro attr s8 _ adv8 acc8
  try dsimp only
  split
  · exact spec_fail_bind
  · rename_i hattr
    apply spec_pure (adv8.wf w)
    have : attr = 0 := by simpa using hattr
    subst this
    refine ⟨?_, by simpa using hver, by simpa using hty, hnonce, hgp, hgl, hpayer, hkind.1, hkind.2.1, hkind.2.2⟩
    rw [acc8]
    simp [serUnsigned, writeUintN]

theorem parseRawSig_spec (s : Src) (w : s.wf) :
    SpecAt parseRawSig s (fun sg s' => seg s s' = serSig sg ∧ True) := by
  unfold parseRawSig
  apply enc_step (Adv.refl w) (seg_self s) (rVarBytes_spec true s w)
  intro i s1 _ adv1 acc1
  apply enc_step adv1 acc1 (rVarBytes_spec true s1 (adv1.wf w))
  intro v s2 _ adv2 acc2
  apply spec_pure (adv2.wf w)
  refine ⟨?_, trivial⟩
  rw [acc2]
  simp [serSig]

theorem repeatP_spec {α : Type} (p : P α) (wr : α → Bytes)
    (hp : ∀ s, s.wf → SpecAt p s (fun a s' => seg s s' = wr a ∧ True)) (n : Nat) (s : Src) (w : s.wf) :
    SpecAt (repeatP n p) s (fun l s' => seg s s' = (l.map wr).flatten ∧ l.length = n) := by
  induction n generalizing s with
  | zero =>
    unfold repeatP
    apply spec_pure w
    simp [seg_self]
  | succ n ih =>
    unfold repeatP
    apply enc_step (Adv.refl w) (seg_self s) (hp s w)
    intro a s1 _ adv1 acc1
    apply spec_bind' (ih s1 (adv1.wf w))
    intro r s2 adv2 ⟨hr, hl⟩
    apply spec_pure ((adv1.trans adv2).wf w)
    refine ⟨?_, by simp [hl]⟩
    rw [seg_trans adv1 adv2, acc1, hr]
    simp

theorem sub64_of_le {a b : Nat} (h : b ≤ a) (ha : a < two64) : sub64 a b = a - b := by
  unfold sub64
  have : a + two64 - b = (a - b) + two64 := by omega
  rw [this, Nat.add_mod_right, Nat.mod_eq_of_lt (by omega)]

theorem captured_eval (start : Nat) (s : Src) (w : s.wf) (h : start ≤ s.off) :
    captured start s = .ok ((s.bs.drop start).take (s.off - start)) s := by
  obtain ⟨w1, w2⟩ := w
  have hoff : s.off < two64 := by omega
  have hb : backUp s (s.off - start) = ⟨s.bs, start⟩ := by
    unfold backUp
    rw [sub64_of_le (by omega) hoff]
    congr 1
    omega
  unfold captured
  rw [sub64_of_le h hoff, hb]
  have w' : (⟨s.bs, start⟩ : Src).wf := ⟨by simp; omega, w2⟩
  unfold takeN
  rw [nextBytes_ok ⟨s.bs, start⟩ (s.off - start) w' (by simp; omega)]
  simp only
  have : start + (s.off - start) = s.off := by omega
  rw [this]


theorem spec_of_eq {α : Type} {p : P α} {s s' : Src} {a : α} {R : α → Src → Prop}
    (h : p s = .ok a s') (adv : Adv s s') (hr : R a s') : SpecAt p s R := by
  unfold SpecAt
  rw [h]
  exact ⟨adv, hr⟩

theorem captured_spec {s0 s : Src} (w : s0.wf) (adv : Adv s0 s) :
    SpecAt (captured s0.off) s (fun d s' => d = seg s0 s ∧ s' = s) := by
  refine spec_of_eq (captured_eval s0.off s (adv.wf w) adv.2.1) (Adv.refl (adv.wf w)) ⟨?_, rfl⟩
  unfold seg
  rw [adv.1]

theorem pos_spec (s : Src) (w : s.wf) : SpecAt pos s (fun n s' => n = s.off ∧ s' = s) := by
  unfold SpecAt pos
  exact ⟨Adv.refl w, rfl, rfl⟩

/-- what a successfully decoded Ontology-shape transaction satisfies -/
def OntPost (s : Src) (t : Tx) (s' : Src) : Prop :=
  seg s s' = serUnsigned t.unsigned ++ serSigs t.sigs ∧ t.raw = seg s s' ∧ t.hashInput = serUnsigned t.unsigned ∧
  WfU t.unsigned ∧ (seg s s').length ≤ MAX_TX_SIZE ∧ t.sigs.length ≤ TX_MAX_SIG_SIZE

theorem parseOnt_spec (s : Src) (w : s.wf) : SpecAt parseOnt s (OntPost s) := by
  unfold parseOnt
  apply spec_bind' (pos_spec s w)
  intro pstart sx _ ⟨hp, hsx⟩
  rw [hp, hsx]
  apply enc_step (Adv.refl w) (seg_self s) (parseOntUnsigned_spec s w)
  intro u s1 hne adv1 acc1
  apply spec_bind' (captured_spec w adv1)
  intro rawU sx _ ⟨hru, hsx⟩
  rw [hsx]
  apply enc_step adv1 acc1 (rVarUint_spec false s1 (adv1.wf w))
  intro len s2 _ adv2 acc2
  try dsimp only
  split
  · exact spec_fail_bind
  rename_i hlen
  apply enc_step adv2 acc2 (repeatP_spec parseRawSig serSig parseRawSig_spec len s2 (adv2.wf w))
  intro sigs s3 hsl adv3 acc3
  apply spec_bind' (pos_spec s3 (adv3.wf w))
  intro pend sx _ ⟨hp, hsx⟩
  rw [hp, hsx]
  try dsimp only
  split
  · exact spec_fail_bind
  rename_i hsz
  apply spec_bind' (captured_spec w adv3)
  intro raw sx _ ⟨hraw, hsx⟩
  rw [hsx]
  apply spec_pure (adv3.wf w)
  have hoff : s3.off < two64 := by have := (adv3.wf w).1; have := (adv3.wf w).2; omega
  rw [sub64_of_le adv3.2.1 hoff] at hsz
  unfold OntPost
  simp only [Tx.unsigned]
  refine ⟨?_, hraw, ?_, hne, ?_, by omega⟩
  · rw [acc3, ← hsl]
    simp [serSigs]
  · rw [hru, acc1]; simp
  · rw [seg_length adv3]; omega


theorem spec_err_bind {α β : Type} {p : P α} {f : α → P β} {s : Src} {e : Err} {R : β → Src → Prop}
    (h : p s = .err e) : SpecAt (p >>= f) s R := by
  unfold SpecAt
  rw [bind_eval, h]
  trivial

theorem rByteNoEof_none (s : Src) (h : s.bs[s.off]? = none) : rByteNoEof s = .ok 0 s ∧ rByte s = .err .eof := by
  unfold rByteNoEof rByte nextByte
  simp [h]

theorem rByteNoEof_some (s : Src) (b : UInt8) (h : s.bs[s.off]? = some b) :
    rByteNoEof s = .ok b ⟨s.bs, s.off + 1⟩ := by
  unfold rByteNoEof nextByte
  simp only [h]

theorem rByteNoEof_spec (s : Src) (w : s.wf) :
    SpecAt rByteNoEof s (fun b s' => seg s s' = [b] ∨ (b = 0 ∧ s' = s ∧ rByte s = .err .eof)) := by
  cases h : s.bs[s.off]? with
  | none =>
    have := rByteNoEof_none s h
    exact spec_of_eq this.1 (Adv.refl w) (Or.inr ⟨rfl, rfl, this.2⟩)
  | some b =>
    have hlt := (List.getElem?_eq_some_iff.mp h).1
    refine spec_of_eq (rByteNoEof_some s b h) ⟨rfl, by simp, by simp; omega⟩ (Or.inl ?_)
    unfold seg
    simp only [Nat.add_sub_cancel_left]
    rw [List.drop_eq_getElem_cons hlt]
    have := (List.getElem?_eq_some_iff.mp h).2
    rw [this]
    simp

theorem parseEipCode_spec (R : Rlp) (s : Src) (w : s.wf) :
    SpecAt (parseEipCode R) s (fun t s' => ∃ code, R.decode code = .ok t ∧ seg s s' = writeVarBytes code) := by
  unfold parseEipCode
  apply enc_step (Adv.refl w) (seg_self s) (rVarBytes_spec false s w)
  intro code s1 _ adv1 acc1
  split
  · rename_i t ht
    apply spec_pure (adv1.wf w)
    exact ⟨code, ht, by rw [acc1]; simp⟩
  · exact spec_fail

/-- what a successfully decoded EIP-155 transaction satisfies -/
def EipPost (R : Rlp) (s : Src) (t : Tx) (s' : Src) : Prop :=
  ∃ code e, R.decode code = .ok e ∧ seg s s' = [0, 0xd3] ++ writeVarBytes code ∧ fromEip155 e = .ok t ∧
    (seg s s').length ≤ MAX_TX_SIZE

theorem parseEip_spec (R : Rlp) (s : Src) (w : s.wf) : SpecAt (parseEip R) s (EipPost R s) := by
  unfold parseEip
  apply spec_bind' (pos_spec s w)
  intro pstart sx _ ⟨hp, hsx⟩
  rw [hp, hsx]
  apply spec_bind' (rByteNoEof_spec s w)
  intro ver s1 adv1 hver
  try dsimp only
  split
  · exact spec_fail_bind
  rename_i hv0
  have hv : ver = 0 := by simpa using hv0
  rcases hver with acc1 | ⟨_, hs1, herr⟩
  · have acc1' : seg s s1 = [] ++ [ver] := by simpa using acc1
    apply enc_step adv1 acc1' (rByte_spec s1 (adv1.wf w))
    intro ty s2 _ adv2 acc2
    try dsimp only
    split
    · exact spec_fail_bind
    rename_i hty0
    have hty : ty = 0xd3 := by simpa using hty0
    apply spec_bind' (parseEipCode_spec R s2 (adv2.wf w))
    intro e s3 adv3 ⟨code, hdec, hseg3⟩
    split
    · exact spec_fail
    · rename_i tx htx
      apply spec_bind' (pos_spec s3 ((adv2.trans adv3).wf w))
      intro pend sx _ ⟨hp2, hsx2⟩
      rw [hp2, hsx2]
      try dsimp only
      split
      · exact spec_fail_bind
      rename_i hsz
      have adv13 := adv2.trans adv3
      apply spec_pure (adv13.wf w)
      have hoff : s3.off < two64 := by have := (adv13.wf w).1; have := (adv13.wf w).2; omega
      rw [sub64_of_le adv13.2.1 hoff] at hsz
      refine ⟨code, e, hdec, ?_, htx, ?_⟩
      · rw [seg_trans adv2 adv3, acc2, hseg3, hv, hty]; simp
      · rw [seg_length adv13]; omega
  · rw [hs1]
    exact spec_err_bind herr


theorem parseOnt_at_end (s : Src) (h : s.bs[s.off]? = none) : parseOnt s = .err .eof := by
  have h1 := (rByteNoEof_none s h).2
  have h2 : parseOntUnsigned s = .err .eof := by
    unfold parseOntUnsigned
    rw [bind_eval, h1]
  unfold parseOnt
  rw [bind_eval]
  have hpos : pos s = .ok s.off s := rfl
  rw [hpos]
  simp only
  rw [bind_eval, h2]

theorem isEip155_short (s : Src) (w : s.wf) (h : s.off + 2 > s.bs.length) :
    isEip155 s = some (false, ⟨s.bs, s.bs.length⟩) := by
  unfold isEip155
  rw [nextBytes_eof s 2 w (by unfold two64; omega) h]
  simp

theorem isEip155_long (s : Src) (w : s.wf) (h : s.off + 2 ≤ s.bs.length) :
    ∃ b, isEip155 s = some (b, s) := by
  have hoff : s.off + 2 < two64 := by have := w.2; omega
  have hb : backUp ⟨s.bs, s.off + 2⟩ 2 = s := by
    unfold backUp
    simp only
    rw [sub64_of_le (by omega) hoff]
    simp
  unfold isEip155
  rw [nextBytes_ok s 2 w h]
  simp only [Bool.false_eq_true, if_false]
  have hl : ((s.bs.drop s.off).take 2).length = 2 := by simp; omega
  cases hg : ((s.bs.drop s.off).take 2)[1]? with
  | none =>
    exfalso
    have := List.getElem?_eq_none_iff.mp hg
    omega
  | some b =>
    simp only
    rw [hb]
    exact ⟨_, rfl⟩

/-- postcondition of `Transaction.Deserialization` -/
def TxPost (R : Rlp) (s : Src) (t : Tx) (s' : Src) : Prop := OntPost s t s' ∨ EipPost R s t s'

theorem deserialize_spec (R : Rlp) (s : Src) (w : s.wf) : SpecAt (deserialize R) s (TxPost R s) := by
  by_cases h : s.off + 2 ≤ s.bs.length
  · obtain ⟨b, hb⟩ := isEip155_long s w h
    have : deserialize R s = if b then parseEip R s else parseOnt s := by
      unfold deserialize
      rw [hb]
      cases b <;> rfl
    unfold SpecAt
    rw [this]
    cases b
    · have := parseOnt_spec s w
      unfold SpecAt at this
      simp only [Bool.false_eq_true, if_false]
      split <;> rename_i hp <;> rw [hp] at this
      · exact ⟨this.1, Or.inl this.2⟩
      · trivial
      · exact this
    · have := parseEip_spec R s w
      unfold SpecAt at this
      simp only [if_true]
      split <;> rename_i hp <;> rw [hp] at this
      · exact ⟨this.1, Or.inr this.2⟩
      · trivial
      · exact this
  · have hs := isEip155_short s w (by omega)
    have : deserialize R s = .err .eof := by
      unfold deserialize
      rw [hs]
      simp only
      apply parseOnt_at_end
      simp
    unfold SpecAt
    rw [this]
    trivial


theorem fromEip155_ok {e : EipTx} {t : Tx} (h : fromEip155 e = .ok t) :
    t.version = 0 ∧ t.txType = 0xd3 ∧ t.payload = .eip e ∧ t.raw = [0, 0xd3] ++ writeVarBytes e.enc ∧
    t.hashInput = e.enc ∧ t.sigs = [] := by
  unfold fromEip155 at h
  split at h
  · cases h
  · split at h
    · cases h
    · split at h
      · cases h
      · injection h with h
        subst h
        exact ⟨rfl, rfl, rfl, rfl, rfl, rfl⟩

theorem post_of_ok {R : Rlp} {s : Src} (w : s.wf) {t : Tx} {s' : Src} (h : deserialize R s = .ok t s') :
    Adv s s' ∧ TxPost R s t s' := by
  have := deserialize_spec R s w
  unfold SpecAt at this
  rw [h] at this
  exact this

theorem seg_eq_consumed (s s' : Src) : seg s s' = consumed s s' := rfl


theorem raw_eq_seg {R : Rlp} (hR : R.canonical) {s : Src} {t : Tx} {s' : Src} (h : TxPost R s t s') :
    t.raw = seg s s' := by
  rcases h with ⟨_, hraw, _⟩ | ⟨code, e, hdec, hseg, hfrom, _⟩
  · exact hraw
  · rw [(fromEip155_ok hfrom).2.2.2.1, hR code e hdec, hseg]

/-! ### Injectivity of the encoders (used for "the hash input determines the fields") -/

theorem leN_inj (k a b : Nat) (ha : a < 256 ^ k) (hb : b < 256 ^ k) (h : leN k a = leN k b) : a = b := by
  rw [← fromLE_leN k a ha, ← fromLE_leN k b hb, h]

theorem append_inj_len {α : Type} {a b c d : List α} (h : a ++ b = c ++ d) (hl : a.length = c.length) :
    a = c ∧ b = d := List.append_inj h hl

theorem wide_head (n : Nat) : ∃ (c : UInt8) (t : Bytes),
    (if n ≤ 0xFFFF then (0xFD : UInt8) :: leN 2 n else if n ≤ 0xFFFFFFFF then 0xFE :: leN 4 n else 0xFF :: leN 8 n) = c :: t ∧
    c.toNat ≥ 253 := by
  split
  · exact ⟨_, _, rfl, by decide⟩
  · split
    · exact ⟨_, _, rfl, by decide⟩
    · exact ⟨_, _, rfl, by decide⟩

/-- var-uint encodings are prefix-free: the value is determined by the bytes, whatever follows -/
theorem writeVarUint_prefix_inj (m n : Nat) (hm : m < two64) (hn : n < two64) (x y : Bytes)
    (h : writeVarUint m ++ x = writeVarUint n ++ y) : m = n ∧ x = y := by
  have key : m = n := by
    unfold writeVarUint at h
    by_cases m1 : m < 0xFD <;> by_cases n1 : n < 0xFD
    · simp only [m1, n1, if_true] at h
      have := (List.cons.inj h).1
      have h2 := congrArg UInt8.toNat this
      rw [toNat_ofNat_lt m (by omega), toNat_ofNat_lt n (by omega)] at h2
      exact h2
    · exfalso
      simp only [m1, n1, if_true, if_false] at h
      obtain ⟨c, t, hc, hge⟩ := wide_head n
      rw [hc] at h
      have := (List.cons.inj h).1
      have h2 := congrArg UInt8.toNat this
      rw [toNat_ofNat_lt m (by omega)] at h2
      omega
    · exfalso
      simp only [m1, n1, if_true, if_false] at h
      obtain ⟨c, t, hc, hge⟩ := wide_head m
      rw [hc] at h
      have := (List.cons.inj h).1
      have h2 := congrArg UInt8.toNat this
      rw [toNat_ofNat_lt n (by omega)] at h2
      omega
    · simp only [m1, n1, if_false] at h
      by_cases m2 : m ≤ 0xFFFF <;> by_cases n2 : n ≤ 0xFFFF
      · simp only [m2, n2, if_true] at h
        have h3 := (List.cons.inj h).2
        have := (List.append_inj h3 (by simp [leN_length])).1
        exact leN_inj 2 m n (by omega) (by omega) this
      · simp only [m2, n2, if_true, if_false] at h
        exfalso
        split at h <;> (have := (List.cons.inj h).1; simp at this)
      · simp only [m2, n2, if_true, if_false] at h
        exfalso
        split at h <;> (have := (List.cons.inj h).1; simp at this)
      · simp only [m2, n2, if_false] at h
        by_cases m3 : m ≤ 0xFFFFFFFF <;> by_cases n3 : n ≤ 0xFFFFFFFF
        · simp only [m3, n3, if_true] at h
          have h3 := (List.cons.inj h).2
          have := (List.append_inj h3 (by simp [leN_length])).1
          exact leN_inj 4 m n (by omega) (by omega) this
        · simp only [m3, n3, if_true, if_false] at h
          exfalso
          have := (List.cons.inj h).1; simp at this
        · simp only [m3, n3, if_true, if_false] at h
          exfalso
          have := (List.cons.inj h).1; simp at this
        · simp only [m3, n3, if_false] at h
          have h3 := (List.cons.inj h).2
          have := (List.append_inj h3 (by simp [leN_length])).1
          exact leN_inj 8 m n (by unfold two64 at hm; omega) (by unfold two64 at hn; omega) this
  subst key
  exact ⟨rfl, List.append_cancel_left h⟩

theorem writeVarBytes_prefix_inj (a b : Bytes) (ha : a.length < two64) (hb : b.length < two64) (x y : Bytes)
    (h : writeVarBytes a ++ x = writeVarBytes b ++ y) : a = b ∧ x = y := by
  unfold writeVarBytes at h
  rw [List.append_assoc, List.append_assoc] at h
  obtain ⟨hl, h2⟩ := writeVarUint_prefix_inj a.length b.length ha hb _ _ h
  exact List.append_inj h2 hl


theorem serPayload_inj_invoke (c c' : Bytes) (h1 : c.length < two64) (h2 : c'.length < two64) (x y : Bytes)
    (h : serPayload (.invoke c) ++ x = serPayload (.invoke c') ++ y) : c = c' ∧ x = y := by
  unfold serPayload at h
  exact writeVarBytes_prefix_inj c c' h1 h2 x y h

theorem serPayload_inj_deploy (c c' : Bytes) (v v' : UInt8) (a a' b b' d d' e e' f f' : Bytes)
    (w1 : PlWf (.deploy c v a b d e f)) (w2 : PlWf (.deploy c' v' a' b' d' e' f')) (x y : Bytes)
    (h : serPayload (.deploy c v a b d e f) ++ x = serPayload (.deploy c' v' a' b' d' e' f') ++ y) :
    Payload.deploy c v a b d e f = Payload.deploy c' v' a' b' d' e' f' ∧ x = y := by
  obtain ⟨l1, l2, l3, l4, l5, l6⟩ := w1
  obtain ⟨m1, m2, m3, m4, m5, m6⟩ := w2
  unfold serPayload at h
  simp only [List.append_assoc] at h
  obtain ⟨e1, h⟩ := writeVarBytes_prefix_inj _ _ l1 m1 _ _ h
  simp only [List.cons_append, List.nil_append] at h
  obtain ⟨e2, h⟩ := List.cons.inj h
  obtain ⟨e3, h⟩ := writeVarBytes_prefix_inj _ _ l2 m2 _ _ h
  obtain ⟨e4, h⟩ := writeVarBytes_prefix_inj _ _ l3 m3 _ _ h
  obtain ⟨e5, h⟩ := writeVarBytes_prefix_inj _ _ l4 m4 _ _ h
  obtain ⟨e6, h⟩ := writeVarBytes_prefix_inj _ _ l5 m5 _ _ h
  obtain ⟨e7, hxy⟩ := writeVarBytes_prefix_inj _ _ l6 m6 _ _ h
  rw [e1, e2, e3, e4, e5, e6, e7]
  exact ⟨rfl, hxy⟩

/-- the unsigned serialisation determines every unsigned field of a decoded Ontology-shape transaction -/
theorem serUnsigned_inj (u v : TxU) (hu : WfU u) (hv : WfU v) (h : serUnsigned u = serUnsigned v) : u = v := by
  obtain ⟨u1, u2, u3, u4, u5, u6, uk, uw, _⟩ := hu
  obtain ⟨v1, v2, v3, v4, v5, v6, vk, vw, _⟩ := hv
  unfold serUnsigned writeUintN at h
  simp only [List.append_assoc, List.cons_append, List.nil_append] at h
  obtain ⟨e1, h⟩ := List.cons.inj h
  obtain ⟨e2, h⟩ := List.cons.inj h
  obtain ⟨e3, h⟩ := List.append_inj h (by simp [leN_length])
  obtain ⟨e4, h⟩ := List.append_inj h (by simp [leN_length])
  obtain ⟨e5, h⟩ := List.append_inj h (by simp [leN_length])
  obtain ⟨e6, h⟩ := List.append_inj h (by rw [u6, v6])
  have f3 := leN_inj 4 _ _ u3 v3 e3
  have f4 := leN_inj 8 _ _ u4 v4 e4
  have f5 := leN_inj 8 _ _ u5 v5 e5
  have hpl : u.payload = v.payload := by
    rcases uk with ⟨ut, c, hc⟩ | ⟨ut, c, vm, a, b, d, e, f, hc⟩ <;>
      rcases vk with ⟨vt, c', hc'⟩ | ⟨vt, c', vm', a', b', d', e', f', hc'⟩
    · rw [hc] at h uw
      rw [hc'] at h vw
      rw [hc, hc', (serPayload_inj_invoke c c' uw vw _ _ h).1]
    · exfalso
      rw [e2] at ut
      rw [vt] at ut
      rcases ut with ut | ut <;> exact absurd ut (by decide)
    · exfalso
      rw [e2, ] at ut
      rcases vt with vt | vt <;> (rw [vt] at ut; exact absurd ut (by decide))
    · rw [hc] at h uw
      rw [hc'] at h vw
      rw [hc, hc']
      exact (serPayload_inj_deploy _ _ _ _ _ _ _ _ _ _ _ _ _ _ uw vw _ _ h).1
  cases u; cases v
  simp only at e1 e2 f3 f4 f5 e6 hpl
  subst e1 e2 f3 f4 f5 e6 hpl
  rfl


end OntVerif.Proofs.Tx
