import OntVerif.Proofs.MerkleN
namespace OntVerif.Proofs.Merkle
open OntVerif.Util OntVerif.Model.Merkle

section
variable {Hash : Type} (H1 : Hash → Hash → Hash) (He : Hash)

/-! ## proof generation from a store that holds `lay L` followed by anything (a stale tail) -/

theorem tree_inclusionProof_tail (t : Tree Hash) (L tail : List Hash) (hsz : t.size = L.length)
    (hs : t.store = some (lay H1 He L ++ tail)) (m n : Nat) (hm : m < n) (hn : n ≤ L.length) :
    t.inclusionProof H1 m n = .ok (some (pathSpec H1 He m (L.take n))) := by
  unfold Tree.inclusionProof
  rw [if_neg (by omega), if_neg (by rw [hsz]; omega), hs]
  simp only
  obtain ⟨ext, hext⟩ := lay_take H1 He L n
  have := inclLoop_spec H1 He n (L.take n) [] (ext ++ tail) m 0 [] n (by rw [List.length_take]; omega) hm rfl (Nat.le_refl _)
  rw [List.nil_append, ← List.append_assoc, ← hext] at this
  rw [this]
  simp

theorem tree_consistencyProof_tail (t : Tree Hash) (L tail : List Hash) (hsz : t.size = L.length)
    (hs : t.store = some (lay H1 He L ++ tail)) (m n : Nat) (hm : m ≤ n) (hn : n ≤ L.length) :
    t.consistencyProof H1 m n = some (some (consProofSpec H1 He m (L.take n))) := by
  unfold Tree.consistencyProof
  rw [if_neg (by rw [hsz]; omega), hs]
  simp only
  have hlen : (L.take n).length = n := by rw [List.length_take]; omega
  by_cases hz : m = 0
  · rw [if_pos hz]; simp [consProofSpec, hz]
  · rw [if_neg hz]
    obtain ⟨ext, hext⟩ := lay_take H1 He L n
    have := consFull_spec H1 He n (L.take n) [] (ext ++ tail) m true 0 [] (n + 1) hlen (by omega) hm (Or.inr (Or.inl rfl)) rfl (by omega)
    rw [List.nil_append, ← List.append_assoc, ← hext] at this
    rw [subproof_eq, this]
    simp only [Bool.not_true, List.nil_append, Option.map_some, List.reverse_reverse]
    unfold consProofSpec
    by_cases hmn : m = n
    · subst hmn
      rw [if_pos (Or.inr hlen.symm), subproofSpec_base H1 He false _ _ (by omega)]; rfl
    · rw [if_neg (by rw [hlen]; omega)]

/-! ## the file store with its cursor -/

/-- a tree on a hash file that holds exactly the leaves `L`: the file is `lay L` up to the cursor, then anything -/
structure FHolds (t : FTree Hash) (L : List Hash) : Prop where
  size : t.size = L.length
  hashes : t.hashes = (specR H1 He L.length L 0).reverse
  file : ∃ tail, t.fs.content = lay H1 He L ++ tail
  cursor : t.fs.cursor = (lay H1 He L).length

theorem fholds_append (t : FTree Hash) (L : List Hash) (x : Hash) (h : FHolds H1 He t L) :
    ∃ t', t.appendHash H1 x = some t' ∧ FHolds H1 He t' (L ++ [x]) := by
  obtain ⟨r, top, w, h1, h2, h3⟩ := appLoop_spec H1 He L.length 0 L [x] (L.length + 1) (by omega) (by simp) (by simp)
  unfold FTree.appendHash
  rw [h.size, h.hashes, List.reverse_reverse]
  rw [mth_single] at h1
  rw [h1]
  obtain ⟨tail, htail⟩ := h.file
  have hlay : lay H1 He (L ++ [x]) = lay H1 He L ++ x :: w := by
    unfold lay
    rw [List.length_append, List.length_singleton, ← h3]; simp [post]
  refine ⟨_, rfl, ⟨by simp, ?_, ?_, ?_⟩⟩
  · simp only [List.length_append, List.length_singleton]; rw [← h2]
  · refine ⟨tail.drop (x :: w).length, ?_⟩
    simp only [FileStore.append]
    rw [htail, h.cursor, List.take_left, hlay, List.drop_append]
    simp
  · simp only [FileStore.append]
    rw [h.cursor, hlay, List.length_append]

theorem fholds_step (t : FTree Hash) (L : List Hash) (h : FHolds H1 He t L) (op : FOp Hash) :
    ∃ t', t.step .readAt H1 op = some t' ∧ FHolds H1 He t' (L ++ FOp.leaves [op]) := by
  cases op with
  | append x => simpa [FTree.step, FOp.leaves] using fholds_append H1 He t L x h
  | getHash pos =>
    refine ⟨_, rfl, ?_⟩
    simp only [FOp.leaves, List.append_nil, FileStore.getHash]
    exact ⟨h.size, h.hashes, h.file, h.cursor⟩
  | flush => exact ⟨t, rfl, by simpa [FOp.leaves] using h⟩

theorem leaves_cons (op : FOp Hash) (r : List (FOp Hash)) : FOp.leaves (op :: r) = FOp.leaves [op] ++ FOp.leaves r := by
  cases op <;> simp [FOp.leaves]

theorem fholds_run (ops : List (FOp Hash)) : ∀ (t : FTree Hash) (L : List Hash), FHolds H1 He t L →
    ∃ t', t.run .readAt H1 ops = some t' ∧ FHolds H1 He t' (L ++ FOp.leaves ops) := by
  induction ops with
  | nil => intro t L h; exact ⟨t, rfl, by simpa [FOp.leaves] using h⟩
  | cons op r ih =>
    intro t L h
    obtain ⟨t1, h1, h2⟩ := fholds_step H1 He t L h op
    obtain ⟨t2, h3, h4⟩ := ih t1 _ h2
    refine ⟨t2, by simp [FTree.run, h1, h3], ?_⟩
    rw [leaves_cons, ← List.append_assoc]; exact h4

/-- what holds of a tree in state `FHolds`: root, and every proof read from the file is the RFC proof -/
theorem fholds_view (t : FTree Hash) (L : List Hash) (h : FHolds H1 He t L) :
    t.fs.content.take t.fs.cursor = lay H1 He L ∧ t.fs.cursor = storedHashNum t.size ∧
    t.view.root H1 He = mth H1 He L ∧
    (∀ m n, m < n → n ≤ L.length → t.view.inclusionProof H1 m n = .ok (some (pathSpec H1 He m (L.take n)))) ∧
    (∀ m n, m ≤ n → n ≤ L.length → t.view.consistencyProof H1 m n = some (some (consProofSpec H1 He m (L.take n)))) := by
  obtain ⟨tail, htail⟩ := h.file
  refine ⟨by rw [htail, h.cursor, List.take_left], by rw [h.cursor, h.size]; exact lay_length H1 He _ L rfl, ?_, ?_, ?_⟩
  · have hh : Holds H1 He (⟨t.size, t.hashes, none⟩ : Tree Hash) L := ⟨h.size, h.hashes, by intro s hs; cases hs⟩
    have := holds_root H1 He _ L hh
    simpa [Tree.root, FTree.view] using this
  · intro m n hm hn
    exact tree_inclusionProof_tail H1 He t.view L tail h.size (by simp [FTree.view, htail]) m n hm hn
  · intro m n hm hn
    exact tree_consistencyProof_tail H1 He t.view L tail h.size (by simp [FTree.view, htail]) m n hm hn

/-- reopening the hash file of a tree that holds `L`, with an arbitrary stale tail -/
theorem fholds_open (L tail : List Hash) :
    ∃ fs, FileStore.open (lay H1 He L ++ tail) L.length = some fs ∧
      FHolds H1 He ⟨L.length, (specR H1 He L.length L 0).reverse, fs⟩ L := by
  have hl := lay_length H1 He L.length L rfl
  refine ⟨⟨lay H1 He L ++ tail, storedHashNum L.length⟩, ?_, ⟨rfl, rfl, ⟨tail, rfl⟩, hl.symm⟩⟩
  unfold FileStore.open
  rw [if_neg (by rw [List.length_append]; omega)]

end

/-- `VerifyConsistency` as it was before /repo commit bf734509 (accepted whenever `old_root == new_root` and whenever
`old_size == 0`); kept only for the recorded counterexamples in `Props/C26.lean` — the model mirrors the current code -/
def verifyConsistencyBefore {Hash : Type} [DecidableEq Hash] (H1 : Hash → Hash → Hash) (oldSize newSize : Nat)
    (oldRoot newRoot : Hash) (proof : List Hash) : Except VErr Unit :=
  if oldSize > newSize then .error .params
  else if oldRoot = newRoot then .ok ()
  else if oldSize = 0 then .ok ()
  else if proof = [] then .error .short
  else consFinish oldRoot newRoot (consCore H1 false oldSize newSize oldRoot proof)

end OntVerif.Proofs.Merkle
