import OntVerif.Model.ConnCtl
/-!
# Invariant of the repaired connection controller (C36)

`InvC` is the inductive invariant of `step`: established + reserved slots (+1 while a passed check holds
`reserveMu` and has not yet recorded its reservation) never exceed the limits, in total per direction and per remote
ip; every thread in its handshake owns a reservation and no two of them share an address.  `step_inv` shows
that every atomic action of every thread preserves it — hence it holds after every schedule.
-/
namespace OntVerif.Proofs.ConnCtl
open OntVerif.Model.ConnCtl

/-! ### `strset.Set` as a list -/

theorem mem_ins {x a : Addr} {l : List Addr} : x ∈ ins a l ↔ x = a ∨ x ∈ l := by
  unfold ins; split <;> simp_all
  
theorem mem_del {x a : Addr} {l : List Addr} : x ∈ del a l ↔ x ∈ l ∧ x ≠ a := by
  simp [del]

theorem length_ins_le (a : Addr) (l : List Addr) : (ins a l).length ≤ l.length + 1 := by
  unfold ins; split <;> simp

theorem length_ins_of_not_mem {a : Addr} {l : List Addr} (h : a ∉ l) : (ins a l).length = l.length + 1 := by
  simp [ins, h]

theorem length_del_le (a : Addr) (l : List Addr) : (del a l).length ≤ l.length := by
  simp [del, List.length_filter_le]

theorem length_del_lt {a : Addr} {l : List Addr} (h : a ∈ l) : (del a l).length + 1 ≤ l.length := by
  induction l with
  | nil => simp at h
  | cons x r ih =>
    by_cases hx : x = a
    · subst hx
      have := length_del_le x r
      simp [del] at this ⊢
      omega
    · have hr : a ∈ r := by
        rcases List.mem_cons.mp h with h | h
        · exact absurd h.symm hx
        · exact h
      have := ih hr
      simp [del, hx] at this ⊢
      omega

theorem cnt_cons (ip : Ip) (x : Addr) (r : List Addr) :
    cnt ip (x :: r) = (if ipOf x = ip then 1 else 0) + cnt ip r := by
  by_cases h : ipOf x = ip <;> simp [cnt, h] <;> omega

theorem del_cons (a x : Addr) (r : List Addr) :
    del a (x :: r) = if x = a then del a r else x :: del a r := by
  by_cases h : x = a <;> simp [del, h]

theorem cnt_ins_le (ip : Ip) (a : Addr) (l : List Addr) :
    cnt ip (ins a l) ≤ cnt ip l + (if ipOf a = ip then 1 else 0) := by
  unfold ins; split
  · omega
  · rw [cnt_cons]; omega

theorem cnt_ins_le' (ip : Ip) (t : Thread) (l : List Addr) :
    cnt ip (ins t.addr l) ≤ cnt ip l + (if t.ip = ip then 1 else 0) := cnt_ins_le ip t.addr l

theorem cnt_del_le (ip : Ip) (a : Addr) (l : List Addr) : cnt ip (del a l) ≤ cnt ip l := by
  induction l with
  | nil => simp [cnt, del]
  | cons x r ih =>
    rw [del_cons]; split
    · rw [cnt_cons]; omega
    · rw [cnt_cons, cnt_cons]; omega

theorem cnt_del_lt {ip : Ip} {a : Addr} {l : List Addr} (h : a ∈ l) (hip : ipOf a = ip) :
    cnt ip (del a l) + 1 ≤ cnt ip l := by
  induction l with
  | nil => simp at h
  | cons x r ih =>
    rw [del_cons]; split
    · next hx =>
      subst hx
      have := cnt_del_le ip x r
      rw [cnt_cons, if_pos hip]; omega
    · next hx =>
      have hr : a ∈ r := by
        rcases List.mem_cons.mp h with h | h
        · exact absurd h.symm hx
        · exact h
      have := ih hr
      rw [cnt_cons, cnt_cons]; omega

theorem del_of_not_mem {a : Addr} {l : List Addr} (h : a ∉ l) : del a l = l := by
  induction l with
  | nil => rfl
  | cons x r ih =>
    have hx : ¬ x = a := fun e => h (e ▸ List.mem_cons_self)
    have hr : a ∉ r := fun e => h (List.mem_cons_of_mem _ e)
    rw [del_cons, if_neg hx, ih hr]

theorem del_ins_of_not_mem {a : Addr} {l : List Addr} (h : a ∉ l) : del a (ins a l) = l := by
  simp only [ins, h, if_false]
  rw [del_cons, if_pos rfl, del_of_not_mem h]

theorem get_set {ths : List Thread} {i : Nat} {t : Thread} (h : ths[i]? = some t) (t' : Thread) (j : Nat) :
    (ths.set i t')[j]? = if j = i then some t' else ths[j]? := by
  have hi : i < ths.length := (List.getElem?_eq_some_iff.mp h).1
  rw [List.getElem?_set]
  by_cases hji : j = i
  · subst hji; simp [hi]
  · have : ¬ i = j := fun e => hji e.symm
    simp [hji, this]


theorem upd_same (f : Dir → List Addr) (d : Dir) (g : List Addr → List Addr) : upd f d g d = g (f d) := by
  simp [upd]

theorem upd_other {f : Dir → List Addr} {d d' : Dir} (g : List Addr → List Addr) (h : d' ≠ d) :
    upd f d g d' = f d' := by
  simp [upd, h]

/-! ### The invariant of the repaired controller -/

/-- 1 if `reserveMu` is held by a thread of direction `d` (a passed check whose reservation is not yet recorded) -/
def hDir (ths : List Thread) (l : Option Nat) (d : Dir) : Nat :=
  match l with
  | none => 0
  | some i =>
    match ths[i]? with
    | some t => if t.dir = d then 1 else 0
    | none => 0

def hIp (ths : List Thread) (l : Option Nat) (ip : Ip) : Nat :=
  match l with
  | none => 0
  | some i =>
    match ths[i]? with
    | some t => if t.dir = .inb ∧ t.ip = ip then 1 else 0
    | none => 0

theorem hDir_set {ths : List Thread} {i : Nat} {t t' : Thread} (h : ths[i]? = some t) (hd : t'.dir = t.dir)
    (l : Option Nat) (d : Dir) : hDir (ths.set i t') l d = hDir ths l d := by
  cases l with
  | none => rfl
  | some j =>
    simp only [hDir, get_set h]
    by_cases e : j = i
    · subst e; simp [h, hd]
    · simp [e]

theorem hIp_set {ths : List Thread} {i : Nat} {t t' : Thread} (h : ths[i]? = some t) (hd : t'.dir = t.dir)
    (hi : t'.ip = t.ip) (l : Option Nat) (ip : Ip) : hIp (ths.set i t') l ip = hIp ths l ip := by
  cases l with
  | none => rfl
  | some j =>
    simp only [hIp, get_set h]
    by_cases e : j = i
    · subst e; simp [h, hd, hi]
    · simp [e]

structure InvC (c : Cfg) (ths : List Thread) (b p : Dir → List Addr) (l : Option Nat) : Prop where
  lockChecked : ∀ i : Nat, l = some i → ∃ t : Thread, ths[i]? = some t ∧ t.pc = .checked
  checkedLock : ∀ (i : Nat) (t : Thread), ths[i]? = some t → t.pc = .checked → l = some i
  total : ∀ d, (b d).length + (p d).length + hDir ths l d ≤ c.max d
  perIp : ∀ ip, cnt ip (b .inb) + cnt ip (p .inb) + hIp ths l ip ≤ c.maxIp
  hsPend : ∀ (i : Nat) (t : Thread), ths[i]? = some t → t.pc = .handshaking → t.addr ∈ p t.dir
  hsUniq : ∀ (i j : Nat) (t u : Thread), ths[i]? = some t → ths[j]? = some u → i ≠ j → t.pc = .handshaking →
    u.pc = .handshaking → t.dir = u.dir → t.addr ≠ u.addr
  fresh : ∀ (i : Nat) (t : Thread), ths[i]? = some t → t.pc = .checked → t.addr ∉ p t.dir

variable {c : Cfg} {ths : List Thread} {b p : Dir → List Addr} {l : Option Nat} {i : Nat} {t : Thread}

/-- a thread that is neither the holder of `reserveMu` nor in its handshake leaves (rejected check; close handled below) -/
theorem InvC.finish (h : InvC c ths b p l) (ht : ths[i]? = some t) (hpc : t.pc = .start ∨ t.pc = .saved)
    (t' : Thread) (hd : t'.dir = t.dir) (hi : t'.ip = t.ip) (hpc' : t'.pc = .closed) :
    InvC c (ths.set i t') b p l := by
  have hne : t.pc ≠ .checked := by rcases hpc with e | e <;> simp [e]
  refine ⟨?_, ?_, ?_, ?_, ?_, ?_, ?_⟩
  · intro j hj
    obtain ⟨u, hu, hup⟩ := h.lockChecked j hj
    have : j ≠ i := by rintro rfl; rw [ht] at hu; cases hu; exact hne hup
    exact ⟨u, by rw [get_set ht, if_neg this]; exact hu, hup⟩
  · intro j u hj hup
    rw [get_set ht] at hj; split at hj
    · cases hj; simp [hpc'] at hup
    · exact h.checkedLock j u hj hup
  · intro d; rw [hDir_set ht hd]; exact h.total d
  · intro ip; rw [hIp_set ht hd hi]; exact h.perIp ip
  · intro j u hj hup
    rw [get_set ht] at hj; split at hj
    · cases hj; simp [hpc'] at hup
    · exact h.hsPend j u hj hup
  · intro j k u w hj hk hjk hup hwp hdir
    rw [get_set ht] at hj hk; split at hj
    · cases hj; simp [hpc'] at hup
    · split at hk
      · cases hk; simp [hpc'] at hwp
      · exact h.hsUniq j k u w hj hk hjk hup hwp hdir
  · intro j u hj hup
    rw [get_set ht] at hj; split at hj
    · cases hj; simp [hpc'] at hup
    · exact h.fresh j u hj hup


theorem hDir_holder (ht : ths[i]? = some t) (d : Dir) : hDir ths (some i) d = if t.dir = d then 1 else 0 := by
  simp [hDir, ht]

theorem hIp_holder (ht : ths[i]? = some t) (ip : Ip) :
    hIp ths (some i) ip = if t.dir = .inb ∧ t.ip = ip then 1 else 0 := by
  simp [hIp, ht]

/-- established slots only shrink (removePeer) -/
theorem InvC.shrinkBound (h : InvC c ths b p l) (b' : Dir → List Addr)
    (hb : ∀ d, (b' d).length ≤ (b d).length) (hbi : ∀ ip, cnt ip (b' .inb) ≤ cnt ip (b .inb)) :
    InvC c ths b' p l := by
  refine ⟨h.lockChecked, h.checkedLock, ?_, ?_, h.hsPend, h.hsUniq, h.fresh⟩
  · intro d; have := h.total d; have := hb d; omega
  · intro ip; have := h.perIp ip; have := hbi ip; omega

/-- the check passed under `reserveMu`: thread `i` becomes the holder -/
theorem InvC.pass (h : InvC c ths b p l) (ht : ths[i]? = some t) (_hpc : t.pc = .start) (hl : l = none)
    (hfresh : t.addr ∉ p t.dir) (htot : (b t.dir).length + (p t.dir).length < c.max t.dir)
    (hip : t.dir = .inb → cnt t.ip (b .inb) + cnt t.ip (p .inb) < c.maxIp)
    (t' : Thread) (hd : t'.dir = t.dir) (hi : t'.ip = t.ip) (haddr : t'.addr = t.addr) (hpc' : t'.pc = .checked) :
    InvC c (ths.set i t') b p (some i) := by
  subst hl
  refine ⟨?_, ?_, ?_, ?_, ?_, ?_, ?_⟩
  · intro j hj; cases hj
    exact ⟨t', by rw [get_set ht, if_pos rfl], hpc'⟩
  · intro j u hj hup
    rw [get_set ht] at hj; split at hj
    · next e => rw [e]
    · have := h.checkedLock j u hj hup; cases this
  · intro d
    rw [hDir_set ht hd, hDir_holder ht]
    have := h.total d
    simp only [hDir] at this
    split
    · next e => subst e; omega
    · omega
  · intro ip
    rw [hIp_set ht hd hi, hIp_holder ht]
    have := h.perIp ip
    simp only [hIp] at this
    split
    · next e => obtain ⟨e1, e2⟩ := e; subst e2; have := hip e1; omega
    · omega
  · intro j u hj hup
    rw [get_set ht] at hj; split at hj
    · cases hj; simp [hpc'] at hup
    · exact h.hsPend j u hj hup
  · intro j k u w hj hk hjk hup hwp hdir
    rw [get_set ht] at hj hk; split at hj
    · cases hj; simp [hpc'] at hup
    · split at hk
      · cases hk; simp [hpc'] at hwp
      · exact h.hsUniq j k u w hj hk hjk hup hwp hdir
  · intro j u hj hup
    rw [get_set ht] at hj; split at hj
    · cases hj; rw [haddr, hd]; exact hfresh
    · have := h.checkedLock j u hj hup; cases this

/-- the holder records its reservation and releases `reserveMu` -/
theorem InvC.reserve (h : InvC c ths b p l) (ht : ths[i]? = some t) (hpc : t.pc = .checked)
    (t' : Thread) (hd : t'.dir = t.dir) (_hi : t'.ip = t.ip) (haddr : t'.addr = t.addr)
    (hpc' : t'.pc = .handshaking) :
    InvC c (ths.set i t') b (upd p t.dir (ins t.addr)) none := by
  have hl : l = some i := h.checkedLock i t ht hpc
  subst hl
  have hfresh := h.fresh i t ht hpc
  have hother : ∀ j u, ths[j]? = some u → j ≠ i → u.pc ≠ .checked := by
    intro j u hj hji hup
    have := h.checkedLock j u hj hup
    exact hji (Option.some.inj this).symm
  refine ⟨?_, ?_, ?_, ?_, ?_, ?_, ?_⟩
  · intro j hj; cases hj
  · intro j u hj hup
    rw [get_set ht] at hj; split at hj
    · cases hj; simp [hpc'] at hup
    · next e => exact absurd hup (hother j u hj e)
  · intro d
    have := h.total d
    rw [hDir_holder ht] at this
    simp only [hDir]
    by_cases e : d = t.dir
    · subst e; rw [upd_same]; have := length_ins_le t.addr (p t.dir); rw [if_pos rfl] at *; omega
    · rw [upd_other _ e]; omega
  · intro ip
    have h1 := h.perIp ip
    rw [hIp_holder ht] at h1
    simp only [hIp]
    by_cases e : t.dir = .inb
    · rw [e, upd_same]
      have hc := cnt_ins_le' ip t (p .inb)
      by_cases e2 : t.ip = ip
      · rw [if_pos ⟨e, e2⟩] at h1; rw [if_pos e2] at hc; omega
      · rw [if_neg (fun x => e2 x.2)] at h1; rw [if_neg e2] at hc; omega
    · have : Dir.inb ≠ t.dir := fun x => e x.symm
      rw [upd_other _ this]; omega
  · intro j u hj hup
    rw [get_set ht] at hj; split at hj
    · cases hj; rw [haddr, hd, upd_same]; exact mem_ins.mpr (Or.inl rfl)
    · have := h.hsPend j u hj hup
      by_cases e : u.dir = t.dir
      · rw [e, upd_same]; rw [e] at this; exact mem_ins.mpr (Or.inr this)
      · rw [upd_other _ e]; exact this
  · intro j k u w hj hk hjk hup hwp hdir
    rw [get_set ht] at hj hk; split at hj
    · next ej =>
      cases hj
      split at hk
      · next ek => exact absurd (ej.trans ek.symm) hjk
      · have hw := h.hsPend k w hk hwp
        rw [haddr]; rw [hd] at hdir
        intro e; rw [← hdir, ← e] at hw; exact hfresh hw
    · split at hk
      · next ek =>
        cases hk
        have hu := h.hsPend j u hj hup
        rw [haddr]; rw [hd] at hdir
        intro e; rw [hdir, e] at hu; exact hfresh hu
      · exact h.hsUniq j k u w hj hk hjk hup hwp hdir
  · intro j u hj hup
    rw [get_set ht] at hj; split at hj
    · cases hj; simp [hpc'] at hup
    · next e => exact absurd hup (hother j u hj e)

/-- the holder gives up without a reservation left behind (`tryAddConnecting` failed and `releaseSlot` ran) -/
theorem InvC.abort (h : InvC c ths b p l) (ht : ths[i]? = some t) (hpc : t.pc = .checked)
    (t' : Thread) (hpc' : t'.pc = .closed) :
    InvC c (ths.set i t') b p none := by
  have hl : l = some i := h.checkedLock i t ht hpc
  subst hl
  have hother : ∀ j u, ths[j]? = some u → j ≠ i → u.pc ≠ .checked := by
    intro j u hj hji hup
    have := h.checkedLock j u hj hup
    exact hji (Option.some.inj this).symm
  refine ⟨?_, ?_, ?_, ?_, ?_, ?_, ?_⟩
  · intro j hj; cases hj
  · intro j u hj hup
    rw [get_set ht] at hj; split at hj
    · cases hj; simp [hpc'] at hup
    · next e => exact absurd hup (hother j u hj e)
  · intro d; have := h.total d; simp only [hDir] at this ⊢; omega
  · intro ip; have := h.perIp ip; simp only [hIp] at this ⊢; omega
  · intro j u hj hup
    rw [get_set ht] at hj; split at hj
    · cases hj; simp [hpc'] at hup
    · exact h.hsPend j u hj hup
  · intro j k u w hj hk hjk hup hwp hdir
    rw [get_set ht] at hj hk; split at hj
    · cases hj; simp [hpc'] at hup
    · split at hk
      · cases hk; simp [hpc'] at hwp
      · exact h.hsUniq j k u w hj hk hjk hup hwp hdir
  · intro j u hj hup
    rw [get_set ht] at hj; split at hj
    · cases hj; simp [hpc'] at hup
    · next e => exact absurd hup (hother j u hj e)

/-- a thread leaves its handshake (failure: `b' = b`; `savePeer`: `b' = b + addr`): its reservation goes away -/
theorem InvC.leaveHs (h : InvC c ths b p l) (ht : ths[i]? = some t) (hpc : t.pc = .handshaking)
    (t' : Thread) (hd : t'.dir = t.dir) (hi : t'.ip = t.ip) (hpc' : t'.pc = .closed ∨ t'.pc = .saved)
    (b' : Dir → List Addr)
    (hb : ∀ d, (b' d).length + (upd p t.dir (del t.addr) d).length ≤ (b d).length + (p d).length)
    (hbi : ∀ ip, cnt ip (b' .inb) + cnt ip (upd p t.dir (del t.addr) .inb) ≤ cnt ip (b .inb) + cnt ip (p .inb)) :
    InvC c (ths.set i t') b' (upd p t.dir (del t.addr)) l := by
  have hne : t'.pc ≠ .checked ∧ t'.pc ≠ .handshaking := by rcases hpc' with e | e <;> simp [e]
  refine ⟨?_, ?_, ?_, ?_, ?_, ?_, ?_⟩
  · intro j hj
    obtain ⟨u, hu, hup⟩ := h.lockChecked j hj
    have : j ≠ i := by rintro rfl; rw [ht] at hu; cases hu; simp [hpc] at hup
    exact ⟨u, by rw [get_set ht, if_neg this]; exact hu, hup⟩
  · intro j u hj hup
    rw [get_set ht] at hj; split at hj
    · cases hj; exact absurd hup hne.1
    · exact h.checkedLock j u hj hup
  · intro d; rw [hDir_set ht hd]; have := h.total d; have := hb d; omega
  · intro ip; rw [hIp_set ht hd hi]; have := h.perIp ip; have := hbi ip; omega
  · intro j u hj hup
    rw [get_set ht] at hj; split at hj
    · cases hj; exact absurd hup hne.2
    · next e =>
      have hm := h.hsPend j u hj hup
      by_cases ed : u.dir = t.dir
      · rw [ed, upd_same]; rw [ed] at hm
        exact mem_del.mpr ⟨hm, h.hsUniq j i u t hj ht e hup hpc ed⟩
      · rw [upd_other _ ed]; exact hm
  · intro j k u w hj hk hjk hup hwp hdir
    rw [get_set ht] at hj hk; split at hj
    · cases hj; exact absurd hup hne.2
    · split at hk
      · cases hk; exact absurd hwp hne.2
      · exact h.hsUniq j k u w hj hk hjk hup hwp hdir
  · intro j u hj hup
    rw [get_set ht] at hj; split at hj
    · cases hj; exact absurd hup hne.1
    · have hm := h.fresh j u hj hup
      by_cases ed : u.dir = t.dir
      · rw [ed, upd_same]; rw [ed] at hm
        exact fun hx => hm (mem_del.mp hx).1
      · rw [upd_other _ ed]; exact hm


/-! ### Every step of the repaired controller preserves the invariant -/

def Inv (s : State) : Prop := InvC s.cfg s.threads s.bound s.pend s.lock

@[simp] theorem release_cfg (s : State) (d : Dir) (a : Addr) : (release s d a).cfg = s.cfg := by
  cases d <;> rfl
@[simp] theorem release_threads (s : State) (d : Dir) (a : Addr) : (release s d a).threads = s.threads := by
  cases d <;> rfl
@[simp] theorem release_bound (s : State) (d : Dir) (a : Addr) : (release s d a).bound = s.bound := by
  cases d <;> rfl
@[simp] theorem release_lock (s : State) (d : Dir) (a : Addr) : (release s d a).lock = s.lock := by
  cases d <;> rfl
@[simp] theorem release_pend (s : State) (d : Dir) (a : Addr) : (release s d a).pend = upd s.pend d (del a) := by
  cases d <;> rfl

@[simp] theorem removePeer_cfg (s : State) (t : Thread) : (removePeer s t).1.cfg = s.cfg := by
  unfold removePeer; cases peersGet s.peers t.pid <;> simp only [] <;> (try split) <;> rfl
@[simp] theorem removePeer_threads (s : State) (t : Thread) : (removePeer s t).1.threads = s.threads := by
  unfold removePeer; cases peersGet s.peers t.pid <;> simp only [] <;> (try split) <;> rfl
@[simp] theorem removePeer_pend (s : State) (t : Thread) : (removePeer s t).1.pend = s.pend := by
  unfold removePeer; cases peersGet s.peers t.pid <;> simp only [] <;> (try split) <;> rfl
@[simp] theorem removePeer_lock (s : State) (t : Thread) : (removePeer s t).1.lock = s.lock := by
  unfold removePeer; cases peersGet s.peers t.pid <;> simp only [] <;> (try split) <;> rfl
@[simp] theorem removePeer_bound (s : State) (t : Thread) :
    (removePeer s t).1.bound = upd s.bound t.dir (del t.addr) := by
  unfold removePeer; cases peersGet s.peers t.pid <;> simp only [] <;> (try split) <;> rfl

theorem check_none {s : State} {t : Thread} (h : check s t = none) :
    t.addr ∉ s.pend t.dir ∧ (s.bound t.dir).length + (s.pend t.dir).length < s.cfg.max t.dir ∧
    (t.dir = .inb → cnt t.ip (s.bound .inb) + cnt t.ip (s.pend .inb) < s.cfg.maxIp) := by
  unfold check at h
  split at h; · cases h
  split at h; · cases h
  split at h; · cases h
  split at h; · cases h
  next h1 _ h3 h4 =>
  simp only [hasAddr, Bool.or_eq_true, decide_eq_true_eq, not_or] at h1
  simp only [slots, ipSlots, ge_iff_le, Nat.not_le, not_and] at h3 h4
  refine ⟨?_, h3, h4⟩
  cases t.dir
  · exact h1.1.2
  · exact h1.2

theorem leave_fail_len (p b : Dir → List Addr) (d : Dir) (a : Addr) (d' : Dir) :
    (b d').length + (upd p d (del a) d').length ≤ (b d').length + (p d').length := by
  by_cases e : d' = d
  · subst e; rw [upd_same]; have := length_del_le a (p d'); omega
  · rw [upd_other _ e]; omega

theorem leave_fail_cnt (p b : Dir → List Addr) (d : Dir) (a : Addr) (ip : Ip) :
    cnt ip (b .inb) + cnt ip (upd p d (del a) .inb) ≤ cnt ip (b .inb) + cnt ip (p .inb) := by
  by_cases e : Dir.inb = d
  · subst e; rw [upd_same]; have := cnt_del_le ip a (p .inb); omega
  · rw [upd_other _ e]; omega

theorem leave_save_len (p b : Dir → List Addr) (d : Dir) (a : Addr) (ha : a ∈ p d) (d' : Dir) :
    (upd b d (ins a) d').length + (upd p d (del a) d').length ≤ (b d').length + (p d').length := by
  by_cases e : d' = d
  · subst e; rw [upd_same, upd_same]; have := length_del_lt ha; have := length_ins_le a (b d'); omega
  · rw [upd_other _ e, upd_other _ e]; omega

theorem leave_save_cnt (p b : Dir → List Addr) (d : Dir) (a : Addr) (ha : a ∈ p d) (ip : Ip) :
    cnt ip (upd b d (ins a) .inb) + cnt ip (upd p d (del a) .inb) ≤ cnt ip (b .inb) + cnt ip (p .inb) := by
  by_cases e : Dir.inb = d
  · subst e; rw [upd_same, upd_same]
    have h1 := cnt_ins_le ip a (b .inb)
    by_cases e2 : ipOf a = ip
    · have := cnt_del_lt ha e2; rw [if_pos e2] at h1; omega
    · have := cnt_del_le ip a (p .inb); rw [if_neg e2] at h1; omega
  · rw [upd_other _ e, upd_other _ e]; omega

theorem close_len (b : Dir → List Addr) (d : Dir) (a : Addr) (d' : Dir) :
    (upd b d (del a) d').length ≤ (b d').length := by
  by_cases e : d' = d
  · subst e; rw [upd_same]; exact length_del_le a _
  · rw [upd_other _ e]; omega

theorem close_cnt (b : Dir → List Addr) (d : Dir) (a : Addr) (ip : Ip) :
    cnt ip (upd b d (del a) .inb) ≤ cnt ip (b .inb) := by
  by_cases e : Dir.inb = d
  · subst e; rw [upd_same]; exact cnt_del_le ip a _
  · rw [upd_other _ e]; omega

theorem upd_del_ins {p : Dir → List Addr} {d : Dir} {a : Addr} (h : a ∉ p d) :
    upd (upd p d (ins a)) d (del a) = p := by
  funext d'
  by_cases e : d' = d
  · subst e; rw [upd_same, upd_same, del_ins_of_not_mem h]
  · rw [upd_other _ e, upd_other _ e]

theorem step_inv {s : State} (h : Inv s) (i : Nat) : Inv (step s i) := by
  unfold step stepR
  cases ht : s.threads[i]? with
  | none => exact h
  | some t =>
    simp only []
    cases hpc : t.pc with
    | start =>
      simp only []
      split
      · exact h.finish ht (Or.inl hpc) _ rfl rfl rfl
      · split
        · exact h
        · next hl =>
          have hl' : s.lock = none := by cases hs : s.lock <;> simp_all
          split
          · exact h.finish ht (Or.inl hpc) _ rfl rfl rfl
          · next hc =>
            obtain ⟨c1, c2, c3⟩ := check_none hc
            exact InvC.pass (l := s.lock) h ht hpc hl' c1 c2 c3 _ rfl rfl rfl rfl
    | checked =>
      simp only []
      have hfresh := InvC.fresh h i t ht hpc
      cases hd : t.dir with
      | inb =>
        have := InvC.reserve h ht hpc { t with pc := .handshaking } rfl rfl rfl rfl
        simp only []
        rw [← hd]
        exact this
      | outb =>
        simp only []
        split
        · have := InvC.abort h ht hpc { t with pc := .closed } rfl
          rw [← hd]
          show InvC _ _ _ _ _
          simp only [setPc, setThread, upd_del_ins hfresh]
          exact this
        · have := InvC.reserve h ht hpc { t with pc := .handshaking } rfl rfl rfl rfl
          rw [← hd]
          exact this
    | handshaking =>
      simp only []
      have hm := InvC.hsPend h i t ht hpc
      have hfail : ∀ s0 : State, s0.cfg = s.cfg → s0.threads = s.threads → s0.bound = s.bound → s0.pend = s.pend →
          s0.lock = s.lock → Inv (setPc (release s0 t.dir t.addr) i t .closed) := by
        intro s0 e1 e2 e3 e4 e5
        have := InvC.leaveHs h ht hpc { t with pc := .closed } rfl rfl (Or.inl rfl) s.bound
          (leave_fail_len _ _ _ _) (leave_fail_cnt _ _ _ _)
        simp only [Inv, setPc, setThread, release_cfg, release_threads, release_bound, release_lock,
          release_pend, e1, e2, e3, e4, e5]
        exact this
      split
      · exact hfail _ rfl rfl rfl rfl rfl
      · exact hfail _ rfl rfl rfl rfl rfl
      · split
        · exact hfail _ rfl rfl rfl rfl rfl
        · split
          · exact hfail _ rfl rfl rfl rfl rfl
          · have := InvC.leaveHs h ht hpc { t with pc := .saved, cid := s.nextCid + 1 } rfl rfl (Or.inr rfl)
              (upd s.bound t.dir (ins t.addr)) (leave_save_len _ _ _ _ hm) (leave_save_cnt _ _ _ _ hm)
            simp only [Inv, setThread, release_cfg, release_threads, release_bound, release_lock,
              release_pend]
            exact this
    | saved =>
      simp only []
      have h1 := (InvC.finish h ht (Or.inr hpc) { t with pc := .closed } rfl rfl rfl).shrinkBound
        (upd s.bound t.dir (del t.addr)) (close_len _ _ _) (close_cnt _ _ _)
      simp only [Inv, setPc, setThread, removePeer_cfg, removePeer_threads, removePeer_pend, removePeer_lock,
        removePeer_bound]
      exact h1
    | closed =>
      simp only []
      split <;> exact h


theorem step_cfg (s : State) (i : Nat) : (step s i).cfg = s.cfg := by
  unfold step stepR
  cases s.threads[i]? with
  | none => rfl
  | some t =>
    simp only []
    cases t.pc <;> simp only [] <;> (repeat' split) <;> simp [setPc, setThread]

theorem run_cfg (s : State) (sched : List Nat) : (run s sched).cfg = s.cfg := by
  induction sched generalizing s with
  | nil => rfl
  | cons i r ih =>
    show (run (step s i) r).cfg = s.cfg
    rw [ih]; exact step_cfg s i

theorem inv_init (cfg : Cfg) (ths : List Thread) (h : ∀ t ∈ ths, t.pc = .start) : Inv (init cfg ths) := by
  have hstart : ∀ (i : Nat) (t : Thread), ths[i]? = some t → t.pc = .start := fun i t hi =>
    h t (List.mem_of_getElem? hi)
  refine ⟨?_, ?_, ?_, ?_, ?_, ?_, ?_⟩
  · intro i hi; cases hi
  · intro i t hi hpc; have := hstart i t hi; simp [init] at hi; rw [hstart i t hi] at hpc; cases hpc
  · intro d; simp [init, hDir]
  · intro ip; simp [init, hIp, cnt]
  · intro i t hi hpc; simp [init] at hi; rw [hstart i t hi] at hpc; cases hpc
  · intro i j t u hi _ _ hpc; simp [init] at hi; rw [hstart i t hi] at hpc; cases hpc
  · intro i t hi hpc; simp [init] at hi; rw [hstart i t hi] at hpc; cases hpc

theorem run_inv {s : State} (h : Inv s) (sched : List Nat) : Inv (run s sched) := by
  induction sched generalizing s with
  | nil => exact h
  | cons i r ih => exact ih (step_inv h i)

/-- established + reserved ≤ limit, for every direction and every remote ip -/
theorem Inv.reserved_le {s : State} (h : Inv s) :
    (∀ d, (s.bound d).length + (s.pend d).length ≤ s.cfg.max d) ∧
    (∀ ip, cnt ip (s.bound .inb) + cnt ip (s.pend .inb) ≤ s.cfg.maxIp) :=
  ⟨fun d => by have := h.total d; omega, fun ip => by have := h.perIp ip; omega⟩

theorem Inv.limits {s : State} (h : Inv s) : LimitsHold s := by
  obtain ⟨h1, h2⟩ := h.reserved_le
  exact ⟨by have := h1 .inb; simp only [Cfg.max] at this; omega, fun ip => by have := h2 ip; omega,
    by have := h1 .outb; simp only [Cfg.max] at this; omega⟩

/-! ### Established connections (threads in `saved`) inject into the established-address set -/

/-- pigeonhole: threads satisfying `P` carry pairwise different keys, all in `L` ⇒ there are at most `|L|` of them -/
theorem filter_length_le_of_inj {α : Type} [DecidableEq α] (P : Thread → Bool) (f : Thread → α) :
    ∀ (ths : List Thread) (L : List α),
      (∀ (i : Nat) (t : Thread), ths[i]? = some t → P t = true → f t ∈ L) →
      (∀ (i j : Nat) (t u : Thread), ths[i]? = some t → ths[j]? = some u → i ≠ j → P t = true → P u = true → f t ≠ f u) →
      (ths.filter P).length ≤ L.length
  | [], _, _, _ => by simp
  | x :: r, L, hmem, hinj => by
    by_cases hx : P x = true
    · have hxL : f x ∈ L := hmem 0 x (by simp) hx
      have ih := filter_length_le_of_inj P f r (L.erase (f x))
        (fun i t hi hp => by
          have h1 : f t ∈ L := hmem (i + 1) t (by simpa using hi) hp
          have h2 : f t ≠ f x := hinj (i + 1) 0 t x (by simpa using hi) (by simp) (by omega) hp hx
          exact (List.mem_erase_of_ne h2).mpr h1)
        (fun i j t u hi hj hij hp hq =>
          hinj (i + 1) (j + 1) t u (by simpa using hi) (by simpa using hj) (by omega) hp hq)
      have hl := List.length_erase_of_mem hxL
      have hpos : 0 < L.length := List.length_pos_of_mem hxL
      simp only [List.filter_cons, hx, if_true, List.length_cons]
      omega
    · have ih := filter_length_le_of_inj P f r L
        (fun i t hi hp => hmem (i + 1) t (by simpa using hi) hp)
        (fun i j t u hi hj hij hp hq =>
          hinj (i + 1) (j + 1) t u (by simpa using hi) (by simpa using hj) (by omega) hp hq)
      simp only [List.filter_cons, hx]
      simpa using ih

structure InvE (ths : List Thread) (b : Dir → List Addr) : Prop where
  sb : ∀ (i : Nat) (t : Thread), ths[i]? = some t → t.pc = .saved → t.addr ∈ b t.dir
  su : ∀ (i j : Nat) (t u : Thread), ths[i]? = some t → ths[j]? = some u → i ≠ j → t.pc = .saved →
    u.pc = .saved → t.dir = u.dir → t.addr ≠ u.addr
  hb : ∀ (i : Nat) (t : Thread), ths[i]? = some t → t.pc = .handshaking → t.addr ∉ b t.dir
  fb : ∀ (i : Nat) (t : Thread), ths[i]? = some t → t.pc = .checked → t.addr ∉ b t.dir

variable {ths : List Thread} {b : Dir → List Addr} {i : Nat} {t : Thread}

/-- thread `i` changes its pc to something other than `saved`; the established set is untouched -/
theorem InvE.move (e : InvE ths b) (ht : ths[i]? = some t) (t' : Thread) (hd : t'.dir = t.dir)
    (ha : t'.addr = t.addr) (hns : t'.pc ≠ .saved)
    (hhs : t'.pc = .handshaking → t.addr ∉ b t.dir) (hck : t'.pc = .checked → t.addr ∉ b t.dir) :
    InvE (ths.set i t') b := by
  refine ⟨?_, ?_, ?_, ?_⟩
  · intro j u hj hup
    rw [get_set ht] at hj; split at hj
    · cases hj; exact absurd hup hns
    · exact e.sb j u hj hup
  · intro j k u w hj hk hjk hup hwp hdir
    rw [get_set ht] at hj hk; split at hj
    · cases hj; exact absurd hup hns
    · split at hk
      · cases hk; exact absurd hwp hns
      · exact e.su j k u w hj hk hjk hup hwp hdir
  · intro j u hj hup
    rw [get_set ht] at hj; split at hj
    · cases hj; rw [ha, hd]; exact hhs hup
    · exact e.hb j u hj hup
  · intro j u hj hup
    rw [get_set ht] at hj; split at hj
    · cases hj; rw [ha, hd]; exact hck hup
    · exact e.fb j u hj hup

/-- `savePeer` -/
theorem InvE.save {c : Cfg} {p : Dir → List Addr} {l : Option Nat} (e : InvE ths b) (h : InvC c ths b p l)
    (ht : ths[i]? = some t) (hpc : t.pc = .handshaking) (t' : Thread) (hd : t'.dir = t.dir)
    (ha : t'.addr = t.addr) (hpc' : t'.pc = .saved) :
    InvE (ths.set i t') (upd b t.dir (ins t.addr)) := by
  have hnb := e.hb i t ht hpc
  have hp := h.hsPend i t ht hpc
  have mono : ∀ (u : Thread), u.addr ∈ b u.dir → u.addr ∈ upd b t.dir (ins t.addr) u.dir := by
    intro u hu
    by_cases ed : u.dir = t.dir
    · rw [ed, upd_same]; rw [ed] at hu; exact mem_ins.mpr (Or.inr hu)
    · rw [upd_other _ ed]; exact hu
  have anti : ∀ (u : Thread), u.addr ∉ b u.dir → (u.dir = t.dir → u.addr ≠ t.addr) →
      u.addr ∉ upd b t.dir (ins t.addr) u.dir := by
    intro u hu hne
    by_cases ed : u.dir = t.dir
    · rw [ed, upd_same]; rw [ed] at hu
      intro hx; rcases mem_ins.mp hx with hx | hx
      · exact hne ed hx
      · exact hu hx
    · rw [upd_other _ ed]; exact hu
  refine ⟨?_, ?_, ?_, ?_⟩
  · intro j u hj hup
    rw [get_set ht] at hj; split at hj
    · cases hj; rw [ha, hd, upd_same]; exact mem_ins.mpr (Or.inl rfl)
    · exact mono u (e.sb j u hj hup)
  · intro j k u w hj hk hjk hup hwp hdir
    rw [get_set ht] at hj hk; split at hj
    · next ej =>
      cases hj
      split at hk
      · next ek => exact absurd (ej.trans ek.symm) hjk
      · have hw := e.sb k w hk hwp
        rw [ha]; rw [hd] at hdir
        intro ee; rw [← hdir, ← ee] at hw; exact hnb hw
    · split at hk
      · cases hk
        have hu := e.sb j u hj hup
        rw [ha]; rw [hd] at hdir
        intro ee; rw [hdir, ee] at hu; exact hnb hu
      · exact e.su j k u w hj hk hjk hup hwp hdir
  · intro j u hj hup
    rw [get_set ht] at hj; split at hj
    · cases hj; simp [hpc'] at hup
    · next ej => exact anti u (e.hb j u hj hup) (fun ed => h.hsUniq j i u t hj ht ej hup hpc ed)
  · intro j u hj hup
    rw [get_set ht] at hj; split at hj
    · cases hj; simp [hpc'] at hup
    · refine anti u (e.fb j u hj hup) (fun ed ee => ?_)
      have := h.fresh j u hj hup
      rw [ed, ee] at this; exact this hp

/-- `removePeer` -/
theorem InvE.close (e : InvE ths b) (ht : ths[i]? = some t) (hpc : t.pc = .saved) (t' : Thread)
    (hpc' : t'.pc = .closed) :
    InvE (ths.set i t') (upd b t.dir (del t.addr)) := by
  have anti : ∀ (u : Thread), u.addr ∉ b u.dir → u.addr ∉ upd b t.dir (del t.addr) u.dir := by
    intro u hu
    by_cases ed : u.dir = t.dir
    · rw [ed, upd_same]; rw [ed] at hu; exact fun hx => hu (mem_del.mp hx).1
    · rw [upd_other _ ed]; exact hu
  refine ⟨?_, ?_, ?_, ?_⟩
  · intro j u hj hup
    rw [get_set ht] at hj; split at hj
    · cases hj; simp [hpc'] at hup
    · next ej =>
      have hu := e.sb j u hj hup
      by_cases ed : u.dir = t.dir
      · rw [ed, upd_same]; rw [ed] at hu
        exact mem_del.mpr ⟨hu, e.su j i u t hj ht ej hup hpc ed⟩
      · rw [upd_other _ ed]; exact hu
  · intro j k u w hj hk hjk hup hwp hdir
    rw [get_set ht] at hj hk; split at hj
    · cases hj; simp [hpc'] at hup
    · split at hk
      · cases hk; simp [hpc'] at hwp
      · exact e.su j k u w hj hk hjk hup hwp hdir
  · intro j u hj hup
    rw [get_set ht] at hj; split at hj
    · cases hj; simp [hpc'] at hup
    · exact anti u (e.hb j u hj hup)
  · intro j u hj hup
    rw [get_set ht] at hj; split at hj
    · cases hj; simp [hpc'] at hup
    · exact anti u (e.fb j u hj hup)


theorem check_none_bound {s : State} {t : Thread} (h : check s t = none) :
    t.addr ∉ s.bound t.dir := by
  unfold check at h
  split at h; · cases h
  next h1 =>
  simp only [hasAddr, Bool.or_eq_true, decide_eq_true_eq, not_or] at h1
  cases t.dir
  · exact h1.1.1.1.1
  · exact h1.1.1.1.2

def InvF (s : State) : Prop := Inv s ∧ InvE s.threads s.bound

theorem step_invE {s : State} (h : Inv s) (e : InvE s.threads s.bound) (i : Nat) :
    InvE (step s i).threads (step s i).bound := by
  unfold step stepR
  cases ht : s.threads[i]? with
  | none => exact e
  | some t =>
    simp only []
    cases hpc : t.pc with
    | start =>
      simp only []
      split
      · exact e.move ht { t with pc := .closed } rfl rfl (by simp) (by simp) (by simp)
      · split
        · exact e
        · split
          · exact e.move ht { t with pc := .closed } rfl rfl (by simp) (by simp) (by simp)
          · next hc =>
            exact e.move ht { t with pc := .checked } rfl rfl (by simp) (by simp)
              (fun _ => check_none_bound hc)
    | checked =>
      simp only []
      have hfb := e.fb i t ht hpc
      cases hd : t.dir with
      | inb =>
        simp only []
        exact e.move ht { t with pc := .handshaking } rfl rfl (by simp) (fun _ => hfb) (by simp)
      | outb =>
        simp only []
        split
        · exact e.move ht { t with pc := .closed } rfl rfl (by simp) (by simp) (by simp)
        · exact e.move ht { t with pc := .handshaking } rfl rfl (by simp) (fun _ => hfb) (by simp)
    | handshaking =>
      simp only []
      have hfail : ∀ s0 : State, s0.threads = s.threads → s0.bound = s.bound →
          InvE (setPc (release s0 t.dir t.addr) i t .closed).threads
            (setPc (release s0 t.dir t.addr) i t .closed).bound := by
        intro s0 e2 e3
        simp only [setPc, setThread, release_threads, release_bound, e2, e3]
        exact e.move ht { t with pc := .closed } rfl rfl (by simp) (by simp) (by simp)
      split
      · exact hfail _ rfl rfl
      · exact hfail _ rfl rfl
      · split
        · exact hfail _ rfl rfl
        · split
          · exact hfail _ rfl rfl
          · simp only [setThread, release_threads, release_bound]
            exact e.save h ht hpc { t with pc := .saved, cid := s.nextCid + 1 } rfl rfl rfl
    | saved =>
      simp only []
      have h1 := e.close ht hpc { t with pc := .closed } rfl
      simp only [setPc, setThread, removePeer_threads, removePeer_bound]
      exact h1
    | closed =>
      -- a repeated Close() of a stale handle does nothing (closeOnce)
      simp only []
      split <;> exact e

theorem invE_init (cfg : Cfg) (ths : List Thread) (h : ∀ t ∈ ths, t.pc = .start) :
    InvE (init cfg ths).threads (init cfg ths).bound := by
  have hstart : ∀ (i : Nat) (t : Thread), ths[i]? = some t → t.pc = .start := fun i t hi =>
    h t (List.mem_of_getElem? hi)
  refine ⟨?_, ?_, ?_, ?_⟩
  · intro i t hi hpc; simp [init] at hi; rw [hstart i t hi] at hpc; cases hpc
  · intro i j t u hi _ _ hpc; simp [init] at hi; rw [hstart i t hi] at hpc; cases hpc
  · intro i t hi hpc; simp [init] at hi; rw [hstart i t hi] at hpc; cases hpc
  · intro i t hi hpc; simp [init] at hi; rw [hstart i t hi] at hpc; cases hpc

theorem step_invF {s : State} (h : InvF s) (i : Nat) : InvF (step s i) :=
  ⟨step_inv h.1 i, step_invE h.1 h.2 i⟩

theorem run_invF {s : State} (h : InvF s) (sched : List Nat) : InvF (run s sched) := by
  induction sched generalizing s with
  | nil => exact h
  | cons i r ih => exact ih (step_invF h i)

theorem InvE.established_le {s : State} (e : InvE s.threads s.bound) (d : Dir) :
    established s d ≤ (s.bound d).length := by
  unfold established
  refine filter_length_le_of_inj _ Thread.addr s.threads (s.bound d) ?_ ?_
  · intro i t hi hp
    simp only [decide_eq_true_eq] at hp
    have := e.sb i t hi hp.2
    rw [hp.1] at this; exact this
  · intro i j t u hi hj hij hp hq
    simp only [decide_eq_true_eq] at hp hq
    exact e.su i j t u hi hj hij hp.2 hq.2 (hp.1.trans hq.1.symm)

theorem InvE.establishedIp_le {s : State} (e : InvE s.threads s.bound) (ip : Ip) :
    establishedIp s ip ≤ cnt ip (s.bound .inb) := by
  unfold establishedIp cnt
  refine filter_length_le_of_inj _ Thread.addr s.threads _ ?_ ?_
  · intro i t hi hp
    simp only [decide_eq_true_eq] at hp
    have := e.sb i t hi hp.2.1
    rw [hp.1] at this
    exact List.mem_filter.mpr ⟨this, by have := hp.2.2; simp only [Thread.ip] at this; simp [this]⟩
  · intro i j t u hi hj hij hp hq
    simp only [decide_eq_true_eq] at hp hq
    exact e.su i j t u hi hj hij hp.2.1 hq.2.1 (hp.1.trans hq.1.symm)


end OntVerif.Proofs.ConnCtl
