import OntVerif.Model.CrossVM
import OntVerif.Proofs.Codec
/-! Helper lemmas for C25 (cross-VM value codec): totality with the fuel measure, round trip by mutual structural recursion. Core-only. -/
namespace OntVerif.Proofs.CrossVM
open OntVerif.Util OntVerif.Model.Codec OntVerif.Model.CrossVM OntVerif.Proofs.Codec

/-- the result is not `.fuel`/`.panic`, and a success satisfies `P` -/
def Res.Safe {α : Type} (P : α → Prop) : Res α → Prop
  | .ok a => P a
  | .err _ => True
  | .fuel => False
  | .panic => False

def rem (s : Src) : Nat := s.bs.length - s.off

theorem nextByte_ok (s : Src) (w : s.wf) (ty : UInt8) (s1 : Src) (h : nextByte s = ((ty, false), s1)) :
    Adv s s1 ∧ s1.off = s.off + 1 := by
  have ha := nextByte_adv s w
  rw [h] at ha
  unfold nextByte at h
  split at h
  · simp at h
  · injection h with _ h
    subst h
    exact ⟨ha, rfl⟩

theorem readSized_safe (s : Src) (w : s.wf) : Res.Safe (fun p => Adv s p.2) (readSized s) := by
  unfold readSized
  obtain ⟨r, s1, h1, a1⟩ := nextUintN_total 4 s w (by unfold two64; omega)
  rw [h1]
  obtain ⟨size, eof⟩ := r
  simp only
  cases eof
  · simp only [Bool.false_eq_true, if_false]
    have hsz : size < two64 := by
      unfold nextUintN at h1
      obtain ⟨d, e, s', hb, _, hd⟩ := nextBytes_total s 4 w (by unfold two64; omega)
      rw [hb] at h1
      cases e
      · simp at h1
        have := fromLE_lt d
        rw [(hd rfl).1] at this
        rw [← h1.1]; unfold two64; omega
      · simp at h1
    obtain ⟨d, e, s2, h2, a2, _⟩ := nextBytes_total s1 size (a1.wf w) hsz
    rw [h2]
    cases e
    · exact a1.trans a2
    · trivial
  · trivial

theorem readFixed_safe (k : Nat) (hk : k < two64) (s : Src) (w : s.wf) : Res.Safe (fun p => Adv s p.2) (readFixed k s) := by
  unfold readFixed
  obtain ⟨r, s1, h1, a1⟩ := nextFixed_total k s w hk
  rw [h1]
  obtain ⟨d, eof⟩ := r
  cases eof
  · exact a1
  · trivial


theorem Res.Safe.mono {α : Type} {P Q : α → Prop} {r : Res α} (h : Res.Safe P r) (hpq : ∀ a, P a → Q a) : Res.Safe Q r := by
  cases r <;> simp_all [Res.Safe]

/-- progress of a successful `DecodeValue`: buffer untouched, cursor strictly advanced and inside the buffer -/
def StepV (s : Src) (p : Val × Src) : Prop := Adv s p.2 ∧ s.off < p.2.off
def StepL (s : Src) (p : List Val × Src) : Prop := Adv s p.2

theorem nextBool_ok (s : Src) (w : s.wf) (b i : Bool) (s2 : Src) (h : nextBool s = ((b, i, false), s2)) : Adv s s2 := by
  have := nextBool_adv s w
  rw [h] at this; exact this

theorem total_aux (f : Nat) :
    (∀ s : Src, s.wf → 2 * rem s + 1 ≤ f → Res.Safe (StepV s) (decV f s)) ∧
    (∀ (s : Src) (n : Nat), s.wf → 2 * rem s + 2 ≤ f → Res.Safe (StepL s) (decL f s n)) := by
  induction f with
  | zero => exact ⟨fun s _ h => by omega, fun s n _ h => by omega⟩
  | succ f ih =>
    obtain ⟨ihV, ihL⟩ := ih
    constructor
    · intro s w hf
      unfold decV
      generalize hnb : nextByte s = nb
      obtain ⟨⟨ty, eof⟩, s1⟩ := nb
      simp only
      cases eof
      · obtain ⟨a1, o1⟩ := nextByte_ok s w ty s1 hnb
        have w1 := a1.wf w
        have lift : ∀ {β : Type} (r : Res (β × Src)), Res.Safe (fun p => Adv s1 p.2) r →
            Res.Safe (fun p : β × Src => Adv s p.2 ∧ s.off < p.2.off) r := by
          intro β r hr
          refine hr.mono ?_
          intro p hp
          exact ⟨a1.trans hp, by have := hp.2.1; omega⟩
        simp only [Bool.false_eq_true, if_false]
        split
        · have := lift _ (readSized_safe s1 w1)
          split <;> simp_all [Res.Safe, StepV]
        split
        · have := lift _ (readSized_safe s1 w1)
          split <;> simp_all [Res.Safe, StepV]
        split
        · have := lift _ (readFixed_safe 20 (by unfold two64; omega) s1 w1)
          split <;> simp_all [Res.Safe, StepV]
        split
        · generalize hb : nextBool s1 = nbo
          obtain ⟨⟨b, irr, e⟩, s2⟩ := nbo
          simp only
          cases e
          · cases irr
            · have a2 := nextBool_ok s1 w1 b false s2 hb
              simp only [Bool.false_eq_true, if_false, Res.Safe, StepV]
              exact ⟨a1.trans a2, by have := a2.2.1; omega⟩
            · simp [Res.Safe]
          · simp [Res.Safe]
        split
        · have := lift _ (readFixed_safe 16 (by unfold two64; omega) s1 w1)
          split <;> simp_all [Res.Safe, StepV]
        split
        · have := lift _ (readFixed_safe 32 (by unfold two64; omega) s1 w1)
          split <;> simp_all [Res.Safe, StepV]
        split
        · obtain ⟨r, s2, h2, a2⟩ := nextUintN_total 4 s1 w1 (by unfold two64; omega)
          rw [h2]
          obtain ⟨size, e⟩ := r
          simp only
          cases e
          · simp only [Bool.false_eq_true, if_false]
            have w2 := a2.wf w1
            have hrem : 2 * rem s2 + 2 ≤ f := by
              have := a2.2.1
              have := a2.2.2
              unfold rem at hf ⊢
              have e1 : s2.bs.length = s.bs.length := by rw [a2.1, a1.1]
              omega
            have hL := ihL s2 size w2 hrem
            split <;> simp_all [Res.Safe, StepV, StepL]
            rename_i l s3 hl
            exact ⟨a1.trans (a2.trans hL), by have := hL.2.1; have := a2.2.1; omega⟩
          · simp [Res.Safe]
        · simp [Res.Safe]
      · simp [Res.Safe]
    · intro s n w hf
      cases n with
      | zero => unfold decL; exact Adv.refl w
      | succ n =>
        unfold decL
        have hV := ihV s w (by omega)
        split
        · rename_i v s1 hv
          rw [hv] at hV
          obtain ⟨a1, o1⟩ := hV
          replace a1 : Adv s s1 := a1
          replace o1 : s.off < s1.off := o1
          have w1 := a1.wf w
          have hrem : 2 * rem s1 + 2 ≤ f := by
            have e1 : s1.bs.length = s.bs.length := by rw [a1.1]
            unfold rem at hf ⊢
            have := a1.2.2
            omega
          have hL := ihL s1 n w1 hrem
          split <;> simp_all [Res.Safe, StepL]
          exact a1.trans hL
        · trivial
        · rename_i h; rw [h] at hV; exact hV
        · rename_i h; rw [h] at hV; exact hV


/-! ## round trip -/

theorem readSized_at (bs pre b rest : Bytes) (off : Nat) (h : bs = pre ++ (writeUintN 4 b.length ++ b) ++ rest)
    (ho : off = pre.length) (hl : bs.length < two64) (hb : b.length < two32) :
    readSized ⟨bs, off⟩ = .ok (b, ⟨bs, off + 4 + b.length⟩) := by
  subst h ho
  unfold readSized
  have e1 : pre ++ (writeUintN 4 b.length ++ b) ++ rest = pre ++ writeUintN 4 b.length ++ (b ++ rest) := by simp
  rw [e1] at hl ⊢
  rw [rt_uintN 4 b.length (by unfold two32 at hb; omega) pre (b ++ rest) hl]
  simp only [Bool.false_eq_true, if_false]
  have e2 : pre ++ writeUintN 4 b.length ++ (b ++ rest) = (pre ++ writeUintN 4 b.length) ++ b ++ rest := by simp
  have e3 : pre.length + 4 = (pre ++ writeUintN 4 b.length).length := by simp [writeUintN, leN_length]
  rw [e2] at hl ⊢
  rw [e3, nextBytes_append _ b rest hl]
  rfl

theorem readFixed_at (bs pre d rest : Bytes) (off : Nat) (h : bs = pre ++ d ++ rest) (ho : off = pre.length)
    (hl : bs.length < two64) : readFixed d.length ⟨bs, off⟩ = .ok (d, ⟨bs, off + d.length⟩) := by
  subst h ho
  unfold readFixed nextFixed
  rw [nextBytes_append pre d rest hl]
  rfl

theorem intOfI128_i128OfInt (i : Int) (d : Bytes) (h : i128OfInt i = some d) : intOfI128 d = i ∧ d.length = 16 := by
  unfold i128OfInt at h
  split at h
  · cases h
  · rename_i hr
    injection h with h
    subst h
    refine ⟨?_, leN_length _ _⟩
    unfold intOfI128
    have hlt : (if i < 0 then i + (two128 : Int) else i).toNat < 256 ^ 16 := by
      unfold two127 two128 at *
      split <;> omega
    simp only [fromLE_leN 16 _ hlt]
    unfold two127 two128 at *
    split <;> split <;> omega

theorem encV_length_pos (v : Val) (a : Bytes) (h : encV v = some a) : 1 ≤ a.length := by
  cases v <;> simp only [encV] at h
  case int i => split at h <;> simp at h; subst h; simp
  case list l => split at h <;> simp at h; subst h; simp
  all_goals (injection h with h; subst h; simp)

theorem nextByte_at (bs pre : Bytes) (tag : UInt8) (tail : Bytes) (off : Nat) (h : bs = pre ++ tag :: tail) (ho : off = pre.length) :
    nextByte ⟨bs, off⟩ = ((tag, false), ⟨bs, off + 1⟩) := by
  subst h ho; exact nextByte_append pre tag tail


theorem mod_two32 (n : Nat) (h : n < two32) : n % two32 = n := Nat.mod_eq_of_lt h

mutual
theorem rtV : (v : Val) → v.wf → (enc : Bytes) → encV v = some enc → (bs pre rest : Bytes) → (off : Nat) →
    bs = pre ++ enc ++ rest → off = pre.length → bs.length < two64 → (f : Nat) → 2 * enc.length ≤ f →
    decV f ⟨bs, off⟩ = .ok (v, ⟨bs, off + enc.length⟩)
  | .bytes b, hw, enc, he, bs, pre, rest, off, hbs, ho, hl, f, hf => by
    simp only [encV] at he; injection he with he; subst he
    simp only [Val.wf] at hw
    cases f with
    | zero => simp at hf
    | succ f =>
      unfold decV
      rw [nextByte_at bs pre 0 (writeUintN 4 (b.length % two32) ++ b ++ rest) off (by simp [hbs]) ho]
      rw [mod_two32 _ hw] at hbs ⊢
      simp only [Bool.false_eq_true, if_false, beq_self_eq_true, if_true]
      rw [readSized_at bs (pre ++ [0]) b rest (off + 1) (by simp [hbs]) (by simp [ho]) hl hw]
      simp [writeUintN, leN_length]; omega
  | .str b, hw, enc, he, bs, pre, rest, off, hbs, ho, hl, f, hf => by
    simp only [encV] at he; injection he with he; subst he
    simp only [Val.wf] at hw
    cases f with
    | zero => simp at hf
    | succ f =>
      unfold decV
      rw [nextByte_at bs pre 1 (writeUintN 4 (b.length % two32) ++ b ++ rest) off (by simp [hbs]) ho]
      rw [mod_two32 _ hw] at hbs ⊢
      have t0 : ((1 : UInt8) == 0) = false := by decide
      simp only [Bool.false_eq_true, if_false, beq_self_eq_true, if_true, t0]
      rw [readSized_at bs (pre ++ [1]) b rest (off + 1) (by simp [hbs]) (by simp [ho]) hl hw]
      simp [writeUintN, leN_length]; omega
  | .addr a, hw, enc, he, bs, pre, rest, off, hbs, ho, hl, f, hf => by
    simp only [encV] at he; injection he with he; subst he
    simp only [Val.wf] at hw
    cases f with
    | zero => simp at hf
    | succ f =>
      unfold decV
      rw [nextByte_at bs pre 2 (a ++ rest) off (by simp [hbs]) ho]
      have t0 : ((2 : UInt8) == 0) = false := by decide
      have t1 : ((2 : UInt8) == 1) = false := by decide
      simp only [Bool.false_eq_true, if_false, beq_self_eq_true, if_true, t0, t1]
      rw [← hw, readFixed_at bs (pre ++ [2]) a rest (off + 1) (by simp [hbs]) (by simp [ho]) hl]
      simp; omega
  | .bool b, hw, enc, he, bs, pre, rest, off, hbs, ho, hl, f, hf => by
    simp only [encV] at he; injection he with he; subst he
    cases f with
    | zero => simp at hf
    | succ f =>
      unfold decV
      rw [nextByte_at bs pre 3 ((if b then 1 else 0) :: rest) off (by simp [hbs]) ho]
      have t0 : ((3 : UInt8) == 0) = false := by decide
      have t1 : ((3 : UInt8) == 1) = false := by decide
      have t2 : ((3 : UInt8) == 2) = false := by decide
      simp only [Bool.false_eq_true, if_false, beq_self_eq_true, if_true, t0, t1, t2]
      unfold nextBool
      rw [nextByte_at bs (pre ++ [3]) (if b then 1 else 0) rest (off + 1) (by simp [hbs]) (by simp [ho])]
      cases b <;> simp <;> omega
  | .int i, hw, enc, he, bs, pre, rest, off, hbs, ho, hl, f, hf => by
    simp only [encV] at he
    split at he
    · rename_i d hd
      injection he with he; subst he
      obtain ⟨hi, hdl⟩ := intOfI128_i128OfInt i d hd
      cases f with
      | zero => simp at hf
      | succ f =>
        unfold decV
        rw [nextByte_at bs pre 4 (d ++ rest) off (by simp [hbs]) ho]
        have t0 : ((4 : UInt8) == 0) = false := by decide
        have t1 : ((4 : UInt8) == 1) = false := by decide
        have t2 : ((4 : UInt8) == 2) = false := by decide
        have t3 : ((4 : UInt8) == 3) = false := by decide
        simp only [Bool.false_eq_true, if_false, beq_self_eq_true, if_true, t0, t1, t2, t3]
        rw [← hdl, readFixed_at bs (pre ++ [4]) d rest (off + 1) (by simp [hbs]) (by simp [ho]) hl]
        simp [hi]; omega
    · cases he
  | .h256 a, hw, enc, he, bs, pre, rest, off, hbs, ho, hl, f, hf => by
    simp only [encV] at he; injection he with he; subst he
    simp only [Val.wf] at hw
    cases f with
    | zero => simp at hf
    | succ f =>
      unfold decV
      rw [nextByte_at bs pre 5 (a ++ rest) off (by simp [hbs]) ho]
      have t0 : ((5 : UInt8) == 0) = false := by decide
      have t1 : ((5 : UInt8) == 1) = false := by decide
      have t2 : ((5 : UInt8) == 2) = false := by decide
      have t3 : ((5 : UInt8) == 3) = false := by decide
      have t4 : ((5 : UInt8) == 4) = false := by decide
      simp only [Bool.false_eq_true, if_false, beq_self_eq_true, if_true, t0, t1, t2, t3, t4]
      rw [← hw, readFixed_at bs (pre ++ [5]) a rest (off + 1) (by simp [hbs]) (by simp [ho]) hl]
      simp; omega
  | .list l, hw, enc, he, bs, pre, rest, off, hbs, ho, hl, f, hf => by
    simp only [encV] at he
    split at he
    · rename_i el hel
      injection he with he; subst he
      simp only [Val.wf] at hw
      obtain ⟨hlen, hwl⟩ := hw
      cases f with
      | zero => simp at hf
      | succ f =>
        unfold decV
        rw [mod_two32 _ hlen] at hbs hf ⊢
        rw [nextByte_at bs pre 0x10 (writeUintN 4 l.length ++ el ++ rest) off (by simp [hbs]) ho]
        have t0 : ((0x10 : UInt8) == 0) = false := by decide
        have t1 : ((0x10 : UInt8) == 1) = false := by decide
        have t2 : ((0x10 : UInt8) == 2) = false := by decide
        have t3 : ((0x10 : UInt8) == 3) = false := by decide
        have t4 : ((0x10 : UInt8) == 4) = false := by decide
        have t5 : ((0x10 : UInt8) == 5) = false := by decide
        simp only [Bool.false_eq_true, if_false, beq_self_eq_true, if_true, t0, t1, t2, t3, t4, t5]
        have hbs2 : bs = (pre ++ [0x10]) ++ writeUintN 4 l.length ++ (el ++ rest) := by simp [hbs]
        have hu := rt_uintN 4 l.length (by unfold two32 at hlen; omega) (pre ++ [0x10]) (el ++ rest) (by rw [← hbs2]; exact hl)
        rw [← hbs2] at hu
        have ho2 : (pre ++ [0x10]).length = off + 1 := by simp [ho]
        rw [ho2] at hu
        rw [hu]
        simp only [Bool.false_eq_true, if_false]
        have hL := rtL l hwl el hel bs (pre ++ 0x10 :: writeUintN 4 l.length) rest (off + 1 + 4) (by simp [hbs])
          (by simp [ho, writeUintN, leN_length]) hl f (by simp [writeUintN, leN_length] at hf; omega)
        rw [hL]
        simp [writeUintN, leN_length]; omega
    · cases he
theorem rtL : (l : List Val) → wfL l → (enc : Bytes) → encL l = some enc → (bs pre rest : Bytes) → (off : Nat) →
    bs = pre ++ enc ++ rest → off = pre.length → bs.length < two64 → (f : Nat) → 2 * enc.length + 1 ≤ f →
    decL f ⟨bs, off⟩ l.length = .ok (l, ⟨bs, off + enc.length⟩)
  | [], _, enc, he, bs, pre, rest, off, hbs, ho, hl, f, hf => by
    simp only [encL] at he; injection he with he; subst he
    cases f with
    | zero => simp at hf
    | succ f => simp [decL]
  | v :: r, hw, enc, he, bs, pre, rest, off, hbs, ho, hl, f, hf => by
    simp only [encL] at he
    split at he
    · rename_i a b ha hb
      injection he with he; subst he
      simp only [wfL] at hw
      have hpos := encV_length_pos v a ha
      cases f with
      | zero => simp at hf
      | succ f =>
        simp only [List.length_cons, decL]
        simp only [List.length_append] at hf
        rw [rtV v hw.1 a ha bs pre (b ++ rest) off (by simp [hbs]) ho hl f (by omega)]
        simp only
        rw [rtL r hw.2 b hb bs (pre ++ a) rest (off + a.length) (by simp [hbs]) (by simp [ho]) hl f (by omega)]
        simp; omega
    · cases he
end


mutual
theorem encV_some : (v : Val) → v.wf → ∃ enc, encV v = some enc
  | .bytes _, _ => ⟨_, rfl⟩
  | .str _, _ => ⟨_, rfl⟩
  | .addr _, _ => ⟨_, rfl⟩
  | .bool _, _ => ⟨_, rfl⟩
  | .h256 _, _ => ⟨_, rfl⟩
  | .int i, hw => by
    simp only [Val.wf] at hw
    have : ∃ d, i128OfInt i = some d := by
      unfold i128OfInt
      have : ¬ (i > (two127 : Int) - 1 ∨ i < -(two127 : Int)) := by omega
      simp only [this, if_false]
      exact ⟨_, rfl⟩
    obtain ⟨d, hd⟩ := this
    exact ⟨0x04 :: d, by simp only [encV, hd]⟩
  | .list l, hw => by
    simp only [Val.wf] at hw
    obtain ⟨el, hel⟩ := encL_some l hw.2
    exact ⟨0x10 :: writeUintN 4 (l.length % two32) ++ el, by simp only [encV, hel]⟩
theorem encL_some : (l : List Val) → wfL l → ∃ enc, encL l = some enc
  | [], _ => ⟨_, rfl⟩
  | v :: r, hw => by
    simp only [wfL] at hw
    obtain ⟨a, ha⟩ := encV_some v hw.1
    obtain ⟨b, hb⟩ := encL_some r hw.2
    exact ⟨a ++ b, by simp only [encL, ha, hb]⟩
end

/-! ## canonicity: what decodes is what the encoder writes -/

/-- the bytes between two cursor positions of the same buffer -/
def slice (s s' : Src) : Bytes := (s.bs.drop s.off).take (s'.off - s.off)

theorem slice_trans {a b c : Src} (h1 : Adv a b) (h2 : Adv b c) : slice a c = slice a b ++ slice b c := by
  unfold slice
  obtain ⟨e1, o1, l1⟩ := h1
  obtain ⟨e2, o2, l2⟩ := h2
  rw [e1] at l1 e2
  rw [e2] at l2
  rw [e1]
  have : c.off - a.off = (b.off - a.off) + (c.off - b.off) := by omega
  rw [this, List.take_add]
  congr 1
  rw [List.drop_drop]
  congr 2
  omega

theorem slice_self (s : Src) : slice s s = [] := by simp [slice]

theorem nextByte_slice (s : Src) (w : s.wf) (ty : UInt8) (s1 : Src) (h : nextByte s = ((ty, false), s1)) :
    slice s s1 = [ty] ∧ Adv s s1 := by
  obtain ⟨a, o⟩ := nextByte_ok s w ty s1 h
  refine ⟨?_, a⟩
  unfold nextByte at h
  split at h
  · simp at h
  · rename_i b hb
    injection h with h1 h2
    injection h1 with h1 _
    subst h1 h2
    unfold slice
    simp only [Nat.add_sub_cancel_left]
    have := List.getElem?_eq_some_iff.mp hb
    obtain ⟨hlt, hget⟩ := this
    rw [List.drop_eq_getElem_cons hlt, hget]
    simp

theorem nextBytes_slice (s : Src) (w : s.wf) (n : Nat) (hn : n < two64) (d : Bytes) (s1 : Src)
    (h : nextBytes s n = some ((d, false), s1)) : slice s s1 = d ∧ d.length = n ∧ Adv s s1 := by
  obtain ⟨d', e, s', h', a, hd⟩ := nextBytes_total s n w hn
  rw [h] at h'
  injection h' with h'
  injection h' with h1 h2
  injection h1 with h1 h3
  subst h1 h2 h3
  obtain ⟨hl, ho, he⟩ := hd rfl
  refine ⟨?_, hl, a⟩
  unfold slice
  rw [ho, he]
  simp

theorem nextUintN_slice (k : Nat) (hk : k ≤ 8) (s : Src) (w : s.wf) (v : Nat) (s1 : Src)
    (h : nextUintN k s = some ((v, false), s1)) : slice s s1 = writeUintN k v ∧ v < 256 ^ k ∧ Adv s s1 := by
  unfold nextUintN at h
  obtain ⟨d, e, s', hb, a, hd⟩ := nextBytes_total s k w (by unfold two64; omega)
  rw [hb] at h
  cases e
  · simp only [Bool.false_eq_true, if_false] at h
    injection h with h; injection h with h1 h2; injection h1 with h1 _
    subst h1 h2
    obtain ⟨hs, hl, _⟩ := nextBytes_slice s w k (by unfold two64; omega) d s' hb
    refine ⟨?_, ?_, a⟩
    · rw [hs]; unfold writeUintN; rw [← hl, leN_fromLE]
    · rw [← hl]; exact fromLE_lt d
  · simp at h

theorem readSized_slice (s : Src) (w : s.wf) (b : Bytes) (s2 : Src) (h : readSized s = .ok (b, s2)) :
    slice s s2 = writeUintN 4 b.length ++ b ∧ b.length < two32 ∧ Adv s s2 := by
  unfold readSized at h
  split at h
  · cases h
  rename_i size eof s1 h1
  cases eof
  · simp only [Bool.false_eq_true, if_false] at h
    obtain ⟨e1, hv, a1⟩ := nextUintN_slice 4 (by omega) s w size s1 h1
    split at h
    · cases h
    rename_i buf eof2 s2' h2
    cases eof2
    · simp only [Bool.false_eq_true, if_false] at h
      injection h with h; injection h with h3 h4
      subst h3 h4
      obtain ⟨e2, hl, a2⟩ := nextBytes_slice s1 (a1.wf w) size (by unfold two64; omega) buf s2' h2
      refine ⟨?_, by unfold two32; omega, a1.trans a2⟩
      rw [slice_trans a1 a2, e1, e2, hl]
    · simp at h
  · simp at h

theorem readFixed_slice (k : Nat) (hk : k < two64) (s : Src) (w : s.wf) (b : Bytes) (s1 : Src) (h : readFixed k s = .ok (b, s1)) :
    slice s s1 = b ∧ b.length = k ∧ Adv s s1 := by
  unfold readFixed nextFixed at h
  obtain ⟨d, e, s', hb, a, hd⟩ := nextBytes_total s k w hk
  rw [hb] at h
  cases e
  · simp only [Bool.false_eq_true, if_false] at h
    injection h with h; injection h with h1 h2
    subst h1 h2
    exact nextBytes_slice s w k hk d s' hb
  · simp at h

theorem i128OfInt_intOfI128 (d : Bytes) (hd : d.length = 16) :
    i128OfInt (intOfI128 d) = some d ∧ -(two127 : Int) ≤ intOfI128 d ∧ intOfI128 d ≤ (two127 : Int) - 1 := by
  have hlt := fromLE_lt d
  rw [hd] at hlt
  have hle := leN_fromLE d
  rw [hd] at hle
  generalize hu : fromLE d = u at hlt hle
  have hT : two128 = 2 * two127 := by decide
  have hS : 1 ≤ two127 := by decide
  have hlt' : u < two128 := by unfold two128; omega
  have hval : intOfI128 d = if u > two127 - 1 then (u : Int) - (two128 : Int) else (u : Int) := by
    unfold intOfI128; rw [hu]
  by_cases hbig : u > two127 - 1
  · have hv : intOfI128 d = (u : Int) - (two128 : Int) := by rw [hval, if_pos hbig]
    rw [hv]
    refine ⟨?_, by omega, by omega⟩
    unfold i128OfInt
    have h1 : ¬ ((u : Int) - (two128 : Int) > (two127 : Int) - 1 ∨ (u : Int) - (two128 : Int) < -(two127 : Int)) := by omega
    have h2 : (u : Int) - (two128 : Int) < 0 := by omega
    have h3 : ((u : Int) - (two128 : Int) + (two128 : Int)).toNat = u := by omega
    rw [if_neg h1]
    simp only [h2, if_true, h3, hle]
  · have hv : intOfI128 d = (u : Int) := by rw [hval, if_neg hbig]
    rw [hv]
    refine ⟨?_, by omega, by omega⟩
    unfold i128OfInt
    have h1 : ¬ ((u : Int) > (two127 : Int) - 1 ∨ (u : Int) < -(two127 : Int)) := by omega
    have h2 : ¬ ((u : Int) < 0) := by omega
    rw [if_neg h1]
    simp only [h2, if_false, Int.toNat_natCast, hle]


theorem nextBool_slice (s : Src) (w : s.wf) (b : Bool) (s2 : Src) (h : nextBool s = ((b, false, false), s2)) :
    slice s s2 = [if b then 1 else 0] ∧ Adv s s2 := by
  unfold nextBool at h
  generalize hnb : nextByte s = nb at h
  obtain ⟨⟨v, eof⟩, s1⟩ := nb
  simp only at h
  split at h
  · rename_i hv
    injection h with h1 h2; injection h1 with h1 h3; injection h3 with _ h3
    subst h1 h2 h3
    have hv' : v = 0 := by simpa using hv
    subst hv'
    exact nextByte_slice s w 0 s1 hnb
  · split at h
    · rename_i hv
      injection h with h1 h2; injection h1 with h1 h3; injection h3 with _ h3
      subst h1 h2 h3
      have hv' : v = 1 := by simpa using hv
      subst hv'
      exact nextByte_slice s w 1 s1 hnb
    · injection h with h1 h2; injection h1 with h1 h3; injection h3 with h3 _
      cases h3

theorem canon_aux (f : Nat) :
    (∀ s : Src, s.wf → ∀ v s', decV f s = .ok (v, s') → encV v = some (slice s s') ∧ v.wf ∧ Adv s s') ∧
    (∀ (s : Src) (n : Nat), s.wf → ∀ l s', decL f s n = .ok (l, s') →
        encL l = some (slice s s') ∧ wfL l ∧ l.length = n ∧ Adv s s') := by
  induction f with
  | zero =>
    constructor
    · intro s _ v s' h; simp [decV] at h
    · intro s n _ l s' h; simp [decL] at h
  | succ f ih =>
    obtain ⟨ihV, ihL⟩ := ih
    constructor
    · intro s w v s' h
      unfold decV at h
      generalize hnb : nextByte s = nb at h
      obtain ⟨⟨ty, eof⟩, s1⟩ := nb
      simp only at h
      cases eof
      case true => simp at h
      obtain ⟨e1, a1⟩ := nextByte_slice s w ty s1 hnb
      have w1 := a1.wf w
      simp only [Bool.false_eq_true, if_false] at h
      split at h
      · rename_i hty
        have : ty = 0 := by simpa using hty
        subst this
        split at h <;> try (simp at h)
        rename_i b s2 hr
        obtain ⟨h1, h2⟩ := h; subst h1 h2
        obtain ⟨e2, hl, a2⟩ := readSized_slice s1 w1 b s2 hr
        refine ⟨?_, hl, a1.trans a2⟩
        simp only [encV, Nat.mod_eq_of_lt hl]
        rw [slice_trans a1 a2, e1, e2]; simp
      split at h
      · rename_i _ hty
        have : ty = 1 := by simpa using hty
        subst this
        split at h <;> try (simp at h)
        rename_i b s2 hr
        obtain ⟨h1, h2⟩ := h; subst h1 h2
        obtain ⟨e2, hl, a2⟩ := readSized_slice s1 w1 b s2 hr
        refine ⟨?_, hl, a1.trans a2⟩
        simp only [encV, Nat.mod_eq_of_lt hl]
        rw [slice_trans a1 a2, e1, e2]; simp
      split at h
      · rename_i _ _ hty
        have : ty = 2 := by simpa using hty
        subst this
        split at h <;> try (simp at h)
        rename_i b s2 hr
        obtain ⟨h1, h2⟩ := h; subst h1 h2
        obtain ⟨e2, hl, a2⟩ := readFixed_slice 20 (by unfold two64; omega) s1 w1 b s2 hr
        refine ⟨?_, hl, a1.trans a2⟩
        simp only [encV]
        rw [slice_trans a1 a2, e1, e2]; simp
      split at h
      · rename_i _ _ _ hty
        have : ty = 3 := by simpa using hty
        subst this
        generalize hb : nextBool s1 = nbo at h
        obtain ⟨⟨b, irr, e⟩, s2⟩ := nbo
        simp only at h
        cases e
        case true => simp at h
        cases irr
        case true => simp at h
        simp only [Bool.false_eq_true, if_false] at h
        injection h with h; injection h with h1 h2; subst h1 h2
        obtain ⟨e2, a2⟩ := nextBool_slice s1 w1 b s2 hb
        refine ⟨?_, trivial, a1.trans a2⟩
        simp only [encV]
        rw [slice_trans a1 a2, e1, e2]; simp
      split at h
      · rename_i _ _ _ _ hty
        have : ty = 4 := by simpa using hty
        subst this
        split at h <;> try (simp at h)
        rename_i b s2 hr
        obtain ⟨h1, h2⟩ := h; subst h1 h2
        obtain ⟨e2, hl, a2⟩ := readFixed_slice 16 (by unfold two64; omega) s1 w1 b s2 hr
        obtain ⟨hi, hlo, hhi⟩ := i128OfInt_intOfI128 b hl
        refine ⟨?_, ⟨hlo, hhi⟩, a1.trans a2⟩
        simp only [encV, hi]
        rw [slice_trans a1 a2, e1, e2]; simp
      split at h
      · rename_i _ _ _ _ _ hty
        have : ty = 5 := by simpa using hty
        subst this
        split at h <;> try (simp at h)
        rename_i b s2 hr
        obtain ⟨h1, h2⟩ := h; subst h1 h2
        obtain ⟨e2, hl, a2⟩ := readFixed_slice 32 (by unfold two64; omega) s1 w1 b s2 hr
        refine ⟨?_, hl, a1.trans a2⟩
        simp only [encV]
        rw [slice_trans a1 a2, e1, e2]; simp
      split at h
      · rename_i _ _ _ _ _ _ hty
        have : ty = 0x10 := by simpa using hty
        subst this
        split at h
        · cases h
        rename_i size eof s2 hu
        cases eof
        case true => simp at h
        simp only [Bool.false_eq_true, if_false] at h
        obtain ⟨e2, hv, a2⟩ := nextUintN_slice 4 (by omega) s1 w1 size s2 hu
        have w2 := a2.wf w1
        split at h <;> try (simp at h)
        rename_i l s3 hr
        obtain ⟨h1, h2⟩ := h; subst h1 h2
        obtain ⟨e3, hwl, hlen, a3⟩ := ihL s2 size w2 l s3 hr
        have hl32 : l.length < two32 := by rw [hlen]; unfold two32; omega
        refine ⟨?_, ⟨hl32, hwl⟩, a1.trans (a2.trans a3)⟩
        simp only [encV, e3, Nat.mod_eq_of_lt hl32]
        rw [slice_trans a1 (a2.trans a3), slice_trans a2 a3, e1, e2, hlen]; simp
      · cases h
    · intro s n w l s' h
      cases n with
      | zero =>
        simp only [decL] at h
        injection h with h; injection h with h1 h2; subst h1 h2
        exact ⟨by simp [encL, slice_self], trivial, rfl, Adv.refl w⟩
      | succ n =>
        simp only [decL] at h
        split at h <;> try (simp at h)
        rename_i v s1 hv
        obtain ⟨ev, hwv, a1⟩ := ihV s w v s1 hv
        split at h <;> try (simp at h)
        rename_i vs s2 hl
        obtain ⟨h1, h2⟩ := h; subst h1 h2
        obtain ⟨el, hwl, hlen, a2⟩ := ihL s1 n (a1.wf w) vs s2 hl
        refine ⟨?_, ⟨hwv, hwl⟩, by simp [hlen], a1.trans a2⟩
        simp only [encL, ev, el]
        rw [slice_trans a1 a2]


/-! ## the budget is immaterial -/

def isFuel {α : Type} : Res α → Bool
  | .fuel => true
  | _ => false

theorem mono_aux (f : Nat) :
    (∀ s : Src, isFuel (decV f s) = false → decV (f + 1) s = decV f s) ∧
    (∀ (s : Src) (n : Nat), isFuel (decL f s n) = false → decL (f + 1) s n = decL f s n) := by
  induction f with
  | zero =>
    constructor
    · intro s h; simp [decV, isFuel] at h
    · intro s n h; simp [decL, isFuel] at h
  | succ f ih =>
    obtain ⟨ihV, ihL⟩ := ih
    constructor
    · intro s h
      unfold decV at h ⊢
      generalize nextByte s = nb at h ⊢
      obtain ⟨⟨ty, eof⟩, s1⟩ := nb
      simp only at h ⊢
      split
      · rfl
      split
      · rfl
      split
      · rfl
      split
      · rfl
      split
      · rfl
      split
      · rfl
      split
      · rfl
      split
      · rename_i h0 h1 h2 h3 h4 h5 h6 h16
        simp only [h0, h1, h2, h3, h4, h5, h6, h16, if_true] at h
        split
        · rfl
        · rename_i size e s2 hu
          simp only [hu] at h
          split
          · rfl
          · rename_i he
            simp only [he] at h
            have : isFuel (decL f s2 size) = false := by
              cases hd : decL f s2 size <;> simp [hd, isFuel] at h ⊢
            rw [ihL s2 size this]
      · rfl
    · intro s n h
      cases n with
      | zero => simp [decL]
      | succ n =>
        unfold decL at h ⊢
        have h1 : isFuel (decV f s) = false := by
          cases hd : decV f s <;> simp [hd, isFuel] at h ⊢
        rw [ihV s h1]
        cases hv : decV f s with
        | ok p =>
          obtain ⟨v, s1⟩ := p
          simp only [hv] at h ⊢
          have h2 : isFuel (decL f s1 n) = false := by
            cases hd : decL f s1 n <;> simp [hd, isFuel] at h ⊢
          rw [ihL s1 n h2]
        | err e => rfl
        | fuel => rfl
        | panic => rfl

theorem fuel_irrelevant (s : Src) (f : Nat) (h : isFuel (decV f s) = false) (k : Nat) : decV (f + k) s = decV f s := by
  induction k with
  | zero => rfl
  | succ k ih =>
    have : isFuel (decV (f + k) s) = false := by rw [ih]; exact h
    rw [← Nat.add_assoc, (mono_aux (f + k)).1 s this, ih]


end OntVerif.Proofs.CrossVM
