import OntVerif.Model.InvokeFee
import OntVerif.Proofs.Token
/-! Helper lemmas for C05 (core Lean only). The fee transfer is the token model of C06 (`Model/Token.lean`); its
properties are derived here from C06's lemmas (`Proofs/Token.lean`), not from a second model. -/
namespace OntVerif.Proofs.InvokeFee
open OntVerif.Model.InvokeFee
open OntVerif.Model.Token (Tok St Xfer Res Err R)
open OntVerif.Proofs.Token (movedTok)

/-- what `exec` of the token model does for a single ONG state -/
theorem exec_fee (env : OntVerif.Model.Token.Env) (s : St) (x : Xfer) :
    OntVerif.Model.Token.exec env s (.transfer .ong [x]) =
      if x.value = 0 then (.ok, s)
      else if env.ongSupply < x.value then (.err .overSupply, s)
      else match OntVerif.Model.Token.transferPrim env env.caller s.ong x.frm x.to x.value with
        | .fail r t => (.err r, { s with ong := t })
        | .ok _ t => (.ok, { s with ong := t }) := by
  simp only [OntVerif.Model.Token.exec, OntVerif.Model.Token.transferLoop, OntVerif.Model.Token.xferStep,
    OntVerif.Model.Token.Env.supply, OntVerif.Model.Token.St.tok, OntVerif.Model.Token.St.setTok]
  by_cases h0 : x.value = 0
  · simp [h0]
  · by_cases h1 : env.ongSupply < x.value
    · simp [h0, h1]
    · simp only [h0, h1, if_false]
      cases h : OntVerif.Model.Token.transferPrim env env.caller s.ong x.frm x.to x.value with
      | fail r t => rfl
      | ok p t => obtain ⟨a, b⟩ := p; rfl

/-- the fee transfer in closed form, read off the token model -/
theorem feeTransferAmt_eq (S : Nat) (view : Addr → Nat) (p g : Addr) (w : Bool) (amt : Nat) :
    feeTransferAmt S view p g w amt =
      if amt = 0 then .ok view
      else if S < amt then .rejected
      else match OntVerif.Model.Token.transferPrim (feeEnv S p w) none ⟨view, fun _ _ => 0⟩ p g amt with
        | .fail .panic _ => .panic
        | .fail _ _ => .rejected
        | .ok _ t => .ok t.bal := by
  unfold feeTransferAmt
  rw [exec_fee]
  by_cases h0 : amt = 0
  · simp [h0, feeResOf, tokSt]
  · by_cases h1 : S < amt
    · simp [h0, h1, feeResOf, feeEnv]
    · have h1' : ¬ (feeEnv S p w).ongSupply < amt := h1
      simp only [h0, h1, h1', if_false]
      show feeResOf (match OntVerif.Model.Token.transferPrim (feeEnv S p w) none ⟨view, fun _ _ => 0⟩ p g amt with
          | .fail r t => (Res.err r, ({ tokSt view with ong := t } : St))
          | .ok _ t => (Res.ok, { tokSt view with ong := t })) = _
      cases OntVerif.Model.Token.transferPrim (feeEnv S p w) none ⟨view, fun _ _ => 0⟩ p g amt with
      | fail r t => cases r <;> rfl
      | ok q t => rfl

/-- what a completed fee transfer did: authorised by the payer's signature (or nothing moved), covered by the payer's
balance, at most the total supply, debit-then-credit (`movedTok` of C06) -/
theorem feeTransferAmt_ok (S : Nat) (view : Addr → Nat) (p g : Addr) (w : Bool) (amt : Nat) (b : Addr → Nat)
    (h : feeTransferAmt S view p g w amt = .ok b) :
    (amt = 0 ∧ b = view) ∨
    (w = true ∧ amt ≤ view p ∧ amt ≤ S ∧ b = (movedTok ⟨view, fun _ _ => 0⟩ p g amt).bal) := by
  rw [feeTransferAmt_eq] at h
  by_cases h0 : amt = 0
  · left; rw [if_pos h0] at h; injection h with h; exact ⟨h0, h.symm⟩
  · right
    rw [if_neg h0] at h
    by_cases h1 : S < amt
    · rw [if_pos h1] at h; cases h
    · rw [if_neg h1] at h
      cases ht : OntVerif.Model.Token.transferPrim (feeEnv S p w) none ⟨view, fun _ _ => 0⟩ p g amt with
      | fail r t => rw [ht] at h; cases r <;> cases h
      | ok q t =>
        obtain ⟨oF, oT⟩ := q
        rw [ht] at h
        injection h with h
        obtain ⟨hw, hle, _, ht'⟩ := OntVerif.Proofs.Token.transferPrim_ok _ _ _ _ _ _ _ _ _ ht
        refine ⟨?_, hle, Nat.le_of_not_lt h1, by rw [← h, ht']⟩
        cases w with
        | true => rfl
        | false => simp [OntVerif.Model.Token.witness, feeEnv] at hw

theorem feeTransferAmt_spec (S : Nat) (view : Addr → Nat) (p g : Addr) (w : Bool) (amt : Nat) (b : Addr → Nat)
    (h : feeTransferAmt S view p g w amt = .ok b) :
    (∀ a, a ≠ p → a ≠ g → b a = view a) ∧ amt ≤ view p ∧
    (p ≠ g → b p + amt = view p ∧ b g = view g + amt) ∧ (p = g → b p = view p) := by
  rcases feeTransferAmt_ok S view p g w amt b h with ⟨h0, hb⟩ | ⟨_, hle, _, hb⟩
  · subst hb; subst h0; simp
  · subst hb
    refine ⟨?_, hle, ?_, ?_⟩
    · intro a ha hg; simp [movedTok, OntVerif.Model.Token.Tok.setBal, ha, hg]
    · intro hpg
      have hgp : g ≠ p := fun e => hpg e.symm
      simp [movedTok, OntVerif.Model.Token.Tok.setBal, hpg, hgp]
      omega
    · intro hpg; subst hpg
      simp [movedTok, OntVerif.Model.Token.Tok.setBal]
      omega

/-- no Go panic inside the token contract when whole balances up to `2·S` are storable and the two balances involved
do not exceed `S` -/
theorem feeTransferAmt_no_panic (S : Nat) (view : Addr → Nat) (p g : Addr) (w : Bool) (amt : Nat)
    (hS : ∀ b, b ≤ 2 * S → OntVerif.Model.Token.storable b = true)
    (hp : view p ≤ S) (hg : view g ≤ S) : feeTransferAmt S view p g w amt ≠ .panic := by
  intro h
  rw [feeTransferAmt_eq] at h
  by_cases h0 : amt = 0
  · rw [if_pos h0] at h; cases h
  · rw [if_neg h0] at h
    by_cases h1 : S < amt
    · rw [if_pos h1] at h; cases h
    · rw [if_neg h1] at h
      have hv : amt ≤ S := Nat.le_of_not_lt h1
      cases ht : OntVerif.Model.Token.transferPrim (feeEnv S p w) none ⟨view, fun _ _ => 0⟩ p g amt with
      | ok q t => rw [ht] at h; cases h
      | fail r t =>
        rw [ht] at h
        have hr : r = .panic := by cases r <;> first | rfl | cases h
        subst hr
        unfold OntVerif.Model.Token.transferPrim at ht
        split at ht
        · cases ht
        · cases h1' : OntVerif.Model.Token.reduceFrom (⟨view, fun _ _ => 0⟩ : Tok) p amt with
          | fail r1 t1 =>
            rw [h1'] at ht
            simp only at ht
            injection ht with hr1 _
            subst hr1
            unfold OntVerif.Model.Token.reduceFrom at h1'
            simp only at h1'
            split at h1'
            · cases h1'
            · split at h1'
              · cases h1'
              · split at h1'
                · cases h1'
                · next hs => exact hs (hS _ (by omega))
          | ok old t1 =>
            rw [h1'] at ht
            simp only at ht
            obtain ⟨_, hle, ht1⟩ := OntVerif.Proofs.Token.reduceFrom_ok _ _ _ _ _ h1'
            cases h2' : OntVerif.Model.Token.increaseTo t1 g amt with
            | ok o2 t2 => rw [h2'] at ht; cases ht
            | fail r2 t2 =>
              unfold OntVerif.Model.Token.increaseTo at h2'
              simp only at h2'
              split at h2'
              · cases h2'
              · next hs =>
                have hb : t1.bal g ≤ S := by
                  rw [ht1, OntVerif.Proofs.Token.setBal_bal]
                  split
                  · show view p - amt ≤ S; omega
                  · exact hg
                exact hs (hS _ (by omega))

/-! ### the fee transfer with a version-1 amount -/

theorem feeTransfer_spec (view : Addr → Nat) (p g : Addr) (w : Bool) (v : UInt64) (b : Addr → Nat)
    (h : feeTransfer view p g w v = .ok b) :
    (∀ a, a ≠ p → a ≠ g → b a = view a) ∧ unit * v.toNat ≤ view p ∧
    (p ≠ g → b p + unit * v.toNat = view p ∧ b g = view g + unit * v.toNat) ∧ (p = g → b p = view p) :=
  feeTransferAmt_spec _ _ _ _ _ _ _ h

/-- a fee that moved needed the payer's signature -/
theorem feeTransfer_auth (view : Addr → Nat) (p g : Addr) (w : Bool) (v : UInt64) (b : Addr → Nat)
    (h : feeTransfer view p g w v = .ok b) : unit * v.toNat = 0 ∨ w = true := by
  rcases feeTransferAmt_ok _ _ _ _ _ _ _ h with ⟨h0, _⟩ | ⟨hw, _⟩
  · exact Or.inl h0
  · exact Or.inr hw

theorem storable_of_le (b : Nat) (h : b ≤ 2 * totalSupplyV2) : OntVerif.Model.Token.storable b = true := by
  have h2 : 2 * totalSupplyV2 < OntVerif.Model.Token.two64 * OntVerif.Model.Token.SF := by decide
  have h1 : b / OntVerif.Model.Token.SF < OntVerif.Model.Token.two64 :=
    (Nat.div_lt_iff_lt_mul (by decide)).mpr (by omega)
  simp [OntVerif.Model.Token.storable, h1]

theorem feeTransfer_no_panic (view : Addr → Nat) (p g : Addr) (w : Bool) (v : UInt64)
    (hp : view p ≤ totalSupplyV2) (hg : view g ≤ totalSupplyV2) : feeTransfer view p g w v ≠ .panic :=
  feeTransferAmt_no_panic _ _ _ _ _ _ storable_of_le hp hg

/-! ### failed transactions -/

/-- what a failed transaction may do to the overlay, given the gas it reports -/
structure FeeOnly {σ} (gov payer : Addr) (ov ov' : Overlay σ) (consumed : UInt64) : Prop where
  rest : ov'.rest = ov.rest
  frame : ∀ a, a ≠ payer → a ≠ gov → ov'.bal a = ov.bal a
  le : unit * consumed.toNat ≤ ov.bal payer
  payer_ : payer ≠ gov → ov'.bal payer + unit * consumed.toNat = ov.bal payer
  gov_ : payer ≠ gov → ov'.bal gov = ov.bal gov + unit * consumed.toNat
  self : payer = gov → ov'.bal payer = ov.bal payer

def Good {σ} (env : Env) (ov : Overlay σ) (tx : Tx) : Res σ → Prop
  | .done ov' n => n.state = .fail → FeeOnly env.gov tx.payer ov ov' n.gasConsumed
  | _ => True

theorem good_same {σ} (env : Env) (ov : Overlay σ) (tx : Tx) (e : Nat) : Good env ov tx (.done ov ⟨.fail, 0, e⟩) := by
  intro _; exact ⟨rfl, fun _ _ _ => rfl, by simp, by simp, by simp, fun _ => rfl⟩

theorem good_costInvalid {σ} (env : Env) (ov : Overlay σ) (tx : Tx) (g : UInt64) : Good env ov tx (costInvalid env ov tx g) := by
  unfold costInvalid
  split
  · exact good_same env ov tx 0
  · trivial
  · next b hb =>
    obtain ⟨h1, h2, h3, h4⟩ := feeTransfer_spec _ _ _ _ _ _ hb
    intro _
    exact ⟨rfl, h1, h2, fun h => (h3 h).1, fun h => (h3 h).2, h4⟩

theorem good_chargeAndCommit {σ} (env : Env) (ov : Overlay σ) (tx : Tx) (out : ExecOutcome σ) (c b : UInt64) :
    Good env ov tx (chargeAndCommit env ov tx out c b) := by
  unfold chargeAndCommit
  dsimp only
  split
  · exact good_same _ _ _ _
  · trivial
  · intro h; cases h

theorem good_afterExec {σ} (env : Env) (ov : Overlay σ) (tx : Tx) (out : ExecOutcome σ) (ob av : UInt64) :
    Good env ov tx (afterExec env ov tx out ob av) := by
  unfold afterExec
  split; · trivial
  split
  · split
    · exact good_costInvalid _ _ _ _
    · exact good_same _ _ _ _
  · split
    · split
      · exact good_costInvalid _ _ _ _
      · exact good_chargeAndCommit _ _ _ _ _ _
    · intro h; cases h

theorem good_invoke {σ} (v : Variant) (env : Env) (ov : Overlay σ) (tx : Tx) (out : ExecOutcome σ) :
    Good env ov tx (invoke v env ov tx out) := by
  unfold invoke
  split
  · split; · trivial
    dsimp only
    split; · exact good_costInvalid _ _ _ _
    split; · exact good_costInvalid _ _ _ _
    split; · exact good_costInvalid _ _ _ _
    split; · exact good_costInvalid _ _ _ _
    exact good_afterExec _ _ _ _ _ _
  · exact good_afterExec _ _ _ _ _ _

/-! ### totality -/

/-- a result is a panic only under condition `c` -/
def PanicOnly {σ} (c : Prop) : Res σ → Prop
  | .panic => c
  | _ => True

theorem po_costInvalid {σ} (env : Env) (ov : Overlay σ) (tx : Tx) (g : UInt64) :
    PanicOnly (¬ (ov.bal tx.payer ≤ totalSupplyV2 ∧ ov.bal env.gov ≤ totalSupplyV2)) (costInvalid env ov tx g) := by
  unfold costInvalid
  split
  · trivial
  · next h => intro hb; exact feeTransfer_no_panic _ _ _ _ _ hb.1 hb.2 h
  · trivial

theorem po_chargeAndCommit {σ} (env : Env) (ov : Overlay σ) (tx : Tx) (out : ExecOutcome σ) (c b : UInt64) :
    PanicOnly (¬ (out.st.bal tx.payer ≤ totalSupplyV2 ∧ out.st.bal env.gov ≤ totalSupplyV2)) (chargeAndCommit env ov tx out c b) := by
  unfold chargeAndCommit
  dsimp only
  split
  · trivial
  · next h => intro hb; exact feeTransfer_no_panic _ _ _ _ _ hb.1 hb.2 h
  · trivial

/-- the supply invariant (C06_conserve) on the balances the fee transfer touches, before and after the execution -/
def Bounded {σ} (env : Env) (ov : Overlay σ) (tx : Tx) (out : ExecOutcome σ) : Prop :=
  (ov.bal tx.payer ≤ totalSupplyV2 ∧ ov.bal env.gov ≤ totalSupplyV2) ∧
  (out.st.bal tx.payer ≤ totalSupplyV2 ∧ out.st.bal env.gov ≤ totalSupplyV2)

theorem PanicOnly.mono {σ} {c c' : Prop} (h : c → c') : ∀ r : Res σ, PanicOnly c r → PanicOnly c' r
  | .panic, hp => h hp
  | .blockError, _ => trivial
  | .done _ _, _ => trivial

theorem po_afterExec {σ} (env : Env) (ov : Overlay σ) (tx : Tx) (out : ExecOutcome σ) (ob av : UInt64) :
    PanicOnly (¬ Bounded env ov tx out) (afterExec env ov tx out ob av) := by
  unfold afterExec
  split; · trivial
  split
  · split
    · exact PanicOnly.mono (fun h hb => h hb.1) _ (po_costInvalid _ _ _ _)
    · trivial
  · split
    · split
      · exact PanicOnly.mono (fun h hb => h hb.1) _ (po_costInvalid _ _ _ _)
      · exact PanicOnly.mono (fun h hb => h hb.2) _ (po_chargeAndCommit _ _ _ _ _ _)
    · trivial

theorem po_invoke {σ} (v : Variant) (env : Env) (ov : Overlay σ) (tx : Tx) (out : ExecOutcome σ) :
    PanicOnly (¬ Bounded env ov tx out) (invoke v env ov tx out) := by
  have hc : ∀ g, PanicOnly (¬ Bounded env ov tx out) (costInvalid env ov tx g) :=
    fun g => PanicOnly.mono (fun h hb => h hb.1) _ (po_costInvalid _ _ _ _)
  unfold invoke
  split
  · split; · trivial
    dsimp only
    split; · exact hc _
    split; · exact hc _
    split; · exact hc _
    split; · exact hc _
    exact po_afterExec _ _ _ _ _ _
  · exact po_afterExec _ _ _ _ _ _

/-! ### the gas the VM is started with -/

theorem availOf_le (tx : Tx) (ob : UInt64) : availOf tx ob ≤ tx.gasLimit := by
  unfold availOf; dsimp only
  split
  · next h => exact UInt64.le_of_lt h
  · exact UInt64.le_refl _

theorem gasGiven_sound_le {σ} (env : Env) (ov : Overlay σ) (tx : Tx) (g : UInt64)
    (h : gasGiven .sound env ov tx = some g) : g ≤ tx.gasLimit := by
  unfold gasGiven at h
  split at h
  · split at h; · cases h
    dsimp only at h
    split at h; · cases h
    split at h; · cases h
    split at h; · cases h
    split at h; · cases h
    next hu =>
    injection h with h
    subst h
    have hge : calcGasByCodeLen tx.codeLen env.uintCodeGas ≤ availOf tx (balUnits (ov.bal tx.payer)) := by
      simp only [underflows, decide_eq_true_eq] at hu
      exact UInt64.not_lt.mp hu
    have hav := availOf_le tx (balUnits (ov.bal tx.payer))
    rw [UInt64.le_iff_toNat_le] at hge hav ⊢
    rw [UInt64.toNat_sub_of_le _ _ hge]
    omega
  · injection h with h; subst h; exact UInt64.le_refl _

end OntVerif.Proofs.InvokeFee
