import OntVerif.Model.InvokeFee
/-! Helper lemmas for C05 (core Lean only). -/
namespace OntVerif.Proofs.InvokeFee
open OntVerif.Model.InvokeFee

/-- what a failed transaction may do to the overlay, given the gas it reports -/
structure FeeOnly {σ} (gov payer : Addr) (ov ov' : Overlay σ) (consumed : UInt64) : Prop where
  rest : ov'.rest = ov.rest
  frame : ∀ a, a ≠ payer → a ≠ gov → ov'.bal a = ov.bal a
  le : consumed.toNat * unit ≤ ov.bal payer
  payer_ : payer ≠ gov → ov'.bal payer + consumed.toNat * unit = ov.bal payer
  gov_ : payer ≠ gov → ov'.bal gov = ov.bal gov + consumed.toNat * unit
  self : payer = gov → ov'.bal payer = ov.bal payer

theorem feeTransfer_spec (view : Addr → Nat) (p g : Addr) (w : Bool) (v : UInt64) (b : Addr → Nat)
    (h : feeTransfer view p g w v = some b) :
    (∀ a, a ≠ p → a ≠ g → b a = view a) ∧ v.toNat * unit ≤ view p ∧
    (p ≠ g → b p + v.toNat * unit = view p ∧ b g = view g + v.toNat * unit) ∧ (p = g → b p = view p) := by
  unfold feeTransfer at h
  split at h
  · next h0 => cases h; subst h0; simp
  · split at h; · cases h
    split at h; · cases h
    split at h; · cases h
    next hb =>
    cases h
    have hle : v.toNat * unit ≤ view p := Nat.le_of_not_lt hb
    refine ⟨?_, hle, ?_, ?_⟩
    · intro a ha hg; simp [upd, ha, hg]
    · intro hpg
      have hgp : g ≠ p := fun e => hpg e.symm
      simp [upd, hpg, hgp]; omega
    · intro hpg; subst hpg; simp [upd]; omega

def Good {σ} (env : Env) (ov : Overlay σ) (tx : Tx) : Res σ → Prop
  | .done ov' n => n.state = .fail → FeeOnly env.gov tx.payer ov ov' n.gasConsumed
  | _ => True

theorem good_same {σ} (env : Env) (ov : Overlay σ) (tx : Tx) (e : Nat) : Good env ov tx (.done ov ⟨.fail, 0, e⟩) := by
  intro _; exact ⟨rfl, fun _ _ _ => rfl, by simp, by simp, by simp, fun _ => rfl⟩

theorem good_costInvalid {σ} (env : Env) (ov : Overlay σ) (tx : Tx) (g : UInt64) : Good env ov tx (costInvalid env ov tx g) := by
  unfold costInvalid
  split
  · exact good_same env ov tx 0
  · next b hb =>
    obtain ⟨h1, h2, h3, h4⟩ := feeTransfer_spec _ _ _ _ _ _ hb
    intro _
    exact ⟨rfl, h1, h2, fun h => (h3 h).1, fun h => (h3 h).2, h4⟩

theorem good_tunedInvalid {σ} (v : Variant) (env : Env) (ov : Overlay σ) (tx : Tx) (c b : UInt64) :
    Good env ov tx (tunedInvalid v env ov tx c b) := by
  unfold tunedInvalid
  split
  · trivial
  · exact good_costInvalid _ _ _ _

theorem good_chargeAndCommit {σ} (v : Variant) (env : Env) (ov : Overlay σ) (tx : Tx) (out : ExecOutcome σ) (c b : UInt64) :
    Good env ov tx (chargeAndCommit v env ov tx out c b) := by
  unfold chargeAndCommit
  split
  · trivial
  · split
    · exact good_same _ _ _ _
    · intro h; cases h

theorem good_afterExec {σ} (v : Variant) (env : Env) (ov : Overlay σ) (tx : Tx) (out : ExecOutcome σ) (ob av : UInt64) :
    Good env ov tx (afterExec v env ov tx out ob av) := by
  unfold afterExec
  split; · trivial
  split
  · split
    · exact good_tunedInvalid _ _ _ _ _ _
    · exact good_same _ _ _ _
  · split
    · split
      · exact good_tunedInvalid _ _ _ _ _ _
      · exact good_chargeAndCommit _ _ _ _ _ _ _
    · intro h; cases h

theorem good_invoke {σ} (v : Variant) (env : Env) (ov : Overlay σ) (tx : Tx) (out : ExecOutcome σ) :
    Good env ov tx (invoke v env ov tx out) := by
  unfold invoke
  split
  · split; · trivial
    dsimp only
    split; · exact good_costInvalid _ _ _ _
    split; · exact good_costInvalid _ _ _ _
    split; · exact good_costInvalid _ _ _ _
    exact good_afterExec _ _ _ _ _ _ _
  · exact good_afterExec _ _ _ _ _ _ _
theorem tune_none (v : Variant) (t : Bool) (g r c : UInt64) (h : tune v t g r c = none) :
    v = .asShipped ∧ t = true ∧ r = 0 := by
  unfold tune at h
  split at h
  · next ht =>
    split at h
    · next hr => cases v <;> simp_all
    · dsimp only at h
      split at h
      · cases h
      · split at h <;> cases h
  · cases h

/-- a result is a panic only under condition `c` -/
def PanicOnly {σ} (c : Prop) : Res σ → Prop
  | .panic => c
  | _ => True

theorem po_costInvalid {σ} (c : Prop) (env : Env) (ov : Overlay σ) (tx : Tx) (g : UInt64) : PanicOnly c (costInvalid env ov tx g) := by
  unfold costInvalid; split <;> trivial

abbrev PanicCond (v : Variant) (env : Env) (tx : Tx) : Prop :=
  v = .asShipped ∧ env.tuned = true ∧ tx.gasPrice * minTxGas = 0 ∧ isCharge env tx = true

theorem po_tunedInvalid {σ} (v : Variant) (env : Env) (ov : Overlay σ) (tx : Tx) (cg b : UInt64) (hc : isCharge env tx = true) :
    PanicOnly (PanicCond v env tx) (tunedInvalid v env ov tx cg b) := by
  unfold tunedInvalid
  split
  · next h => obtain ⟨a, b, c⟩ := tune_none _ _ _ _ _ h; exact ⟨a, b, c, hc⟩
  · exact po_costInvalid _ _ _ _ _

theorem po_chargeAndCommit {σ} (v : Variant) (env : Env) (ov : Overlay σ) (tx : Tx) (out : ExecOutcome σ) (cg b : UInt64) (hc : isCharge env tx = true) :
    PanicOnly (PanicCond v env tx) (chargeAndCommit v env ov tx out cg b) := by
  unfold chargeAndCommit
  split
  · next h => obtain ⟨a, b, c⟩ := tune_none _ _ _ _ _ h; exact ⟨a, b, c, hc⟩
  · split <;> trivial

theorem po_afterExec {σ} (v : Variant) (env : Env) (ov : Overlay σ) (tx : Tx) (out : ExecOutcome σ) (ob av : UInt64) :
    PanicOnly (PanicCond v env tx) (afterExec v env ov tx out ob av) := by
  unfold afterExec
  split; · trivial
  split
  · split
    · next hc => exact po_tunedInvalid _ _ _ _ _ _ hc
    · trivial
  · split
    · next hc =>
      split
      · exact po_tunedInvalid _ _ _ _ _ _ hc
      · exact po_chargeAndCommit _ _ _ _ _ _ _ hc
    · trivial

theorem po_invoke {σ} (v : Variant) (env : Env) (ov : Overlay σ) (tx : Tx) (out : ExecOutcome σ) :
    PanicOnly (PanicCond v env tx) (invoke v env ov tx out) := by
  unfold invoke
  split
  · split; · trivial
    dsimp only
    split; · exact po_costInvalid _ _ _ _ _
    split; · exact po_costInvalid _ _ _ _ _
    split; · exact po_costInvalid _ _ _ _ _
    exact po_afterExec _ _ _ _ _ _ _
  · exact po_afterExec _ _ _ _ _ _ _

/-- what the transaction pool enforces on admission (`SafeMul(GasLimit, GasPrice)` does not overflow,
`GasLimit >= MinGasLimit = 20000`) excludes the wrap of `GasPrice * MIN_TRANSACTION_GAS` to zero -/
theorem gasRound_ne_zero (gp gl : UInt64) (hp : gp ≠ 0) (hl : minTxGas ≤ gl) (hm : gl.toNat * gp.toNat < 2 ^ 64) :
    gp * minTxGas ≠ 0 := by
  intro h
  have h1 : (gp * minTxGas).toNat = 0 := by rw [h]; rfl
  rw [UInt64.toNat_mul] at h1
  have hl' : (20000 : Nat) ≤ gl.toNat := by
    have := UInt64.le_iff_toNat_le.mp hl; simpa [minTxGas] using this
  have hp' : 0 < gp.toNat := by
    rcases Nat.eq_zero_or_pos gp.toNat with h0 | h0
    · exact absurd (UInt64.toNat_inj.mp (by simpa using h0)) hp
    · exact h0
  have hm20 : minTxGas.toNat = 20000 := rfl
  rw [hm20] at h1
  have hlt : gp.toNat * 20000 < 2 ^ 64 := by
    calc gp.toNat * 20000 ≤ gp.toNat * gl.toNat := Nat.mul_le_mul_left _ hl'
      _ = gl.toNat * gp.toNat := Nat.mul_comm _ _
      _ < 2 ^ 64 := hm
  rw [Nat.mod_eq_of_lt hlt] at h1
  omega
end OntVerif.Proofs.InvokeFee
