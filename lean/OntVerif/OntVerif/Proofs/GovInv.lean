import OntVerif.Model.Gov
/-!
Position invariant of the governance contract (`PosInv`) and its preservation by every operation: the part of `GovInv`
that speaks about positions, pools and statuses (C10).  Resource bounds (`stake ≤ 10^10`, at most 10^4 candidates,
`SplitFee ≤` ONG balance `< 2^64`) are not part of it.
-/
namespace OntVerif.Proofs.GovInv
open OntVerif.Model.Gov

/-! ### pool lemmas -/

def ids (l : List Peer) : List Nat := l.map (·.id)

theorem findPeer_some_mem {l : List Peer} {i : Nat} {q : Peer} (h : findPeer l i = some q) : q ∈ l ∧ q.id = i := by
  induction l with
  | nil => simp [findPeer] at h
  | cons x r ih =>
    simp only [findPeer] at h
    split at h
    · rename_i hx; cases h; exact ⟨by simp, hx⟩
    · obtain ⟨h1, h2⟩ := ih h; exact ⟨by simp [h1], h2⟩

theorem findPeer_none_not_mem {l : List Peer} {i : Nat} (h : findPeer l i = none) : ∀ q ∈ l, q.id ≠ i := by
  induction l with
  | nil => simp
  | cons x r ih =>
    simp only [findPeer] at h
    split at h
    · cases h
    · rename_i hx
      intro q hq
      simp only [List.mem_cons] at hq
      rcases hq with e | hq
      · subst e; exact hx
      · exact ih h q hq

theorem findPeer_of_mem {l : List Peer} (hn : (ids l).Nodup) {q : Peer} (hq : q ∈ l) : findPeer l q.id = some q := by
  induction l with
  | nil => simp at hq
  | cons x r ih =>
    simp only [ids, List.map_cons, List.nodup_cons] at hn
    simp only [List.mem_cons] at hq
    simp only [findPeer]
    rcases hq with e | hq
    · subst e; simp
    · have : x.id ≠ q.id := by
        intro e
        apply hn.1
        rw [e]
        exact List.mem_map_of_mem hq
      simp only [this, if_false]
      exact ih hn.2 hq

theorem ids_setPeer {l : List Peer} {p q : Peer} (h : findPeer l p.id = some q) : ids (setPeer l p) = ids l := by
  induction l with
  | nil => simp [findPeer] at h
  | cons x r ih =>
    simp only [findPeer] at h
    simp only [setPeer]
    split at h
    · rename_i hx; simp [ids, hx]
    · rename_i hx; simp only [hx, if_false, ids, List.map_cons]; congr 1; exact ih h

theorem mem_setPeer {l : List Peer} (hn : (ids l).Nodup) {p q : Peer} (h : findPeer l p.id = some q) (z : Peer) :
    z ∈ setPeer l p ↔ z = p ∨ (z ∈ l ∧ z.id ≠ p.id) := by
  induction l with
  | nil => simp [findPeer] at h
  | cons x r ih =>
    simp only [ids, List.map_cons, List.nodup_cons] at hn
    simp only [findPeer] at h
    simp only [setPeer]
    split at h
    · rename_i hx
      simp only [hx, if_true, List.mem_cons]
      constructor
      · rintro (e | hz)
        · exact Or.inl e
        · right
          refine ⟨Or.inr hz, ?_⟩
          intro e
          apply hn.1
          rw [hx, ← e]
          exact List.mem_map_of_mem hz
      · rintro (e | ⟨hz, hne⟩)
        · exact Or.inl e
        · rcases hz with e | hz
          · subst e; exact absurd hx hne
          · exact Or.inr hz
    · rename_i hx
      simp only [hx, if_false, List.mem_cons]
      rw [ih hn.2 h]
      constructor
      · rintro (e | e | ⟨hz, hne⟩)
        · subst e; exact Or.inr ⟨Or.inl rfl, hx⟩
        · exact Or.inl e
        · exact Or.inr ⟨Or.inr hz, hne⟩
      · rintro (e | ⟨hz, hne⟩)
        · exact Or.inr (Or.inl e)
        · rcases hz with e | hz
          · exact Or.inl e
          · exact Or.inr (Or.inr ⟨hz, hne⟩)

theorem mem_erasePeer {l : List Peer} (hn : (ids l).Nodup) (i : Nat) (z : Peer) :
    z ∈ erasePeer l i ↔ (z ∈ l ∧ z.id ≠ i) := by
  induction l with
  | nil => simp [erasePeer]
  | cons x r ih =>
    simp only [ids, List.map_cons, List.nodup_cons] at hn
    simp only [erasePeer]
    split
    · rename_i hx
      simp only [List.mem_cons]
      constructor
      · intro hz
        refine ⟨Or.inr hz, ?_⟩
        intro e
        apply hn.1
        rw [hx, ← e]
        exact List.mem_map_of_mem hz
      · rintro ⟨e | hz, hne⟩
        · subst e; exact absurd hx hne
        · exact hz
    · rename_i hx
      simp only [List.mem_cons]
      rw [ih hn.2]
      constructor
      · rintro (e | ⟨hz, hne⟩)
        · subst e; exact ⟨Or.inl rfl, hx⟩
        · exact ⟨Or.inr hz, hne⟩
      · rintro ⟨e | hz, hne⟩
        · exact Or.inl e
        · exact Or.inr ⟨hz, hne⟩

theorem ids_erasePeer_sub (l : List Peer) (i : Nat) : ∀ j ∈ ids (erasePeer l i), j ∈ ids l := by
  induction l with
  | nil => simp [erasePeer]
  | cons x r ih =>
    simp only [erasePeer]
    split
    · intro j hj; simp only [ids, List.map_cons, List.mem_cons]; exact Or.inr hj
    · intro j hj
      simp only [ids, List.map_cons, List.mem_cons] at hj ⊢
      rcases hj with e | hj
      · exact Or.inl e
      · exact Or.inr (ih j hj)

theorem nodup_erasePeer {l : List Peer} (hn : (ids l).Nodup) (i : Nat) : (ids (erasePeer l i)).Nodup := by
  induction l with
  | nil => simp [erasePeer, ids]
  | cons x r ih =>
    simp only [ids, List.map_cons, List.nodup_cons] at hn
    simp only [erasePeer]
    split
    · exact hn.2
    · simp only [ids, List.map_cons, List.nodup_cons]
      exact ⟨fun h => hn.1 (ids_erasePeer_sub r i _ h), ih hn.2⟩

/-! ### authorize-record lemmas -/

/-- Σ of `f` over the records of peer `p` -/
def asum (f : Auth → Nat) (p : Nat) : List Auth → Nat
  | [] => 0
  | x :: r => (if x.peer = p then f x else 0) + asum f p r

theorem mem_putAuth {l : List Auth} {y x : Auth} (h : x ∈ putAuth l y) : x = y ∨ x ∈ l := by
  induction l with
  | nil => simp [putAuth] at h; exact Or.inl h
  | cons z r ih =>
    simp only [putAuth] at h
    split at h
    · simp only [List.mem_cons] at h
      rcases h with e | h
      · exact Or.inl e
      · exact Or.inr (by simp [h])
    · simp only [List.mem_cons] at h
      rcases h with e | h
      · exact Or.inr (by simp [e])
      · rcases ih h with e | h'
        · exact Or.inl e
        · exact Or.inr (by simp [h'])

theorem getAuth_mem_or_zero (l : List Auth) (p a : Nat) :
    getAuth l p a ∈ l ∨ getAuth l p a = { peer := p, addr := a } := by
  induction l with
  | nil => simp [getAuth]
  | cons z r ih =>
    simp only [getAuth]
    split
    · simp
    · rcases ih with h | h
      · exact Or.inl (by simp [h])
      · exact Or.inr h

theorem getAuth_ids (l : List Auth) (p a : Nat) : (getAuth l p a).peer = p ∧ (getAuth l p a).addr = a := by
  induction l with
  | nil => simp [getAuth]
  | cons x r ih =>
    by_cases hx : x.peer = p ∧ x.addr = a
    · simp [getAuth, hx]
    · simp [getAuth, hx, ih]

/-- replacing the (first) record with key `(y.peer, y.addr)` changes the sum by the difference on that record;
`f` must vanish on the all-zero record -/
theorem asum_putAuth (f : Auth → Nat) (p : Nat) (l : List Auth) (y : Auth)
    (hz : f { peer := y.peer, addr := y.addr } = 0) :
    asum f p (putAuth l y) + (if y.peer = p then f (getAuth l y.peer y.addr) else 0)
      = asum f p l + (if y.peer = p then f y else 0) := by
  induction l with
  | nil => simp [putAuth, getAuth, asum, hz]
  | cons x r ih =>
    by_cases hx : x.peer = y.peer ∧ x.addr = y.addr
    · simp only [putAuth, getAuth, hx, and_self, if_true, asum, hx.1]; omega
    · simp only [putAuth, getAuth, hx, if_false, asum]; omega

theorem asum_putAuth_other (f : Auth → Nat) (p : Nat) (l : List Auth) (y : Auth) (h : y.peer ≠ p) :
    asum f p (putAuth l y) = asum f p l := by
  induction l with
  | nil => simp [putAuth, asum, h]
  | cons x r ih =>
    by_cases hx : x.peer = y.peer ∧ x.addr = y.addr
    · have : x.peer ≠ p := by rw [hx.1]; exact h
      simp [putAuth, hx, asum, h, this]
    · simp [putAuth, hx, asum, ih]

theorem asum_congr (f g : Auth → Nat) (p : Nat) (l : List Auth) (h : ∀ x ∈ l, x.peer = p → f x = g x) :
    asum f p l = asum g p l := by
  induction l with
  | nil => rfl
  | cons x r ih =>
    simp only [asum]
    rw [ih (fun z hz => h z (by simp [hz]))]
    by_cases hx : x.peer = p
    · simp [hx, h x (by simp) hx]
    · simp [hx]

theorem asum_le (f g : Auth → Nat) (p : Nat) (l : List Auth) (h : ∀ x ∈ l, x.peer = p → f x ≤ g x) :
    asum f p l ≤ asum g p l := by
  induction l with
  | nil => simp [asum]
  | cons x r ih =>
    simp only [asum]
    have := ih (fun z hz => h z (by simp [hz]))
    by_cases hx : x.peer = p
    · have := h x (by simp) hx; simp [hx]; omega
    · simp [hx]; omega

theorem asum_zero (f : Auth → Nat) (p : Nat) (l : List Auth) (h : ∀ x ∈ l, x.peer = p → f x = 0) : asum f p l = 0 := by
  induction l with
  | nil => rfl
  | cons x r ih =>
    simp only [asum]
    rw [ih (fun z hz => h z (by simp [hz]))]
    by_cases hx : x.peer = p
    · simp [hx, h x (by simp) hx]
    · simp [hx]

/-! ### the invariant -/

def actOf (x : Auth) : Nat := x.cons + x.cand + x.new
/-- consensus-side settled position of a record, as seen by a peer owned by `o` -/
def fC (o : Nat) (x : Auth) : Nat := if x.addr = o then 0 else x.cons + x.wcons
/-- candidate-side settled position -/
def fD (o : Nat) (x : Auth) : Nat := if x.addr = o then 0 else x.cand + x.wcand

def zeroed (x : Auth) : Prop := x.cons = 0 ∧ x.cand = 0 ∧ x.new = 0 ∧ x.wcons = 0 ∧ x.wcand = 0

structure PosInv (b : Book) : Prop where
  nodup : (ids b.pool).Nodup
  nodupPrev : (ids b.prevPool).Nodup
  /-- records of peers that are not in the pool, or only registered, hold nothing but unfrozen positions -/
  zero : ∀ x ∈ b.auths, (∀ q ∈ b.pool, q.id = x.peer → q.status = .register) → zeroed x
  /-- `TotalPos` is the sum of the active positions -/
  total : ∀ q ∈ b.pool, q.totalPos = asum actOf q.id b.auths
  /-- a candidate (not consensus) peer has no `WithdrawConsensusPos` -/
  candW : ∀ q ∈ b.pool, q.status = .candidate → ∀ x ∈ b.auths, x.peer = q.id → x.wcons = 0
  /-- what the split of the next epoch change will read -/
  prev : ∀ q ∈ b.prevPool, q.status.active = true → ∃ c ∈ b.pool, c.id = q.id ∧ c.owner = q.owner ∧ c.status ≠ .register ∧
    (q.status = .consensus → asum (fC q.owner) q.id b.auths ≤ q.totalPos) ∧
    (q.status = .candidate → asum (fD q.owner) q.id b.auths ≤ q.totalPos ∧
      (c.status = .consensus → asum (fC q.owner) q.id b.auths ≤ q.totalPos))

theorem zeroed_default (p a : Nat) : zeroed { peer := p, addr := a } := by simp [zeroed]

theorem getAuth_prop (P : Auth → Prop) (l : List Auth) (p a : Nat) (hl : ∀ x ∈ l, x.peer = p → P x)
    (hd : P { peer := p, addr := a }) : P (getAuth l p a) := by
  rcases getAuth_mem_or_zero l p a with h | h
  · exact hl _ h (getAuth_ids l p a).1
  · rw [h]; exact hd

/-- **record update, pools unchanged** (withdraw, the record part of reduceInitPos / unRegister / reject) -/
theorem PosInv_putAuth (b : Book) (y : Auth) (hi : PosInv b)
    (hact : actOf y = actOf (getAuth b.auths y.peer y.addr))
    (hz : (∀ q ∈ b.pool, q.id = y.peer → q.status = .register) → zeroed (getAuth b.auths y.peer y.addr) → zeroed y)
    (hw : ∀ q ∈ b.pool, q.id = y.peer → q.status = .candidate → y.wcons = 0)
    (hf : ∀ q ∈ b.prevPool, q.status.active = true → q.id = y.peer →
        fC q.owner y = fC q.owner (getAuth b.auths y.peer y.addr) ∧ fD q.owner y = fD q.owner (getAuth b.auths y.peer y.addr)) :
    PosInv { b with auths := putAuth b.auths y } := by
  have sumEq : ∀ (f : Auth → Nat) (p : Nat), f { peer := y.peer, addr := y.addr } = 0 →
      (y.peer = p → f y = f (getAuth b.auths y.peer y.addr)) → asum f p (putAuth b.auths y) = asum f p b.auths := by
    intro f p h0 he
    have := asum_putAuth f p b.auths y h0
    by_cases hp : y.peer = p
    · simp only [hp, if_true] at this; have := he hp; rw [hp] at this; omega
    · simp only [hp, if_false] at this; omega
  refine ⟨hi.nodup, hi.nodupPrev, ?_, ?_, ?_, ?_⟩
  · intro x hx hreg
    rcases mem_putAuth hx with e | hx'
    · subst e
      apply hz hreg
      apply getAuth_prop zeroed
      · intro z hz' hzp; exact hi.zero z hz' (by rw [hzp]; exact hreg)
      · exact zeroed_default _ _
    · exact hi.zero x hx' hreg
  · intro q hq
    show q.totalPos = asum actOf q.id (putAuth b.auths y)
    rw [sumEq actOf q.id (by simp [actOf]) (fun _ => hact)]
    exact hi.total q hq
  · intro q hq hs x hx hxp
    rcases mem_putAuth hx with e | hx'
    · subst e; exact hw q hq hxp.symm hs
    · exact hi.candW q hq hs x hx' hxp
  · intro q hq ha
    obtain ⟨c, hc, h1, h2, h3, h4, h5⟩ := hi.prev q hq ha
    have eC : asum (fC q.owner) q.id (putAuth b.auths y) = asum (fC q.owner) q.id b.auths :=
      sumEq _ _ (by simp [fC]) (fun e => (hf q hq ha e.symm).1)
    have eD : asum (fD q.owner) q.id (putAuth b.auths y) = asum (fD q.owner) q.id b.auths :=
      sumEq _ _ (by simp [fD]) (fun e => (hf q hq ha e.symm).2)
    refine ⟨c, hc, h1, h2, h3, ?_, ?_⟩
    · intro hs; show asum (fC q.owner) q.id (putAuth b.auths y) ≤ q.totalPos; rw [eC]; exact h4 hs
    · intro hs
      obtain ⟨d1, d2⟩ := h5 hs
      refine ⟨?_, ?_⟩
      · show asum (fD q.owner) q.id (putAuth b.auths y) ≤ q.totalPos; rw [eD]; exact d1
      · intro hcs; show asum (fC q.owner) q.id (putAuth b.auths y) ≤ q.totalPos; rw [eC]; exact d2 hcs

/-- **pool entry update keeping id, owner and TotalPos; the status may stay or move to a quit/black status**
(addInitPos, the pool part of reduceInitPos, quitNode, blackNode) -/
theorem PosInv_setPeer_same (b : Book) (q q' : Peer) (hi : PosInv b) (hf : findPeer b.pool q'.id = some q)
    (ho : q'.owner = q.owner) (ht : q'.totalPos = q.totalPos)
    (hreg : q'.status = .register → q.status = .register)
    (hcand : q'.status = .candidate → q.status = .candidate)
    (hcons : q'.status = .consensus → q.status = .consensus) :
    PosInv { b with pool := setPeer b.pool q' } := by
  have hm := mem_setPeer hi.nodup hf
  obtain ⟨hqm, hqid⟩ := findPeer_some_mem hf
  have uniq : ∀ z ∈ b.pool, z.id = q'.id → z = q := by
    intro z hz e
    have := findPeer_of_mem hi.nodup hz; rw [e, hf] at this; cases this; rfl
  refine ⟨by show (ids (setPeer b.pool q')).Nodup; rw [ids_setPeer hf]; exact hi.nodup, hi.nodupPrev, ?_, ?_, ?_, ?_⟩
  · intro x hx hreg'
    apply hi.zero x hx
    intro z hz hzid
    by_cases e : z.id = q'.id
    · rw [uniq z hz e]
      exact hreg (hreg' q' ((hm q').2 (Or.inl rfl)) (by rw [← e]; exact hzid))
    · exact hreg' z ((hm z).2 (Or.inr ⟨hz, e⟩)) hzid
  · intro z hz
    rcases (hm z).1 hz with e | ⟨hz', _⟩
    · subst e; show z.totalPos = _; rw [ht, ← hqid]; exact hi.total q hqm
    · exact hi.total z hz'
  · intro z hz hst x hx hxp
    rcases (hm z).1 hz with e | ⟨hz', _⟩
    · subst e; exact hi.candW q hqm (hcand hst) x hx (by rw [hxp, hqid])
    · exact hi.candW z hz' hst x hx hxp
  · intro p hp ha
    obtain ⟨c, hc, h1, h2, h3, h4, h5⟩ := hi.prev p hp ha
    by_cases e : c.id = q'.id
    · have hcq := uniq c hc e
      subst hcq
      refine ⟨q', (hm q').2 (Or.inl rfl), by rw [← e]; exact h1, by rw [ho]; exact h2, fun hr => h3 (hreg hr), h4, ?_⟩
      intro hst; obtain ⟨d1, d2⟩ := h5 hst
      exact ⟨d1, fun hcs => d2 (hcons hcs)⟩
    · exact ⟨c, (hm c).2 (Or.inr ⟨hc, e⟩), h1, h2, h3, h4, h5⟩

/-- a peer of the previous view that was active there is not a merely registered peer now -/
theorem prev_not_register (b : Book) (hi : PosInv b) (q : Peer) (hq : q ∈ b.pool) (hs : q.status = .register) :
    ∀ p ∈ b.prevPool, p.status.active = true → p.id ≠ q.id := by
  intro p hp ha e
  obtain ⟨c, hc, h1, _, h3, _⟩ := hi.prev p hp ha
  have : c = q := by
    have h := findPeer_of_mem hi.nodup hc
    have h' := findPeer_of_mem hi.nodup hq
    rw [h1, e, h'] at h; cases h; rfl
  subst this; exact h3 hs

/-- **approveCandidate**: a registered peer becomes a candidate with `TotalPos = 0` -/
theorem PosInv_approve (b : Book) (q : Peer) (hi : PosInv b) (hf : findPeer b.pool q.id = some q) (hs : q.status = .register) :
    PosInv { b with pool := setPeer b.pool { q with status := .candidate, totalPos := 0 } } := by
  have hf' : findPeer b.pool ({ q with status := Status.candidate, totalPos := 0 } : Peer).id = some q := hf
  have hm := mem_setPeer hi.nodup hf'
  obtain ⟨hqm, _⟩ := findPeer_some_mem hf
  have hzero : ∀ x ∈ b.auths, x.peer = q.id → zeroed x := by
    intro x hx hxp
    apply hi.zero x hx
    intro z hz hzid
    have : z = q := by
      have h := findPeer_of_mem hi.nodup hz; rw [hzid, hxp, hf] at h; cases h; rfl
    rw [this]; exact hs
  refine ⟨by show (ids (setPeer b.pool _)).Nodup; rw [ids_setPeer hf']; exact hi.nodup, hi.nodupPrev, ?_, ?_, ?_, ?_⟩
  · intro x hx hreg'
    by_cases e : x.peer = q.id
    · exact hzero x hx e
    · apply hi.zero x hx
      intro z hz hzid
      exact hreg' z ((hm z).2 (Or.inr ⟨hz, by show z.id ≠ q.id; rw [hzid]; exact e⟩)) hzid
  · intro z hz
    rcases (hm z).1 hz with e | ⟨hz', _⟩
    · subst e
      show 0 = asum actOf q.id b.auths
      rw [asum_zero]
      intro x hx hxp
      obtain ⟨z1, z2, z3, _, _⟩ := hzero x hx hxp
      simp [actOf, z1, z2, z3]
    · exact hi.total z hz'
  · intro z hz hst x hx hxp
    rcases (hm z).1 hz with e | ⟨hz', _⟩
    · subst e; exact (hzero x hx hxp).2.2.2.1
    · exact hi.candW z hz' hst x hx hxp
  · intro p hp ha
    obtain ⟨c, hc, h1, h2, h3, h4, h5⟩ := hi.prev p hp ha
    have hne : c.id ≠ q.id := by
      rw [h1]; exact prev_not_register b hi q hqm hs p hp ha
    exact ⟨c, (hm c).2 (Or.inr ⟨hc, hne⟩), h1, h2, h3, h4, h5⟩

/-- **registerCandidate**: a new pool entry with `TotalPos = 0` -/
theorem PosInv_register (b : Book) (q : Peer) (hi : PosInv b) (hf : findPeer b.pool q.id = none) (ht : q.totalPos = 0) :
    PosInv { b with pool := b.pool ++ [q] } := by
  have hnot := findPeer_none_not_mem hf
  have hzero : ∀ x ∈ b.auths, x.peer = q.id → zeroed x := by
    intro x hx hxp
    apply hi.zero x hx
    intro z hz hzid
    exact absurd (by rw [hzid, hxp]) (hnot z hz)
  refine ⟨?_, hi.nodupPrev, ?_, ?_, ?_, ?_⟩
  · show (ids (b.pool ++ [q])).Nodup
    simp only [ids, List.map_append, List.map_cons, List.map_nil]
    rw [List.nodup_append]
    refine ⟨hi.nodup, by simp, ?_⟩
    intro a ha c hc
    simp only [List.mem_singleton] at hc
    subst hc
    simp only [List.mem_map] at ha
    obtain ⟨z, hz, e⟩ := ha
    intro e'; exact hnot z hz (by rw [e, e'])
  · intro x hx hreg'
    by_cases e : x.peer = q.id
    · exact hzero x hx e
    · apply hi.zero x hx
      intro z hz hzid
      exact hreg' z (by simp [hz]) hzid
  · intro z hz
    simp only [List.mem_append, List.mem_singleton] at hz
    rcases hz with hz | e
    · exact hi.total z hz
    · subst e
      rw [ht, asum_zero]
      intro x hx hxp
      obtain ⟨z1, z2, z3, _, _⟩ := hzero x hx hxp
      simp [actOf, z1, z2, z3]
  · intro z hz hst x hx hxp
    simp only [List.mem_append, List.mem_singleton] at hz
    rcases hz with hz | e
    · exact hi.candW z hz hst x hx hxp
    · subst e; exact (hzero x hx hxp).2.2.2.1
  · intro p hp ha
    obtain ⟨c, hc, h⟩ := hi.prev p hp ha
    exact ⟨c, by simp [hc], h⟩

/-- **unRegisterCandidate / rejectCandidate**: a merely registered peer leaves the pool -/
theorem PosInv_erase_register (b : Book) (q : Peer) (hi : PosInv b) (hf : findPeer b.pool q.id = some q)
    (hs : q.status = .register) : PosInv { b with pool := erasePeer b.pool q.id } := by
  have hm := mem_erasePeer hi.nodup q.id
  obtain ⟨hqm, _⟩ := findPeer_some_mem hf
  refine ⟨nodup_erasePeer hi.nodup _, hi.nodupPrev, ?_, ?_, ?_, ?_⟩
  · intro x hx hreg'
    apply hi.zero x hx
    intro z hz hzid
    by_cases e : z.id = q.id
    · have : z = q := by
        have h := findPeer_of_mem hi.nodup hz; rw [e, hf] at h; cases h; rfl
      rw [this]; exact hs
    · exact hreg' z ((hm z).2 ⟨hz, e⟩) hzid
  · intro z hz; exact hi.total z ((hm z).1 hz).1
  · intro z hz hst x hx hxp; exact hi.candW z ((hm z).1 hz).1 hst x hx hxp
  · intro p hp ha
    obtain ⟨c, hc, h1, h2, h3, h4, h5⟩ := hi.prev p hp ha
    have hne : c.id ≠ q.id := by
      rw [h1]; exact prev_not_register b hi q hqm hs p hp ha
    exact ⟨c, (hm c).2 ⟨hc, hne⟩, h1, h2, h3, h4, h5⟩

/-- **one authorize / unAuthorize item**: the record `(q.id, y.addr)` is replaced by `y`, `TotalPos` follows the active
positions, the settled positions of the record do not change -/
theorem PosInv_step (b : Book) (q : Peer) (T' : Nat) (y : Auth) (hi : PosInv b) (hf : findPeer b.pool q.id = some q)
    (hyp : y.peer = q.id) (hact : q.status.active = true)
    (hT : T' + actOf (getAuth b.auths y.peer y.addr) = q.totalPos + actOf y)
    (hw : q.status = .candidate → y.wcons = 0)
    (hfC : ∀ o, fC o y = fC o (getAuth b.auths y.peer y.addr))
    (hfD : ∀ o, fD o y = fD o (getAuth b.auths y.peer y.addr)) :
    PosInv { b with pool := setPeer b.pool { q with totalPos := T' }, auths := putAuth b.auths y } := by
  have hf' : findPeer b.pool ({ q with totalPos := T' } : Peer).id = some q := hf
  have hm := mem_setPeer hi.nodup hf'
  obtain ⟨hqm, _⟩ := findPeer_some_mem hf
  have hnr : q.status ≠ .register := by intro e; rw [e] at hact; simp [Status.active] at hact
  have uniq : ∀ z ∈ b.pool, z.id = q.id → z = q := by
    intro z hz e
    have := findPeer_of_mem hi.nodup hz; rw [e, hf] at this; cases this; rfl
  have sumEq : ∀ (f : Auth → Nat) (p : Nat), f { peer := y.peer, addr := y.addr } = 0 →
      (f y = f (getAuth b.auths y.peer y.addr)) → asum f p (putAuth b.auths y) = asum f p b.auths := by
    intro f p h0 he
    have := asum_putAuth f p b.auths y h0
    by_cases hp : y.peer = p
    · simp only [hp, if_true] at this; rw [hp] at he; omega
    · simp only [hp, if_false] at this; omega
  refine ⟨by show (ids (setPeer b.pool _)).Nodup; rw [ids_setPeer hf']; exact hi.nodup, hi.nodupPrev, ?_, ?_, ?_, ?_⟩
  · intro x hx hreg'
    rcases mem_putAuth hx with e | hx'
    · subst e
      exfalso
      apply hnr
      exact hreg' { q with totalPos := T' } ((hm _).2 (Or.inl rfl)) hyp.symm
    · apply hi.zero x hx'
      intro z hz hzid
      by_cases e : z.id = q.id
      · exfalso; apply hnr
        exact hreg' { q with totalPos := T' } ((hm _).2 (Or.inl rfl)) (by show q.id = x.peer; rw [← e, hzid])
      · exact hreg' z ((hm z).2 (Or.inr ⟨hz, e⟩)) hzid
  · intro z hz
    rcases (hm z).1 hz with e | ⟨hz', hne⟩
    · subst e
      show T' = asum actOf q.id (putAuth b.auths y)
      have h1 := asum_putAuth actOf q.id b.auths y (by simp [actOf])
      have h2 := hi.total q hqm
      simp only [hyp, if_true] at h1
      rw [hyp] at hT
      omega
    · show z.totalPos = asum actOf z.id (putAuth b.auths y)
      rw [asum_putAuth_other _ _ _ _ (by rw [hyp]; exact fun e => hne e.symm)]
      exact hi.total z hz'
  · intro z hz hst x hx hxp
    rcases (hm z).1 hz with e | ⟨hz', hne⟩
    · subst e
      rcases mem_putAuth hx with e | hx'
      · subst e; exact hw hst
      · exact hi.candW q hqm hst x hx' hxp
    · rcases mem_putAuth hx with e | hx'
      · subst e; exact absurd (by rw [← hxp, hyp]) hne
      · exact hi.candW z hz' hst x hx' hxp
  · intro p hp ha
    obtain ⟨c, hc, h1, h2, h3, h4, h5⟩ := hi.prev p hp ha
    have eC : asum (fC p.owner) p.id (putAuth b.auths y) = asum (fC p.owner) p.id b.auths :=
      sumEq _ _ (by simp [fC]) (hfC _)
    have eD : asum (fD p.owner) p.id (putAuth b.auths y) = asum (fD p.owner) p.id b.auths :=
      sumEq _ _ (by simp [fD]) (hfD _)
    by_cases e : c.id = q.id
    · have hcq := uniq c hc e
      subst hcq
      refine ⟨{ c with totalPos := T' }, (hm _).2 (Or.inl rfl), h1, h2, h3, ?_, ?_⟩
      · intro hs; show asum (fC p.owner) p.id (putAuth b.auths y) ≤ p.totalPos; rw [eC]; exact h4 hs
      · intro hs
        obtain ⟨d1, d2⟩ := h5 hs
        refine ⟨?_, ?_⟩
        · show asum (fD p.owner) p.id (putAuth b.auths y) ≤ p.totalPos; rw [eD]; exact d1
        · intro hcs; show asum (fC p.owner) p.id (putAuth b.auths y) ≤ p.totalPos; rw [eC]; exact d2 hcs
    · refine ⟨c, (hm c).2 (Or.inr ⟨hc, e⟩), h1, h2, h3, ?_, ?_⟩
      · intro hs; show asum (fC p.owner) p.id (putAuth b.auths y) ≤ p.totalPos; rw [eC]; exact h4 hs
      · intro hs
        obtain ⟨d1, d2⟩ := h5 hs
        refine ⟨?_, ?_⟩
        · show asum (fD p.owner) p.id (putAuth b.auths y) ≤ p.totalPos; rw [eD]; exact d1
        · intro hcs; show asum (fC p.owner) p.id (putAuth b.auths y) ≤ p.totalPos; rw [eC]; exact d2 hcs

theorem PosInv_of_eq (b b' : Book) (h : PosInv b) (h1 : b'.pool = b.pool) (h2 : b'.prevPool = b.prevPool)
    (h3 : b'.auths = b.auths) : PosInv b' := by
  refine ⟨by rw [h1]; exact h.nodup, by rw [h2]; exact h.nodupPrev, ?_, ?_, ?_, ?_⟩
  · rw [h1, h3]; exact h.zero
  · rw [h1, h3]; exact h.total
  · rw [h1, h3]; exact h.candW
  · rw [h1, h2, h3]; exact h.prev

/-- the invariant on the three lists it speaks about -/
def PI (b : Book) (pool : List Peer) (auths : List Auth) : Prop := PosInv { b with pool := pool, auths := auths }

theorem active_cases {s : Status} (h : s.active = true) : s = .candidate ∨ s = .consensus := by
  cases s <;> simp [Status.active] at h ⊢

theorem authLoop_inv (b : Book) (a : Nat) (items : List (Nat × Nat)) (pool pool' : List Peer) (auths auths' : List Auth)
    (total total' : Nat) (h : authLoop b a items (pool, auths, total) = .ok (pool', auths', total'))
    (hi : PI b pool auths) : PI b pool' auths' := by
  induction items generalizing pool auths total with
  | nil => simp [authLoop] at h; obtain ⟨h1, h2, _⟩ := h; subst h1; subst h2; exact hi
  | cons it r ih =>
    obtain ⟨p, pos⟩ := it
    simp only [authLoop] at h
    split at h
    · cases h
    · split at h
      · cases h
      · split at h
        · cases h
        · split at h
          · cases h
          · rename_i q hq
            split at h
            · cases h
            · rename_i hact
              split at h
              · cases h
              · split at h
                · cases h
                · split at h
                  · cases h
                  · apply ih _ _ _ h
                    obtain ⟨hqm, hqid⟩ := findPeer_some_mem hq
                    obtain ⟨i1, i2⟩ := getAuth_ids auths p a
                    have hact' : q.status.active = true := by simpa using hact
                    have key := PosInv_step { b with pool := pool, auths := auths } q (q.totalPos + pos)
                      { getAuth auths p a with new := (getAuth auths p a).new + pos } hi (by rw [hqid]; exact hq)
                      (by simp only; rw [i1, hqid]) hact'
                      (by simp only [i1, i2]; simp [actOf]; omega)
                      (by
                        intro hs
                        show (getAuth auths p a).wcons = 0
                        apply getAuth_prop (fun x => x.wcons = 0)
                        · intro x hx hxp; exact hi.candW q hqm hs x hx (by rw [hxp, hqid])
                        · rfl)
                      (by intro o; simp only [i1, i2]; simp [fC, i2])
                      (by intro o; simp only [i1, i2]; simp [fD, i2])
                    exact PosInv_of_eq _ _ key rfl rfl rfl

theorem getAuth_le_asum (f : Auth → Nat) (l : List Auth) (p a : Nat) (h0 : f { peer := p, addr := a } = 0) :
    f (getAuth l p a) ≤ asum f p l := by
  induction l with
  | nil => simp [getAuth, h0]
  | cons x r ih =>
    simp only [getAuth, asum]
    split
    · rename_i hx; simp [hx.1]
    · omega

theorem subWrap_exact {a b : Nat} (h : b ≤ a) : subWrap a b = a - b := by simp [subWrap, h]

/-- one unAuthorize item, after the position has been fixed -/
theorem unauth_item_inv (b : Book) (a p pos : Nat) (pool : List Peer) (auths : List Auth) (q : Peer) (x : Auth)
    (hx : getAuth auths p a = x)
    (hi : PI b pool auths) (hq : findPeer pool p = some q) (hact : q.status.active = true) :
    (x.new < pos → q.status = .consensus → ¬ x.cons < pos - x.new →
      PI b (setPeer pool { q with totalPos := subWrap q.totalPos pos })
        (putAuth auths { x with cons := x.cons + x.new - pos, new := 0, unf := x.unf + x.new, wcons := x.wcons + pos - x.new })) ∧
    (x.new < pos → q.status ≠ .consensus → ¬ x.cand < pos - x.new →
      PI b (setPeer pool { q with totalPos := subWrap q.totalPos pos })
        (putAuth auths { x with cand := x.cand + x.new - pos, new := 0, unf := x.unf + x.new, wcand := x.wcand + pos - x.new })) ∧
    (¬ x.new < pos →
      PI b (setPeer pool { q with totalPos := subWrap q.totalPos pos })
        (putAuth auths { x with new := x.new - pos, unf := x.unf + pos })) := by
  obtain ⟨hqm, hqid⟩ := findPeer_some_mem hq
  obtain ⟨i1, i2⟩ := getAuth_ids auths p a
  rw [hx] at i1 i2
  have hle : actOf x ≤ q.totalPos := by
    have h1 := getAuth_le_asum actOf auths p a (by simp [actOf])
    have h2 := hi.total q hqm
    rw [hqid] at h2
    rw [hx] at h1
    rw [h2]; exact h1
  have hwc : q.status = .candidate → x.wcons = 0 := by
    intro hs
    rw [← hx]
    apply getAuth_prop (fun x => x.wcons = 0)
    · intro z hz hzp; exact hi.candW q hqm hs z hz (by rw [hzp, hqid])
    · rfl
  obtain ⟨xp, xa, c1, c2, c3, c4, c5, c6⟩ := x
  simp only at i1 i2 hle hwc
  subst i1; subst i2
  simp only [actOf] at hle
  refine ⟨?_, ?_, ?_⟩
  · intro h1 h2 h3
    simp only at h1 h3
    have hp : pos ≤ q.totalPos := by omega
    rw [subWrap_exact hp]
    have key := PosInv_step { b with pool := pool, auths := auths } q (q.totalPos - pos)
      { peer := xp, addr := xa, cons := c1 + c3 - pos, cand := c2, new := 0, wcons := c4 + pos - c3, wcand := c5, unf := c6 + c3 } hi
      (by rw [hqid]; exact hq) (by show xp = q.id; rw [hqid]) hact
      (by show _ + actOf (getAuth auths xp xa) = _; rw [hx]; simp only [actOf]; omega)
      (by intro hs; rw [hs] at h2; cases h2)
      (by intro o; show _ = fC o (getAuth auths xp xa); rw [hx]; simp only [fC]; split <;> omega)
      (by intro o; show _ = fD o (getAuth auths xp xa); rw [hx]; simp only [fD])
    exact PosInv_of_eq _ _ key rfl rfl rfl
  · intro h1 h2 h3
    simp only at h1 h3
    have hp : pos ≤ q.totalPos := by omega
    rw [subWrap_exact hp]
    have hcand : q.status = .candidate := by
      rcases active_cases hact with e | e
      · exact e
      · exact absurd e h2
    have key := PosInv_step { b with pool := pool, auths := auths } q (q.totalPos - pos)
      { peer := xp, addr := xa, cons := c1, cand := c2 + c3 - pos, new := 0, wcons := c4, wcand := c5 + pos - c3, unf := c6 + c3 } hi
      (by rw [hqid]; exact hq) (by show xp = q.id; rw [hqid]) hact
      (by show _ + actOf (getAuth auths xp xa) = _; rw [hx]; simp only [actOf]; omega)
      (by intro hs; exact hwc hs)
      (by intro o; show _ = fC o (getAuth auths xp xa); rw [hx]; simp only [fC])
      (by intro o; show _ = fD o (getAuth auths xp xa); rw [hx]; simp only [fD]; split <;> omega)
    exact PosInv_of_eq _ _ key rfl rfl rfl
  · intro h1
    simp only at h1
    have hp : pos ≤ q.totalPos := by omega
    rw [subWrap_exact hp]
    have key := PosInv_step { b with pool := pool, auths := auths } q (q.totalPos - pos)
      { peer := xp, addr := xa, cons := c1, cand := c2, new := c3 - pos, wcons := c4, wcand := c5, unf := c6 + pos } hi
      (by rw [hqid]; exact hq) (by show xp = q.id; rw [hqid]) hact
      (by show _ + actOf (getAuth auths xp xa) = _; rw [hx]; simp only [actOf]; omega)
      (by intro hs; exact hwc hs)
      (by intro o; show _ = fC o (getAuth auths xp xa); rw [hx]; simp only [fC])
      (by intro o; show _ = fD o (getAuth auths xp xa); rw [hx]; simp only [fD])
    exact PosInv_of_eq _ _ key rfl rfl rfl

theorem unauthLoop_inv (b : Book) (a : Nat) (items : List (Nat × Nat)) (pool pool' : List Peer) (auths auths' : List Auth)
    (h : unauthLoop b a items (pool, auths) = .ok (pool', auths')) (hi : PI b pool auths) : PI b pool' auths' := by
  induction items generalizing pool auths with
  | nil => simp [unauthLoop] at h; obtain ⟨h1, h2⟩ := h; subst h1; subst h2; exact hi
  | cons it r ih =>
    obtain ⟨p, pos0⟩ := it
    simp only [unauthLoop] at h
    split at h
    · cases h
    · split at h
      · cases h
      · split at h
        · cases h
        · generalize (if decide ((getAuth auths p a).cons + (getAuth auths p a).cand + (getAuth auths p a).new <
              b.gparam2.minAuthorizePos) = true then
              (getAuth auths p a).cons + (getAuth auths p a).cand + (getAuth auths p a).new else pos0) = pos at h
          split at h
          · cases h
          · rename_i q hq
            split at h
            · cases h
            · rename_i hact
              have hact' : q.status.active = true := by simpa using hact
              have key := unauth_item_inv b a p pos pool auths q _ rfl hi hq hact'
              split at h
              · rename_i hnew
                split at h
                · rename_i hcons
                  have hc : q.status = .consensus := by simpa using hcons
                  split at h
                  · cases h
                  · rename_i hge
                    exact ih _ _ h (key.1 hnew hc hge)
                · rename_i hcons
                  have hc : q.status ≠ .consensus := by simpa using hcons
                  split at h
                  · cases h
                  · rename_i hge
                    exact ih _ _ h (key.2.1 hnew hc hge)
              · rename_i hnew
                exact ih _ _ h (key.2.2 hnew)

/-- a record update that touches only `WithdrawUnfreezePos` -/
theorem PI_putAuth_unf (b : Book) (pool : List Peer) (auths : List Auth) (p a u : Nat) (hi : PI b pool auths) :
    PI b pool (putAuth auths { getAuth auths p a with unf := u }) := by
  obtain ⟨i1, i2⟩ := getAuth_ids auths p a
  have key := PosInv_putAuth { b with pool := pool, auths := auths } { getAuth auths p a with unf := u } hi
    (by show _ = actOf (getAuth auths (getAuth auths p a).peer (getAuth auths p a).addr); rw [i1, i2]; rfl)
    (by intro _; show zeroed (getAuth auths (getAuth auths p a).peer (getAuth auths p a).addr) → _; rw [i1, i2]; exact id)
    (by
      intro q hq hqid hs
      show (getAuth auths p a).wcons = 0
      apply getAuth_prop (fun x => x.wcons = 0)
      · intro z hz hzp; exact hi.candW q hq hs z hz (by rw [hzp]; exact (hqid.trans i1).symm)
      · rfl)
    (by
      intro q _ _ _
      show fC q.owner _ = fC q.owner (getAuth auths (getAuth auths p a).peer (getAuth auths p a).addr) ∧
           fD q.owner _ = fD q.owner (getAuth auths (getAuth auths p a).peer (getAuth auths p a).addr)
      rw [i1, i2]; exact ⟨rfl, rfl⟩)
  exact PosInv_of_eq _ _ key rfl rfl rfl

theorem wdLoop_inv (b : Book) (nw : Bool) (a : Nat) (items : List (Nat × Nat)) (pool : List Peer) (auths auths' : List Auth)
    (total total' : Nat) (h : wdLoop nw a items (auths, total) = .ok (auths', total')) (hi : PI b pool auths) :
    PI b pool auths' := by
  induction items generalizing auths total with
  | nil => simp [wdLoop] at h; obtain ⟨h1, _⟩ := h; subst h1; exact hi
  | cons it r ih =>
    obtain ⟨p, amt⟩ := it
    simp only [wdLoop] at h
    split at h
    · cases h
    · split at h
      · cases h
      · exact ih _ _ h (PI_putAuth_unf b pool auths p a _ hi)

theorem blackLoop_inv (b : Book) (ps : List Nat) (pool pool' : List Peer) (bl bl' : List Nat) (c c' : Bool) (auths : List Auth)
    (h : blackLoop ps (pool, bl, c) = .ok (pool', bl', c')) (hi : PI b pool auths) : PI b pool' auths := by
  induction ps generalizing pool bl c with
  | nil => simp [blackLoop] at h; obtain ⟨h1, _⟩ := h; subst h1; exact hi
  | cons p r ih =>
    simp only [blackLoop] at h
    split at h
    · cases h
    · rename_i q hq
      apply ih _ _ _ h
      obtain ⟨_, hqid⟩ := findPeer_some_mem hq
      have key := PosInv_setPeer_same { b with pool := pool, auths := auths } q { q with status := .black } hi
        (by show findPeer pool q.id = some q; rw [hqid]; exact hq) rfl rfl
        (by intro e; cases e) (by intro e; cases e) (by intro e; cases e)
      exact PosInv_of_eq _ _ key rfl rfl rfl

/-! ### epoch change -/

/-- the invariant without the clause about the previous view (which an epoch change replaces) -/
def CI (b : Book) (pool : List Peer) (auths : List Auth) : Prop :=
  PosInv { b with pool := pool, auths := auths, prevPool := [] }

theorem CI_of_PI (b : Book) (pool : List Peer) (auths : List Auth) (h : PI b pool auths) : CI b pool auths :=
  ⟨h.nodup, by simp [ids], h.zero, h.total, h.candW, by intro q hq; simp at hq⟩

/-- rewrite the records of one peer -/
def mapPeer (g : Auth → Auth) (p : Nat) (l : List Auth) : List Auth := l.map fun a => if a.peer = p then g a else a

theorem asum_mapPeer_other (f : Auth → Nat) (g : Auth → Auth) (p p' : Nat) (l : List Auth) (hg : ∀ a, (g a).peer = a.peer)
    (hne : p' ≠ p) : asum f p' (mapPeer g p l) = asum f p' l := by
  induction l with
  | nil => rfl
  | cons x r ih =>
    simp only [mapPeer, List.map_cons, asum] at ih ⊢
    rw [ih]
    by_cases hx : x.peer = p
    · have h1 : ¬ x.peer = p' := by rw [hx]; exact fun e => hne e.symm
      have h2 : ¬ (g x).peer = p' := by rw [hg]; exact h1
      simp only [hx, if_true, h2, if_false]
      rw [hx] at h1; simp [h1]
    · simp [hx]

theorem mem_mapPeer {g : Auth → Auth} {p : Nat} {l : List Auth} {x : Auth} (h : x ∈ mapPeer g p l) :
    (x ∈ l ∧ x.peer ≠ p) ∨ (∃ a ∈ l, a.peer = p ∧ x = g a) := by
  simp only [mapPeer, List.mem_map] at h
  obtain ⟨a, ha, e⟩ := h
  by_cases hp : a.peer = p
  · simp only [hp, if_true] at e; exact Or.inr ⟨a, ha, hp, e.symm⟩
  · simp only [hp, if_false] at e; subst e; exact Or.inl ⟨ha, hp⟩

/-- a peer leaves the pool and all its records are reduced to unfrozen positions (normalQuit, blackQuit) -/
theorem CI_zeroOut_erase (b : Book) (pool : List Peer) (auths : List Auth) (p : Nat) (g : Auth → Auth)
    (hg : ∀ a, (g a).peer = a.peer) (hz : ∀ a, zeroed (g a)) (hi : CI b pool auths) :
    CI b (erasePeer pool p) (mapPeer g p auths) := by
  have hm := mem_erasePeer hi.nodup p
  refine ⟨nodup_erasePeer hi.nodup _, by simp [ids], ?_, ?_, ?_, by intro q hq; simp at hq⟩
  · intro x hx hreg
    rcases mem_mapPeer hx with ⟨hx', hne⟩ | ⟨a, _, _, e⟩
    · apply hi.zero x hx'
      intro z hz' hzid
      exact hreg z ((hm z).2 ⟨hz', by rw [hzid]; exact hne⟩) hzid
    · rw [e]; exact hz a
  · intro z hz'
    obtain ⟨hz1, hz2⟩ := (hm z).1 hz'
    show z.totalPos = asum actOf z.id (mapPeer g p auths)
    rw [asum_mapPeer_other _ _ _ _ _ hg hz2]
    exact hi.total z hz1
  · intro z hz' hst x hx hxp
    obtain ⟨hz1, hz2⟩ := (hm z).1 hz'
    rcases mem_mapPeer hx with ⟨hx', _⟩ | ⟨a, _, hap, e⟩
    · exact hi.candW z hz1 hst x hx' hxp
    · exfalso; apply hz2; rw [← hxp, e, hg, hap]

theorem blackQuit_fst (pen : Nat) (p : Peer) (l : List Auth) :
    (blackQuit pen p l).1 = mapPeer (fun a =>
      { a with unf := u64 (u64sub (a.cons + a.cand + a.new + a.wcons + a.wcand)
                            (u64 (u64 (pen * (a.cons + a.cand + a.new + a.wcons + a.wcand)) + 99) / 100) + a.unf),
               cons := 0, cand := 0, new := 0, wcons := 0, wcand := 0 }) p.id l := by
  induction l with
  | nil => rfl
  | cons x r ih =>
    simp only [blackQuit, mapPeer, List.map_cons] at ih ⊢
    split <;> simp [ih]

theorem CI_putAuth_unf (b : Book) (pool : List Peer) (auths : List Auth) (p a u : Nat) (hi : CI b pool auths) :
    CI b pool (putAuth auths { getAuth auths p a with unf := u }) := by
  have := PI_putAuth_unf { b with prevPool := [] } pool auths p a u hi
  exact this

theorem CI_normalQuit (b : Book) (pool : List Peer) (auths : List Auth) (p : Peer) (hi : CI b pool auths) :
    CI b (erasePeer pool p.id) (normalQuit auths p) := by
  unfold normalQuit
  have h1 := CI_zeroOut_erase b pool auths p.id
    (fun a => { a with unf := a.cons + a.cand + a.new + a.wcons + a.wcand + a.unf, cons := 0, cand := 0, new := 0, wcons := 0, wcand := 0 })
    (fun _ => rfl) (fun _ => by simp [zeroed]) hi
  exact CI_putAuth_unf b _ _ p.id p.owner _ h1

theorem CI_blackQuit (b : Book) (pool : List Peer) (auths : List Auth) (pen : Nat) (p : Peer) (hi : CI b pool auths) :
    CI b (erasePeer pool p.id) (blackQuit pen p auths).1 := by
  rw [blackQuit_fst]
  exact CI_zeroOut_erase b pool auths p.id _ (fun _ => rfl) (fun _ => by simp [zeroed]) hi

theorem findPeer_erase_other (l : List Peer) (i j : Nat) (h : i ≠ j) : findPeer (erasePeer l j) i = findPeer l i := by
  induction l with
  | nil => rfl
  | cons x r ih =>
    simp only [erasePeer]
    split
    · rename_i hx
      have : ¬ x.id = i := by rw [hx]; exact fun e => h e.symm
      simp [findPeer, this]
    · simp only [findPeer, ih]

theorem findPeer_setPeer_other (l : List Peer) (p : Peer) (i : Nat) (h : i ≠ p.id) :
    findPeer (setPeer l p) i = findPeer l i := by
  induction l with
  | nil => have : ¬ p.id = i := fun e => h e.symm; simp [setPeer, findPeer, this]
  | cons x r ih =>
    simp only [setPeer]
    split
    · rename_i hx
      have h1 : ¬ p.id = i := fun e => h e.symm
      have h2 : ¬ x.id = i := by rw [hx]; exact h1
      simp [findPeer, h1, h2]
    · simp only [findPeer, ih]

theorem findPeer_setPeer_self (l : List Peer) (p : Peer) : findPeer (setPeer l p) p.id = some p := by
  induction l with
  | nil => simp [setPeer, findPeer]
  | cons x r ih =>
    simp only [setPeer]
    split
    · simp [findPeer]
    · rename_i hx; simp only [findPeer, hx, if_false]; exact ih

structure QuitOK (b : Book) (acc : QuitAcc) (todo : List Peer) : Prop where
  ci : CI b acc.pool acc.auths
  todoIn : ∀ p ∈ todo, findPeer acc.pool p.id = some p
  peersIn : ∀ q ∈ acc.peers, q.status.active = true ∧ findPeer acc.pool q.id = some q
  nodup : (ids acc.peers ++ ids todo).Nodup

theorem quitLoop_spec (b : Book) (rot : Bool) (pen : Nat) (todo : List Peer) (acc : QuitAcc) (h : QuitOK b acc todo) :
    QuitOK b (quitLoop rot pen todo acc) [] ∧
    (∀ q, (q ∈ acc.peers ∨ (q ∈ todo ∧ q.status.active = true)) → q ∈ (quitLoop rot pen todo acc).peers) := by
  induction todo generalizing acc with
  | nil =>
    simp only [quitLoop]
    refine ⟨h, ?_⟩
    intro q hq
    rcases hq with hq | ⟨hq, _⟩
    · exact hq
    · simp at hq
  | cons p r ih =>
    have hnd := h.nodup
    simp only [ids, List.map_cons] at hnd
    have hp_not_peers : ∀ q ∈ acc.peers, q.id ≠ p.id := by
      intro q hq e
      rw [List.nodup_append] at hnd
      exact hnd.2.2 q.id (List.mem_map_of_mem hq) p.id (by simp) e
    have hp_not_rest : ∀ q ∈ r, q.id ≠ p.id := by
      intro q hq e
      rw [List.nodup_append] at hnd
      have := hnd.2.1
      simp only [List.nodup_cons] at this
      exact this.1 (by rw [← e]; exact List.mem_map_of_mem hq)
    have hnd_rest : (ids acc.peers ++ ids r).Nodup := by
      rw [List.nodup_append] at hnd ⊢
      refine ⟨hnd.1, (List.nodup_cons.1 hnd.2.1).2, ?_⟩
      intro a ha c hc
      exact hnd.2.2 a ha c (by simp only [List.mem_cons]; exact Or.inr hc)
    have hpin := h.todoIn p (by simp)
    -- common shape of the three "pool changes" cases
    have erased : ∀ (au : List Auth) (at_ : List Attr) (acts : List BankAction), CI b (erasePeer acc.pool p.id) au →
        QuitOK b { acc with attrs := at_, auths := au, pool := erasePeer acc.pool p.id, acts := acts } r := by
      intro au at_ acts hci
      refine ⟨hci, ?_, ?_, hnd_rest⟩
      · intro q hq
        show findPeer (erasePeer acc.pool p.id) q.id = some q
        rw [findPeer_erase_other _ _ _ (hp_not_rest q hq)]
        exact h.todoIn q (by simp [hq])
      · intro q hq
        obtain ⟨a1, a2⟩ := h.peersIn q hq
        refine ⟨a1, ?_⟩
        show findPeer (erasePeer acc.pool p.id) q.id = some q
        rw [findPeer_erase_other _ _ _ (hp_not_peers q hq)]
        exact a2
    have final : ∀ acc', QuitOK b acc' r → (∀ q ∈ acc.peers, q ∈ acc'.peers) → (p.status.active = true → p ∈ acc'.peers) →
        QuitOK b (quitLoop rot pen r acc') [] ∧
        (∀ q, (q ∈ acc.peers ∨ (q ∈ p :: r ∧ q.status.active = true)) → q ∈ (quitLoop rot pen r acc').peers) := by
      intro acc' hok hsub hp
      obtain ⟨r1, r2⟩ := ih acc' hok
      refine ⟨r1, ?_⟩
      intro q hq
      apply r2
      rcases hq with hq | ⟨hq, ha⟩
      · exact Or.inl (hsub q hq)
      · simp only [List.mem_cons] at hq
        rcases hq with e | hq
        · subst e; exact Or.inl (hp ha)
        · exact Or.inr ⟨hq, ha⟩
    have nact : p.status ≠ .candidate → p.status ≠ .consensus → ¬ p.status.active = true := by
      intro h1 h2 ha
      rcases active_cases ha with e | e
      · exact h1 e
      · exact h2 e
    cases hs : p.status
    · -- register
      simp only [quitLoop, hs]
      refine final _ ⟨h.ci, fun q hq => h.todoIn q (by simp [hq]), h.peersIn, hnd_rest⟩ (fun q hq => hq) ?_
      intro ha; exact absurd ha (nact (by rw [hs]; intro e; cases e) (by rw [hs]; intro e; cases e))
    · -- candidate
      simp only [quitLoop, hs]
      refine final _ ⟨h.ci, fun q hq => h.todoIn q (by simp [hq]), ?_, ?_⟩ (fun q hq => by simp [hq]) (fun _ => by simp)
      · intro q hq
        simp only [List.mem_append, List.mem_singleton] at hq
        rcases hq with hq | e
        · exact h.peersIn q hq
        · subst e; exact ⟨by rw [hs]; rfl, hpin⟩
      · show (ids (acc.peers ++ [p]) ++ ids r).Nodup
        simp only [ids, List.map_append, List.map_cons, List.map_nil, List.append_assoc, List.singleton_append]
        exact hnd
    · -- consensus
      simp only [quitLoop, hs]
      refine final _ ⟨h.ci, fun q hq => h.todoIn q (by simp [hq]), ?_, ?_⟩ (fun q hq => by simp [hq]) (fun _ => by simp)
      · intro q hq
        simp only [List.mem_append, List.mem_singleton] at hq
        rcases hq with hq | e
        · exact h.peersIn q hq
        · subst e; exact ⟨by rw [hs]; rfl, hpin⟩
      · show (ids (acc.peers ++ [p]) ++ ids r).Nodup
        simp only [ids, List.map_append, List.map_cons, List.map_nil, List.append_assoc, List.singleton_append]
        exact hnd
    · -- quitConsensus
      simp only [quitLoop, hs]
      have hci : CI b (setPeer acc.pool { p with status := .quiting }) acc.auths := by
        have key := PosInv_setPeer_same { b with pool := acc.pool, auths := acc.auths, prevPool := [] } p
          { p with status := .quiting } h.ci hpin rfl rfl (by intro e; cases e) (by intro e; cases e) (by intro e; cases e)
        exact PosInv_of_eq _ _ key rfl rfl rfl
      refine final _ ⟨hci, ?_, ?_, hnd_rest⟩ (fun q hq => hq) ?_
      · intro q hq
        have := findPeer_setPeer_other acc.pool { p with status := .quiting } q.id (hp_not_rest q hq)
        exact this.trans (h.todoIn q (by simp [hq]))
      · intro q hq
        obtain ⟨a1, a2⟩ := h.peersIn q hq
        refine ⟨a1, ?_⟩
        have := findPeer_setPeer_other acc.pool { p with status := .quiting } q.id (hp_not_peers q hq)
        exact this.trans a2
      · intro ha; exact absurd ha (nact (by rw [hs]; intro e; cases e) (by rw [hs]; intro e; cases e))
    · -- quiting
      simp only [quitLoop, hs]
      apply final _ (erased _ _ _ (CI_normalQuit b _ _ p h.ci)) (fun q hq => hq)
      intro ha; exact absurd ha (nact (by rw [hs]; intro e; cases e) (by rw [hs]; intro e; cases e))
    · -- black
      simp only [quitLoop, hs]
      apply final _ (erased _ _ _ (CI_blackQuit b _ _ pen p h.ci)) (fun q hq => hq)
      intro ha; exact absurd ha (nact (by rw [hs]; intro e; cases e) (by rw [hs]; intro e; cases e))

/-! ### `mapAuths` and the four transitions -/

theorem mapAuths_mem {f : Auth → Except Err Auth} {p : Nat} {l l' : List Auth} (h : mapAuths f p l = .ok l') {x' : Auth}
    (hx : x' ∈ l') : (x' ∈ l ∧ x'.peer ≠ p) ∨ (∃ x ∈ l, x.peer = p ∧ f x = .ok x') := by
  induction l generalizing l' with
  | nil => simp [mapAuths] at h; subst h; simp at hx
  | cons a r ih =>
    simp only [mapAuths] at h
    split at h
    · rename_i hap
      split at h
      · cases h
      · rename_i a' ha'
        split at h
        · cases h
        · rename_i r' hr'
          cases h
          simp only [List.mem_cons] at hx
          rcases hx with e | hx
          · subst e; exact Or.inr ⟨a, by simp, hap, ha'⟩
          · rcases ih hr' hx with ⟨h1, h2⟩ | ⟨x, h1, h2, h3⟩
            · exact Or.inl ⟨by simp [h1], h2⟩
            · exact Or.inr ⟨x, by simp [h1], h2, h3⟩
    · rename_i hap
      split at h
      · cases h
      · rename_i r' hr'
        cases h
        simp only [List.mem_cons] at hx
        rcases hx with e | hx
        · subst e; exact Or.inl ⟨by simp, hap⟩
        · rcases ih hr' hx with ⟨h1, h2⟩ | ⟨x, h1, h2, h3⟩
          · exact Or.inl ⟨by simp [h1], h2⟩
          · exact Or.inr ⟨x, by simp [h1], h2, h3⟩

theorem mapAuths_asum_le {f : Auth → Except Err Auth} {p : Nat} {l l' : List Auth} (h : mapAuths f p l = .ok l')
    (g k : Auth → Nat) (hpeer : ∀ x x', f x = .ok x' → x'.peer = x.peer)
    (hle : ∀ x ∈ l, x.peer = p → ∀ x', f x = .ok x' → g x' ≤ k x) : asum g p l' ≤ asum k p l := by
  induction l generalizing l' with
  | nil => simp [mapAuths] at h; subst h; simp [asum]
  | cons a r ih =>
    simp only [mapAuths] at h
    split at h
    · rename_i hap
      split at h
      · cases h
      · rename_i a' ha'
        split at h
        · cases h
        · rename_i r' hr'
          cases h
          have := ih hr' (fun x hx => hle x (by simp [hx]))
          have h1 := hle a (by simp) hap a' ha'
          have h2 : a'.peer = p := by rw [hpeer a a' ha', hap]
          simp only [asum, hap, h2, if_true]; omega
    · rename_i hap
      split at h
      · cases h
      · rename_i r' hr'
        cases h
        have := ih hr' (fun x hx => hle x (by simp [hx]))
        simp only [asum, hap, if_false]; omega

theorem mapAuths_asum_eq {f : Auth → Except Err Auth} {p : Nat} {l l' : List Auth} (h : mapAuths f p l = .ok l')
    (g : Auth → Nat) (hpeer : ∀ x x', f x = .ok x' → x'.peer = x.peer)
    (heq : ∀ x x', f x = .ok x' → g x' = g x) : asum g p l' = asum g p l := by
  apply Nat.le_antisymm
  · exact mapAuths_asum_le h g g hpeer (fun x _ _ x' hx' => Nat.le_of_eq (heq x x' hx'))
  · -- the other direction by the same induction
    induction l generalizing l' with
    | nil => simp [mapAuths] at h; subst h; simp [asum]
    | cons a r ih =>
      simp only [mapAuths] at h
      split at h
      · rename_i hap
        split at h
        · cases h
        · rename_i a' ha'
          split at h
          · cases h
          · rename_i r' hr'
            cases h
            have := ih hr'
            have h1 := heq a a' ha'
            have h2 : a'.peer = p := by rw [hpeer a a' ha', hap]
            simp only [asum, hap, h2, if_true]; omega
      · rename_i hap
        split at h
        · cases h
        · rename_i r' hr'
          cases h
          have := ih hr'
          simp only [asum, hap, if_false]; omega

theorem mapAuths_asum_other {f : Auth → Except Err Auth} {p p' : Nat} {l l' : List Auth} (h : mapAuths f p l = .ok l')
    (g : Auth → Nat) (hpeer : ∀ x x', f x = .ok x' → x'.peer = x.peer) (hne : p' ≠ p) : asum g p' l' = asum g p' l := by
  induction l generalizing l' with
  | nil => simp [mapAuths] at h; subst h; rfl
  | cons a r ih =>
    simp only [mapAuths] at h
    split at h
    · rename_i hap
      split at h
      · cases h
      · rename_i a' ha'
        split at h
        · cases h
        · rename_i r' hr'
          cases h
          have := ih hr'
          have h1 : ¬ a.peer = p' := by rw [hap]; exact fun e => hne e.symm
          have h2 : ¬ a'.peer = p' := by rw [hpeer a a' ha']; exact h1
          simp only [asum, h1, h2, if_false]; omega
    · rename_i hap
      split at h
      · cases h
      · rename_i r' hr'
        cases h
        have := ih hr'
        simp only [asum]; omega

/-- what all four transitions have in common -/
structure IsTrans (f : Auth → Except Err Auth) : Prop where
  peer : ∀ x x', f x = .ok x' → x'.peer = x.peer
  addr : ∀ x x', f x = .ok x' → x'.addr = x.addr
  act : ∀ x x', f x = .ok x' → actOf x' = actOf x
  wcons : ∀ x x', f x = .ok x' → x'.wcons = 0

theorem isTrans_consToCons : IsTrans consToCons := by
  constructor <;> intro x x' h <;> simp only [consToCons] at h <;> split at h <;> cases h <;> simp_all [actOf] <;> omega
theorem isTrans_unConsToCons : IsTrans unConsToCons := by
  constructor <;> intro x x' h <;> simp only [unConsToCons] at h <;> split at h <;> cases h <;> simp_all [actOf] <;> omega
theorem isTrans_consToUnCons : IsTrans consToUnCons := by
  constructor <;> intro x x' h <;> simp only [consToUnCons] at h <;> split at h <;> cases h <;> simp_all [actOf] <;> omega
theorem isTrans_unConsToUnCons : IsTrans unConsToUnCons := by
  constructor <;> intro x x' h <;> simp only [unConsToUnCons] at h <;> split at h <;> cases h <;> simp_all [actOf] <;> omega

theorem consToCons_fC (o : Nat) (x x' : Auth) (h : consToCons x = .ok x') : fC o x' ≤ actOf x := by
  simp only [consToCons] at h; split at h <;> cases h
  simp only [fC, actOf]; split <;> omega
theorem unConsToCons_fC (o : Nat) (x x' : Auth) (h : unConsToCons x = .ok x') :
    fC o x' ≤ actOf x ∧ (x.wcons = 0 → fD o x' = 0) := by
  simp only [unConsToCons] at h; split at h <;> cases h
  simp only [fC, fD, actOf]
  constructor
  · split <;> omega
  · intro hw; split <;> omega
theorem consToUnCons_fC (o : Nat) (x x' : Auth) (h : consToUnCons x = .ok x') : fC o x' = 0 := by
  simp only [consToUnCons] at h; split at h <;> cases h
  simp [fC]
theorem unConsToUnCons_fD (o : Nat) (x x' : Auth) (h : unConsToUnCons x = .ok x') (hw : x.wcons = 0) : fD o x' ≤ actOf x := by
  simp only [unConsToUnCons] at h; split at h <;> cases h
  simp only [fD, actOf]; split <;> omega

/-- what the next split needs to know about a peer `q` of the view that just ended -/
def Clause (q : Peer) (pool : List Peer) (auths : List Auth) : Prop :=
  ∃ c, findPeer pool q.id = some c ∧ c.owner = q.owner ∧ c.status.active = true ∧
    (q.status = .consensus → asum (fC q.owner) q.id auths ≤ q.totalPos) ∧
    (q.status = .candidate → asum (fD q.owner) q.id auths ≤ q.totalPos ∧
      (c.status = .consensus → asum (fC q.owner) q.id auths ≤ q.totalPos))

/-- one iteration of the election loops -/
theorem elect_step (b : Book) (pool : List Peer) (auths auths1 : List Auth) (q : Peer) (k : Nat)
    (hi : CI b pool auths) (hq : findPeer pool q.id = some q) (hact : q.status.active = true)
    (hm : mapAuths (if k > 0 then (if q.status == .consensus then consToCons else unConsToCons)
                    else (if q.status == .consensus then consToUnCons else unConsToUnCons)) q.id auths = .ok auths1) :
    let pool1 := setPeer pool { q with status := if k > 0 then .consensus else .candidate }
    CI b pool1 auths1 ∧ Clause q pool1 auths1 ∧
    (∀ z : Peer, z.id ≠ q.id → findPeer pool1 z.id = findPeer pool z.id) ∧
    (∀ (g : Auth → Nat) (p' : Nat), p' ≠ q.id → asum g p' auths1 = asum g p' auths) := by
  intro pool1
  generalize hf : (if k > 0 then (if q.status == .consensus then consToCons else unConsToCons)
                    else (if q.status == .consensus then consToUnCons else unConsToUnCons)) = f at hm
  have hT : IsTrans f := by
    rw [← hf]; split <;> split
    · exact isTrans_consToCons
    · exact isTrans_unConsToCons
    · exact isTrans_consToUnCons
    · exact isTrans_unConsToUnCons
  let q' : Peer := { q with status := if k > 0 then .consensus else .candidate }
  have hq' : findPeer pool q'.id = some q := hq
  have hmem := mem_setPeer hi.nodup hq'
  obtain ⟨hqm, _⟩ := findPeer_some_mem hq
  have hq'act : q'.status.active = true := by
    show (if k > 0 then Status.consensus else Status.candidate).active = true
    split <;> rfl
  have hother : ∀ (g : Auth → Nat) (p' : Nat), p' ≠ q.id → asum g p' auths1 = asum g p' auths :=
    fun g p' hne => mapAuths_asum_other hm g hT.peer hne
  have hfind : ∀ z : Peer, z.id ≠ q.id → findPeer pool1 z.id = findPeer pool z.id :=
    fun z hne => findPeer_setPeer_other pool q' z.id hne
  have hactEq : asum actOf q.id auths1 = asum actOf q.id auths := mapAuths_asum_eq hm actOf hT.peer hT.act
  have htot : q.totalPos = asum actOf q.id auths := hi.total q hqm
  refine ⟨?_, ?_, hfind, hother⟩
  · -- CI
    refine ⟨by show (ids (setPeer pool q')).Nodup; rw [ids_setPeer hq']; exact hi.nodup, by simp [ids], ?_, ?_, ?_,
      by intro z hz; simp at hz⟩
    · intro x' hx' hreg
      rcases mapAuths_mem hm hx' with ⟨hx, hne⟩ | ⟨x, _, hxp, hfx⟩
      · apply hi.zero x' hx
        intro z hz hzid
        exact hreg z ((hmem z).2 (Or.inr ⟨hz, by show z.id ≠ q.id; rw [hzid]; exact hne⟩)) hzid
      · exfalso
        have := hreg q' ((hmem q').2 (Or.inl rfl)) (by show q.id = x'.peer; rw [hT.peer x x' hfx, hxp])
        rw [this] at hq'act; simp [Status.active] at hq'act
    · intro z hz
      rcases (hmem z).1 hz with e | ⟨hz', hne⟩
      · subst e; show q.totalPos = asum actOf q.id auths1; rw [hactEq]; exact htot
      · show z.totalPos = asum actOf z.id auths1; rw [hother _ _ hne]; exact hi.total z hz'
    · intro z hz hst x' hx' hxp
      rcases mapAuths_mem hm hx' with ⟨hx, hne⟩ | ⟨x, _, hxpeer, hfx⟩
      · rcases (hmem z).1 hz with e | ⟨hz', _⟩
        · subst e; exact absurd hxp hne
        · exact hi.candW z hz' hst x' hx hxp
      · exact hT.wcons x x' hfx
  · -- the clause for q
    refine ⟨q', findPeer_setPeer_self pool q', rfl, hq'act, ?_, ?_⟩
    · intro hs
      rw [htot]
      apply mapAuths_asum_le hm _ _ hT.peer
      intro x _ _ x' hfx
      rw [← hf] at hfx
      simp only [hs, beq_self_eq_true, if_true] at hfx
      split at hfx
      · exact consToCons_fC _ x x' hfx
      · rw [consToUnCons_fC _ x x' hfx]; omega
    · intro hs
      have hne : (q.status == Status.consensus) = false := by rw [hs]; rfl
      have hw : ∀ x ∈ auths, x.peer = q.id → x.wcons = 0 := fun x hx hxp => hi.candW q hqm hs x hx hxp
      refine ⟨?_, ?_⟩
      · rw [htot]
        apply mapAuths_asum_le hm _ _ hT.peer
        intro x hx hxp x' hfx
        rw [← hf] at hfx
        simp only [hne] at hfx
        split at hfx
        · rw [(unConsToCons_fC _ x x' hfx).2 (hw x hx hxp)]; omega
        · exact unConsToUnCons_fD _ x x' hfx (hw x hx hxp)
      · intro hcs
        have htc : k > 0 := by
          by_cases hk : k > 0
          · exact hk
          · simp [q', hk] at hcs
        rw [htot]
        apply mapAuths_asum_le hm _ _ hT.peer
        intro x _ _ x' hfx
        rw [← hf] at hfx
        simp only [hne, htc, if_true] at hfx
        exact (unConsToCons_fC _ x x' hfx).1

theorem sortPeers_perm (l : List Peer) : (sortPeers l).Perm l := by
  have ins : ∀ (p : Peer) (l : List Peer), (insertPeer p l).Perm (p :: l) := by
    intro p l
    induction l with
    | nil => exact List.Perm.refl _
    | cons x r ih =>
      simp only [insertPeer]
      split
      · exact List.Perm.refl _
      · exact (List.Perm.cons x ih).trans (List.Perm.swap p x r)
  induction l with
  | nil => exact List.Perm.refl _
  | cons x r ih => exact (ins x (sortPeers r)).trans (List.Perm.cons x ih)

theorem electLoop_spec (b : Book) (k : Nat) (L : List Peer) (pool pool' : List Peer) (auths auths' : List Auth)
    (h : electLoop k L (pool, auths) = .ok (pool', auths'))
    (hi : CI b pool auths) (hL : ∀ q ∈ L, q.status.active = true ∧ findPeer pool q.id = some q) (hnd : (ids L).Nodup) :
    CI b pool' auths' ∧ (∀ q ∈ L, Clause q pool' auths') ∧
    (∀ z : Peer, z.id ∉ ids L → Clause z pool auths → Clause z pool' auths') := by
  induction L generalizing k pool auths with
  | nil =>
    simp [electLoop] at h; obtain ⟨h1, h2⟩ := h; subst h1; subst h2
    exact ⟨hi, by simp, fun _ _ hc => hc⟩
  | cons q r ih =>
    obtain ⟨hact, hq⟩ := hL q (by simp)
    simp only [ids, List.map_cons, List.nodup_cons] at hnd
    simp only [electLoop, hq] at h
    split at h
    · cases h
    · rename_i auths1 hm
      obtain ⟨s1, s2, s3, s4⟩ := elect_step b pool auths auths1 q k hi hq hact hm
      have frame1 : ∀ z : Peer, z.id ≠ q.id → Clause z pool auths →
          Clause z (setPeer pool { q with status := if k > 0 then .consensus else .candidate }) auths1 := by
        intro z hne ⟨c, c1, c2, c3, c4, c5⟩
        refine ⟨c, by rw [s3 z hne]; exact c1, c2, c3, ?_, ?_⟩
        · intro hs; rw [s4 _ _ hne]; exact c4 hs
        · intro hs; obtain ⟨d1, d2⟩ := c5 hs
          exact ⟨by rw [s4 _ _ hne]; exact d1, fun hc => by rw [s4 _ _ hne]; exact d2 hc⟩
      have hr : ∀ z ∈ r, z.status.active = true ∧
          findPeer (setPeer pool { q with status := if k > 0 then .consensus else .candidate }) z.id = some z := by
        intro z hz
        obtain ⟨a1, a2⟩ := hL z (by simp [hz])
        have hne : z.id ≠ q.id := by
          intro e; apply hnd.1; rw [← e]; exact List.mem_map_of_mem hz
        exact ⟨a1, by rw [s3 z hne]; exact a2⟩
      obtain ⟨r1, r2, r3⟩ := ih (k - 1) _ _ h s1 hr hnd.2
      refine ⟨r1, ?_, ?_⟩
      · intro z hz
        simp only [List.mem_cons] at hz
        rcases hz with e | hz
        · subst e; exact r3 z hnd.1 s2
        · exact r2 z hz
      · intro z hz hc
        simp only [ids, List.map_cons, List.mem_cons, not_or] at hz
        exact r3 z hz.2 (frame1 z hz.1 hc)

/-- **epoch change** (`executeCommitDpos`, both versions) -/
theorem commitPlan_inv (s : St) (b' : Book) (acts : List BankAction) (h : commitPlan s = .ok (b', acts))
    (hi : PosInv s.book) : PosInv b' := by
  unfold commitPlan at h
  simp only at h
  split at h
  · cases h
  · split at h
    · cases h
    · rename_i pre post _
      generalize hacc : quitLoop (decide (s.book.view > OntVerif.Gen.Gov.NEW_VERSION_VIEW)) s.book.gp.penalty s.book.pool
        { pool := s.book.pool, auths := s.book.auths, attrs := s.book.attrs, peers := [], acts := [] } = acc at h
      split at h
      · cases h
      · split at h
        · cases h
        · rename_i pool' auths' he
          cases h
          have h0 : QuitOK s.book { pool := s.book.pool, auths := s.book.auths, attrs := s.book.attrs, peers := [], acts := [] }
              s.book.pool := by
            refine ⟨?_, ?_, ?_, ?_⟩
            · exact CI_of_PI s.book s.book.pool s.book.auths (PosInv_of_eq _ _ hi rfl rfl rfl)
            · intro p hp; exact findPeer_of_mem hi.nodup hp
            · intro q hq; simp at hq
            · simpa [ids] using hi.nodup
          obtain ⟨q1, q2⟩ := quitLoop_spec s.book _ s.book.gp.penalty s.book.pool _ h0
          rw [hacc] at q1 q2
          have perm := sortPeers_perm acc.peers
          have hL : ∀ q ∈ sortPeers acc.peers, q.status.active = true ∧ findPeer acc.pool q.id = some q :=
            fun q hq => q1.peersIn q (perm.mem_iff.1 hq)
          have hnd : (ids (sortPeers acc.peers)).Nodup := by
            have h1 : (ids acc.peers).Nodup := by simpa [ids] using q1.nodup
            exact ((perm.map (fun x : Peer => x.id)).nodup_iff).2 h1
          obtain ⟨e1, e2, _⟩ := electLoop_spec s.book _ _ _ _ _ _ he q1.ci hL hnd
          refine ⟨e1.nodup, hi.nodup, e1.zero, e1.total, e1.candW, ?_⟩
          intro q hq ha
          have hqL : q ∈ sortPeers acc.peers := perm.mem_iff.2 (q2 q (Or.inr ⟨hq, ha⟩))
          obtain ⟨c, c1, c2, c3, c4, c5⟩ := e2 q hqL
          obtain ⟨cm, cid⟩ := findPeer_some_mem c1
          refine ⟨c, cm, cid, c2, ?_, c4, c5⟩
          intro e; rw [e] at c3; simp [Status.active] at c3

/-- the owner's own record gets frozen/unfrozen positions out of `InitPos` (reduceInitPos) -/
theorem PI_owner_record (b : Book) (pool : List Peer) (auths : List Auth) (q : Peer) (p a w w2 u : Nat)
    (hi : PI b pool auths) (hq : findPeer pool p = some q) (ho : q.owner = a)
    (hc : q.status = .candidate → w = (getAuth auths p a).wcons)
    (hr : q.status = .register → w = (getAuth auths p a).wcons ∧ w2 = (getAuth auths p a).wcand) :
    PI b pool (putAuth auths { getAuth auths p a with wcons := w, wcand := w2, unf := u }) := by
  obtain ⟨i1, i2⟩ := getAuth_ids auths p a
  obtain ⟨hqm, hqid⟩ := findPeer_some_mem hq
  have uniq : ∀ z ∈ pool, z.id = p → z = q := by
    intro z hz e
    have := findPeer_of_mem hi.nodup hz; rw [e, hq] at this; cases this; rfl
  have key := PosInv_putAuth { b with pool := pool, auths := auths }
    { getAuth auths p a with wcons := w, wcand := w2, unf := u } hi
    (by show _ = actOf (getAuth auths (getAuth auths p a).peer (getAuth auths p a).addr); rw [i1, i2]; rfl)
    (by
      intro hreg
      show zeroed (getAuth auths (getAuth auths p a).peer (getAuth auths p a).addr) → _
      rw [i1, i2]
      have hs := hreg q hqm (hqid.trans i1.symm)
      obtain ⟨e1, e2⟩ := hr hs
      intro ⟨z1, z2, z3, z4, z5⟩
      exact ⟨z1, z2, z3, by show w = 0; rw [e1]; exact z4, by show w2 = 0; rw [e2]; exact z5⟩)
    (by
      intro z hz hzid hs
      have := uniq z hz (hzid.trans i1)
      subst this
      show w = 0
      rw [hc hs]
      apply getAuth_prop (fun x => x.wcons = 0)
      · intro x hx hxp; exact hi.candW z hz hs x hx (by rw [hxp, hqid])
      · rfl)
    (by
      intro q0 hq0 ha0 hid0
      obtain ⟨c, hc', c1, c2, _⟩ := hi.prev q0 hq0 ha0
      have := uniq c hc' (by rw [c1]; exact hid0.trans i1)
      subst this
      show fC q0.owner _ = fC q0.owner (getAuth auths (getAuth auths p a).peer (getAuth auths p a).addr) ∧
           fD q0.owner _ = fD q0.owner (getAuth auths (getAuth auths p a).peer (getAuth auths p a).addr)
      rw [i1, i2]
      have : (getAuth auths p a).addr = q0.owner := by rw [i2, ← c2, ho]
      simp [fC, fD, this])
  exact PosInv_of_eq _ _ key rfl rfl rfl

theorem PI_of (b : Book) (hi : PosInv b) : PI b b.pool b.auths := PosInv_of_eq _ _ hi rfl rfl rfl

/-- **every operation preserves the position invariant** -/
theorem plan_inv (op : Op) (s : St) (b' : Book) (acts : List BankAction) (h : plan op s = .ok (b', acts))
    (hi : PosInv s.book) : PosInv b' := by
  have frame : ∀ b'' : Book, b''.pool = s.book.pool → b''.prevPool = s.book.prevPool → b''.auths = s.book.auths → PosInv b'' :=
    fun b'' h1 h2 h3 => PosInv_of_eq _ _ hi h1 h2 h3
  cases op with
  | ht n =>
    simp only [plan] at h; split at h
    · cases h
    · cases h; exact frame _ rfl rfl rfl
  | fee frm n => simp only [plan] at h; cases h; exact hi
  | reg w p a pos =>
    simp only [plan] at h
    split at h; · cases h
    split at h; · cases h
    split at h; · cases h
    split at h; · cases h
    rename_i hnone
    have hf : findPeer s.book.pool p = none := by
      cases hfp : findPeer s.book.pool p with
      | none => rfl
      | some q => rw [hfp] at hnone; simp at hnone
    split at h
    · split at h; · cases h
      split at h; · cases h
      cases h
      have key := PosInv_register s.book { id := p, owner := a, status := .candidate, initPos := pos, totalPos := 0 } hi hf rfl
      exact PosInv_of_eq _ _ key rfl rfl rfl
    · cases h
      have key := PosInv_register s.book { id := p, owner := a, status := .register, initPos := pos, totalPos := 0 } hi hf rfl
      exact PosInv_of_eq _ _ key rfl rfl rfl
  | unreg w p a =>
    simp only [plan] at h
    split at h; · cases h
    split at h; · cases h
    rename_i q hq
    split at h; · cases h
    rename_i hs
    split at h; · cases h
    cases h
    obtain ⟨_, hqid⟩ := findPeer_some_mem hq
    have hs' : q.status = .register := by simpa using hs
    have h1 := PI_putAuth_unf s.book s.book.pool s.book.auths p a ((getAuth s.book.auths p a).unf + q.initPos) (PI_of _ hi)
    have key := PosInv_erase_register _ q h1 (by show findPeer s.book.pool q.id = some q; rw [hqid]; exact hq) hs'
    rw [hqid] at key
    exact PosInv_of_eq _ _ key rfl rfl rfl
  | appr w p =>
    simp only [plan] at h
    split at h; · cases h
    split at h; · cases h
    split at h; · cases h
    rename_i q hq
    split at h; · cases h
    split at h; · cases h
    rename_i hs
    cases h
    obtain ⟨_, hqid⟩ := findPeer_some_mem hq
    have hs' : q.status = .register := by simpa using hs
    have key := PosInv_approve s.book q hi (by rw [hqid]; exact hq) hs'
    exact PosInv_of_eq _ _ key rfl rfl rfl
  | rej w p =>
    simp only [plan] at h
    split at h; · cases h
    split at h; · cases h
    rename_i q hq
    split at h; · cases h
    rename_i hs
    cases h
    obtain ⟨_, hqid⟩ := findPeer_some_mem hq
    have hs' : q.status = .register := by simpa using hs
    have h1 := PI_putAuth_unf s.book s.book.pool s.book.auths p q.owner ((getAuth s.book.auths p q.owner).unf + q.initPos) (PI_of _ hi)
    have key := PosInv_erase_register _ q h1 (by show findPeer s.book.pool q.id = some q; rw [hqid]; exact hq) hs'
    rw [hqid] at key
    exact PosInv_of_eq _ _ key rfl rfl rfl
  | black w ps =>
    simp only [plan] at h
    split at h; · cases h
    split at h; · cases h
    rename_i pool bl commit hb
    have h1 : PosInv { s.book with pool := pool, black := bl } :=
      PosInv_of_eq _ _ (blackLoop_inv s.book ps _ _ _ _ _ _ s.book.auths hb (PI_of _ hi)) rfl rfl rfl
    split at h
    · exact commitPlan_inv _ _ _ h h1
    · cases h; exact h1
  | white w p =>
    simp only [plan] at h
    split at h; · cases h
    split at h; · cases h
    cases h; exact frame _ rfl rfl rfl
  | quit w p a =>
    simp only [plan] at h
    split at h; · cases h
    split at h; · cases h
    rename_i q hq
    split at h; · cases h
    split at h; · cases h
    split at h; · cases h
    cases h
    obtain ⟨_, hqid⟩ := findPeer_some_mem hq
    have key := PosInv_setPeer_same s.book q
      { q with status := if q.status == .consensus then .quitConsensus else .quiting } hi
      (by show findPeer s.book.pool q.id = some q; rw [hqid]; exact hq) rfl rfl
      (by intro e; simp only at e; split at e <;> cases e)
      (by intro e; simp only at e; split at e <;> cases e)
      (by intro e; simp only at e; split at e <;> cases e)
    exact PosInv_of_eq _ _ key rfl rfl rfl
  | auth w a items =>
    simp only [plan] at h
    split at h; · cases h
    split at h; · cases h
    rename_i pool auths total hl
    cases h
    exact PosInv_of_eq _ _ (authLoop_inv s.book a items _ _ _ _ _ _ hl (PI_of _ hi)) rfl rfl rfl
  | unauth w a items =>
    simp only [plan] at h
    split at h; · cases h
    split at h; · cases h
    rename_i pool auths hl
    cases h
    exact PosInv_of_eq _ _ (unauthLoop_inv s.book a items _ _ _ _ hl (PI_of _ hi)) rfl rfl rfl
  | wd w a items =>
    simp only [plan] at h
    split at h; · cases h
    split at h; · cases h
    rename_i auths total hl
    cases h
    exact PosInv_of_eq _ _ (wdLoop_inv s.book _ a items s.book.pool _ _ _ _ hl (PI_of _ hi)) rfl rfl rfl
  | commit w =>
    simp only [plan] at h
    split at h; · cases h
    exact commitPlan_inv s b' acts h hi
  | addpos w p a n =>
    simp only [plan] at h
    split at h; · cases h
    split at h; · cases h
    split at h; · cases h
    split at h; · cases h
    rename_i q hq
    split at h; · cases h
    split at h; · cases h
    cases h
    obtain ⟨_, hqid⟩ := findPeer_some_mem hq
    have key := PosInv_setPeer_same s.book q { q with initPos := q.initPos + n } hi
      (by show findPeer s.book.pool q.id = some q; rw [hqid]; exact hq) rfl rfl id id id
    exact PosInv_of_eq _ _ key rfl rfl rfl
  | redpos w p a n =>
    simp only [plan] at h
    split at h; · cases h
    split at h; · cases h
    split at h; · cases h
    split at h; · cases h
    rename_i q hq
    split at h; · cases h
    rename_i hown
    split at h; · cases h
    split at h; · cases h
    split at h; · cases h
    split at h; · cases h
    split at h; · cases h
    obtain ⟨_, hqid⟩ := findPeer_some_mem hq
    have hown' : q.owner = a := by simpa using hown
    have hpool : PosInv { s.book with pool := setPeer s.book.pool { q with initPos := q.initPos - n } } :=
      PosInv_setPeer_same s.book q { q with initPos := q.initPos - n } hi
        (by show findPeer s.book.pool q.id = some q; rw [hqid]; exact hq) rfl rfl id id id
    have hq2 : findPeer (setPeer s.book.pool { q with initPos := q.initPos - n }) p = some { q with initPos := q.initPos - n } := by
      have := findPeer_setPeer_self s.book.pool { q with initPos := q.initPos - n }
      rw [← hqid]; exact this
    have rec_ : ∀ w' w2 u, (q.status = .candidate → w' = (getAuth s.book.auths p a).wcons) →
        (q.status = .register → w' = (getAuth s.book.auths p a).wcons ∧ w2 = (getAuth s.book.auths p a).wcand) →
        PosInv { s.book with pool := setPeer s.book.pool { q with initPos := q.initPos - n },
                             auths := putAuth s.book.auths { getAuth s.book.auths p a with wcons := w', wcand := w2, unf := u } } := by
      intro w' w2 u c1 c2
      have := PI_owner_record s.book _ s.book.auths { q with initPos := q.initPos - n } p a w' w2 u
        (PosInv_of_eq _ _ hpool rfl rfl rfl) hq2 hown' c1 c2
      exact PosInv_of_eq _ _ this rfl rfl rfl
    split at h
    · rename_i hs
      cases h
      exact PosInv_of_eq _ _ (rec_ ((getAuth s.book.auths p a).wcons + n) (getAuth s.book.auths p a).wcand (getAuth s.book.auths p a).unf
        (by intro e; rw [e] at hs; cases hs) (by intro e; rw [e] at hs; cases hs)) rfl rfl rfl
    · rename_i hs
      cases h
      exact PosInv_of_eq _ _ (rec_ (getAuth s.book.auths p a).wcons ((getAuth s.book.auths p a).wcand + n) (getAuth s.book.auths p a).unf
        (fun _ => rfl) (by intro e; rw [e] at hs; cases hs)) rfl rfl rfl
    · rename_i hs
      cases h
      exact PosInv_of_eq _ _ (rec_ (getAuth s.book.auths p a).wcons (getAuth s.book.auths p a).wcand ((getAuth s.book.auths p a).unf + n)
        (fun _ => rfl) (fun _ => ⟨rfl, rfl⟩)) rfl rfl rfl
    · cases h
  | maxauth w p a n =>
    simp only [plan] at h
    split at h; · cases h
    split at h; · cases h
    split at h; · cases h
    split at h; · cases h
    split at h; · cases h
    cases h; exact frame _ rfl rfl rfl
  | cost w p a pc =>
    simp only [plan] at h
    split at h; · cases h
    split at h; · cases h
    split at h; · cases h
    split at h; · cases h
    split at h; · cases h
    cases h; exact frame _ rfl rfl rfl
  | feepct w p a pc sc =>
    simp only [plan] at h
    split at h; · cases h
    split at h; · cases h
    split at h; · cases h
    split at h; · cases h
    split at h; · cases h
    split at h; · cases h
    cases h; exact frame _ rfl rfl rfl
  | wfee w a =>
    simp only [plan] at h
    split at h; · cases h
    split at h; · cases h
    cases h; exact hi
  | gp w g =>
    simp only [plan] at h
    split at h; · cases h
    split at h; · cases h
    split at h; · cases h
    split at h; · cases h
    split at h; · cases h
    split at h; · cases h
    split at h; · cases h
    split at h; · cases h
    cases h; exact frame _ rfl rfl rfl
  | gp2 w g =>
    simp only [plan] at h
    split at h; · cases h
    split at h; · cases h
    split at h; · cases h
    split at h; · cases h
    cases h; exact frame _ rfl rfl rfl
  | promise w p n =>
    simp only [plan] at h
    split at h; · cases h
    split at h; · cases h
    cases h; exact frame _ rfl rfl rfl
  | gas w a =>
    simp only [plan] at h
    split at h; · cases h
    cases h; exact frame _ rfl rfl rfl
  | tpen w p a =>
    simp only [plan] at h
    split at h; · cases h
    cases h; exact hi
  | wong w a =>
    simp only [plan] at h
    split at h; · cases h
    cases h; exact hi

/-! ### parameters, attributes and the number of candidates -/

def attrOK (x : Attr) : Prop := x.t2pc ≤ 100 ∧ x.t1pc ≤ 100 ∧ x.tpc ≤ 100 ∧ x.t2sc ≤ 101 ∧ x.t1sc ≤ 101 ∧ x.tsc ≤ 101

structure AuxInv (b : Book) : Prop where
  ab : b.gp.A + b.gp.B ≤ 100
  dapp : ∀ g, b.gp2 = some g → g.dappFee ≤ 100
  attrs : ∀ x ∈ b.attrs, attrOK x
  kpos : 0 < b.K
  kprev : b.K ≤ (b.prevPool.filter (fun p => p.status.active)).length

theorem AuxInv_of_eq (b b' : Book) (h : AuxInv b) (h2 : b'.gp = b.gp) (h3 : b'.gp2 = b.gp2)
    (h4 : b'.attrs = b.attrs) (h5 : b'.K = b.K) (h6 : b'.prevPool = b.prevPool) : AuxInv b' :=
  ⟨by rw [h2]; exact h.ab, by rw [h3]; exact h.dapp, by rw [h4]; exact h.attrs,
   by rw [h5]; exact h.kpos, by rw [h5, h6]; exact h.kprev⟩

theorem mem_putAttr {l : List Attr} {y x : Attr} (h : x ∈ putAttr l y) : x = y ∨ x ∈ l := by
  induction l with
  | nil => simp [putAttr] at h; exact Or.inl h
  | cons z r ih =>
    simp only [putAttr] at h
    split at h
    · simp only [List.mem_cons] at h
      rcases h with e | h
      · exact Or.inl e
      · exact Or.inr (by simp [h])
    · simp only [List.mem_cons] at h
      rcases h with e | h
      · exact Or.inr (by simp [e])
      · rcases ih h with e | h'
        · exact Or.inl e
        · exact Or.inr (by simp [h'])

theorem getAttr_ok (l : List Attr) (p : Nat) (h : ∀ x ∈ l, attrOK x) : attrOK (getAttr l p) := by
  induction l with
  | nil => simp [getAttr, attrOK, OntVerif.Gen.Gov.DEFAULT_T2_PEER_COST, OntVerif.Gen.Gov.DEFAULT_T1_PEER_COST,
      OntVerif.Gen.Gov.DEFAULT_T_PEER_COST]
  | cons z r ih =>
    simp only [getAttr]
    split
    · exact h z (by simp)
    · exact ih (fun x hx => h x (by simp [hx]))

theorem putAttr_ok (l : List Attr) (y : Attr) (h : ∀ x ∈ l, attrOK x) (hy : attrOK y) : ∀ x ∈ putAttr l y, attrOK x := by
  intro x hx
  rcases mem_putAttr hx with e | hx'
  · rw [e]; exact hy
  · exact h x hx'

theorem quitLoop_attrs (rot : Bool) (pen : Nat) (todo : List Peer) (acc : QuitAcc) (h : ∀ x ∈ acc.attrs, attrOK x) :
    ∀ x ∈ (quitLoop rot pen todo acc).attrs, attrOK x := by
  induction todo generalizing acc with
  | nil => exact h
  | cons p r ih =>
    have h' : ∀ x ∈ (if rot then
        putAttr acc.attrs { getAttr acc.attrs p.id with tpc := (getAttr acc.attrs p.id).t1pc, t1pc := (getAttr acc.attrs p.id).t2pc,
                                                           tsc := (getAttr acc.attrs p.id).t1sc, t1sc := (getAttr acc.attrs p.id).t2sc }
        else acc.attrs), attrOK x := by
      split
      · apply putAttr_ok _ _ h
        obtain ⟨a1, a2, a3, a4, a5, a6⟩ := getAttr_ok acc.attrs p.id h
        exact ⟨a1, a1, a2, a4, a4, a5⟩
      · exact h
    simp only [quitLoop]
    cases p.status <;> simp only <;> apply ih <;> exact h'

theorem quitLoop_peers (rot : Bool) (pen : Nat) (todo : List Peer) (acc : QuitAcc) :
    (quitLoop rot pen todo acc).peers = acc.peers ++ todo.filter (fun p => p.status.active) := by
  induction todo generalizing acc with
  | nil => simp [quitLoop]
  | cons p r ih =>
    simp only [quitLoop]
    cases hs : p.status <;> simp only [ih, List.filter_cons, hs, Status.active] <;> simp

theorem commitPlan_aux (s : St) (b' : Book) (acts : List BankAction) (h : commitPlan s = .ok (b', acts))
    (hi : AuxInv s.book) : AuxInv b' := by
  unfold commitPlan at h
  simp only at h
  split at h
  · cases h
  · split at h
    · cases h
    · generalize hacc : quitLoop (decide (s.book.view > OntVerif.Gen.Gov.NEW_VERSION_VIEW)) s.book.gp.penalty s.book.pool
        { pool := s.book.pool, auths := s.book.auths, attrs := s.book.attrs, peers := [], acts := [] } = acc at h
      split at h
      · cases h
      · rename_i hk
        split at h
        · cases h
        · cases h
          have hp := quitLoop_peers (decide (s.book.view > OntVerif.Gen.Gov.NEW_VERSION_VIEW)) s.book.gp.penalty s.book.pool
            { pool := s.book.pool, auths := s.book.auths, attrs := s.book.attrs, peers := [], acts := [] }
          have ha := quitLoop_attrs (decide (s.book.view > OntVerif.Gen.Gov.NEW_VERSION_VIEW)) s.book.gp.penalty s.book.pool
            { pool := s.book.pool, auths := s.book.auths, attrs := s.book.attrs, peers := [], acts := [] } hi.attrs
          rw [hacc] at hp ha
          refine ⟨hi.ab, hi.dapp, ha, hi.kpos, ?_⟩
          show s.book.K ≤ (s.book.pool.filter (fun p => p.status.active)).length
          simp only [List.nil_append] at hp
          rw [← hp]; omega

theorem plan_aux (op : Op) (s : St) (b' : Book) (acts : List BankAction) (h : plan op s = .ok (b', acts))
    (hi : AuxInv s.book) : AuxInv b' := by
  have frame : ∀ b'' : Book, b''.gp = s.book.gp → b''.gp2 = s.book.gp2 →
      b''.attrs = s.book.attrs → b''.K = s.book.K → b''.prevPool = s.book.prevPool → AuxInv b'' :=
    fun b'' h2 h3 h4 h5 h6 => AuxInv_of_eq _ _ hi h2 h3 h4 h5 h6
  have attrUpd : ∀ (y : Attr), attrOK y → AuxInv { s.book with attrs := putAttr s.book.attrs y } :=
    fun y hy => ⟨hi.ab, hi.dapp, putAttr_ok _ _ hi.attrs hy, hi.kpos, hi.kprev⟩
  cases op with
  | ht n =>
    simp only [plan] at h; split at h
    · cases h
    · cases h; exact frame _ rfl rfl rfl rfl rfl
  | fee frm n => simp only [plan] at h; cases h; exact hi
  | reg w p a pos =>
    simp only [plan] at h
    split at h; · cases h
    split at h; · cases h
    split at h; · cases h
    split at h; · cases h
    split at h
    · split at h; · cases h
      split at h; · cases h
      cases h; exact frame _ rfl rfl rfl rfl rfl
    · cases h; exact frame _ rfl rfl rfl rfl rfl
  | unreg w p a =>
    simp only [plan] at h
    split at h; · cases h
    split at h; · cases h
    split at h; · cases h
    split at h; · cases h
    cases h; exact frame _ rfl rfl rfl rfl rfl
  | appr w p =>
    simp only [plan] at h
    split at h; · cases h
    split at h; · cases h
    split at h; · cases h
    split at h; · cases h
    split at h; · cases h
    cases h; exact frame _ rfl rfl rfl rfl rfl
  | rej w p =>
    simp only [plan] at h
    split at h; · cases h
    split at h; · cases h
    split at h; · cases h
    cases h; exact frame _ rfl rfl rfl rfl rfl
  | black w ps =>
    simp only [plan] at h
    split at h; · cases h
    split at h; · cases h
    rename_i pool bl commit hb
    have h1 : AuxInv { s.book with pool := pool, black := bl } := frame _ rfl rfl rfl rfl rfl
    split at h
    · exact commitPlan_aux _ _ _ h h1
    · cases h; exact h1
  | white w p =>
    simp only [plan] at h
    split at h; · cases h
    split at h; · cases h
    cases h; exact frame _ rfl rfl rfl rfl rfl
  | quit w p a =>
    simp only [plan] at h
    split at h; · cases h
    split at h; · cases h
    split at h; · cases h
    split at h; · cases h
    split at h; · cases h
    cases h; exact frame _ rfl rfl rfl rfl rfl
  | auth w a items =>
    simp only [plan] at h
    split at h; · cases h
    split at h; · cases h
    cases h; exact frame _ rfl rfl rfl rfl rfl
  | unauth w a items =>
    simp only [plan] at h
    split at h; · cases h
    split at h; · cases h
    cases h; exact frame _ rfl rfl rfl rfl rfl
  | wd w a items =>
    simp only [plan] at h
    split at h; · cases h
    split at h; · cases h
    cases h; exact frame _ rfl rfl rfl rfl rfl
  | commit w =>
    simp only [plan] at h
    split at h; · cases h
    exact commitPlan_aux s b' acts h hi
  | addpos w p a n =>
    simp only [plan] at h
    split at h; · cases h
    split at h; · cases h
    split at h; · cases h
    split at h; · cases h
    split at h; · cases h
    split at h; · cases h
    cases h; exact frame _ rfl rfl rfl rfl rfl
  | redpos w p a n =>
    simp only [plan] at h
    split at h; · cases h
    split at h; · cases h
    split at h; · cases h
    split at h; · cases h
    split at h; · cases h
    split at h; · cases h
    split at h; · cases h
    split at h; · cases h
    split at h; · cases h
    split at h; · cases h
    split at h
    · cases h; exact frame _ rfl rfl rfl rfl rfl
    · cases h; exact frame _ rfl rfl rfl rfl rfl
    · cases h; exact frame _ rfl rfl rfl rfl rfl
    · cases h
  | maxauth w p a n =>
    simp only [plan] at h
    split at h; · cases h
    split at h; · cases h
    split at h; · cases h
    split at h; · cases h
    split at h; · cases h
    cases h
    exact attrUpd _ (getAttr_ok s.book.attrs p hi.attrs)
  | cost w p a pc =>
    simp only [plan] at h
    split at h; · cases h
    split at h; · cases h
    rename_i hpc
    split at h; · cases h
    split at h; · cases h
    split at h; · cases h
    cases h
    obtain ⟨a1, a2, a3, a4, a5, a6⟩ := getAttr_ok s.book.attrs p hi.attrs
    exact attrUpd _ ⟨by show pc ≤ 100; omega, a2, a3, by show 0 ≤ 101; omega, a5, a6⟩
  | feepct w p a pc sc =>
    simp only [plan] at h
    split at h; · cases h
    split at h; · cases h
    rename_i hpc
    split at h; · cases h
    rename_i hsc
    split at h; · cases h
    split at h; · cases h
    split at h; · cases h
    cases h
    obtain ⟨a1, a2, a3, a4, a5, a6⟩ := getAttr_ok s.book.attrs p hi.attrs
    exact attrUpd _ ⟨by show pc ≤ 100; omega, a2, a3, by show (if sc = 0 then 101 else sc) ≤ 101; split <;> omega, a5, a6⟩
  | wfee w a =>
    simp only [plan] at h
    split at h; · cases h
    split at h; · cases h
    cases h; exact hi
  | gp w g =>
    simp only [plan] at h
    split at h; · cases h
    split at h; · cases h
    rename_i hbad
    split at h; · cases h
    split at h; · cases h
    split at h; · cases h
    split at h; · cases h
    split at h; · cases h
    split at h; · cases h
    cases h
    refine ⟨?_, hi.dapp, hi.attrs, hi.kpos, hi.kprev⟩
    show g.A + g.B ≤ 100
    simp only [gpSumBad, decide_eq_true_eq] at hbad
    omega
  | gp2 w g =>
    simp only [plan] at h
    split at h; · cases h
    split at h; · cases h
    split at h; · cases h
    rename_i hbad
    split at h; · cases h
    cases h
    refine ⟨hi.ab, ?_, hi.attrs, hi.kpos, hi.kprev⟩
    intro g' hg'
    have : g' = g := by
      have : some g = some g' := hg'
      cases this; rfl
    rw [this]; omega
  | promise w p n =>
    simp only [plan] at h
    split at h; · cases h
    split at h; · cases h
    cases h; exact frame _ rfl rfl rfl rfl rfl
  | gas w a =>
    simp only [plan] at h
    split at h; · cases h
    cases h; exact frame _ rfl rfl rfl rfl rfl
  | tpen w p a =>
    simp only [plan] at h
    split at h; · cases h
    cases h; exact hi
  | wong w a =>
    simp only [plan] at h
    split at h; · cases h
    cases h; exact hi

/-! ### from the invariants to `govInv` -/

/-- the sum `candOK` computes for a peer, from the book's records -/
def vsOf (o : Nat) (uc : Bool) (p : Nat) (l : List Auth) : Nat :=
  validSum o (validList uc ((authsOfPeer l p).map (fun a => (a.addr, u64 (a.cons + a.wcons), u64 (a.cand + a.wcand)))))

theorem vsOf_cons (o : Nat) (uc : Bool) (p : Nat) (x : Auth) (r : List Auth) :
    vsOf o uc p (x :: r) =
      (if x.peer = p then (if x.addr = o then 0 else (if uc then u64 (x.cons + x.wcons) else u64 (x.cand + x.wcand))) else 0)
        + vsOf o uc p r := by
  unfold vsOf authsOfPeer validList
  by_cases hx : x.peer = p
  · simp [List.filter_cons, hx, validSum]
  · simp [List.filter_cons, hx]

theorem validSum_le (o : Nat) (uc : Bool) (p : Nat) (l : List Auth) :
    vsOf o uc p l ≤ asum (if uc then fC o else fD o) p l := by
  induction l with
  | nil => simp [vsOf, authsOfPeer, validList, validSum, asum]
  | cons x r ih =>
    rw [vsOf_cons]
    simp only [asum]
    have h1 : u64 (x.cons + x.wcons) ≤ x.cons + x.wcons := Nat.mod_le _ _
    have h2 : u64 (x.cand + x.wcand) ≤ x.cand + x.wcand := Nat.mod_le _ _
    by_cases hx : x.peer = p
    · by_cases ho : x.addr = o
      · cases uc <;> simp [hx, ho, fC, fD] <;> simpa using ih
      · cases uc
        · simp only [hx, ho, if_true, if_false, fD, Bool.false_eq_true] at ih ⊢; omega
        · simp only [hx, ho, if_true, if_false, fC] at ih ⊢; omega
    · simp only [hx, if_false]; omega

/-- resource bounds of a state: they follow from the ONT/ONG supply and the `candidateNum` parameter, not from the
contract's logic -/
structure Bounded (b : Book) (bank : Bank) : Prop where
  stake : ∀ q ∈ b.prevPool, stakeOf q ≤ 10000000000
  count : (b.prevPool.filter (fun p => p.status.active)).length ≤ 10000
  fee : bank.splitFee ≤ bank.govOng
  ong : bank.govOng < two64

theorem govInv_of_inv (b : Book) (bank : Bank) (hp : PosInv b) (ha : AuxInv b) (hb : Bounded b bank) :
    govInv (splitEnv b bank) = true := by
  have perm := sortPeers_perm (b.prevPool.filter (fun p => p.status.active))
  have hlen : (splitEnv b bank).cands.length = (b.prevPool.filter (fun p => p.status.active)).length := by
    simp only [splitEnv, List.length_map]; exact perm.length_eq
  have hdapp : (splitEnv b bank).dappFee ≤ 100 := by
    simp only [splitEnv, Book.gparam2]
    cases hg : b.gp2 with
    | none => simp
    | some g => exact ha.dapp g hg
  unfold govInv
  simp only [Bool.and_eq_true, decide_eq_true_eq, List.all_eq_true]
  refine ⟨⟨⟨⟨⟨⟨⟨?_, ha.ab⟩, hdapp⟩, hb.fee⟩, hb.ong⟩, by rw [hlen]; exact hb.count⟩, by rw [hlen]; exact ha.kprev⟩, ha.kpos⟩
  intro c hc
  simp only [splitEnv, List.mem_map] at hc
  obtain ⟨q, hq, rfl⟩ := hc
  have hq' := perm.mem_iff.1 hq
  simp only [List.mem_filter] at hq'
  obtain ⟨hqm, hact⟩ := hq'
  obtain ⟨c, hcm, c1, c2, c3, c4, c5⟩ := hp.prev q hqm hact
  have hfind : findPeer b.pool q.id = some c := by rw [← c1]; exact findPeer_of_mem hp.nodup hcm
  obtain ⟨a1, a2, a3, a4, a5, a6⟩ := getAttr_ok b.attrs q.id ha.attrs
  unfold candOK
  simp only [mkCand, hfind, Option.map_some, Bool.and_eq_true, decide_eq_true_eq]
  refine ⟨⟨⟨?_, a3⟩, a6⟩, hb.stake q hqm⟩
  refine Nat.le_trans (validSum_le q.owner _ q.id b.auths) ?_
  rcases active_cases hact with hs | hs
  · -- candidate in the settled view
    by_cases hcs : c.status = .consensus
    · simp only [hcs, hs]; exact (c5 hs).2 hcs
    · have : (c.status == Status.consensus) = false := by
        cases hcc : c.status <;> simp_all
      simp only [this, hs]; exact (c5 hs).1
  · simp only [hs]; simpa using c4 hs

theorem exec_inv (op : Op) (s : St) (hp : PosInv s.book) (ha : AuxInv s.book) :
    PosInv (exec op s).1.book ∧ AuxInv (exec op s).1.book := by
  unfold exec
  split
  · exact ⟨hp, ha⟩
  · exact ⟨hp, ha⟩
  · rename_i b' acts hpl
    split
    · exact ⟨hp, ha⟩
    · exact ⟨hp, ha⟩
    · exact ⟨plan_inv op s b' acts hpl hp, plan_aux op s b' acts hpl ha⟩

theorem run_inv (ops : List Op) (s : St) (hp : PosInv s.book) (ha : AuxInv s.book) :
    PosInv (run ops s).book ∧ AuxInv (run ops s).book := by
  induction ops generalizing s with
  | nil => exact ⟨hp, ha⟩
  | cons op r ih =>
    obtain ⟨h1, h2⟩ := exec_inv op s hp ha
    exact ih _ h1 h2

/-- the genesis state satisfies both invariants (distinct peer ids, at least one peer) -/
theorem init_inv (g : Genesis) (hn : (g.peers.map (·.1)).Nodup) (hne : g.peers ≠ []) (b0 : Book)
    (hb0 : b0 = initBook g) : PosInv b0 ∧ AuxInv b0 := by
  let pool : List Peer := g.peers.map fun (x : Nat × Nat × Nat) =>
      ({ id := x.1, owner := x.2.1, status := .consensus, initPos := x.2.2, totalPos := 0 } : Peer)
  have hids : ids pool = g.peers.map (·.1) := by
    simp [ids, pool, List.map_map, Function.comp_def]
  have hall : ∀ q ∈ pool, q.status = .consensus ∧ q.totalPos = 0 := by
    intro q hq; simp only [pool, List.mem_map] at hq
    obtain ⟨x, _, rfl⟩ := hq; exact ⟨rfl, rfl⟩
  have hb1 : b0.pool = pool := by rw [hb0]; rfl
  have hb2 : b0.prevPool = pool := by rw [hb0]; rfl
  have hb3 : b0.auths = [] := by rw [hb0]; rfl
  have hb4 : b0.gp2 = none := by rw [hb0]; rfl
  have hb5 : b0.attrs = [] := by rw [hb0]; rfl
  have hb6 : b0.K = g.peers.length := by rw [hb0]; rfl
  have hb7 : b0.gp.A + b0.gp.B ≤ 100 := by
    rw [hb0]; show OntVerif.Gen.Gov.INIT_A + OntVerif.Gen.Gov.INIT_B ≤ 100; decide
  constructor
  · refine ⟨by rw [hb1, hids]; exact hn, by rw [hb2, hids]; exact hn, ?_, ?_, ?_, ?_⟩
    · intro x hx; rw [hb3] at hx; simp at hx
    · intro q hq; rw [hb1] at hq; rw [hb3, (hall q hq).2]; rfl
    · intro q hq hs; rw [hb1] at hq; rw [(hall q hq).1] at hs; cases hs
    · intro q hq _
      rw [hb2] at hq
      refine ⟨q, ?_, rfl, rfl, ?_, ?_, ?_⟩
      · rw [hb1]; exact hq
      · intro e; rw [(hall q hq).1] at e; cases e
      · intro _; rw [hb3]; simp [asum]
      · intro hs; rw [(hall q hq).1] at hs; cases hs
  · refine ⟨hb7, ?_, ?_, ?_, ?_⟩
    · intro g' hg'; rw [hb4] at hg'; cases hg'
    · intro x hx; rw [hb5] at hx; simp at hx
    · rw [hb6]
      cases hg : g.peers with
      | nil => exact absurd hg hne
      | cons _ _ => simp
    · rw [hb6, hb2, List.filter_eq_self.2]
      · simp [pool]
      · intro q hq; rw [(hall q hq).1]; rfl

end OntVerif.Proofs.GovInv
