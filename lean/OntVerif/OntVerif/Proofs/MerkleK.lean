import OntVerif.Proofs.MerkleJ
namespace OntVerif.Proofs.Merkle
open OntVerif.Util OntVerif.Model.Merkle

/-! ## `getSubTreeSize` / `getSubTreePos` from the top bit -/

theorem subSizesR_fuel (f : Nat) : ∀ g n id, n ≤ f → n ≤ g → subSizesR f n id = subSizesR g n id := by
  induction f with
  | zero =>
    intro g n id h1 _
    have : n = 0 := by omega
    subst this
    cases g <;> simp [subSizesR]
  | succ f ih =>
    intro g n id h1 h2
    cases g with
    | zero =>
      have : n = 0 := by omega
      subst this
      simp [subSizesR]
    | succ g =>
      simp only [subSizesR]
      by_cases h0 : n = 0
      · simp [h0]
      · simp only [h0, if_false]
        rw [ih g (n / 2) (2 * id) (by omega) (by omega)]

theorem subSizesR_zero (f id : Nat) : subSizesR f 0 id = [] := by
  cases f <;> simp [subSizesR]

theorem subSizesR_high (y : Nat) : ∀ f n id, 2 ^ y ≤ n → n < 2 ^ (y + 1) → n ≤ f →
    subSizesR f n id = subSizesR f (n - 2 ^ y) id ++ [2 * (id * 2 ^ y) - 1] := by
  induction y with
  | zero =>
    intro f n id h1 h2 hf
    have hn : n = 1 := by simp at h1 h2; omega
    subst hn
    obtain ⟨f, rfl⟩ : ∃ f', f = f' + 1 := ⟨f - 1, by omega⟩
    simp [subSizesR, subSizesR_zero]
  | succ y ih =>
    intro f n id h1 h2 hf
    have hp := Nat.two_pow_pos y
    rw [pow_succ2] at h1 ⊢
    rw [pow_succ2, pow_succ2] at h2
    obtain ⟨f, rfl⟩ : ∃ f', f = f' + 1 := ⟨f - 1, by omega⟩
    have hid : 2 * (2 * id * 2 ^ y) = 2 * (id * (2 * 2 ^ y)) := by
      rw [Nat.mul_comm 2 id, Nat.mul_assoc id 2]
    simp only [subSizesR, show n ≠ 0 by omega, if_false]
    by_cases hodd : n % 2 = 1
    · have hodd' : (n - 2 * 2 ^ y) % 2 = 1 := by omega
      rw [if_pos hodd, ih f (n / 2) (2 * id) (by omega) (by rw [pow_succ2]; omega) (by omega), hid]
      by_cases hz : n - 2 * 2 ^ y = 0
      · omega
      · rw [if_neg hz, if_pos hodd', show (n - 2 * 2 ^ y) / 2 = n / 2 - 2 ^ y by omega]
        simp
    · have hodd' : ¬ (n - 2 * 2 ^ y) % 2 = 1 := by omega
      rw [if_neg hodd, ih f (n / 2) (2 * id) (by omega) (by rw [pow_succ2]; omega) (by omega), hid]
      by_cases hz : n - 2 * 2 ^ y = 0
      · rw [if_pos hz, show n / 2 - 2 ^ y = 0 by omega, subSizesR_zero]
      · rw [if_neg hz, if_neg hodd', show (n - 2 * 2 ^ y) / 2 = n / 2 - 2 ^ y by omega]

theorem getSubTreeSize_high (y n : Nat) (h1 : 2 ^ y ≤ n) (h2 : n < 2 ^ (y + 1)) :
    getSubTreeSize n = (2 * 2 ^ y - 1) :: getSubTreeSize (n - 2 ^ y) := by
  unfold getSubTreeSize
  rw [subSizesR_high y n n 1 h1 h2 (Nat.le_refl _), List.reverse_append,
    subSizesR_fuel n (n - 2 ^ y) (n - 2 ^ y) 1 (by omega) (Nat.le_refl _)]
  simp

theorem prefixSums_shift (l : List Nat) : ∀ acc, prefixSums acc l = (prefixSums 0 l).map (· + acc) := by
  induction l with
  | nil => intro acc; rfl
  | cons x r ih =>
    intro acc
    simp only [prefixSums, List.map_cons, Nat.zero_add]
    rw [ih (acc + x), ih x, List.map_map]
    congr 1
    · omega
    · apply List.map_congr_left; intro a _; simp; omega

theorem getSubTreePos_high (y n : Nat) (h1 : 2 ^ y ≤ n) (h2 : n < 2 ^ (y + 1)) :
    getSubTreePos n = (2 * 2 ^ y - 1) :: (getSubTreePos (n - 2 ^ y)).map (· + (2 * 2 ^ y - 1)) := by
  unfold getSubTreePos
  rw [getSubTreeSize_high y n h1 h2]
  simp only [prefixSums, Nat.zero_add]
  rw [prefixSums_shift]

theorem getSubTreePos_zero : getSubTreePos 0 = [] := by
  simp [getSubTreePos, getSubTreeSize, subSizesR, prefixSums]

section
variable {Hash : Type} (H1 : Hash → Hash → Hash) (He : Hash)

theorem hashFold_cons (h : Hash) (t : List Hash) :
    hashFold H1 (h :: t) = match hashFold H1 t with
      | none => some h
      | some r => some (H1 h r) := by
  unfold hashFold
  rw [List.reverse_cons]
  cases hr : t.reverse with
  | nil => simp [foldR]
  | cons a t' => simp [foldR, List.foldl_append]

theorem readFold_some (store : List Hash) (cnt add : Nat) (r : Hash) :
    readFold H1 store cnt add = some r ↔
      ∃ sub, (getSubTreePos cnt).mapM (fun p => getHash store (p + add - 1)) = some sub ∧ hashFold H1 sub = some r := by
  unfold readFold
  cases (getSubTreePos cnt).mapM (fun p => getHash store (p + add - 1)) with
  | none => simp
  | some sub => simp

/-- largest power of two not above `n` -/
theorem high_bit (n : Nat) (h : 1 ≤ n) : ∃ y, 2 ^ y ≤ n ∧ n < 2 ^ (y + 1) :=
  ⟨n.log2, Nat.log2_self_le (by omega), Nat.lt_log2_self⟩

/-- **reading the roots of the stored subtrees at the positions of `getSubTreePos` and folding them gives the tree
hash**, wherever the tree's hashes start in the store -/
theorem readFold_spec (cnt : Nat) : ∀ (D pre suf : List Hash) (add : Nat), D.length = cnt → 1 ≤ cnt → pre.length = add →
    readFold H1 (pre ++ lay H1 He D ++ suf) cnt add = some (mth H1 He D) := by
  induction cnt using Nat.strongRecOn with
  | _ cnt ih =>
    intro D pre suf add hD h1 hpre
    obtain ⟨y, hy1, hy2⟩ := high_bit cnt h1
    have hp := Nat.two_pow_pos y
    rw [readFold_some, getSubTreePos_high y cnt hy1 hy2]
    have hlay : lay H1 He D = post H1 He y (D.take (2 ^ y)) ++ lay H1 He (D.drop (2 ^ y)) := by
      unfold lay
      have := layoutR_high H1 He y 0 D.length D (by simp) (by omega) (by omega)
      simp only [Nat.add_zero] at this
      rw [this, List.length_drop, hD]
    have htl : (D.take (2 ^ y)).length = 2 ^ y := by rw [List.length_take]; omega
    obtain ⟨front, hfront, hfl⟩ := post_last H1 He y (D.take (2 ^ y)) htl
    have hfirst : getHash (pre ++ lay H1 He D ++ suf) (2 * 2 ^ y - 1 + add - 1) = some (mth H1 He (D.take (2 ^ y))) := by
      unfold getHash
      rw [hlay, hfront]
      have e : pre ++ (front ++ [mth H1 He (D.take (2 ^ y))] ++ lay H1 He (D.drop (2 ^ y))) ++ suf =
          (pre ++ front) ++ (mth H1 He (D.take (2 ^ y)) :: (lay H1 He (D.drop (2 ^ y)) ++ suf)) := by simp
      rw [e, List.getElem?_append_right (by rw [List.length_append]; omega)]
      rw [show 2 * 2 ^ y - 1 + add - 1 - (pre ++ front).length = 0 by rw [List.length_append]; omega]
      rfl
    simp only [List.mapM_cons, hfirst, List.mapM_map]
    by_cases hz : cnt - 2 ^ y = 0
    · rw [hz, getSubTreePos_zero]
      refine ⟨[mth H1 He (D.take (2 ^ y))], rfl, ?_⟩
      rw [List.take_of_length_le (by omega)]
      simp [hashFold, foldR]
    · have hsub := ih (cnt - 2 ^ y) (by omega) (D.drop (2 ^ y)) (pre ++ post H1 He y (D.take (2 ^ y))) suf
        (add + (2 * 2 ^ y - 1)) (by rw [List.length_drop]; omega) (by omega)
        (by rw [List.length_append, post_length H1 He y _ htl]; omega)
      rw [readFold_some] at hsub
      obtain ⟨sub, hs1, hs2⟩ := hsub
      have estore : pre ++ post H1 He y (D.take (2 ^ y)) ++ lay H1 He (D.drop (2 ^ y)) ++ suf = pre ++ lay H1 He D ++ suf := by
        rw [hlay]; simp
      rw [estore] at hs1
      have efun : (fun p => getHash (pre ++ lay H1 He D ++ suf) (p + (2 * 2 ^ y - 1) + add - 1)) =
          (fun p => getHash (pre ++ lay H1 He D ++ suf) (p + (add + (2 * 2 ^ y - 1)) - 1)) := by
        funext p; congr 1; omega
      refine ⟨mth H1 He (D.take (2 ^ y)) :: sub, ?_, ?_⟩
      · have hcomp : ((fun p => getHash (pre ++ lay H1 He D ++ suf) (p + add - 1)) ∘ fun x => x + (2 * 2 ^ y - 1)) =
            (fun p => getHash (pre ++ lay H1 He D ++ suf) (p + (add + (2 * 2 ^ y - 1)) - 1)) := by
          funext p; simp only [Function.comp]; congr 1; omega
        rw [hcomp, hs1]; rfl
      · rw [hashFold_cons, hs2]
        have hk : splitK D.length = 2 ^ y := splitK_unique (by omega) (by rw [pow_succ2] at hy2 ⊢; omega)
        rw [mth_split H1 He D (by omega), hk]

end
end OntVerif.Proofs.Merkle
