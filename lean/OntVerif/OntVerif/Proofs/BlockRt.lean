import OntVerif.Proofs.Block
import OntVerif.Proofs.TxRt
/-! Helper lemmas for the converse direction of C20: forward lemmas for the header, transaction-list and block decoders. Core-only. -/
namespace OntVerif.Proofs.Block
open OntVerif.Util OntVerif.Model.Codec OntVerif.Model.Tx OntVerif.Model.Block OntVerif.Proofs.Codec OntVerif.Proofs.Tx

theorem fwd_parseHeaderUnsigned (u : HeaderU) (hw : WfHU u) : Fwd parseHeaderUnsigned u (serHeaderU u) := by
  obtain ⟨h1, h2, h3, h4, h5, h6, h7, h8, h9⟩ := hw
  obtain ⟨ver, prev, txr, blr, ts, ht, cd, cp, nb⟩ := u
  simp only at h1 h2 h3 h4 h5 h6 h7 h8 h9
  unfold parseHeaderUnsigned
  refine fwd_congr (x := leN 4 ver ++ (prev ++ (txr ++ (blr ++ (leN 4 ts ++ (leN 4 ht ++ (leN 8 cd ++
    (writeVarBytes cp ++ (nb ++ []))))))))) (by simp [serHeaderU, writeUintN]) ?_
  refine fwd_bind (fwd_rUintN 4 ver h1) ?_
  refine fwd_bind (h2 ▸ fwd_rBytesN prev) ?_
  refine fwd_bind (h3 ▸ fwd_rBytesN txr) ?_
  refine fwd_bind (h4 ▸ fwd_rBytesN blr) ?_
  refine fwd_bind (fwd_rUintN 4 ts h5) ?_
  refine fwd_bind (fwd_rUintN 4 ht h6) ?_
  refine fwd_bind (fwd_rUintN 8 cd h7) ?_
  refine fwd_bind (fwd_rVarBytes true cp h9) ?_
  refine fwd_bind (h8 ▸ fwd_rBytesN nb) ?_
  exact fwd_pure _

theorem fwd_parseKey (V : Variant) (K : Keys) (k : Bytes) (hk : K.canon k = some k) (hl : k.length < two64) :
    Fwd (parseKey V K) (k, k) (writeVarBytes k) := by
  unfold parseKey
  refine fwd_congr (x := writeVarBytes k ++ []) (by simp) ?_
  refine fwd_bind (fwd_rVarBytes true k hl) ?_
  simp only [hk]
  cases V
  · exact fwd_pure _
  · simp only [if_true]
    exact fwd_pure _

theorem serList_length_ge (l : List Bytes) (a : Bytes) (h : a ∈ l) : a.length ≤ (serList l).length := by
  unfold serList
  have h1 := flatten_length_ge writeVarBytes l a h
  have h2 := writeVarBytes_length_ge a
  rw [List.length_append]; omega

theorem writeVarBytes_length_pos (a : Bytes) : 1 ≤ (writeVarBytes a).length := by
  unfold writeVarBytes
  rw [List.length_append, writeVarUint_length]
  unfold getVarUintSize
  repeat' split
  all_goals omega

theorem flatten_count_ge : ∀ l : List Bytes, l.length ≤ (l.map writeVarBytes).flatten.length
  | [] => by simp
  | a :: r => by
    simp only [List.map_cons, List.flatten_cons, List.length_append, List.length_cons]
    have := writeVarBytes_length_pos a
    have := flatten_count_ge r
    omega

/-- a header whose wire-level (ghost) fields are those of its own canonical encoding -/
def HeaderCanon (K : Keys) (h : Header) : Prop :=
  WfHU h.u ∧ (∀ k ∈ h.bookkeepers, K.canon k = some k) ∧
  h.bkRaw = h.bookkeepers ∧ h.bkCount = h.bookkeepers.length ∧ h.sigCount = h.sigData.length

theorem fwd_parseHeader (V : Variant) (K : Keys) (h : Header) (hc : HeaderCanon K h) (hlen : (serHeader h).length < two64) :
    Fwd (parseHeader V K) h (serHeader h) := by
  obtain ⟨hu, hk, hraw, hbc, hsc⟩ := hc
  have hb : (serList h.bookkeepers).length < two64 := by unfold serHeader at hlen; simp only [List.length_append] at hlen; omega
  have hs : (serList h.sigData).length < two64 := by unfold serHeader at hlen; simp only [List.length_append] at hlen; omega
  have hbn : h.bookkeepers.length < two64 := by
    unfold serList at hb
    have := flatten_count_ge h.bookkeepers
    rw [List.length_append] at hb; omega
  have hsn : h.sigData.length < two64 := by
    unfold serList at hs
    have := flatten_count_ge h.sigData
    rw [List.length_append] at hs; omega
  unfold parseHeader
  refine fwd_congr (x := serHeaderU h.u ++ (writeVarUint h.bookkeepers.length ++
    (((h.bookkeepers.map (fun k => (k, k))).map (fun kc => writeVarBytes kc.1)).flatten ++
    (writeVarUint h.sigData.length ++ ((h.sigData.map writeVarBytes).flatten ++ [])))))
    (by simp [serHeader, serList, List.map_map, Function.comp_def]) ?_
  refine fwd_bind (fwd_parseHeaderUnsigned h.u hu) ?_
  refine fwd_bind (fwd_rVarUint true _ hbn) ?_
  have hkeys := fwd_repeatP (parseKey V K) (fun kc => writeVarBytes kc.1) (h.bookkeepers.map (fun k => (k, k)))
    (by
      intro kc hkc
      obtain ⟨k, hkm, rfl⟩ := List.mem_map.mp hkc
      exact fwd_parseKey V K k (hk k hkm) (by have := serList_length_ge _ _ hkm; omega))
  rw [List.length_map] at hkeys
  refine fwd_bind hkeys ?_
  refine fwd_bind (fwd_rVarUint true _ hsn) ?_
  have hsigs := fwd_repeatP (rVarBytes true) writeVarBytes h.sigData
    (fun d hd => fwd_rVarBytes true d (by have := serList_length_ge _ _ hd; omega))
  refine fwd_bind hsigs ?_
  have : (⟨h.u, (h.bookkeepers.map (fun k => (k, k))).map (·.2), h.sigData, h.bookkeepers.length,
      (h.bookkeepers.map (fun k => (k, k))).map (·.1), h.sigData.length⟩ : Header) = h := by
    cases h
    simp only at hraw hbc hsc ⊢
    simp [List.map_map, Function.comp_def, hraw, hbc, hsc]
  rw [this]
  exact fwd_pure _

theorem fwd_parseTxs (R : Rlp) (hs : Hashes) :
    ∀ (txs : List Tx) (seen : List Bytes), (∀ t ∈ txs, Fwd (deserialize R) t t.raw) →
      (seen ++ txs.map hs.txHash).Nodup →
      Fwd (parseTxs R hs txs.length seen) txs (txs.map (·.raw)).flatten
  | [], _, _, _ => by
    unfold parseTxs
    exact fwd_pure _
  | t :: r, seen, hf, hnd => by
    simp only [List.length_cons]
    unfold parseTxs
    refine fwd_congr (x := t.raw ++ ((r.map (·.raw)).flatten ++ [])) (by simp) ?_
    refine fwd_bind (hf t (by simp)) ?_
    have hnot : seen.contains (hs.txHash t) = false := by
      rw [List.nodup_append] at hnd
      have := hnd.2.2 (hs.txHash t)
      cases hc : seen.contains (hs.txHash t) with
      | false => rfl
      | true =>
        exfalso
        have hm : hs.txHash t ∈ seen := by simpa using hc
        exact this hm (hs.txHash t) (by simp) rfl
    simp only [hnot, Bool.false_eq_true, if_false]
    have hnd' : ((seen ++ [hs.txHash t]) ++ r.map hs.txHash).Nodup := by
      simpa [List.append_assoc] using hnd
    refine fwd_bind (fwd_parseTxs R hs r (seen ++ [hs.txHash t]) (fun x hx => hf x (by simp [hx])) hnd') ?_
    exact fwd_pure _

/-- a block that is its own canonical encoding's decoding -/
def BlockCanon (K : Keys) (R : Rlp) (hs : Hashes) (b : Block) : Prop :=
  HeaderCanon K b.header ∧ (∀ t ∈ b.txs, Fwd (deserialize R) t t.raw) ∧ b.txs.length < 256 ^ 4 ∧
  (b.txs.map hs.txHash).Nodup ∧ b.header.u.txRoot = computeMerkleRoot hs.node (b.txs.map hs.txHash)

theorem fwd_parseBlock (V : Variant) (K : Keys) (R : Rlp) (hs : Hashes) (b : Block) (hc : BlockCanon K R hs b)
    (hlen : (serBlock b).length < two64) : Fwd (parseBlock V K R hs) b (serBlock b) := by
  obtain ⟨hh, htx, hn, hnd, hroot⟩ := hc
  have hhl : (serHeader b.header).length < two64 := by unfold serBlock at hlen; simp only [List.length_append] at hlen; omega
  unfold parseBlock
  refine fwd_congr (x := serHeader b.header ++ (leN 4 b.txs.length ++ ((b.txs.map (·.raw)).flatten ++ [])))
    (by simp [serBlock, writeUintN, Nat.mod_eq_of_lt hn]) ?_
  refine fwd_bind (fwd_parseHeader V K b.header hh hhl) ?_
  refine fwd_bind (fwd_rUintN 4 b.txs.length hn) ?_
  refine fwd_bind (fwd_parseTxs R hs b.txs [] htx (by simpa using hnd)) ?_
  have : (b.header.u.txRoot != computeMerkleRoot hs.node (b.txs.map hs.txHash)) = false := by
    rw [← hroot]; simp
  simp only [this, Bool.false_eq_true, if_false]
  exact fwd_pure _

theorem fwd_of_wfFields (R : Rlp) (u : TxU) (sigs : List (Bytes × Bytes)) (hw : wfFields u sigs = true) :
    Fwd (deserialize R) (mkTx u sigs) (mkTx u sigs).raw := by
  intro bs off hl hle hseg
  exact deserialize_fwd R u sigs hw bs off hl hle hseg


end OntVerif.Proofs.Block
