import OntVerif.Proofs.MerkleD
namespace OntVerif.Proofs.Merkle
open OntVerif.Util OntVerif.Model.Merkle

section
variable {Hash : Type} (H0 : Bytes → Hash) (H1 : Hash → Hash → Hash) (He : Hash)

/-- a collision of the node hash, or a leaf hash that is also a node hash (domain-separation clash) -/
def Collision : Prop := Collision1 H1 ∨ ∃ (x : Bytes) (a b : Hash), H0 x = H1 a b

/-- `x` is the hash of a node (leaf or inner) of the RFC 6962 tree over `L` -/
inductive IsNode : List Hash → Hash → Prop
  | root (L : List Hash) : L ≠ [] → IsNode L (mth H1 He L)
  | left (L : List Hash) (x : Hash) : 2 ≤ L.length → IsNode (L.take (splitK L.length)) x → IsNode L x
  | right (L : List Hash) (x : Hash) : 2 ≤ L.length → IsNode (L.drop (splitK L.length)) x → IsNode L x

theorem isNode_cases (L : List Hash) (x : Hash) (h : IsNode H1 He L x) :
    x ∈ L ∨ ∃ S : List Hash, 2 ≤ S.length ∧
      x = H1 (mth H1 He (S.take (splitK S.length))) (mth H1 He (S.drop (splitK S.length))) ∧
      IsNode H1 He L (mth H1 He (S.take (splitK S.length))) ∧ IsNode H1 He L (mth H1 He (S.drop (splitK S.length))) := by
  induction h with
  | root L hne =>
    by_cases h2 : 2 ≤ L.length
    · right
      have hk := splitK_lt h2
      have hp := splitK_pos L.length
      refine ⟨L, h2, mth_split H1 He L h2, ?_, ?_⟩
      · exact IsNode.left L _ h2 (IsNode.root _ (by intro h; have := congrArg List.length h; rw [List.length_take, List.length_nil] at this; omega))
      · exact IsNode.right L _ h2 (IsNode.root _ (by intro h; have := congrArg List.length h; rw [List.length_drop, List.length_nil] at this; omega))
    · left
      match L, hne, h2 with
      | [y], _, _ => simp
      | _ :: _ :: _, _, h2 => simp at h2
  | left L x h2 _ ih =>
    rcases ih with h | ⟨S, hs, hx, hl, hr⟩
    · left; exact List.mem_of_mem_take h
    · right; exact ⟨S, hs, hx, IsNode.left L _ h2 hl, IsNode.left L _ h2 hr⟩
  | right L x h2 _ ih =>
    rcases ih with h | ⟨S, hs, hx, hl, hr⟩
    · left; exact List.mem_of_mem_drop h
    · right; exact ⟨S, hs, hx, IsNode.right L _ h2 hl, IsNode.right L _ h2 hr⟩

/-- walking a path downwards: if the folded hash is a node of the tree, so is the start — or a collision/clash -/
theorem proveFold_node (L : List Hash) (hL : ∀ l ∈ L, ∃ x, H0 x = l) (steps : List (UInt8 × Hash)) :
    ∀ h : Hash, IsNode H1 He L (proveFold H1 h steps) → IsNode H1 He L h ∨ Collision H0 H1 := by
  induction steps with
  | nil => intro h hn; left; simpa [proveFold] using hn
  | cons s r ih =>
    intro h hn
    obtain ⟨f, v⟩ := s
    simp only [proveFold] at hn
    by_cases hf : f = 0
    · simp only [hf, if_true] at hn
      rcases ih _ hn with hnode | hc
      · rcases isNode_cases H1 He L _ hnode with hmem | ⟨S, _, hx, _, hr⟩
        · obtain ⟨x, hx⟩ := hL _ hmem
          right; right; exact ⟨x, v, h, hx⟩
        · by_cases heq : (v, h) = (mth H1 He (S.take (splitK S.length)), mth H1 He (S.drop (splitK S.length)))
          · simp only [Prod.mk.injEq] at heq
            left; rw [heq.2]; exact hr
          · right; left; exact ⟨_, _, _, _, heq, hx⟩
      · right; exact hc
    · simp only [hf, if_false] at hn
      rcases ih _ hn with hnode | hc
      · rcases isNode_cases H1 He L _ hnode with hmem | ⟨S, _, hx, hl, _⟩
        · obtain ⟨x, hx⟩ := hL _ hmem
          right; right; exact ⟨x, h, v, hx⟩
        · by_cases heq : (h, v) = (mth H1 He (S.take (splitK S.length)), mth H1 He (S.drop (splitK S.length)))
          · simp only [Prod.mk.injEq] at heq
            left; rw [heq.1]; exact hl
          · right; left; exact ⟨_, _, _, _, heq, hx⟩
      · right; exact hc

/-- soundness of path checking against the tree hash of a non-empty list of leaf hashes -/
theorem proveFold_sound (L : List Hash) (hne : L ≠ []) (hL : ∀ l ∈ L, ∃ x, H0 x = l) (v : Bytes)
    (steps : List (UInt8 × Hash)) (h : proveFold H1 (H0 v) steps = mth H1 He L) :
    H0 v ∈ L ∨ Collision H0 H1 := by
  rcases proveFold_node H0 H1 He L hL steps (H0 v) (by rw [h]; exact IsNode.root L hne) with hn | hc
  · rcases isNode_cases H1 He L _ hn with hmem | ⟨S, _, hx, _, _⟩
    · left; exact hmem
    · right; right; exact ⟨v, _, _, hx⟩
  · right; exact hc

/-! ## the pairing tree of `MerkleHashes` computes the RFC 6962 tree hash -/

theorem pairLevel_cons2 (a b : Hash) (r : List Hash) : pairLevel H1 (a :: b :: r) = H1 a b :: pairLevel H1 r := by
  simp [pairLevel]

theorem pairLevel_length : ∀ (n : Nat) (l : List Hash), l.length = n → (pairLevel H1 l).length = (n + 1) / 2 := by
  intro n
  induction n using Nat.strongRecOn with
  | _ n ih =>
    intro l hl
    match l, hl with
    | [], hl => simp at hl; subst hl; simp [pairLevel]
    | [x], hl => simp at hl; subst hl; simp [pairLevel]
    | a :: b :: r, hl =>
      rw [pairLevel_cons2]
      simp only [List.length_cons] at hl ⊢
      rw [ih r.length (by omega) r rfl]; omega

theorem pairLevel_take (j : Nat) : ∀ l : List Hash, 2 * j ≤ l.length →
    pairLevel H1 (l.take (2 * j)) = (pairLevel H1 l).take j := by
  induction j with
  | zero => intro l _; simp [pairLevel]
  | succ j ih =>
    intro l hl
    match l, hl with
    | a :: b :: r, hl =>
      have e : 2 * (j + 1) = 2 * j + 1 + 1 := by omega
      rw [e]
      simp only [List.take_succ_cons, pairLevel_cons2]
      rw [ih r (by simp at hl; omega)]
    | [x], hl => simp at hl; omega
    | [], hl => simp at hl

theorem pairLevel_drop (j : Nat) : ∀ l : List Hash, 2 * j ≤ l.length →
    pairLevel H1 (l.drop (2 * j)) = (pairLevel H1 l).drop j := by
  induction j with
  | zero => intro l _; simp
  | succ j ih =>
    intro l hl
    match l, hl with
    | a :: b :: r, hl =>
      have e : 2 * (j + 1) = 2 * j + 1 + 1 := by omega
      rw [e]
      simp only [List.drop_succ_cons, pairLevel_cons2]
      rw [ih r (by simp at hl; omega)]
    | [x], hl => simp at hl; omega
    | [], hl => simp at hl

theorem splitK_half {n : Nat} (h : 3 ≤ n) : splitK n = 2 * splitK ((n + 1) / 2) ∧ 2 ≤ (n + 1) / 2 := by
  obtain ⟨x, hk, h1, h2⟩ := splitK_spec (n := n) (by omega)
  cases x with
  | zero => simp at h2; omega
  | succ x =>
    have hp := Nat.two_pow_pos x
    have e1 : 2 ^ (x + 1) = 2 * 2 ^ x := by rw [Nat.pow_succ]; omega
    have e2 : 2 ^ (x + 1 + 1) = 2 * (2 * 2 ^ x) := by rw [Nat.pow_succ, e1]; omega
    rw [e1] at h1 hk; rw [e2] at h2
    have : splitK ((n + 1) / 2) = 2 ^ x := splitK_unique (by omega) (by rw [e1]; omega)
    rw [hk, this]
    exact ⟨rfl, by omega⟩

theorem mth_pairLevel (n : Nat) : ∀ l : List Hash, l.length = n → mth H1 He (pairLevel H1 l) = mth H1 He l := by
  induction n using Nat.strongRecOn with
  | _ n ih =>
    intro l hl
    match l, hl with
    | [], _ => simp [pairLevel]
    | [x], _ => simp [pairLevel]
    | [a, b], _ =>
      rw [pairLevel_cons2, mth_split H1 He [a, b] (by simp)]
      have : splitK ([a, b] : List Hash).length = 1 := by
        have := splitK_unique (a := 0) (n := 2) (by simp) (by simp)
        simpa using this
      rw [this]; simp [pairLevel]
    | a :: b :: c :: r, hl =>
      have h3 : 3 ≤ n := by simp at hl; omega
      generalize hlist : a :: b :: c :: r = l at hl
      obtain ⟨hk, hP2⟩ := splitK_half h3
      have hkl := splitK_lt (n := n) (by omega)
      have hkp := splitK_pos ((n + 1) / 2)
      have hPl := pairLevel_length H1 n l hl
      rw [mth_split H1 He l (by omega), hl, hk,
        ← ih (l.take (2 * splitK ((n + 1) / 2))).length (by rw [List.length_take]; omega) _ rfl,
        ← ih (l.drop (2 * splitK ((n + 1) / 2))).length (by rw [List.length_drop]; omega) _ rfl,
        pairLevel_take H1 _ l (by omega), pairLevel_drop H1 _ l (by omega),
        mth_split H1 He (pairLevel H1 l) (by omega), hPl]

theorem mth_pairRoot (d : Nat) : ∀ l : List Hash, mth H1 He (pairRoot H1 d l) = mth H1 He l := by
  induction d with
  | zero => intro l; rfl
  | succ d ih => intro l; simp only [pairRoot]; rw [ih, mth_pairLevel H1 He _ l rfl]

theorem pairRoot_length (d : Nat) : ∀ l : List Hash, 1 ≤ l.length → l.length ≤ 2 ^ d → (pairRoot H1 d l).length = 1 := by
  induction d with
  | zero => intro l h1 h2; simp at h2; simp [pairRoot]; omega
  | succ d ih =>
    intro l h1 h2
    simp only [pairRoot]
    have hl := pairLevel_length H1 l.length l rfl
    rw [Nat.pow_succ] at h2
    exact ih _ (by omega) (by omega)

theorem le_two_pow_depth (n : Nat) (_h : 1 ≤ n) : n ≤ 2 ^ depth n := by
  unfold depth
  by_cases h1 : n ≤ 1
  · simp [h1]
  · simp only [h1, if_false]
    have := Nat.lt_log2_self (n := n - 1)
    omega

/-- **the level-by-level pairing tree (`MerkleHashes`) has the RFC 6962 tree hash at its top** -/
theorem pairTree_eq_mth (l : List Hash) (h : l ≠ []) : pairRoot H1 (depth l.length) l = [mth H1 He l] := by
  have h1 : 1 ≤ l.length := by
    cases l with
    | nil => exact absurd rfl h
    | cons a t => simp
  have hlen := pairRoot_length H1 (depth l.length) l h1 (le_two_pow_depth _ h1)
  have hm := mth_pairRoot H1 He (depth l.length) l
  match hp : pairRoot H1 (depth l.length) l, hlen with
  | [x], _ => rw [hp] at hm; simp at hm; rw [hm]

end
end OntVerif.Proofs.Merkle
