import OntVerif.Proofs.MerkleG
namespace OntVerif.Proofs.Merkle
open OntVerif.Util OntVerif.Model.Merkle

section
variable {Hash : Type} (H1 : Hash → Hash → Hash)

/-- one more level above a sub-evaluation: right sibling, present in the new tree only -/
def topNew : Except VErr (Hash × Hash × List Hash) → Except VErr (Hash × Hash × List Hash)
  | .error e => .error e
  | .ok (_, _, []) => .error .short
  | .ok (o, n, p :: r) => .ok (o, H1 n p, r)

/-- one more level above a sub-evaluation: left sibling, present in both trees -/
def topBoth : Except VErr (Hash × Hash × List Hash) → Except VErr (Hash × Hash × List Hash)
  | .error e => .error e
  | .ok (_, _, []) => .error .short
  | .ok (o, n, p :: r) => .ok (H1 p o, H1 p n, r)

theorem pow_succ2 (y : Nat) : 2 ^ (y + 1) = 2 * 2 ^ y := by rw [Nat.pow_succ]; omega

/-- the old tree lies in the full left subtree of `2^y` nodes at this level; the new tree is wider by one level -/
theorem runW_left (y : Nat) : ∀ (node last : Nat) (o n : Hash) (path : List Hash),
    node < 2 ^ y → 2 ^ y ≤ last → last < 2 ^ (y + 1) →
    runW H1 node last o n path = topNew H1 (runW H1 node (2 ^ y - 1) o n path) := by
  induction y with
  | zero =>
    intro node last o n path h1 h2 h3
    have hn : node = 0 := by simp at h1; omega
    have hl : last = 1 := by simp at h2 h3; omega
    subst hn hl
    simp only [Nat.pow_zero, Nat.sub_self, runW_zero_zero]
    cases path with
    | nil => rw [runW_zero_nil H1 1 o n (by omega)]; rfl
    | cons p r => rw [runW_zero_cons H1 1 o n p r (by omega)]; simp [runW_zero_zero, topNew]
  | succ y ih =>
    intro node last o n path h1 h2 h3
    have hp := Nat.two_pow_pos y
    rw [pow_succ2] at h1 h2 ⊢
    rw [pow_succ2, pow_succ2] at h3
    have e3 : (2 * 2 ^ y - 1) / 2 = 2 ^ y - 1 := by omega
    by_cases hn : node = 0
    · subst hn
      cases path with
      | nil => rw [runW_zero_nil H1 last o n (by omega), runW_zero_nil H1 _ o n (by omega)]; rfl
      | cons p r =>
        rw [runW_zero_cons H1 last o n p r (by omega), runW_zero_cons H1 _ o n p r (by omega), e3]
        exact ih 0 (last / 2) o _ r (by omega) (by omega) (by rw [pow_succ2]; omega)
    · by_cases ho : node % 2 = 1
      · cases path with
        | nil => rw [runW_nil H1 node last o n hn (Or.inl ho), runW_nil H1 node _ o n hn (Or.inl ho)]; rfl
        | cons p r =>
          rw [runW_odd H1 node last o n p r ho, runW_odd H1 node _ o n p r ho, e3]
          exact ih (node / 2) (last / 2) _ _ r (by omega) (by omega) (by rw [pow_succ2]; omega)
      · have he : node % 2 = 0 := by omega
        have hlt : node < last := by omega
        have hlt' : node < 2 * 2 ^ y - 1 := by omega
        cases path with
        | nil => rw [runW_nil H1 node last o n hn (Or.inr hlt), runW_nil H1 node _ o n hn (Or.inr hlt')]; rfl
        | cons p r =>
          rw [runW_even_lt H1 node last o n p r hn he hlt, runW_even_lt H1 node _ o n p r hn he hlt', e3]
          exact ih (node / 2) (last / 2) _ _ r (by omega) (by omega) (by rw [pow_succ2]; omega)

/-- both trees contain the full left subtree of `2^y` nodes at this level: indexes shifted by `2^y` -/
theorem runW_right (y : Nat) : ∀ (node last : Nat) (o n : Hash) (path : List Hash),
    node ≤ last → last < 2 ^ y →
    runW H1 (2 ^ y + node) (2 ^ y + last) o n path = topBoth H1 (runW H1 node last o n path) := by
  induction y with
  | zero =>
    intro node last o n path h1 h2
    have hl : last = 0 := by simp at h2; omega
    have hn : node = 0 := by omega
    subst hn hl
    simp only [Nat.pow_zero, Nat.add_zero, runW_zero_zero]
    cases path with
    | nil => rw [runW_nil H1 1 1 o n (by omega) (Or.inl (by omega))]; rfl
    | cons p r => rw [runW_odd H1 1 1 o n p r (by omega)]; simp [runW_zero_zero, topBoth]
  | succ y ih =>
    intro node last o n path h1 h2
    have hp := Nat.two_pow_pos y
    rw [pow_succ2] at h2 ⊢
    have e3 : (2 * 2 ^ y + node) / 2 = 2 ^ y + node / 2 := by omega
    have e4 : (2 * 2 ^ y + last) / 2 = 2 ^ y + last / 2 := by omega
    have hbn : 2 * 2 ^ y + node ≠ 0 := by omega
    by_cases hn : node = 0
    · subst hn
      have hbe : (2 * 2 ^ y + 0) % 2 = 0 := by omega
      by_cases hl : last = 0
      · subst hl
        rw [runW_skip H1 _ _ o n path hbn hbe (by omega), e3, Nat.zero_div]
        exact ih 0 0 o n path (by omega) (by omega)
      · have hblt : 2 * 2 ^ y + 0 < 2 * 2 ^ y + last := by omega
        cases path with
        | nil => rw [runW_nil H1 _ _ o n hbn (Or.inr hblt), runW_zero_nil H1 last o n hl]; rfl
        | cons p r =>
          rw [runW_even_lt H1 _ _ o n p r hbn hbe hblt, runW_zero_cons H1 last o n p r hl, e3, e4]
          exact ih 0 (last / 2) o _ r (by omega) (by omega)
    · by_cases ho : node % 2 = 1
      · have hbo : (2 * 2 ^ y + node) % 2 = 1 := by omega
        cases path with
        | nil => rw [runW_nil H1 _ _ o n hbn (Or.inl hbo), runW_nil H1 node last o n hn (Or.inl ho)]; rfl
        | cons p r =>
          rw [runW_odd H1 _ _ o n p r hbo, runW_odd H1 node last o n p r ho, e3, e4]
          exact ih (node / 2) (last / 2) _ _ r (by omega) (by omega)
      · have he : node % 2 = 0 := by omega
        have hbe : (2 * 2 ^ y + node) % 2 = 0 := by omega
        by_cases hlt : node < last
        · have hblt : 2 * 2 ^ y + node < 2 * 2 ^ y + last := by omega
          cases path with
          | nil => rw [runW_nil H1 _ _ o n hbn (Or.inr hblt), runW_nil H1 node last o n hn (Or.inr hlt)]; rfl
          | cons p r =>
            rw [runW_even_lt H1 _ _ o n p r hbn hbe hblt, runW_even_lt H1 node last o n p r hn he hlt, e3, e4]
            exact ih (node / 2) (last / 2) _ _ r (by omega) (by omega)
        · rw [runW_skip H1 _ _ o n path hbn hbe (by omega), runW_skip H1 node last o n path hn he hlt, e3, e4]
          exact ih (node / 2) (last / 2) _ _ path (by omega) (by omega)

end

/-! ## the strip loop -/

theorem stripW_odd (a l : Nat) (h : a % 2 = 1) : stripW a l = stripW (a / 2) (l / 2) := by
  rw [stripW.eq_def]; simp [h]
theorem stripW_even (a l : Nat) (h : a % 2 = 0) : stripW a l = (a, l) := by
  rw [stripW.eq_def]; simp [show ¬ a % 2 = 1 by omega]

theorem stripW_le (a : Nat) : ∀ l, (stripW a l).1 ≤ a ∧ (stripW a l).2 ≤ l := by
  induction a using Nat.strongRecOn with
  | _ a ih =>
    intro l
    by_cases h : a % 2 = 1
    · rw [stripW_odd a l h]
      have := ih (a / 2) (by omega) (l / 2)
      omega
    · rw [stripW_even a l (by omega)]; simp

theorem stripW_left (x : Nat) : ∀ a l, a < 2 ^ x → 2 ^ x ≤ l → l < 2 ^ (x + 1) →
    ∃ y a' l', stripW a l = (a', l') ∧ stripW a (2 ^ x - 1) = (a', 2 ^ y - 1) ∧
      a' < 2 ^ y ∧ 2 ^ y ≤ l' ∧ l' < 2 ^ (y + 1) := by
  induction x with
  | zero =>
    intro a l h1 h2 h3
    have ha : a = 0 := by simp at h1; omega
    subst ha
    exact ⟨0, 0, l, stripW_even 0 l rfl, by rw [stripW_even 0 _ rfl], by simp, h2, h3⟩
  | succ x ih =>
    intro a l h1 h2 h3
    have hp := Nat.two_pow_pos x
    by_cases ho : a % 2 = 1
    · rw [pow_succ2] at h1 h2
      rw [pow_succ2, pow_succ2] at h3
      obtain ⟨y, a', l', e1, e2, b1, b2, b3⟩ := ih (a / 2) (l / 2) (by omega) (by omega) (by rw [pow_succ2]; omega)
      refine ⟨y, a', l', by rw [stripW_odd a l ho]; exact e1, ?_, b1, b2, b3⟩
      rw [stripW_odd a _ ho, pow_succ2, show (2 * 2 ^ x - 1) / 2 = 2 ^ x - 1 by omega]; exact e2
    · exact ⟨x + 1, a, l, stripW_even a l (by omega), stripW_even a _ (by omega), h1, h2, h3⟩

theorem stripW_right (x : Nat) : ∀ a l, a ≤ l → l < 2 ^ x → a + 1 < 2 ^ x →
    ∃ y a' l', stripW a l = (a', l') ∧ stripW (2 ^ x + a) (2 ^ x + l) = (2 ^ y + a', 2 ^ y + l') ∧
      a' ≤ l' ∧ l' < 2 ^ y := by
  induction x with
  | zero => intro a l h1 h2 h3; simp at h3
  | succ x ih =>
    intro a l h1 h2 h3
    have hp := Nat.two_pow_pos x
    rw [pow_succ2] at h2 h3
    by_cases ho : a % 2 = 1
    · obtain ⟨y, a', l', e1, e2, b1, b2⟩ := ih (a / 2) (l / 2) (by omega) (by omega) (by omega)
      refine ⟨y, a', l', by rw [stripW_odd a l ho]; exact e1, ?_, b1, b2⟩
      rw [pow_succ2, stripW_odd _ _ (by omega), show (2 * 2 ^ x + a) / 2 = 2 ^ x + a / 2 by omega,
        show (2 * 2 ^ x + l) / 2 = 2 ^ x + l / 2 by omega]
      exact e2
    · exact ⟨x + 1, a, l, stripW_even a l (by omega), by rw [stripW_even _ _ (by rw [pow_succ2]; omega)], h1,
        by rw [pow_succ2]; exact h2⟩

theorem stripW_ones (x : Nat) : stripW (2 ^ x - 1) (2 ^ x - 1) = (0, 0) := by
  induction x with
  | zero => simp [stripW_even]
  | succ x ih =>
    have hp := Nat.two_pow_pos x
    rw [pow_succ2, stripW_odd _ _ (by omega), show (2 * 2 ^ x - 1) / 2 = 2 ^ x - 1 by omega]
    exact ih

section
variable {Hash : Type} (H1 : Hash → Hash → Hash)

/-- `consCore` without fuel -/
def coreW (fromProof : Bool) (m n : Nat) (oldRoot : Hash) (proof : List Hash) : Except VErr (Hash × Hash × List Hash) :=
  let nl := stripW (m - 1) (n - 1)
  if nl.1 ≠ 0 ∨ fromProof then
    match proof with
    | [] => .error .short
    | p0 :: rest0 => runW H1 nl.1 nl.2 p0 p0 rest0
  else runW H1 nl.1 nl.2 oldRoot oldRoot proof

theorem consCore_eq (fp : Bool) (m n : Nat) (oldRoot : Hash) (proof : List Hash) (h1 : 1 ≤ m) (h2 : m ≤ n) :
    consCore H1 fp m n oldRoot proof = coreW H1 fp m n oldRoot proof := by
  unfold consCore coreW
  rw [stripOnes_eq m (m - 1) (n - 1) (by omega)]
  have hb := stripW_le (m - 1) (n - 1)
  simp only
  split
  · cases proof with
    | nil => rfl
    | cons p0 r => exact consVRun_eq H1 n _ _ _ _ _ (by omega) (by omega)
  · exact consVRun_eq H1 n _ _ _ _ _ (by omega) (by omega)

/-- recursive (RFC 6962 `SUBPROOF` shaped) evaluation of a consistency proof, consuming from the front;
`fromProof = false` is RFC's `b = true` (the subtree is the complete old tree, whose hash the verifier knows) -/
def consRec (fp : Bool) (m n : Nat) (oldRoot : Hash) (path : List Hash) : Except VErr (Hash × Hash × List Hash) :=
  if _h : n ≤ m ∨ m = 0 then
    if fp then
      match path with
      | [] => .error .short
      | p :: r => .ok (p, p, r)
    else .ok (oldRoot, oldRoot, path)
  else if m ≤ splitK n then topNew H1 (consRec fp m (splitK n) oldRoot path)
  else topBoth H1 (consRec true (m - splitK n) (n - splitK n) oldRoot path)
termination_by n
decreasing_by
  · exact splitK_lt (by omega)
  · have := splitK_pos n; omega

theorem consRec_base (fp : Bool) (m n : Nat) (oldRoot : Hash) (path : List Hash) (h : n ≤ m) :
    consRec H1 fp m n oldRoot path =
      if fp then (match path with | [] => .error .short | p :: r => .ok (p, p, r)) else .ok (oldRoot, oldRoot, path) := by
  rw [consRec.eq_def]; simp [h]
theorem consRec_left (fp : Bool) (m n : Nat) (oldRoot : Hash) (path : List Hash) (h0 : 1 ≤ m) (h : m < n) (hk : m ≤ splitK n) :
    consRec H1 fp m n oldRoot path = topNew H1 (consRec H1 fp m (splitK n) oldRoot path) := by
  rw [consRec.eq_def]; simp [show ¬ n ≤ m by omega, show m ≠ 0 by omega, hk]
theorem consRec_right (fp : Bool) (m n : Nat) (oldRoot : Hash) (path : List Hash) (h0 : 1 ≤ m) (h : m < n) (hk : ¬ m ≤ splitK n) :
    consRec H1 fp m n oldRoot path = topBoth H1 (consRec H1 true (m - splitK n) (n - splitK n) oldRoot path) := by
  rw [consRec.eq_def]; simp [show ¬ n ≤ m by omega, show m ≠ 0 by omega, hk]

/-- **the iterative consistency verifier computes the recursive RFC 6962 evaluation** -/
theorem coreW_eq_consRec (n : Nat) : ∀ (fp : Bool) (m : Nat) (oldRoot : Hash) (proof : List Hash),
    1 ≤ m → (m < n ∨ (m = n ∧ ∃ x, n = 2 ^ x)) →
    coreW H1 fp m n oldRoot proof = consRec H1 fp m n oldRoot proof := by
  induction n using Nat.strongRecOn with
  | _ n ih =>
    intro fp m oldRoot proof h1 hmn
    rcases hmn with hlt | ⟨hmn, x, hx⟩
    · obtain ⟨x, hk, hx1, hx2⟩ := splitK_spec (n := n) (by omega)
      have hp := Nat.two_pow_pos x
      by_cases hle : m ≤ splitK n
      · rw [consRec_left H1 fp m n oldRoot proof h1 hlt hle, hk]
        rw [hk] at hle
        rw [← ih (2 ^ x) (by omega) fp m oldRoot proof h1
          (by rcases Nat.lt_or_ge m (2 ^ x) with h | h
              · left; exact h
              · right; exact ⟨by omega, x, rfl⟩)]
        obtain ⟨y, a', l', e1, e2, b1, b2, b3⟩ := stripW_left x (m - 1) (n - 1) (by omega) hx1 hx2
        unfold coreW
        rw [e1, e2]
        simp only
        split
        · cases proof with
          | nil => rfl
          | cons p0 r => exact runW_left H1 y a' l' _ _ _ b1 b2 b3
        · exact runW_left H1 y a' l' _ _ _ b1 b2 b3
      · rw [consRec_right H1 fp m n oldRoot proof h1 hlt hle, hk]
        rw [hk] at hle
        rw [← ih (n - 2 ^ x) (by omega) true (m - 2 ^ x) oldRoot proof (by omega) (Or.inl (by omega))]
        obtain ⟨y, a', l', e1, e2, b1, b2⟩ := stripW_right x (m - 2 ^ x - 1) (n - 2 ^ x - 1) (by omega) (by omega) (by omega)
        unfold coreW
        rw [show m - 1 = 2 ^ x + (m - 2 ^ x - 1) by omega, show n - 1 = 2 ^ x + (n - 2 ^ x - 1) by omega, e1, e2]
        have hy := Nat.two_pow_pos y
        simp only [show 2 ^ y + a' ≠ 0 by omega, ne_eq, not_false_eq_true, true_or, or_true, if_true]
        cases proof with
        | nil => rfl
        | cons p0 r => exact runW_right H1 y a' l' _ _ _ b1 b2
    · subst hmn
      rw [consRec_base H1 fp m m oldRoot proof (Nat.le_refl _)]
      unfold coreW
      rw [hx, stripW_ones x]
      cases fp with
      | true =>
        simp only [ne_eq, not_true_eq_false, or_true, if_true]
        cases proof with
        | nil => rfl
        | cons p0 r => simp [runW_zero_zero]
      | false => simp [runW_zero_zero]

end
end OntVerif.Proofs.Merkle
