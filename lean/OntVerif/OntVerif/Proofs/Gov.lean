import OntVerif.Model.Gov
/-!
Helper lemmas for C11 (stake bookkeeping of the governance contract): association-list algebra, the effect of every
bank action on the three quantities of the balance identity and on the per-address ledgers.
-/
namespace OntVerif.Proofs.Gov
open OntVerif.Model.Gov

/-! ### association lists -/

theorem mget_mset (m : Map) (k v k' : Nat) : mget (mset m k v) k' = if k' = k then v else mget m k' := by
  induction m with
  | nil =>
    by_cases h : k' = k
    · subst h; simp [mset, mget]
    · have h' : ¬ k = k' := fun e => h e.symm
      simp [mset, mget, h, h']
  | cons x r ih =>
    obtain ⟨a, b⟩ := x
    by_cases ha : a = k
    · subst ha
      by_cases h : k' = a
      · subst h; simp [mset, mget]
      · have h' : ¬ a = k' := fun e => h e.symm
        simp [mset, mget, h, h']
    · by_cases h : k' = k
      · subst h
        simp [mset, mget, ha, ih]
      · by_cases hak : a = k'
        · simp [mset, mget, h, hak]
        · simp [mset, mget, ha, h, hak, ih]

theorem mget_mset_self (m : Map) (k v : Nat) : mget (mset m k v) k = v := by
  rw [mget_mset]; simp

theorem mget_mset_ne (m : Map) (k v k' : Nat) (h : k' ≠ k) : mget (mset m k v) k' = mget m k' := by
  rw [mget_mset]; simp [h]

theorem msum_mset (m : Map) (k v : Nat) : msum (mset m k v) + mget m k = msum m + v := by
  induction m with
  | nil => simp [mset, msum, mget]
  | cons x r ih =>
    obtain ⟨a, b⟩ := x
    by_cases ha : a = k
    · subst ha; simp [mset, msum, mget]; omega
    · simp [mset, msum, mget, ha]; omega

theorem mget_le_msum (m : Map) (k : Nat) : mget m k ≤ msum m := by
  induction m with
  | nil => simp [mget]
  | cons x r ih =>
    obtain ⟨a, b⟩ := x
    by_cases ha : a = k
    · simp [mget, msum, ha]
    · simp [mget, msum, ha]; omega

theorem msum_madd (m : Map) (k n : Nat) : msum (madd m k n) = msum m + n := by
  have h := msum_mset m k (mget m k + n)
  unfold madd; omega

theorem mget_madd (m : Map) (k n k' : Nat) : mget (madd m k n) k' = if k' = k then mget m k + n else mget m k' := by
  unfold madd; rw [mget_mset]

theorem msum_mset_sub (m : Map) (k n : Nat) (h : n ≤ mget m k) : msum (mset m k (mget m k - n)) + n = msum m := by
  have h1 := msum_mset m k (mget m k - n)
  have h2 := mget_le_msum m k
  omega

/-! ### `stakeSubs`, `addPens` -/

/-- what a list of (address, amount) takes from one address -/
def takenFrom (a : Nat) : List (Nat × Nat) → Nat
  | [] => 0
  | (k, n) :: r => (if k = a then n else 0) + takenFrom a r

theorem stakeSubs_sum (st st' : Map) (l : List (Nat × Nat)) (h : stakeSubs st l = .ok st') :
    msum st' + pensTotal l = msum st := by
  induction l generalizing st with
  | nil => simp [stakeSubs] at h; subst h; simp [pensTotal]
  | cons x r ih =>
    obtain ⟨a, n⟩ := x
    simp only [stakeSubs] at h
    split at h
    · cases h
    · rename_i hlt
      have := ih _ h
      have h2 := msum_mset_sub st a n (by omega)
      simp only [pensTotal]; omega

theorem stakeSubs_get (st st' : Map) (l : List (Nat × Nat)) (h : stakeSubs st l = .ok st') (a : Nat) :
    mget st' a + takenFrom a l = mget st a := by
  induction l generalizing st with
  | nil => simp [stakeSubs] at h; subst h; simp [takenFrom]
  | cons x r ih =>
    obtain ⟨k, n⟩ := x
    simp only [stakeSubs] at h
    split at h
    · cases h
    · rename_i hlt
      have := ih _ h
      rw [mget_mset] at this
      simp only [takenFrom]
      by_cases hk : a = k
      · subst hk; simp at this ⊢; omega
      · have hk' : ¬ k = a := fun e => hk e.symm
        simp [hk, hk'] at this ⊢; omega

theorem addPens_get (m : Map) (l : List (Nat × Nat)) (a : Nat) :
    mget (addPens m l) a = mget m a + takenFrom a l := by
  induction l generalizing m with
  | nil => simp [addPens, takenFrom]
  | cons x r ih =>
    obtain ⟨k, n⟩ := x
    simp only [addPens, takenFrom]
    rw [ih, mget_madd]
    by_cases hk : a = k
    · subst hk; simp; omega
    · have hk' : ¬ k = a := fun e => hk e.symm
      simp [hk, hk']

/-! ### the balance identity -/

/-- C11's identity: the ONT the contract holds is exactly the recorded total stakes plus the penalty stakes -/
def BankInv (b : Bank) : Prop := b.govOnt = msum b.stakes + msum b.penInit + msum b.penAuth

/-- per-address ledger: what an address deposited = what it withdrew + what was moved to penalty stakes + its total stake -/
def LedgerInv (b : Bank) : Prop := ∀ a, mget b.dep a = mget b.wd a + mget b.pen a + mget b.stakes a

/-- the identity shifted by a constant gap `c` (c = 0: `BankInv`; c = Σ genesis InitPos: the code as shipped) -/
def BankInvOff (c : Nat) (b : Bank) : Prop := b.govOnt + c = msum b.stakes + msum b.penInit + msum b.penAuth

theorem act_BankInvOff (c : Nat) (b b' : Bank) (x : BankAction) (h : b.act x = .ok b') (hi : BankInvOff c b) :
    BankInvOff c b' := by
  unfold BankInvOff at *
  cases x with
  | deposit a n =>
    simp only [Bank.act] at h
    split at h
    · cases h
    · cases h; simp only [msum_madd]; omega
  | withdraw a n =>
    simp only [Bank.act] at h
    split at h
    · cases h
    · split at h
      · cases h
      · rename_i h1 h2
        cases h
        have := msum_mset_sub b.stakes a n (by omega)
        simp only; omega
  | penalise peer owner initPos pens =>
    simp only [Bank.act] at h
    split at h
    · cases h
    · split at h
      · cases h
      · rename_i st hs
        cases h
        have := stakeSubs_sum _ _ _ hs
        simp only [pensTotal] at this
        simp only [msum_madd]; omega
  | payPenalty peer a =>
    simp only [Bank.act] at h
    split at h
    · cases h
    · rename_i hlt
      cases h
      have h1 := msum_mset b.penInit peer 0
      have h2 := msum_mset b.penAuth peer 0
      simp only; omega
  | selfTouch n =>
    simp only [Bank.act] at h
    split at h
    · cases h
    · cases h; exact hi
  | ongIn a n =>
    simp only [Bank.act] at h
    split at h
    · cases h
    · cases h; exact hi
  | ongOut a n =>
    simp only [Bank.act] at h
    split at h
    · cases h
    · cases h; exact hi
  | credit a n => simp only [Bank.act] at h; cases h; exact hi
  | feeWithdraw a =>
    simp only [Bank.act] at h
    split at h
    · cases h
    · split at h
      · cases h
      · cases h; exact hi
  | splitFeeAdd n => simp only [Bank.act] at h; cases h; exact hi

theorem act_BankInv (b b' : Bank) (x : BankAction) (h : b.act x = .ok b') (hi : BankInv b) : BankInv b' := by
  have : BankInvOff 0 b := by unfold BankInvOff; unfold BankInv at hi; omega
  have := act_BankInvOff 0 b b' x h this
  unfold BankInvOff at this; unfold BankInv; omega

theorem act_LedgerInv (b b' : Bank) (x : BankAction) (h : b.act x = .ok b') (hi : LedgerInv b) : LedgerInv b' := by
  unfold LedgerInv at *
  intro k
  have hk := hi k
  cases x with
  | deposit a n =>
    simp only [Bank.act] at h
    split at h
    · cases h
    · cases h
      simp only [mget_madd]
      by_cases e : k = a
      · subst e; simp; omega
      · simp [e]; omega
  | withdraw a n =>
    simp only [Bank.act] at h
    split at h
    · cases h
    · split at h
      · cases h
      · rename_i h1 h2
        cases h
        simp only [mget_madd, mget_mset]
        by_cases e : k = a
        · subst e; simp; omega
        · simp [e]; omega
  | penalise peer owner initPos pens =>
    simp only [Bank.act] at h
    split at h
    · cases h
    · split at h
      · cases h
      · rename_i st hs
        cases h
        have h1 := stakeSubs_get _ _ _ hs k
        have h2 := addPens_get b.pen ((owner, initPos) :: pens) k
        simp only; omega
  | payPenalty peer a =>
    simp only [Bank.act] at h
    split at h
    · cases h
    · cases h; exact hk
  | selfTouch n =>
    simp only [Bank.act] at h
    split at h
    · cases h
    · cases h; exact hk
  | ongIn a n =>
    simp only [Bank.act] at h
    split at h
    · cases h
    · cases h; exact hk
  | ongOut a n =>
    simp only [Bank.act] at h
    split at h
    · cases h
    · cases h; exact hk
  | credit a n => simp only [Bank.act] at h; cases h; exact hk
  | feeWithdraw a =>
    simp only [Bank.act] at h
    split at h
    · cases h
    · split at h
      · cases h
      · cases h; exact hk
  | splitFeeAdd n => simp only [Bank.act] at h; cases h; exact hk

theorem acts_preserve (P : Bank → Prop) (hP : ∀ b b' x, b.act x = .ok b' → P b → P b')
    (b b' : Bank) (l : List BankAction) (h : b.acts l = .ok b') (hi : P b) : P b' := by
  induction l generalizing b with
  | nil => simp [Bank.acts] at h; subst h; exact hi
  | cons x r ih =>
    simp only [Bank.acts] at h
    split at h
    · cases h
    · rename_i b1 h1
      exact ih b1 h (hP _ _ _ h1 hi)

/-- an operation either is rejected (state unchanged) or applies the planned bank actions -/
theorem exec_cases (op : Op) (s : St) :
    ((exec op s).1 = s ∧ (exec op s).2 ≠ .ok) ∨
    (∃ b' acts bank', plan op s = .ok (b', acts) ∧ s.bank.acts acts = .ok bank' ∧
       exec op s = ({ book := b', bank := bank' }, .ok)) := by
  unfold exec
  split
  · left; simp
  · left; simp
  · rename_i b' acts hp
    split
    · left; simp
    · left; simp
    · rename_i bank' ha
      right; exact ⟨b', acts, bank', hp, ha, rfl⟩

theorem exec_preserve (P : Bank → Prop) (hP : ∀ b b' x, b.act x = .ok b' → P b → P b')
    (op : Op) (s : St) (hi : P s.bank) : P (exec op s).1.bank := by
  rcases exec_cases op s with ⟨h, _⟩ | ⟨b', acts, bank', _, ha, he⟩
  · rw [h]; exact hi
  · rw [he]; exact acts_preserve P hP _ _ _ ha hi

theorem run_preserve (P : Bank → Prop) (hP : ∀ b b' x, b.act x = .ok b' → P b → P b')
    (ops : List Op) (s : St) (hi : P s.bank) : P (run ops s).bank := by
  induction ops generalizing s with
  | nil => exact hi
  | cons op r ih => exact ih _ (exec_preserve P hP op s hi)

/-! ### the ghost ledgers are faithful to the real balances -/

/-- ONT an address holds or has deposited, against what it withdrew or was paid: the difference never changes -/
def flowL (b : Bank) (a : Nat) : Nat := mget b.ont a + mget b.dep a
def flowR (b : Bank) (a : Nat) : Nat := mget b.wd a + mget b.paid a

theorem act_flow (b b' : Bank) (x : BankAction) (h : b.act x = .ok b') (k : Nat) :
    flowL b' k + flowR b k = flowL b k + flowR b' k := by
  unfold flowL flowR
  cases x with
  | deposit a n =>
    simp only [Bank.act] at h
    split at h
    · cases h
    · rename_i hlt
      cases h
      simp only [mget_madd, mget_mset]
      by_cases e : k = a
      · subst e; simp; omega
      · simp [e]
  | withdraw a n =>
    simp only [Bank.act] at h
    split at h
    · cases h
    · split at h
      · cases h
      · cases h
        simp only [mget_madd]
        by_cases e : k = a
        · subst e; simp; omega
        · simp [e]
  | penalise peer owner initPos pens =>
    simp only [Bank.act] at h
    split at h
    · cases h
    · split at h
      · cases h
      · cases h; rfl
  | payPenalty peer a =>
    simp only [Bank.act] at h
    split at h
    · cases h
    · cases h
      simp only [mget_madd]
      by_cases e : k = a
      · subst e; simp; omega
      · simp [e]
  | selfTouch n =>
    simp only [Bank.act] at h
    split at h
    · cases h
    · cases h; rfl
  | ongIn a n =>
    simp only [Bank.act] at h
    split at h
    · cases h
    · cases h; rfl
  | ongOut a n =>
    simp only [Bank.act] at h
    split at h
    · cases h
    · cases h; rfl
  | credit a n => simp only [Bank.act] at h; cases h; rfl
  | feeWithdraw a =>
    simp only [Bank.act] at h
    split at h
    · cases h
    · split at h
      · cases h
      · cases h; rfl
  | splitFeeAdd n => simp only [Bank.act] at h; cases h; rfl

theorem acts_flow (b b' : Bank) (l : List BankAction) (h : b.acts l = .ok b') (k : Nat) :
    flowL b' k + flowR b k = flowL b k + flowR b' k := by
  induction l generalizing b with
  | nil => simp [Bank.acts] at h; subst h; rfl
  | cons x r ih =>
    simp only [Bank.acts] at h
    split at h
    · cases h
    · rename_i b1 h1
      have := ih b1 h
      have := act_flow _ _ _ h1 k
      omega

theorem exec_flow (op : Op) (s : St) (k : Nat) :
    flowL (exec op s).1.bank k + flowR s.bank k = flowL s.bank k + flowR (exec op s).1.bank k := by
  rcases exec_cases op s with ⟨h, _⟩ | ⟨b', acts, bank', _, ha, he⟩
  · rw [h]
  · rw [he]; exact acts_flow _ _ _ ha k

theorem run_flow (ops : List Op) (s : St) (k : Nat) :
    flowL (run ops s).bank k + flowR s.bank k = flowL s.bank k + flowR (run ops s).bank k := by
  induction ops generalizing s with
  | nil => rfl
  | cons op r ih =>
    have h1 := ih (exec op s).1
    have h2 := exec_flow op s k
    simp only [run]; omega

/-! ### withdraw draws on the unfrozen bucket only -/

/-- Σ WithdrawUnfreezePos over the authorize records of address `a` -/
def unfSum (a : Nat) : List Auth → Nat
  | [] => 0
  | x :: r => (if x.addr = a then x.unf else 0) + unfSum a r

theorem putAuth_unf (auths : List Auth) (y : Auth) :
    unfSum y.addr (putAuth auths y) + (getAuth auths y.peer y.addr).unf = unfSum y.addr auths + y.unf := by
  induction auths with
  | nil => simp [putAuth, getAuth, unfSum]
  | cons x r ih =>
    by_cases hx : x.peer = y.peer ∧ x.addr = y.addr
    · have h2 := hx.2
      simp only [putAuth, getAuth, hx, and_self, if_true, unfSum]; omega
    · simp only [putAuth, getAuth, hx, if_false, unfSum]; omega

theorem putAuth_unf_other (auths : List Auth) (y : Auth) (a' : Nat) (h : y.addr ≠ a') :
    unfSum a' (putAuth auths y) = unfSum a' auths := by
  induction auths with
  | nil => simp [putAuth, unfSum, h]
  | cons x r ih =>
    by_cases hx : x.peer = y.peer ∧ x.addr = y.addr
    · have : x.addr ≠ a' := by rw [hx.2]; exact h
      simp [putAuth, hx, unfSum, h]
    · simp [putAuth, hx, unfSum, ih]

theorem getAuth_ids (auths : List Auth) (p a : Nat) : (getAuth auths p a).peer = p ∧ (getAuth auths p a).addr = a := by
  induction auths with
  | nil => simp [getAuth]
  | cons x r ih =>
    by_cases hx : x.peer = p ∧ x.addr = a
    · simp [getAuth, hx]
    · simp [getAuth, hx, ih]

theorem wdLoop_unf (nw : Bool) (a : Nat) (items : List (Nat × Nat)) (auths auths' : List Auth) (total total' : Nat)
    (h : wdLoop nw a items (auths, total) = .ok (auths', total')) :
    unfSum a auths' + total' = unfSum a auths + total ∧ ∀ a', a' ≠ a → unfSum a' auths' = unfSum a' auths := by
  induction items generalizing auths total with
  | nil => simp [wdLoop] at h; obtain ⟨h1, h2⟩ := h; subst h1; subst h2; simp
  | cons it r ih =>
    obtain ⟨p, amt⟩ := it
    simp only [wdLoop] at h
    split at h
    · cases h
    · split at h
      · cases h
      · rename_i hlt
        obtain ⟨i1, i2⟩ := getAuth_ids auths p a
        obtain ⟨e1, e2⟩ := ih _ _ h
        have hp := putAuth_unf auths { getAuth auths p a with unf := (getAuth auths p a).unf - amt }
        simp only [i1, i2] at hp
        generalize getAuth auths p a = x at *
        obtain ⟨xp, xa, x1, x2, x3, x4, x5, x6⟩ := x
        simp only at i1 i2 hlt hp e1 e2
        subst i1; subst i2
        constructor
        · omega
        · intro a' hne
          rw [e2 a' hne]
          apply putAuth_unf_other
          exact fun e => hne e.symm

/-! ### genesis -/

theorem genesis_BankInv (l : List (Nat × Nat × Nat)) (b : Bank) (hi : BankInv b) : BankInv (genesisStakes true l b) := by
  induction l generalizing b with
  | nil => exact hi
  | cons x r ih =>
    obtain ⟨id, owner, pos⟩ := x
    simp only [genesisStakes]
    apply ih
    unfold BankInv at *
    simp only [msum_madd, if_true]; omega

theorem genesis_LedgerInv (l : List (Nat × Nat × Nat)) (b : Bank) (hi : LedgerInv b) : LedgerInv (genesisStakes true l b) := by
  induction l generalizing b with
  | nil => exact hi
  | cons x r ih =>
    obtain ⟨id, owner, pos⟩ := x
    simp only [genesisStakes]
    apply ih
    unfold LedgerInv at *
    intro k
    have := hi k
    simp only [mget_madd, if_true]
    by_cases e : k = owner
    · subst e; simp; omega
    · simp [e]; omega

def genesisTotal : List (Nat × Nat × Nat) → Nat
  | [] => 0
  | (_, _, pos) :: r => pos + genesisTotal r

/-- the code as it is: after `InitConfig` the recorded stakes exceed the ONT held by exactly Σ InitPos -/
theorem genesis_unfunded (l : List (Nat × Nat × Nat)) (b : Bank) :
    (genesisStakes false l b).govOnt = b.govOnt ∧
    msum (genesisStakes false l b).stakes = msum b.stakes + genesisTotal l ∧
    (genesisStakes false l b).penInit = b.penInit ∧ (genesisStakes false l b).penAuth = b.penAuth := by
  induction l generalizing b with
  | nil => simp [genesisStakes, genesisTotal]
  | cons x r ih =>
    obtain ⟨id, owner, pos⟩ := x
    simp only [genesisStakes, genesisTotal]
    obtain ⟨h1, h2, h3, h4⟩ := ih ({ b with stakes := madd b.stakes owner pos,
                                            govOnt := if false = true then b.govOnt + pos else b.govOnt,
                                            dep := if false = true then madd b.dep owner pos else b.dep } : Bank)
    refine ⟨?_, ?_, ?_, ?_⟩
    · rw [h1]; simp
    · rw [h2, msum_madd]; omega
    · rw [h3]
    · rw [h4]

end OntVerif.Proofs.Gov
