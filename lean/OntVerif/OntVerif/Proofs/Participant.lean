import OntVerif.Model.Participant
import Mathlib.Data.List.Perm.Subperm
/-!
Helper lemmas for C29: invariants of the three loops of `calcParticipantPeers` and of the split / top-up.
(Mathlib is used for one lemma: a duplicate-free list contained in another is no longer than it.)
-/
namespace OntVerif.Proofs.Participant
open OntVerif.Model.Participant

/-! ### topUp -/
theorem topUp_eq (need : Nat) (src acc : List Nat) :
    topUp need src acc = acc ++ src.take (need - acc.length) := by
  induction src generalizing acc with
  | nil => simp [topUp]
  | cons x xs ih =>
    unfold topUp
    split
    · rename_i h
      rw [ih]
      have : need - acc.length = (need - (acc ++ [x]).length) + 1 := by simp; omega
      rw [this]; simp
    · rename_i h
      have : need - acc.length = 0 := by omega
      simp [this]

/-! ### step 1 -/
theorem selectLoop_inv (pick : Nat → Nat) (limit N : Nat) (S : List Nat)
    (hpick : ∀ k, pick k = maxU32 ∨ pick k ∈ S) (fuel i : Nat) (acc : List Nat)
    (hn : acc.Nodup) (hs : ∀ x ∈ acc, x ∈ S) :
    (selectLoop pick limit N fuel i acc).Nodup ∧ ∀ x ∈ selectLoop pick limit N fuel i acc, x ∈ S := by
  induction fuel generalizing i acc with
  | zero => exact ⟨hn, hs⟩
  | succ f ih =>
    unfold selectLoop
    simp only
    split
    · exact ⟨hn, hs⟩
    · rename_i hne
      split
      · exact ih _ _ hn hs
      · rename_i hnot
        have hn' : (acc ++ [pick i]).Nodup := by
          rw [List.nodup_append]
          refine ⟨hn, by simp, ?_⟩
          intro a ha b hb
          simp at hb
          subst hb
          intro h; subst h; exact hnot ha
        have hs' : ∀ x ∈ acc ++ [pick i], x ∈ S := by
          intro x hx
          rcases List.mem_append.mp hx with h | h
          · exact hs x h
          · simp at h; subst h
            rcases hpick i with h | h
            · exact absurd h hne
            · exact h
        split
        · exact ⟨hn', hs'⟩
        · exact ih _ _ hn' hs'

/-! ### step 2 -/
theorem fillLoop_inv (c : Nat) (S : List Nat) (ps acc : List Nat)
    (hn : acc.Nodup) (hs : ∀ x ∈ acc, x ∈ S) (hps : ∀ x ∈ ps, x ∈ S) :
    (fillLoop c ps acc).Nodup ∧ (∀ x ∈ fillLoop c ps acc, x ∈ S) ∧
      (c * 3 < (fillLoop c ps acc).length ∨ ((∀ x ∈ ps, x ∈ fillLoop c ps acc) ∧ ∀ x ∈ acc, x ∈ fillLoop c ps acc)) := by
  induction ps generalizing acc with
  | nil => exact ⟨hn, hs, Or.inr ⟨by simp, fun x h => h⟩⟩
  | cons p ps ih =>
    unfold fillLoop
    simp only
    have hn' : (if p ∈ acc then acc else acc ++ [p]).Nodup := by
      split
      · exact hn
      · rename_i hnot
        rw [List.nodup_append]
        refine ⟨hn, by simp, ?_⟩
        intro a ha b hb
        simp at hb; subst hb
        intro h; subst h; exact hnot ha
    have hs' : ∀ x ∈ (if p ∈ acc then acc else acc ++ [p]), x ∈ S := by
      intro x hx
      split at hx
      · exact hs x hx
      · rcases List.mem_append.mp hx with h | h
        · exact hs x h
        · simp at h; subst h; exact hps _ (by simp)
    have hp : p ∈ (if p ∈ acc then acc else acc ++ [p]) := by
      split
      · assumption
      · simp
    have hsub : ∀ x ∈ acc, x ∈ (if p ∈ acc then acc else acc ++ [p]) := by
      intro x hx
      split
      · exact hx
      · exact List.mem_append_left _ hx
    generalize (if p ∈ acc then acc else acc ++ [p]) = acc' at hn' hs' hp hsub ⊢
    split
    · rename_i hlen
      exact ⟨hn', hs', Or.inl hlen⟩
    · have := ih _ hn' hs' (fun x hx => hps x (List.mem_cons_of_mem _ hx))
      refine ⟨this.1, this.2.1, ?_⟩
      rcases this.2.2 with h | ⟨h1, h2⟩
      · exact Or.inl h
      · refine Or.inr ⟨?_, fun x hx => h2 x (hsub x hx)⟩
        intro x hx
        rcases List.mem_cons.mp hx with h | h
        · subst h; exact h2 _ hp
        · exact h1 x h

/-- the peers gathered by steps 1 and 2: distinct, configured, at least `3c+1` of them -/
theorem gather_spec (pick : Nat → Nat) (posLen c N : Nat) (peers : List Nat)
    (hpick : ∀ k, pick k = maxU32 ∨ pick k ∈ peers) (hnd : peers.Nodup) (hlen : 3 * c + 1 ≤ peers.length) :
    (gather pick posLen c N peers).Nodup ∧ (∀ x ∈ gather pick posLen c N peers, x ∈ peers) ∧
      3 * c + 1 ≤ (gather pick posLen c N peers).length := by
  unfold gather
  have h1 := selectLoop_inv pick ((c + 1) + ((2 * c + 1) * 2)) N peers hpick posLen 0 [] List.nodup_nil (by simp)
  simp only
  split
  · have h2 := fillLoop_inv c peers peers _ h1.1 h1.2 (fun x h => h)
    refine ⟨h2.1, h2.2.1, ?_⟩
    rcases h2.2.2 with h | ⟨h, _⟩
    · omega
    · have : peers.length ≤ (fillLoop c peers (selectLoop pick ((c + 1) + ((2 * c + 1) * 2)) N posLen 0 [])).length :=
        (List.subperm_of_subset hnd h).length_le
      omega
  · rename_i h
    exact ⟨h1.1, h1.2, by omega⟩


/-! ### the split -/

/-- three consecutive segments of a duplicate-free list -/
theorem segments (g : List Nat) (a b : Nat) (hg : g.Nodup) :
    let P := g.take a; let E := (g.drop a).take b; let K := g.drop (a + b)
    g = P ++ (E ++ K) ∧ P.Nodup ∧ E.Nodup ∧ K.Nodup ∧ (∀ x ∈ P, x ∉ E) ∧ (∀ x ∈ P, x ∉ K) ∧ (∀ x ∈ E, x ∉ K) := by
  intro P E K
  have e1 : g = P ++ (E ++ K) := by
    show g = g.take a ++ ((g.drop a).take b ++ g.drop (a + b))
    rw [← List.drop_drop, List.take_append_drop, List.take_append_drop]
  have hg' := hg
  rw [e1, List.nodup_append, List.nodup_append] at hg'
  obtain ⟨hP, ⟨hE, hK, hEK⟩, hPEK⟩ := hg'
  refine ⟨e1, hP, hE, hK, ?_, ?_, ?_⟩
  · intro x hx hx'; exact hPEK x hx x (List.mem_append_left _ hx') rfl
  · intro x hx hx'; exact hPEK x hx x (List.mem_append_right _ hx') rfl
  · intro x hx hx'; exact hEK x hx x hx' rfl

theorem nodup_rev {l : List Nat} (h : l.Nodup) : l.reverse.Nodup := by
  unfold List.Nodup at *
  rw [List.pairwise_reverse]
  exact h.imp (fun h => h.symm)
theorem nodup_take_of_nodup {l : List Nat} (n : Nat) (h : l.Nodup) : (l.take n).Nodup :=
  List.Nodup.sublist (List.take_sublist n l) h
theorem nodup_drop_of_nodup {l : List Nat} (n : Nat) (h : l.Nodup) : (l.drop n).Nodup :=
  List.Nodup.sublist (List.drop_sublist n l) h

/-- `A ++ B ++ C ++ D` is duplicate-free when the parts are and are pairwise disjoint -/
theorem nodup_append4 {A B C D : List Nat} (hA : A.Nodup) (hB : B.Nodup) (hC : C.Nodup) (hD : D.Nodup)
    (hAB : ∀ x ∈ A, x ∉ B) (hAC : ∀ x ∈ A, x ∉ C) (hAD : ∀ x ∈ A, x ∉ D)
    (hBC : ∀ x ∈ B, x ∉ C) (hBD : ∀ x ∈ B, x ∉ D) (hCD : ∀ x ∈ C, x ∉ D) : (A ++ B ++ C ++ D).Nodup := by
  simp only [List.nodup_append, List.mem_append]
  refine ⟨⟨⟨hA, hB, ?_⟩, hC, ?_⟩, hD, ?_⟩
  · intro a ha b hb e; subst e; exact hAB a ha hb
  · intro a ha b hb e; subst e
    rcases ha with h | h
    · exact hAC a h hb
    · exact hBC a h hb
  · intro a ha b hb e; subst e
    rcases ha with (h | h) | h
    · exact hAD a h hb
    · exact hBD a h hb
    · exact hCD a h hb

theorem split_spec (c : Nat) (g : List Nat) (hc : 1 ≤ c) (hg : g.Nodup) (hlen : 3 * c + 1 ≤ g.length) :
    ∃ s, split c g = some s ∧ s.proposers.length = c + 1 ∧ s.proposers.Nodup ∧
      s.endorsers.Nodup ∧ 2 * c + 1 ≤ s.endorsers.length ∧
      s.committers.Nodup ∧ 2 * c + 1 ≤ s.committers.length ∧
      (∀ x ∈ s.proposers, x ∈ g) ∧ (∀ x ∈ s.endorsers, x ∈ g) ∧ (∀ x ∈ s.committers, x ∈ g) := by
  unfold split
  have hnot : ¬ g.length < c + 1 := by omega
  simp only [hnot, if_false]
  refine ⟨_, rfl, ?_⟩
  simp only [topUp_eq]
  have hPlen : (g.take (c + 1)).length = c + 1 := by rw [List.length_take]; omega
  rw [hPlen]
  generalize hn1 : (g.length - (c + 1)) / 2 = n1
  obtain ⟨e1, hP, hE, hK, hPE, hPK, hEK⟩ := segments g (c + 1) n1 hg
  generalize hPd : g.take (c + 1) = P at *
  generalize hEd : (g.drop (c + 1)).take n1 = E at *
  generalize hKd : g.drop (c + 1 + n1) = K at *
  have hElen : E.length = n1 := by rw [← hEd, List.length_take, List.length_drop]; omega
  have hKlen : K.length = g.length - (c + 1 + n1) := by rw [← hKd, List.length_drop]
  have memP : ∀ x ∈ P, x ∈ g := fun x hx => by rw [e1]; exact List.mem_append_left _ hx
  have memE : ∀ x ∈ E, x ∈ g := fun x hx => by rw [e1]; exact List.mem_append_right _ (List.mem_append_left _ hx)
  have memK : ∀ x ∈ K, x ∈ g := fun x hx => by rw [e1]; exact List.mem_append_right _ (List.mem_append_right _ hx)
  -- the pieces used by the top-ups, all inside P / K / E
  have hPlast : ∀ x ∈ (P.drop c).take 1, x ∈ P := fun x hx => List.mem_of_mem_drop (List.mem_of_mem_take hx)
  have hPmid : ∀ n, ∀ x ∈ (((P.take c).drop 1).reverse).take n, x ∈ (P.take c).drop 1 :=
    fun n x hx => List.mem_reverse.mp (List.mem_of_mem_take hx)
  have hPlast_mid : ∀ x ∈ (P.drop c).take 1, x ∉ (P.take c).drop 1 := by
    have := hP
    rw [← List.take_append_drop c P, List.nodup_append] at this
    intro x hx hx'
    exact this.2.2 x (List.mem_of_mem_drop hx') x (List.mem_of_mem_take hx) rfl
  refine ⟨rfl, hP, ?_, ?_, ?_, ?_, memP, ?_, ?_⟩
  · -- endorsers duplicate-free
    split
    · apply nodup_append4 hE (nodup_take_of_nodup _ (nodup_drop_of_nodup _ hP))
        (nodup_take_of_nodup _ (nodup_rev hK))
        (nodup_take_of_nodup _ (nodup_rev (nodup_drop_of_nodup _ (nodup_take_of_nodup _ hP))))
      · intro x hx hx'; exact hPE x (hPlast x hx') hx
      · intro x hx hx'; exact hEK x hx (List.mem_reverse.mp (List.mem_of_mem_take hx'))
      · intro x hx hx'; exact hPE x (List.mem_of_mem_take (List.mem_of_mem_drop (hPmid _ x hx'))) hx
      · intro x hx hx'; exact hPK x (hPlast x hx) (List.mem_reverse.mp (List.mem_of_mem_take hx'))
      · intro x hx hx'; exact hPlast_mid x hx (hPmid _ x hx')
      · intro x hx hx'
        exact hPK x (List.mem_of_mem_take (List.mem_of_mem_drop (hPmid _ x hx'))) (List.mem_reverse.mp (List.mem_of_mem_take hx))
    · exact hE
  · -- at least 2c+1 endorsers
    split
    · simp only [List.length_append, List.length_take, List.length_drop, List.length_reverse, hPlen]
      omega
    · omega
  · -- committers duplicate-free
    split
    · have := nodup_append4 (A := K) (B := (P.drop 1).take (2 * c + 1 - K.length))
        (C := E.reverse.take (2 * c + 1 - (K ++ (P.drop 1).take (2 * c + 1 - K.length)).length)) (D := [])
        hK (nodup_take_of_nodup _ (nodup_drop_of_nodup _ hP)) (nodup_take_of_nodup _ (nodup_rev hE)) List.nodup_nil
        (fun x hx hx' => hPK x (List.mem_of_mem_drop (List.mem_of_mem_take hx')) hx)
        (fun x hx hx' => hEK x (List.mem_reverse.mp (List.mem_of_mem_take hx')) hx)
        (by simp)
        (fun x hx hx' => hPE x (List.mem_of_mem_drop (List.mem_of_mem_take hx)) (List.mem_reverse.mp (List.mem_of_mem_take hx')))
        (by simp) (by simp)
      simpa using this
    · exact hK
  · -- at least 2c+1 committers
    split
    · simp only [List.length_append, List.length_take, List.length_drop, List.length_reverse, hPlen]
      omega
    · omega
  · -- endorsers ⊆ g
    intro x hx
    split at hx
    · simp only [List.mem_append] at hx
      rcases hx with ((h | h) | h) | h
      · exact memE x h
      · exact memP x (hPlast x h)
      · exact memK x (List.mem_reverse.mp (List.mem_of_mem_take h))
      · exact memP x (List.mem_of_mem_take (List.mem_of_mem_drop (hPmid _ x h)))
    · exact memE x hx
  · -- committers ⊆ g
    intro x hx
    split at hx
    · simp only [List.mem_append] at hx
      rcases hx with (h | h) | h
      · exact memK x h
      · exact memP x (List.mem_of_mem_drop (List.mem_of_mem_take h))
      · exact memE x (List.mem_reverse.mp (List.mem_of_mem_take h))
    · exact memK x hx


/-! ### calcParticipant -/

/-- a pick is the sentinel or an entry of the position table -/
theorem calcParticipant_mem (vrf : Nat → Nat) (pos : List Nat) (k : Nat) :
    calcParticipant vrf pos k = maxU32 ∨ calcParticipant vrf pos k ∈ pos := by
  unfold calcParticipant
  split
  · exact Or.inl rfl
  · split
    · exact Or.inr (List.getElem_mem _)
    · exact Or.inl rfl

theorem pickValue_congr (vrf vrf' : Nat → Nat) (k : Nat) (hk : k < 512)
    (h : ∀ i, i < 64 → vrf i % 256 = vrf' i % 256) : pickValue vrf k = pickValue vrf' k := by
  unfold pickValue
  have h1 : vrf (k / 8) % 256 = vrf' (k / 8) % 256 := h _ (by omega)
  have h0 : vrf 0 % 256 = vrf' 0 % 256 := h 0 (by omega)
  simp only [h1, h0]
  by_cases hb : k / 8 + 1 < 64
  · simp only [hb, if_true, h _ hb]
  · simp only [hb, if_false]

/-- `calcParticipant` reads the seed only through bytes `0 … 63`, each reduced mod 256 -/
theorem calcParticipant_congr (vrf vrf' : Nat → Nat) (pos : List Nat) (k : Nat)
    (h : ∀ i, i < 64 → vrf i % 256 = vrf' i % 256) :
    calcParticipant vrf pos k = calcParticipant vrf' pos k := by
  unfold calcParticipant
  split
  · rfl
  · rename_i hk
    simp only [pickValue_congr vrf vrf' k (by omega) h]

/-- the value taken from the seed has at most 16 bits -/
theorem pickValue_lt (vrf : Nat → Nat) (k : Nat) : pickValue vrf k < 4294967296 := by
  unfold pickValue
  exact Nat.mod_lt _ (by decide)

end OntVerif.Proofs.Participant
