import OntVerif.Model.ChainConfig
/-!
Helper lemmas for C30 (core Lean only): the Go string order is a strict total order, `less` induces a total preorder whose
ties are exactly "same stake and same key", the stable sort is a sorted permutation (hence unique for distinct keys),
swaps preserve element counts, and with distinct indexes a peer's index occurs `rank` times in the position table.
-/
namespace OntVerif.Proofs.ChainConfig
open OntVerif.Model.ChainConfig

/-! ### the key order (Go string comparison) is a strict total order -/

theorem keyLt_irrefl (a : List Nat) : keyLt a a = false := by
  induction a with
  | nil => rfl
  | cons x xs ih => simp [keyLt, ih]

theorem keyLt_asymm : ∀ (a b : List Nat), keyLt a b = true → keyLt b a = false
  | [], [], h => by simp [keyLt] at h
  | [], _ :: _, _ => by simp [keyLt]
  | _ :: _, [], h => by simp [keyLt] at h
  | x :: xs, y :: ys, h => by
    unfold keyLt at h ⊢
    by_cases h1 : x < y
    · have : ¬ y < x := by omega
      simp [this, h1]
    · by_cases h2 : y < x
      · simp [h1, h2] at h
      · simp only [h1, h2, if_false] at h ⊢
        exact keyLt_asymm xs ys h

/-- trichotomy: two keys neither of which is below the other are equal -/
theorem keyLt_total : ∀ (a b : List Nat), keyLt a b = false → keyLt b a = false → a = b
  | [], [], _, _ => rfl
  | [], _ :: _, h, _ => by simp [keyLt] at h
  | _ :: _, [], _, h => by simp [keyLt] at h
  | x :: xs, y :: ys, h, h' => by
    unfold keyLt at h h'
    by_cases h1 : x < y
    · simp [h1] at h
    · by_cases h2 : y < x
      · simp [h2] at h'
      · simp only [h1, h2, if_false] at h h'
        have : x = y := by omega
        rw [this, keyLt_total xs ys h h']

/-- negative transitivity: if `a < c` then `a < b` or `b < c` -/
theorem keyLt_negtrans : ∀ (a b c : List Nat), keyLt a c = true → keyLt a b = true ∨ keyLt b c = true
  | [], [], c, h => Or.inr h
  | [], _ :: _, _, _ => Or.inl (by simp [keyLt])
  | _ :: _, _, [], h => by simp [keyLt] at h
  | _ :: _, [], _ :: _, _ => Or.inr (by simp [keyLt])
  | x :: xs, y :: ys, z :: zs, h => by
    unfold keyLt at h
    unfold keyLt
    by_cases hxz : x < z
    · by_cases hxy : x < y
      · simp [hxy]
      · by_cases hyz : y < z
        · simp [hyz]
        · exfalso; omega
    · by_cases hzx : z < x
      · simp [hxz, hzx] at h
      · simp only [hxz, hzx, if_false] at h
        have hxz' : x = z := by omega
        subst hxz'
        by_cases hxy : x < y
        · simp [hxy]
        · by_cases hyx : y < x
          · simp [hyx]
          · simp only [hxy, hyx, if_false]
            exact keyLt_negtrans xs ys zs h

/-! ### the sort order -/

/-- `le a b` = `a` may stand before `b` = `¬ less b a` -/
def le (a b : StakePeer) : Bool := !less b a

theorem le_iff (a b : StakePeer) :
    le a b = true ↔ b.stake ≤ a.stake ∧ (b.stake = a.stake → keyLt a.key b.key = false) := by
  unfold le less
  by_cases h1 : b.stake > a.stake
  · simp [h1]; omega
  · by_cases h2 : b.stake = a.stake
    · simp [h2]
    · simp [h1, h2]; omega

theorem le_total (a b : StakePeer) : (le a b || le b a) = true := by
  rw [Bool.or_eq_true, le_iff, le_iff]
  by_cases h : a.stake = b.stake
  · by_cases hk : keyLt a.key b.key = true
    · right
      exact ⟨by omega, fun _ => keyLt_asymm _ _ hk⟩
    · left
      exact ⟨by omega, fun _ => by simpa using hk⟩
  · by_cases h' : a.stake < b.stake
    · right; exact ⟨by omega, fun e => by omega⟩
    · left; exact ⟨by omega, fun e => by omega⟩

theorem le_trans (a b c : StakePeer) (h1 : le a b = true) (h2 : le b c = true) : le a c = true := by
  rw [le_iff] at *
  refine ⟨by omega, fun e => ?_⟩
  have e1 : b.stake = a.stake := by omega
  have e2 : c.stake = b.stake := by omega
  have k1 := h1.2 e1
  have k2 := h2.2 e2
  cases hk : keyLt a.key c.key with
  | false => rfl
  | true =>
    rcases keyLt_negtrans _ b.key _ hk with h | h
    · rw [h] at k1; cases k1
    · rw [h] at k2; cases k2

/-- antisymmetry up to the sort key: mutually-before peers have the same stake and the same key -/
theorem le_antisymm (a b : StakePeer) (h1 : le a b = true) (h2 : le b a = true) : a.stake = b.stake ∧ a.key = b.key := by
  rw [le_iff] at *
  have e : a.stake = b.stake := by omega
  exact ⟨e, keyLt_total _ _ (h1.2 e.symm) (h2.2 e)⟩

theorem less_le (a b : StakePeer) (h : less b a = true) : le b a = true := by
  have := le_total a b
  unfold le at *
  simp [h] at this ⊢
  exact this

/-! ### the stable sort -/

theorem insertSorted_perm (a : StakePeer) (l : List StakePeer) : (insertSorted a l).Perm (a :: l) := by
  induction l with
  | nil => exact List.Perm.refl _
  | cons b l ih =>
    unfold insertSorted
    split
    · exact (List.Perm.cons b ih).trans (List.Perm.swap a b l)
    · exact List.Perm.refl _

theorem sortPeers_perm (l : List StakePeer) : (sortPeers l).Perm l := by
  induction l with
  | nil => exact List.Perm.refl _
  | cons a l ih => exact (insertSorted_perm a _).trans (List.Perm.cons a ih)

theorem insertSorted_sorted (a : StakePeer) (l : List StakePeer) (h : l.Pairwise (fun x y => le x y = true)) :
    (insertSorted a l).Pairwise (fun x y => le x y = true) := by
  induction l with
  | nil => simp [insertSorted]
  | cons b l ih =>
    unfold insertSorted
    rw [List.pairwise_cons] at h
    split
    · rename_i hb
      rw [List.pairwise_cons]
      refine ⟨?_, ih h.2⟩
      intro x hx
      rcases List.mem_cons.mp ((insertSorted_perm a l).subset hx) with e | hx'
      · subst e; exact less_le _ _ hb
      · exact h.1 x hx'
    · rename_i hb
      have hab : le a b = true := by unfold le; simpa using hb
      rw [List.pairwise_cons]
      refine ⟨?_, List.pairwise_cons.mpr h⟩
      intro x hx
      rcases List.mem_cons.mp hx with e | hx'
      · subst e; exact hab
      · exact le_trans _ _ _ hab (h.1 x hx')

theorem sortPeers_sorted (l : List StakePeer) : (sortPeers l).Pairwise (fun x y => le x y = true) := by
  induction l with
  | nil => exact List.Pairwise.nil
  | cons a l ih => exact insertSorted_sorted a _ ih

theorem eq_of_key_eq {l : List StakePeer} (hk : (l.map (·.key)).Nodup) {a b : StakePeer}
    (ha : a ∈ l) (hb : b ∈ l) (e : a.key = b.key) : a = b := by
  induction l with
  | nil => cases ha
  | cons x l ih =>
    rw [List.map_cons, List.nodup_cons] at hk
    rcases List.mem_cons.mp ha with rfl | ha' <;> rcases List.mem_cons.mp hb with rfl | hb'
    · rfl
    · exact absurd (e ▸ List.mem_map_of_mem hb') hk.1
    · exact absurd (e ▸ List.mem_map_of_mem ha') hk.1
    · exact ih hk.2 ha' hb'

/-- **the sorted order does not depend on the input order** when keys are distinct -/
theorem sortPeers_perm_invariant (l₁ l₂ : List StakePeer) (hp : l₁.Perm l₂) (hk : (l₁.map (·.key)).Nodup) :
    sortPeers l₁ = sortPeers l₂ := by
  apply List.Perm.eq_of_pairwise (le := fun x y => le x y = true) _ (sortPeers_sorted l₁) (sortPeers_sorted l₂)
  · exact (sortPeers_perm l₁).trans (hp.trans (sortPeers_perm l₂).symm)
  · intro a b ha hb h1 h2
    have ha' : a ∈ l₁ := (sortPeers_perm l₁).subset ha
    have hb' : b ∈ l₁ := hp.symm.subset ((sortPeers_perm l₂).subset hb)
    exact eq_of_key_eq hk ha' hb' (le_antisymm a b h1 h2).2


/-! ### position table: counting slots -/

theorem swap_count (l : List Nat) (i j x : Nat) : (swap l i j).count x = l.count x := by
  unfold swap
  split
  · rename_i a b ha hb
    obtain ⟨hi, ea⟩ := List.getElem?_eq_some_iff.mp ha
    obtain ⟨hj, eb⟩ := List.getElem?_eq_some_iff.mp hb
    have hj' : j < (l.set i b).length := by simpa using hj
    rw [List.count_set hj', List.count_set hi]
    have e2 : (l.set i b)[j] = b := by
      rw [List.getElem_set]
      split
      · rfl
      · exact eb
    rw [e2, ea]
    have hmem : a ∈ l := ea ▸ List.getElem_mem hi
    have hpos : (if (a == x) = true then 1 else 0) ≤ l.count x := by
      split
      · rename_i h
        have : a = x := by simpa using h
        subst this
        exact List.count_pos_iff.mpr hmem
      · omega
    omega
  · rfl

theorem shuffleLoop_count (H : List Nat → Nat → Nat) (top : List StakePeer) (i : Nat) (l : List Nat) (x : Nat) :
    (shuffleLoop H top i l).count x = l.count x := by
  induction i generalizing l with
  | zero => rfl
  | succ i ih =>
    unfold shuffleLoop
    split
    · rfl
    · split
      · rfl
      · rw [ih, swap_count]

theorem count_posTable0_of_not_mem (rk : StakePeer → Nat) (top : List StakePeer) (x : Nat)
    (h : x ∉ top.map (·.index)) : (top.flatMap fun p => List.replicate (rk p) p.index).count x = 0 := by
  induction top with
  | nil => rfl
  | cons q top ih =>
    rw [List.map_cons, List.mem_cons, not_or] at h
    rw [List.flatMap_cons, List.count_append, ih h.2, List.count_replicate]
    have : ¬ (q.index == x) = true := by simpa using fun e => h.1 e.symm
    simp [this]

/-- with distinct indexes, a selected peer's index occurs exactly `rank` times in the unshuffled table -/
theorem count_posTable0 (rk : StakePeer → Nat) (top : List StakePeer) (hn : (top.map (·.index)).Nodup)
    (p : StakePeer) (hp : p ∈ top) : (top.flatMap fun p => List.replicate (rk p) p.index).count p.index = rk p := by
  induction top with
  | nil => cases hp
  | cons q top ih =>
    rw [List.map_cons, List.nodup_cons] at hn
    rw [List.flatMap_cons, List.count_append, List.count_replicate]
    rcases List.mem_cons.mp hp with rfl | hp'
    · rw [count_posTable0_of_not_mem rk top _ hn.1]; simp
    · have : ¬ (q.index == p.index) = true := by
        intro e
        have e' : q.index = p.index := by simpa using e
        exact hn.1 (e' ▸ List.mem_map_of_mem hp')
      rw [ih hn.2 hp']; simp [this]

theorem mem_posTable0 (rk : StakePeer → Nat) (top : List StakePeer) (x : Nat)
    (h : x ∈ top.flatMap fun p => List.replicate (rk p) p.index) : ∃ p ∈ top, p.index = x := by
  rw [List.mem_flatMap] at h
  obtain ⟨p, hp, hx⟩ := h
  exact ⟨p, hp, (List.mem_replicate.mp hx).2.symm⟩

/-! ### the peer map -/

theorem find_index {l : List StakePeer} (hn : (l.map (·.index)).Nodup) {p : StakePeer} (hp : p ∈ l) :
    l.find? (fun q => q.index == p.index) = some p := by
  induction l with
  | nil => cases hp
  | cons q l ih =>
    rw [List.map_cons, List.nodup_cons] at hn
    rw [List.find?_cons]
    rcases List.mem_cons.mp hp with rfl | hp'
    · simp
    · have : ¬ (q.index == p.index) = true := by
        intro e
        have e' : q.index = p.index := by simpa using e
        exact hn.1 (e' ▸ List.mem_map_of_mem hp')
      simp only [this]
      exact ih hn.2 hp'

/-- with distinct indexes `chainPeers[p.Index].ID` is `p`'s own key -/
theorem idOf_self {top : List StakePeer} (hn : (top.map (·.index)).Nodup) {p : StakePeer} (hp : p ∈ top) :
    idOf top p.index = some p.key := by
  unfold idOf
  have hn' : (top.reverse.map (·.index)).Nodup := by
    rw [List.map_reverse]
    exact (List.reverse_perm _).nodup_iff.mpr hn
  rw [find_index hn' (List.mem_reverse.mpr hp)]
  rfl

/-! ### selection -/

theorem selected_sublist_perm (K : Nat) (peers : List StakePeer) :
    (selected K peers ++ (sortPeers peers).drop K).Perm peers := by
  unfold selected
  rw [List.take_append_drop]
  exact sortPeers_perm peers

theorem selected_before_rest (K : Nat) (peers : List StakePeer) :
    ∀ p ∈ selected K peers, ∀ q ∈ (sortPeers peers).drop K, le p q = true := by
  have h := sortPeers_sorted peers
  rw [← List.take_append_drop K (sortPeers peers), List.pairwise_append] at h
  exact h.2.2

theorem selected_length (K : Nat) (peers : List StakePeer) (h : K ≤ peers.length) : (selected K peers).length = K := by
  unfold selected
  rw [List.length_take, (sortPeers_perm peers).length_eq]
  omega

theorem selected_index_nodup (K : Nat) (peers : List StakePeer) (h : (peers.map (·.index)).Nodup) :
    ((selected K peers).map (·.index)).Nodup := by
  unfold selected
  rw [List.map_take]
  exact List.Nodup.sublist (List.take_sublist _ _) (((sortPeers_perm peers).map _).nodup_iff.mpr h)

end OntVerif.Proofs.ChainConfig
