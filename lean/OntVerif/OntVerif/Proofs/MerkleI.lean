import OntVerif.Proofs.MerkleH
namespace OntVerif.Proofs.Merkle
open OntVerif.Util OntVerif.Model.Merkle

section
variable {Hash : Type} (H1 : Hash → Hash → Hash) (He : Hash)

/-- RFC 6962 `SUBPROOF(m, D, b)` with `fp = ¬ b` -/
def subproofSpec (fp : Bool) (m : Nat) (D : List Hash) : List Hash :=
  if _h : D.length ≤ m ∨ m = 0 then (if fp then [mth H1 He D] else []) else
  if m ≤ splitK D.length then
    subproofSpec fp m (D.take (splitK D.length)) ++ [mth H1 He (D.drop (splitK D.length))]
  else subproofSpec true (m - splitK D.length) (D.drop (splitK D.length)) ++ [mth H1 He (D.take (splitK D.length))]
termination_by D.length
decreasing_by
  · rw [List.length_take]; have := splitK_lt (n := D.length) (by omega); omega
  · rw [List.length_drop]; have := splitK_pos D.length; omega

theorem subproofSpec_base (fp : Bool) (m : Nat) (D : List Hash) (h : D.length ≤ m) :
    subproofSpec H1 He fp m D = if fp then [mth H1 He D] else [] := by
  rw [subproofSpec.eq_def]; simp [h]
theorem subproofSpec_left (fp : Bool) (m : Nat) (D : List Hash) (h0 : 1 ≤ m) (h : m < D.length) (hk : m ≤ splitK D.length) :
    subproofSpec H1 He fp m D =
      subproofSpec H1 He fp m (D.take (splitK D.length)) ++ [mth H1 He (D.drop (splitK D.length))] := by
  rw [subproofSpec.eq_def]; simp [show ¬ D.length ≤ m by omega, show m ≠ 0 by omega, hk]
theorem subproofSpec_right (fp : Bool) (m : Nat) (D : List Hash) (h0 : 1 ≤ m) (h : m < D.length) (hk : ¬ m ≤ splitK D.length) :
    subproofSpec H1 He fp m D =
      subproofSpec H1 He true (m - splitK D.length) (D.drop (splitK D.length)) ++ [mth H1 He (D.take (splitK D.length))] := by
  rw [subproofSpec.eq_def]; simp [show ¬ D.length ≤ m by omega, show m ≠ 0 by omega, hk]

/-- the old tree `D[0:m]` splits at the same point as the new one when `k < m ≤ n ≤ 2k` -/
theorem mth_take_right (D : List Hash) (m : Nat) (h2 : 2 ≤ D.length) (hk : splitK D.length < m) (hm : m ≤ D.length) :
    mth H1 He (D.take m) =
      H1 (mth H1 He (D.take (splitK D.length))) (mth H1 He ((D.drop (splitK D.length)).take (m - splitK D.length))) := by
  obtain ⟨x, hkx, hx1, hx2⟩ := splitK_spec (n := D.length) h2
  have e : D.take m = D.take (splitK D.length) ++ (D.drop (splitK D.length)).take (m - splitK D.length) := by
    conv => lhs; rw [show m = splitK D.length + (m - splitK D.length) by omega, List.take_add]
  rw [e]
  rw [pow_succ2] at hx2
  exact mth_append H1 He _ _ x (by rw [List.length_take, hkx]; omega)
    (by rw [List.length_take, List.length_drop]; omega) (by rw [List.length_take, List.length_drop, hkx]; omega)

theorem topNew_ok (e : Except VErr (Hash × Hash × List Hash)) (o n : Hash) (rest : List Hash)
    (h : topNew H1 e = .ok (o, n, rest)) : ∃ n' p, e = .ok (o, n', p :: rest) ∧ n = H1 n' p := by
  match e, h with
  | .ok (o', n', p :: r), h =>
    simp only [topNew, Except.ok.injEq, Prod.mk.injEq] at h
    exact ⟨n', p, by rw [h.1, h.2.2], h.2.1.symm⟩

theorem topBoth_ok (e : Except VErr (Hash × Hash × List Hash)) (o n : Hash) (rest : List Hash)
    (h : topBoth H1 e = .ok (o, n, rest)) : ∃ o' n' p, e = .ok (o', n', p :: rest) ∧ o = H1 p o' ∧ n = H1 p n' := by
  match e, h with
  | .ok (o', n', p :: r), h =>
    simp only [topBoth, Except.ok.injEq, Prod.mk.injEq] at h
    exact ⟨o', n', p, by rw [h.2.2], h.1.symm, h.2.1.symm⟩

/-- completeness of the recursive evaluation on the RFC consistency proof -/
theorem consRec_complete (n : Nat) : ∀ (fp : Bool) (m : Nat) (D : List Hash) (oldRoot : Hash) (extra : List Hash),
    D.length = n → 1 ≤ m → m ≤ n → (fp = false → oldRoot = mth H1 He (D.take m)) →
    consRec H1 fp m n oldRoot (subproofSpec H1 He fp m D ++ extra) = .ok (mth H1 He (D.take m), mth H1 He D, extra) := by
  induction n using Nat.strongRecOn with
  | _ n ih =>
    intro fp m D oldRoot extra hn h1 hmn hold
    subst hn
    by_cases hb : D.length ≤ m
    · have hm : m = D.length := by omega
      subst hm
      rw [consRec_base H1 fp _ _ oldRoot _ (Nat.le_refl _), subproofSpec_base H1 He fp _ D (Nat.le_refl _), List.take_length]
      cases fp with
      | true => simp
      | false => simp [hold rfl, List.take_length]
    · have hlt : m < D.length := by omega
      have h2 : 2 ≤ D.length := by omega
      have hk := splitK_lt h2
      have hp := splitK_pos D.length
      by_cases hle : m ≤ splitK D.length
      · rw [consRec_left H1 fp m _ oldRoot _ h1 hlt hle, subproofSpec_left H1 He fp m D h1 hlt hle, List.append_assoc]
        have hlen : (D.take (splitK D.length)).length = splitK D.length := by rw [List.length_take]; omega
        have htt : (D.take (splitK D.length)).take m = D.take m := by rw [List.take_take]; congr 1; omega
        have := ih (splitK D.length) hk fp m (D.take (splitK D.length)) oldRoot ([mth H1 He (D.drop (splitK D.length))] ++ extra)
          hlen h1 hle (by rw [htt]; exact hold)
        rw [this, htt, mth_split H1 He D h2]
        simp [topNew]
      · rw [consRec_right H1 fp m _ oldRoot _ h1 hlt hle, subproofSpec_right H1 He fp m D h1 hlt hle, List.append_assoc]
        have hlen : (D.drop (splitK D.length)).length = D.length - splitK D.length := by rw [List.length_drop]
        have := ih (D.length - splitK D.length) (by omega) true (m - splitK D.length) (D.drop (splitK D.length)) oldRoot
          ([mth H1 He (D.take (splitK D.length))] ++ extra) hlen (by omega) (by omega) (by intro h; cases h)
        rw [this, mth_take_right H1 He D m h2 (by omega) (by omega), mth_split H1 He D h2]
        simp [topBoth]

/-- soundness of the recursive evaluation, collision-extraction form -/
theorem consRec_sound (n : Nat) : ∀ (fp : Bool) (m : Nat) (D : List Hash) (oldRoot o nw : Hash) (path rest : List Hash),
    D.length = n → 1 ≤ m → m ≤ n → consRec H1 fp m n oldRoot path = .ok (o, nw, rest) → mth H1 He D = nw →
    mth H1 He (D.take m) = o ∨ Collision1 H1 := by
  induction n using Nat.strongRecOn with
  | _ n ih =>
    intro fp m D oldRoot o nw path rest hn h1 hmn hev hnw
    subst hn
    by_cases hb : D.length ≤ m
    · have hm : m = D.length := by omega
      subst hm
      rw [consRec_base H1 fp _ _ oldRoot _ (Nat.le_refl _)] at hev
      left
      rw [List.take_length]
      cases fp with
      | true =>
        cases path with
        | nil => simp at hev
        | cons p r => simp at hev; rw [hnw, ← hev.2.1, hev.1]
      | false => simp at hev; rw [hnw, ← hev.2.1, hev.1]
    · have hlt : m < D.length := by omega
      have h2 : 2 ≤ D.length := by omega
      have hk := splitK_lt h2
      have hp := splitK_pos D.length
      rw [mth_split H1 He D h2] at hnw
      by_cases hle : m ≤ splitK D.length
      · rw [consRec_left H1 fp m _ oldRoot _ h1 hlt hle] at hev
        obtain ⟨n', p, hsub, hn'⟩ := topNew_ok H1 _ _ _ _ hev
        by_cases heq : (mth H1 He (D.take (splitK D.length)), mth H1 He (D.drop (splitK D.length))) = (n', p)
        · simp only [Prod.mk.injEq] at heq
          have hlen : (D.take (splitK D.length)).length = splitK D.length := by rw [List.length_take]; omega
          have htt : (D.take (splitK D.length)).take m = D.take m := by rw [List.take_take]; congr 1; omega
          have := ih (splitK D.length) hk fp m (D.take (splitK D.length)) oldRoot o n' path _ hlen h1 hle hsub heq.1
          rw [htt] at this
          exact this
        · right; exact ⟨_, _, _, _, heq, by rw [hnw, hn']⟩
      · rw [consRec_right H1 fp m _ oldRoot _ h1 hlt hle] at hev
        obtain ⟨o', n', p, hsub, ho', hn'⟩ := topBoth_ok H1 _ _ _ _ hev
        by_cases heq : (mth H1 He (D.take (splitK D.length)), mth H1 He (D.drop (splitK D.length))) = (p, n')
        · simp only [Prod.mk.injEq] at heq
          have hlen : (D.drop (splitK D.length)).length = D.length - splitK D.length := by rw [List.length_drop]
          rcases ih (D.length - splitK D.length) (by omega) true (m - splitK D.length) (D.drop (splitK D.length)) oldRoot o' n'
            path _ hlen (by omega) (by omega) hsub heq.2 with h | h
          · left
            rw [mth_take_right H1 He D m h2 (by omega) (by omega), heq.1, h, ho']
          · right; exact h
        · right; exact ⟨_, _, _, _, heq, by rw [hnw, hn']⟩

/-- two lists of the same length with the same tree hash are equal, or a collision is exhibited -/
theorem mth_inj (n : Nat) : ∀ (A B : List Hash), A.length = n → B.length = n → mth H1 He A = mth H1 He B →
    A = B ∨ Collision1 H1 := by
  induction n using Nat.strongRecOn with
  | _ n ih =>
    intro A B hA hB h
    by_cases h2 : 2 ≤ n
    · have hk := splitK_lt h2
      have hp := splitK_pos n
      rw [mth_split H1 He A (by omega), mth_split H1 He B (by omega), hA, hB] at h
      by_cases heq : (mth H1 He (A.take (splitK n)), mth H1 He (A.drop (splitK n))) =
          (mth H1 He (B.take (splitK n)), mth H1 He (B.drop (splitK n)))
      · simp only [Prod.mk.injEq] at heq
        rcases ih (splitK n) hk (A.take (splitK n)) (B.take (splitK n)) (by rw [List.length_take]; omega)
          (by rw [List.length_take]; omega) heq.1 with e1 | c
        · rcases ih (n - splitK n) (by omega) (A.drop (splitK n)) (B.drop (splitK n)) (by rw [List.length_drop]; omega)
            (by rw [List.length_drop]; omega) heq.2 with e2 | c
          · left; rw [← List.take_append_drop (splitK n) A, ← List.take_append_drop (splitK n) B, e1, e2]
          · right; exact c
        · right; exact c
      · right; exact ⟨_, _, _, _, heq, h⟩
    · left
      match A, B, hA, hB with
      | [], [], _, _ => rfl
      | [a], [b], _, _ => simp at h; rw [h]
      | [], _ :: _, hA, hB => simp at hA hB; omega
      | _ :: _, [], hA, hB => simp at hA hB; omega
      | [_], _ :: _ :: _, hA, hB => simp at hA hB; omega
      | _ :: _ :: _, _, hA, _ => simp at hA; omega

theorem consRec_nil_short (n : Nat) : ∀ (fp : Bool) (m : Nat) (oldRoot : Hash), 1 ≤ m → m < n →
    consRec H1 fp m n oldRoot [] = .error .short := by
  induction n using Nat.strongRecOn with
  | _ n ih =>
    intro fp m oldRoot h1 hlt
    have hk := splitK_lt (n := n) (by omega)
    by_cases hle : m ≤ splitK n
    · rw [consRec_left H1 fp m n oldRoot [] h1 hlt hle]
      by_cases hmk : m < splitK n
      · rw [ih (splitK n) hk fp m oldRoot h1 hmk]; rfl
      · rw [consRec_base H1 fp m _ oldRoot [] (by omega)]
        cases fp <;> rfl
    · have hp := splitK_pos n
      rw [consRec_right H1 fp m n oldRoot [] h1 hlt hle, ih (n - splitK n) (by omega) true _ oldRoot (by omega) (by omega)]; rfl

/-- `VerifyConsistency` (repaired) for `0 < m < n` in terms of the recursive evaluation -/
theorem verifyConsistency_mid [DecidableEq Hash] (m n : Nat) (oldRoot newRoot : Hash) (proof : List Hash)
    (h1 : 1 ≤ m) (hlt : m < n) :
    verifyConsistency H1 He m n oldRoot newRoot proof =
      consFinish oldRoot newRoot (consRec H1 false m n oldRoot proof) := by
  unfold verifyConsistency
  rw [if_neg (by omega), if_neg (by omega), if_neg (by omega)]
  by_cases hp : proof = []
  · subst hp
    rw [if_pos rfl, consRec_nil_short H1 n false m oldRoot h1 hlt]; rfl
  · rw [if_neg hp, consCore_eq H1 false m n oldRoot proof h1 (by omega),
      coreW_eq_consRec H1 n false m oldRoot proof h1 (Or.inl hlt)]

theorem consFinish_ok [DecidableEq Hash] (oldRoot newRoot : Hash) (e : Except VErr (Hash × Hash × List Hash)) :
    consFinish oldRoot newRoot e = .ok () ↔ e = .ok (oldRoot, newRoot, []) := by
  match e with
  | .error e => simp [consFinish]
  | .ok (o, n, path) =>
    simp only [consFinish]
    by_cases h1 : n = newRoot
    · by_cases h2 : o = oldRoot
      · by_cases h3 : path = []
        · simp [h1, h2, h3]
        · simp [h1, h2, h3]
      · simp [h1, h2]
    · simp [h1]

/-- two accepted evaluations with the same sizes and the same resulting pair of hashes consumed the same proof
elements — or exhibit a collision (every altered proof element is rejected) -/
theorem consRec_unique (n : Nat) : ∀ (fp : Bool) (m : Nat) (oldRoot o nw : Hash) (path path' rest rest' : List Hash),
    1 ≤ m → m ≤ n → consRec H1 fp m n oldRoot path = .ok (o, nw, rest) → consRec H1 fp m n oldRoot path' = .ok (o, nw, rest') →
    (∃ used, path = used ++ rest ∧ path' = used ++ rest') ∨ Collision1 H1 := by
  induction n using Nat.strongRecOn with
  | _ n ih =>
    intro fp m oldRoot o nw path path' rest rest' h1 hmn e1 e2
    by_cases hb : n ≤ m
    · rw [consRec_base H1 fp m n oldRoot _ hb] at e1 e2
      left
      cases fp with
      | true =>
        cases path with
        | nil => simp at e1
        | cons p r =>
          cases path' with
          | nil => simp at e2
          | cons p' r' =>
            simp at e1 e2
            exact ⟨[p], by simp [e1.2.2], by simp [← e2.1, e1.1, e2.2.2]⟩
      | false =>
        simp at e1 e2
        exact ⟨[], by simp [e1.2.2], by simp [e2.2.2]⟩
    · have hlt : m < n := by omega
      have hk := splitK_lt (n := n) (by omega)
      have hp := splitK_pos n
      by_cases hle : m ≤ splitK n
      · rw [consRec_left H1 fp m n oldRoot _ h1 hlt hle] at e1 e2
        obtain ⟨n1, p, hs1, hn1⟩ := topNew_ok H1 _ _ _ _ e1
        obtain ⟨n2, p', hs2, hn2⟩ := topNew_ok H1 _ _ _ _ e2
        by_cases heq : (n1, p) = (n2, p')
        · simp only [Prod.mk.injEq] at heq
          obtain ⟨rfl, rfl⟩ := heq
          rcases ih (splitK n) hk fp m oldRoot o n1 path path' _ _ h1 hle hs1 hs2 with ⟨used, hu, hu'⟩ | c
          · left; exact ⟨used ++ [p], by simp [hu], by simp [hu']⟩
          · right; exact c
        · right; exact ⟨_, _, _, _, heq, by rw [← hn1, ← hn2]⟩
      · rw [consRec_right H1 fp m n oldRoot _ h1 hlt hle] at e1 e2
        obtain ⟨o1, n1, p, hs1, ho1, hn1⟩ := topBoth_ok H1 _ _ _ _ e1
        obtain ⟨o2, n2, p', hs2, ho2, hn2⟩ := topBoth_ok H1 _ _ _ _ e2
        by_cases heq : (p, n1) = (p', n2)
        · simp only [Prod.mk.injEq] at heq
          obtain ⟨rfl, rfl⟩ := heq
          by_cases heq2 : (p, o1) = (p, o2)
          · simp only [Prod.mk.injEq, true_and] at heq2
            subst heq2
            rcases ih (n - splitK n) (by omega) true (m - splitK n) oldRoot o1 n1 path path' _ _ (by omega) (by omega) hs1 hs2
              with ⟨used, hu, hu'⟩ | c
            · left; exact ⟨used ++ [p], by simp [hu], by simp [hu']⟩
            · right; exact c
          · right; exact ⟨_, _, _, _, heq2, by rw [← ho1, ← ho2]⟩
        · right; exact ⟨_, _, _, _, heq, by rw [← hn1, ← hn2]⟩

/-- the consistency proof between the first `m` leaves and all of `D`: empty for `m = 0` and `m = |D|` -/
def consProofSpec (m : Nat) (D : List Hash) : List Hash :=
  if m = 0 ∨ m = D.length then [] else subproofSpec H1 He false m D

end
end OntVerif.Proofs.Merkle
