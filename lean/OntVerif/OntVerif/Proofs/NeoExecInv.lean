import OntVerif.Proofs.NeoExec
/-!
# C12: references never dangle — the closed-heap invariant of the executor model

`WF m`: every reference on the two stacks and inside every heap object points into the heap. Every opcode of `Model/NeoExec.step`
preserves `WF` and, on a `WF` machine, never takes the model's `dangling` branch (`step_inv`); a run from the initial machine is `WF`
throughout (`run_inv`). `R.inv P r`: `r` is not `dangling`, and a value satisfies `P`.
-/
namespace OntVerif.Proofs.NeoExec
open OntVerif.Util OntVerif.Model.NeoVal OntVerif.Model.NeoExec

/-! ## references never dangle: the closed-heap invariant -/

def okV (n : Nat) : Val → Prop
  | .ref r => r < n
  | _ => True

def okL (n : Nat) (l : List Val) : Prop := ∀ v ∈ l, okV n v

def okObj (n : Nat) : Obj → Prop
  | .arr vs => okL n vs
  | .struct vs => okL n vs
  | .map es => ∀ e ∈ es, okV n e.kv ∧ okV n e.val

def okH (h : Heap) : Prop := ∀ o ∈ h, okObj h.length o

structure WF (m : M) : Prop where
  eval : okL m.heap.length m.eval
  alt : okL m.heap.length m.alt
  heap : okH m.heap

/-- not `dangling`, and a value satisfies `P` -/
def R.inv {α : Type} (P : α → Prop) : R α → Prop
  | .ok a => P a
  | .dangling => False
  | _ => True

theorem inv_bind {α β : Type} {P : α → Prop} {Q : β → Prop} {x : R α} {f : α → R β}
    (hx : R.inv P x) (hf : ∀ a, P a → R.inv Q (f a)) : R.inv Q (x >>= f) := by
  cases x with
  | ok a => exact hf a hx
  | dangling => exact hx
  | _ => trivial

theorem inv_rbind {α β : Type} {P : α → Prop} {Q : β → Prop} {x : R α} {f : α → R β}
    (hx : R.inv P x) (hf : ∀ a, P a → R.inv Q (f a)) : R.inv Q (x.bind f) := inv_bind hx hf

theorem inv_mono {α : Type} {P Q : α → Prop} {x : R α} (hx : R.inv P x) (h : ∀ a, P a → Q a) : R.inv Q x := by
  cases x with
  | ok a => exact h a hx
  | dangling => exact hx
  | _ => trivial

theorem okV_mono {n n' : Nat} (h : n ≤ n') {v : Val} (hv : okV n v) : okV n' v := by
  cases v with
  | ref r => exact Nat.lt_of_lt_of_le hv h
  | _ => trivial

theorem okL_mono {n n' : Nat} (h : n ≤ n') {l : List Val} (hl : okL n l) : okL n' l :=
  fun v hv => okV_mono h (hl v hv)

theorem okObj_mono {n n' : Nat} (h : n ≤ n') {o : Obj} (ho : okObj n o) : okObj n' o := by
  cases o with
  | arr vs => exact okL_mono h ho
  | struct vs => exact okL_mono h ho
  | map es => exact fun e he => ⟨okV_mono h (ho e he).1, okV_mono h (ho e he).2⟩

theorem okL_nil (n : Nat) : okL n [] := fun _ h => by cases h
theorem okL_append {n : Nat} {a b : List Val} (ha : okL n a) (hb : okL n b) : okL n (a ++ b) := by
  intro v hv
  rcases List.mem_append.mp hv with h | h
  · exact ha v h
  · exact hb v h
theorem okL_single {n : Nat} {v : Val} (hv : okV n v) : okL n [v] := by
  intro x hx
  rw [List.mem_singleton] at hx; subst hx; exact hv
theorem okL_take {n : Nat} {l : List Val} (h : okL n l) (k : Nat) : okL n (l.take k) :=
  fun v hv => h v (List.mem_of_mem_take hv)
theorem okL_drop {n : Nat} {l : List Val} (h : okL n l) (k : Nat) : okL n (l.drop k) :=
  fun v hv => h v (List.mem_of_mem_drop hv)
theorem okL_set {n : Nat} {l : List Val} (h : okL n l) (k : Nat) {v : Val} (hv : okV n v) : okL n (l.set k v) := by
  intro x hx
  rcases List.mem_or_eq_of_mem_set hx with h1 | h1
  · exact h x h1
  · subst h1; exact hv
theorem okL_replicate {n : Nat} {v : Val} (hv : okV n v) (k : Nat) : okL n (List.replicate k v) := by
  intro x hx
  rw [List.mem_replicate] at hx
  rw [hx.2]; exact hv

theorem goIdx_inv {n : Nat} {xs : List Val} (h : okL n xs) (i : Int) : R.inv (okV n) (goIdx xs i) := by
  unfold goIdx
  split
  · split
    · rename_i x hx
      exact h x (List.mem_of_getElem? hx)
    · trivial
  · trivial

theorem goSlice_inv {n : Nat} {xs : List Val} (h : okL n xs) (lo hi : Int) : R.inv (okL n) (goSlice xs lo hi) := by
  unfold goSlice
  split
  · exact okL_take (okL_drop h _) _
  · trivial

theorem goSet_inv {n : Nat} {xs : List Val} (h : okL n xs) (i : Int) {v : Val} (hv : okV n v) : R.inv (okL n) (goSet xs i v) := by
  unfold goSet
  split
  · exact okL_set h _ hv
  · trivial

theorem vsPush_inv {n : Nat} {d : Stack} (h : okL n d) {t : Val} (ht : okV n t) : R.inv (okL n) (vsPush d t) := by
  unfold vsPush
  split
  · trivial
  · exact okL_append h (okL_single ht)

theorem vsPushMany_inv {n : Nat} {d : Stack} (h : okL n d) {vs : List Val} (hv : okL n vs) : R.inv (okL n) (vsPushMany d vs) := by
  unfold vsPushMany
  split
  · trivial
  · exact okL_append h hv

theorem vsPop_inv {n : Nat} {d : Stack} (h : okL n d) : R.inv (fun p => okV n p.1 ∧ okL n p.2) (vsPop d) := by
  unfold vsPop
  simp only
  split
  · trivial
  · refine inv_bind (goIdx_inv h _) fun v hv => ?_
    refine inv_bind (goSlice_inv h _ _) fun r hr => ?_
    exact ⟨hv, hr⟩

theorem vsPeek_inv {n : Nat} {d : Stack} (h : okL n d) (i : Int) : R.inv (okV n) (vsPeek d i) := by
  unfold vsPeek
  simp only
  split
  · trivial
  · exact goIdx_inv h _

theorem vsRemove_inv {n : Nat} {d : Stack} (h : okL n d) (i : Int) : R.inv (fun p => okV n p.1 ∧ okL n p.2) (vsRemove d i) := by
  unfold vsRemove
  simp only
  split
  · trivial
  · refine inv_bind (goIdx_inv h _) fun v hv => ?_
    refine inv_bind (goSlice_inv h _ _) fun a ha => ?_
    refine inv_bind (goSlice_inv h _ _) fun b hb => ?_
    exact ⟨hv, okL_append ha hb⟩

theorem vsInsert_inv {n : Nat} {d : Stack} (h : okL n d) (i : Int) {t : Val} (ht : okV n t) : R.inv (okL n) (vsInsert d i t) := by
  unfold vsInsert
  simp only
  split
  · trivial
  · split
    · trivial
    · have h1 : okL n (d ++ [t]) := okL_append h (okL_single ht)
      refine inv_bind (goSlice_inv h1 _ _) fun dst _ => ?_
      refine inv_bind (goSlice_inv h1 _ _) fun src hsrc => ?_
      exact goSet_inv (okL_append (okL_take h1 _) (okL_take hsrc _)) _ ht

theorem vsSwap_inv {n : Nat} {d : Stack} (h : okL n d) (i j : Int) : R.inv (okL n) (vsSwap d i j) := by
  unfold vsSwap
  simp only
  split
  · trivial
  · split
    · trivial
    · split
      · exact h
      · refine inv_bind (goIdx_inv h _) fun a ha => ?_
        refine inv_bind (goIdx_inv h _) fun b hb => ?_
        refine inv_bind (goSet_inv h _ hb) fun d1 hd1 => ?_
        exact goSet_inv hd1 _ ha

theorem ofOpt_inv {α : Type} (o : Option α) : R.inv (fun _ => True) (ofOpt o) := by
  cases o <;> trivial

theorem asBool_inv {h : Heap} {v : Val} (hv : okV h.length v) : R.inv (fun _ => True) (asBool h v) := by
  cases v with
  | ref r =>
    have hr : r < h.length := hv
    unfold asBool
    simp only
    have : h[r]? = some h[r] := List.getElem?_eq_getElem hr
    rw [this]
    cases h[r] <;> trivial
  | _ => unfold asBool; trivial

theorem asBigInt_inv (v : Val) : R.inv (fun _ => True) (asBigInt v) := by
  unfold asBigInt; split <;> trivial

theorem asIntValue_inv (v : Val) : R.inv (fun _ => True) (asIntValue v) := by
  unfold asIntValue
  split
  · split <;> trivial
  · trivial
  · dsimp only; split <;> trivial
  · trivial

theorem intResult_inv (n : Nat) (z : Int) : R.inv (okV n) (intResult z) := by
  unfold intResult; split <;> trivial

theorem valFromBytes_inv (n : Nat) (b : Bytes) : R.inv (okV n) (valFromBytes b) := by
  unfold valFromBytes; split <;> trivial

theorem popAsInt64_inv {n : Nat} {d : Stack} (h : okL n d) : R.inv (fun p => okL n p.2) (popAsInt64 d) := by
  unfold popAsInt64
  refine inv_bind (vsPop_inv h) fun ⟨v, d'⟩ ⟨_, hd⟩ => ?_
  refine inv_bind (ofOpt_inv _) fun _ _ => ?_
  exact hd

theorem popAsBytes_inv {n : Nat} {d : Stack} (h : okL n d) : R.inv (fun p => okL n p.2) (popAsBytes d) := by
  unfold popAsBytes
  refine inv_bind (vsPop_inv h) fun ⟨v, d'⟩ ⟨_, hd⟩ => ?_
  refine inv_bind (ofOpt_inv _) fun _ _ => ?_
  exact hd

theorem popAsBool_inv {h : Heap} {d : Stack} (hd : okL h.length d) : R.inv (fun p => okL h.length p.2) (popAsBool h d) := by
  unfold popAsBool
  refine inv_bind (vsPop_inv hd) fun ⟨v, d'⟩ ⟨hv, hd'⟩ => ?_
  refine inv_bind (asBool_inv hv) fun _ _ => ?_
  exact hd'

theorem popAsIntValue_inv {n : Nat} {d : Stack} (h : okL n d) : R.inv (fun p => okL n p.2) (popAsIntValue d) := by
  unfold popAsIntValue
  refine inv_bind (vsPop_inv h) fun ⟨v, d'⟩ ⟨_, hd⟩ => ?_
  refine inv_bind (asIntValue_inv _) fun _ _ => ?_
  exact hd

theorem pushBytes_inv {n : Nat} {d : Stack} (h : okL n d) (b : Bytes) : R.inv (okL n) (pushBytes d b) := by
  unfold pushBytes
  refine inv_bind (valFromBytes_inv n b) fun v hv => ?_
  exact vsPush_inv h hv

/-- a result that carries no VM value: it only has to be shown not to be `dangling` -/
theorem nd_of_safe_struct {α : Type} {x : R α} (h : x ≠ .dangling) : R.inv (fun _ => True) x := by
  cases x with
  | dangling => exact h rfl
  | _ => trivial

theorem goIdx_nd {α : Type} (xs : List α) (i : Int) : R.inv (fun _ => True) (goIdx xs i) := by
  unfold goIdx; split
  · split <;> trivial
  · trivial
theorem goSlice_nd {α : Type} (xs : List α) (lo hi : Int) : R.inv (fun _ => True) (goSlice xs lo hi) := by
  unfold goSlice; split <;> trivial
theorem goMake_nd {α : Type} (n : Int) (z : α) : R.inv (fun _ => True) (goMake n z) := by
  unfold goMake; split <;> trivial

theorem readByte_nd (code : Bytes) (pos : Nat) : R.inv (fun _ => True) (readByte code pos) := by
  unfold readByte; split
  · trivial
  · exact inv_bind (goIdx_nd _ _) fun _ _ => trivial
theorem readInto_nd (code : Bytes) (pos n : Nat) : R.inv (fun _ => True) (readInto code pos n) := by
  unfold readInto; split
  · trivial
  · exact inv_bind (goSlice_nd _ _ _) fun _ _ => trivial
theorem readBytes_nd (a : Bool) (code : Bytes) (pos : Nat) (c : Int) : R.inv (fun _ => True) (readBytes a code pos c) := by
  unfold readBytes
  simp only
  split <;> (split; · trivial
             · exact inv_bind (goMake_nd _ _) fun _ _ => readInto_nd _ _ _)
theorem readUintN_nd (code : Bytes) (pos k : Nat) : R.inv (fun _ => True) (readUintN code pos k) := by
  unfold readUintN
  exact inv_bind (readInto_nd _ _ _) fun _ _ => trivial
theorem seek_nd (o : Int) : R.inv (fun _ => True) (seek o) := by
  unfold seek; split <;> trivial
theorem pushContext_nd (c : List Nat) (p : Nat) : R.inv (fun _ => True) (pushContext c p) := by
  unfold pushContext; split <;> trivial
theorem popContext_nd (c : List Nat) : R.inv (fun _ => True) (popContext c) := by
  unfold popContext
  simp only
  split
  · trivial
  · exact inv_bind (goIdx_nd _ _) fun _ _ => inv_bind (goSlice_nd _ _ _) fun _ _ => trivial



theorem okH_get {h : Heap} (w : okH h) {r : Ref} {o : Obj} (e : h[r]? = some o) : okObj h.length o :=
  w o (List.mem_of_getElem? e)

theorem okV_get {h : Heap} {r : Ref} (hr : okV h.length (.ref r)) : ∃ o, h[r]? = some o :=
  ⟨h[r]'hr, List.getElem?_eq_getElem hr⟩

theorem okH_append {h : Heap} (w : okH h) {o : Obj} (ho : okObj (h.length + 1) o) : okH (h ++ [o]) := by
  intro x hx
  simp only [List.length_append, List.length_cons, List.length_nil]
  rcases List.mem_append.mp hx with h1 | h1
  · exact okObj_mono (by omega) (w x h1)
  · rw [List.mem_singleton] at h1; subst h1; exact ho

theorem okH_set {h : Heap} (w : okH h) (r : Ref) {o : Obj} (ho : okObj h.length o) : okH (h.set r o) := by
  intro x hx
  simp only [List.length_set]
  rcases List.mem_or_eq_of_mem_set hx with h1 | h1
  · exact w x h1
  · subst h1; exact ho

/-! ### `cloneStruct` keeps the heap closed and only appends -/

def CloneOut (n : Nat) : Ref × Heap × Nat → Prop := fun p => okH p.2.1 ∧ n ≤ p.2.1.length ∧ p.1 < p.2.1.length

theorem cloneElems_inv (rec : Ref → Heap → Nat → R (Ref × Heap × Nat)) (h0 : Heap) (_w0 : okH h0)
    (hrec : ∀ r h l, r < h0.length → okH h → h0.length ≤ h.length → R.inv (CloneOut h.length) (rec r h l))
    (vs : List Val) (hvs : okL h0.length vs) (h : Heap) (len : Nat) (w : okH h) (hle : h0.length ≤ h.length) :
    R.inv (fun p => okL p.2.1.length p.1 ∧ okH p.2.1 ∧ h.length ≤ p.2.1.length) (cloneElems rec h0 vs h len) := by
  induction vs generalizing h len with
  | nil =>
    unfold cloneElems
    exact ⟨okL_nil _, w, Nat.le_refl _⟩
  | cons v vs ih =>
    unfold cloneElems
    simp only
    have hv : okV h0.length v := hvs v List.mem_cons_self
    have hvs' : okL h0.length vs := fun x hx => hvs x (List.mem_cons_of_mem _ hx)
    refine inv_rbind (P := fun p => okV p.2.1.length p.1 ∧ okH p.2.1 ∧ h.length ≤ p.2.1.length) ?_ ?_
    · cases v with
      | ref r =>
        simp only
        obtain ⟨o, ho⟩ := okV_get hv
        rw [ho]
        cases o with
        | struct ss =>
          simp only
          refine inv_rbind (hrec r h (len + 1) hv w hle) ?_
          intro ⟨r', h', l'⟩ ⟨a, b, c⟩
          exact ⟨c, a, b⟩
        | arr ss => exact ⟨okV_mono hle hv, w, Nat.le_refl _⟩
        | map es => exact ⟨okV_mono hle hv, w, Nat.le_refl _⟩
      | _ => exact ⟨trivial, w, Nat.le_refl _⟩
    · intro ⟨v1, h1, l1⟩ ⟨a1, b1, c1⟩
      dsimp only at a1 b1 c1 ⊢
      refine inv_rbind (ih hvs' h1 l1 b1 (by omega)) ?_
      intro ⟨vs2, h2, l2⟩ ⟨a2, b2, c2⟩
      dsimp only at a2 b2 c2 ⊢
      refine ⟨?_, b2, by show h.length ≤ h2.length; omega⟩
      intro x hx
      show okV h2.length x
      rcases List.mem_cons.mp hx with e | e
      · subst e; exact okV_mono c2 a1
      · exact a2 x e

theorem cloneStruct_inv (f : Nat) (h0 : Heap) (w0 : okH h0) (r : Ref) (hr : r < h0.length) (h : Heap) (len : Nat)
    (w : okH h) (hle : h0.length ≤ h.length) : R.inv (CloneOut h.length) (cloneStruct f h0 r h len) := by
  induction f generalizing r h len with
  | zero => unfold cloneStruct; trivial
  | succ f ih =>
    unfold cloneStruct
    split
    · trivial
    · obtain ⟨o, ho⟩ := okV_get (h := h0) (r := r) hr
      rw [ho]
      cases o with
      | struct vs =>
        simp only
        have hvs : okL h0.length vs := okH_get w0 ho
        refine inv_rbind (cloneElems_inv _ h0 w0 (fun r h l hr w hle => ih r hr h l w hle) vs hvs h len w hle) ?_
        intro ⟨vs', h', len'⟩ ⟨a, b, c⟩
        dsimp only at a b c ⊢
        refine ⟨okH_append b (okL_mono (by omega) a), ?_, ?_⟩
        · show h.length ≤ (h' ++ [Obj.struct vs']).length
          simp only [List.length_append, List.length_cons, List.length_nil]; omega
        · show h'.length < (h' ++ [Obj.struct vs']).length
          simp only [List.length_append, List.length_cons, List.length_nil]; omega
      | arr vs => trivial
      | map es => trivial

theorem cloneIfStruct_inv {h : Heap} (w : okH h) {v : Val} (hv : okV h.length v) :
    R.inv (fun p => okH p.2 ∧ h.length ≤ p.2.length ∧ okV p.2.length p.1) (cloneIfStruct h v) := by
  unfold cloneIfStruct
  cases v with
  | ref r =>
    simp only
    obtain ⟨o, ho⟩ := okV_get hv
    rw [ho]
    cases o with
    | struct vs =>
      simp only
      refine inv_rbind (cloneStruct_inv _ h w r hv h 0 w (Nat.le_refl _)) ?_
      intro ⟨r', h', l'⟩ ⟨a, b, c⟩
      exact ⟨a, b, c⟩
    | arr vs => exact ⟨w, Nat.le_refl _, hv⟩
    | map es => exact ⟨w, Nat.le_refl _, hv⟩
  | _ => exact ⟨w, Nat.le_refl _, trivial⟩



theorem pushE_inv (m : M) (ha : okL m.heap.length m.alt) (hh : okH m.heap) {d : Stack} {v : Val}
    (hd : okL m.heap.length d) (hv : okV m.heap.length v) : R.inv WF (pushE m d v) := by
  unfold pushE
  refine inv_bind (vsPush_inv hd hv) fun d' hd' => ?_
  exact ⟨hd', ha, hh⟩

theorem packLoop_inv {n : Nat} (k : Nat) {d : Stack} {acc : List Val} (hd : okL n d) (ha : okL n acc) :
    R.inv (fun p => okL n p.1 ∧ okL n p.2) (packLoop k d acc) := by
  induction k generalizing d acc with
  | zero => exact ⟨hd, ha⟩
  | succ k ih =>
    unfold packLoop
    refine inv_bind (vsPop_inv hd) ?_
    intro ⟨v, d'⟩ ⟨hv, hd'⟩
    dsimp only
    split
    · trivial
    · exact ih hd' (okL_append ha (okL_single hv))

theorem unpackLoop_inv {n : Nat} {data : List Val} (hdata : okL n data) (i : Nat) {d : Stack} (hd : okL n d) :
    R.inv (okL n) (unpackLoop data i d) := by
  induction i generalizing d with
  | zero => exact hd
  | succ i ih =>
    unfold unpackLoop
    refine inv_bind (goIdx_inv hdata _) fun v hv => ?_
    refine inv_bind (vsPush_inv hd hv) fun d' hd' => ?_
    exact ih hd'

theorem revLoop_inv {n : Nat} (f : Nat) (i j : Int) {d : List Val} (hd : okL n d) : R.inv (okL n) (revLoop f i j d) := by
  induction f generalizing i j d with
  | zero => unfold revLoop; split <;> first | trivial | exact hd
  | succ f ih =>
    unfold revLoop
    split
    · refine inv_bind (goIdx_inv hd _) fun a ha => ?_
      refine inv_bind (goIdx_inv hd _) fun b hb => ?_
      refine inv_bind (goSet_inv hd _ hb) fun d1 hd1 => ?_
      refine inv_bind (goSet_inv hd1 _ ha) fun d2 hd2 => ?_
      exact ih _ _ hd2
    · exact hd

theorem removeAt_inv {n : Nat} {data : List Val} (hd : okL n data) (i : Int) : R.inv (okL n) (OntVerif.Model.NeoExec.removeAt data i) := by
  unfold OntVerif.Model.NeoExec.removeAt
  split
  · trivial
  · refine inv_bind (goSlice_inv hd _ _) fun a ha => ?_
    refine inv_bind (goSlice_inv hd _ _) fun b hb => ?_
    exact okL_append ha hb

theorem checkedIndex_nd (index : Val) (len : Nat) : R.inv (fun _ => True) (checkedIndex index len) := by
  unfold checkedIndex
  refine inv_bind (ofOpt_inv _) fun _ _ => ?_
  split <;> trivial

/-! ### every opcode keeps the machine closed -/

theorem opPushBytes_inv (m : M) (n : Nat) (w : WF m) : R.inv WF (opPushBytes m n) := by
  unfold opPushBytes
  refine inv_bind (readBytes_nd _ _ _ _) ?_
  intro ⟨buf, pos⟩ _
  refine inv_bind (valFromBytes_inv m.heap.length _) fun v hv => ?_
  exact pushE_inv { m with pos := pos } w.alt w.heap w.eval hv

theorem opPush0_inv (m : M) (w : WF m) : R.inv WF (opPush0 m) := by
  unfold opPush0; exact pushE_inv m w.alt w.heap w.eval trivial

theorem readPushLen_nd (m : M) (n : Nat) : R.inv (fun _ => True) (readPushLen m n) := by
  unfold readPushLen
  split
  · exact inv_bind (readByte_nd _ _) fun _ _ => trivial
  · split
    · exact readUintN_nd _ _ _
    · exact readUintN_nd _ _ _

theorem opPushData_inv (m : M) (n : Nat) (w : WF m) : R.inv WF (opPushData m n) := by
  unfold opPushData
  refine inv_bind (readPushLen_nd _ _) ?_
  intro ⟨nb, pos⟩ _
  refine inv_bind (readBytes_nd _ _ _ _) ?_
  intro ⟨data, pos⟩ _
  refine inv_bind (valFromBytes_inv m.heap.length _) fun v hv => ?_
  exact pushE_inv { m with pos := pos } w.alt w.heap w.eval hv

theorem opPushN_inv (m : M) (n : Nat) (w : WF m) : R.inv WF (opPushN m n) := by
  unfold opPushN; exact pushE_inv m w.alt w.heap w.eval trivial

theorem opNop_inv (m : M) (w : WF m) : R.inv WF (opNop m) := w

theorem callPush_nd (m : M) (n : Nat) : R.inv (fun _ => True) (callPush m n) := by
  unfold callPush
  split
  · refine inv_bind (seek_nd _) fun _ _ => ?_
    refine inv_bind (seek_nd _) fun _ _ => ?_
    exact pushContext_nd _ _
  · trivial

theorem jmpCond_inv (m : M) (n : Nat) (w : WF m) : R.inv (fun p => okL m.heap.length p.2) (jmpCond m n) := by
  unfold jmpCond
  split
  · refine inv_bind (popAsBool_inv w.eval) ?_
    intro ⟨v, d⟩ hd
    exact hd
  · exact w.eval

theorem seekIf_nd (b : Bool) (o : Int) (p : Nat) : R.inv (fun _ => True) (seekIf b o p) := by
  unfold seekIf
  split
  · exact seek_nd _
  · trivial

theorem opJmp_inv (m : M) (n : Nat) (w : WF m) : R.inv WF (opJmp m n) := by
  unfold opJmp
  refine inv_bind (callPush_nd _ _) fun callers _ => ?_
  refine inv_bind (readUintN_nd _ _ _) ?_
  intro ⟨num, pos⟩ _
  dsimp only
  split
  · trivial
  · refine inv_bind (jmpCond_inv m n w) ?_
    intro ⟨nj, eval⟩ he
    refine inv_bind (seekIf_nd _ _ _) fun pos _ => ?_
    exact ⟨he, w.alt, w.heap⟩

theorem opDcall_inv (m : M) (w : WF m) : R.inv WF (opDcall m) := by
  unfold opDcall
  refine inv_bind (seek_nd _) fun _ _ => ?_
  refine inv_bind (pushContext_nd _ _) fun _ _ => ?_
  refine inv_bind (popAsInt64_inv w.eval) ?_
  intro ⟨t, eval⟩ he
  dsimp only
  split
  · trivial
  · refine inv_bind (seek_nd _) fun _ _ => ?_
    exact ⟨he, w.alt, w.heap⟩

theorem opRet_inv (m : M) (w : WF m) : R.inv WF (opRet m) := by
  unfold opRet
  refine inv_bind (popContext_nd _) ?_
  intro ⟨c, rest⟩ _
  dsimp only
  split
  · exact ⟨w.eval, w.alt, w.heap⟩
  · exact ⟨w.eval, w.alt, w.heap⟩

theorem opDupFromAlt_inv (m : M) (w : WF m) : R.inv WF (opDupFromAlt m) := by
  unfold opDupFromAlt
  refine inv_bind (vsPeek_inv w.alt _) fun v hv => ?_
  exact pushE_inv m w.alt w.heap w.eval hv

theorem opToAlt_inv (m : M) (w : WF m) : R.inv WF (opToAlt m) := by
  unfold opToAlt
  refine inv_bind (vsPop_inv w.eval) ?_
  intro ⟨v, eval⟩ ⟨hv, he⟩
  refine inv_bind (vsPush_inv w.alt hv) fun alt ha => ?_
  exact ⟨he, ha, w.heap⟩

theorem opFromAlt_inv (m : M) (w : WF m) : R.inv WF (opFromAlt m) := by
  unfold opFromAlt
  refine inv_bind (vsPop_inv w.alt) ?_
  intro ⟨v, alt⟩ ⟨hv, ha⟩
  exact pushE_inv { m with alt := alt } ha w.heap w.eval hv

theorem opXdrop_inv (m : M) (w : WF m) : R.inv WF (opXdrop m) := by
  unfold opXdrop
  refine inv_bind (popAsInt64_inv w.eval) ?_
  intro ⟨n, d⟩ hd
  refine inv_bind (vsRemove_inv hd _) ?_
  intro ⟨_, d⟩ ⟨_, hd⟩
  exact ⟨hd, w.alt, w.heap⟩

theorem opXswap_inv (m : M) (w : WF m) : R.inv WF (opXswap m) := by
  unfold opXswap
  refine inv_bind (popAsInt64_inv w.eval) ?_
  intro ⟨n, d⟩ hd
  refine inv_bind (vsSwap_inv hd _ _) fun d hd => ?_
  exact ⟨hd, w.alt, w.heap⟩

theorem opXtuck_inv (m : M) (w : WF m) : R.inv WF (opXtuck m) := by
  unfold opXtuck
  refine inv_bind (popAsInt64_inv w.eval) ?_
  intro ⟨n, d⟩ hd
  refine inv_bind (vsPeek_inv hd _) fun v hv => ?_
  refine inv_bind (vsInsert_inv hd _ hv) fun d hd => ?_
  exact ⟨hd, w.alt, w.heap⟩

theorem opDepth_inv (m : M) (w : WF m) : R.inv WF (opDepth m) := by
  unfold opDepth; exact pushE_inv m w.alt w.heap w.eval trivial

theorem opDrop_inv (m : M) (w : WF m) : R.inv WF (opDrop m) := by
  unfold opDrop
  refine inv_bind (vsPop_inv w.eval) ?_
  intro ⟨_, d⟩ ⟨_, hd⟩
  exact ⟨hd, w.alt, w.heap⟩

theorem opDup_inv (m : M) (w : WF m) : R.inv WF (opDup m) := by
  unfold opDup
  refine inv_bind (vsPeek_inv w.eval _) fun v hv => ?_
  exact pushE_inv m w.alt w.heap w.eval hv

theorem opNip_inv (m : M) (w : WF m) : R.inv WF (opNip m) := by
  unfold opNip
  refine inv_bind (vsPop_inv w.eval) ?_
  intro ⟨r, d⟩ ⟨hr, hd⟩
  refine inv_bind (vsPop_inv hd) ?_
  intro ⟨_, d⟩ ⟨_, hd⟩
  exact pushE_inv m w.alt w.heap hd hr

theorem opOver_inv (m : M) (w : WF m) : R.inv WF (opOver m) := by
  unfold opOver
  refine inv_bind (vsPeek_inv w.eval _) fun v hv => ?_
  exact pushE_inv m w.alt w.heap w.eval hv

theorem opPick_inv (m : M) (w : WF m) : R.inv WF (opPick m) := by
  unfold opPick
  refine inv_bind (popAsInt64_inv w.eval) ?_
  intro ⟨n, d⟩ hd
  refine inv_bind (vsPeek_inv hd _) fun v hv => ?_
  exact pushE_inv m w.alt w.heap hd hv

theorem rollN_inv (m : M) (n : Nat) (w : WF m) : R.inv (fun p => okL m.heap.length p.2) (rollN m n) := by
  unfold rollN
  split
  · exact w.eval
  · exact popAsInt64_inv w.eval

theorem opRoll_inv (m : M) (n : Nat) (w : WF m) : R.inv WF (opRoll m n) := by
  unfold opRoll
  refine inv_bind (rollN_inv m n w) ?_
  intro ⟨k, d⟩ hd
  refine inv_bind (vsRemove_inv hd _) ?_
  intro ⟨v, d⟩ ⟨hv, hd⟩
  exact pushE_inv m w.alt w.heap hd hv

theorem opSwap_inv (m : M) (w : WF m) : R.inv WF (opSwap m) := by
  unfold opSwap
  refine inv_bind (vsSwap_inv w.eval _ _) fun d hd => ?_
  exact ⟨hd, w.alt, w.heap⟩

theorem opTuck_inv (m : M) (w : WF m) : R.inv WF (opTuck m) := by
  unfold opTuck
  refine inv_bind (vsPop_inv w.eval) ?_
  intro ⟨x2, d⟩ ⟨h2, hd⟩
  refine inv_bind (vsPop_inv hd) ?_
  intro ⟨x1, d⟩ ⟨h1, hd⟩
  refine inv_bind (vsPushMany_inv hd (vs := [x2, x1, x2]) ?_) fun d hd => ?_
  · intro x hx
    simp only [List.mem_cons, List.not_mem_nil, or_false] at hx
    rcases hx with e | e | e <;> (subst e; assumption)
  · exact ⟨hd, w.alt, w.heap⟩

theorem opCat_inv (m : M) (w : WF m) : R.inv WF (opCat m) := by
  unfold opCat
  refine inv_bind (popAsBytes_inv w.eval) ?_
  intro ⟨r, d⟩ hd
  refine inv_bind (popAsBytes_inv hd) ?_
  intro ⟨l, d⟩ hd
  refine inv_bind (pushBytes_inv hd _) fun d hd => ?_
  exact ⟨hd, w.alt, w.heap⟩

theorem opSubstr_inv (m : M) (w : WF m) : R.inv WF (opSubstr m) := by
  unfold opSubstr
  refine inv_bind (popAsInt64_inv w.eval) ?_
  intro ⟨c, d⟩ hd
  refine inv_bind (popAsInt64_inv hd) ?_
  intro ⟨s, d⟩ hd
  refine inv_bind (popAsBytes_inv hd) ?_
  intro ⟨arr, d⟩ hd
  dsimp only
  split
  · trivial
  · split
    · trivial
    · split
      · trivial
      · refine inv_bind (goSlice_nd _ _ _) fun b _ => ?_
        refine inv_bind (pushBytes_inv hd _) fun d hd => ?_
        exact ⟨hd, w.alt, w.heap⟩

theorem opLeft_inv (m : M) (w : WF m) : R.inv WF (opLeft m) := by
  unfold opLeft
  refine inv_bind (popAsInt64_inv w.eval) ?_
  intro ⟨c, d⟩ hd
  refine inv_bind (popAsBytes_inv hd) ?_
  intro ⟨arr, d⟩ hd
  dsimp only
  split
  · trivial
  · refine inv_bind (goSlice_nd _ _ _) fun b _ => ?_
    refine inv_bind (pushBytes_inv hd _) fun d hd => ?_
    exact ⟨hd, w.alt, w.heap⟩

theorem opRight_inv (m : M) (w : WF m) : R.inv WF (opRight m) := by
  unfold opRight
  refine inv_bind (popAsInt64_inv w.eval) ?_
  intro ⟨c, d⟩ hd
  refine inv_bind (popAsBytes_inv hd) ?_
  intro ⟨arr, d⟩ hd
  dsimp only
  split
  · trivial
  · refine inv_bind (goSlice_nd _ _ _) fun b _ => ?_
    refine inv_bind (pushBytes_inv hd _) fun d hd => ?_
    exact ⟨hd, w.alt, w.heap⟩

theorem opSize_inv (m : M) (w : WF m) : R.inv WF (opSize m) := by
  unfold opSize
  refine inv_bind (popAsBytes_inv w.eval) ?_
  intro ⟨arr, d⟩ hd
  exact pushE_inv m w.alt w.heap hd trivial



theorem mem_mapSet' {e y : Entry} : ∀ {l : List Entry}, y ∈ mapSet e l → y = e ∨ y ∈ l
  | [], h => by
    unfold mapSet at h
    rw [List.mem_singleton] at h; exact .inl h
  | x :: xs, h => by
    unfold mapSet at h
    split at h
    · rcases List.mem_cons.mp h with h1 | h1
      · exact .inl h1
      · exact .inr (List.mem_cons_of_mem _ h1)
    · split at h
      · rcases List.mem_cons.mp h with h1 | h1
        · exact .inl h1
        · exact .inr h1
      · rcases List.mem_cons.mp h with h1 | h1
        · exact .inr (h1 ▸ List.mem_cons_self)
        · rcases mem_mapSet' h1 with h2 | h2
          · exact .inl h2
          · exact .inr (List.mem_cons_of_mem _ h2)

theorem mem_mapRemove {k : Bytes} {y : Entry} : ∀ {l : List Entry}, y ∈ mapRemove k l → y ∈ l
  | [], h => by unfold mapRemove at h; exact h
  | x :: xs, h => by
    unfold mapRemove at h
    split at h
    · exact List.mem_cons_of_mem _ h
    · rcases List.mem_cons.mp h with h1 | h1
      · exact h1 ▸ List.mem_cons_self
      · exact List.mem_cons_of_mem _ (mem_mapRemove h1)

theorem mem_mapGet {k : Bytes} {e : Entry} : ∀ {l : List Entry}, mapGet k l = some e → e ∈ l
  | [], h => by unfold mapGet at h; cases h
  | x :: xs, h => by
    unfold mapGet at h
    split at h
    · injection h with h; exact h ▸ List.mem_cons_self
    · exact List.mem_cons_of_mem _ (mem_mapGet h)

theorem okV_prim_of_asBytes {n : Nat} {v : Val} {b : Bytes} (h : asBytes v = some b) : okV n v := by
  cases v with
  | ref r => cases h
  | _ => trivial

/-! ### `reflect.DeepEqual` model never leaves a closed heap -/

def DQ.nd : DQ → Prop
  | .dangling => False
  | _ => True

theorem deepList_nd (rec : List (Ref × Ref) → Val → Val → DQ) {n : Nat} :
    ∀ (xs ys : List Val) (vis : List (Ref × Ref)), okL n xs → okL n ys →
      (∀ vis a b, okV n a → okV n b → DQ.nd (rec vis a b)) → DQ.nd (deepList rec vis xs ys) := by
  intro xs
  induction xs with
  | nil =>
    intro ys vis _ _ _
    cases ys <;> (unfold deepList; trivial)
  | cons a as ih =>
    intro ys vis hx hy hrec
    cases ys with
    | nil => unfold deepList; trivial
    | cons b bs =>
      unfold deepList
      have h1 := hrec vis a b (hx a List.mem_cons_self) (hy b List.mem_cons_self)
      cases hr : rec vis a b with
      | res r vis' =>
        cases r with
        | true => exact ih bs vis' (fun v hv => hx v (List.mem_cons_of_mem _ hv)) (fun v hv => hy v (List.mem_cons_of_mem _ hv)) hrec
        | false => trivial
      | overflow => trivial
      | dangling => rw [hr] at h1; exact h1

theorem mapPairs_ok {n : Nat} : ∀ (xs ys : List Entry) (l r : List Val),
    (∀ e ∈ xs, okV n e.kv ∧ okV n e.val) → (∀ e ∈ ys, okV n e.kv ∧ okV n e.val) → mapPairs xs ys = some (l, r) → okL n l ∧ okL n r := by
  intro xs
  induction xs with
  | nil =>
    intro ys l r _ _ e
    unfold mapPairs at e
    injection e with e; injection e with e1 e2
    subst e1; subst e2
    exact ⟨okL_nil _, okL_nil _⟩
  | cons x xs ih =>
    intro ys l r hx hy e
    unfold mapPairs at e
    split at e
    · rename_i e' l' r' hget hrec
      injection e with e; injection e with e1 e2
      subst e1; subst e2
      obtain ⟨a, b⟩ := ih ys l' r' (fun e he => hx e (List.mem_cons_of_mem _ he)) hy hrec
      have hx0 := hx x List.mem_cons_self
      have hy0 := hy e' (mem_mapGet hget)
      refine ⟨?_, ?_⟩
      · intro v hv
        simp only [List.mem_cons] at hv
        rcases hv with h | h | h
        · subst h; exact hx0.1
        · subst h; exact hx0.2
        · exact a v h
      · intro v hv
        simp only [List.mem_cons] at hv
        rcases hv with h | h | h
        · subst h; exact hy0.1
        · subst h; exact hy0.2
        · exact b v h
    · cases e

theorem deepVal_nd {h : Heap} (w : okH h) : ∀ (f : Nat) (vis : List (Ref × Ref)) (a b : Val),
    okV h.length a → okV h.length b → DQ.nd (deepVal h f vis a b) := by
  intro f
  induction f with
  | zero =>
    intro vis a b _ _
    cases a <;> cases b <;> (unfold deepVal; trivial)
  | succ f ih =>
    intro vis a b ha hb
    cases a <;> cases b <;> try (unfold deepVal; trivial)
    rename_i ra rb
    unfold deepVal
    obtain ⟨oa, hoa⟩ := okV_get ha
    obtain ⟨ob, hob⟩ := okV_get hb
    rw [hoa, hob]
    have ka := okH_get w hoa
    have kb := okH_get w hob
    cases oa <;> cases ob <;> simp only <;> try trivial
    · split
      · trivial
      · split
        · trivial
        · split
          · trivial
          · exact deepList_nd _ _ _ _ ka kb (fun vis a b x y => ih vis a b x y)
    · split
      · trivial
      · split
        · trivial
        · split
          · trivial
          · exact deepList_nd _ _ _ _ ka kb (fun vis a b x y => ih vis a b x y)
    · split
      · trivial
      · split
        · trivial
        · split
          · trivial
          · split
            · trivial
            · rename_i l r hmp
              obtain ⟨hl, hr⟩ := mapPairs_ok _ _ _ _ ka kb hmp
              exact deepList_nd _ _ _ _ hl hr (fun vis a b x y => ih vis a b x y)

theorem opEqual_inv (m : M) (w : WF m) : R.inv WF (opEqual m) := by
  unfold opEqual
  refine inv_bind (vsPop_inv w.eval) ?_
  intro ⟨right, d⟩ ⟨hr, hd⟩
  refine inv_bind (vsPop_inv hd) ?_
  intro ⟨left, d⟩ ⟨hl, hd⟩
  dsimp only
  have hp : ∀ b, R.inv WF (pushE m d (.bool b)) := fun b => pushE_inv m w.alt w.heap hd trivial
  split
  · exact hp _
  · split
    · obtain ⟨oa, hoa⟩ := okV_get hl
      obtain ⟨ob, hob⟩ := okV_get hr
      have hdq := deepVal_nd w.heap DEEPEQ_LEVELS [] _ _ hl hr
      dsimp only at hdq
      rw [hoa, hob]
      cases oa <;> cases ob <;> simp only <;> first | exact hp _ | trivial | skip
      generalize deepVal m.heap DEEPEQ_LEVELS [] _ _ = q at hdq ⊢
      cases q with
      | res r vis => exact hp _
      | overflow => trivial
      | dangling => exact hdq.elim
    · rename_i a _ _
      obtain ⟨oa, hoa⟩ := okV_get hl
      rw [hoa]
      exact hp _
    · rename_i b _ _
      obtain ⟨ob, hob⟩ := okV_get hr
      rw [hob]
      exact hp _
    · exact hp _

theorem okV_ofNI (n : Nat) (v : OntVerif.Model.NeoInt.Val) : okV n (ofNI v) := by
  cases v <;> trivial

theorem niResult_inv (n : Nat) (r : Except OntVerif.Model.NeoInt.Fault OntVerif.Model.NeoInt.Val) : R.inv (okV n) (niResult r) := by
  unfold niResult
  split
  · exact okV_ofNI _ _
  · trivial

theorem opUnaryInt_inv (m : M) (n : Nat) (w : WF m) : R.inv WF (opUnaryInt m n) := by
  unfold opUnaryInt
  refine inv_bind (vsPop_inv w.eval) ?_
  intro ⟨x, d⟩ ⟨_, hd⟩
  refine inv_bind (ofOpt_inv _) fun a _ => ?_
  refine inv_bind (niResult_inv m.heap.length _) fun v hv => ?_
  exact pushE_inv m w.alt w.heap hd hv

theorem opBinaryInt_inv (m : M) (n : Nat) (w : WF m) : R.inv WF (opBinaryInt m n) := by
  unfold opBinaryInt
  refine inv_bind (vsPop_inv w.eval) ?_
  intro ⟨x, d⟩ ⟨_, hd⟩
  refine inv_bind (ofOpt_inv _) fun b _ => ?_
  refine inv_bind (vsPop_inv hd) ?_
  intro ⟨y, d⟩ ⟨_, hd⟩
  refine inv_bind (ofOpt_inv _) fun a _ => ?_
  refine inv_bind (niResult_inv m.heap.length _) fun v hv => ?_
  exact pushE_inv m w.alt w.heap hd hv

theorem opWithin_inv (m : M) (w : WF m) : R.inv WF (opWithin m) := by
  unfold opWithin
  refine inv_bind (vsPop_inv w.eval) ?_
  intro ⟨x, d⟩ ⟨_, hd⟩
  refine inv_bind (ofOpt_inv _) fun b _ => ?_
  refine inv_bind (vsPop_inv hd) ?_
  intro ⟨y, d⟩ ⟨_, hd⟩
  refine inv_bind (ofOpt_inv _) fun a _ => ?_
  refine inv_bind (vsPop_inv hd) ?_
  intro ⟨z, d⟩ ⟨_, hd⟩
  refine inv_bind (ofOpt_inv _) fun c _ => ?_
  refine inv_bind (niResult_inv m.heap.length _) fun v hv => ?_
  exact pushE_inv m w.alt w.heap hd hv

theorem opNot_inv (m : M) (w : WF m) : R.inv WF (opNot m) := by
  unfold opNot
  refine inv_bind (popAsBool_inv w.eval) ?_
  intro ⟨x, d⟩ hd
  exact pushE_inv m w.alt w.heap hd trivial

theorem opBoolBin_inv (m : M) (n : Nat) (w : WF m) : R.inv WF (opBoolBin m n) := by
  unfold opBoolBin
  refine inv_bind (popAsBool_inv w.eval) ?_
  intro ⟨x, d⟩ hd
  refine inv_bind (popAsBool_inv hd) ?_
  intro ⟨y, d⟩ hd
  exact pushE_inv m w.alt w.heap hd trivial

theorem opArraySize_inv (m : M) (w : WF m) : R.inv WF (opArraySize m) := by
  unfold opArraySize
  refine inv_bind (vsPop_inv w.eval) ?_
  intro ⟨val, d⟩ ⟨hv, hd⟩
  dsimp only
  split
  · obtain ⟨o, ho⟩ := okV_get hv
    rw [ho]
    cases o <;> first | exact pushE_inv m w.alt w.heap hd trivial | trivial
  · split
    · exact pushE_inv m w.alt w.heap hd trivial
    · trivial

theorem opPack_inv (m : M) (w : WF m) : R.inv WF (opPack m) := by
  unfold opPack
  refine inv_bind (popAsInt64_inv w.eval) ?_
  intro ⟨size, d⟩ hd
  dsimp only
  split
  · trivial
  · refine inv_bind (packLoop_inv _ hd (okL_nil _)) ?_
    intro ⟨d, items⟩ ⟨hd, hi⟩
    dsimp only
    have hlen : (m.heap ++ [Obj.arr items]).length = m.heap.length + 1 := by simp
    refine pushE_inv { m with heap := m.heap ++ [.arr items] } ?_ ?_ ?_ ?_
    · show okL (m.heap ++ [Obj.arr items]).length m.alt
      rw [hlen]; exact okL_mono (by omega) w.alt
    · exact okH_append w.heap (okL_mono (by omega) hi)
    · show okL (m.heap ++ [Obj.arr items]).length d
      rw [hlen]; exact okL_mono (by omega) hd
    · show m.heap.length < (m.heap ++ [Obj.arr items]).length
      omega

theorem opUnpack_inv (m : M) (w : WF m) : R.inv WF (opUnpack m) := by
  unfold opUnpack
  refine inv_bind (vsPop_inv w.eval) ?_
  intro ⟨v, d⟩ ⟨hv, hd⟩
  dsimp only
  split
  · obtain ⟨o, ho⟩ := okV_get hv
    rw [ho]
    cases o with
    | arr data =>
      simp only
      refine inv_bind (unpackLoop_inv (okH_get w.heap ho) _ hd) fun d hd => ?_
      exact pushE_inv m w.alt w.heap hd trivial
    | struct _ => trivial
    | map _ => trivial
  · trivial

theorem opPickItem_inv (m : M) (w : WF m) : R.inv WF (opPickItem m) := by
  unfold opPickItem
  refine inv_bind (vsPop_inv w.eval) ?_
  intro ⟨index, d⟩ ⟨_, hd⟩
  refine inv_bind (vsPop_inv hd) ?_
  intro ⟨item, d⟩ ⟨hitem, hd⟩
  dsimp only
  split
  · obtain ⟨o, ho⟩ := okV_get hitem
    rw [ho]
    have hobj := okH_get w.heap ho
    cases o with
    | arr data =>
      simp only
      refine inv_bind (checkedIndex_nd _ _) fun _ _ => ?_
      refine inv_bind (goIdx_inv hobj _) fun v hv => ?_
      exact pushE_inv m w.alt w.heap hd hv
    | struct data =>
      simp only
      refine inv_bind (checkedIndex_nd _ _) fun _ _ => ?_
      refine inv_bind (goIdx_inv hobj _) fun v hv => ?_
      exact pushE_inv m w.alt w.heap hd hv
    | map es =>
      simp only
      refine inv_bind (ofOpt_inv _) fun kb _ => ?_
      split
      · rename_i e he
        exact pushE_inv m w.alt w.heap hd (hobj e (mem_mapGet he)).2
      · trivial
  · refine inv_bind (ofOpt_inv _) fun buf _ => ?_
    refine inv_bind (checkedIndex_nd _ _) fun _ _ => ?_
    refine inv_bind (goIdx_nd _ _) fun b _ => ?_
    exact pushE_inv m w.alt w.heap hd trivial

theorem opSetItem_inv (m : M) (w : WF m) : R.inv WF (opSetItem m) := by
  unfold opSetItem
  refine inv_bind (vsPop_inv w.eval) ?_
  intro ⟨val, d⟩ ⟨hval, hd⟩
  refine inv_bind (vsPop_inv hd) ?_
  intro ⟨index, d⟩ ⟨_, hd⟩
  refine inv_bind (vsPop_inv hd) ?_
  intro ⟨item, d⟩ ⟨hitem, hd⟩
  refine inv_bind (cloneIfStruct_inv w.heap hval) ?_
  intro ⟨val, h⟩ ⟨wh, hle, hval⟩
  dsimp only at wh hle hval ⊢
  have hd' : okL h.length d := okL_mono hle hd
  have ha' : okL h.length m.alt := okL_mono hle w.alt
  split
  · rename_i r
    obtain ⟨o, ho⟩ := okV_get (okV_mono hle hitem)
    rw [ho]
    have hobj := okH_get wh ho
    cases o with
    | arr data =>
      simp only
      refine inv_bind (checkedIndex_nd _ _) fun _ _ => ?_
      refine inv_bind (goSet_inv hobj _ hval) fun data hdata => ?_
      exact ⟨by simpa using hd', by simpa using ha', okH_set wh r hdata⟩
    | struct data =>
      simp only
      refine inv_bind (checkedIndex_nd _ _) fun _ _ => ?_
      refine inv_bind (goSet_inv hobj _ hval) fun data hdata => ?_
      exact ⟨by simpa using hd', by simpa using ha', okH_set wh r hdata⟩
    | map es =>
      simp only
      refine inv_bind (P := fun kb => asBytes index = some kb) ?_ ?_
      · cases hab : asBytes index with
        | none => trivial
        | some kb => exact rfl
      · intro kb hkb
        refine ⟨by simpa using hd', by simpa using ha', okH_set wh r ?_⟩
        intro e he
        rcases mem_mapSet' he with h1 | h1
        · subst h1; exact ⟨okV_prim_of_asBytes hkb, hval⟩
        · exact hobj e h1
  · trivial

theorem opNewArray_inv (m : M) (n : Nat) (w : WF m) : R.inv WF (opNewArray m n) := by
  unfold opNewArray
  refine inv_bind (popAsInt64_inv w.eval) ?_
  intro ⟨count, d⟩ hd
  dsimp only
  split
  · trivial
  · refine inv_bind (P := fun items => okL (m.heap.length + 1) items) ?_ ?_
    · unfold goMake
      split
      · exact okL_replicate (v := Val.bool false) trivial _
      · trivial
    · intro items hi
      have key : ∀ o : Obj, okObj (m.heap.length + 1) o → R.inv WF (pushE { m with heap := m.heap ++ [o] } d (.ref m.heap.length)) := by
        intro o ho
        have hlen : (m.heap ++ [o]).length = m.heap.length + 1 := by simp
        refine pushE_inv { m with heap := m.heap ++ [o] } ?_ ?_ ?_ ?_
        · show okL (m.heap ++ [o]).length m.alt
          rw [hlen]; exact okL_mono (by omega) w.alt
        · exact okH_append w.heap ho
        · show okL (m.heap ++ [o]).length d
          rw [hlen]; exact okL_mono (by omega) hd
        · show m.heap.length < (m.heap ++ [o]).length
          omega
      split
      · exact key _ hi
      · exact key _ hi

theorem newObj_inv (m : M) (w : WF m) {d : Stack} (hd : okL m.heap.length d) (o : Obj) (ho : okObj (m.heap.length + 1) o) :
    R.inv WF (pushE { m with heap := m.heap ++ [o] } d (.ref m.heap.length)) := by
  have hlen : (m.heap ++ [o]).length = m.heap.length + 1 := by simp
  refine pushE_inv { m with heap := m.heap ++ [o] } ?_ ?_ ?_ ?_
  · show okL (m.heap ++ [o]).length m.alt
    rw [hlen]; exact okL_mono (by omega) w.alt
  · exact okH_append w.heap ho
  · show okL (m.heap ++ [o]).length d
    rw [hlen]; exact okL_mono (by omega) hd
  · show m.heap.length < (m.heap ++ [o]).length
    omega

theorem opNewMap_inv (m : M) (w : WF m) : R.inv WF (opNewMap m) := by
  unfold opNewMap
  exact newObj_inv m w w.eval (.map []) (fun e he => by cases he)

theorem opAppend_inv (m : M) (w : WF m) : R.inv WF (opAppend m) := by
  unfold opAppend
  refine inv_bind (vsPop_inv w.eval) ?_
  intro ⟨item, d⟩ ⟨hitem, hd⟩
  refine inv_bind (cloneIfStruct_inv w.heap hitem) ?_
  intro ⟨item, h⟩ ⟨wh, hle, hitem⟩
  dsimp only at wh hle hitem ⊢
  have ha' : okL h.length m.alt := okL_mono hle w.alt
  have hpi := vsPop_inv hd
  cases hp : vsPop d with
  | ok p =>
    obtain ⟨val, d2⟩ := p
    rw [hp] at hpi
    have hval : okV h.length val := okV_mono hle hpi.1
    have hd2 : okL h.length d2 := okL_mono hle hpi.2
    dsimp only
    cases val with
    | ref r =>
      obtain ⟨o, ho⟩ := okV_get hval
      dsimp only
      rw [ho]
      have hobj := okH_get wh ho
      cases o with
      | arr data =>
        dsimp only
        split
        · trivial
        · exact ⟨by simpa using hd2, by simpa using ha', okH_set wh r (okL_append hobj (okL_single hitem))⟩
      | struct data =>
        dsimp only
        split
        · trivial
        · exact ⟨by simpa using hd2, by simpa using ha', okH_set wh r (okL_append hobj (okL_single hitem))⟩
      | map es => trivial
    | _ => trivial
  | _ => trivial

theorem opReverse_inv (m : M) (w : WF m) : R.inv WF (opReverse m) := by
  unfold opReverse
  refine inv_bind (vsPop_inv w.eval) ?_
  intro ⟨item, d⟩ ⟨hitem, hd⟩
  dsimp only
  split
  · rename_i r
    obtain ⟨o, ho⟩ := okV_get hitem
    rw [ho]
    have hobj := okH_get w.heap ho
    cases o with
    | arr data =>
      simp only
      refine inv_bind (revLoop_inv _ _ _ hobj) fun data hdata => ?_
      exact ⟨by simpa using hd, by simpa using w.alt, okH_set w.heap r hdata⟩
    | struct data =>
      simp only
      refine inv_bind (revLoop_inv _ _ _ hobj) fun data hdata => ?_
      exact ⟨by simpa using hd, by simpa using w.alt, okH_set w.heap r hdata⟩
    | map es => trivial
  · trivial

theorem opRemove_inv (m : M) (w : WF m) : R.inv WF (opRemove m) := by
  unfold opRemove
  refine inv_bind (vsPop_inv w.eval) ?_
  intro ⟨index, d⟩ ⟨_, hd⟩
  refine inv_bind (vsPop_inv hd) ?_
  intro ⟨item, d⟩ ⟨hitem, hd⟩
  dsimp only
  split
  · rename_i r
    obtain ⟨o, ho⟩ := okV_get hitem
    rw [ho]
    have hobj := okH_get w.heap ho
    cases o with
    | map es =>
      simp only
      refine inv_bind (ofOpt_inv _) fun kb _ => ?_
      exact ⟨by simpa using hd, by simpa using w.alt, okH_set w.heap r (fun e he => hobj e (mem_mapRemove he))⟩
    | arr data =>
      simp only
      refine inv_bind (ofOpt_inv _) fun i _ => ?_
      refine inv_bind (removeAt_inv hobj _) fun data hdata => ?_
      exact ⟨by simpa using hd, by simpa using w.alt, okH_set w.heap r hdata⟩
    | struct data => trivial
  · trivial

theorem opHasKey_inv (m : M) (w : WF m) : R.inv WF (opHasKey m) := by
  unfold opHasKey
  refine inv_bind (vsPop_inv w.eval) ?_
  intro ⟨key, d⟩ ⟨_, hd⟩
  refine inv_bind (vsPop_inv hd) ?_
  intro ⟨item, d⟩ ⟨hitem, hd⟩
  dsimp only
  split
  · obtain ⟨o, ho⟩ := okV_get hitem
    rw [ho]
    cases o with
    | map es =>
      simp only
      refine inv_bind (ofOpt_inv _) fun kb _ => ?_
      exact pushE_inv m w.alt w.heap hd trivial
    | arr _ => trivial
    | struct _ => trivial
  · trivial

theorem opKeysValues_inv (m : M) (n : Nat) (w : WF m) : R.inv WF (opKeysValues m n) := by
  unfold opKeysValues
  refine inv_bind (vsPop_inv w.eval) ?_
  intro ⟨item, d⟩ ⟨hitem, hd⟩
  dsimp only
  split
  · obtain ⟨o, ho⟩ := okV_get hitem
    rw [ho]
    have hobj := okH_get w.heap ho
    cases o with
    | map es =>
      simp only
      split
      · split
        · trivial
        · refine newObj_inv m w hd _ ?_
          intro v hv
          obtain ⟨e, he, rfl⟩ := List.mem_map.mp hv
          exact okV_mono (by omega) (hobj e he).1
      · split
        · trivial
        · refine newObj_inv m w hd _ ?_
          intro v hv
          obtain ⟨e, he, rfl⟩ := List.mem_map.mp hv
          exact okV_mono (by omega) (hobj e he).2
    | arr _ => trivial
    | struct _ => trivial
  · trivial

theorem opThrowIfNot_inv (m : M) (w : WF m) : R.inv WF (opThrowIfNot m) := by
  unfold opThrowIfNot
  refine inv_bind (popAsBool_inv w.eval) ?_
  intro ⟨v, d⟩ hd
  dsimp only
  split
  · trivial
  · exact ⟨hd, w.alt, w.heap⟩



/-! ### SYSCALL: Serialize / Deserialize / Notify on a closed machine -/

open OntVerif.Model.NeoProg in
theorem allocList_wf (rec : Tree → Heap → Val × Heap)
    (hrec : ∀ t h, okH h → okH (rec t h).2 ∧ h.length ≤ (rec t h).2.length ∧ okV (rec t h).2.length (rec t h).1) :
    ∀ (ts : List Tree) (h : Heap), okH h →
      okH (allocList rec ts h).2 ∧ h.length ≤ (allocList rec ts h).2.length ∧ okL (allocList rec ts h).2.length (allocList rec ts h).1 := by
  intro ts
  induction ts with
  | nil => intro h w; unfold allocList; exact ⟨w, Nat.le_refl _, okL_nil _⟩
  | cons t ts ih =>
    intro h w
    unfold allocList
    obtain ⟨a1, b1, c1⟩ := hrec t h w
    generalize rec t h = p at a1 b1 c1
    obtain ⟨v, h1⟩ := p
    dsimp only at a1 b1 c1 ⊢
    obtain ⟨a2, b2, c2⟩ := ih h1 a1
    generalize allocList rec ts h1 = q at a2 b2 c2
    obtain ⟨vs, h2⟩ := q
    dsimp only at a2 b2 c2 ⊢
    refine ⟨a2, by omega, ?_⟩
    intro x hx
    rcases List.mem_cons.mp hx with e | e
    · subst e; exact okV_mono b2 c1
    · exact c2 x e

theorem foldl_mapSet_mem {α : Type} (f : α → Entry) : ∀ (l : List α) (acc : List Entry) (y : Entry),
    y ∈ l.foldl (fun acc a => mapSet (f a) acc) acc → y ∈ acc ∨ ∃ a ∈ l, y = f a := by
  intro l
  induction l with
  | nil => intro acc y h; exact .inl h
  | cons a l ih =>
    intro acc y h
    simp only [List.foldl_cons] at h
    rcases ih _ _ h with h1 | ⟨b, hb, e⟩
    · rcases mem_mapSet' h1 with h2 | h2
      · exact .inr ⟨a, List.mem_cons_self, h2⟩
      · exact .inl h2
    · exact .inr ⟨b, List.mem_cons_of_mem _ hb, e⟩

open OntVerif.Model.NeoProg in
theorem alloc_wf : ∀ (f : Nat) (t : Tree) (h : Heap), okH h →
    okH (alloc f t h).2 ∧ h.length ≤ (alloc f t h).2.length ∧ okV (alloc f t h).2.length (alloc f t h).1 := by
  intro f
  induction f with
  | zero =>
    intro t h w
    cases t <;> (unfold alloc; exact ⟨w, Nat.le_refl _, trivial⟩)
  | succ f ih =>
    intro t h w
    cases t with
    | bytes b => unfold alloc; exact ⟨w, Nat.le_refl _, trivial⟩
    | bool b => unfold alloc; exact ⟨w, Nat.le_refl _, trivial⟩
    | int z => unfold alloc; exact ⟨w, Nat.le_refl _, trivial⟩
    | arr ts =>
      unfold alloc
      obtain ⟨a, b, c⟩ := allocList_wf (alloc f) ih ts h w
      generalize allocList (alloc f) ts h = q at a b c
      obtain ⟨vs, h1⟩ := q
      dsimp only at a b c ⊢
      refine ⟨okH_append a (okL_mono (by omega) c), ?_, ?_⟩
      · simp only [List.length_append, List.length_cons, List.length_nil]; omega
      · show h1.length < (h1 ++ [Obj.arr vs]).length
        simp only [List.length_append, List.length_cons, List.length_nil]; omega
    | struct ts =>
      unfold alloc
      obtain ⟨a, b, c⟩ := allocList_wf (alloc f) ih ts h w
      generalize allocList (alloc f) ts h = q at a b c
      obtain ⟨vs, h1⟩ := q
      dsimp only at a b c ⊢
      refine ⟨okH_append a (okL_mono (by omega) c), ?_, ?_⟩
      · simp only [List.length_append, List.length_cons, List.length_nil]; omega
      · show h1.length < (h1 ++ [Obj.struct vs]).length
        simp only [List.length_append, List.length_cons, List.length_nil]; omega
    | map es =>
      unfold alloc
      obtain ⟨a1, b1, c1⟩ := allocList_wf (alloc f) ih (es.map fun e => e.2.1) h w
      generalize allocList (alloc f) (es.map fun e => e.2.1) h = q at a1 b1 c1
      obtain ⟨ks, h1⟩ := q
      dsimp only at a1 b1 c1 ⊢
      obtain ⟨a2, b2, c2⟩ := allocList_wf (alloc f) ih (es.map fun e => e.2.2) h1 a1
      generalize allocList (alloc f) (es.map fun e => e.2.2) h1 = q2 at a2 b2 c2
      obtain ⟨vs, h2⟩ := q2
      dsimp only at a2 b2 c2 ⊢
      refine ⟨okH_append a2 ?_, ?_, ?_⟩
      · intro y hy
        rcases foldl_mapSet_mem (fun (x : (Bytes × Tree × Tree) × Val × Val) => (⟨x.1.1, x.2.1, x.2.2⟩ : Entry)) _ _ y hy with h0 | ⟨x, hx, e⟩
        · cases h0
        · subst e
          have hz := (List.of_mem_zip hx).2
          have hk := (List.of_mem_zip hz).1
          have hv := (List.of_mem_zip hz).2
          exact ⟨okV_mono (by omega) (c1 _ hk), okV_mono (by omega) (c2 _ hv)⟩
      · simp only [List.length_append, List.length_cons, List.length_nil]; omega
      · show h2.length < (h2 ++ [Obj.map _]).length
        simp only [List.length_append, List.length_cons, List.length_nil]; omega

theorem convElems_nd (rec : Val → Nat × Nat → R (Nat × Nat)) {n : Nat} :
    ∀ (vs : List Val) (cl : Nat × Nat), okL n vs → (∀ v cl, okV n v → R.inv (fun _ => True) (rec v cl)) →
      R.inv (fun _ => True) (convElems rec vs cl) := by
  intro vs
  induction vs with
  | nil => intro cl _ _; unfold convElems; trivial
  | cons v vs ih =>
    intro cl hvs hrec
    obtain ⟨c, l⟩ := cl
    unfold convElems
    refine inv_rbind (hrec v _ (hvs v List.mem_cons_self)) ?_
    intro cl' _
    exact ih cl' (fun x hx => hvs x (List.mem_cons_of_mem _ hx)) hrec

theorem convHex_nd {h : Heap} (w : okH h) : ∀ (f : Nat) (v : Val) (cl : Nat × Nat), okV h.length v →
    R.inv (fun _ => True) (convHex h f v cl) := by
  intro f
  induction f with
  | zero => intro v cl _; unfold convHex; trivial
  | succ f ih =>
    intro v cl hv
    obtain ⟨c, l⟩ := cl
    unfold convHex
    split
    · trivial
    · split
      · trivial
      · cases v with
        | ref r =>
          simp only
          obtain ⟨o, ho⟩ := okV_get hv
          rw [ho]
          have ko := okH_get w ho
          cases o with
          | arr vs => exact convElems_nd _ vs _ ko (fun v cl hv => ih v cl hv)
          | struct vs => exact convElems_nd _ vs _ ko (fun v cl hv => ih v cl hv)
          | map es => trivial
        | _ => trivial

/-- what `step` needs from its `Serialize` parameter on a closed heap -/
def SerClosed (serF : Heap → Val → Except VErr Bytes) : Prop :=
  ∀ h v, okH h → okV h.length v → serF h v ≠ .error .dangling

theorem serList_nd (rec : List Nat → Val → Nat → Except VErr Bytes) (vs : List Val)
    (hrec : ∀ v ∈ vs, ∀ p s, rec p v s ≠ .error .dangling) (path : List Nat) (i size : Nat) :
    serList rec path i vs size ≠ .error .dangling := by
  induction vs generalizing i size with
  | nil => unfold serList; nofun
  | cons v vs ih =>
    unfold serList
    have h1 := hrec v (List.mem_cons_self) (i :: path) size
    cases hr : rec (i :: path) v size with
    | error e =>
      simp only
      intro h; injection h with h; subst h; exact h1 hr
    | ok o =>
      simp only
      have h2 := ih (fun v hv => hrec v (List.mem_cons_of_mem _ hv)) (i + 1) (size + o.length)
      cases hs : serList rec path (i + 1) vs (size + o.length) with
      | error e =>
        simp only
        intro h; injection h with h; subst h; exact h2 hs
      | ok os => simp only; nofun

theorem chkSize_nd (size : Nat) (out : Bytes) : chkSize size out ≠ .error .dangling := by
  unfold chkSize; split <;> nofun

open OntVerif.Proofs.NeoVal in
/-- `VmValue.Serialize` of the model never meets a dangling reference on a closed heap (any detector variant, any valid iteration order) -/
theorem ser_nd (var : Variant) (perm : Perm) (hv : perm.valid) {h : Heap} (w : okH h) :
    ∀ (f : Nat) (path : List Nat) (v : Val) (size : Nat), okV h.length v → ser var perm h f path v size ≠ .error .dangling := by
  intro f
  induction f with
  | zero => intro path v size _; unfold ser; nofun
  | succ f ih =>
    intro path v size hok
    unfold ser
    split
    · nofun
    · cases v with
      | ref r =>
        simp only
        obtain ⟨o, ho⟩ := okV_get hok
        rw [ho]
        simp only
        have ko := okH_get w ho
        have hk : ∀ x ∈ serKids perm path r o, okV h.length x := by
          intro x hx
          cases o with
          | arr vs => exact ko x hx
          | struct vs => exact ko x hx
          | map es =>
            unfold serKids at hx
            obtain ⟨e, he, hxe⟩ := List.mem_flatMap.mp hx
            unfold sortedEntries at he
            have he2 : e ∈ es := ((hv path r es).mem_iff).mp (((sortE_perm _).mem_iff).mp he)
            simp only [List.mem_cons, List.not_mem_nil, or_false] at hxe
            rcases hxe with h1 | h1 <;> subst h1
            · exact (ko e he2).1
            · exact (ko e he2).2
        have := serList_nd (ser var perm h f) _ (fun x hx p s => ih p x s (hk x hx)) path 0
          (size + (tagOf o :: OntVerif.Model.Codec.writeVarUint (countOf o)).length)
        cases hs : serList (ser var perm h f) path 0 (serKids perm path r o)
            (size + (tagOf o :: OntVerif.Model.Codec.writeVarUint (countOf o)).length) with
        | error e => simp only; intro h'; injection h' with h'; subst h'; exact this hs
        | ok body => simp only; exact chkSize_nd _ _
      | bytes d => simp only; exact chkSize_nd _ _
      | bool b => simp only; exact chkSize_nd _ _
      | int z => simp only; exact chkSize_nd _ _

theorem serialize_closed (var : Variant) (perm : Perm) (hv : perm.valid) : SerClosed (serialize var perm) :=
  fun _ _ w hok => ser_nd var perm hv w _ _ _ _ hok

theorem sysSerialize_inv (serF : Heap → Val → Except VErr Bytes) (hs : SerClosed serF) (m : M) (w : WF m) :
    R.inv WF (sysSerialize serF m) := by
  unfold sysSerialize
  refine inv_bind (vsPop_inv w.eval) ?_
  intro ⟨val, d⟩ ⟨hv, hd⟩
  dsimp only
  split
  · trivial
  · have := hs m.heap val w.heap hv
    split
    · refine inv_bind (pushBytes_inv hd _) fun d hd => ?_
      exact ⟨hd, w.alt, w.heap⟩
    · trivial
    · rename_i he; exact absurd he this
    · trivial

theorem sysDeserialize_inv (m : M) (w : WF m) : R.inv WF (sysDeserialize m) := by
  unfold sysDeserialize
  refine inv_bind (popAsBytes_inv w.eval) ?_
  intro ⟨data, d⟩ hd
  dsimp only
  split
  · trivial
  · split
    · rename_i t _ _
      obtain ⟨a, b, c⟩ := alloc_wf (MAX_COUNT + 2) t m.heap w.heap
      generalize OntVerif.Model.NeoProg.alloc (MAX_COUNT + 2) t m.heap = q at a b c
      obtain ⟨v, h⟩ := q
      dsimp only at a b c ⊢
      exact pushE_inv { m with heap := h } (okL_mono b w.alt) a (okL_mono b hd) c
    · trivial
    · trivial
    · trivial

theorem sysNotify_inv (m : M) (w : WF m) : R.inv WF (sysNotify m) := by
  unfold sysNotify
  refine inv_bind (vsPop_inv w.eval) ?_
  intro ⟨item, d⟩ ⟨hi, hd⟩
  refine inv_bind (P := fun _ => True) ?_ ?_
  · unfold convertHexOk
    refine inv_rbind (convHex_nd w.heap _ _ _ hi) ?_
    intro _ _
    trivial
  · intro ok _
    split
    · exact ⟨hd, w.alt, w.heap⟩
    · trivial

theorem sysDispatch_inv (serF : Heap → Val → Except VErr Bytes) (hs : SerClosed serF) (m : M) (fb pos : Nat) (w : WF m) :
    R.inv WF (sysDispatch serF m fb pos) := by
  unfold sysDispatch
  split
  · trivial
  · refine inv_bind (readBytes_nd _ _ _ _) ?_
    intro ⟨name, pos'⟩ _
    dsimp only
    split
    · trivial
    · split
      · exact sysSerialize_inv serF hs _ ⟨w.eval, w.alt, w.heap⟩
      · split
        · exact sysDeserialize_inv _ ⟨w.eval, w.alt, w.heap⟩
        · split
          · exact sysNotify_inv _ ⟨w.eval, w.alt, w.heap⟩
          · trivial

theorem opSyscall_inv (serF : Heap → Val → Except VErr Bytes) (hs : SerClosed serF) (m : M) (w : WF m) :
    R.inv WF (opSyscall serF m) := by
  unfold opSyscall
  split <;> exact sysDispatch_inv serF hs _ _ _ w

theorem inv_ite {α : Type} {P : α → Prop} {c : Prop} [Decidable c] {a b : R α} (ha : R.inv P a) (hb : R.inv P b) :
    R.inv P (if c then a else b) := by
  split <;> assumption

/-- **the closed-heap invariant is preserved by every opcode, and on a closed machine no opcode finds a dangling reference** -/
theorem step_inv (serF : Heap → Val → Except VErr Bytes) (hs : SerClosed serF) (m : M) (opn : Nat) (w : WF m) : R.inv WF (step serF m opn) := by
  unfold step
  refine inv_ite trivial ?_
  refine inv_ite trivial ?_
  refine inv_ite trivial ?_
  refine inv_ite (opPushBytes_inv _ _ w) ?_
  refine inv_ite (opPush0_inv _ w) ?_
  refine inv_ite (opPushData_inv _ _ w) ?_
  refine inv_ite (opPushN_inv _ _ w) ?_
  refine inv_ite (opNop_inv _ w) ?_
  refine inv_ite (opJmp_inv _ _ w) ?_
  refine inv_ite (opDcall_inv _ w) ?_
  refine inv_ite (opRet_inv _ w) ?_
  refine inv_ite (opSyscall_inv serF hs _ w) ?_
  refine inv_ite (opDupFromAlt_inv _ w) ?_
  refine inv_ite (opToAlt_inv _ w) ?_
  refine inv_ite (opFromAlt_inv _ w) ?_
  refine inv_ite (opXdrop_inv _ w) ?_
  refine inv_ite (opXswap_inv _ w) ?_
  refine inv_ite (opXtuck_inv _ w) ?_
  refine inv_ite (opDepth_inv _ w) ?_
  refine inv_ite (opDrop_inv _ w) ?_
  refine inv_ite (opDup_inv _ w) ?_
  refine inv_ite (opNip_inv _ w) ?_
  refine inv_ite (opOver_inv _ w) ?_
  refine inv_ite (opPick_inv _ w) ?_
  refine inv_ite (opRoll_inv _ _ w) ?_
  refine inv_ite (opSwap_inv _ w) ?_
  refine inv_ite (opTuck_inv _ w) ?_
  refine inv_ite (opCat_inv _ w) ?_
  refine inv_ite (opSubstr_inv _ w) ?_
  refine inv_ite (opLeft_inv _ w) ?_
  refine inv_ite (opRight_inv _ w) ?_
  refine inv_ite (opSize_inv _ w) ?_
  refine inv_ite (opEqual_inv _ w) ?_
  refine inv_ite (opUnaryInt_inv _ _ w) ?_
  refine inv_ite (opNot_inv _ w) ?_
  refine inv_ite (opBoolBin_inv _ _ w) ?_
  refine inv_ite (opWithin_inv _ w) ?_
  refine inv_ite (opBinaryInt_inv _ _ w) ?_
  refine inv_ite (opArraySize_inv _ w) ?_
  refine inv_ite (opPack_inv _ w) ?_
  refine inv_ite (opUnpack_inv _ w) ?_
  refine inv_ite (opPickItem_inv _ w) ?_
  refine inv_ite (opSetItem_inv _ w) ?_
  refine inv_ite (opNewArray_inv _ _ w) ?_
  refine inv_ite (opNewMap_inv _ w) ?_
  refine inv_ite (opAppend_inv _ w) ?_
  refine inv_ite (opReverse_inv _ w) ?_
  refine inv_ite (opRemove_inv _ w) ?_
  refine inv_ite (opHasKey_inv _ w) ?_
  refine inv_ite (opKeysValues_inv _ _ w) ?_
  refine inv_ite trivial ?_
  refine inv_ite (opThrowIfNot_inv _ w) ?_
  exact trivial

theorem wf_init (code : Bytes) (a b : Bool) : WF { code := code, allowEOF := a, disableHasKey := b } :=
  ⟨okL_nil _, okL_nil _, fun _ h => by cases h⟩

/-- a run from a closed machine never meets a dangling reference, and halts in a closed machine -/
theorem run_inv (serF : Heap → Val → Except VErr Bytes) (hs : SerClosed serF) (n : Nat) (m : M) (w : WF m) :
    run serF n m ≠ .dangling ∧ ∀ m', run serF n m = .halt m' → WF m' := by
  induction n generalizing m with
  | zero =>
    unfold run
    split
    · exact ⟨nofun, fun m' e => by injection e with e; subst e; exact w⟩
    · split
      · exact ⟨nofun, fun m' e => by injection e with e; subst e; exact w⟩
      · split
        · split <;> exact ⟨nofun, nofun⟩
        · exact ⟨nofun, nofun⟩
  | succ n ih =>
    unfold run
    split
    · exact ⟨nofun, fun m' e => by injection e with e; subst e; exact w⟩
    · split
      · exact ⟨nofun, fun m' e => by injection e with e; subst e; exact w⟩
      · split
        · rename_i op pos _
          have hst := step_inv serF hs { m with pos := pos } op.toNat ⟨w.eval, w.alt, w.heap⟩
          split
          · rename_i m' hm
            rw [hm] at hst
            exact ih m' hst
          · exact ⟨nofun, nofun⟩
          · exact ⟨nofun, nofun⟩
          · exact ⟨nofun, nofun⟩
          · rename_i hd; rw [hd] at hst; exact hst.elim
          · exact ⟨nofun, nofun⟩
          · exact ⟨nofun, nofun⟩
        · exact ⟨nofun, nofun⟩
        · exact ⟨nofun, nofun⟩
        · exact ⟨nofun, nofun⟩

/-! ### the `reflect.DeepEqual` overflow has a witness for every budget -/

/-- two separately built, equal values: struct [array [array [ … ]]], `n` levels each (objects 2i and 2i+1 are level i of the two) -/
def nestObj (k : Nat) : Obj := if k < 2 then .struct [.ref (k + 2)] else .arr [.ref (k + 2)]
def nestH (n : Nat) : Heap := (List.range (2 * n)).map nestObj

theorem nestH_get (n k : Nat) (hk : k < 2 * n) : (nestH n)[k]? = some (nestObj k) := by
  unfold nestH
  rw [List.getElem?_map, List.getElem?_range hk]
  rfl

theorem seenPair_false (vis : List (Nat × Nat)) (i : Nat) (hv : ∀ p ∈ vis, p.1 < 2 * i) : seenPair vis (2 * i) (2 * i + 1) = false := by
  unfold seenPair
  rw [List.any_eq_false]
  intro p hp
  have := hv p hp
  simp only [Bool.or_eq_true, Bool.and_eq_true, beq_iff_eq, not_or, not_and]
  constructor
  · intro h _; rw [h] at this; exact absurd this (Nat.lt_irrefl _)
  · intro h _; rw [h] at this; exact absurd this (by omega)

theorem deepVal_nest_overflow (n : Nat) : ∀ (f i : Nat) (vis : List (Nat × Nat)), i + f ≤ n → (∀ p ∈ vis, p.1 < 2 * i) →
    deepVal (nestH n) f vis (.ref (2 * i)) (.ref (2 * i + 1)) = .overflow := by
  intro f
  induction f with
  | zero => intro i vis _ _; unfold deepVal; rfl
  | succ f ih =>
    intro i vis hi hv
    unfold deepVal
    rw [nestH_get n (2 * i) (by omega), nestH_get n (2 * i + 1) (by omega)]
    have hrec := ih (i + 1) ((2 * i, 2 * i + 1) :: vis) (by omega) (by
      intro p hp
      rcases List.mem_cons.mp hp with e | e
      · subst e; show 2 * i < 2 * (i + 1); omega
      · have := hv p e; omega)
    have e2 : 2 * (i + 1) = 2 * i + 2 := by omega
    have e3 : 2 * i + 2 + 1 = 2 * i + 1 + 2 := by omega
    rw [e2, e3] at hrec
    unfold nestObj
    by_cases h2 : 2 * i < 2
    · have h3 : 2 * i + 1 < 2 := by omega
      simp only [h2, h3, if_true, seenPair_false vis i hv, Bool.false_eq_true, if_false]
      have : ¬ (2 * i = 2 * i + 1) := by omega
      simp only [this, if_false, List.length_cons, List.length_nil, ne_eq, not_true_eq_false]
      unfold deepList
      rw [hrec]
    · have h3 : ¬ (2 * i + 1 < 2) := by omega
      simp only [h2, h3, if_false, seenPair_false vis i hv, Bool.false_eq_true]
      have : ¬ (2 * i = 2 * i + 1) := by omega
      simp only [this, if_false, List.length_cons, List.length_nil, ne_eq, not_true_eq_false]
      unfold deepList
      rw [hrec]


/-- **the witness of the `reflect.DeepEqual` stack overflow at model level**: two separately built values struct [array [array …]] nested
one level deeper than the budget — for every budget, in particular `DEEPEQ_LEVELS` -/
theorem deepVal_overflow_witness (L : Nat) : deepVal (nestH (L + 1)) L [] (.ref 0) (.ref 1) = .overflow :=
  deepVal_nest_overflow (L + 1) L 0 [] (by omega) (by intro p hp; cases hp)

end OntVerif.Proofs.NeoExec
