import OntVerif.Model.NeoInt
import OntVerif.Proofs.Codec
import OntVerif.Props.C18
/-! Helper lemmas for C21 (numeric encodings); the NeoBytes facts are reused by C13 (NUMEQUAL reads its operands through
`AsBytes`/`BigIntFromNeoBytes`). Core-only. -/
namespace OntVerif.Proofs.NeoInt
open OntVerif.Util OntVerif.Model.Codec OntVerif.Model.NeoInt OntVerif.Proofs.Codec

theorem u8_not_toNat (b : UInt8) : (~~~ b).toNat = 255 - b.toNat := by
  simp [UInt8.toNat_not]
theorem u8_succ_toNat (b : UInt8) (h : b ≠ 255) : (b + 1).toNat = b.toNat + 1 := by
  have hb := b.toNat_lt
  have : b.toNat ≠ 255 := fun e => h (UInt8.toNat_inj.mp (by simpa using e))
  rw [UInt8.toNat_add]; simp; omega
theorem u8_top_bit (t : UInt8) : (t >>> 7 == 1) = decide (128 ≤ t.toNat) := by
  have hb := t.toNat_lt
  rw [Bool.eq_iff_iff]
  simp only [beq_iff_eq, decide_eq_true_eq]
  rw [← UInt8.toNat_inj]
  simp [UInt8.toNat_shiftRight]
  omega
theorem u8_lt_128 (t : UInt8) : (t < 128) ↔ t.toNat < 128 := by
  simp [UInt8.lt_iff_toNat_lt]
theorem u8_ge_128 (t : UInt8) : (t ≥ 128) ↔ 128 ≤ t.toNat := by
  simp [UInt8.le_iff_toNat_le]
theorem u8_ofNat_mod (n : Nat) : (UInt8.ofNat (n % 256)).toNat = n % 256 := by
  simp [UInt8.toNat_ofNat']

/-! ### `natToLE` -/
theorem pow256_pos (k : Nat) : 0 < 256 ^ k := Nat.pow_pos (by decide)

theorem natToLEAux_zero (f : Nat) : natToLEAux f 0 = [] := by cases f <;> simp [natToLEAux]

theorem natToLEAux_fromLE (f n : Nat) (h : n ≤ f) : fromLE (natToLEAux f n) = n := by
  induction f generalizing n with
  | zero => have : n = 0 := by omega
            subst this; rfl
  | succ f ih =>
    unfold natToLEAux
    by_cases hn : n = 0
    · simp [hn, fromLE]
    · simp only [hn, if_false, fromLE, u8_ofNat_mod]
      rw [ih (n / 256) (by omega)]; omega

theorem fromLE_natToLE (n : Nat) : fromLE (natToLE n) = n := natToLEAux_fromLE n n (Nat.le_refl _)

/-- lower bound: a non-empty minimal magnitude has a non-zero top byte -/
theorem natToLEAux_lb (f n : Nat) (h : n ≤ f) (hn : 0 < n) :
    256 ^ ((natToLEAux f n).length - 1) ≤ n ∧ 0 < (natToLEAux f n).length := by
  induction f generalizing n with
  | zero => omega
  | succ f ih =>
    unfold natToLEAux
    have hn0 : n ≠ 0 := by omega
    simp only [hn0, if_false, List.length_cons]
    by_cases hq : n / 256 = 0
    · rw [hq, natToLEAux_zero]
      simp only [List.length_nil, Nat.zero_add, Nat.sub_self, Nat.pow_zero]; omega
    · have ⟨h1, h2⟩ := ih (n / 256) (by omega) (by omega)
      refine ⟨?_, by omega⟩
      have e : (natToLEAux f (n / 256)).length + 1 - 1 = ((natToLEAux f (n / 256)).length - 1) + 1 := by omega
      rw [e, Nat.pow_succ]
      have a1 := Nat.div_mul_le_self n 256
      have a2 := Nat.mul_le_mul_right 256 h1
      exact Nat.le_trans a2 a1

theorem natToLE_lb (n : Nat) (hn : 0 < n) : 256 ^ ((natToLE n).length - 1) ≤ n ∧ 0 < (natToLE n).length :=
  natToLEAux_lb n n (Nat.le_refl _) hn

theorem natToLE_zero : natToLE 0 = [] := rfl

theorem natToLE_ub (n : Nat) : n < 256 ^ (natToLE n).length := by
  have := fromLE_lt (natToLE n)
  rwa [fromLE_natToLE] at this

/-! ### complement and increment -/
theorem invBytes_length (bs : Bytes) : (invBytes bs).length = bs.length := by simp [invBytes]

theorem fromLE_invBytes (bs : Bytes) : fromLE (invBytes bs) + fromLE bs + 1 = 256 ^ bs.length := by
  induction bs with
  | nil => simp [invBytes, fromLE]
  | cons b r ih =>
    simp only [invBytes, List.map_cons, fromLE, List.length_cons, Nat.pow_succ, u8_not_toNat] at ih ⊢
    have := b.toNat_lt
    omega

theorem incLE_length (bs : Bytes) : (incLE bs).length = bs.length := by
  induction bs with
  | nil => rfl
  | cons b r ih => unfold incLE; split <;> simp [ih]

theorem fromLE_incLE (bs : Bytes) : fromLE (incLE bs) = (fromLE bs + 1) % 256 ^ bs.length := by
  induction bs with
  | nil => simp [incLE, fromLE]
  | cons b r ih =>
    unfold incLE
    have hb := b.toNat_lt
    have hr := fromLE_lt r
    have hp := pow256_pos r.length
    by_cases h : b = 255
    · subst h
      simp only [beq_self_eq_true, if_true, fromLE, ih, List.length_cons, Nat.pow_succ]
      have : (255 : UInt8).toNat = 255 := rfl
      have z : (0 : UInt8).toNat = 0 := rfl
      rw [this, z]
      have e : 255 + 256 * fromLE r + 1 = 256 * (fromLE r + 1) := by omega
      rw [e, Nat.mul_comm (256 ^ r.length) 256, Nat.mul_mod_mul_left]; omega
    · have hne : (b == 255) = false := by simp [h]
      simp only [hne, Bool.false_eq_true, if_false, fromLE, List.length_cons, Nat.pow_succ, u8_succ_toNat b h]
      have hb2 : b.toNat ≠ 255 := fun e => h (UInt8.toNat_inj.mp (by simpa using e))
      rw [Nat.mod_eq_of_lt]; omega
      have : 256 * (fromLE r + 1) ≤ 256 * 256 ^ r.length := Nat.mul_le_mul_left 256 hr
      omega

/-! ### top byte -/
theorem getLast_toNat (bs : Bytes) (t : UInt8) (h : bs.getLast? = some t) :
    t.toNat = fromLE bs / 256 ^ (bs.length - 1) := by
  induction bs with
  | nil => simp at h
  | cons b r ih =>
    cases r with
    | nil => simp at h; subst h; simp [fromLE]
    | cons c r' =>
      have h' : (c :: r').getLast? = some t := by simpa [List.getLast?_cons_cons] using h
      have := ih h'
      rw [this]
      simp only [fromLE, List.length_cons, Nat.add_sub_cancel]
      have hb := b.toNat_lt
      have e : (b.toNat + 256 * (c.toNat + 256 * fromLE r')) / 256 ^ (r'.length + 1)
             = ((b.toNat + 256 * (c.toNat + 256 * fromLE r')) / 256) / 256 ^ r'.length := by
        have e2 : 256 ^ (r'.length + 1) = 256 * 256 ^ r'.length := by rw [Nat.pow_succ, Nat.mul_comm]
        rw [e2, Nat.div_div_eq_div_mul]
      rw [e]
      congr 1; omega

theorem getLast_none (bs : Bytes) : bs.getLast? = none ↔ bs = [] := List.getLast?_eq_none_iff


/-- top bit set ⇔ the unsigned value reaches half of the range -/
theorem top_bit_iff (bs : Bytes) (t : UInt8) (h : bs.getLast? = some t) :
    128 ≤ t.toNat ↔ 256 ^ bs.length ≤ 2 * fromLE bs := by
  rw [getLast_toNat bs t h]
  have hl : 0 < bs.length := by
    cases bs with
    | nil => simp at h
    | cons => simp
  have e : 256 ^ bs.length = 256 ^ (bs.length - 1) * 256 := by
    rw [← Nat.pow_succ]; congr 1; omega
  rw [e, Nat.le_div_iff_mul_le (pow256_pos _)]
  generalize 256 ^ (bs.length - 1) = P
  omega

theorem fromLE_append (a b : Bytes) : fromLE (a ++ b) = fromLE a + 256 ^ a.length * fromLE b := by
  induction a with
  | nil => simp [fromLE]
  | cons x r ih =>
    simp only [List.cons_append, fromLE, ih, List.length_cons, Nat.pow_succ]
    rw [Nat.mul_add, ← Nat.mul_assoc, Nat.mul_comm 256 (256 ^ r.length)]; omega

/-- the two's complement value of a little-endian byte string -/
def tc (bs : Bytes) : Int :=
  if 2 * fromLE bs < 256 ^ bs.length then (fromLE bs : Int) else (fromLE bs : Int) - ((256 ^ bs.length : Nat) : Int)

theorem fromNeo_eq_tc (bs : Bytes) : fromNeo bs = tc bs := by
  unfold fromNeo tc
  cases h : bs.getLast? with
  | none =>
    have : bs = [] := (getLast_none bs).mp h
    subst this; simp [fromLE]
  | some t =>
    simp only [u8_top_bit, decide_eq_true_eq, top_bit_iff bs t h]
    have hinv := fromLE_invBytes bs
    by_cases hc : 256 ^ bs.length ≤ 2 * fromLE bs
    · have hn : ¬ (2 * fromLE bs < 256 ^ bs.length) := by omega
      simp only [hc, hn, if_true, if_false]
      simp only [Int.ofNat_eq_natCast]
      omega
    · have hn : 2 * fromLE bs < 256 ^ bs.length := by omega
      simp only [hc, hn, if_true, if_false]
      rfl

theorem getLast_some_of_pos (bs : Bytes) (h : 0 < bs.length) : ∃ t, bs.getLast? = some t := by
  cases hl : bs.getLast? with
  | none => have := (getLast_none bs).mp hl; subst this; simp at h
  | some t => exact ⟨t, rfl⟩

/-- `k` bytes suffice for `z` -/
def fits (k : Nat) (z : Int) : Prop := -((256 ^ k : Nat) : Int) ≤ 2 * z ∧ 2 * z < ((256 ^ k : Nat) : Int)

theorem tc_fits (bs : Bytes) : fits bs.length (tc bs) := by
  unfold fits tc
  have := fromLE_lt bs
  split <;> constructor <;> omega

theorem fits_mono {k k' : Nat} {z : Int} (h : fits k z) (hk : k ≤ k') : fits k' z := by
  have : 256 ^ k ≤ 256 ^ k' := Nat.pow_le_pow_right (by decide) hk
  unfold fits at *
  omega

theorem toNeo_zero : toNeo 0 = [] := rfl

theorem toNeo_pos (z : Int) (hz : 0 < z) :
    toNeo z = (if 256 ^ (natToLE z.natAbs).length ≤ 2 * z.natAbs then natToLE z.natAbs ++ [0] else natToLE z.natAbs) := by
  have hm : 0 < z.natAbs := by omega
  obtain ⟨_, hl⟩ := natToLE_lb z.natAbs hm
  obtain ⟨t, ht⟩ := getLast_some_of_pos _ hl
  have hnn : ¬ z < 0 := by omega
  have htop := top_bit_iff _ t ht
  rw [fromLE_natToLE] at htop
  unfold toNeo
  simp only [ht, hnn, if_false, u8_ge_128, htop]

theorem toNeo_neg (z : Int) (hz : z < 0) :
    toNeo z = (if 2 * fromLE (incLE (invBytes (natToLE z.natAbs))) < 256 ^ (natToLE z.natAbs).length
      then incLE (invBytes (natToLE z.natAbs)) ++ [255] else incLE (invBytes (natToLE z.natAbs))) := by
  have hm : 0 < z.natAbs := by omega
  obtain ⟨_, hl⟩ := natToLE_lb z.natAbs hm
  obtain ⟨t, ht⟩ := getLast_some_of_pos _ hl
  have hl' : 0 < (incLE (invBytes (natToLE z.natAbs))).length := by
    rw [incLE_length, invBytes_length]; exact hl
  obtain ⟨t', ht'⟩ := getLast_some_of_pos _ hl'
  have htop := top_bit_iff _ t' ht'
  rw [incLE_length, invBytes_length] at htop
  unfold toNeo
  simp only [ht, hz, if_true, ht', u8_lt_128]
  by_cases hc : t'.toNat < 128
  · have : 2 * fromLE (incLE (invBytes (natToLE z.natAbs))) < 256 ^ (natToLE z.natAbs).length := by omega
    simp [hc, this]
  · have : ¬ 2 * fromLE (incLE (invBytes (natToLE z.natAbs))) < 256 ^ (natToLE z.natAbs).length := by omega
    simp [hc, this]

/-- value of the negated magnitude after complement-and-increment -/
theorem fromLE_negmag (m : Nat) (hm : 0 < m) :
    fromLE (incLE (invBytes (natToLE m))) + m = 256 ^ (natToLE m).length := by
  rw [fromLE_incLE, invBytes_length]
  have h1 := fromLE_invBytes (natToLE m)
  rw [fromLE_natToLE] at h1
  have h2 := natToLE_ub m
  have e : fromLE (invBytes (natToLE m)) + 1 = 256 ^ (natToLE m).length - m := by omega
  rw [e, Nat.mod_eq_of_lt (by omega)]; omega

/-- the encoder's output denotes its input, and one byte less would not suffice -/
theorem toNeo_spec (z : Int) :
    tc (toNeo z) = z ∧ (0 < (toNeo z).length → ¬ fits ((toNeo z).length - 1) z) := by
  rcases Int.lt_trichotomy z 0 with hz | hz | hz
  · -- negative
    have hm : 0 < z.natAbs := by omega
    obtain ⟨hlb, hl⟩ := natToLE_lb z.natAbs hm
    have hv := fromLE_negmag z.natAbs hm
    have hlen : (incLE (invBytes (natToLE z.natAbs))).length = (natToLE z.natAbs).length := by
      rw [incLE_length, invBytes_length]
    have hpow : 256 ^ (natToLE z.natAbs).length = 256 ^ ((natToLE z.natAbs).length - 1) * 256 := by
      rw [← Nat.pow_succ]; congr 1; omega
    have hpp := pow256_pos ((natToLE z.natAbs).length - 1)
    rw [toNeo_neg z hz]
    split
    · rename_i hc
      constructor
      · unfold tc
        rw [fromLE_append, hlen]
        simp only [List.length_append, hlen, List.length_singleton, Nat.pow_succ, fromLE]
        have : (255 : UInt8).toNat = 255 := rfl
        rw [this]
        generalize fromLE (incLE (invBytes (natToLE z.natAbs))) = v at *
        generalize 256 ^ (natToLE z.natAbs).length = Q at *
        have : ¬ (2 * (v + Q * (255 + 256 * 0)) < Q * 256) := by omega
        simp only [this, if_false]
        omega
      · intro _
        simp only [List.length_append, hlen, List.length_singleton, Nat.add_sub_cancel]
        unfold fits
        generalize fromLE (incLE (invBytes (natToLE z.natAbs))) = v at *
        generalize 256 ^ (natToLE z.natAbs).length = Q at *
        omega
    · rename_i hc
      constructor
      · unfold tc
        rw [hlen]
        simp only [hc, if_false]
        generalize fromLE (incLE (invBytes (natToLE z.natAbs))) = v at *
        generalize 256 ^ (natToLE z.natAbs).length = Q at *
        omega
      · intro _
        rw [hlen]
        unfold fits
        generalize fromLE (incLE (invBytes (natToLE z.natAbs))) = v at *
        rw [hpow] at hv hc
        generalize 256 ^ ((natToLE z.natAbs).length - 1) = P at *
        omega
  · subst hz; rw [toNeo_zero]; simp [tc, fromLE]
  · have hm : 0 < z.natAbs := by omega
    obtain ⟨hlb, hl⟩ := natToLE_lb z.natAbs hm
    have hub := natToLE_ub z.natAbs
    have hpow : 256 ^ (natToLE z.natAbs).length = 256 ^ ((natToLE z.natAbs).length - 1) * 256 := by
      rw [← Nat.pow_succ]; congr 1; omega
    have hpp := pow256_pos ((natToLE z.natAbs).length - 1)
    rw [toNeo_pos z hz]
    split
    · rename_i hc
      constructor
      · unfold tc
        rw [fromLE_append, fromLE_natToLE]
        simp only [List.length_append, List.length_singleton, Nat.pow_succ, fromLE]
        have : (0 : UInt8).toNat = 0 := rfl
        rw [this]
        generalize 256 ^ (natToLE z.natAbs).length = Q at *
        have : 2 * (z.natAbs + Q * (0 + 256 * 0)) < Q * 256 := by omega
        simp only [this, if_true]
        omega
      · intro _
        simp only [List.length_append, List.length_singleton, Nat.add_sub_cancel]
        unfold fits
        generalize 256 ^ (natToLE z.natAbs).length = Q at *
        omega
    · rename_i hc
      constructor
      · unfold tc
        rw [fromLE_natToLE]
        have : 2 * z.natAbs < 256 ^ (natToLE z.natAbs).length := by omega
        simp only [this, if_true]
        omega
      · intro _
        unfold fits
        generalize 256 ^ ((natToLE z.natAbs).length - 1) = P at *
        omega

/-! ### main NeoBytes facts -/
theorem neo_rt (z : Int) : fromNeo (toNeo z) = z := by
  rw [fromNeo_eq_tc]; exact (toNeo_spec z).1

theorem neo_minimal (z : Int) (bs : Bytes) (h : fromNeo bs = z) : (toNeo z).length ≤ bs.length := by
  apply Classical.byContradiction
  intro hlt
  have hpos : 0 < (toNeo z).length := by omega
  have hf : fits bs.length z := by rw [← h, fromNeo_eq_tc]; exact tc_fits bs
  exact (toNeo_spec z).2 hpos (fits_mono hf (by omega))

theorem tc_inj_of_length (a b : Bytes) (hl : a.length = b.length) (h : tc a = tc b) : a = b := by
  have ha := fromLE_lt a
  have hb := fromLE_lt b
  have e : fromLE a = fromLE b := by
    unfold tc at h
    rw [hl] at h ha
    generalize 256 ^ b.length = Q at *
    split at h <;> split at h <;> omega
  rw [← leN_fromLE a, ← leN_fromLE b, hl, e]

theorem neo_unique (z : Int) (bs : Bytes) (h : fromNeo bs = z) (hl : bs.length = (toNeo z).length) :
    bs = toNeo z := by
  apply tc_inj_of_length _ _ hl
  rw [← fromNeo_eq_tc, ← fromNeo_eq_tc, h, neo_rt]

/-! ### I128 -/
theorem fromLE_replicate_zero (k : Nat) : fromLE (List.replicate k (0 : UInt8)) = 0 := by
  induction k with
  | zero => rfl
  | succ k ih => simp only [List.replicate_succ, fromLE, ih]; rfl

theorem natToLE_length_le (n k : Nat) (h : n < 256 ^ k) : (natToLE n).length ≤ k := by
  by_cases hn : n = 0
  · subst hn; simp [natToLE_zero]
  · obtain ⟨hlb, _⟩ := natToLE_lb n (by omega)
    have : 256 ^ ((natToLE n).length - 1) < 256 ^ k := by omega
    have := (Nat.pow_lt_pow_iff_right (by decide : 1 < 256)).mp this
    omega

theorem copy16_of_le (bs : Bytes) (h : bs.length ≤ 16) :
    copy16 bs = bs ++ List.replicate (16 - bs.length) 0 := by
  unfold copy16
  rw [List.take_of_length_le h, Nat.min_eq_left h]

theorem copy16_length (bs : Bytes) : (copy16 bs).length = 16 := by
  unfold copy16
  simp only [List.length_append, List.length_take, List.length_replicate]
  omega

theorem pow256_16 : (256 : Nat) ^ 16 = 340282366920938463463374607431768211456 := by decide

theorem fromLE_copy16 (v : Nat) (h : v < 256 ^ 16) : fromLE (copy16 (natToLE v)) = v := by
  rw [copy16_of_le _ (natToLE_length_le v 16 h), fromLE_append, fromLE_replicate_zero, fromLE_natToLE]; omega

theorem fromLE_snoc_zero (b : Bytes) : fromLE (b ++ [0]) = fromLE b := by
  rw [fromLE_append]; simp [fromLE]

theorem i128_rt (z : Int) (h1 : minI128 ≤ z) (h2 : z ≤ maxI128) :
    ∃ b, i128FromBigInt z = some b ∧ b.length = 16 ∧ i128ToBigInt b = z := by
  unfold i128FromBigInt
  have hr : ¬ (z > maxI128 ∨ z < minI128) := by omega
  simp only [hr, if_false]
  refine ⟨_, rfl, copy16_length _, ?_⟩
  unfold i128ToBigInt
  rw [fromLE_snoc_zero]
  unfold minI128 at h1
  unfold maxI128 at h2
  by_cases hz : z < 0
  · simp only [hz, if_true]
    have hv : (z + pow128).natAbs < 256 ^ 16 := by rw [pow256_16]; unfold pow128; omega
    rw [fromLE_copy16 _ hv]
    unfold pow128 maxI128
    simp only [Int.ofNat_eq_natCast]
    split <;> omega
  · simp only [hz, if_false]
    have hv : z.natAbs < 256 ^ 16 := by rw [pow256_16]; omega
    rw [fromLE_copy16 _ hv]
    unfold maxI128
    simp only [Int.ofNat_eq_natCast]
    split <;> omega

theorem i128_reject (z : Int) (h : z < minI128 ∨ maxI128 < z) : i128FromBigInt z = none := by
  unfold i128FromBigInt
  have : z > maxI128 ∨ z < minI128 := by omega
  simp [this]

theorem i128ToBigInt_range (b : Bytes) (hl : b.length = 16) :
    minI128 ≤ i128ToBigInt b ∧ i128ToBigInt b ≤ maxI128 := by
  unfold i128ToBigInt
  rw [fromLE_snoc_zero]
  have := fromLE_lt b
  rw [hl, pow256_16] at this
  unfold minI128 maxI128 pow128
  simp only [Int.ofNat_eq_natCast]
  split <;> omega

theorem i128_rt_bytes (b : Bytes) (hl : b.length = 16) : i128FromBigInt (i128ToBigInt b) = some b := by
  obtain ⟨r1, r2⟩ := i128ToBigInt_range b hl
  obtain ⟨b', hb', hl', hz⟩ := i128_rt (i128ToBigInt b) r1 r2
  rw [hb']
  congr 1
  -- both are 16 bytes with the same unsigned value
  have e : fromLE b' = fromLE b := by
    unfold i128ToBigInt at hz
    rw [fromLE_snoc_zero, fromLE_snoc_zero] at hz
    have u1 := fromLE_lt b
    have u2 := fromLE_lt b'
    rw [hl, pow256_16] at u1
    rw [hl', pow256_16] at u2
    unfold maxI128 pow128 at hz
    simp only [Int.ofNat_eq_natCast] at hz
    split at hz <;> split at hz <;> omega
  rw [← leN_fromLE b', ← leN_fromLE b, hl, hl', e]

theorem i128_int64 (v : BitVec 64) : i128ToBigInt (i128FromInt64 v) = v.toInt := by
  unfold i128ToBigInt i128FromInt64
  rw [fromLE_snoc_zero, fromLE_append, leN_length, fromLE_leN _ _ (by have := v.isLt; omega)]
  have hlt := v.isLt
  have hs : v.slt 0 = decide (v.toInt < 0) := by simp [BitVec.slt]
  rw [hs]
  unfold BitVec.toInt
  unfold maxI128 pow128
  by_cases hc : 2 * v.toNat < 2 ^ 64
  · have e : fromLE (List.drop 8 (List.replicate 16 (0 : UInt8))) = 0 := by decide
    simp only [hc, if_true]
    have : ¬ ((v.toNat : Int) < 0) := by omega
    simp only [this, decide_false, Bool.false_eq_true, if_false, e, Int.ofNat_eq_natCast]
    split <;> omega
  · have e : fromLE (List.drop 8 (List.replicate 16 (255 : UInt8))) = 18446744073709551615 := by decide
    simp only [hc, if_false]
    have : ((v.toNat : Int) - ((2 ^ 64 : Nat) : Int) < 0) := by omega
    simp only [this, decide_true, if_true, e, Int.ofNat_eq_natCast]
    split <;> omega

/-! ### native var-uint -/
theorem decodeVarUint_rt (v : Nat) (hv : v < 18446744073709551616) (pre rest : Bytes)
    (hlen : (pre ++ encodeVarUint v ++ rest).length < two64) :
    decodeVarUint ⟨pre ++ encodeVarUint v ++ rest, pre.length⟩
      = some (.ok v, ⟨pre ++ encodeVarUint v ++ rest,
                pre.length + getVarUintSize (toNeo (Int.ofNat v)).length + (toNeo (Int.ofNat v)).length⟩) := by
  unfold encodeVarUint at hlen ⊢
  unfold decodeVarUint
  rw [OntVerif.Props.C18.C18_rt_varbytes _ pre rest hlen]
  simp only [Bool.false_eq_true, if_false, neo_rt]
  have : ¬ ((Int.ofNat v) < 0 ∨ ¬ (Int.ofNat v) < 18446744073709551616) := by
    simp only [Int.ofNat_eq_natCast]; omega
  simp only [this, if_false]
  rfl

/-! ### balance storage item -/
theorem balance_rt (z : Int) (hz : 0 ≤ z) (ver : UInt8) (val : Bytes) (h : balanceToItem z = some (ver, val)) :
    balanceFromItem ver val = some (.ok z) := by
  unfold balanceToItem at h
  split at h
  · injection h with h; injection h with h1 h2
    subst h1 h2
    unfold balanceFromItem
    have : ((1 : UInt8) == 0) = false := by decide
    simp only [this, Bool.false_eq_true, if_false, neo_rt]
    have : ¬ z < 0 := by omega
    simp [this]
  · rename_i hm
    split at h
    · rename_i hq
      injection h with h; injection h with h1 h2
      subst h1 h2
      unfold balanceFromItem
      have hq' : (z / scaleFactor).toNat < 256 ^ 8 := by
        have : (256 : Nat) ^ 8 = 18446744073709551616 := by decide
        rw [this]; omega
      have hl : (([] : Bytes) ++ writeUintN 8 (z / scaleFactor).toNat ++ []).length < two64 := by
        simp [writeUintN, leN_length, two64]
      have := rt_uintN 8 (z / scaleFactor).toNat hq' [] [] hl
      simp only [List.nil_append, List.append_nil, List.length_nil, writeUintN] at this
      simp only [beq_self_eq_true, if_true, this, Bool.false_eq_true, if_false]
      congr 2
      unfold scaleFactor at *
      simp only [Int.ofNat_eq_natCast]
      omega
    · cases h

theorem balance_negative (z : Int) (hz : z < 0) :
    balanceToItem z = none ∨
    ∃ val, balanceToItem z = some (1, val) ∧ balanceFromItem 1 val = some (.error .negative) := by
  unfold balanceToItem
  split
  · right
    refine ⟨_, rfl, ?_⟩
    unfold balanceFromItem
    have : ((1 : UInt8) == 0) = false := by decide
    simp only [this, Bool.false_eq_true, if_false, neo_rt, hz, if_true]
  · left
    have : ¬ (0 ≤ z / scaleFactor ∧ z / scaleFactor < 18446744073709551616) := by
      unfold scaleFactor; omega
    simp [this]

theorem balance_inj (z1 z2 : Int) (i : UInt8 × Bytes) (h1 : balanceToItem z1 = some i) (h2 : balanceToItem z2 = some i) :
    z1 = z2 := by
  unfold balanceToItem at h1 h2
  split at h1 <;> split at h2
  · injection h1 with h1; injection h2 with h2
    rw [← h2] at h1
    injection h1 with _ h
    have := congrArg fromNeo h
    rwa [neo_rt, neo_rt] at this
  · split at h2
    · injection h1 with h1; injection h2 with h2
      rw [← h2] at h1
      injection h1 with h _
      exact absurd h (by decide)
    · cases h2
  · split at h1
    · injection h1 with h1; injection h2 with h2
      rw [← h2] at h1
      injection h1 with h _
      exact absurd h (by decide)
    · cases h1
  · rename_i m1 m2
    split at h1 <;> split at h2
    · rename_i q1 q2
      injection h1 with h1; injection h2 with h2
      rw [← h2] at h1
      injection h1 with _ h
      have e := congrArg fromLE h
      have b : (256 : Nat) ^ 8 = 18446744073709551616 := by decide
      rw [fromLE_leN _ _ (by rw [b]; omega), fromLE_leN _ _ (by rw [b]; omega)] at e
      unfold scaleFactor at *
      omega
    · cases h2
    · cases h1
    · cases h1

theorem balance_defined (z : Int) :
    balanceToItem z = none ↔ (z % scaleFactor = 0 ∧ (z < 0 ∨ 18446744073709551616 * scaleFactor ≤ z)) := by
  unfold balanceToItem
  split
  · rename_i h; simp; intro h'; exact absurd h' h
  · rename_i h
    have h0 : z % scaleFactor = 0 := by omega
    split
    · rename_i hq
      simp only [reduceCtorEq, false_iff]
      unfold scaleFactor at *
      omega
    · rename_i hq
      simp only [true_iff]
      refine ⟨h0, ?_⟩
      unfold scaleFactor at *
      omega

theorem item_bytes_rt (ver : UInt8) (val : Bytes) (hlen : val.length + 10 < two64) :
    itemFromBytes (itemToBytes ver val) = some (.ok (ver, val)) := by
  unfold itemFromBytes itemToBytes
  have e0 : (ver :: writeVarBytes val) = [] ++ ver :: writeVarBytes val := rfl
  have hb := nextByte_append [] ver (writeVarBytes val)
  simp only [List.nil_append, List.length_nil] at hb
  rw [hb]
  simp only [Bool.false_eq_true, if_false, Nat.zero_add]
  have hl : ([ver] ++ writeVarBytes val ++ []).length < two64 := by
    simp only [List.append_nil, List.length_append, List.length_singleton, writeVarBytes]
    have := writeVarUint_length val.length
    unfold getVarUintSize at this
    split at this <;> (try split at this) <;> (try split at this) <;> omega
  have := OntVerif.Props.C18.C18_rt_varbytes val [ver] [] hl
  simp only [List.append_nil, List.singleton_append, List.length_singleton] at this
  rw [this]
  rfl
end OntVerif.Proofs.NeoInt

namespace OntVerif.Proofs.NeoInt
open OntVerif.Util OntVerif.Model.Codec OntVerif.Model.NeoInt OntVerif.Proofs.Codec

/-- a uint64 needs at most 9 NeoBytes -/
theorem toNeo_u64_length (v : Nat) (hv : v < 18446744073709551616) : (toNeo (Int.ofNat v)).length ≤ 9 := by
  have h9 : (256 : Nat) ^ 9 = 4722366482869645213696 := by decide
  have hv9 : v < 256 ^ 9 := by rw [h9]; omega
  have hd : fromNeo (leN 9 v) = Int.ofNat v := by
    rw [fromNeo_eq_tc]
    unfold tc
    rw [fromLE_leN 9 v hv9, leN_length, h9]
    have : 2 * v < 4722366482869645213696 := by omega
    simp [this]
  have := neo_minimal _ _ hd
  rwa [leN_length] at this

theorem encodeVarUint_length_lt (v : Nat) (hv : v < 18446744073709551616) : (encodeVarUint v).length < two64 := by
  unfold encodeVarUint writeVarBytes
  have h1 := toNeo_u64_length v hv
  have h2 := writeVarUint_length (toNeo (Int.ofNat v)).length
  rw [List.length_append, h2]
  unfold getVarUintSize two64
  split <;> omega

end OntVerif.Proofs.NeoInt
