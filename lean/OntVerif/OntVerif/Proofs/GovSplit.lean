import OntVerif.Model.Gov
/-!
Helper lemmas for C10 (fee split of the governance contract): every level of `executeSplit2`
(`executeAddressSplit` → `splitNodeFee` → the two proportional loops → the whole split) distributes at most what it
was given, under the clauses of `govInv`, with the `uint64` truncations of the code modelled exactly.
-/
namespace OntVerif.Proofs.GovSplit
open OntVerif.Model.Gov OntVerif.Gen.Gov

/-! ### `uint64` helpers -/
theorem two64_pos : 0 < two64 := by decide

theorem u64_le (x : Nat) : u64 x ≤ x := Nat.mod_le _ _
theorem u64_lt (x : Nat) : u64 x < two64 := Nat.mod_lt _ two64_pos
theorem u64_id {x : Nat} (h : x < two64) : u64 x = x := Nat.mod_eq_of_lt h
theorem u64_add_u64 (a b : Nat) : u64 (a + u64 b) = u64 (a + b) := by
  unfold u64; rw [Nat.add_mod, Nat.mod_mod, ← Nat.add_mod]
theorem u64sub_exact {a b : Nat} (h1 : b ≤ a) (h2 : a < two64) : u64sub a b = a - b := by
  unfold u64sub
  have hb : b < two64 := by omega
  rw [Nat.mod_eq_of_lt h2, Nat.mod_eq_of_lt hb]
  have : a + two64 - b = (a - b) + two64 := by omega
  rw [this, Nat.add_mod_right, Nat.mod_eq_of_lt (by omega)]

theorem u64_div_le (x d : Nat) : u64 x / d ≤ x / d := Nat.div_le_div_right (u64_le x)

/-- Σ of the credited amounts -/
def csum : List (Nat × Nat) → Nat
  | [] => 0
  | (_, n) :: r => n + csum r

theorem csum_append (a b : List (Nat × Nat)) : csum (a ++ b) = csum a + csum b := by
  induction a with
  | nil => simp [csum]
  | cons x r ih => obtain ⟨k, n⟩ := x; simp [csum, ih]; omega

/-! ### `executeAddressSplit` over the authorize records of one peer -/

theorem addressSplits_bound (ex : Bool) (c : Cand) (amount : Nat) (vs : List (Nat × Nat))
    (cr : List (Nat × Nat)) (s : Nat) (h : addressSplits ex c amount vs = .ok (cr, s)) :
    csum cr * c.totalPos ≤ validSum c.owner vs * amount ∧ s = u64 (csum cr) ∧ (c.totalPos = 0 → cr = []) := by
  induction vs generalizing cr s with
  | nil => simp [addressSplits] at h; obtain ⟨h1, h2⟩ := h; subst h1; subst h2; simp [csum, validSum, u64]
  | cons x r ih =>
    obtain ⟨addr, v⟩ := x
    simp only [addressSplits] at h
    split at h
    · rename_i hskip
      obtain ⟨i1, i2, i3⟩ := ih cr s h
      refine ⟨?_, i2, i3⟩
      simp only [validSum]
      calc csum cr * c.totalPos ≤ validSum c.owner r * amount := i1
        _ ≤ ((if addr = c.owner then 0 else v) + validSum c.owner r) * amount := by
          apply Nat.mul_le_mul_right; omega
    · rename_i hskip
      split at h
      · cases h
      · rename_i hT
        split at h
        · cases h
        · rename_i cr' s' hr
          cases h
          obtain ⟨i1, i2, i3⟩ := ih cr' s' hr
          have hv : ¬ addr = c.owner := fun e => hskip (Or.inr e)
          refine ⟨?_, ?_, ?_⟩
          · simp only [csum, validSum, hv, if_false]
            have ha : (if ex = true then u64 (v * amount / c.totalPos) else u64 (v * amount) / c.totalPos) * c.totalPos
                      ≤ v * amount := by
              split
              · calc u64 (v * amount / c.totalPos) * c.totalPos
                    ≤ (v * amount / c.totalPos) * c.totalPos := Nat.mul_le_mul_right _ (u64_le _)
                  _ ≤ v * amount := Nat.div_mul_le_self _ _
              · calc u64 (v * amount) / c.totalPos * c.totalPos ≤ u64 (v * amount) := Nat.div_mul_le_self _ _
                  _ ≤ v * amount := u64_le _
            rw [Nat.add_mul, Nat.add_mul]
            exact Nat.add_le_add ha i1
          · rw [i2, u64_add_u64]; simp [csum]
          · intro e; exact absurd e hT

/-! ### `splitNodeFee` -/

theorem normStakeCost_le (pc sc : Nat) (hpc : pc ≤ 100) (hsc : sc ≤ 101) : normStakeCost pc sc ≤ 100 := by
  unfold normStakeCost
  split <;> split <;> omega

theorem pct_le (x k : Nat) : u64 (x * (100 - k)) / 100 ≤ x := by
  apply Nat.le_trans (u64_div_le _ _)
  apply Nat.div_le_of_le_mul
  rw [Nat.mul_comm 100]
  apply Nat.mul_le_mul_left; omega

theorem shareAmount_le (npc : Bool) (c : Cand) (nodeAmount amount : Nat)
    (h : shareAmount npc c nodeAmount = .ok amount)
    (hpc : c.peerCost ≤ 100) (hsc : c.stakeCost ≤ 101) (hn : nodeAmount < two64) : amount ≤ nodeAmount := by
  unfold shareAmount at h
  have hsub : ∀ k, k ≤ 100 → u64sub 100 k = 100 - k := fun k hk => u64sub_exact hk (by decide)
  have hsc' := normStakeCost_le c.peerCost c.stakeCost hpc hsc
  simp only at h
  split at h
  · cases h
    generalize normStakeCost c.peerCost c.stakeCost = sc at hsc' ⊢
    have hsf : (if c.initPos + c.totalPos = 0 then 0 else u64 (nodeAmount * c.totalPos / (c.initPos + c.totalPos)))
        ≤ nodeAmount := by
      split
      · omega
      · apply Nat.le_trans (u64_le _)
        apply Nat.div_le_of_le_mul
        rw [Nat.mul_comm (c.initPos + c.totalPos)]
        apply Nat.mul_le_mul_left; omega
    generalize (if c.initPos + c.totalPos = 0 then 0 else u64 (nodeAmount * c.totalPos / (c.initPos + c.totalPos)))
      = stakeFee at hsf ⊢
    rw [u64sub_exact hsf hn, hsub sc hsc', hsub c.peerCost hpc]
    have t1 := pct_le stakeFee sc
    have t2 := pct_le (nodeAmount - stakeFee) c.peerCost
    apply Nat.le_trans (u64_le _)
    omega
  · cases h
    rw [hsub c.peerCost hpc]
    exact pct_le _ _

theorem candOK_unfold (c : Cand) (h : candOK c = true) :
    ∃ cur, c.curCons = some cur ∧ validSum c.owner (validList (cur || c.preCons) c.auths) ≤ c.totalPos ∧ c.peerCost ≤ 100 ∧
      c.stakeCost ≤ 101 ∧ c.stake ≤ 10000000000 := by
  unfold candOK at h
  split at h
  · cases h
  · rename_i cur hc
    simp only [Bool.and_eq_true, decide_eq_true_eq] at h
    exact ⟨cur, hc, h.1.1.1, h.1.1.2, h.1.2, h.2⟩

/-- one node: the credits add up to exactly the node's amount (the owner's remainder `nodeAmount - sumAmount` does not
underflow) -/
theorem splitNodeFee_sum (npc ex : Bool) (c : Cand) (nodeAmount : Nat) (cr : List (Nat × Nat))
    (h : splitNodeFee npc ex c nodeAmount = .ok cr) (hc : candOK c = true) (hn : nodeAmount < two64) :
    csum cr = nodeAmount := by
  obtain ⟨cur, hcur, hv, hpc, hsc, _⟩ := candOK_unfold c hc
  unfold splitNodeFee at h
  rw [hcur] at h
  simp only at h
  split at h
  · cases h
  · rename_i amount ha
    split at h
    · cases h
    · rename_i cr0 sumAmount hs
      cases h
      have hle := shareAmount_le npc c nodeAmount amount ha hpc hsc hn
      obtain ⟨b1, b2, b3⟩ := addressSplits_bound ex c amount _ cr0 sumAmount hs
      have hcs : csum cr0 ≤ amount := by
        by_cases hT : c.totalPos = 0
        · rw [b3 hT]; simp [csum]
        · have : csum cr0 * c.totalPos ≤ amount * c.totalPos := by
            calc csum cr0 * c.totalPos ≤ validSum c.owner (validList (cur || c.preCons) c.auths) * amount := b1
              _ ≤ c.totalPos * amount := Nat.mul_le_mul_right _ hv
              _ = amount * c.totalPos := Nat.mul_comm _ _
          exact Nat.le_of_mul_le_mul_right this (by omega)
      have hs2 : sumAmount = csum cr0 := by rw [b2]; exact u64_id (by omega)
      rw [csum_append, hs2, u64sub_exact (by omega) hn]
      simp [csum]; omega

/-! ### the proportional loops -/

def wsum : List Nat → Nat
  | [] => 0
  | w :: r => w + wsum r

/-- Σ of the weights that actually meet a candidate -/
def pairW : List Cand → List Nat → Nat
  | _ :: cs, w :: ws => w + pairW cs ws
  | _, _ => 0

theorem pairW_le (cs : List Cand) (ws : List Nat) : pairW cs ws ≤ wsum ws := by
  induction cs generalizing ws with
  | nil => cases ws <;> simp [pairW]
  | cons c r ih =>
    cases ws with
    | nil => simp [pairW]
    | cons w wr => simp only [pairW, wsum]; have := ih wr; omega

theorem splitNodes_bound (npc ex : Bool) (pot total : Nat) (cs : List Cand) (ws : List Nat)
    (cr : List (Nat × Nat)) (s : Nat) (h : splitNodes npc ex pot total cs ws = .ok (cr, s))
    (hc : ∀ c ∈ cs, candOK c = true) :
    csum cr * total ≤ pot * pairW cs ws ∧ s = u64 (csum cr) := by
  induction cs generalizing ws cr s with
  | nil => simp [splitNodes] at h; obtain ⟨h1, h2⟩ := h; subst h1; subst h2; simp [csum, pairW, u64]
  | cons c r ih =>
    cases ws with
    | nil => simp [splitNodes] at h; obtain ⟨h1, h2⟩ := h; subst h1; subst h2; simp [csum, pairW, u64]
    | cons w wr =>
      simp only [splitNodes] at h
      split at h
      · cases h
      · rename_i cr1 h1
        split at h
        · cases h
        · rename_i crs s' hr
          cases h
          obtain ⟨i1, i2⟩ := ih wr crs s' hr (fun c' hc' => hc c' (by simp [hc']))
          have hn := splitNodeFee_sum npc ex c _ cr1 h1 (hc c (by simp)) (u64_lt _)
          refine ⟨?_, ?_⟩
          · rw [csum_append, hn]
            simp only [pairW]
            have : u64 (pot * w / total) * total ≤ pot * w :=
              Nat.le_trans (Nat.mul_le_mul_right _ (u64_le _)) (Nat.div_mul_le_self _ _)
            rw [Nat.add_mul, Nat.mul_add]
            exact Nat.add_le_add this i1
          · rw [csum_append, hn, i2, u64_add_u64]

/-! ### weights: no wrap in `sumS` / `sum` -/

theorem Xi_length : Xi.length = 101 := by decide

/-- consecutive entries of the `Xi` table are 100000 apart -/
def xiStepOK (i : Nat) : Bool :=
  match Xi[i]?, Xi[i + 1]? with
  | some a, some b => u64sub b a == 100000
  | _, _ => false

set_option maxRecDepth 8000 in
theorem Xi_step : ∀ i, i < 100 → xiStepOK i = true := by decide

theorem splitCurve_le (yi : List Nat) (pos avg yita s : Nat) (h : splitCurve yi pos avg yita = .ok s) :
    s ≤ two64 / 100000 := by
  unfold splitCurve at h
  split at h
  · cases h
  · simp only at h
    split at h
    · cases h
    · rw [Xi_length] at h
      generalize hidx : (if decide (u64 (u64 (u64 (PRECISE * yita) * 2) * pos) / u64 (avg * 10) / (PRECISE / 10) > 101 - 2) = true
              then 101 - 2 else u64 (u64 (u64 (PRECISE * yita) * 2) * pos) / u64 (avg * 10) / (PRECISE / 10)) = index at h
      have hi : index < 100 := by
        rw [← hidx]
        split
        · omega
        · rename_i hn; simp at hn; omega
      have hstep := Xi_step index hi
      unfold xiStepOK at hstep
      split at h
      · rename_i y0 y1 x0 x1 e0 e1 e2 e3
        rw [e2, e3] at hstep
        simp only [beq_iff_eq] at hstep
        rw [hstep] at h
        split at h
        · cases h
        · cases h
          apply Nat.div_le_div_right
          unfold u64sub
          exact Nat.le_of_lt (Nat.mod_lt _ two64_pos)
      · cases h

theorem curveWeights_le (yi : List Nat) (avg yita : Nat) (cs : List Cand) (ws : List Nat)
    (h : curveWeights yi avg yita cs = .ok ws) : wsum ws ≤ cs.length * (two64 / 100000) ∧ ws.length = cs.length := by
  induction cs generalizing ws with
  | nil => simp [curveWeights] at h; subst h; simp [wsum]
  | cons c r ih =>
    simp only [curveWeights] at h
    split at h
    · cases h
    · rename_i s hs
      split at h
      · cases h
      · rename_i ss hss
        cases h
        obtain ⟨i1, i2⟩ := ih ss hss
        have := splitCurve_le _ _ _ _ _ hs
        simp only [wsum, List.length_cons]
        constructor
        · rw [Nat.add_mul]; omega
        · omega

theorem sumW_eq (ws : List Nat) : sumW ws = u64 (wsum ws) := by
  induction ws with
  | nil => simp [sumW, wsum, u64]
  | cons w r ih => simp only [sumW, wsum, ih, u64_add_u64]

theorem sumStake_eq (cs : List Cand) : sumStake cs = u64 (wsum (cs.map (·.stake))) := by
  induction cs with
  | nil => simp [sumStake, wsum, u64]
  | cons c r ih => simp only [sumStake, List.map, wsum, ih, u64_add_u64]

theorem wsum_stakes_le (cs : List Cand) (h : ∀ c ∈ cs, c.stake ≤ 10000000000) :
    wsum (cs.map (·.stake)) ≤ cs.length * 10000000000 := by
  induction cs with
  | nil => simp [wsum]
  | cons c r ih =>
    have h1 := h c (by simp)
    have h2 := ih (fun c' hc' => h c' (by simp [hc']))
    simp only [List.map, wsum, List.length_cons]
    rw [Nat.add_mul]; omega

theorem pairW_map (cs : List Cand) : pairW cs (cs.map (·.stake)) = wsum (cs.map (·.stake)) := by
  induction cs with
  | nil => simp [pairW, wsum]
  | cons c r ih => simp only [List.map, pairW, wsum, ih]

/-! ### the whole split -/

theorem govInv_unfold (e : SplitEnv) (h : govInv e = true) :
    (∀ c ∈ e.cands, candOK c = true) ∧ e.A + e.B ≤ 100 ∧ e.dappFee ≤ 100 ∧ e.splitFee ≤ e.balance ∧ e.balance < two64 ∧
    e.cands.length ≤ 10000 ∧ e.K ≤ e.cands.length ∧ 0 < e.K := by
  unfold govInv at h
  simp only [Bool.and_eq_true, decide_eq_true_eq, List.all_eq_true] at h
  exact ⟨h.1.1.1.1.1.1.1, h.1.1.1.1.1.1.2, h.1.1.1.1.1.2, h.1.1.1.1.2, h.1.1.1.2, h.1.1.2, h.1.2, h.2⟩

theorem pct_split (x A B : Nat) (h : A + B ≤ 100) : x * A / 100 + x * B / 100 ≤ x := by
  have h1 : x * A + x * B ≤ x * 100 := by rw [← Nat.mul_add]; exact Nat.mul_le_mul_left _ h
  generalize x * A = p at h1 ⊢
  generalize x * B = q at h1 ⊢
  omega

theorem candRest_mem (e : SplitEnv) (c : Cand) (h : c ∈ candRest e) : c ∈ e.cands := by
  unfold candRest at h
  exact List.mem_of_mem_take (List.mem_of_mem_drop h)

theorem candRest_length (e : SplitEnv) : (candRest e).length ≤ e.cands.length := by
  unfold candRest
  simp only [List.length_drop, List.length_take]
  omega

/-- candidate part: at most `nodeIncome * B / 100` on top of what the consensus part credited -/
theorem split2Cands_bound (e : SplitEnv) (ni : Nat) (cr1 cr : List (Nat × Nat)) (s1 s : Nat)
    (h : split2Cands e ni cr1 s1 = .ok (cr, s))
    (hall : ∀ c ∈ e.cands, candOK c = true) (hlen : e.cands.length ≤ 10000) (hs1 : s1 < two64) :
    ∃ cr2, cr = cr1 ++ cr2 ∧ csum cr2 ≤ ni * e.B / 100 ∧ s = u64 (s1 + u64 (csum cr2)) := by
  unfold split2Cands at h
  split at h
  · cases h
    refine ⟨[], by simp, by simp [csum], ?_⟩
    simp only [csum]
    rw [u64_id (show (0 : Nat) < two64 by decide), Nat.add_zero, u64_id hs1]
  · rename_i hsum2
    split at h
    · cases h
    · rename_i cr2 s2 hn2
      cases h
      obtain ⟨d1, d2⟩ := splitNodes_bound _ _ _ _ _ _ _ _ hn2 (fun c hc => hall c (candRest_mem e c hc))
      have hst : ∀ c ∈ candRest e, c.stake ≤ 10000000000 := by
        intro c hc
        obtain ⟨_, _, _, _, _, hs⟩ := candOK_unfold c (hall c (candRest_mem e c hc))
        exact hs
      have hw2 : wsum ((candRest e).map (·.stake)) < two64 := by
        have h1 := wsum_stakes_le (candRest e) hst
        have h2 : (candRest e).length * 10000000000 ≤ 10000 * 10000000000 :=
          Nat.mul_le_mul_right _ (Nat.le_trans (candRest_length e) hlen)
        have h3 : 10000 * 10000000000 < two64 := by decide
        omega
      have hs2 : sumStake (candRest e) = wsum ((candRest e).map (·.stake)) := by rw [sumStake_eq]; exact u64_id hw2
      refine ⟨cr2, rfl, ?_, by rw [d2]⟩
      have : csum cr2 * sumStake (candRest e) ≤ (ni * e.B / 100) * sumStake (candRest e) := by
        calc csum cr2 * sumStake (candRest e)
            ≤ ni * e.B / 100 * pairW (candRest e) ((candRest e).map (·.stake)) := d1
          _ = ni * e.B / 100 * sumStake (candRest e) := by rw [pairW_map, hs2]
      exact Nat.le_of_mul_le_mul_right this (Nat.pos_of_ne_zero hsum2)

/-- the node part of the split credits at most the node income and reports exactly what it credited -/
theorem split2Nodes_bound (e : SplitEnv) (ni : Nat) (cr : List (Nat × Nat)) (s : Nat)
    (h : split2Nodes e ni = .ok (cr, s))
    (hall : ∀ c ∈ e.cands, candOK c = true) (hAB : e.A + e.B ≤ 100) (hlen : e.cands.length ≤ 10000)
    (hni : ni < two64) : csum cr ≤ ni ∧ s = csum cr := by
  unfold split2Nodes at h
  split at h
  · cases h
  · split at h
    · cases h; simp [csum]
    · split at h
      · cases h
      · rename_i ws hws
        split at h
        · cases h
        · rename_i hsumS
          split at h
          · cases h
          · rename_i cr1 s1 hn1
            have htopmem : ∀ c ∈ e.cands.take e.K, candOK c = true :=
              fun c hc => hall c (List.mem_of_mem_take hc)
            obtain ⟨b1, b2⟩ := splitNodes_bound _ _ _ _ _ _ _ _ hn1 htopmem
            obtain ⟨w1, _⟩ := curveWeights_le _ _ _ _ _ hws
            have hwl : wsum ws < two64 := by
              have h1 : (e.cands.take e.K).length ≤ 10000 := by simp only [List.length_take]; omega
              have h2 : (e.cands.take e.K).length * (two64 / 100000) ≤ 10000 * (two64 / 100000) :=
                Nat.mul_le_mul_right _ h1
              have h3 : 10000 * (two64 / 100000) < two64 := by decide
              omega
            have hsS : sumW ws = wsum ws := by rw [sumW_eq]; exact u64_id hwl
            have hc1 : csum cr1 ≤ ni * e.A / 100 := by
              have hp := pairW_le (e.cands.take e.K) ws
              have : csum cr1 * sumW ws ≤ (ni * e.A / 100) * sumW ws := by
                calc csum cr1 * sumW ws ≤ ni * e.A / 100 * pairW (e.cands.take e.K) ws := b1
                  _ ≤ ni * e.A / 100 * wsum ws := Nat.mul_le_mul_left _ hp
                  _ = ni * e.A / 100 * sumW ws := by rw [hsS]
              exact Nat.le_of_mul_le_mul_right this (Nat.pos_of_ne_zero hsumS)
            have hsplit := pct_split ni e.A e.B hAB
            have hs1lt : s1 < two64 := by rw [b2]; exact u64_lt _
            obtain ⟨cr2, e1, e2, e3⟩ := split2Cands_bound e ni cr1 cr s1 s h hall hlen hs1lt
            have hs1 : s1 = csum cr1 := by rw [b2]; exact u64_id (by omega)
            subst e1
            rw [csum_append]
            constructor
            · omega
            · rw [e3, u64_id (show csum cr2 < two64 by omega), hs1]; exact u64_id (by omega)

end OntVerif.Proofs.GovSplit
